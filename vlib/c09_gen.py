"""C09 generators: C-compatible value shapes, signatures, and the Go/C echo programs.

Type trees:  ('sc', c)  c in 'bhwqpfd' (int8 int16 int32 int64 pointer float double)
             ('st', [t, ...])     struct
             ('ar', n, t)         array
Protocol syntax (harness/c09, Driver/C09.lean):  b h w q p f d  {..}  [N T]
"""
import struct

SC = {  # code: (Go type, C type, size)
    "b": ("int8", "int8_t", 1), "h": ("int16", "int16_t", 2), "w": ("int32", "int32_t", 4), "q": ("int64", "int64_t", 8),
    "p": ("unsafe.Pointer", "void*", 8), "f": ("float32", "float", 4), "d": ("float64", "double", 8),
}
SCALARS = "bhwqpfd"


def sc(c):
    return ("sc", c)


def st(*fs):
    return ("st", list(fs))


def ar(n, t):
    return ("ar", n, t)


def code(t):
    if t[0] == "sc":
        return t[1]
    if t[0] == "st":
        return "{" + "".join(code(f) for f in t[1]) + "}"
    return "[%d%s]" % (t[1], code(t[2]))


def parse(s):
    def go(i):
        c = s[i]
        if c in SCALARS:
            return sc(c), i + 1
        if c == "{":
            i += 1
            fs = []
            while s[i] != "}":
                f, i = go(i)
                fs.append(f)
            return ("st", fs), i + 1
        if c == "[":
            j = i + 1
            while s[j].isdigit():
                j += 1
            n = int(s[i + 1:j])
            e, j = go(j)
            assert s[j] == "]"
            return ("ar", n, e), j + 1
        raise ValueError(s)
    t, i = go(0)
    assert i == len(s), s
    return t


def align_up(x, a):
    return (x + a - 1) // a * a


def layout(t):
    """-> (size, align, [(offset, scalar code)])  natural C layout (== LLVM data layout on x86-64)"""
    if t[0] == "sc":
        n = SC[t[1]][2]
        return n, n, [(0, t[1])]
    if t[0] == "st":
        cur, al, leaves = 0, 1, []
        for f in t[1]:
            s, a, l = layout(f)
            cur = align_up(cur, a)
            leaves += [(cur + o, c) for o, c in l]
            cur += s
            al = max(al, a)
        return align_up(cur, al), al, leaves
    s, a, l = layout(t[2])
    leaves = []
    for i in range(t[1]):
        leaves += [(i * s + o, c) for o, c in l]
    return t[1] * s, a, leaves


def nleaves(t):
    return len(layout(t)[2])


def depth(t):
    if t[0] == "sc":
        return 0
    if t[0] == "st":
        return 1 + max([depth(f) for f in t[1]] + [0])
    return 1 + depth(t[2])


def is_flat(t):
    return t[0] == "st" and all(f[0] == "sc" for f in t[1])


# ------------------------------------------------------------------ shape generation
BOUNDARY = [
    # DESIGN.md §8 #22 shapes (register exhaustion) and their neighbours
    "{db}", "{pf}", "{fbff}", "{bd}", "{wwf}", "{qd}", "{fffb}", "{qq}", "{dd}", "{dq}", "{fd}", "{df}", "{pb}", "{bp}",
    # float pairs / triples / quads, float-int mixes inside one eightbyte
    "{ff}", "{fff}", "{ffff}", "{fw}", "{wf}", "{ffw}", "{wff}", "{ffwf}", "{fwff}", "{hf}", "{fh}", "{fbh}", "{ffb}", "{bff}",
    "{[2f]}", "{[3f]}", "{[4f]}", "{[2d]}", "{f[2f]}", "{[2f]f}", "{[2f][2f]}", "{[2f]w}", "{w[2f]}", "{[3f]b}",
    # size boundaries 7/8/9, 15/16/17
    "{bbbbbbb}", "{bbbbbbbb}", "{bbbbbbbbb}", "{wwww}", "{wwwwb}", "{qwhb}", "{qwhbb}", "{bhwq}", "{qq b}".replace(" ", ""),
    "{hhhhhhh}", "{hhhhhhhh}", "{hhhhhhhhh}", "{www}", "{wwwb}", "{bbbbbbbbbbbbbbb}"[:14] + "}", "{[15b]}", "{[16b]}", "{[17b]}",
    # single leaves
    "{b}", "{h}", "{w}", "{q}", "{p}", "{f}", "{d}", "{[1b]}", "{{d}}", "{{{w}}}", "{[1[1f]]}",
    # large
    "{qqq}", "{ddd}", "{qqqqqqqqqq}", "{[20w]}", "{d[9q]}", "{[5{db}]}", "{bq[8d]b}",
    # nested without extra padding
    "{{ww}{ww}}", "{{ff}{ff}}", "{{bb}{hh}w}", "{[2{hh}]w}", "{q{ww}}", "{{d}{b}}", "{{q}[2w]}", "{[2{ww}]}", "{{{bb}h}w{f}}",
    # nested WITH padding introduced by nesting (running-offset defect of the split loop)
    "{bbbbb{bw}}", "{{hb}{hb}bb}", "{b{bw}}", "{b{hw}}", "{b{bf}}", "{{wb}b}", "{{wb}bbb}", "{[3{hb}]}", "{[2{hb}]bb}", "{[2{wb}]}",
    "{h{bw}b}", "{{bh}{bw}}", "{f{bf}}", "{{fb}f}", "{bb{bw}w}", "{w{bw}w}", "{[2{bh}]{bw}}", "{{wb}{wb}}", "{{wb}f}", "{{hb}{hb}{hb}}",
]


def rand_scalar(rng, weights=None):
    return sc(rng.choice(weights or "bbhhwwwqqpffd"))


def gen_flat(rng, maxsize, maxn=12):
    n = rng.randint(1, maxn)
    fs = []
    for _ in range(n):
        f = rand_scalar(rng)
        if layout(("st", fs + [f]))[0] > maxsize:
            break
        fs.append(f)
    if not fs:
        fs = [rand_scalar(rng, "bhwf")]
    return ("st", fs)


def gen_nested(rng, maxsize, maxn=12, d=0):
    n = rng.randint(1, 5 if d else 6)
    fs = []
    for _ in range(n):
        r = rng.random()
        if r < 0.5 or d >= 2:
            f = rand_scalar(rng)
        elif r < 0.75:
            f = gen_nested(rng, max(2, maxsize // 2), maxn, d + 1)
        elif r < 0.9:
            f = ("ar", rng.randint(1, 4), rand_scalar(rng, "bhwf" if maxsize <= 16 else "bhwqfd"))
        else:
            f = ("ar", rng.randint(1, 3), gen_nested(rng, max(2, maxsize // 3), maxn, d + 1))
        cand = ("st", fs + [f])
        if layout(cand)[0] > maxsize or nleaves(cand) > maxn:
            continue
        fs.append(f)
    if not fs:
        fs = [rand_scalar(rng, "bhwf")]
    return ("st", fs)


def gen_shape(rng):
    r = rng.random()
    if r < 0.35:
        t = gen_flat(rng, 16)
    elif r < 0.45:
        t = gen_flat(rng, 80)
    elif r < 0.80:
        t = gen_nested(rng, 16)
    elif r < 0.90:
        t = gen_nested(rng, 80)
    elif r < 0.95:
        t = gen_flat(rng, 8)
    else:  # a Go array passed by value (C side: struct wrapping the array)
        t = ("ar", rng.randint(1, 5), rand_scalar(rng, "bhwqfd"))
    size, _, leaves = layout(t)
    if not (1 <= size <= 80 and 1 <= len(leaves) <= 12):
        return gen_shape(rng)
    return t


# ------------------------------------------------------------------ values
def rand_value(rng, c):
    """a recognisable value of scalar kind c: (python number, logged 64-bit word)"""
    if c in "bhwq":
        bits = SC[c][2] * 8
        r = rng.random()
        if r < 0.1:
            v = -1
        elif r < 0.2:
            v = -(1 << (bits - 1)) + 1
        elif r < 0.3:
            v = (1 << (bits - 1)) - 1
        else:
            v = rng.randint(-(1 << (bits - 1)) + 1, (1 << (bits - 1)) - 1)
            if v == 0:
                v = 1
        return v, v & ((1 << bits) - 1)
    if c == "p":
        v = rng.randint(1, (1 << 47) - 1) | (1 << 12)
        return v, v
    if c == "f":
        v = rng.randint(-(1 << 20), 1 << 20) / 8.0 + 0.125
        return v, struct.unpack("<I", struct.pack("<f", v))[0]
    v = rng.randint(-(1 << 40), 1 << 40) / 16.0 + 0.0625
    return v, struct.unpack("<Q", struct.pack("<d", v))[0]


def rand_values(rng, t):
    return [rand_value(rng, c) for _, c in layout(t)[2]]


def go_scalar_lit(c, v):
    if c == "p":
        return "unsafe.Pointer(uintptr(0x%x))" % v
    if c in "fd":
        return repr(float(v))
    return str(v)


def c_scalar_lit(c, v):
    if c == "p":
        return "(void*)0x%xUL" % v
    if c == "f":
        return repr(float(v)) + "f"
    if c == "d":
        return repr(float(v))
    if c == "q":
        return "%dLL" % v
    return str(v)


class Names:
    """C / Go type names for a top-level shape and its nested structs"""

    def __init__(self, prefix, t):
        self.prefix = prefix
        self.t = t
        self.decl_c = []
        self.decl_go = []
        if t[0] == "ar":     # a Go array passed by value; the C side wraps it into a struct
            self._walk(t, prefix + "_0")
            self.decl_c.append("struct %s { %s };" % (prefix, self._cfield(t, "f0", prefix + "_0")))
            self.decl_go.append("type %s %s" % (prefix, self._gotype(t, prefix + "_0")))
        else:
            self._walk(t, prefix)

    def _walk(self, t, name):
        """declare every struct below t (children first); a struct at `t` is called `name`,
        its i-th field's struct `name_i`, array elements keep the name of the array"""
        if t[0] == "sc":
            return
        if t[0] == "ar":
            self._walk(t[2], name)
            return
        cf, gf = [], []
        for i, f in enumerate(t[1]):
            self._walk(f, "%s_%d" % (name, i))
            cf.append(self._cfield(f, "f%d" % i, "%s_%d" % (name, i)))
            gf.append("F%d %s" % (i, self._gotype(f, "%s_%d" % (name, i))))
        self.decl_c.append("struct %s { %s };" % (name, " ".join(cf)))
        self.decl_go.append("type %s struct { %s }" % (name, "; ".join(gf)))

    def _gotype(self, t, name):
        if t[0] == "sc":
            return SC[t[1]][0]
        if t[0] == "st":
            return name
        return "[%d]%s" % (t[1], self._gotype(t[2], name))

    def _cfield(self, t, fname, name):
        dims = ""
        while t[0] == "ar":
            dims += "[%d]" % t[1]
            t = t[2]
        if t[0] == "sc":
            return "%s %s%s;" % (SC[t[1]][1], fname, dims)
        return "struct %s %s%s;" % (name, fname, dims)

    # ---- literals (values consumed in leaf order)
    def go_lit(self, vals):
        it = iter(vals)
        if self.t[0] == "ar":
            return "%s{%s}" % (self.prefix, ", ".join(self._golit(self.t[2], self.prefix + "_0", it) for _ in range(self.t[1])))
        return self._golit(self.t, self.prefix, it)

    def _golit(self, t, name, it):
        if t[0] == "sc":
            return go_scalar_lit(t[1], next(it)[0])
        if t[0] == "st":
            return "%s{%s}" % (name, ", ".join(self._golit(f, "%s_%d" % (name, i), it) for i, f in enumerate(t[1])))
        return "%s{%s}" % (self._gotype(t, name), ", ".join(self._golit(t[2], name, it) for _ in range(t[1])))

    def c_lit(self, vals):
        it = iter(vals)
        if self.t[0] == "ar":
            return "{%s}" % self._clit(self.t, it)
        return self._clit(self.t, it)

    def _clit(self, t, it):
        if t[0] == "sc":
            return c_scalar_lit(t[1], next(it)[0])
        if t[0] == "st":
            return "{%s}" % ", ".join(self._clit(f, it) for f in t[1])
        return "{%s}" % ", ".join(self._clit(t[2], it) for _ in range(t[1]))

    def go_first_leaf(self, var):
        """Go expression of the first scalar leaf of `var` (a pointer to or value of the top-level type)"""
        t, e = self.t, var
        while t[0] != "sc":
            if t[0] == "st":
                if not t[1]:
                    return None
                e, t = e + ".F0", t[1][0]
            else:
                e, t = e + "[0]", t[2]
        return e

    def first_leaf_ok(self):
        """the first leaf is reachable by always taking member 0 (no leading empty struct)"""
        t = self.t
        while t[0] != "sc":
            if t[0] == "st":
                if not t[1] or nleaves(t[1][0]) == 0:
                    return False
                t = t[1][0]
            else:
                t = t[2]
        return True

    def c_leaf_exprs(self, var):
        """C expressions of the leaves of `var` (a struct value or pointer deref), in leaf order"""
        out = []

        def go(t, expr):
            if t[0] == "sc":
                out.append((t[1], expr))
            elif t[0] == "st":
                for i, f in enumerate(t[1]):
                    go(f, "%s.f%d" % (expr, i))
            else:
                for i in range(t[1]):
                    go(t[2], "%s[%d]" % (expr, i))
        if self.t[0] == "ar":
            go(self.t, var + ".f0")
        else:
            go(self.t, var)
        return out


C_PUSH = {"b": "vpush((uint64_t)(uint8_t)(%s));", "h": "vpush((uint64_t)(uint16_t)(%s));", "w": "vpush((uint64_t)(uint32_t)(%s));",
          "q": "vpush((uint64_t)(%s));", "p": "vpush((uint64_t)(uintptr_t)(%s));", "f": "vpushf(%s);", "d": "vpushd(%s);"}
GO_PUSH = {"b": "vlogu(uint64(uint8(%s)))", "h": "vlogu(uint64(uint16(%s)))", "w": "vlogu(uint64(uint32(%s)))", "q": "vlogu(uint64(%s))",
           "p": "vlogu(uint64(uintptr(%s)))", "f": "vlogf(%s)", "d": "vlogd(%s)"}

C_PRELUDE = r'''#include <stdint.h>
#include <stdio.h>
#include <string.h>
'''

C_LOG_IMPL = r'''
static uint64_t vlog_buf[256];
static int vlog_n;
void vpush(uint64_t x) { if (vlog_n < 256) vlog_buf[vlog_n++] = x; }
void vpushf(float x) { uint32_t u; memcpy(&u, &x, 4); vpush(u); }
void vpushd(double x) { uint64_t u; memcpy(&u, &x, 8); vpush(u); }
void vtouch(void *p) { __asm__ volatile("" : : "r"(p) : "memory"); }
void vlogu(uint64_t x) { vpush(x); }
void vlogf(float x) { vpushf(x); }
void vlogd(double x) { vpushd(x); }
int32_t vnext(void) { int k; if (scanf("%d", &k) != 1) return -1; return k; }
int32_t vmark(int32_t k) { return (int32_t)((0x5A000000u + (uint32_t)k) & 0x7FFFFFFFu); }
void vbegin(int32_t k) { vlog_n = 0; printf("B %d\n", k); fflush(stdout); }
void vend(int32_t k) { printf("K %d", k); for (int i = 0; i < vlog_n; i++) printf(" %llx", (unsigned long long)vlog_buf[i]); printf("\n"); fflush(stdout); }
'''

C_LOG_DECL = r'''
void vpush(uint64_t x); void vpushf(float x); void vpushd(double x); void vtouch(void *p);
void vlogu(uint64_t x); void vlogf(float x); void vlogd(double x);
int32_t vnext(void); void vbegin(int32_t k); void vend(int32_t k); int32_t vmark(int32_t k);
'''

MARKER_BASE = 0x5A000000



def leaf_rotation(t):
    """perm with result leaf j := input leaf perm[j]: rotate by one inside every group of leaves of the same scalar kind"""
    ls = layout(t)[2]
    perm = list(range(len(ls)))
    groups = {}
    for i, (_, c) in enumerate(ls):
        groups.setdefault(c, []).append(i)
    for g in groups.values():
        for a, b in zip(g, g[1:] + g[:1]):
            perm[a] = b
    return perm


# Go call sites of kind 'inp' (where the memory M of `M = f(&M)` lives)
INP_DESTS = {
    "local": "v := va; v = f(&v)",
    "global": "gv = f(&gv)   (package variable)",
    "ptr": "func h(p *T) { *p = f(p) }",
    "heap": "p := new(T); *p = va; *p = f(p)",
    "field": "w.f = f(&w.f)   (field of a local struct)",
    "elem": "arr[1] = f(&arr[1])",
    "other": "b := f(&a)   (control: distinct destination)",
    "cglobal": "keep(&v); v = f()   (the callee reaches v through a pointer C kept)",
}
ARGP_SRCS = {"local": "v := va; r := f(v, &v)", "global": "r := f(gv, &gv)", "deref": "func h(p *T) int32 { return f(*p, p) }"}


class Case:
    """one generated function signature + call

    kind: 'arg'  Go -> C   int32 f(pre.., T, post..)
          'ret'  Go -> C   T f(pre..)
          'echo' Go -> C   T f(pre.., T, post..)
          'cbs'  C -> Go   callback  T g(pre.., T, post..)      (Go function passed to a C driver)
          'cbi'  C -> Go   callback  int32 g(pre.., T, post..)
          'cbm'  C -> Go   callback  T g(T *p) { r := *p; p.<first leaf> = v; return r }   (copy, mutate the pointee, return the copy)
          'inp'  Go -> C   T f(const T *p)  called as  M = f(&M): the result is stored to memory the callee can reach.
                 dest: where M lives on the Go side (INP_DESTS); 'cglobal': the callee reaches M through a pointer C kept
                 style 'perm':  f fills its result leaf by leaf from *p (leaf j := p->leaf[perm[j]])
                 style 'touch': f fills its result with constants first and logs *p afterwards
          'argp' Go -> C   int32 f(T s, T *p) called as f(M, &M): f stores to p->leaf0, logs s (must be the ORIGINAL value),
                 overwrites s; Go logs M afterwards (only leaf0 changed).  dest: where M lives (ARGP_SRCS)
    """

    def __init__(self, idx, kind, shape_idx, t, pre, post, rng, closure=False, capture=False, dest=None, style=None):
        self.idx, self.kind, self.shape_idx, self.t = idx, kind, shape_idx, t
        self.dest, self.style = dest, style
        self.pre, self.post = pre, post          # lists of scalar codes
        self.closure = closure or capture
        self.capture = capture and kind == "cbi"   # the func literal captures a local variable (the value it returns)
        self.pre_v = [rand_value(rng, c) for c in pre]
        self.post_v = [rand_value(rng, c) for c in post]
        self.arg_v = rand_values(rng, t)
        self.ret_v = rand_values(rng, t)
        self.marker = (MARKER_BASE + idx) & 0x7FFFFFFF
        if kind == "cbm":
            self.pre, self.post, self.pre_v, self.post_v = [], [], [], []
            c0 = layout(t)[2][0][1]
            self.mut_v = rand_value(rng, c0)
            while self.mut_v[1] == self.arg_v[0][1]:
                self.mut_v = rand_value(rng, c0)
        if kind in ("inp", "argp"):
            self.pre, self.post, self.pre_v, self.post_v = [], [], [], []
            c0 = layout(t)[2][0][1]
            self.mut_v = rand_value(rng, c0)
            while self.mut_v[1] == self.arg_v[0][1]:
                self.mut_v = rand_value(rng, c0)
            self.perm = leaf_rotation(t)

    def has_arg(self):
        return self.kind != "ret"

    def ret_struct(self):
        return self.kind in ("ret", "echo", "cbs", "cbm", "inp")

    def sig_words(self):
        """protocol words: RET P1 P2 ..  (for `sig` / `place` lines)"""
        r = code(self.t) if self.ret_struct() else "w"
        if self.kind == "cbm":
            return [r, "p"]
        if self.kind == "inp":
            return [r] if self.dest == "cglobal" else [r, "p"]
        if self.kind == "argp":
            return ["w", code(self.t), "p"]
        ps = list(self.pre) + ([code(self.t)] if self.has_arg() else []) + list(self.post)
        return [r] + ps

    def struct_param_index(self):
        return len(self.pre) if self.has_arg() else None

    def expected(self):
        if self.kind == "cbm":    # the returned copy carries the ORIGINAL values; then the pointee's first leaf, mutated
            return [v[1] for v in self.arg_v] + [self.mut_v[1]]
        if self.kind == "inp":
            if self.style == "touch":   # *p as the callee sees it after it has filled its result object; then the result
                return [v[1] for v in self.arg_v] + [v[1] for v in self.ret_v]
            return [self.arg_v[j][1] for j in self.perm]
        if self.kind == "argp":   # s as received; the int32 result; M afterwards
            return [v[1] for v in self.arg_v] + [self.marker] + [self.mut_v[1]] + [v[1] for v in self.arg_v[1:]]
        w = [v[1] for v in self.pre_v]
        if self.has_arg():
            w += [v[1] for v in self.arg_v]
        w += [v[1] for v in self.post_v]
        if self.ret_struct():
            w += [v[1] for v in self.ret_v]
        else:
            w.append(self.marker)
        return w

    def word_labels(self):
        if self.kind == "cbm":
            return ["ret.leaf%d:%s@%d" % (i, c, o) for i, (o, c) in enumerate(layout(self.t)[2])] + ["pointee.leaf0.after"]
        if self.kind == "inp":
            ls = layout(self.t)[2]
            if self.style == "touch":
                return ["input.leaf%d:%s@%d(as read by the callee)" % (i, c, o) for i, (o, c) in enumerate(ls)] + \
                       ["ret.leaf%d:%s@%d" % (i, c, o) for i, (o, c) in enumerate(ls)]
            return ["ret.leaf%d:%s@%d(=input.leaf%d)" % (i, c, o, self.perm[i]) for i, (o, c) in enumerate(ls)]
        if self.kind == "argp":
            ls = layout(self.t)[2]
            return ["arg.leaf%d:%s@%d" % (i, c, o) for i, (o, c) in enumerate(ls)] + ["ret:int32"] + \
                   ["M.leaf%d.after:%s@%d" % (i, c, o) for i, (o, c) in enumerate(ls)]
        lab = ["pre%d:%s" % (i, c) for i, c in enumerate(self.pre)]
        if self.has_arg():
            lab += ["arg.leaf%d:%s@%d" % (i, c, o) for i, (o, c) in enumerate(layout(self.t)[2])]
        lab += ["post%d:%s" % (i, c) for i, c in enumerate(self.post)]
        if self.ret_struct():
            lab += ["ret.leaf%d:%s@%d" % (i, c, o) for i, (o, c) in enumerate(layout(self.t)[2])]
        else:
            lab.append("ret:int32")
        return lab

    def describe(self):
        d = {"case": self.idx, "kind": self.kind, "shape": code(self.t), "pre": "".join(self.pre), "post": "".join(self.post),
             "closure": self.closure, "capture": self.capture, "sig": " ".join(self.sig_words())}
        if self.kind == "inp":
            d.update({"go_call_site": INP_DESTS[self.dest], "callee_style": self.style, "perm": self.perm})
        if self.kind == "argp":
            d.update({"go_call_site": ARGP_SRCS[self.dest]})
        return d


def build_sources(shapes, cases):
    """shapes: list of type trees (index = shape id); cases: list of Case.
    Returns dict of file contents:
      shapes.h, callee.c (C functions called from Go + drivers that call Go callbacks + log), main.go,
      refmain.c (the same calls made from C, with C callbacks)"""
    names = [Names("T%d" % i, t) for i, t in enumerate(shapes)]
    used = sorted(set(c.shape_idx for c in cases))
    h = ["#pragma once", C_PRELUDE, C_LOG_DECL]
    inplace = ['#include "shapes.h"', ""]
    for i in used:
        h += names[i].decl_c
        h.append("void vlogT%d(const struct T%d *p);" % (i, i))
    callee = ['#include "shapes.h"', C_LOG_IMPL]
    go = ["package main", "", 'import "unsafe"', "", "const (", '\tLLGoFiles   = "@LLGOFILES@"', '\tLLGoPackage = "@LLGOPACKAGE@"', ")", "",
          "//go:linkname vlogu C.vlogu", "func vlogu(x uint64)", "//go:linkname vlogf C.vlogf", "func vlogf(x float32)",
          "//go:linkname vlogd C.vlogd", "func vlogd(x float64)", "//go:linkname vnext C.vnext", "func vnext() int32",
          "//go:linkname vmark C.vmark", "func vmark(k int32) int32", "//go:linkname vbegin C.vbegin", "func vbegin(k int32)", "//go:linkname vend C.vend", "func vend(k int32)", "",
          "var _ = unsafe.Pointer(nil)", ""]
    ref = ['#include "shapes.h"', ""]
    for i in used:
        nm = names[i]
        go += nm.decl_go
        go += ["//go:linkname vlogT%d C.vlogT%d" % (i, i), "func vlogT%d(p *T%d)" % (i, i), ""]
        body = " ".join(C_PUSH[c] % e for c, e in nm.c_leaf_exprs("(*p)"))
        callee.append("void vlogT%d(const struct T%d *p) { %s }" % (i, i, body))
    for cs in cases:
        nm = names[cs.shape_idx]
        k = cs.idx
        T = "struct T%d" % cs.shape_idx
        GT = "T%d" % cs.shape_idx
        cparams, gparams, cargs_c, gargs, clog, glog = [], [], [], [], [], []
        for j, (c, v) in enumerate(zip(cs.pre, cs.pre_v)):
            cparams.append("%s a%d" % (SC[c][1], j)); gparams.append("a%d %s" % (j, SC[c][0]))
            cargs_c.append(c_scalar_lit(c, v[0])); gargs.append(go_scalar_lit(c, v[0]))
            clog.append(C_PUSH[c] % ("a%d" % j)); glog.append(GO_PUSH[c] % ("a%d" % j))
        if cs.has_arg():
            cparams.append("%s s" % T); gparams.append("s %s" % GT)
            cargs_c.append("va%d" % k); gargs.append("va%d" % k)
            clog.append("vlogT%d(&s);" % cs.shape_idx); glog.append("vlogT%d(&s)" % cs.shape_idx)
        for j, (c, v) in enumerate(zip(cs.post, cs.post_v)):
            cparams.append("%s b%d" % (SC[c][1], j)); gparams.append("b%d %s" % (j, SC[c][0]))
            cargs_c.append(c_scalar_lit(c, v[0])); gargs.append(go_scalar_lit(c, v[0]))
            clog.append(C_PUSH[c] % ("b%d" % j)); glog.append(GO_PUSH[c] % ("b%d" % j))
        cret = T if cs.ret_struct() else "int32_t"
        gret = GT if cs.ret_struct() else "int32"
        cpl = ", ".join(cparams) if cparams else "void"
        cval_a = "static const %s va%d = %s;" % (T, k, nm.c_lit(cs.arg_v))
        cval_r = "static const %s vr%d = %s;" % (T, k, nm.c_lit(cs.ret_v))
        if cs.kind == "cbm":
            c0 = layout(cs.t)[2][0][1]
            cleaf0 = nm.c_leaf_exprs("s")[0][1]
            callee.append(cval_a)
            callee.append("void d%d(%s (*f)(%s *)) { %s s = va%d; %s r = f(&s); vlogT%d(&r); %s }" %
                          (k, T, T, T, k, T, cs.shape_idx, C_PUSH[c0] % cleaf0))
            h.append("void d%d(%s (*f)(%s *));" % (k, T, T))
            go += ["//go:linkname d%d C.d%d" % (k, k), "func d%d(f func(p *%s) %s)" % (k, GT, GT)]
            gbody = "r := *p; %s = %s; return r" % (nm.go_first_leaf("p"), go_scalar_lit(c0, cs.mut_v[0]))
            if cs.closure:
                go.append("func case%d() { d%d(func(p *%s) %s { %s }) }" % (k, k, GT, GT, gbody))
            else:
                go.append("func g%d(p *%s) %s { %s }" % (k, GT, GT, gbody))
                go.append("func case%d() { d%d(g%d) }" % (k, k, k))
            ref.append("static %s g%d(%s *p) { %s r = *p; %s = %s; return r; }" % (T, k, T, T, nm.c_leaf_exprs("(*p)")[0][1], c_scalar_lit(c0, cs.mut_v[0])))
            ref.append("static void case%d(void) { d%d(g%d); }" % (k, k, k))
            go.append("")
            continue
        if cs.kind == "inp":
            leaves_r = nm.c_leaf_exprs("r")
            leaves_p = nm.c_leaf_exprs("(*p)")
            via_global = cs.dest == "cglobal"
            if via_global:
                inplace.append("static const %s *gp%d; void keep%d(const %s *p) { gp%d = p; }" % (T, k, k, T, k))
                h.append("void keep%d(const %s *p); %s c%d(void);" % (k, T, T, k))
                head = "%s c%d(void) { const %s *p = gp%d;" % (T, k, T, k)
            else:
                h.append("%s c%d(const %s *p);" % (T, k, T))
                head = "%s c%d(const %s *p) {" % (T, k, T)
            if cs.style == "touch":
                inplace.append(cval_r)
                inplace.append("%s %s r = vr%d; vtouch(&r); vlogT%d(p); return r; }" % (head, T, k, cs.shape_idx))
            else:
                body = " ".join("%s = %s;" % (leaves_r[j][1], leaves_p[cs.perm[j]][1]) for j in range(len(leaves_r)))
                inplace.append("%s %s r; memset(&r, 0, sizeof r); %s return r; }" % (head, T, body))
            go.append("var va%d = %s" % (k, nm.go_lit(cs.arg_v)))
            if via_global:
                go += ["//go:linkname c%d C.c%d" % (k, k), "func c%d() %s" % (k, GT), "//go:linkname keep%d C.keep%d" % (k, k), "func keep%d(p *%s)" % (k, GT)]
            else:
                go += ["//go:linkname c%d C.c%d" % (k, k), "func c%d(p *%s) %s" % (k, GT, GT)]
            L = "vlogT%d" % cs.shape_idx
            gosite = {
                "local": "func case%d() { v := va%d; v = c%d(&v); %s(&v) }" % (k, k, k, L),
                "global": "var gv%d %s\nfunc case%d() { gv%d = va%d; gv%d = c%d(&gv%d); %s(&gv%d) }" % (k, GT, k, k, k, k, k, k, L, k),
                "ptr": "func h%d(p *%s) { *p = c%d(p) }\nfunc case%d() { v := va%d; h%d(&v); %s(&v) }" % (k, GT, k, k, k, k, L),
                "heap": "func case%d() { p := new(%s); *p = va%d; *p = c%d(p); %s(p) }" % (k, GT, k, k, L),
                "field": "type w%d struct { pad int32; f %s }\nfunc case%d() { var w w%d; w.f = va%d; w.f = c%d(&w.f); %s(&w.f) }" % (k, GT, k, k, k, k, L),
                "elem": "func case%d() { var arr [3]%s; arr[1] = va%d; arr[1] = c%d(&arr[1]); %s(&arr[1]) }" % (k, GT, k, k, L),
                "other": "func case%d() { a := va%d; b := c%d(&a); %s(&b) }" % (k, k, k, L),
                "cglobal": "func case%d() { v := va%d; keep%d(&v); v = c%d(); %s(&v) }" % (k, k, k, k, L),
            }[cs.dest]
            go += gosite.split("\n")
            go.append("")
            ref.append(cval_a)
            if via_global:
                ref.append("static void case%d(void) { %s v = va%d; keep%d(&v); v = c%d(); vlogT%d(&v); }" % (k, T, k, k, k, cs.shape_idx))
            elif cs.dest == "other":
                ref.append("static void case%d(void) { %s a = va%d; %s b = c%d(&a); vlogT%d(&b); }" % (k, T, k, T, k, cs.shape_idx))
            else:
                ref.append("static void case%d(void) { %s v = va%d; v = c%d(&v); vlogT%d(&v); }" % (k, T, k, k, cs.shape_idx))
            continue
        if cs.kind == "argp":
            c0 = layout(cs.t)[2][0][1]
            callee.append("int32_t c%d(%s s, %s *p) { %s = %s; vlogT%d(&s); memset(&s, 0x5A, sizeof s); vtouch(&s); return %d; }" %
                          (k, T, T, nm.c_leaf_exprs("(*p)")[0][1], c_scalar_lit(c0, cs.mut_v[0]), cs.shape_idx, cs.marker))
            h.append("int32_t c%d(%s s, %s *p);" % (k, T, T))
            go.append("var va%d = %s" % (k, nm.go_lit(cs.arg_v)))
            go += ["//go:linkname c%d C.c%d" % (k, k), "func c%d(s %s, p *%s) int32" % (k, GT, GT)]
            L = "vlogT%d" % cs.shape_idx
            gosite = {
                "local": "func case%d() { v := va%d; r := c%d(v, &v); vlogu(uint64(uint32(r))); %s(&v) }" % (k, k, k, L),
                "global": "var gv%d %s\nfunc case%d() { gv%d = va%d; r := c%d(gv%d, &gv%d); vlogu(uint64(uint32(r))); %s(&gv%d) }" % (k, GT, k, k, k, k, k, k, L, k),
                "deref": "func h%d(p *%s) int32 { return c%d(*p, p) }\nfunc case%d() { v := va%d; r := h%d(&v); vlogu(uint64(uint32(r))); %s(&v) }" % (k, GT, k, k, k, k, L),
            }[cs.dest]
            go += gosite.split("\n")
            go.append("")
            ref.append(cval_a)
            ref.append("static void case%d(void) { %s v = va%d; int32_t r = c%d(v, &v); vpush((uint64_t)(uint32_t)r); vlogT%d(&v); }" % (k, T, k, k, cs.shape_idx))
            continue
        if cs.has_arg():
            go.append("var va%d = %s" % (k, nm.go_lit(cs.arg_v)))
            ref.append(cval_a)
        if cs.kind in ("arg", "ret", "echo"):
            # C callee, Go caller
            if cs.ret_struct():
                callee.append(cval_r)
            callee.append("%s c%d(%s) { %s return %s; }" % (cret, k, cpl, " ".join(clog), ("vr%d" % k) if cs.ret_struct() else str(cs.marker)))
            h.append("%s c%d(%s);" % (cret, k, cpl))
            go += ["//go:linkname c%d C.c%d" % (k, k), "func c%d(%s) %s" % (k, ", ".join(gparams), gret)]
            call = "c%d(%s)" % (k, ", ".join(gargs))
            if cs.ret_struct():
                go.append("func case%d() { r := %s; vlogT%d(&r) }" % (k, call, cs.shape_idx))
                ref.append("static void case%d(void) { %s r = c%d(%s); vlogT%d(&r); }" % (k, T, k, ", ".join(cargs_c), cs.shape_idx))
            else:
                go.append("func case%d() { r := %s; vlogu(uint64(uint32(r))) }" % (k, call))
                ref.append("static void case%d(void) { int32_t r = c%d(%s); vpush((uint64_t)(uint32_t)r); }" % (k, k, ", ".join(cargs_c)))
        else:
            # C driver calls a Go callback
            fptr = "%s (*f)(%s)" % (cret, cpl)
            callee.append(cval_a)
            if cs.ret_struct():
                callee.append("void d%d(%s) { %s r = f(%s); vlogT%d(&r); }" % (k, fptr, T, ", ".join(cargs_c), cs.shape_idx))
            else:
                callee.append("void d%d(%s) { int32_t r = f(%s); vpush((uint64_t)(uint32_t)r); }" % (k, fptr, ", ".join(cargs_c)))
            h.append("void d%d(%s);" % (k, fptr))
            gfty = "func(%s) %s" % (", ".join(gparams), gret)
            go += ["//go:linkname d%d C.d%d" % (k, k), "func d%d(f %s)" % (k, gfty)]
            gbody = "; ".join(glog)
            if cs.ret_struct():
                go.append("var vr%d = %s" % (k, nm.go_lit(cs.ret_v)))
                gretx = "vr%d" % k
            else:
                gretx = str(cs.marker)
            if cs.capture:
                go.append("func case%d() { m := vmark(%d); d%d(func(%s) %s { %s; return m }) }" % (k, k, k, ", ".join(gparams), gret, gbody or "_ = 0"))
            elif cs.closure:
                go.append("func case%d() { d%d(func(%s) %s { %s; return %s }) }" % (k, k, ", ".join(gparams), gret, gbody or "_ = 0", gretx))
            else:
                go.append("func g%d(%s) %s { %s; return %s }" % (k, ", ".join(gparams), gret, gbody or "_ = 0", gretx))
                go.append("func case%d() { d%d(g%d) }" % (k, k, k))
            if cs.ret_struct():
                ref.append(cval_r)
            ref.append("static %s g%d(%s) { %s return %s; }" % (cret, k, cpl, " ".join(clog), ("vr%d" % k) if cs.ret_struct() else str(cs.marker)))
            ref.append("static void case%d(void) { d%d(g%d); }" % (k, k, k))
        go.append("")
    go += ["func run(k int32) {", "\tswitch k {"]
    ref += ["static void run(int k) {", "  switch (k) {"]
    for cs in cases:
        go.append("\tcase %d:\n\t\tcase%d()" % (cs.idx, cs.idx))
        ref.append("  case %d: case%d(); break;" % (cs.idx, cs.idx))
    go += ["\t}", "}", "", "func main() {", "\tfor {", "\t\tk := vnext()", "\t\tif k < 0 {", "\t\t\tbreak", "\t\t}", "\t\tvbegin(k)", "\t\trun(k)", "\t\tvend(k)", "\t}", "}", ""]
    ref += ["  }", "}", "int main(void) { for (;;) { int k = vnext(); if (k < 0) break; vbegin(k); run(k); vend(k); } return 0; }", ""]
    # the callees of kind 'inp' live in a file of their own: they are always compiled by clang (which constructs a returned
    # struct in place, i.e. writes the result object while reading the input), also when the rest of the C side is gcc's
    callee += ["#ifndef VERIF_NO_INPLACE", '#include "inplace.c"', "#endif"]
    return {"shapes.h": "\n".join(h) + "\n", "callee.c": "\n".join(callee) + "\n", "inplace.c": "\n".join(inplace) + "\n",
            "main.go": "\n".join(go), "refmain.c": "\n".join(ref)}


def parse_output(out):
    """stdout of an echo program -> ({case: [words]}, case in progress when the output ended (or None))"""
    res, cur = {}, None
    for line in out.split("\n"):
        f = line.split()
        if not f:
            continue
        if f[0] == "B" and len(f) == 2:
            cur = int(f[1])
        elif f[0] == "K" and len(f) >= 2:
            try:
                res[int(f[1])] = [int(x, 16) for x in f[2:]]
            except ValueError:
                continue
            cur = None
    return res, cur


# ------------------------------------------------------------------ call-site contexts for the in-process tie (harness/c09 `xform`)
LL_SC = {"b": "i8", "h": "i16", "w": "i32", "q": "i64", "p": "ptr", "f": "float", "d": "double"}


def ll_type(t):
    if t[0] == "sc":
        return LL_SC[t[1]]
    if t[0] == "st":
        return "{ " + ", ".join(ll_type(f) for f in t[1]) + " }" if t[1] else "{}"
    return "[%d x %s]" % (t[1], ll_type(t[2]))


# what the Go code does with the result of the call:  name -> (destination object | None, the result's only use is the directly following store)
CS_USES = {
    "nsl": ("loc", True),      # v = f(&v): store to the local whose address is an argument
    "nsg": ("g", True),        # g = f(&g): store to a package variable
    "nsp": ("dstp", True),     # *p = f(p): store through a pointer parameter
    "nso": ("other", True),    # b = f(&a): store to an unrelated local
    "two": ("loc", False),     # the result has a second use
    "late": ("loc", False),    # an instruction sits between the call and the store (bd.pos = f(&bd.pos))
    "ret": (None, False),      # return f(&v)
}
# how the by-value aggregate argument was produced:  name -> the argument is a load (directly before the call or earlier)
CS_ARGS = {"load": True, "early": True, "const": False, "none": None}


def callsite_module(t):
    """textual LLVM IR (opaque pointers): one caller per (use, arg) context around a call `T cf(ptr[, T])`"""
    T = ll_type(t)
    out = ["@g = global %s zeroinitializer" % T, ""]
    names = []
    for use, (dest, _) in CS_USES.items():
        for arg, isload in CS_ARGS.items():
            nm = "%s_%s" % (use, arg)
            names.append(nm)
            byv = arg != "none"
            out.append("declare %s @cf_%s(ptr%s)" % (T, nm, (", " + T) if byv else ""))
            rett = T if use == "ret" else "void"
            out.append("define %s @caller_%s(ptr %%dstp) {" % (rett, nm))
            out.append("entry:")
            for v in ("loc", "other", "src"):
                out.append("  %%%s = alloca %s" % (v, T))
                out.append("  store %s zeroinitializer, ptr %%%s" % (T, v))
            ptrarg = {"nsl": "%loc", "nsg": "@g", "nsp": "%dstp", "nso": "%src", "two": "%loc", "late": "%loc", "ret": "%loc"}[use]
            a = ""
            if arg == "load":
                out.append("  %%a = load %s, ptr %%src" % T)
                a = ", %s %%a" % T
            elif arg == "early":
                out.append("  %%a = load %s, ptr %%src" % T)
                out.append("  store %s zeroinitializer, ptr %%src" % T)
                a = ", %s %%a" % T
            elif arg == "const":
                a = ", %s zeroinitializer" % T
            out.append("  %%r = call %s @cf_%s(ptr %s%s)" % (T, nm, ptrarg, a))
            if use == "ret":
                out.append("  ret %s %%r" % T)
            else:
                d = {"loc": "%loc", "g": "@g", "dstp": "%dstp", "other": "%other"}[dest]
                if use == "late":
                    out.append("  %x = getelementptr i8, ptr %dstp, i64 0")
                out.append("  store %s %%r, ptr %s" % (T, d))
                if use == "two":
                    out.append("  store %s %%r, ptr %%other" % T)
                out.append("  ret void")
            out.append("}")
            out.append("")
    return "\n".join(out), names
