import LlgoVerif.Model.TypeDesc
/-! Helper lemmas for the two-site agreements of `Model/TypeDesc.lean` (C15). -/
namespace LlgoVerif.Types

/-- `RuntimeName` only depends on the kind (when the per-declaration facts are consistent) -/
theorem runtimeName_by_kind (env : Env) (uh : Nat → Header) (hu : ∀ d, uh d = emitHeader (env.underKind d)) :
    ∀ t : GoType, runtimeNameC uh t = emitHeader (kindOf env t)
  | .alias _ a => by simpa [runtimeNameC, kindOf] using runtimeName_by_kind env uh hu a
  | .basic k => by cases k <;> rfl
  | .pointer _ => rfl
  | .slice _ => rfl
  | .func _ _ _ => rfl
  | .iface _ => rfl
  | .struct _ => rfl
  | .map _ _ => rfl
  | .array _ _ => rfl
  | .chan _ _ => rfl
  | .named d _ _ _ _ => by simp [runtimeNameC, kindOf, hu]

/-- a type the compiler marks `KindDirectIface` has one of seven kinds -/
theorem direct_kinds (env : Env) (ud : Nat → Bool) (hd : ∀ d, ud d = true → directKind (env.underKind d) = true) :
    ∀ t : GoType, directIfaceTypeC ud t = true → directKind (kindOf env t) = true
  | .alias _ a => by simpa [directIfaceTypeC, kindOf] using direct_kinds env ud hd a
  | .basic k => by cases k <;> simp [directIfaceTypeC, kindOf, basicKind, directKind]
  | .pointer _ => fun _ => rfl
  | .slice _ => by simp [directIfaceTypeC]
  | .func _ _ _ => fun _ => rfl
  | .iface _ => by simp [directIfaceTypeC]
  | .struct _ => fun _ => rfl
  | .map _ _ => fun _ => rfl
  | .array _ _ => fun _ => rfl
  | .chan _ _ => fun _ => rfl
  | .named d _ _ _ _ => by simpa [directIfaceTypeC, kindOf] using hd d

/-- with the right package path, reflect's derivation gives Go's answer for every field -/
theorem derive_of_pkg (exported : Str → Bool) (P : Str) :
    ∀ fs : FList, fieldsOfPkg exported P fs = true → derivePkgPaths exported P fs = goFieldPkgPaths fs
  | .nil, _ => rfl
  | .cons name pkg emb tag t r, h => by
    simp only [fieldsOfPkg, Bool.and_eq_true, beq_iff_eq] at h
    obtain ⟨h1, h2⟩ := h
    have ih := derive_of_pkg exported P r h2
    by_cases he : exported name = true
    · simp [derivePkgPaths, goFieldPkgPaths, he, h1, ih]
    · have he' : exported name = false := by simpa using he
      simp [derivePkgPaths, goFieldPkgPaths, he', h1, ih]

/-- the emitted `PkgPath_` is that package — unless no field needs it -/
theorem structPkgPath_cases (exported : Str → Bool) (P : Str) :
    ∀ fs : FList, fieldsOfPkg exported P fs = true →
      structPkgPath fs = P ∨ ∀ pp, derivePkgPaths exported pp fs = derivePkgPaths exported P fs
  | .nil, _ => Or.inr fun _ => rfl
  | .cons name pkg emb tag t r, h => by
    simp only [fieldsOfPkg, Bool.and_eq_true, beq_iff_eq] at h
    obtain ⟨h1, h2⟩ := h
    by_cases he : exported name = true
    · simp only [he, if_true] at h1
      subst h1
      rcases structPkgPath_cases exported P r h2 with ih | ih
      · exact Or.inl (by simpa [structPkgPath] using ih)
      · exact Or.inr fun pp => by simp [derivePkgPaths, he, ih pp]
    · have he' : exported name = false := by simpa using he
      simp only [he', Bool.false_eq_true, if_false] at h1
      subst h1
      exact Or.inl rfl

end LlgoVerif.Types
