// Package catomic: stand-in for clite/sync/atomic (single-threaded native harness use).
package catomic

import "unsafe"

type integer interface {
	~int | ~int8 | ~int16 | ~int32 | ~int64 | ~uint | ~uint8 | ~uint16 | ~uint32 | ~uint64 | ~uintptr
}

func Or[T integer](p *T, v T) T     { old := *p; *p = old | v; return old }
func And[T integer](p *T, v T) T    { old := *p; *p = old & v; return old }
func Add[T integer](p *T, v T) T    { old := *p; *p = old + v; return old }
func Load[T any](p *T) T            { return *p }
func Store[T any](p *T, v T)        { *p = v }
func Exchange[T any](p *T, v T) T   { old := *p; *p = v; return old }
func CompareAndExchange[T comparable](p *T, old, new T) (T, bool) {
	if *p == old {
		*p = new
		return old, true
	}
	return *p, false
}

var _ = unsafe.Pointer(nil)
