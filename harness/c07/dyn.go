// C07 harness, dynamic equality / hashing part: what the REAL ssa/abi (EqualName, TFlag & TFlagRegularMemory, Kind, Size,
// Sizes.Offsetsof) and the REAL ssa/abitype.go directIfaceType (copied verbatim from the working tree into zz_direct.go by
// the check) put into the descriptor of a type.
//
// For every package-level variable D<i>:
//
//	dyn <i> <types.Comparable> <desc tree> | <type term>
//
// desc tree (what runtime alg.go / z_face.go read of an abi.Type):
//
//	P size regular direct equal pkind            pkind: f32 f64 c64 c128 str other
//	I size regular direct equal nmethods
//	A size regular direct equal len <elem>
//	S size regular direct equal nfields (blank off <field>)…
//
// type term (for the Lean model of the compiler side, Model/DynEq.lean `Ty`):
//
//	b <basic> | p <pointer|chan|map|func> tag | l tag | i nmethods tag | a n <elem> | s size n (nameid off <field>)… | n id <underlying>
package main

import (
	"fmt"
	"go/types"
	"strings"

	"github.com/goplus/llgo/ssa/abi"

	rabi "github.com/goplus/llgo/runtime/abi"
)

type dynSer struct {
	b     *abi.Builder
	tags  map[string]int
	names map[string]int
	decls map[*types.TypeName]int
}

func newDynSer(b *abi.Builder) *dynSer {
	return &dynSer{b, map[string]int{}, map[string]int{}, map[*types.TypeName]int{}}
}

func (d *dynSer) tag(t types.Type) int {
	k := types.TypeString(t, nil)
	if id, ok := d.tags[k]; ok {
		return id
	}
	id := len(d.tags) + 1
	d.tags[k] = id
	return id
}

func eqName(s string) string {
	if s == "" {
		return "-"
	}
	return s
}

func (d *dynSer) common(t types.Type) string {
	b := d.b
	return fmt.Sprintf("%d %s %s %s", b.Size(t), b01(b.TFlag(t)&rabi.TFlagRegularMemory != 0), b01(directIfaceType(t)), eqName(b.EqualName(t)))
}

func (d *dynSer) desc(t types.Type) string {
	b := d.b
	u := types.Unalias(t).Underlying()
	switch u := u.(type) {
	case *types.Interface:
		return fmt.Sprintf("I %s %d", d.common(t), u.NumMethods())
	case *types.Array:
		// abiExtendedFields: Elem = abiType(PublicType(t.Elem())), Len
		return fmt.Sprintf("A %s %d %s", d.common(t), u.Len(), d.desc(abi.PublicType(u.Elem())))
	case *types.Struct:
		n := u.NumFields()
		fields := make([]*types.Var, n)
		for i := 0; i < n; i++ {
			fields[i] = u.Field(i)
		}
		var offs []int64
		if n > 0 {
			offs = b.Sizes.Offsetsof(fields)
		}
		var sb strings.Builder
		fmt.Fprintf(&sb, "S %s %d", d.common(t), n)
		for i, f := range fields {
			fmt.Fprintf(&sb, " %s %d %s", b01(f.Name() == "_"), offs[i], d.desc(abi.PublicType(f.Type())))
		}
		return sb.String()
	}
	pk := "other"
	switch b.Kind(t) {
	case rabi.Float32:
		pk = "f32"
	case rabi.Float64:
		pk = "f64"
	case rabi.Complex64:
		pk = "c64"
	case rabi.Complex128:
		pk = "c128"
	case rabi.String:
		pk = "str"
	}
	return fmt.Sprintf("P %s %s", d.common(t), pk)
}

func (d *dynSer) term(t types.Type) string {
	t = types.Unalias(t)
	switch t := t.(type) {
	case *types.Basic:
		n := t.Name()
		if t.Kind() == types.UnsafePointer {
			n = "unsafe.Pointer"
		}
		// byte / rune are alias objects of uint8 / int32 (one types.Kind each)
		if n == "byte" {
			n = "uint8"
		}
		if n == "rune" {
			n = "int32"
		}
		return "b " + n
	case *types.Pointer:
		return fmt.Sprintf("p pointer %d", d.tag(t))
	case *types.Chan:
		return fmt.Sprintf("p chan %d", d.tag(t))
	case *types.Map:
		return fmt.Sprintf("p map %d", d.tag(t))
	case *types.Signature:
		return fmt.Sprintf("p func %d", d.tag(t))
	case *types.Slice:
		return fmt.Sprintf("l %d", d.tag(t))
	case *types.Interface:
		return fmt.Sprintf("i %d %d", t.NumMethods(), d.tag(t))
	case *types.Array:
		return fmt.Sprintf("a %d %s", t.Len(), d.term(t.Elem()))
	case *types.Struct:
		n := t.NumFields()
		fields := make([]*types.Var, n)
		for i := 0; i < n; i++ {
			fields[i] = t.Field(i)
		}
		var offs []int64
		if n > 0 {
			offs = d.b.Sizes.Offsetsof(fields)
		}
		var sb strings.Builder
		fmt.Fprintf(&sb, "s %d %d", d.b.Size(t), n)
		for i, f := range fields {
			id := 0
			if f.Name() != "_" {
				k := f.Name()
				if f.Embedded() {
					k = "-" + k
				}
				if tg := t.Tag(i); tg != "" {
					k += "`" + tg
				}
				var ok bool
				if id, ok = d.names[k]; !ok {
					id = len(d.names) + 1
					d.names[k] = id
				}
			}
			fmt.Fprintf(&sb, " %d %d %s", id, offs[i], d.term(f.Type()))
		}
		return sb.String()
	case *types.Named:
		o := t.Origin().Obj()
		id, ok := d.decls[o]
		if !ok {
			id = len(d.decls) + 1
			d.decls[o] = id
		}
		return fmt.Sprintf("n %d %s", id, d.term(t.Underlying()))
	}
	panic("dyn term: unsupported type " + t.String())
}
