import LlgoVerif.Util
import LlgoVerif.Model.CAbi
import LlgoVerif.Spec.SysV
import LlgoVerif.Spec.AAPCS64
import LlgoVerif.Model.CAbiCall
import LlgoVerif.Model.CgoStr
/-! Line-protocol driver for C09. One request per line, one answer per line.

    Types: `b h w q p f d` = i8 i16 i32 i64 ptr float double; `{..}` struct; `[N T]` array; `v` = no result.

    cls T | clsret T      model of GetTypeInfo: `<kind> size=S align=A n=N off2=O`   (same format as harness/c09)
    clslegacy T | clsretlegacy T  the same for the classifier before the nested-padding fix (Cfg.legacy)
    judge T <kind>        is the given pass kind sound against the psABI specification?  `sound` | `unsound`
    spec T                psABI class: `none` | `memory` | `regs INTEGER SSE ..`  + ` natural=0|1`
    sig R P..             model of transformFuncType: `ret=.. params=..`              (same format as harness/c09)
    place R P..           `impl=<placement> spec=<placement> eq=0|1 fits=0|1 nosplit=0|1 natural=0|1`
    siglegacy / placelegacy  the same with the legacy classifier
    cls64 T | clsret64 T  model of TypeInfoArm64.GetTypeInfo: `<kind> size=S align=A n=N`
    spec64 T              AAPCS64 class: `none` | `memory` | `gpr N` | `hfa N float|double`
    judge64 arg|ret T <kind>   is the given arm64 pass kind what AAPCS64 prescribes?
    cstr DEST LEN HEX     CStrCopy into a dirty memory of LEN bytes at DEST, then StringFromCStr: `ok HEX` | `oob`
    callsite nextstore=0|1 argload=0|1
                          model of the AttrPointer branches of transformCallInstr: `sret=temp|dest byval=temp|source`
    inplace DST N P0 .. P(N-1)
                          `*DST = f(p)` with p = 100 holding cells 1..N and f writing result cell j := p[Pj] in order, cell by
                          cell (model of a C callee filling its result object while reading its input):
                          `temp=<cells> dest=<cells> spec=<cells> safe_dest=0|1`  (cells of DST afterwards under the
                          current lowering, under 'destination as sret', and by the Go-level meaning)
    cgo gostrn|gostr|gobytes|zstrn|zstr copy|alias HEXBUF OFF N HEXSCRIBBLE
                          C buffer HEXBUF (+ NUL) at address 16; convert at OFF (length N; ignored by gostr); then C overwrites
                          its buffer with HEXSCRIBBLE: `now=HEX later=HEX`
    cgo cstring|cbytes HEX [guard]
                          Go value -> C copy -> overwrite the Go source with 0x5a..: `c=HEX` (the C copy afterwards); cstring
                          continues with GoString of the copy, then overwrites the C copy: `c=HEX back=HEX`
-/
open LlgoVerif LlgoVerif.Util LlgoVerif.CAbi LlgoVerif.SysV

/-- parse one type; returns the type and the rest -/
def parseTy : Nat → List Char → Option (CType × List Char)
  | 0, _ => none
  | fuel + 1, cs =>
    match cs with
    | 'b' :: r => some (.sc .i8, r)
    | 'h' :: r => some (.sc .i16, r)
    | 'w' :: r => some (.sc .i32, r)
    | 'q' :: r => some (.sc .i64, r)
    | 'p' :: r => some (.sc .ptr, r)
    | 'f' :: r => some (.sc .f32, r)
    | 'd' :: r => some (.sc .f64, r)
    | '{' :: r =>
      let rec fields (n : Nat) (cs : List Char) (acc : List CType) : Option (List CType × List Char) :=
        match n with
        | 0 => none
        | n + 1 =>
          match cs with
          | '}' :: r => some (acc.reverse, r)
          | [] => none
          | _ =>
            match parseTy fuel cs with
            | some (t, r) => fields n r (t :: acc)
            | none => none
      match fields (fuel + 1) r [] with
      | some (fs, r) => some (.struct fs, r)
      | none => none
    | '[' :: r =>
      let ds := r.takeWhile Char.isDigit
      let r := r.dropWhile Char.isDigit
      if ds.isEmpty then none else
      match parseTy fuel r with
      | some (t, ']' :: r) => some (.array (String.ofList ds).toNat! t, r)
      | _ => none
    | _ => none

def parseType (s : String) : Option CType :=
  match parseTy (s.length + 1) s.toList with
  | some (t, []) => some t
  | _ => none

def regTyName : RegTy → String
  | .int n => "i" ++ toString (n * 8)
  | .ptr => "ptr" | .f32 => "float" | .f64 => "double" | .v2f32 => "v2f32"

def parseRegTy (s : String) : Option RegTy :=
  if s = "ptr" then some .ptr else if s = "float" then some .f32 else if s = "double" then some .f64
  else if s = "v2f32" then some .v2f32
  else match s.toList with
    | 'i' :: ds => if !ds.isEmpty && ds.all Char.isDigit then
        let n := (String.ofList ds).toNat!
        if n % 8 = 0 then some (.int (n / 8)) else none
      else none
    | _ => none

def kindName : PassKind → String
  | .void => "void" | .direct => "direct" | .memory => "memory"
  | .coerce r => "coerce " ++ regTyName r
  | .coerce2 a b => "coerce2 " ++ regTyName a ++ " " ++ regTyName b

def parseKind : List String → Option PassKind
  | ["void"] => some .void
  | ["direct"] => some .direct
  | ["memory"] => some .memory
  | ["coerce", a] => (parseRegTy a).map .coerce
  | ["coerce2", a, b] => do pure (.coerce2 (← parseRegTy a) (← parseRegTy b))
  | _ => none

def clsLine (t : CType) (isRet : Bool) (cfg : Cfg := .repaired) : String :=
  let k := classifyC cfg t.view isRet
  let o := match k with
    | .coerce2 a b => if k.wellFormed then toString (off2 a b) else "-"
    | _ => "-"
  s!"{kindName k} size={t.size} align={t.align} n={t.flatten.length} off2={o}"

def className : Class → String
  | .integer => "INTEGER" | .sse => "SSE" | .noClass => "NO_CLASS"

def specLine (t : CType) : String :=
  let c := match classifyAgg t.size t.elems with
    | .none => "none"
    | .memory => "memory"
    | .regs cs => "regs " ++ " ".intercalate (cs.map className)
  c ++ " wf=" ++ (if t.wf then "1" else "0") ++ " natural=" ++ (if decide t.view.natural then "1" else "0")

def largName : LArg → String
  | .scalar r => regTyName r
  | .byval s a => s!"byval:{s}:{a}"

def sigLine (cls : View → Bool → PassKind) (ret : Option CType) (ps : List CType) : String :=
  let r := match ret with
    | none => "void"
    | some t =>
      match lowerRetC cls t.view with
      | .void => "void"
      | .sret => "sret"
      | .regs [] => "void"
      | .regs rs => "regs:" ++ ",".intercalate (rs.map regTyName)
  let l := (ps.map fun t => lowerParamC cls t.view).flatten
  s!"ret={r} params=" ++ (if l.isEmpty then "-" else ",".intercalate (l.map largName))

def locName : Loc → String
  | .gpr i => s!"g{i}" | .xmm i => s!"x{i}" | .stack o => s!"s{o}"

def placementName (p : Placement) : String :=
  let r := match p.ret with
    | .void => "void" | .sret => "sret"
    | .regs l => "regs:" ++ ",".intercalate (l.map locName)
  r ++ "|" ++ ";".intercalate (p.args.map fun l => if l.isEmpty then "-" else ",".intercalate (l.map locName))

def b01 (b : Bool) : String := if b then "1" else "0"

def parseSig (ws : List String) : Option Sig :=
  match ws with
  | [] => none
  | r :: ps =>
    match ps.mapM parseType with
    | none => none
    | some pts =>
      if r = "v" then some ⟨none, pts⟩
      else (parseType r).map fun t => ⟨some t, pts⟩

def kind64Name : PassKind64 → String
  | .void => "void" | .direct => "direct" | .memory => "memory"
  | .coerceInt b => "coerce i" ++ toString (b * 8)
  | .coerceI64 => "coerce i64"
  | .coerceI64x2 => "coerce a2i64"

/-- parse a kind reported by the real arm64 classifier; `isRet` tells `coerce i64` of a result (`IntType(64)`) from a parameter's -/
def parseKind64 (isRet : Bool) : List String → Option PassKind64
  | ["void"] => some .void
  | ["direct"] => some .direct
  | ["memory"] => some .memory
  | ["coerce", "a2i64"] => some .coerceI64x2
  | ["coerce", ty] =>
    match parseRegTy ty with
    | some (.int b) => if isRet then some (.coerceInt b) else (if b = 8 then some .coerceI64 else none)
    | _ => none
  | _ => none

def cls64Line (t : CType) (isRet : Bool) : String :=
  let k := classifyArm64 t isRet
  let kn := match k with
    | .coerceInt b => "coerce i" ++ toString (b * 8)
    | k => kind64Name k
  s!"{kn} size={t.size} align={t.align} n={t.flatten.length}"

def spec64Line (t : CType) : String :=
  match AAPCS64.classify t.size t.elems with
  | .none => "none"
  | .memory => "memory"
  | .gpr n => s!"gpr {n}"
  | .hfa n d => s!"hfa {n} " ++ (if d then "double" else "float")

def placeLine (i : Placement) (s : Sig) : String :=
  let p := place s
  s!"impl={placementName i} spec={placementName p} eq={b01 (decide (i = p))} fits={b01 (fitsInRegs s)} nosplit={b01 (noSplit s)} natural={b01 (decide ((∀ t ∈ s.ret, t.view.natural) ∧ ∀ t ∈ s.params, t.view.natural))} wf={b01 (decide ((∀ t ∈ s.ret, t.wf = true) ∧ ∀ t ∈ s.params, t.wf = true))}"


/-! ### call sites and cgo helpers -/

def natsStr (l : List Nat) : String := ",".intercalate (l.map toString)

def bytesOfNats (l : List Nat) : List UInt8 := l.map UInt8.ofNat
def natsOfBytes (l : List UInt8) : List Nat := l.map UInt8.toNat

/-- the callee of `inplace`: result cell `j` := `p[perm j]`, one after the other -/
def permProg : List Nat → Nat → CAbiCall.Prog
  | [], _ => .done
  | pj :: r, j => .seq (.load 1 (.ind 0 pj)) (.seq (.store (.priv 0 j) 1) (permProg r (j + 1)))

def inplaceLine (dst : Nat) (perm : List Nat) : String :=
  let n := perm.length
  let m : CAbiCall.Cells := fun a => if 100 ≤ a ∧ a < 100 + n then a - 99 else if 200 ≤ a ∧ a < 200 + n then 1000 + (a - 200) else 0
  let c : CAbiCall.CallSite := ⟨n, [.word 100], dst⟩
  let frame : CAbiCall.Frame := fun k => 1000 + 100 * k
  let f := permProg perm 0
  let rd (mm : CAbiCall.Cells) := CAbiCall.readCells mm dst n
  let t := rd (CAbiCall.implCall .temp .temp frame f c m)
  let d := rd (CAbiCall.implCall .dest .temp frame f c m)
  let sp := rd (CAbiCall.specCall (fun off => m (frame 0 + off)) f c m)
  let safe := CAbiCall.safeB (CAbiCall.placement .dest frame c) f (CAbiCall.initA (fun off => m (dst + off)) c m)
  s!"temp={natsStr t} dest={natsStr d} spec={natsStr sp} safe_dest={b01 safe}"

def parseCopyCfg (s : String) : Option CgoStr.CopyCfg :=
  if s = "copy" then some .copy else if s = "alias" then some .alias else none

/-- C memory: `buf ++ [0]` at address 16, allocation frontier right behind it -/
def cgoHeap (buf : List Nat) : CgoStr.Heap :=
  ⟨CAbiCall.writeCells (fun _ => 0xAA) 16 (buf ++ [0]), 16 + buf.length + 1⟩

def scribbleWrites (scr : List Nat) : List (Nat × Nat) := (List.range scr.length).zip scr |>.map fun (i, v) => (16 + i, v)

def cgoLine (op : String) (cfg : CgoStr.CopyCfg) (buf : List Nat) (off n : Nat) (scr : List Nat) : String :=
  let h0 := cgoHeap buf
  let res : Option (Nat × Nat × CgoStr.Heap) :=
    if op = "gostrn" ∨ op = "zstrn" then      -- `zstrn` / `zstr`: z_string.go StringFrom / StringFromCStr (alloc + memcpy: the same model)
      let r := CgoStr.goStringN cfg h0 (16 + off) n
      some (r.1.data, r.1.len, r.2)
    else if op = "gostr" ∨ op = "zstr" then
      match CgoStr.goString cfg h0 (16 + off) with
      | some r => some (r.1.data, r.1.len, r.2)
      | none => none
    else if op = "gobytes" then
      let r := CgoStr.goBytes cfg h0 (16 + off) n
      some (r.1.data, r.1.len, r.2)
    else none
  match res with
  | none => "bad-op"
  | some (d, l, h1) =>
    let now := CAbiCall.readCells h1.mem d l
    let later := CAbiCall.readCells (CgoStr.applyWrites h1.mem (scribbleWrites scr)) d l
    s!"now={hex (bytesOfNats now)} later={hex (bytesOfNats later)}"

def cgoToC (op : String) (v : List Nat) (guard : Bool := false) : String :=
  -- the Go value lives at address 16
  let h0 : CgoStr.Heap := ⟨CAbiCall.writeCells (fun _ => 0xAA) 16 v, 16 + v.length⟩
  let goScribble : List (Nat × Nat) := (List.range v.length).map fun i => (16 + i, 0x5a)
  if op = "cbytes" then
    match CgoStr.cBytes guard h0 ⟨16, v.length, v.length⟩ with
    | none => "panic"
    | some r =>
      let c := CAbiCall.readCells (CgoStr.applyWrites r.2.mem goScribble) r.1 v.length
      s!"c={hex (bytesOfNats c)}"
  else
    let r := CgoStr.cString h0 ⟨16, v.length⟩
    let m1 := CgoStr.applyWrites r.2.mem goScribble
    let c := CAbiCall.readCells m1 r.1 v.length
    match CgoStr.goString .copy ⟨m1, r.2.brk⟩ r.1 with
    | none => s!"c={hex (bytesOfNats c)} back=oob"
    | some g =>
      let cScribble : List (Nat × Nat) := (List.range (v.length + 1)).map fun i => (r.1 + i, 0x5a)
      let back := CAbiCall.readCells (CgoStr.applyWrites g.2.mem cScribble) g.1.data g.1.len
      s!"c={hex (bytesOfNats c)} back={hex (bytesOfNats back)}"

def handle (line : String) : String :=
  match fields line with
  | ["cls", t] => match parseType t with | some t => clsLine t false | none => "bad-op"
  | ["clsret", t] => match parseType t with | some t => clsLine t true | none => "bad-op"
  | ["clslegacy", t] => match parseType t with | some t => clsLine t false .legacy | none => "bad-op"
  | ["clsretlegacy", t] => match parseType t with | some t => clsLine t true .legacy | none => "bad-op"
  | ["spec", t] => match parseType t with | some t => specLine t | none => "bad-op"
  | ["cls64", t] => match parseType t with | some t => cls64Line t false | none => "bad-op"
  | ["clsret64", t] => match parseType t with | some t => cls64Line t true | none => "bad-op"
  | ["spec64", t] => match parseType t with | some t => spec64Line t | none => "bad-op"
  | "judge64" :: r :: t :: k =>
    match parseType t, parseKind64 (r = "ret") k with
    | some t, some k => if decide (AAPCS64.Sound k t.view) then "sound" else "unsound"
    | _, _ => "bad-op"
  | "judge" :: t :: k =>
    match parseType t, parseKind k with
    | some t, some k => if decide (Sound k t.view) then "sound" else "unsound"
    | _, _ => "bad-op"
  | "sig" :: ws =>
    match parseSig ws with
    | some s => sigLine classifyV s.ret s.params
    | none => "bad-op"
  | "siglegacy" :: ws =>
    match parseSig ws with
    | some s => sigLine classifyLegacyV s.ret s.params
    | none => "bad-op"
  | "place" :: ws =>
    match parseSig ws with
    | some s => placeLine (implPlace s) s
    | none => "bad-op"
  | "placelegacy" :: ws =>
    match parseSig ws with
    | some s => placeLine (implPlaceC classifyLegacyV s) s
    | none => "bad-op"
  | ["callsite", u, a] =>
    let use : CAbiCall.ResultUse := ⟨u = "nextstore=1"⟩
    let ad : CAbiCall.ArgDef := ⟨a = "argload=1"⟩
    let sl := match CAbiCall.lowerRet .temp use with | .temp => "temp" | .dest => "dest"
    let bs := match CAbiCall.lowerByval .copy ad with | .temp => "temp" | .source => "source"
    s!"sret={sl} byval={bs}"
  | "inplace" :: dst :: _n :: perm => inplaceLine dst.toNat! (perm.map String.toNat!)
  | ["cgo", op, cfg, hb, off, n, hs] =>
    match parseCopyCfg cfg, unhex hb, unhex hs with
    | some cfg, some b, some sc => cgoLine op cfg (natsOfBytes b) off.toNat! n.toNat! (natsOfBytes sc)
    | _, _, _ => "bad-op"
  | ["cgo", op, hv] =>
    if op = "cstring" ∨ op = "cbytes" then
      match unhex hv with
      | some v => cgoToC op (natsOfBytes v)
      | none => "bad-op"
    else "bad-op"
  | ["cgo", "cbytes", hv, g] =>
    match unhex hv with
    | some v => cgoToC "cbytes" (natsOfBytes v) (g = "guard")
    | none => "bad-op"
  | ["cstr", d, n, h] =>
    match unhex h with
    | some s =>
      let m : Mem := List.replicate n.toNat! 0xAA
      match cstrCopy m d.toNat! s with
      | none => "oob"
      | some m' => match stringFromCStr m' d.toNat! with
        | some r => "ok " ++ hex r
        | none => "oob"
    | none => "bad-op"
  | _ => "bad-op"

def main : IO Unit := lineLoop handle
