import LlgoVerif.Model.SoftFloat
/-!
Hand-written model of how llgo computes complex arithmetic (ssa/expr.go `BinOp` case `vkComplex`, `UnOp`, `Convert`, and
runtime/internal/runtime/z_complex.go `Complex128Div`), on bit patterns, over `Model/SoftFloat.lean`.
Tied to the code by the execution correspondence of C02 (tie B): the llgo-compiled operator package and this model are run
on the same operands.  A complex value is the pair (real bits, imaginary bits).
-/
namespace LlgoVerif.GoComplex
open LlgoVerif.SoftFloat

abbrev D : Fmt := f64
def zero : Nat := 0
def one : Nat := 0x3ff0000000000000

def feq (F : Fmt) (x y : Nat) : Bool := cmp F x y == .eq
def fne (F : Fmt) (x y : Nat) : Bool := !(feq F x y)
def flt (F : Fmt) (x y : Nat) : Bool := cmp F x y == .lt
def fge (F : Fmt) (x y : Nat) : Bool := cmp F x y == .gt || cmp F x y == .eq

def absf (x : Nat) : Nat := if flt D x zero then neg D x else x
def isInf (x : Nat) : Bool := fne D x zero && feq D (add D x x) x
def isNaN' (x : Nat) : Bool := fne D x x
def isFinite (x : Nat) : Bool := !isNaN' x && !isInf x
def inf : Nat := div D one zero
def copysign (x y : Nat) : Nat := if flt D y zero || (feq D y zero && flt D (div D one y) zero) then neg D x else x
def inf2one (x : Nat) : Nat := copysign (if isInf x then one else zero) x

/-- runtime.Complex128Div(n = a+bi, m = c+di) -/
def div128 (a b c d : Nat) : Nat × Nat :=
  let (e, f) :=
    if fge D (absf c) (absf d) then
      let ratio := div D d c
      let denom := add D c (mul D ratio d)
      (div D (add D a (mul D b ratio)) denom, div D (sub D b (mul D a ratio)) denom)
    else
      let ratio := div D c d
      let denom := add D d (mul D ratio c)
      (div D (add D (mul D a ratio) b) denom, div D (sub D (mul D b ratio) a) denom)
  if isNaN' e && isNaN' f then
    if (feq D c zero && feq D d zero) && (!isNaN' a || !isNaN' b) then
      (mul D (copysign inf c) a, mul D (copysign inf c) b)
    else if (isInf a || isInf b) && isFinite c && isFinite d then
      let a := inf2one a
      let b := inf2one b
      (mul D inf (add D (mul D a c) (mul D b d)), mul D inf (sub D (mul D b c) (mul D a d)))
    else if (isInf c || isInf d) && isFinite a && isFinite b then
      let c := inf2one c
      let d := inf2one d
      (mul D zero (add D (mul D a c) (mul D b d)), mul D zero (sub D (mul D b c) (mul D a d)))
    else (e, f)
  else (e, f)

def mul128 (a b c d : Nat) : Nat × Nat :=
  (sub D (mul D a c) (mul D b d), add D (mul D a d) (mul D b c))

/-- operators at component format `F` (f32: complex64, f64: complex128) -/
def cadd (F : Fmt) (a b c d : Nat) : Nat × Nat := (add F a c, add F b d)
def csub (F : Fmt) (a b c d : Nat) : Nat × Nat := (sub F a c, sub F b d)
def cneg (F : Fmt) (a b : Nat) : Nat × Nat := (neg F a, neg F b)
def ceq (F : Fmt) (a b c d : Nat) : Bool := feq F a c && feq F b d
def cconv (F G : Fmt) (a b : Nat) : Nat × Nat := (convert F G a, convert F G b)

def via128 (F : Fmt) (op : Nat → Nat → Nat → Nat → Nat × Nat) (a b c d : Nat) : Nat × Nat :=
  let r := op (convert F D a) (convert F D b) (convert F D c) (convert F D d)
  (convert D F r.1, convert D F r.2)

/-- complex64 products and every complex quotient are computed in complex128 and rounded once -/
def cmul (F : Fmt) (a b c d : Nat) : Nat × Nat := if F = f64 then mul128 a b c d else via128 F mul128 a b c d
def cquo (F : Fmt) (a b c d : Nat) : Nat × Nat := if F = f64 then div128 a b c d else via128 F div128 a b c d

end LlgoVerif.GoComplex
