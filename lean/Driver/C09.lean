import LlgoVerif.Util
import LlgoVerif.Model.CAbi
import LlgoVerif.Spec.SysV
import LlgoVerif.Spec.AAPCS64
/-! Line-protocol driver for C09. One request per line, one answer per line.

    Types: `b h w q p f d` = i8 i16 i32 i64 ptr float double; `{..}` struct; `[N T]` array; `v` = no result.

    cls T | clsret T      model of GetTypeInfo: `<kind> size=S align=A n=N off2=O`   (same format as harness/c09)
    clslegacy T | clsretlegacy T  the same for the classifier before the nested-padding fix (Cfg.legacy)
    judge T <kind>        is the given pass kind sound against the psABI specification?  `sound` | `unsound`
    spec T                psABI class: `none` | `memory` | `regs INTEGER SSE ..`  + ` natural=0|1`
    sig R P..             model of transformFuncType: `ret=.. params=..`              (same format as harness/c09)
    place R P..           `impl=<placement> spec=<placement> eq=0|1 fits=0|1 nosplit=0|1 natural=0|1`
    siglegacy / placelegacy  the same with the legacy classifier
    cls64 T | clsret64 T  model of TypeInfoArm64.GetTypeInfo: `<kind> size=S align=A n=N`
    spec64 T              AAPCS64 class: `none` | `memory` | `gpr N` | `hfa N float|double`
    judge64 arg|ret T <kind>   is the given arm64 pass kind what AAPCS64 prescribes?
    cstr DEST LEN HEX     CStrCopy into a dirty memory of LEN bytes at DEST, then StringFromCStr: `ok HEX` | `oob`
-/
open LlgoVerif LlgoVerif.Util LlgoVerif.CAbi LlgoVerif.SysV

/-- parse one type; returns the type and the rest -/
def parseTy : Nat → List Char → Option (CType × List Char)
  | 0, _ => none
  | fuel + 1, cs =>
    match cs with
    | 'b' :: r => some (.sc .i8, r)
    | 'h' :: r => some (.sc .i16, r)
    | 'w' :: r => some (.sc .i32, r)
    | 'q' :: r => some (.sc .i64, r)
    | 'p' :: r => some (.sc .ptr, r)
    | 'f' :: r => some (.sc .f32, r)
    | 'd' :: r => some (.sc .f64, r)
    | '{' :: r =>
      let rec fields (n : Nat) (cs : List Char) (acc : List CType) : Option (List CType × List Char) :=
        match n with
        | 0 => none
        | n + 1 =>
          match cs with
          | '}' :: r => some (acc.reverse, r)
          | [] => none
          | _ =>
            match parseTy fuel cs with
            | some (t, r) => fields n r (t :: acc)
            | none => none
      match fields (fuel + 1) r [] with
      | some (fs, r) => some (.struct fs, r)
      | none => none
    | '[' :: r =>
      let ds := r.takeWhile Char.isDigit
      let r := r.dropWhile Char.isDigit
      if ds.isEmpty then none else
      match parseTy fuel r with
      | some (t, ']' :: r) => some (.array (String.ofList ds).toNat! t, r)
      | _ => none
    | _ => none

def parseType (s : String) : Option CType :=
  match parseTy (s.length + 1) s.toList with
  | some (t, []) => some t
  | _ => none

def regTyName : RegTy → String
  | .int n => "i" ++ toString (n * 8)
  | .ptr => "ptr" | .f32 => "float" | .f64 => "double" | .v2f32 => "v2f32"

def parseRegTy (s : String) : Option RegTy :=
  if s = "ptr" then some .ptr else if s = "float" then some .f32 else if s = "double" then some .f64
  else if s = "v2f32" then some .v2f32
  else match s.toList with
    | 'i' :: ds => if !ds.isEmpty && ds.all Char.isDigit then
        let n := (String.ofList ds).toNat!
        if n % 8 = 0 then some (.int (n / 8)) else none
      else none
    | _ => none

def kindName : PassKind → String
  | .void => "void" | .direct => "direct" | .memory => "memory"
  | .coerce r => "coerce " ++ regTyName r
  | .coerce2 a b => "coerce2 " ++ regTyName a ++ " " ++ regTyName b

def parseKind : List String → Option PassKind
  | ["void"] => some .void
  | ["direct"] => some .direct
  | ["memory"] => some .memory
  | ["coerce", a] => (parseRegTy a).map .coerce
  | ["coerce2", a, b] => do pure (.coerce2 (← parseRegTy a) (← parseRegTy b))
  | _ => none

def clsLine (t : CType) (isRet : Bool) (cfg : Cfg := .repaired) : String :=
  let k := classifyC cfg t.view isRet
  let o := match k with
    | .coerce2 a b => if k.wellFormed then toString (off2 a b) else "-"
    | _ => "-"
  s!"{kindName k} size={t.size} align={t.align} n={t.flatten.length} off2={o}"

def className : Class → String
  | .integer => "INTEGER" | .sse => "SSE" | .noClass => "NO_CLASS"

def specLine (t : CType) : String :=
  let c := match classifyAgg t.size t.elems with
    | .none => "none"
    | .memory => "memory"
    | .regs cs => "regs " ++ " ".intercalate (cs.map className)
  c ++ " wf=" ++ (if t.wf then "1" else "0") ++ " natural=" ++ (if decide t.view.natural then "1" else "0")

def largName : LArg → String
  | .scalar r => regTyName r
  | .byval s a => s!"byval:{s}:{a}"

def sigLine (cls : View → Bool → PassKind) (ret : Option CType) (ps : List CType) : String :=
  let r := match ret with
    | none => "void"
    | some t =>
      match lowerRetC cls t.view with
      | .void => "void"
      | .sret => "sret"
      | .regs [] => "void"
      | .regs rs => "regs:" ++ ",".intercalate (rs.map regTyName)
  let l := (ps.map fun t => lowerParamC cls t.view).flatten
  s!"ret={r} params=" ++ (if l.isEmpty then "-" else ",".intercalate (l.map largName))

def locName : Loc → String
  | .gpr i => s!"g{i}" | .xmm i => s!"x{i}" | .stack o => s!"s{o}"

def placementName (p : Placement) : String :=
  let r := match p.ret with
    | .void => "void" | .sret => "sret"
    | .regs l => "regs:" ++ ",".intercalate (l.map locName)
  r ++ "|" ++ ";".intercalate (p.args.map fun l => if l.isEmpty then "-" else ",".intercalate (l.map locName))

def b01 (b : Bool) : String := if b then "1" else "0"

def parseSig (ws : List String) : Option Sig :=
  match ws with
  | [] => none
  | r :: ps =>
    match ps.mapM parseType with
    | none => none
    | some pts =>
      if r = "v" then some ⟨none, pts⟩
      else (parseType r).map fun t => ⟨some t, pts⟩

def kind64Name : PassKind64 → String
  | .void => "void" | .direct => "direct" | .memory => "memory"
  | .coerceInt b => "coerce i" ++ toString (b * 8)
  | .coerceI64 => "coerce i64"
  | .coerceI64x2 => "coerce a2i64"

/-- parse a kind reported by the real arm64 classifier; `isRet` tells `coerce i64` of a result (`IntType(64)`) from a parameter's -/
def parseKind64 (isRet : Bool) : List String → Option PassKind64
  | ["void"] => some .void
  | ["direct"] => some .direct
  | ["memory"] => some .memory
  | ["coerce", "a2i64"] => some .coerceI64x2
  | ["coerce", ty] =>
    match parseRegTy ty with
    | some (.int b) => if isRet then some (.coerceInt b) else (if b = 8 then some .coerceI64 else none)
    | _ => none
  | _ => none

def cls64Line (t : CType) (isRet : Bool) : String :=
  let k := classifyArm64 t isRet
  let kn := match k with
    | .coerceInt b => "coerce i" ++ toString (b * 8)
    | k => kind64Name k
  s!"{kn} size={t.size} align={t.align} n={t.flatten.length}"

def spec64Line (t : CType) : String :=
  match AAPCS64.classify t.size t.elems with
  | .none => "none"
  | .memory => "memory"
  | .gpr n => s!"gpr {n}"
  | .hfa n d => s!"hfa {n} " ++ (if d then "double" else "float")

def placeLine (i : Placement) (s : Sig) : String :=
  let p := place s
  s!"impl={placementName i} spec={placementName p} eq={b01 (decide (i = p))} fits={b01 (fitsInRegs s)} nosplit={b01 (noSplit s)} natural={b01 (decide ((∀ t ∈ s.ret, t.view.natural) ∧ ∀ t ∈ s.params, t.view.natural))} wf={b01 (decide ((∀ t ∈ s.ret, t.wf = true) ∧ ∀ t ∈ s.params, t.wf = true))}"

def handle (line : String) : String :=
  match fields line with
  | ["cls", t] => match parseType t with | some t => clsLine t false | none => "bad-op"
  | ["clsret", t] => match parseType t with | some t => clsLine t true | none => "bad-op"
  | ["clslegacy", t] => match parseType t with | some t => clsLine t false .legacy | none => "bad-op"
  | ["clsretlegacy", t] => match parseType t with | some t => clsLine t true .legacy | none => "bad-op"
  | ["spec", t] => match parseType t with | some t => specLine t | none => "bad-op"
  | ["cls64", t] => match parseType t with | some t => cls64Line t false | none => "bad-op"
  | ["clsret64", t] => match parseType t with | some t => cls64Line t true | none => "bad-op"
  | ["spec64", t] => match parseType t with | some t => spec64Line t | none => "bad-op"
  | "judge64" :: r :: t :: k =>
    match parseType t, parseKind64 (r = "ret") k with
    | some t, some k => if decide (AAPCS64.Sound k t.view) then "sound" else "unsound"
    | _, _ => "bad-op"
  | "judge" :: t :: k =>
    match parseType t, parseKind k with
    | some t, some k => if decide (Sound k t.view) then "sound" else "unsound"
    | _, _ => "bad-op"
  | "sig" :: ws =>
    match parseSig ws with
    | some s => sigLine classifyV s.ret s.params
    | none => "bad-op"
  | "siglegacy" :: ws =>
    match parseSig ws with
    | some s => sigLine classifyLegacyV s.ret s.params
    | none => "bad-op"
  | "place" :: ws =>
    match parseSig ws with
    | some s => placeLine (implPlace s) s
    | none => "bad-op"
  | "placelegacy" :: ws =>
    match parseSig ws with
    | some s => placeLine (implPlaceC classifyLegacyV s) s
    | none => "bad-op"
  | ["cstr", d, n, h] =>
    match unhex h with
    | some s =>
      let m : Mem := List.replicate n.toNat! 0xAA
      match cstrCopy m d.toNat! s with
      | none => "oob"
      | some m' => match stringFromCStr m' d.toNat! with
        | some r => "ok " ++ hex r
        | none => "oob"
    | none => "bad-op"
  | _ => "bad-op"

def main : IO Unit := lineLoop handle
