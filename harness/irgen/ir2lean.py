"""IR -> Lean translator for the straight-line integer subset llgo emits at -O0 (DESIGN.md §2.2 A).

One Lean `def` per IR function, 1:1 per instruction, in the monad of LlgoVerif/Model/LLVM.lean.
Anything outside the supported subset makes the translation of that function FAIL LOUDLY
(returned in `errors`; the caller turns it into a broken obligation) — never skipped silently.
"""
import re

DEFINE_RE = re.compile(r'^define\s+(?P<ret>\S+)\s+@"?(?P<name>[^"(]+)"?\((?P<params>.*)\)\s*(#\d+\s*)?\{\s*$')
ASSERTS = {
    "github.com/goplus/llgo/runtime/internal/runtime.AssertDivideByZero": ".divZero",
    "github.com/goplus/llgo/runtime/internal/runtime.AssertNegativeShift": ".negShift",
    "github.com/goplus/llgo/runtime/internal/runtime.AssertIndexRange": ".indexRange",
}
BINOPS = {"add": "add", "sub": "sub", "mul": "mul", "and": "and", "or": "or", "xor": "xor",
          "shl": "shl", "lshr": "lshr", "ashr": "ashr"}
DIVOPS = {"sdiv": "sdiv", "udiv": "udiv", "srem": "srem", "urem": "urem"}
CASTS = {"trunc": "trunc", "zext": "zext", "sext": "sext"}


class Unsupported(Exception):
    pass


def ity(t):
    m = re.fullmatch(r"i(\d+)", t)
    if not m:
        raise Unsupported("type " + t)
    return int(m.group(1))


def parse_functions(text):
    """-> {name: (ret type, [(ty, reg)], [instruction lines])} for every `define`"""
    out = {}
    lines = text.split("\n")
    i = 0
    while i < len(lines):
        m = DEFINE_RE.match(lines[i])
        if m:
            body = []
            i += 1
            while i < len(lines) and lines[i].strip() != "}":
                body.append(lines[i])
                i += 1
            params = []
            ps = m.group("params").strip()
            if ps:
                for p in split_params(ps):
                    toks = p.strip().split()
                    params.append((" ".join(toks[:-1]), toks[-1]))
            out[m.group("name")] = (m.group("ret"), params, body)
        i += 1
    return out


def split_params(s):
    parts, depth, cur = [], 0, ""
    for ch in s:
        if ch in "({":
            depth += 1
        if ch in ")}":
            depth -= 1
        if ch == "," and depth == 0:
            parts.append(cur)
            cur = ""
        else:
            cur += ch
    if cur.strip():
        parts.append(cur)
    return parts


def translate_function(name, lean_name, ret, params, body):
    env = {}
    sig = []
    for k, (ty, reg) in enumerate(params):
        w = ity(ty)
        env[reg] = ("(some a%d)" % k, w)
        sig.append("(a%d : BitVec %d)" % (k, w))
    rw = ity(ret)

    def opnd(tok, w):
        tok = tok.rstrip(",")
        if tok in env:
            e, w2 = env[tok]
            if w2 != w:
                raise Unsupported("width mismatch on " + tok)
            return e
        if tok == "true":
            return "(some (BitVec.ofInt 1 1))"
        if tok == "false":
            return "(some (BitVec.ofInt 1 0))"
        if re.fullmatch(r"-?\d+", tok):
            return "(some (BitVec.ofInt %d (%s)))" % (w, tok)
        raise Unsupported("operand " + tok)

    out = []
    blocks = 0
    returned = False
    for line in body:
        s = line.split(";")[0].strip()
        if not s:
            continue
        if s.endswith(":"):
            blocks += 1
            if blocks > 1:
                raise Unsupported("more than one basic block")
            continue
        if returned:
            raise Unsupported("instruction after ret")
        m = re.fullmatch(r"(%\d+) = (\w+)(?: (?:nsw|nuw|exact))* (i\d+) (\S+), (\S+)", s)
        if m and m.group(2) in BINOPS:
            if re.search(r"\b(nsw|nuw|exact)\b", s):
                raise Unsupported("poison-generating flag in: " + s)
            w = ity(m.group(3))
            env[m.group(1)] = ("v" + m.group(1)[1:], w)
            out.append("  let v%s := %s %s %s" % (m.group(1)[1:], BINOPS[m.group(2)], opnd(m.group(4), w), opnd(m.group(5), w)))
            continue
        if m and m.group(2) in DIVOPS:
            w = ity(m.group(3))
            env[m.group(1)] = ("v" + m.group(1)[1:], w)
            out.append("  let v%s ← %s %s %s" % (m.group(1)[1:], DIVOPS[m.group(2)], opnd(m.group(4), w), opnd(m.group(5), w)))
            continue
        m = re.fullmatch(r"(%\d+) = icmp (\w+) (i\d+) (\S+), (\S+)", s)
        if m:
            w = ity(m.group(3))
            env[m.group(1)] = ("v" + m.group(1)[1:], 1)
            out.append("  let v%s := icmp .%s %s %s" % (m.group(1)[1:], m.group(2), opnd(m.group(4), w), opnd(m.group(5), w)))
            continue
        m = re.fullmatch(r"(%\d+) = select i1 (\S+), (i\d+) (\S+), (i\d+) (\S+)", s)
        if m:
            w = ity(m.group(3))
            env[m.group(1)] = ("v" + m.group(1)[1:], w)
            out.append("  let v%s := select %s %s %s" % (m.group(1)[1:], opnd(m.group(2), 1), opnd(m.group(4), w), opnd(m.group(6), w)))
            continue
        m = re.fullmatch(r"(%\d+) = (trunc|zext|sext) (i\d+) (\S+) to (i\d+)", s)
        if m:
            w1, w2 = ity(m.group(3)), ity(m.group(5))
            env[m.group(1)] = ("v" + m.group(1)[1:], w2)
            out.append("  let v%s := %s %d %s" % (m.group(1)[1:], CASTS[m.group(2)], w2, opnd(m.group(4), w1)))
            continue
        m = re.fullmatch(r'call void @"([^"]+)"\(i1 (\S+)\)', s)
        if m and m.group(1) in ASSERTS:
            out.append("  assert %s %s" % (ASSERTS[m.group(1)], opnd(m.group(2), 1)))
            continue
        m = re.fullmatch(r"ret (i\d+) (\S+)", s)
        if m:
            out.append("  ret %s" % opnd(m.group(2), ity(m.group(1))))
            returned = True
            continue
        raise Unsupported("instruction: " + s)
    if not returned:
        raise Unsupported("no ret")
    return "def %s %s : M (BitVec %d) := do\n%s\n" % (lean_name, " ".join(sig), rw, "\n".join(out))
