"""Generator of Go type terms for C07 / C15: a recursive grammar over a fixed multi-package universe, plus
systematic NEAR-MISS mutation of exactly one attribute.  All randomness comes from the `rng` handed in.

A type is a tuple:
  ('b', name)                          predeclared basic type (also 'byte', 'rune', 'unsafe.Pointer', 'error', 'any')
  ('p', t) ('s', t) ('a', n, t) ('m', k, v) ('c', dir, t)       dir: '', 'send', 'recv'
  ('f', (params…), (results…), variadic)
  ('st', ((name, embedded, tag, t), …))      for an embedded field `name` is ignored (derived from the type)
  ('if', ((name, sig), …))                   interface literal with explicit methods
  ('n', pkg, name, (targs…))                 named type (or alias) of the universe; pkg in 'p','q','r'
  ('l', site)                                the local type `L` declared at `site` of the pair's own functions
Rendering is relative to a home package (names of other packages are qualified).
"""

BASICS = ["bool", "int", "int8", "int16", "int32", "int64", "uint", "uint8", "uint16", "uint32", "uint64", "uintptr",
          "float32", "float64", "complex64", "complex128", "string", "byte", "rune"]
ALIAS_SPELLING = {"byte": "uint8", "uint8": "byte", "rune": "int32", "int32": "rune"}

MOD = "vm"          # module path of the generated universe
PATCH = "github.com/goplus/llgo/runtime/internal/lib/vx"   # a package under the patch prefix (PathOf strips it)

# name -> (kind, comparable, embeddable, ntargs); the same names exist in p and q (near misses by package)
UNIVERSE_COMMON = {
    "T": ("struct", True, True, 0), "U": ("struct", True, True, 0), "E": ("int", True, True, 0), "S": ("string", True, True, 0),
    "Fn": ("func", False, True, 0), "Sl": ("slice", False, True, 0), "Mp": ("map", False, True, 0),
    "I": ("iface", True, True, 0), "J": ("iface", True, True, 0), "K": ("iface", True, True, 0),
    "G": ("struct", None, True, 1), "H": ("struct", None, True, 2),
    "AT": ("alias:T", True, True, 0), "AE": ("alias:E", True, True, 0), "AI": ("alias:I", True, True, 0),
    "Ptr": ("ptr", True, False, 0), "Ch": ("chan", True, True, 0),
}
# defined types over every kind that can carry methods (declared in the prelude); opt-in: Gen(..., universe=UNIVERSE_WITH_METHODS)
UNIVERSE_WITH_METHODS = dict(UNIVERSE_COMMON, **{
    "Box": ("chan", True, True, 0), "BoxS": ("chan", True, True, 0), "BoxR": ("chan", True, True, 0), "SlM": ("slice", False, True, 0),
    "MpM": ("map", False, True, 0), "FnM": ("func", False, True, 0), "ArM": ("array", True, True, 0), "StM": ("string", True, True, 0),
    "FlM": ("float", True, True, 0), "PsM": ("struct", True, True, 0),
})
ALIAS_TARGET = {"AT": "T", "AE": "E", "AI": "I"}

PRELUDE_COMMON = '''
type T struct{ X int }
type U struct{ Y string }
type E int
type S string
type Fn func(int) string
type Sl []int
type Mp map[string]int
type I interface{ M() int }
type J interface {
	M() int
	N(string)
}
type K interface{ k() }
type G[A any] struct{ V A }
type H[A comparable, B any] struct {
	K A
	V B
}
type AT = T
type AE = E
type AI = I
type Ptr *T
type Ch chan int
type t struct{ z int }

// every M returns a value that identifies (package, receiver type): a call through an interface must reach THIS method
func (T) M() int      { return pkgID*100 + 1 }
func (*T) N(string)   {}
func (T) k()          {}
func (E) M() int      { return pkgID*100 + 2 }
func (E) N(string)    {}
func (U) m()          {}
func (U) M() int      { return pkgID*100 + 3 }
func (*U) k()         {}
func (G[A]) M() int   { return pkgID*100 + 4 }
func (*G[A]) Get() A  { var z A; return z }
func (t) M() int      { return pkgID*100 + 5 }

// defined types over every kind that can carry methods (the uncommon part sits behind a kind-specific header:
// chantype has one word more than ptrtype/slicetype, maptype and arraytype more still), value and pointer receivers
type Box chan int
type BoxS chan<- int
type BoxR <-chan int
type SlM []int
type MpM map[string]int
type FnM func(int) int
type ArM [2]int
type StM string
type FlM float64
type PsM struct{ A, B int8 }

func (Box) M() int     { return pkgID*100 + 10 }
func (*Box) N(string)  {}
func (Box) k()         {}
func (BoxS) M() int    { return pkgID*100 + 11 }
func (BoxS) N(string)  {}
func (BoxR) M() int    { return pkgID*100 + 12 }
func (*BoxR) N(string) {}
func (SlM) M() int     { return pkgID*100 + 13 }
func (*SlM) N(string)  {}
func (MpM) M() int     { return pkgID*100 + 14 }
func (MpM) N(string)   {}
func (FnM) M() int     { return pkgID*100 + 15 }
func (*FnM) N(string)  {}
func (ArM) M() int     { return pkgID*100 + 16 }
func (*ArM) N(string)  {}
func (ArM) k()         {}
func (StM) M() int     { return pkgID*100 + 17 }
func (StM) N(string)   {}
func (FlM) M() int     { return pkgID*100 + 18 }
func (*FlM) N(string)  {}
func (PsM) M() int     { return pkgID*100 + 19 }
func (*PsM) N(string)  {}

type Ka interface{ a() int }
type Kb interface{ b() int }
type Xa struct{}
type Xb struct{}

func (Xa) a() int { return pkgID*10 + 1 }
func (Xb) b() int { return pkgID*10 + 2 }

type Xa2 struct{}

func (Xa2) a() int { return pkgID*10 + 3 }

// a call through an interface value of the instantiating type (interface{ p.Ka; q.Ka } has TWO methods named a)
func CallKa[T Ka](x T) int { return x.a() }
func CallKb[T Kb](x T) int { return x.b() }

// interface{ p.Kz; q.Kc } lists alpha (of q) before zed (of p); the method table of struct{ p.Xz; q.Xc } has vm/p.zed first
type Kz interface{ zed() int }
type Kc interface{ alpha() int }
type Xz struct{}
type Xc struct{}

func (Xz) zed() int   { return pkgID*10 + 6 }
func (Xc) alpha() int { return pkgID*10 + 7 }
func CallZed[T Kz](x T) int   { return x.zed() }
func CallAlpha[T Kc](x T) int { return x.alpha() }

// a non-ASCII exported method name sorts AFTER every `pkgpath.name` of an unexported method
type Uni interface {
	Äb() int
	b() int
	Zc() int
	x() int
}
type UniT struct{}

func (UniT) Äb() int { return 1 }
func (UniT) b() int  { return 2 }
func (UniT) Zc() int { return 3 }
func (UniT) x() int  { return 4 }

// static conversion to Uni happens at the call site; all four slots of the itab are used
func UseUni(u Uni) int { return u.Äb()*1000 + u.b()*100 + u.Zc()*10 + u.x() + pkgID*10000 }

type Kab interface {
	a() int
	b() int
}
type Em struct {
	T
	*U
}
type Mix interface {
	Zeta()
	alpha()
	Beta(int) string
	gamma() error
}
type MixT struct{}

func (MixT) Zeta()           {}
func (MixT) alpha()          {}
func (*MixT) Beta(int) string { return "" }
func (MixT) gamma() error    { return nil }
'''


def pkg_path(pkg):
    return {"p": MOD + "/p", "q": MOD + "/q", "r": MOD + "/r", "d": "9" + MOD + "/d", "x": PATCH}[pkg]


def pkg_name(pkg):
    return {"p": "p", "q": "q", "r": "r", "d": "d", "x": "vx"}[pkg]


# ---------------------------------------------------------------------------------------------- rendering

def render(t, home):
    k = t[0]
    if k == 'b':
        return t[1]
    if k == 'p':
        return "*" + render(t[1], home)
    if k == 's':
        return "[]" + render(t[1], home)
    if k == 'a':
        return "[%d]%s" % (t[1], render(t[2], home))
    if k == 'm':
        return "map[%s]%s" % (render(t[1], home), render(t[2], home))
    if k == 'c':
        e = render(t[2], home)
        if t[1] == '':
            # chan (<-chan T): parenthesise so that the source means what the term says
            return "chan (" + e + ")" if t[2][0] == 'c' and t[2][1] == 'recv' else "chan " + e
        return ("chan<- " if t[1] == 'send' else "<-chan ") + ("(" + e + ")" if t[2][0] == 'c' else e)
    if k == 'f':
        ps = [render(x, home) for x in t[1]]
        if t[3]:
            ps[-1] = "..." + render(t[1][-1][1], home)
        rs = [render(x, home) for x in t[2]]
        out = "func(" + ", ".join(ps) + ")"
        if len(rs) == 1:
            out += " " + ("(" + rs[0] + ")" if t[2][0][0] == 'f' else rs[0])
        elif rs:
            out += " (" + ", ".join(rs) + ")"
        return out
    if k == 'st':
        parts = []
        for (name, emb, tag, ft) in t[1]:
            s = render(ft, home) if emb else name + " " + render(ft, home)
            if tag is not None:
                s += " " + go_string(tag)
            parts.append(s)
        return "struct{ " + "; ".join(parts) + " }" if parts else "struct{}"
    if k == 'if':
        parts = []
        for (name, sig) in t[1]:
            if name is None:                       # embedded interface
                parts.append(render(sig, home))
            else:
                parts.append(name + render(sig, home)[4:])
        return "interface{ " + "; ".join(parts) + " }" if parts else "interface{}"
    if k == 'n':
        _, pkg, name, targs = t
        s = name if pkg == home or pkg is None else pkg_name(pkg) + "." + name
        if targs:
            s += "[" + ", ".join(render(x, home) for x in targs) + "]"
        return s
    if k == 'l':
        return "L"
    raise ValueError(t)


def go_string(s):
    out = ['"']
    for ch in s:
        o = ord(ch)
        if ch == '"' or ch == '\\':
            out.append('\\' + ch)
        elif 32 <= o < 127:
            out.append(ch)
        elif o < 0x10000:
            out.append('\\u%04x' % o)
        else:
            out.append('\\U%08x' % o)
    out.append('"')
    return "".join(out)


def local_sites(t, acc=None):
    """the sites of the local type leaves of a term"""
    acc = set() if acc is None else acc
    if t[0] == 'l':
        acc.add(t[1])
    for x in _children(t):
        local_sites(x, acc)
    return acc


def uses_pkgs(t, acc=None):
    """packages whose names the term mentions"""
    acc = set() if acc is None else acc
    if t[0] == 'n' and t[1] is not None:
        acc.add(t[1])
    for x in _children(t):
        uses_pkgs(x, acc)
    return acc


def _children(t):
    k = t[0]
    if k in ('p', 's'):
        return [t[1]]
    if k in ('a', 'c'):
        return [t[2]]
    if k == 'm':
        return [t[1], t[2]]
    if k == 'f':
        return list(t[1]) + list(t[2])
    if k == 'st':
        return [f[3] for f in t[1]]
    if k == 'if':
        return [m[1] for m in t[1]]
    if k == 'n':
        return list(t[3])
    return []


def has_unexported_member(t):
    if t[0] == 'st' and any((not f[1]) and not f[0][:1].isupper() for f in t[1]):
        return True
    if t[0] == 'st' and any(f[1] and f[3][0] == 'b' for f in t[1]):
        return True
    if t[0] == 'if' and any(m[0] is not None and not m[0][:1].isupper() for m in t[1]):
        return True
    return any(has_unexported_member(x) for x in _children(t))


# ---------------------------------------------------------------------------------------------- generation

class Gen:
    def __init__(self, rng, home="r", allow_local=True, closed=False, universe=None):
        self.universe = universe or UNIVERSE_COMMON
        self.rng = rng
        self.home = home
        self.allow_local = allow_local
        self.closed = closed            # only builtins and p's exported names (valid in every package)

    def pkgs(self):
        return ["p"] if self.closed else ["p", "q", "r"]

    def basic(self):
        return ('b', self.rng.choice(BASICS + ["string", "int", "unsafe.Pointer", "error", "any"]))

    def named(self, comparable=False, embeddable=False, depth=3):
        rng = self.rng
        for _ in range(20):
            name = rng.choice(list(self.universe))
            kind, cmp_, emb, nt = self.universe[name]
            if embeddable and not emb:
                continue
            pkg = rng.choice(self.pkgs())
            targs = ()
            if nt:
                targs = tuple(self.typ(depth - 1, comparable=(i == 0 and name == "H") or comparable, targ=True) for i in range(nt))
                if comparable and name == "G":
                    pass
            elif comparable and not cmp_:
                continue
            return ('n', pkg, name, targs)
        return ('n', "p", "T", ())

    def sig(self, depth):
        rng = self.rng
        np_ = rng.choice([0, 0, 1, 1, 2, 3])
        nr = rng.choice([0, 0, 1, 1, 2])
        ps = tuple(self.typ(depth - 1) for _ in range(np_))
        rs = tuple(self.typ(depth - 1) for _ in range(nr))
        variadic = False
        if ps and rng.random() < 0.3:
            ps = ps[:-1] + (('s', self.typ(depth - 1)),)
            variadic = rng.random() < 0.6
        return ('f', ps, rs, variadic)

    def field_names(self, n):
        pool = ["A", "B", "C", "Name", "a", "b", "x", "_", "Z9", "fieldX"]
        rng = self.rng
        names = []
        while len(names) < n:
            c = rng.choice(pool)
            if c == "_" or c not in names:
                names.append(c)
        return names

    def struct(self, depth, comparable=False):
        rng = self.rng
        n = rng.choice([0, 1, 1, 2, 2, 3, 3])
        fields = []
        used = set()
        names = self.field_names(n)
        for i in range(n):
            tag = rng.choice([None, None, None, 'json:"a"', 'x:"1"', "k", 'x:"2"', "é \"q\""])
            if rng.random() < 0.3:
                et = self.named(comparable=comparable, embeddable=True, depth=depth - 1) if rng.random() < 0.8 else ('b', rng.choice(["int", "string", "byte", "uint8", "error"]))
                if et[0] == 'n' and self.universe[et[2]][0] not in ("iface", "alias:I") and rng.random() < 0.3 and not comparable:
                    et2 = ('p', et)
                else:
                    et2 = et
                nm = et[2] if et[0] == 'n' else et[1]
                if nm in used:
                    continue
                used.add(nm)
                fields.append((nm, True, tag, et2))
            else:
                nm = names[i]
                if nm != "_" and nm in used:
                    continue
                used.add(nm)
                fields.append((nm, False, tag, self.typ(depth - 1, comparable=comparable)))
        # blank `_` fields of every field kind, incl. zero-size arrays of incomparable / of more-aligned element types
        # (the "make it incomparable" and "force the alignment" idioms); they count for comparability, alignment and size
        if rng.random() < 0.3:
            for _ in range(rng.choice([1, 1, 2])):
                fields.insert(rng.randrange(len(fields) + 1), ("_", False, rng.choice([None, None, 'x:"1"']), self.blank_type(comparable)))
        return ('st', tuple(fields))

    def blank_type(self, comparable):
        rng = self.rng
        cmp_ok = [('a', 0, ('b', 'uint64')), ('a', 0, ('b', 'complex128')), ('a', 0, ('p', ('b', 'int8'))), ('a', 0, ('b', 'string')),
                  ('b', 'int'), ('b', 'uint8'), ('b', 'string'), ('b', 'float64'), ('p', ('b', 'int')), ('c', '', ('b', 'int')),
                  ('if', ()), ('st', ()), ('a', 2, ('b', 'uint16')), ('a', 0, ('st', ())), ('b', 'unsafe.Pointer'), ('a', 0, ('if', ()))]
        incmp = [('a', 0, ('f', (), (), False)), ('a', 0, ('s', ('b', 'int'))), ('a', 0, ('m', ('b', 'string'), ('b', 'int'))),
                 ('f', (), (), False), ('s', ('b', 'uint8')), ('m', ('b', 'int'), ('b', 'int')), ('a', 1, ('f', (('b', 'int'),), (), False)),
                 ('st', (("_", False, None, ('a', 0, ('f', (), (), False))),))]
        return rng.choice(cmp_ok if comparable else cmp_ok + incmp + incmp)

    def iface(self, depth):
        rng = self.rng
        n = rng.choice([0, 1, 1, 2, 3])
        pool = ["M", "N", "Close", "m", "k", "zz", "Apply"]
        names = sorted(rng.sample(pool, n))
        return ('if', tuple((nm, self.sig(depth - 1)) for nm in names))

    def typ(self, depth=3, comparable=False, targ=False, force=None):
        rng = self.rng
        if force == "struct":
            return self.struct(max(depth, 1), comparable=comparable)
        if force == "func":
            return self.sig(max(depth, 1))
        if force == "iface":
            return self.iface(max(depth, 1))
        if depth <= 0:
            r = rng.random()
            if r < 0.55:
                b = self.basic()
                return b
            if self.allow_local and not self.closed and r < 0.62:
                return ('l', 0)
            return self.named(comparable=comparable, depth=1)
        kinds = ["basic", "named", "named", "ptr", "array", "struct", "iface", "chan"]
        if not comparable:
            kinds += ["slice", "map", "func", "func"]
        k = rng.choice(kinds)
        if k == "basic":
            return self.basic()
        if k == "named":
            return self.named(comparable=comparable, depth=depth)
        if k == "ptr":
            return ('p', self.typ(depth - 1))
        if k == "slice":
            return ('s', self.typ(depth - 1))
        if k == "array":
            return ('a', rng.choice([0, 1, 2, 3, 10, 100]), self.typ(depth - 1, comparable=comparable))
        if k == "map":
            return ('m', self.typ(depth - 1, comparable=True), self.typ(depth - 1))
        if k == "chan":
            return ('c', rng.choice(['', 'send', 'recv']), self.typ(depth - 1))
        if k == "func":
            return self.sig(depth)
        if k == "struct":
            return self.struct(depth, comparable=comparable)
        return self.iface(depth)


# ---------------------------------------------------------------------------------------------- near-miss mutation

def paths(t, prefix=()):
    """all node paths of a term"""
    out = [prefix]
    k = t[0]
    if k in ('p', 's'):
        out += paths(t[1], prefix + (1,))
    elif k in ('a', 'c'):
        out += paths(t[2], prefix + (2,))
    elif k == 'm':
        out += paths(t[1], prefix + (1,)) + paths(t[2], prefix + (2,))
    elif k == 'f':
        for i, x in enumerate(t[1]):
            out += paths(x, prefix + (1, i))
        for i, x in enumerate(t[2]):
            out += paths(x, prefix + (2, i))
    elif k == 'st':
        for i, f in enumerate(t[1]):
            out += paths(f[3], prefix + (1, i, 3))
    elif k == 'if':
        for i, m in enumerate(t[1]):
            out += paths(m[1], prefix + (1, i, 1))
    elif k == 'n':
        for i, x in enumerate(t[3]):
            out += paths(x, prefix + (3, i))
    return out


def get_at(t, path):
    for i in path:
        t = t[i]
    return t


def set_at(t, path, new):
    if not path:
        return new
    i = path[0]
    return t[:i] + (set_at(t[i], path[1:], new),) + t[i + 1:]


def context_kind(t, path):
    """how the node at `path` is used: 'key' (map key), 'emb' (embedded field), 'variadic' (last param of a variadic func), 'targ0H', or ''"""
    cur = t
    for d, i in enumerate(path):
        rest = path[d:]
        if cur[0] == 'm' and len(rest) == 1 and i == 1:
            return 'key'
        if cur[0] == 'st' and len(rest) >= 3 and cur[1][rest[1]][1]:
            return 'emb'
        if cur[0] == 'f' and len(rest) == 2 and rest[0] == 1 and cur[3] and rest[1] == len(cur[1]) - 1:
            return 'variadic'
        if cur[0] == 'n' and len(rest) == 2 and cur[2] == 'H' and rest[1] == 0:
            return 'key'
        cur = cur[i]
    return ''


def under_comparable_constraint(t, path):
    """is the node inside a position that must stay comparable (map key, H's first argument, and anything below them)?"""
    cur = t
    for d, i in enumerate(path):
        rest = path[d:]
        if cur[0] == 'm' and rest[0] == 1:
            return True
        if cur[0] == 'n' and cur[2] == 'H' and len(rest) >= 2 and rest[0] == 3 and rest[1] == 0:
            return True
        cur = cur[i]
    return False


def mutate(rng, t, gen):
    """-> (t', label) or None.  Exactly one attribute of one node changes."""
    ps = paths(t)
    rng.shuffle(ps)
    # balance over node KINDS (not nodes): pick the kind to mutate first, so that struct / func / chan / interface
    # attributes are hit as often as the (far more numerous) basic leaves
    kinds = sorted(set(get_at(t, q)[0] for q in ps))
    order = kinds[:]
    rng.shuffle(order)
    ps.sort(key=lambda q: order.index(get_at(t, q)[0]))
    for path in ps:
        node = get_at(t, path)
        ctx = context_kind(t, path)
        cmpc = under_comparable_constraint(t, path)
        m = mutate_node(rng, node, ctx, cmpc, gen)
        if m is not None:
            t2 = set_at(t, path, m[0])
            if valid(t2):
                return t2, m[1]
    return None


def embedded_name(ft):
    if ft[0] == 'p':
        ft = ft[1]
    return ft[2] if ft[0] == 'n' else ft[1] if ft[0] == 'b' else None


def valid(t):
    """field / method names are unique within every struct / interface of the term"""
    if t[0] == 'st':
        names = [embedded_name(f[3]) if f[1] else f[0] for f in t[1]]
        names = [n for n in names if n != "_"]
        if len(set(names)) != len(names) or None in names:
            return False
    if t[0] == 'if':
        names = [m[0] for m in t[1]]
        if len(set(names)) != len(names):
            return False
    return all(valid(x) for x in _children(t))


def mutate_node(rng, n, ctx, cmpc, gen):
    k = n[0]
    opts = []
    if ctx == 'emb':
        # embedded field types (T or *T): only swap within embeddable names
        if k == 'p':
            return None
        if k == 'n' and n[2] in ALIAS_TARGET:
            return (('n', n[1], ALIAS_TARGET[n[2]], n[3]), "embedded-name:alias")
        if k == 'n' and n[2] in ALIAS_TARGET.values():
            al = [a for a, tg in ALIAS_TARGET.items() if tg == n[2]][0]
            return (('n', n[1], al, n[3]), "embedded-name:alias")
        if k == 'b' and n[1] in ALIAS_SPELLING:
            return (('b', ALIAS_SPELLING[n[1]]), "embedded-name:basic-spelling")
        return None
    if ctx == 'variadic':
        return None
    if k == 'b':
        if n[1] in ALIAS_SPELLING and rng.random() < 0.4:
            return (('b', ALIAS_SPELLING[n[1]]), "basic-alias-spelling")
        if n[1] == 'any' and rng.random() < 0.5:
            return (('if', ()), "any-vs-empty-interface")
        choices = [b for b in BASICS if b != n[1] and ALIAS_SPELLING.get(b) != n[1]]
        return (('b', rng.choice(choices)), "elem-basic")
    if k == 'p':
        opts = [((n[1]), "pointer-drop")] if not cmpc or True else []
        if n[1][0] != 'if':
            opts.append((('p', n), "pointer-add"))
        o = rng.choice(opts)
        if o[1] == "pointer-drop" and cmpc:
            return None
        return o
    if k == 's':
        return rng.choice([(('a', rng.choice([0, 1, 4]), n[1]), "slice-vs-array"), (('p', n), "pointer-add")]) if not cmpc else None
    if k == 'a':
        return (('a', n[1] + rng.choice([1, 2, 10]), n[2]), "array-len")
    if k == 'm':
        if not cmpc:
            return (('m', n[1], ('p', n[2])), "elem-type")
        return None
    if k == 'c':
        return (('c', rng.choice([d for d in ['', 'send', 'recv'] if d != n[1]]), n[2]), "chan-dir")
    if k == 'f':
        ps_, rs, v = n[1], n[2], n[3]
        if ps_ and ps_[-1][0] == 's':
            opts.append((('f', ps_, rs, not v), "variadic"))
        if len(ps_) >= 2 and ps_[0] != ps_[1] and not v:
            opts.append((('f', (ps_[1], ps_[0]) + ps_[2:], rs, v), "param-order"))
        if ps_ and not v:
            opts.append((('f', ps_[:-1], rs + (ps_[-1],), v), "param-to-result"))
        if rs:
            opts.append((('f', ps_, rs[:-1], v), "arity"))
        opts.append((('f', ps_, rs + (('b', 'error'),), v), "arity"))
        labels = sorted(set(o[1] for o in opts))
        lab = rng.choice(labels)
        return rng.choice([o for o in opts if o[1] == lab])
    if k == 'st':
        fs = n[1]
        if not fs:
            return (('st', (("A", False, None, ('b', 'int')),)), "field-count")
        i = rng.randrange(len(fs))
        name, emb, tag, ft = fs[i]
        names = set(f[0] for f in fs)
        if not emb:
            for cand in ["Aa", "Bq", name.swapcase() if name.swapcase() != name and name != "_" else "Cz", "zq"]:
                if cand not in names:
                    opts.append((('st', fs[:i] + ((cand, emb, tag, ft),) + fs[i + 1:]), "field-name"))
                    break
        newtag = rng.choice([t_ for t_ in [None, 'x:"1"', 'x:"2"', 'json:"a"', ""] if t_ != tag])
        opts.append((('st', fs[:i] + ((name, emb, newtag, ft),) + fs[i + 1:]), "tag"))
        opts.append((('st', fs[:i] + ((name, emb, newtag, ft),) + fs[i + 1:]), "tag"))
        if emb and (ft[0] in ('n', 'b') or (ft[0] == 'p' and ft[1][0] == 'n')):
            opts.append((('st', fs[:i] + ((name, False, tag, ft),) + fs[i + 1:]), "embedded-flag"))
        if not emb and ft[0] == 'n' and ft[2] == name:
            opts.append((('st', fs[:i] + ((name, True, tag, ft),) + fs[i + 1:]), "embedded-flag"))
        if len(fs) >= 2 and fs[0] != fs[1]:
            opts.append((('st', (fs[1], fs[0]) + fs[2:]), "field-order"))
        opts.append((('st', fs[:-1]), "field-count"))
        labels = sorted(set(o[1] for o in opts))
        lab = rng.choice(labels)
        return rng.choice([o for o in opts if o[1] == lab])
    if k == 'if':
        ms = n[1]
        if not ms:
            return (('if', (("M", ('f', (), (), False)),)), "method-set")
        i = rng.randrange(len(ms))
        name, sig = ms[i]
        names = set(m[0] for m in ms)
        for cand in ["Mq", "zk", "Other"]:
            if cand not in names:
                renamed = tuple(sorted(ms[:i] + ((cand, sig),) + ms[i + 1:]))
                opts.append((('if', renamed), "method-set:name"))
                opts.append((('if', tuple(sorted(ms + ((cand, ('f', (), (), False)),)))), "method-set:count"))
                break
        opts.append((('if', ms[:i] + ((name, ('f', sig[1], sig[2] + (('b', 'int'),), sig[3])),) + ms[i + 1:]), "method-set:signature"))
        opts.append((('if', ms[:i] + ms[i + 1:]), "method-set:count"))
        return rng.choice(opts)
    if k == 'n':
        _, pkg, name, targs = n
        others = [p for p in gen.pkgs() if p != pkg]
        if others:
            opts.append((('n', rng.choice(others), name, targs), "named-pkg"))
        uni = getattr(gen, "universe", UNIVERSE_COMMON)
        kind = uni[name]
        same_arity = [m for m, v in uni.items() if v[3] == kind[3] and m != name and (not cmpc or v[1])]
        if same_arity and not cmpc:
            opts.append((('n', pkg, rng.choice(same_arity), targs), "named-name"))
        if name in ALIAS_TARGET:
            opts.append((('n', pkg, ALIAS_TARGET[name], targs), "alias-subst"))
        if name in ALIAS_TARGET.values():
            al = [a for a, tg in ALIAS_TARGET.items() if tg == name][0]
            opts.append((('n', pkg, al, targs), "alias-subst"))
            opts.append((('n', pkg, al, targs), "alias-subst"))
        if name == "T" and not cmpc:
            opts.append((('st', (("X", False, None, ('b', 'int')),)), "named-vs-underlying"))
        if name == "E":
            opts.append((('b', 'int'), "named-vs-underlying"))
        under = {"Fn": ('f', (('b', 'int'),), (('b', 'string'),), False), "Sl": ('s', ('b', 'int')), "Mp": ('m', ('b', 'string'), ('b', 'int')),
                 "Ch": ('c', '', ('b', 'int')), "Ptr": ('p', ('n', pkg, 'T', ()))}
        if name in under and (not cmpc or name in ("Ch", "Ptr")):
            opts.append((under[name], "named-vs-underlying"))
            opts.append((under[name], "named-vs-underlying"))
        if not opts:
            return None
        return rng.choice(opts)
    if k == 'l':
        return (('l', rng.choice([s for s in LOCAL_SITES if s != n[1]])), "local-scope")
    return None


# ---------------------------------------------------------------------------------------------- local-type scaffolding

# site -> (function suffix, block nesting path)
LOCAL_SITES = [0, 1, 2, 3, 4, 5]
LOCAL_UNDER = "struct{ A int }"


def local_function(idx, decls):
    """decls: {site: [go statements]} -> source of the two functions of pair `idx` with `type L` declared at every site.
    Layout (scope children of the function scope are numbered in source order):
        func fa<idx>() { type L; <site 0> ; { type L; <site 1> } ; { type L; <site 2> ; { type L; <site 3> } } ; if true { type L; <site 4> } }
        func fb<idx>() { type L; <site 5> }
    """
    def body(site):
        return "\n".join(["type L %s" % LOCAL_UNDER, "var _ L"] + decls.get(site, []))
    return """
func fa%d() {
%s
	{
%s
	}
	{
%s
		{
%s
		}
	}
	if true {
%s
	}
}

func fb%d() {
%s
}
""" % (idx, body(0), body(1), body(2), body(3), body(4), idx, body(5))
