import LlgoVerif.Spec.TypeIdent
import LlgoVerif.Model.Iface
namespace LlgoVerif.Types
end LlgoVerif.Types
