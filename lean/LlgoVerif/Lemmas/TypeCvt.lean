import LlgoVerif.Model.TypeCvt
/-! Lemmas about the model of `ssa/type_cvt.go`: the lowering is lossless (`unlower` reads every result back as the
    source type) and keeps what method sets are computed from. -/
namespace LlgoVerif.TypeCvt

def eraseRaw : Head → Head
  | .named i _ => .named i false
  | .ptrNamed i _ => .ptrNamed i false
  | .other => .other

/-- what a field contributes to selector / method-set computations: name, embedded flag, tag, embedded type head -/
def key (f : Field) : String × Bool × String × Head := (f.name, f.embedded, f.tag, eraseRaw (head f.ty))

def keys (t : GTy) : List (String × Bool × String × Head) := (fieldsOf (some t)).map key

def inames (t : GTy) : List String := (ifaceMethodsOf (some t)).map (·.name)

theorem lookup_cons (i : Nat) (e : Option GTy) (m : Memo) (id : Nat) :
    lookup ((i, e) :: m) id = if i = id then some e else lookup m id := rfl

theorem collapse_src (fs : List Field) (h : isSrcF fs = true) : collapse fs = .struct fs := by
  unfold collapse
  split
  · simp [isSrcF] at h
    simp [h.1.1]
  · rfl

mutual
theorem unlower_src : (t : GTy) → isSrc t = true → unlower t = t
  | .basic _, _ => by simp [unlower]
  | .ptr t, h => by simp [isSrc] at h; simp [unlower, unlower_src t h]
  | .slice t, h => by simp [isSrc] at h; simp [unlower, unlower_src t h]
  | .arr _ t, h => by simp [isSrc] at h; simp [unlower, unlower_src t h]
  | .chan _ t, h => by simp [isSrc] at h; simp [unlower, unlower_src t h]
  | .map k v, h => by simp [isSrc] at h; simp [unlower, unlower_src k h.1, unlower_src v h.2]
  | .named id raw, h => by simp [isSrc] at h; simp [unlower, h]
  | .sig ps rs v, h => by simp [isSrc] at h; simp [unlower, unlowerL_src ps h.1, unlowerL_src rs h.2]
  | .struct fs, h => by simp [isSrc] at h; simp [unlower, unlowerF_src fs h, collapse_src fs h]
  | .iface ms, h => by simp [isSrc] at h; simp [unlower, unlowerF_src ms h]
theorem unlowerL_src : (ts : List GTy) → isSrcL ts = true → unlowerL ts = ts
  | [], _ => by simp [unlowerL]
  | t :: ts, h => by simp [isSrcL] at h; simp [unlowerL, unlower_src t h.1, unlowerL_src ts h.2]
theorem unlowerF_src : (fs : List Field) → isSrcF fs = true → unlowerF fs = fs
  | [], _ => by simp [unlowerF]
  | .mk n t e tag :: fs, h => by simp [isSrcF] at h; simp [unlowerF, unlower_src t h.1.2, unlowerF_src fs h.2]
end

theorem collapse_cases (l : List Field) : collapse l = .struct l ∨ ∃ ps rs v, collapse l = .sig ps rs v := by
  unfold collapse
  split
  · split
    · exact Or.inr ⟨_, _, _, rfl⟩
    · exact Or.inl rfl
  · exact Or.inl rfl

theorem head_ptr_collapse (l : List Field) : head (.ptr (collapse l)) = .other := by
  rcases collapse_cases l with h | ⟨ps, rs, v, h⟩ <;> rw [h] <;> rfl

theorem head_collapse (l : List Field) : head (collapse l) = .other := by
  rcases collapse_cases l with h | ⟨ps, rs, v, h⟩ <;> rw [h] <;> rfl

/-- the head of a type (what an embedded field of that type contributes) survives `unlower`, up to the raw flag -/
theorem head_unlower (x : GTy) : eraseRaw (head (unlower x)) = eraseRaw (head x) := by
  cases x with
  | ptr y =>
    cases y with
    | struct fs => simp only [unlower]; rw [head_ptr_collapse]; rfl
    | _ => simp [unlower, head, eraseRaw]
  | struct fs => simp only [unlower]; rw [head_collapse]; rfl
  | _ => simp [unlower, head, eraseRaw]

def namesF (fs : List Field) : List String := fs.map (·.name)

/-- invariant of the memo: the underlying type recorded for a raw twin reads back as the declared underlying type and
    has the same selector keys -/
def MemoOK (D : Decls) (m : Memo) : Prop :=
  ∀ id u, lookup m id = some (some u) →
    ∃ d, D id = some d ∧ unlower u = d.under ∧ keys u = keys d.under ∧ inames u = inames d.under

def SrcDecls (D : Decls) : Prop := ∀ id d, D id = some d → isSrc d.under = true

/-- what one conversion step guarantees about its result `r = ((raw, changed), memo')` on source type `t` -/
def Good (D : Decls) (t : GTy) (r : (GTy × Bool) × Memo) : Prop :=
  unlower r.1.1 = t ∧ (r.1.2 = false → r.1.1 = t) ∧ keys r.1.1 = keys t ∧ inames r.1.1 = inames t ∧ MemoOK D r.2

def StepOK (D : Decls) (f : GTy → R (GTy × Bool)) : Prop :=
  ∀ t m r, isSrc t = true → MemoOK D m → f t m = some r → Good D t r

theorem mapTys_ok {D : Decls} {f : GTy → R (GTy × Bool)} (hf : StepOK D f) :
    ∀ (ts : List GTy) (m : Memo) (r : (List GTy × Bool) × Memo), isSrcL ts = true → MemoOK D m → mapTys f ts m = some r →
      unlowerL r.1.1 = ts ∧ (r.1.2 = false → r.1.1 = ts) ∧ MemoOK D r.2 := by
  intro ts
  induction ts with
  | nil => intro m r _ hm h; simp [mapTys] at h; subst h; exact ⟨by simp [unlowerL], fun _ => rfl, hm⟩
  | cons t ts ih =>
    intro m r hs hm h
    simp [isSrcL] at hs
    simp only [mapTys] at h
    cases h1 : f t m with
    | none => simp [h1] at h
    | some x =>
      obtain ⟨⟨t', c⟩, m1⟩ := x
      simp only [h1] at h
      obtain ⟨hu, hc, _, _, hm1⟩ := hf t m _ hs.1 hm h1
      cases h2 : mapTys f ts m1 with
      | none => simp [h2] at h
      | some y =>
        obtain ⟨⟨ts', cs⟩, m2⟩ := y
        simp only [h2] at h
        obtain ⟨iu, ic, im⟩ := ih m1 _ hs.2 hm1 h2
        simp at h; subst h
        simp at hu hc iu ic im ⊢
        refine ⟨?_, ?_, im⟩
        · cases c <;> simp [unlowerL, iu, hu, unlower_src t hs.1]
        · intro hcc hcs; simp [hcc, ic hcs]

theorem mapFields_ok {D : Decls} {f : GTy → R (GTy × Bool)} (hf : StepOK D f) :
    ∀ (fs : List Field) (m : Memo) (r : (List Field × Bool) × Memo), isSrcF fs = true → MemoOK D m → mapFields f fs m = some r →
      unlowerF r.1.1 = fs ∧ (r.1.2 = false → r.1.1 = fs) ∧ r.1.1.map key = fs.map key ∧ namesF r.1.1 = namesF fs ∧ MemoOK D r.2 := by
  intro fs
  induction fs with
  | nil => intro m r _ hm h; simp [mapFields] at h; subst h; exact ⟨by simp [unlowerF], fun _ => rfl, rfl, rfl, hm⟩
  | cons fd fs ih =>
    intro m r hs hm h
    obtain ⟨n, t, e, tag⟩ := fd
    simp [isSrcF] at hs
    simp only [mapFields] at h
    cases h1 : f t m with
    | none => simp [h1] at h
    | some x =>
      obtain ⟨⟨t', c⟩, m1⟩ := x
      simp only [h1] at h
      obtain ⟨hu, hc, _, _, hm1⟩ := hf t m _ hs.1.2 hm h1
      cases h2 : mapFields f fs m1 with
      | none => simp [h2] at h
      | some y =>
        obtain ⟨⟨fs', cs⟩, m2⟩ := y
        simp only [h2] at h
        obtain ⟨iu, ic, ik, inn, im⟩ := ih m1 _ hs.2 hm1 h2
        simp at h; subst h
        simp at hu hc iu ic ik inn im ⊢
        refine ⟨?_, ?_, ?_, ?_, im⟩
        · cases c <;> simp [unlowerF, iu, hu, unlower_src t hs.1.2]
        · intro hcc hcs; simp [hcc, ic hcs]
        · cases c
          · simp [ik]
          · have hh := head_unlower t'
            rw [hu] at hh
            simp [ik, key, Field.name, Field.embedded, Field.tag, Field.ty, hh]
        · cases c <;> simp_all [namesF, Field.name]

theorem keys_nonstruct (t : GTy) (h : ∀ fs, t ≠ .struct fs) : keys t = [] := by
  cases t <;> simp_all [keys, fieldsOf]

theorem inames_noniface (t : GTy) (h : ∀ ms, t ≠ .iface ms) : inames t = [] := by
  cases t <;> simp_all [inames, ifaceMethodsOf]

/-- `cvtFunc` inherits the guarantees of the conversion it applies to parameters and results -/
theorem cvtFuncWith_ok {D : Decls} {f : GTy → R (GTy × Bool)} (hf : StepOK D f) : StepOK D (cvtFuncWith f) := by
  intro t m r hs hm h
  cases t with
  | sig ps rs v =>
    simp [isSrc] at hs
    simp only [cvtFuncWith] at h
    cases h1 : mapTys f ps m with
    | none => simp [h1] at h
    | some x =>
      obtain ⟨⟨ps', c1⟩, m1⟩ := x
      simp only [h1] at h
      obtain ⟨pu, pc, pm⟩ := mapTys_ok hf ps m _ hs.1 hm h1
      cases h2 : mapTys f rs m1 with
      | none => simp [h2] at h
      | some y =>
        obtain ⟨⟨rs', c2⟩, m2⟩ := y
        simp only [h2] at h
        obtain ⟨ru, rc, rm⟩ := mapTys_ok hf rs m1 _ hs.2 pm h2
        simp at h; subst h
        simp at pu pc ru rc rm
        refine ⟨?_, ?_, ?_, ?_, rm⟩
        · cases c1 <;> cases c2 <;> simp [unlower, pu, ru, unlowerL_src ps hs.1, unlowerL_src rs hs.2]
        · intro hc; simp at hc; simp [hc]
        · cases c1 <;> cases c2 <;> simp [keys, fieldsOf]
        · cases c1 <;> cases c2 <;> simp [inames, ifaceMethodsOf]
  | _ =>
    simp [cvtFuncWith] at h; subst h
    exact ⟨unlower_src _ hs, fun _ => rfl, rfl, rfl, hm⟩

/-- a struct with the field names of a source struct is not taken for a closure -/
theorem isClosure_of_names {fs fs' : List Field} (hs : isSrcF fs = true) (hn : namesF fs' = namesF fs) : isClosure fs' = false := by
  unfold isClosure
  split
  · rename_i n1 ps rs v e1 t1 n2 b e2 t2
    cases fs with
    | nil => simp [namesF] at hn
    | cons a rest =>
      obtain ⟨n, t, e, tag⟩ := a
      simp [isSrcF] at hs
      simp [namesF, Field.name] at hn
      simp [hn.1, hs.1.1]
  · rfl

theorem isClosure_src {fs : List Field} (hs : isSrcF fs = true) : isClosure fs = false := isClosure_of_names hs rfl

theorem rebuild1_ok {D : Decls} {g : GTy → R (GTy × Bool)} (hg : StepOK D g) (mk : GTy → GTy) (e : GTy) (m : Memo)
    (r : (GTy × Bool) × Memo)
    (hmk : ∀ x, unlower (mk x) = mk (unlower x)) (hk : ∀ x, keys (mk x) = []) (hi : ∀ x, inames (mk x) = [])
    (hs : isSrc e = true) (hm : MemoOK D m) (h : rebuild1 (mk e) mk (g e m) = some r) : Good D (mk e) r := by
  unfold rebuild1 at h
  cases h1 : g e m with
  | none => simp [h1] at h
  | some x =>
    obtain ⟨⟨e', c⟩, m1⟩ := x
    simp [h1] at h; subst h
    obtain ⟨hu, hc, _, _, hm1⟩ := hg e m _ hs hm h1
    simp at hu hc
    refine ⟨?_, ?_, ?_, ?_, hm1⟩
    · cases c <;> simp [hmk, hu, unlower_src e hs]
    · intro hcc; simp at hcc; simp [hcc]
    · cases c <;> simp [hk]
    · cases c <;> simp [hi]

theorem memoOK_push_none {D : Decls} {m : Memo} (hm : MemoOK D m) (id : Nat) : MemoOK D ((id, none) :: m) := by
  intro j u hj
  rw [lookup_cons] at hj
  by_cases hij : id = j
  · simp [hij] at hj
  · simp [hij] at hj; exact hm j u hj

/-- **the lowering is lossless and keeps the selector keys**, for every fuel, type and memo -/
theorem cvt_ok {D : Decls} (hD : SrcDecls D) : ∀ fuel, StepOK D (cvt D fuel) := by
  intro fuel
  induction fuel with
  | zero => intro t m r _ _ h; simp [cvt] at h
  | succ fuel ih =>
    intro t m r hs hm h
    cases t with
    | basic n => simp [cvt] at h; subst h; exact ⟨rfl, fun _ => rfl, rfl, rfl, hm⟩
    | ptr e =>
      simp only [cvt] at h; simp [isSrc] at hs
      exact rebuild1_ok ih .ptr e m r (by intro x; simp [unlower]) (by intro x; simp [keys, fieldsOf]) (by intro x; simp [inames, ifaceMethodsOf]) hs hm h
    | slice e =>
      simp only [cvt] at h; simp [isSrc] at hs
      exact rebuild1_ok ih .slice e m r (by intro x; simp [unlower]) (by intro x; simp [keys, fieldsOf]) (by intro x; simp [inames, ifaceMethodsOf]) hs hm h
    | arr n e =>
      simp only [cvt] at h; simp [isSrc] at hs
      exact rebuild1_ok ih (.arr n) e m r (by intro x; simp [unlower]) (by intro x; simp [keys, fieldsOf]) (by intro x; simp [inames, ifaceMethodsOf]) hs hm h
    | chan d e =>
      simp only [cvt] at h; simp [isSrc] at hs
      exact rebuild1_ok ih (.chan d) e m r (by intro x; simp [unlower]) (by intro x; simp [keys, fieldsOf]) (by intro x; simp [inames, ifaceMethodsOf]) hs hm h
    | map k v =>
      simp only [cvt] at h; simp [isSrc] at hs
      cases h1 : cvt D fuel k m with
      | none => simp [h1] at h
      | some x =>
        obtain ⟨⟨k', c1⟩, m1⟩ := x
        simp only [h1] at h
        obtain ⟨ku, kc, _, _, km⟩ := ih k m _ hs.1 hm h1
        cases h2 : cvt D fuel v m1 with
        | none => simp [h2] at h
        | some y =>
          obtain ⟨⟨v', c2⟩, m2⟩ := y
          simp only [h2] at h
          obtain ⟨vu, vc, _, _, vm⟩ := ih v m1 _ hs.2 km h2
          simp at h; subst h
          simp at ku kc vu vc
          refine ⟨?_, ?_, ?_, ?_, vm⟩
          · cases c1 <;> cases c2 <;> simp [unlower, ku, vu, unlower_src k hs.1, unlower_src v hs.2]
          · intro hc; simp at hc; simp [hc]
          · cases c1 <;> cases c2 <;> simp [keys, fieldsOf]
          · cases c1 <;> cases c2 <;> simp [inames, ifaceMethodsOf]
    | struct fs =>
      simp only [cvt] at h; simp [isSrc] at hs
      rw [isClosure_src hs] at h
      simp only [Bool.false_eq_true, if_false] at h
      cases h1 : mapFields (cvt D fuel) fs m with
      | none => simp [h1] at h
      | some x =>
        obtain ⟨⟨fs', c⟩, m1⟩ := x
        simp [h1] at h; subst h
        obtain ⟨fu, fc, fk, fn, fm⟩ := mapFields_ok ih fs m _ hs hm h1
        simp at fu fc fk fn
        refine ⟨?_, ?_, ?_, ?_, fm⟩
        · cases c <;> simp [unlower, fu, unlowerF_src fs hs, collapse_src fs hs]
        · intro hc; simp at hc; simp [hc]
        · cases c
          · simp
          · simp [keys, fieldsOf, isClosure_of_names hs fn, isClosure_src hs, fk]
        · cases c <;> simp [inames, ifaceMethodsOf]
    | iface ms =>
      simp only [cvt] at h; simp [isSrc] at hs
      cases h1 : mapFields (cvtFuncWith (cvt D fuel)) ms m with
      | none => simp [h1] at h
      | some x =>
        obtain ⟨⟨ms', c⟩, m1⟩ := x
        simp [h1] at h; subst h
        obtain ⟨fu, fc, fk, fn, fm⟩ := mapFields_ok (cvtFuncWith_ok ih) ms m _ hs hm h1
        simp at fu fc fk fn
        refine ⟨?_, ?_, ?_, ?_, fm⟩
        · cases c <;> simp [unlower, fu, unlowerF_src ms hs]
        · intro hc; simp at hc; simp [hc]
        · cases c <;> simp [keys, fieldsOf]
        · cases c
          · simp
          · simpa [inames, ifaceMethodsOf, namesF] using fn
    | sig ps rs v =>
      simp only [cvt] at h
      cases h1 : cvtFuncWith (cvt D fuel) (.sig ps rs v) m with
      | none => simp [h1] at h
      | some x =>
        obtain ⟨⟨raw, c⟩, m1⟩ := x
        simp [h1] at h; subst h
        obtain ⟨ru, _, _, _, rm⟩ := cvtFuncWith_ok ih _ m _ hs hm h1
        simp at ru
        refine ⟨?_, ?_, ?_, ?_, rm⟩
        · simp [closureOf, unlower, unlowerF, rawPointer, ru, collapse]
        · intro hc; simp at hc
        · -- the raw signature is a signature: the struct built around it is a closure struct
          have hsig : ∃ ps' rs' v', raw = .sig ps' rs' v' := by
            simp only [cvtFuncWith] at h1
            cases h2 : mapTys (cvt D fuel) ps m with
            | none => simp [h2] at h1
            | some y =>
              obtain ⟨⟨ps', c1⟩, m2⟩ := y
              simp only [h2] at h1
              cases h3 : mapTys (cvt D fuel) rs m2 with
              | none => simp [h3] at h1
              | some z =>
                obtain ⟨⟨rs', c2⟩, m3⟩ := z
                simp [h3] at h1
                by_cases hc : (c1 || c2) = true
                · simp at hc; exact ⟨ps', rs', v, by rcases hc with hc | hc <;> simp [hc] at h1 <;> exact h1.1.1.symm⟩
                · simp at hc; exact ⟨ps, rs, v, by simp [hc] at h1; exact h1.1.1.symm⟩
          obtain ⟨ps', rs', v', rfl⟩ := hsig
          simp [keys, fieldsOf, closureOf, isClosure, rawPointer]
        · simp [inames, ifaceMethodsOf, closureOf]
    | named id raw =>
      simp [isSrc] at hs; subst hs
      simp only [cvt] at h
      simp only [Bool.false_eq_true, if_false] at h
      cases hl : lookup m id with
      | some e =>
        cases e with
        | none => simp [hl] at h; subst h; exact ⟨rfl, fun _ => rfl, rfl, rfl, hm⟩
        | some u =>
          simp [hl] at h; subst h
          exact ⟨by simp [unlower], by intro hc; simp at hc, by simp [keys, fieldsOf], by simp [inames, ifaceMethodsOf], hm⟩
      | none =>
        simp only [hl] at h
        cases hd : D id with
        | none => simp [hd] at h
        | some d =>
          simp only [hd] at h
          cases h1 : cvt D fuel d.under ((id, none) :: m) with
          | none => simp [h1] at h
          | some x =>
            obtain ⟨⟨u', c⟩, m1⟩ := x
            simp only [h1] at h
            obtain ⟨uu, uc, uk, ui, um⟩ := ih d.under _ _ (hD id d hd) (memoOK_push_none hm id) h1
            simp at uu uc uk ui um
            cases c with
            | false =>
              simp at h; subst h
              exact ⟨rfl, fun _ => rfl, rfl, rfl, um⟩
            | true =>
              simp at h; subst h
              refine ⟨by simp [unlower], by intro hc; simp at hc, by simp [keys, fieldsOf], by simp [inames, ifaceMethodsOf], ?_⟩
              intro j u hj
              simp only [lookup_cons] at hj
              by_cases hij : id = j
              · subst hij
                simp at hj; subst hj
                exact ⟨d, hd, uu, uk, ui⟩
              · simp [hij] at hj; exact um j u hj

theorem memoOK_nil (D : Decls) : MemoOK D [] := by
  intro j u hj; simp [lookup] at hj

/-! ## method sets are computed from the keys only -/

theorem embEntries_congr {below below' : Nat → Bool → Bool → List Entry}
    (hb : ∀ i r r' a, below i r a = below' i r' a) (addr : Bool) :
    ∀ (fs gs : List Field), fs.map key = gs.map key → embEntries below addr fs = embEntries below' addr gs := by
  intro fs
  induction fs with
  | nil => intro gs h; cases gs with
    | nil => rfl
    | cons g gs => simp at h
  | cons f fs ih =>
    intro gs h
    cases gs with
    | nil => simp at h
    | cons g gs =>
      simp only [List.map_cons, List.cons.injEq] at h
      obtain ⟨hk, ht⟩ := h
      simp only [key, Prod.mk.injEq] at hk
      obtain ⟨_, he, _, hh⟩ := hk
      simp only [embEntries]
      rw [ih gs ht, he]
      congr 1
      cases hg : g.embedded with
      | false => simp
      | true =>
        simp only [if_true]
        cases hf1 : head f.ty <;> cases hg1 : head g.ty <;> simp [hf1, hg1, eraseRaw] at hh ⊢
        · subst hh; exact hb _ _ _ _
        · subst hh; exact hb _ _ _ _

theorem under_rel {D : Decls} {m : Memo} (hm : MemoOK D m) (id : Nat) (raw raw' : Bool) :
    (fieldsOf ((rawUniv D m).under id raw)).map key = (fieldsOf ((srcUniv D).under id raw')).map key ∧
    (ifaceMethodsOf ((rawUniv D m).under id raw)).map (·.name) = (ifaceMethodsOf ((srcUniv D).under id raw')).map (·.name) := by
  cases raw with
  | false => simp [rawUniv, srcUniv]
  | true =>
    simp only [rawUniv, srcUniv, if_true]
    cases hl : lookup m id with
    | none => simp
    | some e =>
      cases e with
      | none => simp
      | some u =>
        obtain ⟨d, hd, _, hk, hi⟩ := hm id u hl
        simp only [keys, inames] at hk hi
        simp [hd, hk, hi]

/-- the names found at every embedding depth are the same in the lowered universe and in the source program -/
theorem levelNames_raw {D : Decls} {m : Memo} (hm : MemoOK D m) :
    ∀ (d id : Nat) (raw raw' addr : Bool), levelNames (rawUniv D m) d id raw addr = levelNames (srcUniv D) d id raw' addr := by
  intro d
  induction d with
  | zero =>
    intro id raw raw' addr
    obtain ⟨hk, hi⟩ := under_rel hm id raw raw'
    simp only [levelNames]
    have h1 : (fieldsOf ((rawUniv D m).under id raw)).map (fun f => (f.name, 0))
        = (fieldsOf ((srcUniv D).under id raw')).map (fun f => (f.name, 0)) := by
      have := congrArg (List.map (fun (k : String × Bool × String × Head) => (k.1, 0))) hk
      simpa [List.map_map, key, Function.comp_def] using this
    have h2 : (ifaceMethodsOf ((rawUniv D m).under id raw)).map (fun f => (f.name, 1))
        = (ifaceMethodsOf ((srcUniv D).under id raw')).map (fun f => (f.name, 1)) := by
      have := congrArg (List.map (fun (k : String) => (k, 1))) hi
      simpa [List.map_map, Function.comp_def] using this
    rw [h1, h2]
    rfl
  | succ d ih =>
    intro id raw raw' addr
    simp only [levelNames]
    exact embEntries_congr (fun i r r' a => ih i r r' a) addr _ _ (under_rel hm id raw raw').1

theorem selectAt_raw {D : Decls} {m : Memo} (hm : MemoOK D m) (id : Nat) (raw raw' addr : Bool) (n : String) :
    ∀ fuel d, selectAt (rawUniv D m) id raw addr n fuel d = selectAt (srcUniv D) id raw' addr n fuel d := by
  intro fuel
  induction fuel with
  | zero => intro d; rfl
  | succ fuel ih =>
    intro d
    simp only [selectAt]
    rw [levelNames_raw hm d id raw raw' addr, ih (d + 1)]

end LlgoVerif.TypeCvt
