import LlgoVerif.Model.GoType
/-!
# Specification for C07: Go's type identity and interface satisfaction

`identical` transcribes the section "Type identity" of the Go specification over `GoType`:

* a named type is identical only to a type originating in the same declaration (`decl`) with
  identical type arguments; an alias denotes its actual type; `byte`/`uint8` and `rune`/`int32` are the same type;
* array: same length, identical elements; slice / pointer: identical elements; map: identical key
  and element; channel: identical element AND same direction;
* struct: same sequence of fields, corresponding fields having the same name, identical types,
  the same TAG, and both embedded or both not; non-exported names of different packages differ
  (`pkg : Option Str` is `some path` exactly for non-exported names, so it is compared);
* function: same number of parameters and results, pairwise identical, both variadic or neither;
* interface: same method set — the methods are held in go/types' canonical order, compared
  pointwise (name, package of a non-exported name, identical signature), as go/types itself does.

`implementsSpec mset ims`: every method of the interface (`ims`) occurs in the method set `mset` of the
operand type with the same name, the same package for a non-exported name, and an identical
signature.  Method sets themselves (promotion through embedded fields, pointer receivers) are
computed by go/types in the harness and handed over as lists.
-/
namespace LlgoVerif.Types

def normBasic : BasicKind → BasicKind
  | .byte => .uint8
  | .rune => .int32
  | k => k

mutual
def identical : GoType → GoType → Bool
  | .alias _ a, b => identical a b
  | .basic k, b =>
    match unalias b with
    | .basic k' => normBasic k == normBasic k'
    | _ => false
  | .pointer e, b =>
    match unalias b with
    | .pointer e' => identical e e'
    | _ => false
  | .slice e, b =>
    match unalias b with
    | .slice e' => identical e e'
    | _ => false
  | .array n e, b =>
    match unalias b with
    | .array n' e' => n == n' && identical e e'
    | _ => false
  | .map k v, b =>
    match unalias b with
    | .map k' v' => identical k k' && identical v v'
    | _ => false
  | .chan d e, b =>
    match unalias b with
    | .chan d' e' => d == d' && identical e e'
    | _ => false
  | .func ps rs v, b =>
    match unalias b with
    | .func ps' rs' v' => v == v' && identicalL ps ps' && identicalL rs rs'
    | _ => false
  | .struct fs, b =>
    match unalias b with
    | .struct fs' => identicalF fs fs'
    | _ => false
  | .iface ms, b =>
    match unalias b with
    | .iface ms' => identicalM ms ms'
    | _ => false
  | .named d _ _ _ targs, b =>
    match unalias b with
    | .named d' _ _ _ targs' => d == d' && identicalL targs targs'
    | _ => false
def identicalL : TList → TList → Bool
  | .nil, .nil => true
  | .cons t r, .cons t' r' => identical t t' && identicalL r r'
  | _, _ => false
def identicalF : FList → FList → Bool
  | .nil, .nil => true
  | .cons n p e g t r, .cons n' p' e' g' t' r' =>
    n == n' && p == p' && e == e' && g == g' && identical t t' && identicalF r r'
  | _, _ => false
def identicalM : MList → MList → Bool
  | .nil, .nil => true
  | .cons n p s r, .cons n' p' s' r' => n == n' && p == p' && identical s s' && identicalM r r'
  | _, _ => false
end

/-- is `(name, pkg, sig)` in the method set? -/
def hasMethod (name : Str) (pkg : Option Str) (sig : GoType) : MList → Bool
  | .nil => false
  | .cons n p s r => (n == name && p == pkg && identical sig s) || hasMethod name pkg sig r

/-- every interface method is in the method set -/
def implementsSpec (mset : MList) : MList → Bool
  | .nil => true
  | .cons n p s r => hasMethod n p s mset && implementsSpec mset r

/-- `T implements I` for the method set `mset` of `T` -/
def implements (mset : MList) (i : GoType) : Bool :=
  match unalias i with
  | .iface ms => implementsSpec mset ms
  | _ => false

end LlgoVerif.Types
