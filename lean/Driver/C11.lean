import LlgoVerif.Util
import LlgoVerif.Model.Sema
import LlgoVerif.Model.AtomicValue
/-! Line-protocol driver for C11 (semaphore + notify list under a schedule).

    `run <cfg> <val> <progs> <schedule>`
      <cfg>      three bits `ticketLess oneBroadcast casRetry` (`000` = pinned tree, `111` = repaired)
      <val>      initial semaphore count, optionally `@<c0>`: both ticket counters of the notify list start at c0
                 (counters and tickets are printed as the code sees them, modulo 2^32)
      <progs>    threads separated by `;`, operations by `.`: `A` acquire `R` release `W` add+wait `O` NotifyOne `B` NotifyAll
      <schedule> actions separated by `,`: `s<i>` | `s<i>><pick>` | `w<i>` ; `-` = empty
    answer: `<trace> # <end>` in the format of harness/c11 (one semaphore, one list):
      step = `<action>;<events>;S<val>/<waiters>:L<wait>/<notify>:T<status>.<parked at>.<ops done>,…`
      end  = `done` | `stuck` | `cut` | `disabled@<k>`

    `vrun <progs> <schedule>`   one `atomic.Value` (Model/AtomicValue.lean)
      <progs>    operations `V:<v>` Store, `G` Load, `X:<v>` Swap, `Q:<old>:<new>` CompareAndSwap; <v> = a|b + cell 1..9, `n` = nil
      <schedule> `s<i>` separated by `,`
    answer: step = `<action>;<events>;T<status>.<parked at>.<ops done>,…:V<type word>/<data word>` -/
open LlgoVerif LlgoVerif.Util LlgoVerif.Sema

def parseOp : Char → Option Op
  | 'A' => some .acquire | 'R' => some .release | 'W' => some .wait | 'O' => some .notifyOne | 'B' => some .notifyAll
  | _ => none

def parseProg (s : String) : Option (List Op) :=
  if s = "-" || s = "" then some [] else (s.splitOn ".").mapM fun o =>
    match o.toList with
    | [c] => parseOp c
    | _ => none

def parseAction (s : String) : Option Action :=
  match s.toList with
  | 's' :: rest =>
    match (String.ofList rest).splitOn ">" with
    | [i] => i.toNat?.map fun i => Action.step i 0
    | [i, p] => do pure (Action.step (← i.toNat?) (← p.toNat?))
    | _ => none
  | 'w' :: rest => (String.ofList rest).toNat?.map Action.spurious
  | _ => none

def parseCfg (s : String) : Option Cfg :=
  match s.toList with
  | [a, b, c] =>
    if (a = '0' || a = '1') && (b = '0' || b = '1') && (c = '0' || c = '1') then
      some ⟨a = '1', b = '1', c = '1'⟩
    else none
  | _ => none

def showEvent : Option Event → String
  | none => "-"
  | some (.acquired _) => "A0"
  | some .released => "R0"
  | some (.ticket t) => s!"K0.{t % W32}"
  | some (.waitRet t n) => s!"W0.{t % W32}.{n % W32}"
  | some .notifiedOne => "O0"
  | some .notifiedAll => "B0"

def showState (s : State) : String :=
  let ths := s.threads.map fun t => s!"{t.status s.sh}.{t.parkedAt}.{t.opsDone}"
  s!"S{s.sh.val}/{s.sh.waiters}:L{s.sh.wait % W32}/{s.sh.notify % W32}:T{",".intercalate ths}"

def endOf (s : State) : String :=
  if s.threads.all (fun t => t.pc = .done) then "done"
  else if s.threads.all (fun t => t.status s.sh ≠ 'r') then "stuck"
  else "cut"

/-- in the harness the release event `R` is reported when `semaRelease` RETURNS (the model's ghost event marks the Add);
    the other events coincide with the return of the operation -/
def eventsOf (before : Thread) (after : Option Thread) (ev : Option Event) : String :=
  match ev with
  | some .released => "-"
  | some e => showEvent (some e)
  | none =>
    match before.pc, after with
    | .rLock, some a => if a.opsDone = before.opsDone + 1 then "R0" else "-"
    | _, _ => "-"

def runTrace (cfg : Cfg) (s : State) (acts : List String) : String := Id.run do
  let mut st := s
  let mut out := #["init;-;" ++ showState s]
  let mut k := 0
  for a in acts do
    match parseAction a with
    | none => return "|".intercalate out.toList ++ s!" # disabled@{k}"
    | some act =>
      match nextEv cfg st act with
      | none => return "|".intercalate out.toList ++ s!" # disabled@{k}"
      | some (st', ev) =>
        let evs := match act with
          | .step i _ => match st.threads[i]? with
            | some b => eventsOf b st'.threads[i]? ev
            | none => "-"
          | .spurious _ => "-"
        out := out.push (a ++ ";" ++ evs ++ ";" ++ showState st')
        st := st'
        k := k + 1
  return "|".intercalate out.toList ++ " # " ++ endOf st

/-! ### atomic.Value -/
namespace VDrv
open LlgoVerif.AValue

def parseVal (s : String) : Option (Option Val) :=
  match s.toList with
  | ['n'] => some none
  | [t, d] =>
    let τ := if t = 'a' then some 1 else if t = 'b' then some 2 else none
    match τ, (String.singleton d).toNat? with
    | some τ, some d => some (some (τ, d))
    | _, _ => none
  | _ => none

def parseOp (s : String) : Option AValue.Op :=
  match s.splitOn ":" with
  | ["G"] => some .load
  | ["V", v] => match parseVal v with | some (some v) => some (.store v) | _ => none
  | ["X", v] => match parseVal v with | some (some v) => some (.swap v) | _ => none
  | ["Q", o, n] => match parseVal o, parseVal n with | some o, some (some n) => some (.cas o n) | _, _ => none
  | _ => none

def parseProg (s : String) : Option (List AValue.Op) :=
  if s = "-" || s = "" then some [] else (s.splitOn ".").mapM parseOp

def showV : Option Val → String
  | none => "n"
  | some (τ, d) => (if τ = 1 then "a" else if τ = 2 then "b" else "?") ++ toString d

def showTyp : TypW → String
  | .nil => "n" | .inProgress => "p" | .real τ => if τ = 1 then "a" else if τ = 2 then "b" else "?"

def showState (s : AValue.State) : String :=
  let ths := s.threads.map fun t => s!"{if t.pc = .done then 'd' else 'r'}.{t.parkedAt}.{t.opsDone}"
  s!"T{",".intercalate ths}:V{showTyp s.sh.typ}/{s.sh.data}"

def kindOf : AValue.Pc → String
  | .sLoad _ => "V" | .wLoad _ => "X" | _ => "Q"

/-- the events of a step: the call that returned (if any) and the calls that panicked at once after it -/
def eventsOf (before after : AValue.Thread) (ev : Option AValue.Event) : String :=
  let main : List String := match ev with
    | none => []
    | some .stored => ["V0"]
    | some (.loaded r) => ["G0=" ++ showV r]
    | some (.swapped r) => ["X0=" ++ showV r]
    | some (.casResult ok) => [if ok then "Q0=1" else "Q0=0"]
    | some .panicked => ["!" ++ kindOf before.pc ++ "0"]
  let extra := after.opsDone - before.opsDone - main.length
  let all := main ++ List.replicate extra "!Q0"
  if all.isEmpty then "-" else ",".intercalate all

def endOf (s : AValue.State) : String :=
  if s.threads.all (fun t => t.pc = .done) then "done" else "cut"

def runTrace (s : AValue.State) (acts : List String) : String := Id.run do
  let mut st := s
  let mut out := #["init;-;" ++ showState s]
  let mut k := 0
  for a in acts do
    let i? := match a.toList with
      | 's' :: rest => (String.ofList rest).toNat?
      | _ => none
    match i? with
    | none => return "|".intercalate out.toList ++ s!" # disabled@{k}"
    | some i =>
      match AValue.nextEv st i, st.threads[i]? with
      | some (st', ev), some b =>
        let evs := match st'.threads[i]? with
          | some a' => eventsOf b a' ev
          | none => "-"
        out := out.push (a ++ ";" ++ evs ++ ";" ++ showState st')
        st := st'
        k := k + 1
      | _, _ => return "|".intercalate out.toList ++ s!" # disabled@{k}"
  return "|".intercalate out.toList ++ " # " ++ endOf st

end VDrv

def handle (line : String) : String :=
  match fields line with
  | ["run", c, v, progs, sched] =>
    let (vs, c0s) := match v.splitOn "@" with
      | [a, b] => (a, b)
      | _ => (v, "0")
    match parseCfg c, vs.toNat?, c0s.toNat?, (progs.splitOn ";").mapM parseProg with
    | some cfg, some v, some c0, some ps =>
      let acts := if sched = "-" then [] else sched.splitOn ","
      runTrace cfg (initAt v c0 ps) acts
    | _, _, _, _ => "bad-op"
  | ["vrun", progs, sched] =>
    match (progs.splitOn ";").mapM VDrv.parseProg with
    | some ps =>
      let acts := if sched = "-" then [] else sched.splitOn ","
      VDrv.runTrace (LlgoVerif.AValue.init ps) acts
    | none => "bad-op"
  | _ => "bad-op"

def main : IO Unit := lineLoop handle
