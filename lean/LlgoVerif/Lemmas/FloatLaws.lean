import LlgoVerif.Lemmas.FloatOps
/-!
Laws of the IEEE-754 model (`Model/SoftFloat.lean`) used by the float theorems of C02: comparison is a partial order with
NaN unordered, addition and multiplication commute, unary minus is an involution, `pack`/`decode` are inverse on normal
numbers for every format meeting `Fmt.Ok`, and an integer of at most `prec` bits converts to float and back unchanged.
-/
namespace LlgoVerif.FloatLaws
open LlgoVerif LlgoVerif.SoftFloat

theorem cmpInt_swap (u v : Int) : cmpInt u v = .lt ↔ cmpInt v u = .gt := by
  unfold cmpInt
  by_cases h1 : u < v
  · have h2 : ¬ v < u := by omega
    have h3 : ¬ v = u := by omega
    simp [h1, h2, h3]
  · by_cases h3 : u = v
    · subst h3; simp
    · have h5 : v < u := by omega
      have h4 : ¬ v = u := by omega
      simp [h1, h3, h5]

theorem cmpFV_swap_lt (a b : FV) : cmpFV a b = .lt ↔ cmpFV b a = .gt := by
  cases a <;> cases b <;> simp [cmpFV]
  · rename_i s t; cases s <;> cases t <;> simp
  · rename_i s m e t n f; rw [Int.min_comm f e]; exact cmpInt_swap _ _

theorem addFV_comm (F : Fmt) (a b : FV) : addFV F a b = addFV F b a := by
  cases a <;> cases b <;> simp [addFV, Int.min_comm, Int.add_comm, Bool.and_comm]
  · rename_i s t; cases s <;> cases t <;> simp
theorem bne_comm' (s t : Bool) : (s != t) = (t != s) := by cases s <;> cases t <;> rfl
theorem mulFV_comm (F : Fmt) (a b : FV) : mulFV F a b = mulFV F b a := by
  cases a <;> cases b <;> simp [mulFV, Nat.mul_comm, Int.add_comm, bne_comm']

theorem neg_neg32 (x : BitVec 32) : GoFloat.neg (GoFloat.neg x) = x := by
  apply BitVec.eq_of_toNat_eq
  have hx := x.isLt
  simp only [GoFloat.neg, GoFloat.fmt, Fmt.ofWidth, SoftFloat.neg, signOf, Fmt.signMask, f32, if_true, BitVec.toNat_ofNat]
  have e1 : (2:Nat) ^ (8 + 23) = 2147483648 := by decide
  have e2 : (2:Nat) ^ 32 = 4294967296 := by decide
  rw [e1, e2] at *
  simp only [beq_iff_eq]
  by_cases h : x.toNat / 2147483648 % 2 = 1
  · simp only [h, if_true]
    have : ¬ ((x.toNat - 2147483648) % 4294967296 / 2147483648 % 2 = 1) := by omega
    simp only [this, if_false]; omega
  · simp only [h, if_false]
    have : ((x.toNat + 2147483648) % 4294967296 / 2147483648 % 2 = 1) := by omega
    simp only [this, if_true]; omega
theorem ofWidth_64 : Fmt.ofWidth 64 = f64 := by decide
theorem neg_neg64 (x : BitVec 64) : GoFloat.neg (GoFloat.neg x) = x := by
  apply BitVec.eq_of_toNat_eq
  have hx := x.isLt
  simp only [GoFloat.neg, GoFloat.fmt, ofWidth_64, SoftFloat.neg, signOf, Fmt.signMask, f64, BitVec.toNat_ofNat]
  have e1 : (2:Nat) ^ (11 + 52) = 9223372036854775808 := by decide
  have e2 : (2:Nat) ^ 64 = 18446744073709551616 := by decide
  rw [e1, e2] at *
  simp only [beq_iff_eq]
  by_cases h : x.toNat / 9223372036854775808 % 2 = 1
  · simp only [h, if_true]
    have : ¬ ((x.toNat - 9223372036854775808) % 18446744073709551616 / 9223372036854775808 % 2 = 1) := by omega
    simp only [this, if_false]; omega
  · simp only [h, if_false]
    have : ((x.toNat + 9223372036854775808) % 18446744073709551616 / 9223372036854775808 % 2 = 1) := by omega
    simp only [this, if_true]; omega

/-- side conditions every IEEE interchange format meets (binary32: 8/23, binary64: 11/52) -/
structure Fmt.Ok (F : Fmt) : Prop where
  e2 : 2 ≤ F.ebits
  mlt : F.mbits + 2 < 2 ^ (F.ebits - 1)

theorem ok32 : Fmt.Ok f32 := ⟨by decide, by decide⟩
theorem ok64 : Fmt.Ok f64 := ⟨by decide, by decide⟩

theorem decode_bits (F : Fmt) (neg : Bool) (E M : Nat) (hM : M < 2 ^ F.mbits) (hE : E < 2 ^ F.ebits) :
    signOf F (sgn F neg + (E * 2 ^ F.mbits + M)) = neg ∧ expField F (sgn F neg + (E * 2 ^ F.mbits + M)) = E
      ∧ manField F (sgn F neg + (E * 2 ^ F.mbits + M)) = M := by
  have hA : 0 < 2 ^ F.mbits := Nat.pow_pos (by decide)
  have hB : 0 < 2 ^ F.ebits := Nat.pow_pos (by decide)
  have hmask : F.signMask = 2 ^ F.ebits * 2 ^ F.mbits := by simp [Fmt.signMask, Nat.pow_add]
  generalize hAe : 2 ^ F.mbits = A at *
  generalize hBe : 2 ^ F.ebits = B at *
  have hlow : E * A + M < B * A := by
    have : E * A + M < (E + 1) * A := by rw [Nat.add_mul]; omega
    exact Nat.lt_of_lt_of_le this (Nat.mul_le_mul_right A hE)
  refine ⟨?_, ?_, ?_⟩
  · unfold signOf sgn; rw [hmask]
    cases neg
    · simp [Nat.div_eq_of_lt hlow]
    · simp only [if_true]
      have : (B * A + (E * A + M)) / (B * A) = 1 := by
        rw [Nat.add_div_left _ (Nat.mul_pos hB hA), Nat.div_eq_of_lt hlow]
      simp [this]
  · unfold expField sgn; rw [hmask, hAe, hBe]
    cases neg
    · simp only [Bool.false_eq_true, if_false, Nat.zero_add]
      rw [Nat.add_comm (E * A) M, Nat.add_mul_div_right _ _ hA, Nat.div_eq_of_lt hM, Nat.zero_add, Nat.mod_eq_of_lt hE]
    · simp only [if_true]
      have : B * A + (E * A + M) = M + (B + E) * A := by rw [Nat.add_mul]; omega
      rw [this, Nat.add_mul_div_right _ _ hA, Nat.div_eq_of_lt hM, Nat.zero_add, Nat.add_mod_left, Nat.mod_eq_of_lt hE]
  · unfold manField sgn; rw [hmask, hAe]
    cases neg
    · simp only [Bool.false_eq_true, if_false, Nat.zero_add]
      rw [Nat.add_comm (E * A) M, Nat.add_mul_mod_self_right, Nat.mod_eq_of_lt hM]
    · simp only [if_true]
      have : B * A + (E * A + M) = M + (B + E) * A := by rw [Nat.add_mul]; omega
      rw [this, Nat.add_mul_mod_self_right, Nat.mod_eq_of_lt hM]

theorem decode_pack (F : Fmt) (neg : Bool) (q : Nat) (e : Int)
    (hq1 : 2 ^ F.mbits ≤ q) (hq2 : q < 2 ^ (F.mbits + 1)) (he1 : F.emin ≤ e) (he2 : (e - F.emin).toNat + 2 ≤ F.emax) :
    decode F (pack F neg q e) = .fin neg q e := by
  have hA : 0 < 2 ^ F.mbits := Nat.pow_pos (by decide)
  have hq2' : q < 2 ^ F.mbits * 2 := by rw [← Nat.pow_succ]; exact hq2
  have hemax : F.emax < 2 ^ F.ebits := by
    have : 0 < 2 ^ F.ebits := Nat.pow_pos (by decide)
    unfold Fmt.emax; omega
  generalize hE0 : (e - F.emin).toNat = E0 at *
  have hmag : E0 * 2 ^ F.mbits + q = (E0 + 1) * 2 ^ F.mbits + (q - 2 ^ F.mbits) := by
    rw [Nat.add_mul]; omega
  have hM : q - 2 ^ F.mbits < 2 ^ F.mbits := by omega
  have hnov : ¬ (F.emax * 2 ^ F.mbits ≤ E0 * 2 ^ F.mbits + q) := by
    have h1 : E0 * 2 ^ F.mbits + q < (E0 + 2) * 2 ^ F.mbits := by
      rw [Nat.add_mul]; omega
    have h2 : (E0 + 2) * 2 ^ F.mbits ≤ F.emax * 2 ^ F.mbits := Nat.mul_le_mul_right _ he2
    omega
  have hpack : pack F neg q e = sgn F neg + ((E0 + 1) * 2 ^ F.mbits + (q - 2 ^ F.mbits)) := by
    unfold pack; simp only [hE0]; rw [if_neg hnov, hmag]
  obtain ⟨h1, h2, h3⟩ := decode_bits F neg (E0 + 1) (q - 2 ^ F.mbits) hM (by omega)
  rw [hpack]
  unfold decode
  simp only [h1, h2, h3]
  have hne1 : ¬ (E0 + 1 = F.emax) := by omega
  have hne2 : ¬ (E0 + 1 = 0) := by omega
  simp only [hne1, hne2, if_false]
  have e1 : 2 ^ F.mbits + (q - 2 ^ F.mbits) = q := by omega
  have e2 : F.emin + ((E0 + 1 - 1 : Nat) : Int) = e := by
    have : ((E0 : Nat) : Int) = e - F.emin := by rw [← hE0]; exact Int.toNat_of_nonneg (by omega)
    simp only [Nat.add_sub_cancel]; omega
  rw [e1, e2]

theorem bias_facts (F : Fmt) (ok : Fmt.Ok F) : F.mbits + 2 ≤ F.bias ∧ F.emax = 2 * F.bias + 1 := by
  have h := ok.mlt
  have h2 : 2 ^ F.ebits = 2 * 2 ^ (F.ebits - 1) := by
    have : F.ebits = (F.ebits - 1) + 1 := by have := ok.e2; omega
    rw [this, Nat.pow_succ]; simp; omega
  unfold Fmt.bias Fmt.emax
  omega

theorem decode_zero (F : Fmt) (ok : Fmt.Ok F) : decode F 0 = .fin false 0 F.emin := by
  have ⟨_, h2⟩ := bias_facts F ok
  have hA : 0 < F.signMask := Nat.pow_pos (by decide)
  unfold decode signOf expField manField
  have : ¬ (0 = F.emax) := by omega
  simp [Nat.zero_div, this]

theorem ofInt_exact (F : Fmt) (ok : Fmt.Ok F) (x : Int) (hx : x.natAbs < 2 ^ F.prec) : toInt F (ofInt F x) = some x := by
  have ⟨hb1, hb2⟩ := bias_facts F ok
  unfold toInt ofInt roundPack
  by_cases hm : x.natAbs = 0
  · have hx0 : x = 0 := by omega
    subst hx0
    simp only [Int.natAbs_zero, if_true, zeroBits, sgn]
    simp only [show decide ((0 : Int) < 0) = false by decide, Bool.false_eq_true, if_false]
    rw [decode_zero F ok]
    unfold truncFV
    have : ¬ (0 ≤ F.emin) := by unfold Fmt.emin; omega
    simp [this]
  · simp only [hm, if_false]
    generalize hmm : x.natAbs = m at *
    have hL1 : 2 ^ m.log2 ≤ m := Nat.log2_self_le hm
    have hL2 : m.log2 < F.prec := (Nat.log2_lt hm).mpr hx
    have hbl : bitLen m = m.log2 + 1 := by unfold bitLen; simp [hm]
    have hprec : F.prec = F.mbits + 1 := rfl
    generalize hk : m.log2 = k at *
    -- the shift: s = (k + 1) - prec ≤ 0
    have hs : max (((bitLen m : Nat) : Int) - (F.prec : Int)) (F.emin - 0) = ((k : Int) + 1) - (F.prec : Int) := by
      rw [hbl, Int.max_def]
      have : ¬ ((((k + 1 : Nat) : Int)) - (F.prec : Int) ≤ F.emin - 0) := by unfold Fmt.emin; omega
      simp only [this, if_false]; omega
    simp only [hs]
    have hsle : ((k : Int) + 1) - (F.prec : Int) ≤ 0 := by omega
    simp only [hsle, if_true]
    have hna : (((k : Int) + 1) - (F.prec : Int)).natAbs = F.mbits - k := by omega
    rw [hna, Nat.shiftLeft_eq]
    have hkm : k ≤ F.mbits := by omega
    have hpow : 2 ^ k * 2 ^ (F.mbits - k) = 2 ^ F.mbits := by rw [← Nat.pow_add]; congr 1; omega
    have hP : 0 < 2 ^ (F.mbits - k) := Nat.pow_pos (by decide)
    have hq1 : 2 ^ F.mbits ≤ m * 2 ^ (F.mbits - k) := by rw [← hpow]; exact Nat.mul_le_mul_right _ hL1
    have hq2 : m * 2 ^ (F.mbits - k) < 2 ^ (F.mbits + 1) := by
      have : m < 2 ^ (k + 1) := by rw [← hk]; exact Nat.lt_log2_self
      have h3 : 2 ^ (k + 1) * 2 ^ (F.mbits - k) = 2 ^ (F.mbits + 1) := by rw [← Nat.pow_add]; congr 1; omega
      rw [← h3]; exact Nat.mul_lt_mul_of_pos_right this hP
    have he1 : F.emin ≤ 0 + (((k : Int) + 1) - (F.prec : Int)) := by unfold Fmt.emin; omega
    have he2 : ((0 + (((k : Int) + 1) - (F.prec : Int))) - F.emin).toNat + 2 ≤ F.emax := by unfold Fmt.emin; omega
    rw [decode_pack F _ _ _ hq1 hq2 he1 he2]
    unfold truncFV
    by_cases hz : (0 : Int) ≤ 0 + (((k : Int) + 1) - (F.prec : Int))
    · have hk' : k = F.mbits := by omega
      subst hk'
      simp only [hz, if_true]
      have : (0 + (((F.mbits : Int) + 1) - (F.prec : Int))).toNat = 0 := by omega
      simp only [this, Nat.sub_self, Nat.pow_zero, Nat.mul_one, Nat.shiftLeft_zero]
      by_cases hneg : x < 0 <;> simp [hneg] <;> omega
    · simp only [hz, if_false]
      have : (-(0 + (((k : Int) + 1) - (F.prec : Int)))).toNat = F.mbits - k := by omega
      rw [this, Nat.shiftRight_eq_div_pow, Nat.mul_div_cancel _ hP]
      by_cases hneg : x < 0 <;> simp [hneg] <;> omega

theorem roundShift_cases (m k : Nat) :
    roundShift m k false = (if (decide (2 ^ (k - 1) < m % 2 ^ k) || (m % 2 ^ k == 2 ^ (k - 1) && (m / 2 ^ k) % 2 == 1)) = true then m / 2 ^ k + 1 else m / 2 ^ k) := by
  unfold roundShift; simp only [Nat.shiftRight_eq_div_pow, Bool.false_or]

/-- the rounding step is round-to-nearest, ties-to-even: the result is within half a unit (`2^k / 2`) of `m / 2^k`,
    and on an exact tie it is even -/
theorem roundShift_nearest_even (m k : Nat) (hk : 0 < k) :
    2 * ((m : Int) - (roundShift m k false : Int) * 2 ^ k).natAbs ≤ 2 ^ k ∧
      (2 * ((m : Int) - (roundShift m k false : Int) * 2 ^ k).natAbs = 2 ^ k → roundShift m k false % 2 = 0) := by
  have hP : 2 ^ k = 2 * 2 ^ (k - 1) := by
    have : k = (k - 1) + 1 := by omega
    rw [this, Nat.pow_succ]; simp; omega
  have hh : 0 < 2 ^ (k - 1) := Nat.pow_pos (by decide)
  have hdm : 2 ^ k * (m / 2 ^ k) + m % 2 ^ k = m := Nat.div_add_mod m (2 ^ k)
  have hr : m % 2 ^ k < 2 ^ k := Nat.mod_lt _ (Nat.pow_pos (by decide))
  have hq' := roundShift_cases m k
  generalize roundShift m k false = q' at *
  generalize hqe : m / 2 ^ k = q at *
  generalize hre : m % 2 ^ k = r at *
  generalize hhe : 2 ^ (k - 1) = h at *
  have hPi : ((2 : Int) ^ k) = 2 * (h : Int) := by
    have := congrArg (fun n : Nat => (n : Int)) hP
    simpa [Int.natCast_pow] using this
  rw [hP] at hdm hr ⊢
  rw [hPi]
  -- t = h * q as an atom
  generalize hte : h * q = t at *
  have hm : (m : Int) = 2 * (t : Int) + (r : Int) := by
    have h0 : 2 * h * q = 2 * t := by rw [Nat.mul_assoc, hte]
    rw [h0] at hdm
    omega
  have hmul (x : Nat) (hx : x = q ∨ x = q + 1) : (x : Int) * (2 * (h : Int)) = if x = q then 2 * (t : Int) else 2 * (t : Int) + 2 * (h : Int) := by
    have ht : ((h * q : Nat) : Int) = (t : Int) := by rw [hte]
    rw [Int.natCast_mul] at ht
    rcases hx with hx | hx
    · subst hx; simp only [if_true]
      rw [Int.mul_comm, Int.mul_assoc, ht]
    · subst hx
      have : ¬ (q + 1 = q) := by omega
      simp only [this, if_false, Int.natCast_add, Int.natCast_one, Int.add_mul, Int.one_mul]
      rw [Int.mul_comm (q : Int), Int.mul_assoc, ht]
  by_cases h1 : h < r
  · have hq : q' = q + 1 := by simp [hq', h1]
    have := hmul q' (Or.inr hq)
    have hne : ¬ (q' = q) := by omega
    simp only [hne, if_false] at this
    rw [this]; omega
  · by_cases h2 : r = h
    · by_cases h3 : q % 2 = 1
      · have hq : q' = q + 1 := by simp [hq', h2, h3]
        have := hmul q' (Or.inr hq)
        have hne : ¬ (q' = q) := by omega
        simp only [hne, if_false] at this
        rw [this]; omega
      · have hq : q' = q := by simp [hq', h2, h3]
        have := hmul q' (Or.inl hq)
        simp only [hq, if_true] at this
        rw [hq, this]; omega
    · have hq : q' = q := by simp [hq', h1, h2]
      have := hmul q' (Or.inl hq)
      simp only [hq, if_true] at this
      rw [hq, this]; omega

end LlgoVerif.FloatLaws
