import LlgoVerif.Model.Gzip
import LlgoVerif.Model.Extract
/-!
# What `archive/zip.Reader` (go1.24) hands to the loop of `extractZip`, from the bytes of the file

`extractZip` does `zip.OpenReader(file)`, walks `r.File` **in the order of the central directory**, and for every
member either makes a directory (`file.FileInfo().IsDir()`) or `file.Open()`s it and copies it into a created file.

* `findEOCD` / `readDirectoryEnd`: the end-of-central-directory record is the *last* `PK\x05\x06` whose comment
  length fits, searched in the final 1024 bytes and then in the final 65 KiB; the central directory lies directly
  in front of it (`directorySize` bytes); `baseOffset` accounts for data prepended to the archive (with go1.24's
  "does a directory header sit at the recorded offset" escape).  Zip64 end records → `unsupported`.
* `readDir`: central-directory headers until something that is not one; the number found must equal the recorded
  count modulo 65536.  **Local headers that no central header points to are never looked at**, a local header may
  be pointed to twice, and the order of the local records is irrelevant.
* `isDirOf`: Go's `FileHeader.Mode()` — the creator system decides how the external attributes are read (Unix and
  macOS: `st_mode` in the high 16 bits; FAT, NTFS, VFAT: the MS-DOS directory bit; anything else: nothing) — or a
  name ending in `/`.
* `openMember`: `File.Open` + `io.Copy`: the local header is only used for its name/extra lengths; sizes, CRC-32,
  method and flags come from the central header; stored or DEFLATE (`Gzip.inflate`); the `checksumReader`'s rules
  (more bytes than `UncompressedSize` → `ErrFormat` and the chunk is dropped; fewer → `ErrUnexpectedEOF`; CRC-32
  compared at the end, only if it is non-zero or a data descriptor is announced, in which case the descriptor is
  read and compared too).  Result: what reaches the file, and whether an error follows.

Members larger than one `io.Copy` buffer (32 KiB) are modelled only when they are consistent.
-/
namespace LlgoVerif.Zip
open LlgoVerif.Gzip (Bytes le crc32)
open LlgoVerif.Extract (Cfg FS Node lookup mkdirAll openWrite)
open LlgoVerif.Path

inductive ZErr where
  | format | unexpectedEOF | checksum | algorithm | io
  deriving DecidableEq, Repr

def u16 (b : Bytes) (off : Nat) : Nat := le ((b.drop off).take 2)
def u32 (b : Bytes) (off : Nat) : Nat := le ((b.drop off).take 4)

def sigEOCD : Bytes := [80, 75, 5, 6]
def sigCDH : Bytes := [80, 75, 1, 2]
def sigLFH : Bytes := [80, 75, 3, 4]
def sigDD : Bytes := [80, 75, 7, 8]
def sigLoc64 : Bytes := [80, 75, 6, 7]

/-- scan the reversed file: `l` = the reversed file from the byte *behind* the candidate signature's last byte on;
    `i` = position of the candidate in the file; `n` = candidates left -/
def scanRev : Nat → Nat → Bytes → Option (Except ZErr Nat)
  | 0, _, _ => none
  | n + 1, i, l =>
    match l with
    | a :: b :: c :: d :: _ =>
      if [d, c, b, a] = sigEOCD then
        -- the two bytes of the comment length sit 20 bytes further on: taken by the caller
        some (.ok i)
      else if i = 0 then none
      else scanRev n (i - 1) l.tail
    | _ => none

inductive Res (α : Type) where
  | ok (a : α)
  | err (e : ZErr)
  | unsupported

/-- `findSignatureInBlock` over the final 1024 bytes, then over the final 65 KiB: the position of the last
    signature, provided its comment fits -/
def findEOCD (file : Bytes) : Except ZErr Nat :=
  let size := file.length
  if size < 22 then .error .format
  else
    let window := Nat.min size 66560
    match scanRev (window - 22 + 1) (size - 22) (file.reverse.drop 18) with
    | none => .error .format
    | some (.error e) => .error e
    | some (.ok i) => if u16 file (i + 20) + 22 + i > size then .error .format else .ok i

structure CDH where
  creator : Nat
  flags : Nat
  method : Nat
  crc : Nat
  csize : Nat
  usize : Nat
  extAttrs : Nat
  offset : Nat
  name : Bytes
  /-- total length of this header in the directory -/
  len : Nat
  deriving Repr

/-- `readDirectoryHeader` at the start of `b`; `err` = `ErrFormat` / `io.ErrUnexpectedEOF` (the directory ends here),
    `unsupported` = a zip64 extra field is needed -/
def readCDH (b : Bytes) : Res CDH :=
  if b.length < 46 then .err .unexpectedEOF
  else if b.take 4 ≠ sigCDH then .err .format
  else
    let n := u16 b 28
    let x := u16 b 30
    let c := u16 b 32
    if (b.drop 46).length < n + x + c then
      -- `io.ReadFull`: nothing at all → `io.EOF` (which `init` does not take for the end of the directory)
      (if b.length = 46 then .err .io else .err .unexpectedEOF)
    else if u32 b 20 = 4294967295 ∨ u32 b 24 = 4294967295 ∨ u32 b 42 = 4294967295 then .unsupported
    else .ok { creator := u16 b 4, flags := u16 b 8, method := u16 b 10, crc := u32 b 16, csize := u32 b 20, usize := u32 b 24,
               extAttrs := u32 b 38, offset := u32 b 42, name := (b.drop 46).take n, len := 46 + n + x + c }

/-- the directory loop of `Reader.init`: headers until one fails to parse; `some e` = how it stopped -/
def readDir : Nat → Bytes → List CDH → Res (List CDH × ZErr)
  | 0, _, acc => .ok (acc.reverse, .format)
  | fuel + 1, b, acc =>
    if b = [] then .err .io          -- `io.EOF` from `ReadFull`: neither ErrFormat nor ErrUnexpectedEOF → `init` fails
    else match readCDH b with
      | .err .io => .err .io
      | .err e => .ok (acc.reverse, e)
      | .unsupported => .unsupported
      | .ok h => readDir fuel (b.drop h.len) (h :: acc)

/-- `Reader.init`: the central directory and the base offset, or the error `zip.OpenReader` returns -/
def readDirectory (file : Bytes) : Res (List CDH × Int) :=
  match findEOCD file with
  | .error e => .err e
  | .ok eocd =>
    let size := file.length
    let records := u16 file (eocd + 10)
    let dirSize := u32 file (eocd + 12)
    let dirOffset := u32 file (eocd + 16)
    -- zip64 locator in front of the record
    let z64 := (records = 65535 ∨ dirSize = 65535 ∨ dirOffset = 4294967295) ∧ eocd ≥ 20 ∧
      (file.drop (eocd - 20)).take 4 = sigLoc64 ∧ u32 file (eocd - 20 + 4) = 0 ∧ u32 file (eocd - 20 + 16) = 1
    if z64 then .unsupported
    else
      let base0 : Int := Int.ofNat eocd - Int.ofNat dirSize - Int.ofNat dirOffset
      let o : Int := base0 + Int.ofNat dirOffset
      if o < 0 ∨ o ≥ Int.ofNat size then .err .format
      else
        let probe : Bool := base0 > 0 && (match readCDH (file.drop dirOffset) with | .ok _ => true | _ => false)
        let probeUnknown : Bool := base0 > 0 && (match readCDH (file.drop dirOffset) with | .unsupported => true | _ => false)
        let base : Int := if probe then 0 else base0
        let start : Int := base + Int.ofNat dirOffset
        if probeUnknown then .unsupported
        else if start < 0 then .err .io
        else
          match readDir (file.length / 46 + 2) (file.drop start.toNat) [] with
          | .err e => .err e
          | .unsupported => .unsupported
          | .ok (hs, e) => if hs.length % 65536 ≠ records then .err e else .ok (hs, base)

/-- `FileHeader.Mode().IsDir()` -/
def isDirOf (h : CDH) : Bool :=
  let sys := h.creator / 256
  let byAttrs :=
    if sys = 3 ∨ sys = 19 then (h.extAttrs / 65536) % 65536 / 4096 = 4          -- S_IFDIR
    else if sys = 11 ∨ sys = 14 ∨ sys = 0 then (h.extAttrs / 16) % 2 = 1         -- MS-DOS directory attribute
    else false
  byAttrs || h.name.getLast? = some 47

/-- symbolic link by the Unix mode -/
def isSymOf (h : CDH) : Bool :=
  let sys := h.creator / 256
  (sys = 3 ∨ sys = 19) && (h.extAttrs / 65536) % 65536 / 4096 = 10

/-- what `file.Open()` + `io.Copy(w, fs)` do -/
inductive Opened where
  | openErr                          -- `Open` failed: nothing is created
  | copied (data : Bytes) (err : Bool)   -- `data` reaches the file; `err` = `io.Copy` then reports an error
  | unsupported
  deriving DecidableEq, Repr

/-- the `checksumReader` over a sequence of `Read` results: bytes, and how that call ended (`none` = `nil`,
    `some none` = `io.EOF`, `some (some e)` = error) -/
def checksumCopy (usize : Nat) (finalCheck : Bytes → Bool) : List (Bytes × Option (Option ZErr)) → Nat → Bytes → Bytes × Bool
  | [], _, written => (written, false)
  | (b, e) :: rest, nread, written =>
    let nread := nread + b.length
    if nread > usize then (written, true)
    else match e with
      | none => checksumCopy usize finalCheck rest nread (written ++ b)
      | some none => if nread ≠ usize then (written, true) else (written ++ b, !finalCheck (written ++ b))
      | some (some _) => (written ++ b, true)

def openMember (file : Bytes) (base : Int) (h : CDH) : Opened :=
  let off : Int := Int.ofNat h.offset + base
  if off < 0 then .openErr
  else
    let lfh := file.drop off.toNat
    if lfh.length < 30 then .openErr
    else if lfh.take 4 ≠ sigLFH then .openErr
    else if h.method ≠ 0 ∧ h.method ≠ 8 then .openErr
    else
      let body := off.toNat + 30 + u16 lfh 26 + u16 lfh 28
      let sect := (file.drop body).take h.csize
      -- CRC-32, and the data descriptor when bit 3 of the flags announces one
      let hasDD := (h.flags / 8) % 2 = 1
      let finalCheck (out : Bytes) : Bool :=
        if hasDD then
          let d := (file.drop (body + h.csize)).take 16
          let crcOff := if d.take 4 = sigDD then 4 else 0
          d.length ≥ 4 && d.length ≥ crcOff + 12 && u32 d crcOff = h.crc && (crc32 out).toNat = h.crc
        else h.crc = 0 || (crc32 out).toNat = h.crc
      if h.method = 0 then
        let reads : List (Bytes × Option (Option ZErr)) :=
          if h.csize = 0 then [([], some none)]
          else if sect.length < h.csize then [(sect, some none)]
          else [(sect, none), ([], some none)]
        if sect.length > 32768 ∧ ¬ (sect.length = h.csize ∧ h.csize = h.usize) then .unsupported
        else let (w, e) := checksumCopy h.usize finalCheck reads 0 []; .copied w e
      else
        match Gzip.inflate sect with
        | (out, res) =>
          let endsWith : Option ZErr := match res with | .ok _ => none | .error _ => some .format
          if out.length ≥ 32768 ∧ ¬ (res.toOption.isSome ∧ out.length = h.usize) then .unsupported
          else let (w, e) := checksumCopy h.usize finalCheck [(out, some endsWith)] 0 []; .copied w e

/-- a member as the loop of `extractZip` sees it -/
structure ZEntry where
  name : Str
  isDir : Bool
  isSym : Bool
  opened : Opened
  deriving DecidableEq, Repr

def toStr (bs : Bytes) : Str := bs.map fun b => Char.ofNat b.toNat

/-- `zip.OpenReader(file)`: `r.File`, or the error it returns -/
def readZip (file : Bytes) : Res (List ZEntry) :=
  match readDirectory file with
  | .err e => .err e
  | .unsupported => .unsupported
  | .ok (hs, base) =>
    -- a name with a NUL byte never reaches the file system (`os.MkdirAll`/`os.Create` fail with EINVAL after having
    -- created some of the parents): outside the claim, not modelled
    if hs.any (fun h => h.name.any (· = 0)) then .unsupported
    else
      .ok (hs.map fun h =>
        { name := toStr h.name, isDir := isDirOf h, isSym := isSymOf h,
          opened := if isDirOf h then .copied [] false else openMember file base h })

/-- outcome of one pass through the closure `decompress` -/
inductive Step where
  | ok (fs : FS)
  | fail (fs : FS) (e : Extract.Err)   -- returned an error; `fs` = the file system at that moment
  | unsupported

/-- the closure `decompress` of `extractZip` on a member read from the bytes -/
def zipStepB (cfg : Cfg) (dest : Str) (fs : FS) (e : ZEntry) : Step :=
  let path := join dest e.name
  if cfg.zipGuard && !guardOK cfg.zipAcceptRoot dest path then .fail fs .illegalPath
  else if e.isDir then
    match mkdirAll fs (comps path) with
    | .ok fs' => .ok fs'
    | .error err => .fail fs err
  else
    match (if cfg.zipMkParents then mkdirAll fs (comps (dirOf path)) else .ok fs) with
    | .error err => .fail fs err
    | .ok fs1 =>
      match e.opened with
      | .unsupported => .unsupported
      | .openErr => .fail fs1 .read
      | .copied data bad =>
        match openWrite true fs1 (comps path) data with
        | .error err => .fail fs1 err
        | .ok fs2 => if bad then .fail fs2 .read else .ok fs2

def runZip (cfg : Cfg) (dest : Str) : FS → List ZEntry → Option (FS × Option Extract.Err)
  | fs, [] => some (fs, none)
  | fs, e :: es =>
    match zipStepB cfg dest fs e with
    | .ok fs' => runZip cfg dest fs' es
    | .fail fs' err => some (fs', some err)
    | .unsupported => none

/-- `extractZip(file, dest)` on the bytes of `file`; `none` = not modelled -/
def extractZipBytes (cfg : Cfg) (dest : Str) (fs : FS) (file : Bytes) : Option (FS × Option Extract.Err) :=
  match readZip file with
  | .err _ => some (fs, some .read)
  | .unsupported => none
  | .ok es => runZip cfg dest fs es

end LlgoVerif.Zip
