"""C19 generator: one batched llgo program (Go packages + Python modules on disk) per shape, its cases, and the
descriptions the oracle (python3) and the Lean model need.

Program layout (module path <mod>):
  vio, vdump                 helpers (stdin tokens, canonical dump of a *py.Object as Go reads it back)
  bh, bops, bblt, bmath      binding packages for vhelp (generated helper module), operator, builtins, math
  b<i>                       binding packages for the generated Python modules (some module may be bound twice)
  u<i>                       1-3 ordinary packages that use a random subset of the bindings (init-time and later)
  main                       reads ops from stdin, prints one `#<seq> …` line per op on stderr

Value tokens (stdin of the program, input of the oracle and of `modeld_c19 val`):
  i D | u D            py.LongLong(int64) / py.UlongLong(uint64)                (library functions)
  f BITS               py.Float(float64 from bits)
  s HEX | b HEX        py.FromGoString(string) / PyBytes_FromStringAndSize
  I W PAT | U W PAT    Go intW / uintW value through the compiler's PyVal (W = 8,16,32,64, 0 = int/uint)
  d BITS | g BITS32    float64 / float32 through PyVal
  S HEX | a HEX | B HEX   string / []byte (bytearray) / [N]byte (bytes) through PyVal
  T | F                bool through PyVal
  l N v… | t N v…      py.NewList+ListSetItem / py.NewTuple+TupleSetItem
  L N v… | P N v…      the compiler intrinsics py.List(...) / py.Tuple(...) with N arguments (N <= 6)
  Z HEX                py.Str("literal")   (baked cases only)
"""
import os
import struct

import genh

ARRAY_LENS = (0, 1, 2, 3, 4, 8)
INFRA_MODS = ["vhelp", "operator", "builtins", "math"]

# callables reachable through op `C`: (go package, go name, python module, attribute, arity or 'v' for variadic)
FIXED_FNS = [
    ("bops", "Sub", "operator", "sub", 2), ("bops", "Truediv", "operator", "truediv", 2), ("bops", "Concat", "operator", "concat", 2),
    ("bops", "Getitem", "operator", "getitem", 2), ("bops", "Lt", "operator", "lt", 2), ("bops", "Floordiv", "operator", "floordiv", 2),
    ("bops", "Neg", "operator", "neg", 1), ("bops", "Mod", "operator", "mod", 2), ("bops", "Lshift", "operator", "lshift", 2),
    ("bblt", "Pow3", "builtins", "pow", 3), ("bblt", "Divmod", "builtins", "divmod", 2), ("bblt", "Len", "builtins", "len", 1),
    ("bblt", "Abs", "builtins", "abs", 1), ("bblt", "Round2", "builtins", "round", 2), ("bblt", "Max", "builtins", "max", "v"),
    ("bblt", "Min", "builtins", "min", "v"), ("bblt", "Sorted", "builtins", "sorted", 1), ("bblt", "Tuple1", "builtins", "tuple", 1),
    ("bmath", "Fmod", "math", "fmod", 2), ("bmath", "Atan2", "math", "atan2", 2), ("bmath", "Copysign", "math", "copysign", 2),
    ("bmath", "Ldexp", "math", "ldexp", 2), ("bmath", "Floor", "math", "floor", 1), ("bmath", "Gcd", "math", "gcd", "v"),
    ("bmath", "Fsum", "math", "fsum", 1), ("bmath", "Isnan", "math", "isnan", 1),
]


def fn_table():
    """every Go declaration is linked to its OWN Python name (rep0 … rep6, repv are aliases of vhelp.rep): a Python
    function bound under two Go signatures is the separate probe at the end (Dup1 must stay before Dup2)"""
    t = []
    for n in range(7):
        t.append(("bh", "Rep%d" % n, "vhelp", "rep%d" % n, n))
    t.append(("bh", "RepV", "vhelp", "repv", "v"))
    return t + FIXED_FNS + [("bh", "Dup1", "vhelp", "dup", 1), ("bh", "Dup2", "vhelp", "dup", 2)]


N_PLAIN_FNS = 8 + len(FIXED_FNS)


def sig_cases():
    """The SAME Python callable (vhelp.sig<k>, an alias of rep) bound under two Go signatures, in BOTH reference orders.
    -> [(scope, first, second, nv)]: signature = number of fixed parameters or 'v' (`__llgo_va_list ...any`); nv = number of
    arguments a variadic binding is called with.  scope 'pkg': both bindings in one binding package, referenced by ONE function
    of package vsig in straight-line order first, second (the callable is referenced nowhere else in that package, so `first`
    is what the compiler sees first); 'twobind': the bindings live in two Go binding packages of the same Python module;
    'xpkg': `first` is referenced only in package vsa, `second` only in package vsb."""
    out = []
    nvs = [4, 0, 1, 6, 2, 3, 5]
    for i in range(7):
        for j in range(7):
            if i != j:
                out.append(("pkg", i, j, 0))
    for f in range(7):
        out += [("pkg", f, "v", nvs[f]), ("pkg", "v", f, nvs[(f + 3) % 7])]
    out += [("pkg", 1, "v", 2), ("pkg", "v", 1, 2), ("pkg", 2, "v", 1), ("pkg", "v", 2, 6), ("pkg", 1, "v", 6), ("pkg", 2, "v", 4)]
    out += [("twobind", 1, "v", 4), ("twobind", "v", 1, 4), ("twobind", 2, "v", 3), ("twobind", "v", 2, 3), ("twobind", 2, 1, 0), ("twobind", 1, 2, 0),
            ("twobind", 0, 1, 0), ("twobind", 3, 0, 0)]
    out += [("xpkg", 1, "v", 4), ("xpkg", "v", 1, 4), ("xpkg", 2, "v", 5), ("xpkg", "v", 2, 5), ("xpkg", 0, 3, 0), ("xpkg", 3, 0, 0),
            ("xpkg", 1, 2, 0), ("xpkg", 2, 1, 0)]
    return out


def sig_nargs(sig, nv):
    return nv if sig == "v" else sig


def sig_sources(mod, enabled=None):
    """Go sources of bsig, bsig2 (bindings), vsig, vsa, vsb (callers) and the dispatcher for package main;
    enabled: set of case numbers to include (None = all; used to isolate a case the compiler chokes on)"""
    cases = sig_cases()
    d1, d2 = [], []
    vs, va, vb = [], [], []
    pair_sw, xa_sw, xb_sw = [], [], []

    def call(pkg, name, sig, nv):
        return "%s.%s(%s)" % (pkg, name, ", ".join("a[%d]" % i for i in range(sig_nargs(sig, nv))))
    for k, (scope, f, g, nv) in enumerate(cases):
        if enabled is not None and k not in enabled:
            continue
        d1.append(fn_decl("S%da" % k, "sig%d" % k, f))
        (d2 if scope == "twobind" else d1).append(fn_decl("S%db" % k, "sig%d" % k, g))
        bpk = "bsig2" if scope == "twobind" else "bsig"
        if scope == "xpkg":
            xa_sw.append("\tcase %d:\n\t\treturn %s" % (k, call("bsig", "S%da" % k, f, nv)))
            xb_sw.append("\tcase %d:\n\t\treturn %s" % (k, call("bsig", "S%db" % k, g, nv)))
        else:
            vs.append("func p%d(a *[6]*py.Object) (x, y *py.Object) {\n\tx = %s\n\ty = %s\n\treturn\n}\n" %
                      (k, call("bsig", "S%da" % k, f, nv), call(bpk, "S%db" % k, g, nv)))
            pair_sw.append("\tcase %d:\n\t\treturn p%d(a)" % (k, k))
    hdr = "// Code generated by /verif/harness/c19/gen.py. DO NOT EDIT.\npackage %s\n\nimport (\n%s)\n\n"
    files = {"bsig/bsig.go": binding_src("bsig", "vhelp", d1), "bsig2/bsig2.go": binding_src("bsig2", "vhelp", d2)}
    en = [c for k, c in enumerate(cases) if enabled is None or k in enabled]
    u1 = "" if any(c[0] != "xpkg" for c in en) else "_ "
    u2 = "" if any(c[0] == "twobind" for c in en) else "_ "
    ux = "" if any(c[0] == "xpkg" for c in en) else "_ "
    files["vsig/vsig.go"] = (hdr % ("vsig", '\t"github.com/goplus/lib/py"\n\t%s"%s/bsig"\n\t%s"%s/bsig2"\n' % (u1, mod, u2, mod)) + "\n".join(vs) +
                             "\n// Pair calls both bindings of callable k, first-referenced binding first.\nfunc Pair(k int, a *[6]*py.Object) (x, y *py.Object) {\n\tswitch k {\n" +
                             "\n".join(pair_sw) + "\n\t}\n\treturn nil, nil\n}\n")
    for name, sw in (("vsa", xa_sw), ("vsb", xb_sw)):
        files["%s/%s.go" % (name, name)] = (hdr % (name, '\t"github.com/goplus/lib/py"\n\t%s"%s/bsig"\n' % (ux, mod)) +
                                            "// F calls this package's binding of callable k.\nfunc F(k int, a *[6]*py.Object) *py.Object {\n\tswitch k {\n" +
                                            "\n".join(sw) + "\n\t}\n\treturn nil\n}\n")
    disp = ["func sigPair(k int, a *[6]*py.Object) (x, y *py.Object) {", "\tswitch k {"]
    xk = [k for k, c in enumerate(cases) if c[0] == "xpkg" and (enabled is None or k in enabled)]
    if xk:
        disp.append("\tcase %s:\n\t\treturn vsa.F(k, a), vsb.F(k, a)" % ", ".join(str(k) for k in xk))
    disp += ["\t}", "\treturn vsig.Pair(k, a)", "}", "", "var _, _ = vsa.F, vsb.F", ""]
    return files, "\n".join(disp)


# ------------------------------------------------------------------ shapes
def make_shape(rng, idx=0):
    nmods = rng.randint(1, 4) if idx else 4
    names = ["vm0", "vm1", "vpk.sub2", "vm3"]
    rng.shuffle(names)
    mods = sorted(names[:nmods])
    bindings = [{"go": "b%d" % i, "mod": i} for i in range(nmods)]
    if rng.random() < 0.8 or idx == 0:      # one module bound by two different Go packages
        bindings.append({"go": "b%dx" % rng.randrange(nmods), "mod": None})
        bindings[-1]["mod"] = int(bindings[-1]["go"][1:-1])
    nusers = rng.randint(1, 3) if idx else 3
    users = []
    for u in range(nusers):
        bs = sorted(rng.sample(range(len(bindings)), rng.randint(1, min(3, len(bindings)))))
        us = sorted(rng.sample(range(u), rng.randint(0, u))) if u else []
        init_calls = [b for b in bs if rng.random() < 0.7]
        explicit = []
        if rng.random() < 0.5:
            explicit.append(rng.randrange(nmods))       # py.ImportModule("<mod>") in a variable initialiser
        users.append({"go": "u%d" % (u + 1), "bind": bs, "users": us, "init_calls": init_calls, "explicit": explicit})
    mb = sorted(rng.sample(range(len(bindings)), rng.randint(1, len(bindings))))
    mu = sorted(set(rng.sample(range(nusers), rng.randint(1, nusers))) | {nusers - 1})
    # every module must be reachable so that "used by the program" holds for all of them
    reach = set()
    def visit_user(u):
        for b in users[u]["bind"]:
            reach.add(b)
        for v in users[u]["users"]:
            visit_user(v)
    for u in mu:
        visit_user(u)
    for b in range(len(bindings)):
        if b not in reach and b not in mb:
            mb.append(b)
    mb = sorted(set(mb))
    return {"mods": mods, "bindings": bindings, "users": users, "main": {"bind": mb, "users": mu, "init_calls": [mb[0]], "explicit": []}}


def mod_attrs(mi, name):
    """attributes of generated module mi (name index = position in the list): (attr, python source of its value)"""
    return [("tag", None), ("rep", None), ("va", repr(1000 + 7 * mi)), ("vb", repr("%s-b" % name)), ("vc", repr((mi, "x%d" % mi, 2.5))),
            ("__name__", None)]


GO_ATTR = {"tag": "Tag", "rep": "Rep", "va": "Va", "vb": "Vb", "vc": "Vc", "__name__": "Name"}


def package_table(shape):
    """all generated packages, numbered topologically: [(go name, kind, info)]"""
    pk = [("vio", "plain", None), ("bh", "bind", "vhelp"), ("bops", "bind", "operator"), ("bblt", "bind", "builtins"), ("bmath", "bind", "math")]
    pk += [("bsig", "bind", "vhelp"), ("bsig2", "bind", "vhelp")]
    for b in shape["bindings"]:
        pk.append((b["go"], "bind", shape["mods"][b["mod"]]))
    hier = shape.get("hier")
    if hier:
        for mi, m in enumerate(hier["mods"]):
            pk.append(("bq%d" % mi, "bind", m))
    pk.append(("vdump", "plain", None))
    pk += [("vsig", "plain", None), ("vsa", "plain", None), ("vsb", "plain", None)]
    if hier:
        for u in hier["users"]:
            pk.append((u["go"], "hier", u))
    for u in shape["users"]:
        pk.append((u["go"], "user", u))
    pk.append(("main", "user", shape["main"]))
    return pk


def all_modules(shape):
    return list(shape["mods"]) + INFRA_MODS + (list(shape["hier"]["mods"]) if shape.get("hier") else [])


# ------------------------------------------------------------------ Python modules
def write_pymods(d, shape, pysrc):
    os.makedirs(d, exist_ok=True)
    for fn in ("vhelp.py", "sitecustomize.py", "oracle.py"):
        with open(os.path.join(d, fn), "w") as f:
            f.write(open(os.path.join(pysrc, fn)).read())
    for mi, name in enumerate(shape["mods"]):
        parts = name.split(".")
        path = d
        for p in parts[:-1]:
            path = os.path.join(path, p)
            os.makedirs(path, exist_ok=True)
            with open(os.path.join(path, "__init__.py"), "w") as f:
                f.write("import sys\nsys.stderr.write('IMPORT %s\\n')\nsys.stderr.flush()\n" % p)
        src = ["import sys", "sys.stderr.write('IMPORT %s\\n')" % name, "sys.stderr.flush()", "from vhelp import cdump", "",
               "def tag():", "    return %r" % ("tag-" + name), "", "def rep(*args):", "    return %r + cdump(args)" % (name + ":"), ""]
        for a, v in mod_attrs(mi, name):
            if v is not None:
                src.append("%s = %s" % (a, v))
        with open(os.path.join(path, parts[-1] + ".py"), "w") as f:
            f.write("\n".join(src) + "\n")
    if shape.get("hier"):
        genh.write_pymods(d, shape["hier"])


# ------------------------------------------------------------------ Go sources
def go_bytes_lit(b):
    return '"' + "".join("\\x%02x" % x for x in b) + '"'


def binding_src(go, mod, decls):
    L = ["// Code generated by /verif/harness/c19/gen.py. DO NOT EDIT.", "package %s" % go, "", "import (", '\t_ "unsafe"', "",
         '\t%s"github.com/goplus/lib/py"' % ("" if decls else "_ "), ")", "", 'const LLGoPackage = "py.%s"' % mod, ""]
    for d in decls:
        L.append(d)
    return "\n".join(L) + "\n"


def fn_decl(goname, attr, arity):
    if arity == "v":
        sig = "func %s(__llgo_va_list ...any) *py.Object" % goname
    else:
        sig = "func %s(%s) *py.Object" % (goname, ", ".join("a%d *py.Object" % i for i in range(arity)))
    return "//go:linkname %s py.%s\n%s\n" % (goname, attr, sig)


def var_decl(goname, attr):
    return "//go:linkname %s py.%s\nvar %s *py.Object\n" % (goname, attr, goname)


def user_cases(shape, info):
    """what `Use(k)` of an ordinary package does: list of (kind, binding index, attr)"""
    out = []
    for b in info["bind"]:
        out += [("call0", b, "tag"), ("var", b, "va"), ("var", b, "vb"), ("var", b, "vc"), ("var", b, "__name__"), ("callv", b, "rep")]
    out += [("xmod", m, None) for m in range(len(shape["mods"]))][:2]
    return out


def user_src(mod, shape, go, info, is_main):
    binds = shape["bindings"]
    imps = ['"github.com/goplus/lib/c"', '"github.com/goplus/lib/py"', '"%s/bh"' % mod, '"%s/vdump"' % mod]
    for b in info["bind"]:
        imps.append('"%s/%s"' % (mod, binds[b]["go"]))
    if not is_main:
        for u in info["users"]:
            imps.append('"%s/%s"' % (mod, shape["users"][u]["go"]))
    L = []
    sfx = "M" if is_main else ""
    L.append("func init() {")
    L.append('\tprintln("INIT %s")' % go)
    for k, b in enumerate(info["init_calls"]):
        L.append('\tprint("INITUSE %s %s ")' % (go, shape["mods"][binds[b]["mod"]]))
        L.append("\tvdump.Dump(%s.Tag%s())" % (binds[b]["go"], "2" if binds[b]["go"].endswith("x") else ""))
        L.append("\tprintln()")
    for k, m in enumerate(info["explicit"]):
        L.append('\tinitMod%d := py.ImportModule(c.Str("%s"))' % (k, shape["mods"][m]))
        L.append('\tprint("INITMOD %s %s ")' % (go, shape["mods"][m]))
        L.append('\tvdump.Dump(bh.Samemod(py.Str("%s"), initMod%d))' % (shape["mods"][m], k))
        L.append("\tprintln()")
    if not is_main:
        for u in info["users"]:
            L.append("\t_ = %s.Use" % shape["users"][u]["go"])
    L.append("}")
    L.append("")
    L.append("// Use%s runs case k of this package." % sfx)
    L.append("func Use%s(k int) {" % sfx)
    L.append("\tswitch k {")
    for k, (kind, b, attr) in enumerate(user_cases(shape, info)):
        L.append("\tcase %d:" % k)
        if kind == "xmod":
            name = shape["mods"][b]
            L.append('\t\tvdump.Dump(bh.Samemod(py.Str("%s"), py.ImportModule(c.Str("%s"))))' % (name, name))
            continue
        g = binds[b]["go"]
        x = "2" if g.endswith("x") else ""
        name = shape["mods"][binds[b]["mod"]]
        if kind == "call0":
            L.append("\t\tvdump.Dump(%s.Tag%s())" % (g, x))
        elif kind == "callv":
            L.append('\t\tvdump.Dump(%s.Rep%s(py.Long(%d), py.Str("%s"), py.Float(0.5)))' % (g, x, k, go))
        else:
            gv = GO_ATTR[attr] + x
            L.append("\t\tvdump.Dump(%s.%s)" % (g, gv))
            L.append('\t\tprint(" ")')
            L.append('\t\tvdump.Dump(bh.Same(py.Str("%s"), py.Str("%s"), %s.%s))' % (name, attr, g, gv))
    L.append("\t}")
    L.append("}")
    hdr = ["// Code generated by /verif/harness/c19/gen.py. DO NOT EDIT.", "package %s" % ("main" if is_main else go), "", "import ("]
    hdr += ["\t" + i for i in sorted(set(imps))] + [")", ""]
    return "\n".join(hdr + L) + "\n"


MAIN_STATIC = r'''// Code generated by /verif/harness/c19/gen.py. DO NOT EDIT.
package main

import (
	"unsafe"

	"github.com/goplus/lib/c"
	"github.com/goplus/lib/py"

	"@MOD@/bh"
	"@MOD@/vdump"
	"@MOD@/vio"
)

//go:linkname bytesFrom C.PyBytes_FromStringAndSize
func bytesFrom(p *c.Char, n int) *py.Object

func cptr(b []byte) *c.Char {
	if len(b) == 0 {
		return nil
	}
	return (*c.Char)(unsafe.Pointer(&b[0]))
}

func first(l *py.Object) *py.Object { return l.ListItem(0) }

func fb(bits uint64) float64 { return *(*float64)(unsafe.Pointer(&bits)) }

func fb32(bits uint32) float32 { return *(*float32)(unsafe.Pointer(&bits)) }

func mkList(items ...*py.Object) *py.Object {
	l := py.NewList(len(items))
	for i, it := range items {
		l.ListSetItem(i, it)
	}
	return l
}

func mkTuple(items ...*py.Object) *py.Object {
	t := py.NewTuple(len(items))
	for i, it := range items {
		t.TupleSetItem(i, it)
	}
	return t
}

func arrayObj(b []byte) *py.Object {
	switch len(b) {
	case 0:
		return first(py.List([0]byte{}))
	case 1:
		var a [1]byte
		copy(a[:], b)
		return first(py.List(a))
	case 2:
		var a [2]byte
		copy(a[:], b)
		return first(py.List(a))
	case 3:
		var a [3]byte
		copy(a[:], b)
		return first(py.List(a))
	case 4:
		var a [4]byte
		copy(a[:], b)
		return first(py.List(a))
	case 8:
		var a [8]byte
		copy(a[:], b)
		return first(py.List(a))
	}
	return nil
}

func build() *py.Object {
	switch vio.Tok() {
	case 'i':
		return py.LongLong(c.LongLong(vio.Int()))
	case 'u':
		return py.UlongLong(c.UlongLong(vio.Uint()))
	case 'f':
		return py.Float(fb(vio.Uint()))
	case 's':
		b := vio.Bytes()
		return py.FromGoString(string(b))
	case 'b':
		b := vio.Bytes()
		return bytesFrom(cptr(b), len(b))
	case 'I': // int64 / int through the compiler's PyVal (narrow kinds live in the probe program)
		w := vio.Uint()
		v := vio.Uint()
		if w == 64 {
			return first(py.List(int64(v)))
		}
		return py.Tuple(int(v)).TupleItem(0)
	case 'U':
		w := vio.Uint()
		v := vio.Uint()
		switch w {
		case 64:
			return first(py.List(uint64(v)))
		case 1:
			return first(py.List(uintptr(v)))
		}
		return py.Tuple(uint(v)).TupleItem(0)
	case 'd':
		return first(py.List(fb(vio.Uint())))
	case 'g':
		return first(py.List(fb32(uint32(vio.Uint()))))
	case 'S':
		b := vio.Bytes()
		return first(py.List(string(b)))
	case 'a':
		b := vio.Bytes()
		return first(py.List(b))
	case 'B':
		return arrayObj(vio.Bytes())
	case 'T':
		return first(py.List(true))
	case 'F':
		t := false
		return py.Tuple(t).TupleItem(0)
	case 'l':
		n := int(vio.Uint())
		l := py.NewList(n)
		for i := 0; i < n; i++ {
			l.ListSetItem(i, build())
		}
		return l
	case 't':
		n := int(vio.Uint())
		t := py.NewTuple(n)
		for i := 0; i < n; i++ {
			t.TupleSetItem(i, build())
		}
		return t
	case 'L':
		n := int(vio.Uint())
		var a [6]*py.Object
		for i := 0; i < n; i++ {
			a[i] = build()
		}
		switch n {
		case 0:
			return py.List()
		case 1:
			return py.List(a[0])
		case 2:
			return py.List(a[0], a[1])
		case 3:
			return py.List(a[0], a[1], a[2])
		case 4:
			return py.List(a[0], a[1], a[2], a[3])
		case 5:
			return py.List(a[0], a[1], a[2], a[3], a[4])
		}
		return py.List(a[0], a[1], a[2], a[3], a[4], a[5])
	case 'P':
		n := int(vio.Uint())
		var a [6]*py.Object
		for i := 0; i < n; i++ {
			a[i] = build()
		}
		switch n {
		case 0:
			return py.Tuple()
		case 1:
			return py.Tuple(a[0])
		case 2:
			return py.Tuple(a[0], a[1])
		case 3:
			return py.Tuple(a[0], a[1], a[2])
		case 4:
			return py.Tuple(a[0], a[1], a[2], a[3])
		case 5:
			return py.Tuple(a[0], a[1], a[2], a[3], a[4])
		}
		return py.Tuple(a[0], a[1], a[2], a[3], a[4], a[5])
	}
	return nil
}

func printStr(o *py.Object) {
	if o == nil {
		vdump.Dump(nil)
		return
	}
	print(c.GoString(o.CStr()))
}

func main() {
	print("READY ")
	printStr(bh.Version())
	println()
	seq := 0
	for {
		op := vio.Tok()
		if op == 0 {
			break
		}
		print("#", seq, " ")
		seq++
		switch op {
		case 'R':
			x := build()
			if x == nil {
				vdump.Dump(nil)
				print(" -")
			} else {
				vdump.Dump(bh.Ident(x))
				print(" ")
				printStr(bh.Pydump(x))
			}
		case 'C':
			fn := int(vio.Uint())
			n := int(vio.Uint())
			var a [6]*py.Object
			for i := 0; i < n; i++ {
				a[i] = build()
			}
			vdump.Dump(callFn(fn, n, &a))
		case 'K':
			vdump.Dump(bakedCase(int(vio.Uint())))
		case 'G':
			k := int(vio.Uint())
			var a [6]*py.Object
			for i := 0; i < 6; i++ {
				a[i] = build()
			}
			x, y := sigPair(k, &a)
			vdump.Dump(x)
			print(" ")
			vdump.Dump(y)
		case 'U':
			p := int(vio.Uint())
			k := int(vio.Uint())
			useCase(p, k)
		case 'H':
			p := int(vio.Uint())
			c := int(vio.Int())
			k := int(vio.Uint())
			vdump.Dump(hierCase(p, c, k, build()))
		default:
			print("bad-op")
		}
		println()
	}
	println("DONE")
}
'''


def tree_tokens(t, model=False):
    """token text of a value tree; model=True: the form `modeld_c19 val` reads (Go's int/uint/uintptr are 64 bits wide)"""
    k = t[0]
    if k in "iuf" or k in "dg":
        return "%s %d" % (k, t[1])
    if k in "IU":
        return "%s %d %d" % (k, (t[1] if t[1] in (8, 16, 32) else 64) if model else t[1], t[2])
    if k in "sbSaBZ":
        return "%s %s" % (k, t[1].hex() or "-")
    if k in "TF":
        return k
    return "%s %d %s" % (k, len(t[1]), " ".join(tree_tokens(c, model) for c in t[1])) if t[1] else "%s 0" % k


def valid_utf8(b):
    try:
        b.decode("utf-8")
        return True
    except UnicodeDecodeError:
        return False


def model_line(t):
    """`val …` request for the Lean model, or None where the model has nothing to say (float32 widening is LLVM's
    fpext, the validity of UTF-8 is CPython's decoder)"""
    def bad(x):
        if x[0] == "g":
            return True
        if x[0] in "sSZ" and not valid_utf8(x[1]):
            return True
        return x[0] in "ltLP" and any(bad(c) for c in x[1])
    return None if bad(t) else "val " + tree_tokens(t, model=True)


GO_INT = {8: "int8", 16: "int16", 32: "int32", 64: "int64", 0: "int"}
GO_UINT = {8: "uint8", 16: "uint16", 32: "uint32", 64: "uint64", 0: "uint", 1: "uintptr"}


def signed(w, pat):
    w = w or 64
    return pat - (1 << w) if pat >> (w - 1) else pat


def tree_go(t, raw_ok):
    """Go expression building tree t. raw_ok: the parent is py.List/py.Tuple (any Go value PyVal accepts may be passed)."""
    k = t[0]
    wrap = (lambda e: e) if raw_ok else (lambda e: "first(py.List(%s))" % e)
    if k == "i":
        return "py.LongLong(%d)" % t[1] if t[1] > -(1 << 63) else "py.LongLong(-9223372036854775807 - 1)"
    if k == "u":
        return "py.UlongLong(%d)" % t[1]
    if k == "f":
        return "py.Float(fb(%d))" % t[1]
    if k == "s":
        return "py.FromGoString(%s)" % go_bytes_lit(t[1])
    if k == "Z":
        return "py.Str(%s)" % go_bytes_lit(t[1])
    if k == "b":
        return "bytesFrom(cptr([]byte(%s)), %d)" % (go_bytes_lit(t[1]), len(t[1]))
    if k == "I":
        v = signed(t[1], t[2])
        lit = "%d" % v if v > -(1 << 63) else "-9223372036854775807 - 1"
        return wrap("%s(%s)" % (GO_INT[t[1]], lit))
    if k == "U":
        return wrap("%s(%d)" % (GO_UINT[t[1]], t[2]))
    if k == "d":
        return wrap("fb(%d)" % t[1])
    if k == "g":
        return wrap("fb32(%d)" % t[1])
    if k == "S":
        return wrap(go_bytes_lit(t[1]))
    if k == "a":
        return wrap("[]byte(%s)" % go_bytes_lit(t[1]))
    if k == "B":
        return wrap("[%d]byte{%s}" % (len(t[1]), ", ".join(str(x) for x in t[1])))
    if k == "T":
        return wrap("true")
    if k == "F":
        return wrap("false")
    if k == "l":
        return "mkList(%s)" % ", ".join(tree_go(c, False) for c in t[1])
    if k == "t":
        return "mkTuple(%s)" % ", ".join(tree_go(c, False) for c in t[1])
    if k == "L":
        return "py.List(%s)" % ", ".join(tree_go(c, True) for c in t[1])
    if k == "P":
        return "py.Tuple(%s)" % ", ".join(tree_go(c, True) for c in t[1])
    raise ValueError(k)


def tables_src(mod, shape, baked, sig_enabled=None):
    pk = package_table(shape)
    fns = fn_table()
    imps = {'"github.com/goplus/lib/py"', '"%s/bh"' % mod, '"%s/bops"' % mod, '"%s/bblt"' % mod, '"%s/bmath"' % mod}
    for u in shape["users"]:
        imps.add('"%s/%s"' % (mod, u["go"]))
    imps |= {'"%s/vsig"' % mod, '"%s/vsa"' % mod, '"%s/vsb"' % mod}
    hier = shape.get("hier") or {"users": []}
    for u in hier["users"]:
        imps.add('"%s/%s"' % (mod, u["go"]))
    L = [genh.dispatcher(hier), sig_sources(mod, sig_enabled)[1], "func callFn(fn int, n int, a *[6]*py.Object) *py.Object {", "\tswitch fn {"]
    for i, (gp, gn, pm, pa, ar) in enumerate(fns):
        L.append("\tcase %d:" % i)
        if ar == "v":
            L.append("\t\tswitch n {")
            for n in range(7):
                L.append("\t\tcase %d:\n\t\t\treturn %s.%s(%s)" % (n, gp, gn, ", ".join("a[%d]" % j for j in range(n))))
            L.append("\t\t}")
        else:
            L.append("\t\treturn %s.%s(%s)" % (gp, gn, ", ".join("a[%d]" % j for j in range(ar))))
    L += ["\t}", "\treturn nil", "}", ""]
    L += ["func bakedCase(k int) *py.Object {", "\tswitch k {"]
    for k, t in enumerate(baked):
        L.append("\tcase %d:\n\t\treturn %s" % (k, tree_go(t, False)))
    L += ["\t}", "\treturn nil", "}", ""]
    L += ["func useCase(p int, k int) {", "\tswitch p {"]
    for pid, (go, kind, info) in enumerate(pk):
        if kind == "user":
            L.append("\tcase %d:\n\t\t%s(k)" % (pid, "UseM" if go == "main" else go + ".Use"))
    L += ["\t}", "}", ""]
    hdr = ["// Code generated by /verif/harness/c19/gen.py. DO NOT EDIT.", "package main", "", "import ("] + ["\t" + i for i in sorted(imps)] + [")", ""]
    return "\n".join(hdr + L) + "\n"


def write_program(d, shape, mod, baked, gosrc, repo_gosum, sig_enabled=None):
    """writes the Go module; returns {relative path: content}"""
    files = {}
    files["go.mod"] = "module %s\n\ngo 1.24\n\nrequire github.com/goplus/lib v0.3.1\n" % mod
    files["go.sum"] = open(repo_gosum).read()
    files["vio/vio.go"] = open(os.path.join(gosrc, "vio.go.txt")).read()
    files["vdump/vdump.go"] = open(os.path.join(gosrc, "vdump.go.txt")).read().replace("@MOD@", mod)
    fns = fn_table()
    per_pkg = {}
    for (gp, gn, pm, pa, ar) in fns:
        per_pkg.setdefault((gp, pm), []).append(fn_decl(gn, pa, ar))
    per_pkg[("bh", "vhelp")] += [fn_decl("Ident", "ident", 1), fn_decl("Pydump", "pydump", 1), fn_decl("Same", "same", 3),
                                 fn_decl("Samemod", "samemod", 2), fn_decl("Version", "version", 0)]
    for (gp, pm), decls in per_pkg.items():
        files["%s/%s.go" % (gp, gp)] = binding_src(gp, pm, decls)
    for b in shape["bindings"]:
        x = "2" if b["go"].endswith("x") else ""
        name = shape["mods"][b["mod"]]
        decls = [fn_decl("Tag" + x, "tag", 0), fn_decl("Rep" + x, "rep", "v")]
        for a, v in mod_attrs(b["mod"], name):
            if a not in ("tag", "rep"):
                decls.append(var_decl(GO_ATTR[a] + x, a))
        files["%s/%s.go" % (b["go"], b["go"])] = binding_src(b["go"], name, decls)
    for u in shape["users"]:
        files["%s/%s.go" % (u["go"], u["go"])] = user_src(mod, shape, u["go"], u, False)
    files.update(sig_sources(mod, sig_enabled)[0])
    if shape.get("hier"):
        files.update(genh.sources(mod, shape["hier"], fn_decl, binding_src))
    files["main.go"] = MAIN_STATIC.replace("@MOD@", mod)
    files["use_main.go"] = user_src(mod, shape, "main", shape["main"], True)
    files["tables.go"] = tables_src(mod, shape, baked, sig_enabled)
    for rel, content in files.items():
        p = os.path.join(d, rel)
        os.makedirs(os.path.dirname(p), exist_ok=True)
        with open(p, "w") as f:
            f.write(content)
    return files


# ------------------------------------------------------------------ values and cases
INT_BOUNDARY = [0, 1, -1, 2, -2, 127, 128, -128, -129, 255, 256, 32767, 32768, -32768, -32769, 65535, 65536,
                (1 << 31) - 1, 1 << 31, -(1 << 31), -(1 << 31) - 1, (1 << 32) - 1, 1 << 32, (1 << 53), (1 << 53) + 1,
                (1 << 62), (1 << 63) - 1, (1 << 63) - 2, -(1 << 63), -(1 << 63) + 1, 1099511627783]
FLOAT_BITS = [0x0000000000000000, 0x8000000000000000, 0x7ff0000000000000, 0xfff0000000000000, 0x7ff8000000000000, 0xfff8000000000001,
              0x7ff0000000000001, 0x7ff4000000000000,      # signalling NaN patterns
              0x0000000000000001, 0x800fffffffffffff, 0x0010000000000000, 0x7fefffffffffffff, 0xffefffffffffffff,
              0x3ff0000000000000, 0xbff0000000000000, 0x3fb999999999999a, 0x4059000000000000, 0x3ff0000000000001, 0x4340000000000000, 0x43e0000000000000]
F32_BITS = [0, 0x80000000, 0x7f800000, 0xff800000, 0x7fc00000, 0x00000001, 0x007fffff, 0x00800000, 0x7f7fffff, 0x3f800000, 0x3dcccccd, 0xc2c80000]
STR_SAMPLES = [b"", b"a", b"hello", b"a\x00b", b"\x00", b"\xc3\xa9", b"\xe4\xb8\x96\xe7\x95\x8c", b"\xf0\x9f\x98\x80", b"\xef\xbf\xbd",
               b"tab\there\n", b"'quote\"", b"\x7f", b"\xc2\x80", b"\xed\x9f\xbf", b"\xee\x80\x80", b"\xf4\x8f\xbf\xbf", b"x" * 300]
BAD_UTF8 = [b"\xff", b"\xc0\x80", b"a\x80b", b"\xe2\x82", b"\xed\xa0\x80", b"\xf5\x80\x80\x80", b"\xf0\x80\x80\x80", b"ab\xc3", b"\x00\xfe\x00"]


def rand_bytes(rng, maxlen=12):
    n = rng.choice([0, 1, 1, 2, 3, 5, 8, maxlen])
    return bytes(rng.choice([0, 0, 1, 0x7f, 0x80, 0xff, 0xc3, 0x41, 0x61, rng.randrange(256)]) for _ in range(rng.randint(0, n)))


def rand_utf8(rng, maxlen=8):
    alpha = ["a", "Z", "0", " ", "\x00", "\n", "\u00e9", "\u4e16", "\U0001f600", "\ufffd", "\u07ff", "\u0800", "\ud7ff", "\ue000", "'", "\\"]
    return "".join(rng.choice(alpha) for _ in range(rng.randint(0, rng.choice([0, 1, 2, 4, maxlen])))).encode("utf-8")


def rand_int64(rng):
    r = rng.random()
    if r < 0.45:
        return rng.choice(INT_BOUNDARY)
    if r < 0.7:
        k = rng.randint(0, 63)
        return max(-(1 << 63), min((1 << 63) - 1, rng.choice([1, -1]) * ((1 << k) + rng.choice([-1, 0, 1]))))
    return rng.randrange(-(1 << 63), 1 << 63)


def rand_float_bits(rng):
    r = rng.random()
    if r < 0.5:
        return rng.choice(FLOAT_BITS)
    if r < 0.7:
        return struct.unpack("<Q", struct.pack("<d", rng.uniform(-1e6, 1e6)))[0]
    return rng.getrandbits(64)


def rand_scalar(rng, baked=False, narrow=False):
    """a scalar value tree; valid UTF-8 only (a NULL item inside a container is the caller's problem, not llgo's)"""
    k = rng.choice("iiuufIIUUdgsSbaBTFf" + ("Z" if baked else ""))
    if k == "i":
        return ("i", rand_int64(rng))
    if k == "u":
        return ("u", rng.choice([0, 1, (1 << 63) - 1, 1 << 63, (1 << 64) - 1, (1 << 64) - 2, 255, rng.getrandbits(64)]))
    if k in "fd":
        return (k, rand_float_bits(rng))
    if k == "g":
        return ("g", rng.choice(F32_BITS + [rng.getrandbits(32)]))
    if k in "IU":
        w = rng.choice(([8, 16, 32] if narrow else []) + [64, 0] + ([1] if k == "U" else []))
        ww = w if w in (8, 16, 32) else 64
        pat = rng.choice([0, 1, (1 << ww) - 1, 1 << (ww - 1), (1 << (ww - 1)) - 1, (1 << (ww - 1)) + 1, (1 << ww) - 2, rng.getrandbits(ww)])
        return (k, w, pat)
    if k in "sSZ":
        b = rng.choice(STR_SAMPLES) if rng.random() < 0.5 else rand_utf8(rng)
        if k == "Z" and b"\x00" in b:
            b = b.replace(b"\x00", b"0")      # the NUL literal is the separate known-finding case
        return (k, b)
    if k in "ba":
        return (k, rand_bytes(rng))
    if k == "B":
        n = rng.choice(ARRAY_LENS)
        return ("B", bytes(rng.choice([0, 1, 0xff, 0x80, rng.randrange(256)]) for _ in range(n)))
    return (k,)


def rand_tree(rng, depth, baked=False, narrow=False):
    if depth <= 0 or rng.random() < 0.45:
        return rand_scalar(rng, baked, narrow)
    k = rng.choice("ltLP")
    n = rng.choice([0, 1, 2, 3, 4, 6]) if k in "LP" else rng.choice([0, 1, 2, 3, 5, 9])
    return (k, [rand_tree(rng, depth - 1, baked, narrow) for _ in range(n)])


def make_baked(rng, n):
    """compile-time cases of the batch program; baked[0] is the NUL literal (known finding / fix C19-3)"""
    baked = [("Z", b"a\x00b"), ("Z", b"hello"), ("Z", b"\xe4\xb8\x96\xe7\x95\x8c\xf0\x9f\x98\x80"), ("Z", b""),
             ("L", [("S", b"s\x00t"), ("d", 0x3ff8000000000000), ("g", 0x3dcccccd), ("T",), ("a", b"ab\x00\xff"), ("B", b"\x01\x00\xff")]),
             ("P", [("I", 64, 1 << 63), ("U", 64, (1 << 64) - 1), ("I", 0, (1 << 64) - 1), ("U", 1, 12345)]),
             ("P", []), ("L", []), ("P", [("L", [("P", [("L", [("I", 64, 128)])])])])]
    while len(baked) < n:
        baked.append(rand_tree(rng, 3, baked=True))
    return baked


def make_narrow(rng, n):
    """values of the narrow integer kinds (probe program): (dynamic cases, baked cases)"""
    dyn = []
    for k in "IU":
        for w in (8, 16, 32):
            for pat in (0, 1, (1 << w) - 1, 1 << (w - 1), (1 << (w - 1)) - 1, (1 << w) - 2, (1 << w) + 5, (1 << 63) + 3, (1 << 64) - 1):
                dyn.append((k, w, pat))
    while len(dyn) < n:
        w = rng.choice([8, 16, 32])
        dyn.append((rng.choice("IU"), w, rng.getrandbits(rng.choice([w, w + 1, 64]))))
    baked = [("L", [("I", 8, 255), ("U", 8, 255), ("I", 16, 0x8000), ("U", 32, 0xffffffff), ("I", 32, 0x80000000), ("U", 16, 0xffff)]),
             ("P", [("I", 8, 0x80), ("L", [("U", 8, 1), ("I", 16, 0xffff)]), ("I", 32, 1)])]
    for _ in range(6):
        baked.append((rng.choice("LP"), [(rng.choice("IU"), w, rng.getrandbits(w)) for w in
                                         (rng.choice([8, 16, 32]) for _ in range(rng.randint(1, 6)))]))
    return dyn, baked


def num_arg(rng):
    r = rng.random()
    if r < 0.5:
        return ("i", rng.choice([0, 1, -1, 2, 3, 7, -7, 10, 255, -256, 1 << 31, (1 << 62) + 3, -(1 << 63), (1 << 63) - 1, rng.randrange(-1000, 1000)]))
    if r < 0.6:
        return ("u", rng.choice([1 << 63, (1 << 64) - 1, 5]))
    return ("f", rng.choice([0x3ff0000000000000, 0x4000000000000000, 0xc008000000000000, 0x3fe0000000000000, 0x7ff0000000000000,
                             0x7ff8000000000000, 0x8000000000000000, 0x4024000000000000, 0x3fb999999999999a]))


def small_int(rng):
    return ("i", rng.choice([0, 1, 2, 3, 5, -1, -3, 10, 63, 64]))


def fn_args(rng, pm, pa, ar):
    """argument trees for one call of pm.pa"""
    if pm == "vhelp":
        n = ar if ar != "v" else rng.randint(0, 6)
        return [rand_tree(rng, 2) for _ in range(n)]
    if ar == "v":
        if pa == "gcd":
            return [("i", rng.choice([0, 12, 18, -30, 1 << 40, 7, 49])) for _ in range(rng.randint(0, 6))]
        if rng.random() < 0.15:
            return [("l", [num_arg(rng) for _ in range(rng.randint(1, 4))])]
        return [num_arg(rng) for _ in range(rng.randint(1, 6))]
    if pa in ("concat",):
        k = rng.choice("slt")
        mk = (lambda: ("s", rand_utf8(rng))) if k == "s" else (lambda: (k, [small_int(rng) for _ in range(rng.randint(0, 3))]))
        return [mk(), mk()]
    if pa == "getitem":
        k = rng.choice("ltsb")
        seq = ("s", b"abcdef") if k == "s" else ("b", b"\x00\x01\xfe") if k == "b" else (k, [num_arg(rng) for _ in range(rng.randint(1, 5))])
        return [seq, ("i", rng.choice([0, 1, -1, 2, 7]))]
    if pa in ("len", "sorted", "tuple", "fsum"):
        k = rng.choice("lt")
        items = [("f", rng.choice(FLOAT_BITS[9:])) for _ in range(rng.randint(0, 5))] if pa == "fsum" else [small_int(rng) for _ in range(rng.randint(0, 5))]
        return [(k, items)]
    if pa == "pow" and ar == 3:
        return [small_int(rng), ("i", rng.choice([0, 1, 2, 5, 30])), ("i", rng.choice([1, 2, 7, 1000, -5, 0]))]
    if pa in ("lshift", "ldexp"):
        return [num_arg(rng), ("i", rng.choice([0, 1, 3, 10, 62, -1]))]
    if pa == "round":
        return [num_arg(rng), small_int(rng)]
    return [num_arg(rng) for _ in range(ar)]


def make_cases(rng, shape, baked, n_values, n_calls, sig_enabled=None):
    """-> list of dicts {op: stdin text, kind, oracle: json-able spec, model: modeld line or None}"""
    cases = []
    fns = fn_table()
    # (i) value round trips
    roots = [("i", v) for v in INT_BOUNDARY] + [("f", b) for b in FLOAT_BITS] + [("d", b) for b in FLOAT_BITS[:8]] + [("g", b) for b in F32_BITS]
    roots += [("s", b) for b in STR_SAMPLES] + [("S", b) for b in STR_SAMPLES[:10]] + [("s", b) for b in BAD_UTF8] + [("S", b) for b in BAD_UTF8[:4]]
    roots += [("b", b) for b in STR_SAMPLES[:6] + BAD_UTF8] + [("a", b) for b in BAD_UTF8[:5] + [b""]] + [("B", b"\x00\xff\x80"), ("B", b""), ("B", b"\x00" * 8)]
    roots += [("u", v) for v in (0, 1, 1 << 63, (1 << 64) - 1)] + [("T",), ("F",)]
    for w in (64, 0):
        for pat in (0, 1, (1 << 64) - 1, 1 << 63, (1 << 63) - 1):
            roots += [("I", w, pat), ("U", w, pat)]
    roots += [("U", 1, (1 << 64) - 1)]
    while len(roots) < n_values:
        r = rng.random()
        roots.append(rand_tree(rng, 3) if r < 0.6 else ("s", rng.choice(BAD_UTF8)) if r < 0.65 else rand_scalar(rng))
    for t in roots:
        tok = tree_tokens(t)
        cases.append({"kind": "value", "op": "R " + tok, "oracle": {"k": "value", "tok": tok}, "model": model_line(t), "tree": t})
    # (ii) calls
    for _ in range(n_calls):
        fi = rng.randrange(N_PLAIN_FNS) if rng.random() < 0.6 else rng.randrange(8)
        gp, gn, pm, pa, ar = fns[fi]
        args = fn_args(rng, pm, pa, ar)
        toks = [tree_tokens(a) for a in args]
        cases.append({"kind": "call", "op": "C %d %d %s" % (fi, len(args), " ".join(toks)),
                      "oracle": {"k": "call", "mod": pm, "attr": pa, "args": toks},
                      "model": "call %d %d %d" % (1 if ar == "v" else ar, 1 if ar == "v" else 0, len(args)), "fn": "%s.%s" % (pm, pa), "arity": len(args)})
    # one Python function bound under two Go signatures (math.Log / math.LogOf idiom of goplus/lib): narrow one first
    for fi, args in ((N_PLAIN_FNS, [("i", 8)]), (N_PLAIN_FNS + 1, [("i", 8), ("i", 2)]), (N_PLAIN_FNS, [("s", b"x")]),
                     (N_PLAIN_FNS + 1, [("f", 0x4020000000000000), ("l", [("i", 1)])])):
        toks = [tree_tokens(a) for a in args]
        cases.append({"kind": "dupsig", "op": "C %d %d %s" % (fi, len(args), " ".join(toks)),
                      "oracle": {"k": "call", "mod": "vhelp", "attr": "dup", "args": toks},
                      "model": "call %d 0 %d" % (len(args), len(args)), "fn": "vhelp.dup", "arity": len(args)})
    # the same Python callable under two Go signatures, both reference orders, each binding called with its own arguments
    for k, (scope, f, g, nv) in enumerate(sig_cases()):
        if sig_enabled is not None and k not in sig_enabled:
            continue
        args = [("i", 100 + k), ("s", b"b%d" % k), ("f", 0x4004000000000000), ("i", -4 - k), ("l", [("i", 5), ("s", b"e")]), ("t", [("i", 6)])]
        rng.shuffle(args)
        toks = [tree_tokens(a) for a in args]
        cases.append({"kind": "sigpair", "op": "G %d %s" % (k, " ".join(toks)),
                      "oracle": {"k": "sigpair", "py": "sig%d" % k, "args": toks, "na": sig_nargs(f, nv), "nb": sig_nargs(g, nv)},
                      "model": None, "sig": (scope, f, g, nv),
                      "model_calls": ["call %d %d %d" % (1 if x == "v" else x, 1 if x == "v" else 0, sig_nargs(x, nv)) for x in (f, g)]})
    # baked (compiler-lowered literals)
    for k, t in enumerate(baked):
        tok = tree_tokens(t)
        cases.append({"kind": "strnul" if k == 0 else "baked", "op": "K %d" % k, "oracle": {"k": "value1", "tok": tok}, "model": model_line(t), "tree": t})
    # hierarchies of modules / symbols mentioned only in later compile rounds
    if shape.get("hier"):
        cases += genh.cases(rng, shape["hier"], tree_tokens, rand_tree)
    # (iii) + (iv): lookups and uses from every ordinary package
    pk = package_table(shape)
    for pid, (go, kind, info) in enumerate(pk):
        if kind != "user":
            continue
        for k, (uk, b, attr) in enumerate(user_cases(shape, info)):
            if uk == "xmod":
                cases.append({"kind": "modlookup", "op": "U %d %d" % (pid, k), "oracle": {"k": "const", "out": "T"}, "model": None,
                              "use": (pid, "e", b, None)})
                continue
            bi = shape["bindings"][b]
            name = shape["mods"][bi["mod"]]
            if uk == "call0":
                o = {"k": "call", "mod": name, "attr": "tag", "args": []}
            elif uk == "callv":
                o = {"k": "call", "mod": name, "attr": "rep", "args": ["i %d" % k, "s " + go.encode().hex(), "f %d" % 0x3fe0000000000000]}
            else:
                o = {"k": "attr", "mod": name, "attr": attr}
            ai = [a for a, _ in mod_attrs(0, "")].index(attr)
            cases.append({"kind": "lookup" if uk == "var" else "use", "op": "U %d %d" % (pid, k), "oracle": o, "model": None,
                          "use": (pid, "v" if uk == "var" else "c", bi["mod"], ai)})
    return cases


# ------------------------------------------------------------------ probe programs (replays of the recorded findings)
PROBE_MAIN = r'''// Code generated by /verif/harness/c19/gen.py. DO NOT EDIT.
// Probe program: narrow integer kinds through PyVal, a Go helper inside a binding package, a typed variadic.
package main

import (
	"github.com/goplus/lib/py"

	"@MOD@/bh"
	"@MOD@/bprobe"
	"@MOD@/vdump"
	"@MOD@/vio"
)

func first(l *py.Object) *py.Object { return l.ListItem(0) }

// aaNarrowTwice: int8(v) twice in one compilation; Go says both are the same value.
func aaNarrowTwice(v uint64) *py.Object { return py.Tuple(int8(v), int8(v)) }

func narrow(signed bool, w uint64, v uint64) *py.Object {
	if signed {
		switch w {
		case 8:
			return first(py.List(int8(v)))
		case 16:
			return py.Tuple(int16(v)).TupleItem(0)
		}
		return first(py.List(int32(v)))
	}
	switch w {
	case 8:
		return first(py.List(uint8(v)))
	case 16:
		return py.Tuple(uint16(v)).TupleItem(0)
	}
	return first(py.List(uint32(v)))
}

func printStr(o *py.Object) {
	if o == nil {
		vdump.Dump(nil)
		return
	}
	vdump.Raw(o)
}

func main() {
	print("READY ")
	printStr(bh.Version())
	println()
	seq := 0
	for {
		op := vio.Tok()
		if op == 0 {
			break
		}
		print("#", seq, " ")
		seq++
		switch op {
		case 'D':
			vdump.Dump(aaNarrowTwice(vio.Uint()))
		case 'N':
			k := vio.Tok()
			w := vio.Uint()
			x := narrow(k == 'I', w, vio.Uint())
			vdump.Dump(bh.Ident(x))
			print(" ")
			printStr(bh.Pydump(x))
		case 'K':
			vdump.Dump(bakedCase(int(vio.Uint())))
		case 'H':
			vdump.Dump(bprobe.Helper(py.Long(5)))
		case 'V':
			vdump.Dump(bprobe.RepT(py.Long(1), py.Long(2)))
		default:
			print("bad-op")
		}
		println()
	}
	println("DONE")
}
'''

BPROBE_SRC = '''// Code generated by /verif/harness/c19/gen.py. DO NOT EDIT.
package bprobe

import (
	_ "unsafe"

	"github.com/goplus/lib/py"
)

const LLGoPackage = "py.vhelp"

//go:linkname helperRep py.helper_rep
func helperRep(a *py.Object) *py.Object

// Helper is Go code inside a binding package that calls a Python function of the bound module.
func Helper(x *py.Object) *py.Object { return helperRep(x) }

// RepT is declared like github.com/goplus/lib/py/math.Hypot: a typed variadic instead of `__llgo_va_list ...any`.
//
//go:linkname RepT py.rept
func RepT(args ...*py.Object) *py.Object
'''


def write_probe_program(d, mod, narrow_baked, gosrc, repo_gosum):
    files = {"go.mod": "module %s\n\ngo 1.24\n\nrequire github.com/goplus/lib v0.3.1\n" % mod, "go.sum": open(repo_gosum).read(),
             "vio/vio.go": open(os.path.join(gosrc, "vio.go.txt")).read(),
             "vdump/vdump.go": open(os.path.join(gosrc, "vdump.go.txt")).read().replace("@MOD@", mod),
             "bh/bh.go": binding_src("bh", "vhelp", [fn_decl("Ident", "ident", 1), fn_decl("Pydump", "pydump", 1), fn_decl("Version", "version", 0)]),
             "bprobe/bprobe.go": BPROBE_SRC, "main.go": PROBE_MAIN.replace("@MOD@", mod)}
    L = ["// Code generated by /verif/harness/c19/gen.py. DO NOT EDIT.", "package main", "", 'import "github.com/goplus/lib/py"', "",
         "func bakedCase(k int) *py.Object {", "\tswitch k {"]
    for k, t in enumerate(narrow_baked):
        L.append("\tcase %d:\n\t\treturn %s" % (k, tree_go(t, False)))
    L += ["\t}", "\treturn nil", "}", ""]
    files["tables.go"] = "\n".join(L)
    for rel, content in files.items():
        p = os.path.join(d, rel)
        os.makedirs(os.path.dirname(p), exist_ok=True)
        with open(p, "w") as f:
            f.write(content)
    return files


def write_noinit_program(d, mod, repo_gosum):
    """a program whose only contact with Python is the blank import of a binding package"""
    files = {"go.mod": "module %s\n\ngo 1.24\n\nrequire github.com/goplus/lib v0.3.1\n" % mod, "go.sum": open(repo_gosum).read(),
             "bsolo/bsolo.go": binding_src("bsolo", "vsolo", [fn_decl("Tag", "tag", 0)]),
             "main.go": '// Code generated by /verif/harness/c19/gen.py. DO NOT EDIT.\npackage main\n\nimport _ "%s/bsolo"\n\nfunc main() {\n\tprintln("START")\n}\n' % mod}
    for rel, content in files.items():
        p = os.path.join(d, rel)
        os.makedirs(os.path.dirname(p), exist_ok=True)
        with open(p, "w") as f:
            f.write(content)
    with open(os.path.join(d, "vsolo.py"), "w") as f:
        f.write("import sys\nsys.stderr.write('IMPORT vsolo\\n')\nsys.stderr.flush()\n\ndef tag():\n    return 'vsolo'\n")
    return files
