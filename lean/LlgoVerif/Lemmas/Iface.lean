import LlgoVerif.Model.Iface
/-!
# Lemmas for C07: the method-table scans of `z_face.go` decide interface satisfaction
exactly when both tables are strictly sorted by ONE order.
-/
namespace LlgoVerif.Face

/-! ## Go's string order on bytes -/

theorem bytesLt_irrefl : ∀ a, bytesLt a a = false
  | [] => rfl
  | x :: xs => by simp [bytesLt, bytesLt_irrefl xs]

theorem bytesLt_trans : ∀ a b c, bytesLt a b = true → bytesLt b c = true → bytesLt a c = true
  | [], [], _, h, _ => by simp [bytesLt] at h
  | [], _ :: _, [], _, h => by simp [bytesLt] at h
  | [], _ :: _, _ :: _, _, _ => by simp [bytesLt]
  | _ :: _, [], _, h, _ => by simp [bytesLt] at h
  | _ :: _, _ :: _, [], _, h => by simp [bytesLt] at h
  | x :: xs, y :: ys, z :: zs, h1, h2 => by
    simp only [bytesLt] at h1 h2 ⊢
    by_cases hxy : x < y
    · by_cases hyz : y < z
      · have : x < z := by omega
        simp [this]
      · simp only [hyz, if_false] at h2
        by_cases hzy : z < y
        · simp [hzy] at h2
        · have : x < z := by omega
          simp [this]
    · simp only [hxy, if_false] at h1
      by_cases hyx : y < x
      · simp [hyx] at h1
      · simp only [hyx, if_false] at h1
        have hxy' : x = y := by omega
        subst hxy'
        by_cases hyz : x < z
        · simp [hyz]
        · simp only [hyz, if_false] at h2 ⊢
          by_cases hzy : z < x
          · simp [hzy] at h2
          · simp only [hzy, if_false] at h2 ⊢
            exact bytesLt_trans xs ys zs h1 h2

theorem bytesLt_total : ∀ a b, bytesLt a b = false → a = b ∨ bytesLt b a = true
  | [], [], _ => Or.inl rfl
  | [], _ :: _, h => by simp [bytesLt] at h
  | _ :: _, [], _ => by simp [bytesLt]
  | x :: xs, y :: ys, h => by
    simp only [bytesLt] at h ⊢
    by_cases hxy : x < y
    · simp [hxy] at h
    · simp only [hxy, if_false] at h
      by_cases hyx : y < x
      · simp [hyx]
      · simp only [hyx, if_false] at h ⊢
        have : x = y := by omega
        subst this
        rcases bytesLt_total xs ys h with h' | h'
        · left; rw [h']
        · right; simpa using h'

/-! ## the two-index scan -/

/-- the facts about the order the scan relies on -/
structure StrictOrder (lt : List Nat → List Nat → Prop) : Prop where
  irrefl : ∀ a, ¬ lt a a
  trans : ∀ a b c, lt a b → lt b c → lt a c

def SortedBy (lt : List Nat → List Nat → Prop) (l : List Ent) : Prop :=
  l.Pairwise fun a b => lt a.name b.name

theorem same_iff (a b : Ent) : a.same b = true ↔ a.name = b.name ∧ a.typ = b.typ := by
  simp [Ent.same]

theorem scan_correct {lt : List Nat → List Nat → Prop} (ho : StrictOrder lt) :
    ∀ (v t : List Ent), SortedBy lt t → SortedBy lt v → (scan t v = true ↔ implSpec t v)
  | [], [], _, _ => by simp [scan, implSpec]
  | [], tm :: ts, _, _ => by
    simp only [scan, Bool.false_eq_true, false_iff]
    intro h
    obtain ⟨m, hm, _⟩ := h tm (by simp)
    simp at hm
  | vm :: vs, [], _, _ => by simp [scan, implSpec]
  | vm :: vs, tm :: ts, st, sv => by
    have st' : SortedBy lt ts := (List.pairwise_cons.1 st).2
    have sv' : SortedBy lt vs := (List.pairwise_cons.1 sv).2
    have ht : ∀ e ∈ ts, lt tm.name e.name := (List.pairwise_cons.1 st).1
    have hv : ∀ m ∈ vs, lt vm.name m.name := (List.pairwise_cons.1 sv).1
    simp only [scan]
    by_cases hs : vm.same tm = true
    · simp only [hs, if_true]
      rw [scan_correct ho vs ts st' sv']
      have hs' := (same_iff vm tm).1 hs
      constructor
      · intro h e he
        simp only [List.mem_cons] at he
        rcases he with rfl | he
        · exact ⟨vm, by simp, hs'.1, hs'.2⟩
        · obtain ⟨m, hm, h1, h2⟩ := h e he
          exact ⟨m, by simp [hm], h1, h2⟩
      · intro h e he
        obtain ⟨m, hm, h1, h2⟩ := h e (by simp [he])
        simp only [List.mem_cons] at hm
        rcases hm with rfl | hm
        · exfalso
          have := ht e he
          rw [← h1, hs'.1] at this
          exact ho.irrefl _ this
        · exact ⟨m, hm, h1, h2⟩
    · simp only [hs, Bool.false_eq_true, if_false]
      rw [scan_correct ho vs (tm :: ts) st sv']
      constructor
      · intro h e he
        obtain ⟨m, hm, h1, h2⟩ := h e he
        exact ⟨m, by simp [hm], h1, h2⟩
      · intro h e he
        obtain ⟨m, hm, h1, h2⟩ := h e he
        simp only [List.mem_cons] at hm
        rcases hm with rfl | hm
        · exfalso
          simp only [List.mem_cons] at he
          rcases he with rfl | he
          · exact hs ((same_iff _ _).2 ⟨h1, h2⟩)
          · -- the entry matched by `vm` lies after `tm`; `tm` itself must then be matched after `vm`
            obtain ⟨m', hm', h1', h2'⟩ := h tm (by simp)
            simp only [List.mem_cons] at hm'
            rcases hm' with rfl | hm'
            · exact hs ((same_iff _ _).2 ⟨h1', h2'⟩)
            · have a := ht e he          -- tm.name < e.name = vm.name
              have b := hv m' hm'        -- vm.name < m'.name = tm.name
              rw [← h1] at a
              rw [h1'] at b
              exact ho.irrefl _ (ho.trans _ _ _ a b)
        · exact ⟨m, hm, h1, h2⟩

/-! ## findMethod / NewItab -/

theorem bytesLt_strict : StrictOrder fun a b => bytesLt a b = true :=
  ⟨fun a h => by simp [bytesLt_irrefl] at h, bytesLt_trans⟩

theorem findMethod_correct : ∀ (v : List Ent) (im : Ent), sortedNames v →
    ((findMethod v im).2 = true ↔ ∃ m ∈ v, m.name = im.name ∧ m.typ = im.typ)
  | [], im, _ => by simp [findMethod]
  | m :: ms, im, sv => by
    have sv' : sortedNames ms := (List.pairwise_cons.1 sv).2
    have hv : ∀ x ∈ ms, bytesLt m.name x.name = true := (List.pairwise_cons.1 sv).1
    simp only [findMethod]
    by_cases hlt : bytesLt m.name im.name = true
    · simp only [hlt, Bool.not_true, Bool.false_eq_true, if_false]
      rw [findMethod_correct ms im sv']
      constructor
      · rintro ⟨x, hx, h⟩; exact ⟨x, by simp [hx], h⟩
      · rintro ⟨x, hx, h1, h2⟩
        simp only [List.mem_cons] at hx
        rcases hx with rfl | hx
        · rw [h1, bytesLt_irrefl] at hlt; cases hlt
        · exact ⟨x, hx, h1, h2⟩
    · have hlt' : bytesLt m.name im.name = false := by simpa using hlt
      simp only [hlt', Bool.not_false, if_true]
      by_cases he : (m.name == im.name && m.typ == im.typ) = true
      · simp only [he, if_true, true_iff]
        simp only [Bool.and_eq_true, beq_iff_eq] at he
        exact ⟨m, by simp, he.1, he.2⟩
      · simp only [he, if_false, Bool.false_eq_true, false_iff]
        rintro ⟨x, hx, h1, h2⟩
        simp only [List.mem_cons] at hx
        rcases hx with rfl | hx
        · exact he (by simp [h1, h2])
        · -- a later entry has a name above `m.name`, which is not below the wanted name
          have a := hv x hx
          rw [h1] at a
          rcases bytesLt_total _ _ hlt' with e | e
          · rw [e, bytesLt_irrefl] at a; cases a
          · have := bytesLt_trans _ _ _ a e
            rw [bytesLt_irrefl] at this; cases this

/-- the `mapM` of `newItabFuns` as a plain recursion -/
theorem newItabFuns_cons (im : Ent) (ims v : List Ent) :
    newItabFuns (im :: ims) v =
      if (findMethod v im).2 = true then (newItabFuns ims v).map ((findMethod v im).1 :: ·) else none := by
  unfold newItabFuns
  simp only [List.mapM_cons]
  split
  · cases List.mapM (fun im => if (findMethod v im).2 = true then some (findMethod v im).1 else none) ims <;> rfl
  · rfl

theorem newItabFuns_isSome (t v : List Ent) (sv : sortedNames v) :
    (newItabFuns t v).isSome = true ↔ implSpec t v := by
  induction t with
  | nil => simp [newItabFuns, implSpec]
  | cons im ims ih =>
    have hf := findMethod_correct v im sv
    rw [newItabFuns_cons]
    have hspec : implSpec (im :: ims) v ↔ (∃ m ∈ v, m.name = im.name ∧ m.typ = im.typ) ∧ implSpec ims v := by
      simp [implSpec]
    rw [hspec, ← ih, ← hf]
    cases h2 : (findMethod v im).2 with
    | false => simp
    | true => simp

end LlgoVerif.Face
