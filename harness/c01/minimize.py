"""Statement-deletion minimiser for generated programs (delta debugging over the statement lists of every function).
`pred(P)` must return True while the reduced program still shows the behaviour of interest (it has to re-emit and
re-build the program itself and must return False when the reduced program no longer compiles with the reference
toolchain)."""
from goast import *


def stmt_lists(P):
    """every mutable statement list of the program, outermost first"""
    out = []

    def walk(ss):
        out.append(ss)
        for s in ss:
            for b in s.blocks():
                walk(b)
    for f in P.funcs:
        walk(f.body)
    return out


def count_stmts(P):
    return sum(len(l) for l in stmt_lists(P))


def minimize(P, pred, max_tests=40, log=None):
    """ddmin over each statement list: the entry function first (that is where most of a generated program's work is),
    then the other lists, largest first; chunks are halved down to single statements"""
    tests = 0

    def attempt(ss, lo, hi):
        nonlocal tests
        saved = ss[lo:hi]
        del ss[lo:hi]
        tests += 1
        try:
            ok = pred(P)
        except Exception:
            ok = False
        if ok:
            if log:
                log("minimise: removed %d statement(s), %d left" % (len(saved), count_stmts(P)))
            return True
        ss[lo:lo] = saved
        return False

    def ddmin(ss):
        chunk = max(1, len(ss) // 2)
        while chunk >= 1 and tests < max_tests:
            i = len(ss)
            while i > 0 and tests < max_tests:
                lo = max(0, i - chunk)
                attempt(ss, lo, i)
                i = lo
            if chunk == 1:
                break
            chunk //= 2

    for rnd in range(2):
        lists = stmt_lists(P)
        main_body = P.main.body if P.main is not None else None
        lists.sort(key=lambda l: (0 if l is main_body else 1, -len(l)))
        before = count_stmts(P)
        for ss in lists:
            if tests >= max_tests:
                break
            if ss:
                ddmin(ss)
        if count_stmts(P) == before:
            break
    return P, tests
