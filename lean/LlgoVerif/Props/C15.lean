import LlgoVerif.Lemmas.TypeStr
namespace LlgoVerif.Types
theorem stub_c15 : True := trivial
end LlgoVerif.Types
