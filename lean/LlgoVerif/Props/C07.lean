import LlgoVerif.Lemmas.GoTypeInj
import LlgoVerif.Lemmas.Iface
/-!
# C07 — dynamic type identity and interface satisfaction coincide with Go's rules

Property theorems only.  Models: `Model/GoType.lean` (`typeName` = `ssa/abi` `TypeName`),
`Model/Iface.lean` (`scan`/`findMethod`/`newItabFuns` = `runtime` `Implements`/`findMethod`/`NewItab`);
specification: `Spec/TypeIdent.lean`; lemmas: `Lemmas/GoType*.lean`, `Lemmas/Iface.lean`.

The hash (`base64url ∘ sha256`) is a PARAMETER of every statement; its injectivity is a
hypothesis, never an axiom.
-/
namespace LlgoVerif.Types

/-! ## the run-time name determines the type -/

/-- **Full statement** (what C07 demands of the naming scheme): for a collision-free hash two types
    get the same run-time name exactly when they are identical.  FALSE on the current code. -/
def typeName_injective : Prop :=
  ∀ (hash : List UInt8 → String), Function.Injective hash →
    ∀ t₁ t₂ : GoType, (typeName hash t₁ = typeName hash t₂ ↔ identical t₁ t₂ = true)

/-- an injective stand-in for the hash, used by the counterexamples (one character per byte) -/
def byteChars (bs : List UInt8) : String := String.ofList (bs.map fun b => Char.ofNat b.toNat)

theorem byteChars_injective : Function.Injective byteChars := by
  intro a b h
  have h := String.ofList_inj.1 h
  refine (List.map_inj_right ?_).1 h
  intro x y hxy
  have key : ∀ z : UInt8, (Char.ofNat z.toNat).toNat = z.toNat := by
    intro z
    have hz : z.toNat < 256 := z.toNat_lt
    have : z.toNat.isValidChar := by left; omega
    simp [Char.ofNat, this, Char.ofNatAux, Char.toNat]
  have := congrArg Char.toNat hxy
  rw [key x, key y] at this
  exact UInt8.toNat_inj.1 this

/-- `struct{ A int "x:1" }` -/
def tagX1 : GoType := .struct (.cons ['A'] none false ['x', ':', '1'] (.basic .int) .nil)
/-- `struct{ A int "x:2" }` -/
def tagX2 : GoType := .struct (.cons ['A'] none false ['x', ':', '2'] (.basic .int) .nil)

/-- **Counterexample (struct tags).** `structHash` does not write the tag: the two struct types
    above are not identical but have the same name under EVERY hash.  Replayed on the real
    `ssa/abi` by the check (finding `samename:tag`, repair `fixes/C07-1.diff`). -/
theorem typeName_injective_counterexample : ¬ typeName_injective := by
  intro h
  have := (h byteChars byteChars_injective tagX1 tagX2).1 rfl
  simp [tagX1, tagX2, identical, identicalF, unalias] at this

/-- `type T struct{…}` of package `p` (declaration 1) -/
def namedT : GoType := .named 1 (some ['p']) ['T'] .pkg .nil
/-- `struct{ AT }` with `type AT = T` -/
def embAT : GoType := .struct (.cons ['A', 'T'] none true [] (.alias ['A', 'T'] namedT) .nil)
/-- `struct{ T }` -/
def embT : GoType := .struct (.cons ['T'] none true [] namedT .nil)

/-- **Counterexample (embedded field names).** Erasing tags is not enough: `structHash` writes `-`
    for an embedded field, so `struct{ AT }` and `struct{ T }` (field names `AT` / `T`, one type)
    share a name.  Replayed by the check (finding `samename:embedded-name`). -/
theorem typeName_injective_counterexample_embedded :
    ¬ (∀ (hash : List UInt8 → String), Function.Injective hash → ∀ t₁ t₂ : GoType,
        tagsErased t₁ = true → tagsErased t₂ = true →
        (typeName hash t₁ = typeName hash t₂ ↔ identical t₁ t₂ = true)) := by
  intro h
  have := (h byteChars byteChars_injective embAT embT (by decide) (by decide)).1 rfl
  simp [embAT, embT, identical, identicalF, unalias] at this

/-- the hash token consists of base64url characters (no blank, newline, bracket, `$`, `*`, `<`, `.`, …) -/
def HashClean (hash : List UInt8 → String) : Prop := ∀ bs, ∀ c ∈ (hash bs).toList, hashChar c = true

/-- **Partial theorem, for every variant of `structHash`** (`cfg`: the pinned tree, or with the tag
    repair and/or the embedded-name repair).  For every collision-free hash with base64url output and
    all types `t₁ t₂` of the covered fragment — well-formed (`wfT`: sane identifier / path characters,
    package present exactly on non-exported names and uniform per struct / interface, embedded
    fields named by their type unless the variant writes the name, func-typed methods, named types
    with reachable scope whose type arguments are canonical basic types, named types, pointers /
    slices / aliases of these (`wfArg`)), tags harmless (`tagsOk`: the variant writes
    them, or there are none), declarations rendered coherently (`Coherent`: same declaration ⇔ same
    (PathOf package, name, scope indices)) — the names agree exactly when the types are identical.
    Covers: basic types incl. `byte`/`rune`, pointer, slice, array length, map, channel direction,
    func arity / order / variadic flag, struct field names / order / embedding / package of
    non-exported names (and tags, in the repaired variant), interface method sets incl. package of
    non-exported methods, aliases, named types by (package, name, scope indices, type arguments).
    NOT covered: type arguments outside `wfArg` (array / map / chan / func / struct / interface /
    nested generic arguments and the `byte`/`rune` spellings — `typeArgString` has listed defects
    there), detached scopes (`Scope.pos`), closure structs. -/
theorem typeNameCfg_injective_partial (cfg : Cfg) (hash : List UInt8 → String) (hinj : Function.Injective hash)
    (hclean : HashClean hash) (ex : Str → Bool) (t₁ t₂ : GoType)
    (w₁ : wfT cfg ex t₁ = true) (w₂ : wfT cfg ex t₂ = true)
    (e₁ : tagsOk cfg t₁ = true) (e₂ : tagsOk cfg t₂ = true)
    (hco : Coherent (declKeys t₁ ++ declKeys t₂)) :
    typeNameCfg cfg hash t₁ = typeNameCfg cfg hash t₂ ↔ identical t₁ t₂ = true := by
  unfold typeNameCfg
  rw [String.ofList_inj]
  have hi : Function.Injective fun cs => (hash (utf8 cs)).toList := by
    intro a b h
    exact utf8_injective (hinj (String.toList_inj.1 h))
  exact inj_T hi (fun x c hc => hclean _ c hc) hco t₁ t₂
    ⟨w₁, e₁, List.subset_append_left _ _⟩ ⟨w₂, e₂, List.subset_append_right _ _⟩

/-- **Partial theorem for the pinned tree**: under `tagsErased` (no struct field carries a tag) and
    the other side conditions of `typeNameCfg_injective_partial`. -/
theorem typeName_injective_partial (hash : List UInt8 → String) (hinj : Function.Injective hash)
    (hclean : HashClean hash) (ex : Str → Bool) (t₁ t₂ : GoType)
    (w₁ : wfT .current ex t₁ = true) (w₂ : wfT .current ex t₂ = true)
    (e₁ : tagsErased t₁ = true) (e₂ : tagsErased t₂ = true)
    (hco : Coherent (declKeys t₁ ++ declKeys t₂)) :
    typeName hash t₁ = typeName hash t₂ ↔ identical t₁ t₂ = true :=
  typeNameCfg_injective_partial .current hash hinj hclean ex t₁ t₂ w₁ w₂ e₁ e₂ hco

mutual
theorem tagsOk_fixed : ∀ t : GoType, tagsOk .fixed t = true
  | .basic _ => rfl
  | .pointer e => by simp [tagsOk, tagsOk_fixed e]
  | .slice e => by simp [tagsOk, tagsOk_fixed e]
  | .array _ e => by simp [tagsOk, tagsOk_fixed e]
  | .map k v => by simp [tagsOk, tagsOk_fixed k, tagsOk_fixed v]
  | .chan _ e => by simp [tagsOk, tagsOk_fixed e]
  | .alias _ a => by simp [tagsOk, tagsOk_fixed a]
  | .func ps rs _ => by simp [tagsOk, tagsOkL_fixed ps, tagsOkL_fixed rs]
  | .struct fs => by simp [tagsOk, tagsOkF_fixed fs]
  | .iface ms => by simp [tagsOk, tagsOkM_fixed ms]
  | .named _ _ _ _ targs => by simp [tagsOk, tagsOkL_fixed targs]
theorem tagsOkL_fixed : ∀ l : TList, tagsOkL .fixed l = true
  | .nil => rfl
  | .cons t r => by simp [tagsOkL, tagsOk_fixed t, tagsOkL_fixed r]
theorem tagsOkF_fixed : ∀ l : FList, tagsOkF .fixed l = true
  | .nil => rfl
  | .cons _ _ _ _ t r => by simp [tagsOkF, tagsOk_fixed t, tagsOkF_fixed r, show Cfg.fixed.tags = true from rfl]
theorem tagsOkM_fixed : ∀ l : MList, tagsOkM .fixed l = true
  | .nil => rfl
  | .cons _ _ s r => by simp [tagsOkM, tagsOk_fixed s, tagsOkM_fixed r]
end

/-- **With both repairs (`fixes/C07-1.diff`, `fixes/C07-2.diff`) the tag hypothesis disappears**: struct
    tags and embedded field names are then part of the name. -/
theorem typeName_injective_partial_fixed (hash : List UInt8 → String) (hinj : Function.Injective hash)
    (hclean : HashClean hash) (ex : Str → Bool) (t₁ t₂ : GoType)
    (w₁ : wfT .fixed ex t₁ = true) (w₂ : wfT .fixed ex t₂ = true)
    (hco : Coherent (declKeys t₁ ++ declKeys t₂)) :
    typeNameCfg .fixed hash t₁ = typeNameCfg .fixed hash t₂ ↔ identical t₁ t₂ = true :=
  typeNameCfg_injective_partial .fixed hash hinj hclean ex t₁ t₂ w₁ w₂ (tagsOk_fixed t₁) (tagsOk_fixed t₂) hco

/-- Go's `token.IsExported` on ASCII names, for the examples -/
def exAscii (s : Str) : Bool := match s with | c :: _ => c.isUpper | [] => false

/-- in the repaired variant the two witnesses above are told apart, under every admissible hash -/
theorem fixed_separates_witnesses (hash : List UInt8 → String) (hinj : Function.Injective hash) (hclean : HashClean hash) :
    typeNameCfg .fixed hash tagX1 ≠ typeNameCfg .fixed hash tagX2 ∧
    typeNameCfg .fixed hash embAT ≠ typeNameCfg .fixed hash embT := by
  constructor
  · intro h
    have := (typeName_injective_partial_fixed hash hinj hclean exAscii tagX1 tagX2 (by decide) (by decide) (by decide)).1 h
    simp [tagX1, tagX2, identical, identicalF, unalias] at this
  · intro h
    have := (typeName_injective_partial_fixed hash hinj hclean exAscii embAT embT (by decide) (by decide) (by decide)).1 h
    simp [embAT, embT, identical, identicalF, unalias] at this


/-- `struct{ A int; b p.T; *p.T }` of package `q`, and `map[string]func(...[]int) chan<- error`-like terms satisfy the hypotheses -/
example :
    let t₁ : GoType := .struct (.cons ['A'] none false [] (.basic .int)
      (.cons ['b'] (some ['q']) false [] namedT (.cons ['T'] none true [] (.pointer namedT) .nil)))
    let t₂ : GoType := .map (.basic .string) (.func (.cons (.slice (.array 3 (.basic .byte))) .nil)
      (.cons (.chan .send (.named 2 none ['e', 'r', 'r', 'o', 'r'] .pkg .nil)) .nil) true)
    wfT .current exAscii t₁ = true ∧ wfT .current exAscii t₂ = true ∧ tagsErased t₁ = true ∧ tagsErased t₂ = true ∧
      Coherent (declKeys t₁ ++ declKeys t₂) := by decide

/-- generic instances satisfy the hypotheses: `p.G[*p.T, []int]` and `p.G[p.T, string]` -/
example :
    let g (a b : GoType) : GoType := .named 7 (some ['p']) ['G'] .pkg (.cons a (.cons b .nil))
    let t₁ := g (.pointer namedT) (.slice (.basic .int))
    let t₂ := g namedT (.basic .string)
    wfT .current exAscii t₁ = true ∧ wfT .current exAscii t₂ = true ∧ tagsErased t₁ = true ∧ tagsErased t₂ = true ∧
      Coherent (declKeys t₁ ++ declKeys t₂) := by decide

/-- the tag pair and the embedded-alias pair satisfy the hypotheses of the repaired variant -/
example : wfT .fixed exAscii tagX1 = true ∧ wfT .fixed exAscii tagX2 = true ∧
    wfT .fixed exAscii embAT = true ∧ wfT .fixed exAscii embT = true ∧
    Coherent (declKeys embAT ++ declKeys embT) := by decide

/-! ## interface satisfaction -/

open LlgoVerif.Face in
/-- **`Implements` is correct for tables sorted by ONE strict order.**  For any irreflexive,
    transitive order on method names: if the interface's table `t` and the operand's table `v` are
    both strictly increasing (sorted, no duplicate names), the two-index scan of `Implements`
    returns true iff every interface method `(name, type)` occurs in `v` — for ALL tables. -/
theorem implements_scan_correct (lt : List Nat → List Nat → Prop) (ho : StrictOrder lt)
    (t v : List Ent) (st : SortedBy lt t) (sv : SortedBy lt v) :
    implScan t (some v) = true ↔ implSpec t v := by
  unfold implScan
  cases t with
  | nil => simp [implSpec]
  | cons tm ts => simpa using scan_correct ho v (tm :: ts) st sv

open LlgoVerif.Face in
/-- **`findMethod` / `NewItab` are correct for an operand table sorted in Go's string order**
    (the order the `>=` test of `findMethod` uses); the interface's table may be in any order. -/
theorem newItab_scan_correct (t v : List Ent) (sv : sortedNames v) :
    (newItabFuns t v).isSome = true ↔ implSpec t v := newItabFuns_isSome t v sv

open LlgoVerif.Face in
/-- the hypotheses are satisfiable: two sorted tables -/
example : SortedBy (fun a b => bytesLt a b = true) [⟨[77], 1, 1⟩, ⟨[78], 2, 1⟩] ∧
    sortedNames [⟨[65], 3, 1⟩, ⟨[77], 1, 1⟩, ⟨[78], 2, 1⟩] := by
  simp [SortedBy, sortedNames]; decide

open LlgoVerif.Face in
/-- **The precondition matters** (and the emitter violates it, finding `implements:table-order-mismatch`):
    the interface table `[Beta, alpha]` in go/types' interface order against the method table
    `[alpha, Beta]`-style order of a package whose path sorts first: every method is present, the
    scan says no. -/
theorem implements_scan_unsorted_counterexample :
    ∃ t v : List Ent, implSpec t v ∧ implScan t (some v) = false ∧ (newItabFuns t v).isSome = true := by
  refine ⟨[⟨[66], 1, 1⟩, ⟨[57, 46, 97], 2, 1⟩], [⟨[57, 46, 97], 2, 1⟩, ⟨[66], 1, 1⟩], ?_, by decide, by decide⟩
  intro e he
  simp at he
  rcases he with rfl | rfl
  · exact ⟨⟨[66], 1, 1⟩, by simp, rfl, rfl⟩
  · exact ⟨⟨[57, 46, 97], 2, 1⟩, by simp, rfl, rfl⟩

open LlgoVerif.Face in
/-- **A defined func type is identified with its underlying func type** (pinned tree): for `T` the
    descriptor of `type F func() int` and `V` that of `func() int` (distinct addresses, same `$f`
    type) `MatchesClosure(T, V)` is true.  Replayed natively and end to end
    (findings `matchesclosure:named-func-type`, `e2e:named-func-type-identified-with-underlying`). -/
theorem matchesClosure_named_counterexample :
    matchesClosure false { id := 1, closure := true, field0 := 7, named := true } (some { id := 2, closure := true, field0 := 7 }) = true := by
  decide

open LlgoVerif.Face in
/-- with `fixes/C07-3.diff` the test is the intended one, for ALL descriptors: the same descriptor, or
    two UNNAMED closure types over the same func type -/
theorem matchesClosure_fixed_spec (t v : Desc) :
    matchesClosure true t (some v) = true ↔
      (t.id = v.id ∨ (v.closure = true ∧ t.named = false ∧ v.named = false ∧ t.field0 = v.field0)) := by
  unfold matchesClosure
  by_cases h1 : t.id = v.id
  · simp [h1]
  · cases hc : v.closure <;> cases hn : t.named <;> cases hm : v.named <;> simp [h1, hc, hn, hm]

end LlgoVerif.Types
