import LlgoVerif.Model.LLVM
import LlgoVerif.Model.SoftFloat
/-!
The float instructions of the straight-line LLVM subset llgo emits for Go's float operators and conversions.
A `float` / `double` value is its bit pattern (`V 32` / `V 64`); `none` is poison.  The arithmetic is
`Model/SoftFloat.lean` (default floating-point environment: round to nearest even, no traps).
`fptosi` / `fptoui` give POISON when the truncated value does not fit the result type (LangRef), also for NaN and infinities.
-/
namespace LlgoVerif.LLVM
open LlgoVerif.SoftFloat

/-- format of a float type given by its width -/
abbrev fmtOf (w : Nat) : Fmt := Fmt.ofWidth w

def fbin (op : Fmt → Nat → Nat → Nat) (a b : V w) : V w :=
  match a, b with
  | some x, some y => some (BitVec.ofNat w (op (fmtOf w) x.toNat y.toNat))
  | _, _ => none

def fadd (a b : V w) : V w := fbin SoftFloat.add a b
def fsub (a b : V w) : V w := fbin SoftFloat.sub a b
def fmul (a b : V w) : V w := fbin SoftFloat.mul a b
def fdiv (a b : V w) : V w := fbin SoftFloat.div a b
def fneg (a : V w) : V w := a.map fun x => BitVec.ofNat w (SoftFloat.neg (fmtOf w) x.toNat)

inductive FPred where
  | oeq | one | olt | ole | ogt | oge | ord | ueq | une | ult | ule | ugt | uge | uno
deriving DecidableEq, Repr

def fcmpB (p : FPred) (c : Cmp) : Bool :=
  match p, c with
  | .oeq, .eq => true | .oeq, _ => false
  | .one, .lt => true | .one, .gt => true | .one, _ => false
  | .olt, .lt => true | .olt, _ => false
  | .ole, .lt => true | .ole, .eq => true | .ole, _ => false
  | .ogt, .gt => true | .ogt, _ => false
  | .oge, .gt => true | .oge, .eq => true | .oge, _ => false
  | .ord, .un => false | .ord, _ => true
  | .ueq, .eq => true | .ueq, .un => true | .ueq, _ => false
  | .une, .eq => false | .une, _ => true
  | .ult, .lt => true | .ult, .un => true | .ult, _ => false
  | .ule, .gt => false | .ule, _ => true
  | .ugt, .gt => true | .ugt, .un => true | .ugt, _ => false
  | .uge, .lt => false | .uge, _ => true
  | .uno, .un => true | .uno, _ => false

def fcmp (p : FPred) (a b : V w) : V 1 :=
  match a, b with
  | some x, some y => some (ofBool (fcmpB p (SoftFloat.cmp (fmtOf w) x.toNat y.toNat)))
  | _, _ => none

def sitofp (w' : Nat) (a : V w) : V w' := a.map fun x => BitVec.ofNat w' (SoftFloat.ofInt (fmtOf w') x.toInt)
def uitofp (w' : Nat) (a : V w) : V w' := a.map fun x => BitVec.ofNat w' (SoftFloat.ofInt (fmtOf w') (x.toNat : Int))

def fptoi (signed : Bool) (w' : Nat) (a : V w) : V w' :=
  match a with
  | none => none
  | some x =>
    match SoftFloat.toInt (fmtOf w) x.toNat with
    | none => none
    | some t => if fitsInt signed w' t then some (BitVec.ofInt w' t) else none

def fptosi (w' : Nat) (a : V w) : V w' := fptoi true w' a
def fptoui (w' : Nat) (a : V w) : V w' := fptoi false w' a

def fpconv (w' : Nat) (a : V w) : V w' := a.map fun x => BitVec.ofNat w' (SoftFloat.convert (fmtOf w) (fmtOf w') x.toNat)
def fpext (w' : Nat) (a : V w) : V w' := fpconv w' a
def fptrunc (w' : Nat) (a : V w) : V w' := fpconv w' a

end LlgoVerif.LLVM
