import LlgoVerif.Model.Defer
import LlgoVerif.Spec.DeferSem
/-!
# Lemmas for C04: the replay of one defer frame against Go's LIFO rule

Definitions of the decidable hypotheses (`WF`, `NoNodelessBetweenLoops`, `AllAlwaysExecuted`) and the
invariant proofs used by `Props/C04.lean`.
-/
namespace LlgoVerif.Defer

/-! ## Hypotheses -/

def pushesAt (ss : List Stmt) (k : Nat) : Bool :=
  match ss[k]? with
  | some s => s.pushes
  | none => false

def isCondAt (ss : List Stmt) (k : Nat) : Bool :=
  match ss[k]? with
  | some s => s.isCond
  | none => false

def isAlwaysAt (ss : List Stmt) (k : Nat) : Bool :=
  match ss[k]? with
  | some s => s.kind == .always
  | none => false

def isExtAt (ss : List Stmt) (k : Nat) : Bool :=
  match ss[k]? with
  | some s => s.kind == .ext
  | none => false

/-- every statement in positions `lo..hi` is a loop statement -/
def loopsBetween (ss : List Stmt) (lo hi : Nat) : Bool :=
  (List.range (hi + 1)).all (fun j => decide (j < lo) || isLoopId ss j)

/-- statement `k1` may execute before statement `k2`: either it comes earlier in the function, or both sit
    in one run of loop statements (the only way structured control flow goes backwards) -/
def okPair (ss : List Stmt) (k1 k2 : Nat) : Bool := decide (k1 < k2) || loopsBetween ss k2 k1

/-- **Well-formed history**: the list of executed defer statements (oldest first) can be produced by
    structured control flow over the layout `ss` — statements execute in layout order, and only loop
    statements of one run repeat or interleave. Defers of range-over-func bodies (`ext` entries, which execute
    at the position of their range loop, not at their position in the layout) are outside this notion. -/
def WF {α : Type} (ss : List Stmt) (hist : List (Nat × α)) : Prop :=
  (hist.map (·.1)).Pairwise (fun k1 k2 => okPair ss k1 k2 = true) ∧
    ∀ k ∈ hist.map (·.1), k < ss.length ∧ isExtAt ss k = false

instance {α : Type} (ss : List Stmt) (hist : List (Nat × α)) : Decidable (WF ss hist) := by
  unfold WF; infer_instance

/-- no node-less (`pushes = false`) non-loop statement lies between two loop statements -/
def noNodelessBetweenLoops (ss : List Stmt) : Bool :=
  (List.range ss.length).all fun k => (List.range k).all fun j => (List.range j).all fun i =>
    !(isLoopId ss i && isLoopId ss k) || isLoopId ss j || pushesAt ss j

def NoNodelessBetweenLoops (ss : List Stmt) : Prop := noNodelessBetweenLoops ss = true

instance (ss : List Stmt) : Decidable (NoNodelessBetweenLoops ss) := by
  unfold NoNodelessBetweenLoops; infer_instance

/-- every `always` statement of the layout was executed -/
def allAlwaysExecuted {α : Type} (ss : List Stmt) (hist : List (Nat × α)) : Bool :=
  (List.range ss.length).all fun k => !isAlwaysAt ss k || (hist.map (·.1)).contains k

def AllAlwaysExecuted {α : Type} (ss : List Stmt) (hist : List (Nat × α)) : Prop := allAlwaysExecuted ss hist = true

instance {α : Type} (ss : List Stmt) (hist : List (Nat × α)) : Decidable (AllAlwaysExecuted ss hist) := by
  unfold AllAlwaysExecuted; infer_instance

theorem loopsBetween_spec {ss : List Stmt} {lo hi : Nat} (h : loopsBetween ss lo hi = true) :
    ∀ j, lo ≤ j → j ≤ hi → isLoopId ss j = true := by
  intro j hlo hhi
  unfold loopsBetween at h
  rw [List.all_eq_true] at h
  have := h j (List.mem_range.mpr (by omega))
  simp at this
  rcases this with h1 | h1
  · omega
  · exact h1

theorem okPair_spec {ss : List Stmt} {k1 k2 : Nat} (h : okPair ss k1 k2 = true) :
    k1 < k2 ∨ ∀ j, k2 ≤ j → j ≤ k1 → isLoopId ss j = true := by
  unfold okPair at h
  simp at h
  rcases h with h | h
  · exact Or.inl h
  · exact Or.inr (loopsBetween_spec h)

/-- if the later statement is not a loop statement, the earlier one comes strictly before it -/
theorem okPair_lt_of_nonloop_right {ss : List Stmt} {k1 k2 : Nat} (h : okPair ss k1 k2 = true)
    (hn : isLoopId ss k2 = false) : k1 < k2 := by
  rcases okPair_spec h with h | h
  · exact h
  · by_cases hk : k1 < k2
    · exact hk
    · have := h k2 (Nat.le_refl _) (by omega)
      rw [hn] at this; cases this

/-- if the earlier statement is not a loop statement, it comes strictly before the later one -/
theorem okPair_lt_of_nonloop_left {ss : List Stmt} {k1 k2 : Nat} (h : okPair ss k1 k2 = true)
    (hn : isLoopId ss k1 = false) : k1 < k2 := by
  rcases okPair_spec h with h | h
  · exact h
  · by_cases hk : k1 < k2
    · exact hk
    · have := h k1 (by omega) (Nat.le_refl _)
      rw [hn] at this; cases this

theorem noNodeless_spec {ss : List Stmt} (h : NoNodelessBetweenLoops ss) {i j k : Nat}
    (hij : i < j) (hjk : j < k) (hi : isLoopId ss i = true) (hk : isLoopId ss k = true)
    (hj : isLoopId ss j = false) : pushesAt ss j = true := by
  unfold NoNodelessBetweenLoops noNodelessBetweenLoops at h
  have hklt : k < ss.length := by
    unfold isLoopId at hk
    cases hget : ss[k]? with
    | none => rw [hget] at hk; cases hk
    | some s =>
      have := List.getElem?_eq_some_iff.mp hget
      exact this.1
  rw [List.all_eq_true] at h
  have h1 := h k (List.mem_range.mpr hklt)
  rw [List.all_eq_true] at h1
  have h2 := h1 j (List.mem_range.mpr hjk)
  rw [List.all_eq_true] at h2
  have h3 := h2 i (List.mem_range.mpr hij)
  simp [hi, hk, hj] at h3
  exact h3

theorem allAlways_spec {α : Type} {ss : List Stmt} {hist : List (Nat × α)} (h : AllAlwaysExecuted ss hist)
    {k : Nat} (hk : isAlwaysAt ss k = true) : k ∈ hist.map (·.1) := by
  unfold AllAlwaysExecuted allAlwaysExecuted at h
  have hklt : k < ss.length := by
    unfold isAlwaysAt at hk
    cases hget : ss[k]? with
    | none => rw [hget] at hk; cases hk
    | some s => exact (List.getElem?_eq_some_iff.mp hget).1
  rw [List.all_eq_true] at h
  have := h k (List.mem_range.mpr hklt)
  simp [hk] at this
  obtain ⟨a, ha⟩ := this
  exact List.mem_map.mpr ⟨(k, a), ha, rfl⟩


/-! ## The frame built by the executed defer statements -/

/-- nodes pushed by the entries of `R` (most recent first) -/
def nodesOf {α : Type} (ss : List Stmt) (R : List (Nat × α)) : List (Node α) :=
  R.filterMap fun e => if pushesAt ss e.1 then some ⟨e.1, e.2⟩ else none

theorem execDefer_args {α : Type} (ss : List Stmt) (k : Nat) (v : α) (fr : Frame α) :
    (execDefer ss k v fr).args = nodesOf ss [(k, v)] ++ fr.args := by
  cases h : ss[k]? with
  | none => simp [execDefer, nodesOf, pushesAt, h]
  | some s => cases hp : s.pushes <;> simp [execDefer, nodesOf, pushesAt, h, hp]

theorem frameOf_args_aux {α : Type} (ss : List Stmt) (hist : List (Nat × α)) (fr : Frame α) :
    (hist.foldl (fun fr e => execDefer ss e.1 e.2 fr) fr).args = nodesOf ss hist.reverse ++ fr.args := by
  induction hist generalizing fr with
  | nil => simp [nodesOf]
  | cons e t ih =>
    simp only [List.foldl_cons, List.reverse_cons]
    rw [ih, execDefer_args]
    simp [nodesOf, List.filterMap_append]

theorem frameOf_args {α : Type} (ss : List Stmt) (hist : List (Nat × α)) :
    (frameOf ss hist).args = nodesOf ss hist.reverse := by
  unfold frameOf
  rw [frameOf_args_aux]
  simp [Frame.empty]

theorem execDefer_bits {α : Type} (ss : List Stmt) (k : Nat) (v : α) (fr : Frame α) (b : Nat) :
    (execDefer ss k v fr).bits.testBit b = (fr.bits.testBit b || (isCondAt ss k && decide (bitOf ss k = b))) := by
  unfold execDefer isCondAt
  cases h : ss[k]? with
  | none => simp
  | some s =>
    cases hc : s.isCond
    · simp [hc]
    · simp [hc, Nat.testBit_or, Nat.one_shiftLeft, Nat.testBit_two_pow]

theorem frameOf_bits_aux {α : Type} (ss : List Stmt) (hist : List (Nat × α)) (fr : Frame α) (b : Nat) :
    (hist.foldl (fun fr e => execDefer ss e.1 e.2 fr) fr).bits.testBit b =
      (fr.bits.testBit b || hist.any (fun e => isCondAt ss e.1 && decide (bitOf ss e.1 = b))) := by
  induction hist generalizing fr with
  | nil => simp
  | cons e t ih =>
    simp only [List.foldl_cons, List.any_cons]
    rw [ih, execDefer_bits, Bool.or_assoc]

theorem frameOf_bits {α : Type} (ss : List Stmt) (hist : List (Nat × α)) (b : Nat) :
    (frameOf ss hist).bits.testBit b = hist.any (fun e => isCondAt ss e.1 && decide (bitOf ss e.1 = b)) := by
  unfold frameOf
  rw [frameOf_bits_aux]
  simp [Frame.empty]

/-- `nextBit++`: bit numbers of conditional statements are strictly increasing -/
theorem bitOf_lt {ss : List Stmt} {k1 k2 : Nat} (h : k1 < k2) (hc : isCondAt ss k1 = true) :
    bitOf ss k1 < bitOf ss k2 := by
  unfold bitOf
  induction ss generalizing k1 k2 with
  | nil => simp [isCondAt] at hc
  | cons s t ih =>
    cases k2 with
    | zero => omega
    | succ k2 =>
      cases k1 with
      | zero =>
        simp [isCondAt] at hc
        simp [List.take, hc]
      | succ k1 =>
        have hc' : isCondAt t k1 = true := by simpa [isCondAt] using hc
        have := ih (k1 := k1) (k2 := k2) (by omega) hc'
        simp only [List.take_succ_cons, List.filter_cons]
        split <;> simp <;> omega

theorem bitOf_inj {ss : List Stmt} {k1 k2 : Nat} (h1 : isCondAt ss k1 = true) (h2 : isCondAt ss k2 = true)
    (h : bitOf ss k1 = bitOf ss k2) : k1 = k2 := by
  rcases Nat.lt_trichotomy k1 k2 with hlt | heq | hgt
  · have := bitOf_lt hlt h1; omega
  · exact heq
  · have := bitOf_lt hgt h2; omega

/-- the bit of a conditional statement is set exactly when the statement was executed -/
theorem frameOf_bit_iff {α : Type} (ss : List Stmt) (hist : List (Nat × α)) {k : Nat} (hk : isCondAt ss k = true) :
    (frameOf ss hist).bits.testBit (bitOf ss k) = true ↔ k ∈ hist.map (·.1) := by
  rw [frameOf_bits, List.any_eq_true]
  constructor
  · rintro ⟨e, he, hx⟩
    simp at hx
    have := bitOf_inj hx.1 hk hx.2
    exact List.mem_map.mpr ⟨e, he, this⟩
  · intro hm
    obtain ⟨e, he, rfl⟩ := List.mem_map.mp hm
    exact ⟨e, he, by simp [hk]⟩

/-! ## The order in which `endDefer` visits the statements -/

theorem indexed_append (i : Nat) (l : List Stmt) (s : Stmt) :
    indexed i (l ++ [s]) = indexed i l ++ [(i + l.length, s)] := by
  induction l generalizing i with
  | nil => simp [indexed]
  | cons a t ih =>
    simp only [List.cons_append, indexed, ih, List.length_cons]
    congr 2
    simp; omega

theorem slots_take_succ (ss : List Stmt) (k : Nat) (s : Stmt) (h : ss[k]? = some s) :
    slots (ss.take (k + 1)) = (k, s) :: slots (ss.take k) := by
  have hk : k < ss.length := (List.getElem?_eq_some_iff.mp h).1
  unfold slots
  rw [List.take_add_one, h]
  simp only [Option.toList]
  rw [indexed_append]
  simp [List.length_take, Nat.min_eq_left (Nat.le_of_lt hk)]

theorem slots_full (ss : List Stmt) : slots ss = slots (ss.take ss.length) := by simp


/-! ## Replay of a frame = LIFO unwinding, under the hypotheses -/

section refine
variable {α σ ε : Type}

/-- what the property observes of a replay -/
def view (r : U α σ × Fin ε) : σ × List (Call α) × Option ε := (r.1.st, r.1.log.reverse, r.2.esc)

/-- `R` lists executed defer statements, most recent first, in an order structured control flow allows -/
def Desc (ss : List Stmt) (R : List (Nat × α)) : Prop :=
  R.Pairwise (fun later earlier => okPair ss earlier.1 later.1 = true)

def headNonLoop (ss : List Stmt) : List (Nat × α) → Prop
  | [] => True
  | e :: _ => isLoopId ss e.1 = false

theorem pushesAt_of_loop {ss : List Stmt} {k : Nat} (h : isLoopId ss k = true) : pushesAt ss k = true := by
  unfold isLoopId at h
  unfold pushesAt
  cases hg : ss[k]? with
  | none => rw [hg] at h; cases h
  | some s =>
    rw [hg] at h
    simp [Stmt.isLoop] at h
    simp [Stmt.pushes, h]

theorem callOf_eq (ss : List Stmt) (e : Nat × α) :
    Spec.callOf ss e = if pushesAt ss e.1 then ⟨e.1, some ⟨e.1, e.2⟩⟩ else ⟨e.1, none⟩ := by
  unfold Spec.callOf pushesAt
  cases ss[e.1]? <;> simp

theorem nodesOf_cons_push {ss : List Stmt} {e : Nat × α} {R : List (Nat × α)} (h : pushesAt ss e.1 = true) :
    nodesOf ss (e :: R) = ⟨e.1, e.2⟩ :: nodesOf ss R := by
  simp [nodesOf, h]

theorem nodesOf_cons_nopush {ss : List Stmt} {e : Nat × α} {R : List (Nat × α)} (h : pushesAt ss e.1 = false) :
    nodesOf ss (e :: R) = nodesOf ss R := by
  simp [nodesOf, h]

/-- the drain loop does nothing when the top node (if any) is not a loop node -/
theorem drain_stop (ss : List Stmt) (exec : Call α → σ → Out ε × σ) (l : List (Node α)) (st : σ)
    (log : List (Call α)) (re : Bool) (h : ∀ nd ∈ l.head?, isLoopId ss nd.id = false) :
    drain ss exec l st log re = (⟨l, st, log, re⟩, none) := by
  cases l with
  | nil => simp [drain]
  | cons nd rest =>
    have := h nd (by simp)
    simp [drain, this]

theorem nodesOf_head_nonloop {ss : List Stmt} {R : List (Nat × α)} (h : ∀ e ∈ R, isLoopId ss e.1 = false) :
    ∀ nd ∈ (nodesOf ss R).head?, isLoopId ss nd.id = false := by
  intro nd hnd
  have hmem : nd ∈ nodesOf ss R := List.mem_of_mem_head? hnd
  unfold nodesOf at hmem
  rw [List.mem_filterMap] at hmem
  obtain ⟨e, he, hx⟩ := hmem
  by_cases hp : pushesAt ss e.1 = true
  · simp [hp] at hx
    rw [← hx]
    exact h e he
  · simp [hp] at hx

theorem drain_spec (ss : List Stmt) (exec : Call α → σ → Out ε × σ) (hN : NoNodelessBetweenLoops ss)
    (K : Nat) (hK : isLoopId ss K = true) :
    ∀ (R : List (Nat × α)) (st : σ) (log : List (Call α)) (re : Bool), Desc ss R → (∀ e ∈ R, e.1 ≤ K) →
      (∃ x, (drain ss exec (nodesOf ss R) st log re).2 = some x ∧
          Spec.unwind ss exec R st log =
            ((drain ss exec (nodesOf ss R) st log re).1.st, (drain ss exec (nodesOf ss R) st log re).1.log.reverse, some x)) ∨
      ((drain ss exec (nodesOf ss R) st log re).2 = none ∧
        ∃ R' : List (Nat × α), (drain ss exec (nodesOf ss R) st log re).1.args = nodesOf ss R' ∧
          Spec.unwind ss exec R st log =
            Spec.unwind ss exec R' (drain ss exec (nodesOf ss R) st log re).1.st (drain ss exec (nodesOf ss R) st log re).1.log ∧
          headNonLoop ss R' ∧ R' <:+ R ∧
          (∀ k, isLoopId ss k = false → (k ∈ R.map (·.1) ↔ k ∈ R'.map (·.1)))) := by
  intro R
  induction R with
  | nil =>
    intro st log re _ _
    right
    refine ⟨by simp [nodesOf, drain], [], by simp [nodesOf, drain], by simp [nodesOf, drain], trivial, List.suffix_refl _, by simp⟩
  | cons e R1 ih =>
    intro st log re hD hB
    have hD1 : Desc ss R1 := (List.pairwise_cons.mp hD).2
    have hB1 : ∀ e' ∈ R1, e'.1 ≤ K := fun e' he' => hB e' (List.mem_cons_of_mem _ he')
    by_cases hl : isLoopId ss e.1 = true
    · -- a loop entry: the drain loop pops and calls it, exactly as the LIFO rule does
      have hp := pushesAt_of_loop hl
      rw [nodesOf_cons_push hp]
      have hc : Spec.callOf ss e = ⟨e.1, some ⟨e.1, e.2⟩⟩ := by rw [callOf_eq]; simp [hp]
      simp only [drain, hl, if_true, Spec.unwind, hc]
      cases hex : exec ⟨e.1, some ⟨e.1, e.2⟩⟩ st with
      | mk o st' =>
        cases o with
        | escaped x =>
          left
          exact ⟨x, rfl, rfl⟩
        | ok =>
          simp only []
          rcases ih st' (⟨e.1, some ⟨e.1, e.2⟩⟩ :: log) re hD1 hB1 with ⟨x, h1, h2⟩ | ⟨h1, R', h2, h3, h4, h5, h6⟩
          · left; exact ⟨x, h1, h2⟩
          · right
            refine ⟨h1, R', h2, h3, h4, List.IsSuffix.trans h5 (List.suffix_cons _ _), ?_⟩
            intro k hk
            rw [← h6 k hk]
            simp only [List.map_cons, List.mem_cons]
            constructor
            · rintro (h | h)
              · rw [h] at hk; rw [hk] at hl; cases hl
              · exact h
            · exact Or.inr
        | landed =>
          simp only []
          rcases ih st' (⟨e.1, some ⟨e.1, e.2⟩⟩ :: log) true hD1 hB1 with ⟨x, h1, h2⟩ | ⟨h1, R', h2, h3, h4, h5, h6⟩
          · left; exact ⟨x, h1, h2⟩
          · right
            refine ⟨h1, R', h2, h3, h4, List.IsSuffix.trans h5 (List.suffix_cons _ _), ?_⟩
            intro k hk
            rw [← h6 k hk]
            simp only [List.map_cons, List.mem_cons]
            constructor
            · rintro (h | h)
              · rw [h] at hk; rw [hk] at hl; cases hl
              · exact h
            · exact Or.inr
    · -- a non-loop entry: the drain loop must stop here
      have hl' : isLoopId ss e.1 = false := by simpa using hl
      have hstop : ∀ nd ∈ (nodesOf ss (e :: R1)).head?, isLoopId ss nd.id = false := by
        by_cases hp : pushesAt ss e.1 = true
        · rw [nodesOf_cons_push hp]; intro nd hnd; simp at hnd; rw [← hnd]; exact hl'
        · have hp' : pushesAt ss e.1 = false := by simpa using hp
          rw [nodesOf_cons_nopush hp']
          apply nodesOf_head_nonloop
          intro e' he'
          -- a loop entry below a node-less non-loop entry below loop statement K contradicts the hypothesis
          have hok : okPair ss e'.1 e.1 = true := (List.pairwise_cons.mp hD).1 e' he'
          have hlt : e'.1 < e.1 := okPair_lt_of_nonloop_right hok hl'
          have hle : e.1 ≤ K := hB e (by simp)
          have hne : e.1 ≠ K := by intro h; rw [h] at hl'; rw [hl'] at hK; cases hK
          cases hq : isLoopId ss e'.1 with
          | false => rfl
          | true =>
            have := noNodeless_spec hN hlt (by omega : e.1 < K) hq hK hl'
            rw [hp'] at this; cases this
      rw [drain_stop ss exec _ st log re hstop]
      right
      exact ⟨rfl, e :: R1, rfl, rfl, hl', List.suffix_refl _, fun _ _ => Iff.rfl⟩

theorem callDefer_spec (ss : List Stmt) (exec : Call α → σ → Out ε × σ) {k : Nat} {s : Stmt}
    (hs : ss[k]? = some s) (v : α) (R1 : List (Nat × α)) (st : σ) (log : List (Call α)) (re : Bool) :
    callDefer exec k s ⟨nodesOf ss ((k, v) :: R1), st, log, re⟩ =
      (⟨nodesOf ss R1, (exec (Spec.callOf ss (k, v)) st).2, Spec.callOf ss (k, v) :: log, re⟩,
        some (exec (Spec.callOf ss (k, v)) st).1) := by
  have hpa : pushesAt ss k = s.pushes := by simp [pushesAt, hs]
  cases hp : s.pushes with
  | true =>
    have h1 : pushesAt ss ((k, v) : Nat × α).1 = true := by simp [hpa, hp]
    rw [nodesOf_cons_push h1, callOf_eq]
    simp [callDefer, hp, hpa]
  | false =>
    have h1 : pushesAt ss ((k, v) : Nat × α).1 = false := by simp [hpa, hp]
    rw [nodesOf_cons_nopush h1, callOf_eq]
    simp [callDefer, hp, hpa]

theorem afterCall_spec (ss : List Stmt) (exec : Call α → σ → Out ε × σ) {k : Nat} {s : Stmt}
    (hs : ss[k]? = some s) (v : α) (R1 : List (Nat × α)) (st : σ) (log : List (Call α)) (re : Bool)
    (last : Bool) (cont : U α σ → U α σ × Fin ε)
    (hcont : ∀ st' log' re', view (cont ⟨nodesOf ss R1, st', log', re'⟩) = Spec.unwind ss exec R1 st' log')
    (hlast : last = true → R1 = []) :
    view (afterCall last cont (callDefer exec k s ⟨nodesOf ss ((k, v) :: R1), st, log, re⟩)) =
      Spec.unwind ss exec ((k, v) :: R1) st log := by
  rw [callDefer_spec ss exec hs]
  simp only [Spec.unwind]
  cases hex : exec (Spec.callOf ss (k, v)) st with
  | mk o st' =>
    cases o with
    | ok => simp only [afterCall]; exact hcont _ _ _
    | escaped x => simp [afterCall, view, Fin.esc]
    | landed =>
      simp only [afterCall]
      cases last with
      | false => simp only [Bool.false_eq_true, if_false]; exact hcont _ _ _
      | true =>
        have := hlast rfl
        subst this
        simp [view, Fin.esc, Spec.unwind]

theorem bound_of_headNonLoop {ss : List Stmt} {R : List (Nat × α)} {k : Nat} (hD : Desc ss R)
    (hH : headNonLoop ss R) (hB : ∀ e ∈ R, e.1 < k + 1) (hk : isLoopId ss k = true) : ∀ e ∈ R, e.1 < k := by
  cases R with
  | nil => intro e he; cases he
  | cons e0 R1 =>
    have h0 : isLoopId ss e0.1 = false := hH
    have hlt0 : e0.1 < k := by
      have := hB e0 (by simp)
      have hne : e0.1 ≠ k := by intro h; rw [h] at h0; rw [h0] at hk; cases hk
      omega
    intro e he
    rcases List.mem_cons.mp he with rfl | he1
    · exact hlt0
    · have hok : okPair ss e.1 e0.1 = true := (List.pairwise_cons.mp hD).1 e he1
      have := okPair_lt_of_nonloop_right hok h0
      omega

/-- an executed non-loop statement below the bound is the most recent remaining entry -/
theorem head_of_mem {ss : List Stmt} {R : List (Nat × α)} {k : Nat} (hD : Desc ss R)
    (hB : ∀ e ∈ R, e.1 < k + 1) (hk : isLoopId ss k = false) (hm : k ∈ R.map (·.1)) :
    ∃ v R1, R = (k, v) :: R1 ∧ ∀ e ∈ R1, e.1 < k := by
  cases R with
  | nil => simp at hm
  | cons e0 R1 =>
    have hpw := List.pairwise_cons.mp hD
    have h0 : e0.1 = k := by
      by_cases h : e0.1 = k
      · exact h
      · exfalso
        simp only [List.map_cons, List.mem_cons] at hm
        rcases hm with hm | hm
        · exact h hm.symm
        · obtain ⟨e', he', hek⟩ := List.mem_map.mp hm
          have hok : okPair ss e'.1 e0.1 = true := hpw.1 e' he'
          rw [hek] at hok
          have := okPair_lt_of_nonloop_left hok hk
          have := hB e0 (by simp)
          omega
    refine ⟨e0.2, R1, ?_, ?_⟩
    · rw [← h0]
    · intro e he
      have hok : okPair ss e.1 e0.1 = true := hpw.1 e he
      rw [h0] at hok
      exact okPair_lt_of_nonloop_right hok hk

theorem slots_isEmpty_take {ss : List Stmt} {k : Nat} (hk : k < ss.length) :
    (slots (ss.take k)).isEmpty = true → k = 0 := by
  intro h
  unfold slots at h
  cases k with
  | zero => rfl
  | succ k =>
    exfalso
    cases ss with
    | nil => simp at hk
    | cons a t => simp [indexed] at h

theorem isLoopId_of_kind {ss : List Stmt} {k : Nat} {s : Stmt} (hs : ss[k]? = some s) :
    isLoopId ss k = (s.kind == .loop || s.kind == .ext) := by simp [isLoopId, hs, Stmt.isLoop]

theorem replay_spec (ss : List Stmt) (exec : Call α → σ → Out ε × σ) (bits : Nat)
    (hN : NoNodelessBetweenLoops ss) :
    ∀ (m : Nat), m ≤ ss.length → ∀ (R : List (Nat × α)) (g : Bool) (st : σ) (log : List (Call α)) (re : Bool),
      Desc ss R → (∀ e ∈ R, e.1 < m) → (∀ e ∈ R, isExtAt ss e.1 = false) → (g = true → headNonLoop ss R) →
      (∀ k, k < m → isAlwaysAt ss k = true → k ∈ R.map (·.1)) →
      (∀ k, k < m → isCondAt ss k = true → (bits.testBit (bitOf ss k) = true ↔ k ∈ R.map (·.1))) →
      view (replay ss exec bits (slots (ss.take m)) g ⟨nodesOf ss R, st, log, re⟩) = Spec.unwind ss exec R st log := by
  intro m
  induction m with
  | zero =>
    intro _ R g st log re _ hB _ _ _ _
    have : R = [] := by
      cases R with
      | nil => rfl
      | cons e t => have := hB e (by simp); omega
    subst this
    simp [slots, indexed, replay, view, Fin.esc, Spec.unwind, nodesOf]
  | succ k ih =>
    intro hm R g st log re hD hB hX hG hA hC
    have hk : k < ss.length := by omega
    obtain ⟨s, hs⟩ : ∃ s, ss[k]? = some s := ⟨ss[k], List.getElem?_eq_getElem hk⟩
    rw [slots_take_succ ss k s hs]
    have ihk := ih (by omega)
    -- common part: statement k is not a loop statement and was executed
    have called : isLoopId ss k = false → k ∈ R.map (·.1) →
        view (afterCall (slots (ss.take k)).isEmpty (replay ss exec bits (slots (ss.take k)) false)
          (callDefer exec k s ⟨nodesOf ss R, st, log, re⟩)) = Spec.unwind ss exec R st log := by
      intro hnl hmem
      obtain ⟨v, R1, hR, hB1⟩ := head_of_mem hD hB hnl hmem
      subst hR
      apply afterCall_spec ss exec hs
      · intro st' log' re'
        apply ihk R1 false st' log' re' (List.pairwise_cons.mp hD).2 hB1
          (fun e he => hX e (List.mem_cons_of_mem _ he)) (by intro h; cases h)
        · intro k' hk' ha
          have := hA k' (by omega) ha
          simp only [List.map_cons, List.mem_cons] at this
          rcases this with h | h
          · omega
          · exact h
        · intro k' hk' hc
          rw [hC k' (by omega) hc]
          simp only [List.map_cons, List.mem_cons]
          constructor
          · rintro (h | h)
            · omega
            · exact h
          · exact Or.inr
      · intro hl
        have := slots_isEmpty_take hk hl
        subst this
        cases R1 with
        | nil => rfl
        | cons e t => have := hB1 e (by simp); omega
    have hloopk := isLoopId_of_kind hs
    cases hkind : s.kind with
    | loop =>
      have hlk : isLoopId ss k = true := by rw [hloopk, hkind]; rfl
      simp only [replay, hkind]
      cases g with
      | true =>
        simp only [if_true]
        have hB' := bound_of_headNonLoop hD (hG rfl) hB hlk
        exact ihk R true st log re hD hB' hX hG (fun k' hk' => hA k' (by omega)) (fun k' hk' => hC k' (by omega))
      | false =>
        simp only [Bool.false_eq_true, if_false]
        rcases drain_spec ss exec hN k hlk R st log re hD (fun e he => by have := hB e he; omega) with
          ⟨x, h1, h2⟩ | ⟨h1, R', h2, h3, h4, h5, h6⟩
        · -- control left the frame inside the drain loop
          generalize hd : drain ss exec (nodesOf ss R) st log re = d at h1 h2
          obtain ⟨u', o⟩ := d
          simp only at h1
          subst h1
          simp only [view, Fin.esc]
          exact h2.symm
        · generalize hd : drain ss exec (nodesOf ss R) st log re = d at h1 h2 h3
          obtain ⟨u', o⟩ := d
          simp only at h1 h2 h3
          subst h1
          simp only []
          obtain ⟨a', st', log', re'⟩ := u'
          simp only at h2 h3
          subst h2
          rw [h3]
          have hD' : Desc ss R' := List.Pairwise.sublist h5.sublist hD
          have hBR' : ∀ e ∈ R', e.1 < k + 1 := fun e he => hB e (h5.subset he)
          have hB' := bound_of_headNonLoop hD' h4 hBR' hlk
          apply ihk R' true st' log' re' hD' hB' (fun e he => hX e (h5.subset he)) (fun _ => h4)
          · intro k' hk' ha
            have hnl : isLoopId ss k' = false := by
              unfold isAlwaysAt at ha; unfold isLoopId
              cases hq : ss[k']? with
              | none => rfl
              | some q => rw [hq] at ha; simp at ha; simp [Stmt.isLoop, ha]
            exact (h6 k' hnl).mp (hA k' (by omega) ha)
          · intro k' hk' hc
            have hnl : isLoopId ss k' = false := by
              unfold isCondAt at hc; unfold isLoopId
              cases hq : ss[k']? with
              | none => rfl
              | some q => rw [hq] at hc; simp [Stmt.isCond] at hc; simp [Stmt.isLoop, hc]
            rw [hC k' (by omega) hc]
            exact h6 k' hnl
    | cond =>
      have hnl : isLoopId ss k = false := by rw [hloopk, hkind]; rfl
      have hck : isCondAt ss k = true := by simp [isCondAt, hs, Stmt.isCond, hkind]
      simp only [replay, hkind]
      by_cases hmem : k ∈ R.map (·.1)
      · have hb : bits.testBit (bitOf ss k) = true := (hC k (by omega) hck).mpr hmem
        simp only [hb, if_true]
        exact called hnl hmem
      · have hb : bits.testBit (bitOf ss k) = false := by
          cases hq : bits.testBit (bitOf ss k) with
          | false => rfl
          | true => exact absurd ((hC k (by omega) hck).mp hq) hmem
        simp only [hb, Bool.false_eq_true, if_false]
        apply ihk R false st log re hD _ hX (by intro h; cases h) (fun k' hk' => hA k' (by omega)) (fun k' hk' => hC k' (by omega))
        intro e he
        have h1 := hB e he
        have h2 : e.1 ≠ k := by
          intro h; apply hmem; exact List.mem_map.mpr ⟨e, he, h⟩
        omega
    | always =>
      have hnl : isLoopId ss k = false := by rw [hloopk, hkind]; rfl
      have hak : isAlwaysAt ss k = true := by simp [isAlwaysAt, hs, hkind]
      simp only [replay, hkind]
      exact called hnl (hA k (by omega) hak)
    | ext =>
      -- not a replay statement; by hypothesis it was never executed, so nothing of it is on the list
      simp only [replay, hkind]
      have hxk : isExtAt ss k = true := by simp [isExtAt, hs, hkind]
      apply ihk R g st log re hD _ hX hG (fun k' hk' => hA k' (by omega)) (fun k' hk' => hC k' (by omega))
      intro e he
      have h1 := hB e he
      have h2 : e.1 ≠ k := by
        intro h
        have := hX e he
        rw [h, hxk] at this
        cases this
      omega

end refine


/-! ## Unconditional facts about the replay (every layout, every frame state, every behaviour of the calls) -/

section uncond
variable {α σ ε : Type}

/-- nodes handed to deferred calls, in the order they were popped -/
def popped (log : List (Call α)) : List (Node α) := log.reverse.filterMap (·.node)

theorem popped_cons (c : Call α) (log : List (Call α)) : popped (c :: log) = popped log ++ c.node.toList := by
  unfold popped
  cases h : c.node <;> simp [List.filterMap_append, h]

theorem drain_popped (ss : List Stmt) (exec : Call α → σ → Out ε × σ) :
    ∀ (l : List (Node α)) (st : σ) (log : List (Call α)) (re : Bool),
      popped (drain ss exec l st log re).1.log ++ (drain ss exec l st log re).1.args = popped log ++ l := by
  intro l
  induction l with
  | nil => intro st log re; simp [drain]
  | cons nd rest ih =>
    intro st log re
    simp only [drain]
    split
    · cases hex : exec ⟨nd.id, some nd⟩ st with
      | mk o st' =>
        cases o with
        | ok => simp only []; rw [ih, popped_cons]; simp
        | landed => simp only []; rw [ih, popped_cons]; simp
        | escaped x => simp only []; rw [popped_cons]; simp
    · rfl

theorem callDefer_popped (exec : Call α → σ → Out ε × σ) (k : Nat) (s : Stmt) (u : U α σ) :
    popped (callDefer exec k s u).1.log ++ (callDefer exec k s u).1.args = popped u.log ++ u.args := by
  unfold callDefer
  cases hp : s.pushes with
  | true =>
    simp only [if_true]
    cases ha : u.args with
    | nil => simp [ha]
    | cons nd rest => simp [popped_cons]
  | false => simp [popped_cons]

theorem afterCall_popped (last : Bool) (cont : U α σ → U α σ × Fin ε)
    (hcont : ∀ u, popped (cont u).1.log ++ (cont u).1.args = popped u.log ++ u.args)
    (p : U α σ × Option (Out ε)) :
    popped (afterCall last cont p).1.log ++ (afterCall last cont p).1.args = popped p.1.log ++ p.1.args := by
  obtain ⟨u', o⟩ := p
  cases o with
  | none => simp only [afterCall]; exact hcont u'
  | some o =>
    cases o with
    | ok => simp only [afterCall]; exact hcont u'
    | escaped x => simp [afterCall]
    | landed =>
      simp only [afterCall]
      cases last with
      | true => simp
      | false => simp only [Bool.false_eq_true, if_false]; rw [hcont]

/-- **Invariant of the replay**: nodes already handed to calls, followed by the nodes still on the list, is
    always the original list — no node is skipped, duplicated, invented or reordered. -/
theorem replay_popped (ss : List Stmt) (exec : Call α → σ → Out ε × σ) (bits : Nat) :
    ∀ (rs : List (Nat × Stmt)) (g : Bool) (u : U α σ),
      popped (replay ss exec bits rs g u).1.log ++ (replay ss exec bits rs g u).1.args = popped u.log ++ u.args := by
  intro rs
  induction rs with
  | nil => intro g u; simp [replay]
  | cons p rest ih =>
    intro g u
    obtain ⟨k, s⟩ := p
    simp only [replay]
    cases hkind : s.kind with
    | loop =>
      simp only []
      cases g with
      | true => simp only [if_true]; exact ih true u
      | false =>
        simp only [Bool.false_eq_true, if_false]
        have hd := drain_popped ss exec u.args u.st u.log u.rethrow
        generalize drain ss exec u.args u.st u.log u.rethrow = d at hd
        obtain ⟨u', o⟩ := d
        cases o with
        | none => simp only []; rw [ih]; exact hd
        | some x => exact hd
    | cond =>
      simp only []
      split
      · rw [afterCall_popped _ _ (ih false), callDefer_popped]
      · exact ih false u
    | always =>
      simp only []
      rw [afterCall_popped _ _ (ih false), callDefer_popped]
    | ext => simp only []; exact ih g u

/-- number of node-less calls of statement `k` in a log -/
def nodelessCalls (k : Nat) (log : List (Call α)) : Nat :=
  (log.filter fun c => c.stmt == k && c.node.isNone).length

theorem drain_nodeless (ss : List Stmt) (exec : Call α → σ → Out ε × σ) (k : Nat) :
    ∀ (l : List (Node α)) (st : σ) (log : List (Call α)) (re : Bool),
      nodelessCalls k (drain ss exec l st log re).1.log = nodelessCalls k log := by
  intro l
  induction l with
  | nil => intro st log re; simp [drain]
  | cons nd rest ih =>
    intro st log re
    simp only [drain]
    split
    · cases hex : exec ⟨nd.id, some nd⟩ st with
      | mk o st' =>
        cases o with
        | ok => simp only []; rw [ih]; simp [nodelessCalls]
        | landed => simp only []; rw [ih]; simp [nodelessCalls]
        | escaped x => simp [nodelessCalls]
    · rfl

theorem callDefer_nodeless (exec : Call α → σ → Out ε × σ) (i : Nat) (s : Stmt) (u : U α σ) (k : Nat) :
    nodelessCalls k (callDefer exec i s u).1.log ≤ nodelessCalls k u.log + (if i == k then 1 else 0) := by
  unfold callDefer
  cases hp : s.pushes with
  | true =>
    simp only [if_true]
    cases ha : u.args with
    | nil => simp
    | cons nd rest => simp [nodelessCalls]
  | false =>
    simp only [Bool.false_eq_true, if_false, nodelessCalls, List.filter_cons]
    by_cases h : i = k
    · simp [h]
    · have : (i == k) = false := by simpa using h
      simp [this]

theorem afterCall_nodeless (last : Bool) (cont : U α σ → U α σ × Fin ε) (k n : Nat)
    (hcont : ∀ u, nodelessCalls k (cont u).1.log ≤ nodelessCalls k u.log + n)
    (p : U α σ × Option (Out ε)) :
    nodelessCalls k (afterCall last cont p).1.log ≤ nodelessCalls k p.1.log + n := by
  obtain ⟨u', o⟩ := p
  cases o with
  | none => simp only [afterCall]; exact hcont u'
  | some o =>
    cases o with
    | ok => simp only [afterCall]; exact hcont u'
    | escaped x => simp [afterCall]
    | landed =>
      simp only [afterCall]
      cases last with
      | true => simp
      | false => simp only [Bool.false_eq_true, if_false]; exact hcont _

theorem replay_nodeless (ss : List Stmt) (exec : Call α → σ → Out ε × σ) (bits : Nat) (k : Nat) :
    ∀ (rs : List (Nat × Stmt)) (g : Bool) (u : U α σ),
      nodelessCalls k (replay ss exec bits rs g u).1.log ≤
        nodelessCalls k u.log + (rs.filter fun p => p.1 == k).length := by
  intro rs
  induction rs with
  | nil => intro g u; simp [replay]
  | cons p rest ih =>
    intro g u
    obtain ⟨i, s⟩ := p
    have hlen : ((((i, s) :: rest).filter fun p => p.1 == k).length) =
        (if i == k then 1 else 0) + (rest.filter fun p => p.1 == k).length := by
      simp only [List.filter_cons]
      split <;> simp <;> omega
    rw [hlen]
    simp only [replay]
    cases hkind : s.kind with
    | loop =>
      simp only []
      cases g with
      | true => simp only [if_true]; have := ih true u; omega
      | false =>
        simp only [Bool.false_eq_true, if_false]
        have hd := drain_nodeless ss exec k u.args u.st u.log u.rethrow
        generalize drain ss exec u.args u.st u.log u.rethrow = d at hd
        obtain ⟨u', o⟩ := d
        cases o with
        | none => simp only [] at hd ⊢; have := ih true u'; omega
        | some x => simp only [] at hd ⊢; omega
    | cond =>
      simp only []
      split
      · have h1 := afterCall_nodeless rest.isEmpty (replay ss exec bits rest false) k _ (ih false) (callDefer exec i s u)
        have h2 := callDefer_nodeless exec i s u k
        omega
      · have := ih false u; omega
    | always =>
      simp only []
      have h1 := afterCall_nodeless rest.isEmpty (replay ss exec bits rest false) k _ (ih false) (callDefer exec i s u)
      have h2 := callDefer_nodeless exec i s u k
      omega
    | ext => simp only []; have := ih g u; omega

theorem indexed_filter_le (k : Nat) : ∀ (l : List Stmt) (i : Nat),
    ((indexed i l).filter fun p => p.1 == k).length ≤ 1 ∧
    (k < i → ((indexed i l).filter fun p => p.1 == k).length = 0) := by
  intro l
  induction l with
  | nil => intro i; simp [indexed]
  | cons a t ih =>
    intro i
    have h := ih (i + 1)
    simp only [indexed, List.filter_cons]
    by_cases hik : i = k
    · subst hik
      have h0 := h.2 (by omega)
      simp [h0]
    · have : (i == k) = false := by simpa using hik
      simp only [this, Bool.false_eq_true, if_false]
      refine ⟨h.1, ?_⟩
      intro hlt
      exact h.2 (by omega)

theorem slots_filter_le (ss : List Stmt) (k : Nat) : ((slots ss).filter fun p => p.1 == k).length ≤ 1 := by
  unfold slots
  rw [List.filter_reverse, List.length_reverse]
  exact (indexed_filter_le k ss 0).1

theorem mem_indexed {l : List Stmt} {i : Nat} {p : Nat × Stmt} (h : p ∈ indexed i l) :
    i ≤ p.1 ∧ l[p.1 - i]? = some p.2 := by
  induction l generalizing i with
  | nil => simp [indexed] at h
  | cons a t ih =>
    simp only [indexed, List.mem_cons] at h
    rcases h with h | h
    · subst h; simp
    · have := ih h
      refine ⟨by omega, ?_⟩
      have h2 : p.1 - i = (p.1 - (i + 1)) + 1 := by omega
      rw [h2]
      simpa using this.2

theorem mem_slots {ss : List Stmt} {p : Nat × Stmt} (h : p ∈ slots ss) : ss[p.1]? = some p.2 := by
  unfold slots at h
  have := mem_indexed (List.mem_reverse.mp h)
  simpa using this.2

theorem drain_stmts (ss : List Stmt) (exec : Call α → σ → Out ε × σ) :
    ∀ (l : List (Node α)) (st : σ) (log : List (Call α)) (re : Bool),
      ∀ c ∈ (drain ss exec l st log re).1.log, c ∈ log ∨ isLoopId ss c.stmt = true := by
  intro l
  induction l with
  | nil => intro st log re c hc; simp [drain] at hc; exact Or.inl hc
  | cons nd rest ih =>
    intro st log re c hc
    simp only [drain] at hc
    split at hc
    · rename_i hl
      cases hex : exec ⟨nd.id, some nd⟩ st with
      | mk o st' =>
        rw [hex] at hc
        cases o with
        | ok =>
          simp only [] at hc
          rcases ih _ _ _ c hc with h | h
          · rcases List.mem_cons.mp h with h | h
            · right; rw [h]; exact hl
            · left; exact h
          · right; exact h
        | landed =>
          simp only [] at hc
          rcases ih _ _ _ c hc with h | h
          · rcases List.mem_cons.mp h with h | h
            · right; rw [h]; exact hl
            · left; exact h
          · right; exact h
        | escaped x =>
          simp only [] at hc
          rcases List.mem_cons.mp hc with h | h
          · right; rw [h]; exact hl
          · left; exact h
    · left; exact hc

theorem callDefer_stmts (exec : Call α → σ → Out ε × σ) (i : Nat) (s : Stmt) (u : U α σ) :
    ∀ c ∈ (callDefer exec i s u).1.log, c ∈ u.log ∨ c.stmt = i := by
  intro c hc
  unfold callDefer at hc
  cases hp : s.pushes with
  | true =>
    rw [hp] at hc
    simp only [if_true] at hc
    cases ha : u.args with
    | nil => rw [ha] at hc; left; exact hc
    | cons nd rest =>
      rw [ha] at hc
      simp only [] at hc
      rcases List.mem_cons.mp hc with h | h
      · right; rw [h]
      · left; exact h
  | false =>
    rw [hp] at hc
    simp only [Bool.false_eq_true, if_false] at hc
    rcases List.mem_cons.mp hc with h | h
    · right; rw [h]
    · left; exact h

theorem afterCall_stmts (last : Bool) (cont : U α σ → U α σ × Fin ε) (P : Call α → Prop)
    (hcont : ∀ u, ∀ c ∈ (cont u).1.log, c ∈ u.log ∨ P c) (p : U α σ × Option (Out ε)) :
    ∀ c ∈ (afterCall last cont p).1.log, c ∈ p.1.log ∨ P c := by
  obtain ⟨u', o⟩ := p
  cases o with
  | none => simp only [afterCall]; exact hcont u'
  | some o =>
    cases o with
    | ok => simp only [afterCall]; exact hcont u'
    | escaped x => intro c hc; left; simpa [afterCall] using hc
    | landed =>
      simp only [afterCall]
      cases last with
      | true => intro c hc; left; simpa using hc
      | false => simp only [Bool.false_eq_true, if_false]; exact hcont _

/-- a conditional statement whose bit is clear is never called by the replay -/
theorem replay_cond_clear (ss : List Stmt) (exec : Call α → σ → Out ε × σ) (bits : Nat) {k : Nat}
    (hk : isCondAt ss k = true) (hb : bits.testBit (bitOf ss k) = false) :
    ∀ (rs : List (Nat × Stmt)) (g : Bool) (u : U α σ), (∀ p ∈ rs, ss[p.1]? = some p.2) →
      ∀ c ∈ (replay ss exec bits rs g u).1.log, c ∈ u.log ∨ c.stmt ≠ k := by
  have hnl : isLoopId ss k = false := by
    unfold isCondAt at hk; unfold isLoopId
    cases hq : ss[k]? with
    | none => rfl
    | some q => rw [hq] at hk; simp [Stmt.isCond] at hk; simp [Stmt.isLoop, hk]
  intro rs
  induction rs with
  | nil => intro g u _ c hc; left; simpa [replay] using hc
  | cons p rest ih =>
    intro g u hrs c hc
    obtain ⟨i, s⟩ := p
    have hs : ss[i]? = some s := hrs (i, s) (by simp)
    have hrest : ∀ p ∈ rest, ss[p.1]? = some p.2 := fun p hp => hrs p (List.mem_cons_of_mem _ hp)
    simp only [replay] at hc
    cases hkind : s.kind with
    | loop =>
      rw [hkind] at hc
      simp only [] at hc
      cases g with
      | true => simp only [if_true] at hc; exact ih true u hrest c hc
      | false =>
        simp only [Bool.false_eq_true, if_false] at hc
        have hd := drain_stmts ss exec u.args u.st u.log u.rethrow
        generalize drain ss exec u.args u.st u.log u.rethrow = d at hd hc
        obtain ⟨u', o⟩ := d
        have step : ∀ c ∈ u'.log, c ∈ u.log ∨ c.stmt ≠ k := by
          intro c hc
          rcases hd c hc with h | h
          · left; exact h
          · right; intro heq; rw [heq, hnl] at h; cases h
        cases o with
        | none =>
          simp only [] at hc
          rcases ih true u' hrest c hc with h | h
          · exact step c h
          · right; exact h
        | some x => exact step c hc
    | cond =>
      rw [hkind] at hc
      simp only [] at hc
      split at hc
      · rename_i hbit
        have hik : i ≠ k := by intro h; rw [h, hb] at hbit; cases hbit
        rcases afterCall_stmts _ _ (fun c => c.stmt ≠ k) (fun u => ih false u hrest) _ c hc with h | h
        · rcases callDefer_stmts exec i s u c h with h | h
          · left; exact h
          · right; rw [h]; exact hik
        · right; exact h
      · exact ih false u hrest c hc
    | always =>
      rw [hkind] at hc
      simp only [] at hc
      have hik : i ≠ k := by
        intro h
        rw [h] at hs
        simp [isCondAt, hs, Stmt.isCond, hkind] at hk
      rcases afterCall_stmts _ _ (fun c => c.stmt ≠ k) (fun u => ih false u hrest) _ c hc with h | h
      · rcases callDefer_stmts exec i s u c h with h | h
        · left; exact h
        · right; rw [h]; exact hik
      · right; exact h
    | ext =>
      rw [hkind] at hc
      simp only [] at hc
      exact ih g u hrest c hc

/-- the same deferred calls, except that a panic of a call is not reported to the frame -/
def calm (exec : Call α → σ → Out ε × σ) : Call α → σ → Out ε × σ := fun c st =>
  match exec c st with
  | (.landed, st') => (.ok, st')
  | r => r

/-- two replay results that differ at most in the `Rund` flag / the way they completed -/
def Sim (a b : U α σ × Fin ε) : Prop :=
  a.1.st = b.1.st ∧ a.1.log = b.1.log ∧ a.1.args = b.1.args ∧ a.2.esc = b.2.esc

theorem drain_calm (ss : List Stmt) (exec : Call α → σ → Out ε × σ) :
    ∀ (l : List (Node α)) (st : σ) (log : List (Call α)) (re re' : Bool),
      (drain ss exec l st log re).1.st = (drain ss (calm exec) l st log re').1.st ∧
      (drain ss exec l st log re).1.log = (drain ss (calm exec) l st log re').1.log ∧
      (drain ss exec l st log re).1.args = (drain ss (calm exec) l st log re').1.args ∧
      (drain ss exec l st log re).2 = (drain ss (calm exec) l st log re').2 := by
  intro l
  induction l with
  | nil => intro st log re re'; simp [drain]
  | cons nd rest ih =>
    intro st log re re'
    simp only [drain]
    split
    · cases hex : exec ⟨nd.id, some nd⟩ st with
      | mk o st' =>
        cases o with
        | ok => simp only [calm, hex]; exact ih _ _ _ _
        | landed => simp only [calm, hex]; exact ih _ _ _ _
        | escaped x => simp [calm, hex]
    · simp

theorem replay_calm (ss : List Stmt) (exec : Call α → σ → Out ε × σ) (bits : Nat) :
    ∀ (rs : List (Nat × Stmt)) (g : Bool) (u u' : U α σ), u.st = u'.st → u.log = u'.log → u.args = u'.args →
      Sim (replay ss exec bits rs g u) (replay ss (calm exec) bits rs g u') := by
  intro rs
  induction rs with
  | nil => intro g u u' h1 h2 h3; exact ⟨h1, h2, h3, rfl⟩
  | cons p rest ih =>
    intro g u u' h1 h2 h3
    obtain ⟨i, s⟩ := p
    -- the step through `callDefer` + `afterCall`, shared by the cond and always cases
    have step : Sim (afterCall rest.isEmpty (replay ss exec bits rest false) (callDefer exec i s u))
        (afterCall rest.isEmpty (replay ss (calm exec) bits rest false) (callDefer (calm exec) i s u')) := by
      unfold callDefer
      cases hp : s.pushes with
      | true =>
        simp only [if_true]
        rw [← h3]
        cases ha : u.args with
        | nil => simp only [afterCall]; exact ih false u u' h1 h2 (by rw [← h3, ha])
        | cons nd tl =>
          simp only []
          rw [← h1, ← h2]
          cases hex : exec ⟨i, some nd⟩ u.st with
          | mk o st' =>
            cases o with
            | ok => simp only [calm, hex, afterCall]; exact ih false _ _ rfl rfl rfl
            | escaped x => simp only [calm, hex, afterCall]; exact ⟨rfl, rfl, rfl, rfl⟩
            | landed =>
              simp only [calm, hex, afterCall]
              cases hl : rest.isEmpty with
              | false => simp only [Bool.false_eq_true, if_false]; exact ih false _ _ rfl rfl rfl
              | true =>
                simp only [if_true]
                have : rest = [] := by cases rest <;> simp_all
                subst this
                exact ⟨rfl, rfl, rfl, rfl⟩
      | false =>
        simp only [Bool.false_eq_true, if_false]
        rw [← h1, ← h2]
        cases hex : exec ⟨i, none⟩ u.st with
        | mk o st' =>
          cases o with
          | ok => simp only [calm, hex, afterCall]; exact ih false _ _ rfl rfl h3
          | escaped x => simp only [calm, hex, afterCall]; exact ⟨rfl, rfl, h3, rfl⟩
          | landed =>
            simp only [calm, hex, afterCall]
            cases hl : rest.isEmpty with
            | false => simp only [Bool.false_eq_true, if_false]; exact ih false _ _ rfl rfl h3
            | true =>
              simp only [if_true]
              have : rest = [] := by cases rest <;> simp_all
              subst this
              exact ⟨rfl, rfl, h3, rfl⟩
    simp only [replay]
    cases hkind : s.kind with
    | loop =>
      simp only []
      cases g with
      | true => simp only [if_true]; exact ih true u u' h1 h2 h3
      | false =>
        simp only [Bool.false_eq_true, if_false]
        rw [← h1, ← h2, ← h3]
        have hd := drain_calm ss exec u.args u.st u.log u.rethrow u'.rethrow
        generalize drain ss exec u.args u.st u.log u.rethrow = d at hd
        generalize drain ss (calm exec) u.args u.st u.log u'.rethrow = d' at hd
        obtain ⟨v, o⟩ := d
        obtain ⟨v', o'⟩ := d'
        simp only at hd
        obtain ⟨e1, e2, e3, e4⟩ := hd
        subst e4
        cases o with
        | none => exact ih true v v' e1 e2 e3
        | some x => exact ⟨e1, e2, e3, rfl⟩
    | cond =>
      simp only []
      split
      · exact step
      · exact ih false u u' h1 h2 h3
    | always =>
      simp only []
      exact step
    | ext => simp only []; exact ih g u u' h1 h2 h3

end uncond


/-! ## Observables of whole-program runs -/

inductive Status
  | ok
  | uncaught (v : Int)    -- the process ended with an uncaught panic
  | ub                    -- undefined behaviour was reached
  | stuck
  deriving DecidableEq, Repr

def Model.observe (r : Model.MSt × Model.Res) : List Line × Status :=
  (r.1.out.reverse, match r.2 with
    | .ret _ => .ok
    | .esc (.exit v) => .uncaught v
    | .esc .stuck => .stuck
    | .esc _ => .ub)

def Spec.observe (r : Spec.SSt × Spec.SRes) : List Line × Status :=
  (r.1.out.reverse, match r.2 with
    | .ret _ _ => .ok
    | .panic v _ => .uncaught v
    | .stuck => .stuck)

/-- when the LIFO unwinding is not cut short, it performs exactly the calls of the stack, top first -/
theorem Spec.unwind_calls {α σ ε : Type} (ss : List Stmt) (exec : Call α → σ → Out ε × σ) :
    ∀ (R : List (Nat × α)) (st : σ) (log : List (Call α)),
      (Spec.unwind ss exec R st log).2.2 = none →
      (Spec.unwind ss exec R st log).2.1 = log.reverse ++ R.map (Spec.callOf ss) := by
  intro R
  induction R with
  | nil => intro st log _; simp [Spec.unwind]
  | cons e t ih =>
    intro st log h
    simp only [Spec.unwind] at h ⊢
    cases hex : exec (Spec.callOf ss e) st with
    | mk o st' =>
      rw [hex] at h
      cases o with
      | escaped x => simp at h
      | ok => simp only [] at h ⊢; rw [ih _ _ h]; simp
      | landed => simp only [] at h ⊢; rw [ih _ _ h]; simp

end LlgoVerif.Defer
