import LlgoVerif.Model.PyGuard
/-!
# C19, tie A: shape of the `init` functions llgo emits, as read from the -O0 IR

`checks/c19.py` (`harness/c19/irfacts.py`) turns every `init` function of the generated packages into a
token list, walking the instructions of the path that executes the body:

* `guardTest`  — `%g = load i1, @"p.init$guard"; br i1 %g, exit, body`
* `guardStore` — `store i1 true, @"p.init$guard"`
* `callInit q` — `call void @"q.init"()` (q = number of the package in the generated program)
* `loadSyms m ns` — `%v = load ptr, @__llgo_py.<m>; call @llgoLoadPyModSyms(%v, "n₁", @__llgo_py.<m>.<n₁>, …, null)`
                     (the extractor checks that every name string matches its variable)
* `use u` — a call through a loaded symbol variable, a `PyObject_GetAttrString(load @__llgo_py.<m>, name)`,
            or a call of `PyImport_ImportModule` outside the guarded form
* `guardedImport m` — `%v = load ptr, @__llgo_py.<m>; %c = icmp ne ptr %v, null; br i1 %c, exit, imp;
                       imp: %r = call @PyImport_ImportModule("<m>"); store ptr %r, @__llgo_py.<m>; br exit`
* `ret`
* `other s` — anything Python-related the extractor does not recognise (makes `okShape` false)

Besides the raw tokens the extractor records the decomposition it believes in (`inits`, `loadGroups`,
`initUses`, `imp`); `okShape` re-derives the token list from the decomposition (`render`) and compares, and
`shape_sound` proves that executing a rendered token list IS the model's `initBody` of the package
`factPkg` builds from the same decomposition.
-/
namespace LlgoVerif.PyGuard

inductive Tok
  | guardTest
  | guardStore
  | callInit (q : Nat)
  | loadSyms (m : Mod) (names : List Nat)
  | use (u : Use)
  | guardedImport (m : Mod)
  | ret
  | other (what : Nat)
  deriving DecidableEq, Repr

structure InitFact where
  /-- package number -/
  id : Nat
  /-- tokens of `p.init` as read from the IR -/
  toks : List Tok
  /-- decomposition: initialisers called, in order -/
  inits : List Nat
  /-- `llgoLoadPyModSyms` calls: module and names, in order -/
  loadGroups : List (Mod × List Nat)
  /-- Python uses in the body of `init` (and the `init#k` functions it calls), in order -/
  initUses : List Use
  /-- module of the guarded import at the end of `init` (binding package) -/
  imp : Option Mod
  /-- Python uses in all other functions of the package -/
  fnUses : List Use
  /-- the package calls C-API constructors itself (py.List/py.Tuple/py.Str lowering) -/
  intrinsics : Bool
  deriving Repr

def InitFact.loads (f : InitFact) : List Sym := f.loadGroups.flatMap fun g => g.2.map fun n => (g.1, n)

/-- the model package the fact describes -/
def factPkg (f : InitFact) : Pkg :=
  { imports := f.inits, binds := f.imp, initUses := f.initUses, uses := f.fnUses,
    loads := f.loads, intrinsics := f.intrinsics }

/-- the token list the decomposition stands for -/
def render (f : InitFact) : List Tok :=
  [.guardTest, .guardStore] ++ f.inits.map .callInit ++ f.loadGroups.map (fun g => .loadSyms g.1 g.2) ++
    f.initUses.map .use ++ (match f.imp with | some m => [.guardedImport m] | none => []) ++ [.ret]

/-- the emitted `init` has the expected shape: guard test, guard store, the imports' initialisers, then
    (ordinary package) the symbol loads followed by the body, or (binding package) the body followed by
    the guarded import and NO symbol loads. -/
def okShape (f : InitFact) : Bool :=
  f.toks == render f && (f.imp.isNone || f.loadGroups.isEmpty)

/-- what a token does to the Python state when executed in package `p` (the guard and the initialiser
    calls are C12's subject: the order of the bodies is a parameter of `run`) -/
def execTok (imp : Mod → Bool) (p : Nat) (s : St) : Tok → Except Err St
  | .loadSyms m ns => (ns.map fun n => (m, n)).foldlM (loadSym p) s
  | .use u => doUse imp p s u
  | .guardedImport m => guardedImport imp p m s
  | _ => .ok s

def execToks (imp : Mod → Bool) (p : Nat) (toks : List Tok) (s : St) : Except Err St :=
  toks.foldlM (execTok imp p) s

theorem exec_inits (imp : Mod → Bool) (p : Nat) (l : List Nat) (s : St) :
    (l.map Tok.callInit).foldlM (execTok imp p) s = .ok s := by
  induction l generalizing s with
  | nil => rfl
  | cons a t ih => simp only [List.map_cons, List.foldlM_cons, execTok]; exact ih s

theorem exec_uses (imp : Mod → Bool) (p : Nat) (l : List Use) (s : St) :
    (l.map Tok.use).foldlM (execTok imp p) s = l.foldlM (doUse imp p) s := by
  induction l generalizing s with
  | nil => rfl
  | cons a t ih =>
    simp only [List.map_cons, List.foldlM_cons, execTok]
    cases doUse imp p s a with
    | error e => rfl
    | ok s1 => exact ih s1

theorem exec_loads (imp : Mod → Bool) (p : Nat) (l : List (Mod × List Nat)) (s : St) :
    (l.map fun g => Tok.loadSyms g.1 g.2).foldlM (execTok imp p) s =
      (l.flatMap fun g => g.2.map fun n => (g.1, n)).foldlM (loadSym p) s := by
  induction l generalizing s with
  | nil => rfl
  | cons a t ih =>
    simp only [List.map_cons, List.foldlM_cons, execTok, List.flatMap_cons, List.foldlM_append]
    cases (a.2.map fun n => (a.1, n)).foldlM (loadSym p) s with
    | error e => rfl
    | ok s1 => exact ih s1

/-- **Shape soundness.**  An `init` whose tokens are the rendering of its decomposition executes, on every
    state, exactly as the model's `initBody` of the described package. -/
theorem shape_sound (f : InitFact) (h : okShape f = true) (P : Prog) (hP : P f.id = factPkg f)
    (imp : Mod → Bool) (s : St) :
    execToks imp f.id f.toks s = initBody P imp s f.id := by
  simp only [okShape, Bool.and_eq_true, beq_iff_eq, Bool.or_eq_true, List.isEmpty_iff] at h
  obtain ⟨ht, hk⟩ := h
  unfold execToks initBody
  rw [ht, hP]
  simp only [render, factPkg, List.foldlM_append, List.foldlM_cons, List.foldlM_nil, execTok, bind, Except.bind,
    exec_inits, exec_loads, exec_uses, InitFact.loads]
  cases hi : f.imp with
  | none =>
    simp only [pure, Except.pure]
    cases (f.loadGroups.flatMap fun g => g.2.map fun n => (g.1, n)).foldlM (loadSym f.id) s with
    | error e => rfl
    | ok s1 =>
      simp only
      cases f.initUses.foldlM (doUse imp f.id) s1 with
      | error e => rfl
      | ok s2 => rfl
  | some m =>
    have hl : f.loadGroups = [] := by
      rcases hk with h | h
      · rw [hi] at h; simp at h
      · exact h
    simp only [hl, List.flatMap_nil, List.foldlM_nil, pure, Except.pure]
    cases f.initUses.foldlM (doUse imp f.id) s with
    | error e => rfl
    | ok s1 =>
      simp only [List.foldlM_cons, List.foldlM_nil, execTok, bind, Except.bind, pure, Except.pure]
      cases guardedImport imp f.id m s1 with
      | error e => rfl
      | ok s2 => rfl

/-- the entry function: the calls of `@main`, in order -/
inductive EntryCall
  | pyInitialize | rtInit | abiInit | runtimeInit | mainInit | mainMain | otherCall
  deriving DecidableEq, Repr

/-- `Py_Initialize` is the first call of the entry function and `main.init` precedes `main.main` -/
def okEntry (calls : List EntryCall) : Bool :=
  calls.head? == some .pyInitialize &&
  (calls.filter fun c => c == .mainInit || c == .mainMain) == [.mainInit, .mainMain] &&
  !calls.contains .otherCall

/-- one generated program as read from its IR: `facts[i]` describes package number `i` -/
structure GenProg where
  facts : List InitFact
  /-- calls of the entry function `@main`, in order -/
  entry : List EntryCall
  /-- number of the `main` package -/
  main : Nat
  /-- the uses the check performs after initialisation (op `U` of the batch program) -/
  calls : List (Nat × Use)
  deriving Repr

def GenProg.prog (g : GenProg) : Prog := ofList (g.facts.map factPkg)

/-- fact `i` is about package `i` -/
def GenProg.wf (g : GenProg) : Bool := g.facts.map (·.id) == List.range g.facts.length

theorem GenProg.prog_at (g : GenProg) (h : g.wf = true) : ∀ f ∈ g.facts, g.prog f.id = factPkg f := by
  intro f hf
  simp only [GenProg.wf, beq_iff_eq] at h
  obtain ⟨i, hi, hget⟩ := List.getElem_of_mem hf
  have h3 : f.id = i := by
    have h1 : (g.facts.map (·.id))[i]? = some f.id := by simp [hi, hget]
    have h2 : (List.range g.facts.length)[i]? = some i := by simp [hi]
    rw [h, h2] at h1
    exact (Option.some.inj h1).symm
  subst h3
  unfold GenProg.prog ofList
  simp [List.getD, hi, hget]

end LlgoVerif.PyGuard
