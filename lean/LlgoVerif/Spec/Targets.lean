import LlgoVerif.Model.Targets
/-!
# Specification of target resolution (C18)

What the property demands, written without reference to `mergeConfig` or to the shape of the loader's recursion:

* `lineage fs name`   — the descriptions that contribute to `name`, in **depth-first inheritance order**:
                        the lineages of the parents, in the order they are listed in `inherits`, followed by the
                        description itself.  (A description reached along two paths — a diamond — occurs twice.)
* `lastSet`           — the value of the last element of a list that is set (non-empty), `""` if none.
* `specConfig`        — scalar setting = `lastSet` over the lineage ("nearest description that defines it"),
                        flag = set by any description of the lineage, list setting = concatenation over the lineage.
* `specResolve`       — `specConfig` of the lineage; error / divergence exactly when the lineage cannot be read.

`lineage` carries the same fuel as the model (`Outcome.diverge` = the walk does not end within `fuel` levels).
Core Lean only.
-/
namespace LlgoVerif.Targets

/-- concatenation of the parents' lineages, in list order; the first unreadable parent decides -/
def lineages (ln : String → Outcome (List (String × Config))) : List String → Outcome (List (String × Config))
  | [] => .ok []
  | p :: ps =>
    match ln p with
    | .ok d =>
      match lineages ln ps with
      | .ok ds => .ok (d ++ ds)
      | .error e => .error e
      | .diverge => .diverge
    | .error e => .error e
    | .diverge => .diverge

/-- depth-first inheritance order: (name, own settings) of every contributing description -/
def lineage (fs : FS) : Nat → String → Outcome (List (String × Config))
  | 0, _ => .diverge
  | fuel + 1, name =>
    match loadRaw fs name with
    | .error e => .error e
    | .ok raw =>
      match lineages (lineage fs fuel) raw.inherits with
      | .ok ds => .ok (ds ++ [(name, raw.config)])
      | .error e => .error e
      | .diverge => .diverge

/-- the last value that is set (non-empty); `""` when none is -/
def lastSet : List String → String
  | [] => ""
  | v :: vs => if lastSet vs ≠ "" then lastSet vs else v

def specConfig (name : String) (ds : List (String × Config)) : Config :=
  Config.build name
    (fun f => lastSet (ds.map fun d => d.2.str f))
    (ds.any fun d => d.2.rp2040BootPatch)
    (fun l => (ds.map fun d => d.2.list l).flatten)

def specResolve (fs : FS) (fuel : Nat) (name : String) : Outcome Config :=
  (lineage fs fuel name).map (specConfig name)

end LlgoVerif.Targets
