"""C18 — every target description resolves to one well-defined configuration.

Lean: LlgoVerif/Model/Targets.lean (load = Loader.Load/resolveInheritance/mergeConfig, loadV = with the visited path of
fixes/C18-1.diff), Spec/Targets.lean (lineage, specConfig), Lemmas/Targets.lean, Props/C18.lean.

Ties to the working tree, re-established on every run:
  (A) harness/c18 `extract` (go/ast) regenerates lean/LlgoVerif/Gen/C18Fields.lean from `type Config struct`,
      `type RawConfig struct` and the fields written by `mergeConfig`; Props/C18 `mergeConfig_complete`,
      `mergeConfig_sound`, `model_fields_match`, `rawConfig_shape` are re-checked against it.
  (B) correspondence: the real `targets.NewResolver(dir).Resolve` / `ResolveAll` (harness/c18 `serve`, a subprocess, so
      that a fatal stack overflow is an observation) against the compiled Lean model (`modeld_c18`) on all shipped
      targets/*.json and on generated inheritance forests.
The real results are judged against the specification by an independent resolver in this file (`py_resolve`, which
works on the raw JSON texts and is itself compared with the Lean `specResolve` on every case).
"""
import glob
import hashlib
import threading

from vlib.common import *

FUEL = 64
KNOWN_CYCLE_KEY = "inherits-cycle:stack-overflow"

# JSON keys of the target-description format as of the design round (json tag -> Go field, kind).  The shipped files are
# read with THIS table (united with the tags the struct has now), so that a renamed tag shows up as settings of shipped
# targets that no longer reach the resolved configuration.
FROZEN = {
    "llvm-target": ("LLVMTarget", "s"), "cpu": ("CPU", "s"), "features": ("Features", "s"),
    "build-tags": ("BuildTags", "l"), "goos": ("GOOS", "s"), "goarch": ("GOARCH", "s"), "libc": ("Libc", "s"),
    "rtlib": ("RTLib", "s"), "linker": ("Linker", "s"), "linkerscript": ("LinkerScript", "s"),
    "cflags": ("CFlags", "l"), "ldflags": ("LDFlags", "l"), "extra-files": ("ExtraFiles", "l"),
    "code-model": ("CodeModel", "s"), "target-abi": ("TargetABI", "s"), "relocation-model": ("RelocationModel", "s"),
    "binary-format": ("BinaryFormat", "s"), "uf2-family-id": ("UF2FamilyID", "s"), "flash-method": ("FlashMethod", "s"),
    "flash-command": ("FlashCommand", "s"), "flash-1200-bps-reset": ("Flash1200BpsReset", "s"), "serial": ("Serial", "s"),
    "serial-port": ("SerialPort", "l"), "msd-volume-name": ("MSDVolumeName", "l"),
    "msd-firmware-name": ("MSDFirmwareName", "s"), "rp2040-boot-patch": ("RP2040BootPatch", "b"),
    "emulator": ("Emulator", "s"), "gdb": ("GDB", "l"), "openocd-interface": ("OpenOCDInterface", "s"),
    "openocd-transport": ("OpenOCDTransport", "s"), "openocd-target": ("OpenOCDTarget", "s"),
}
KIND_OF_GOTYPE = {"string": "s", "bool": "b", "[]string": "l"}
BAD = "BAD"


# ------------------------------------------------------------------------------------------------ independent parser
def parse_raw(text, keytab):
    """What encoding/json makes of one target file for `RawConfig` — written from the JSON format, not from the loader.
    keytab: json key -> (GoField, kind).  Returns BAD or {"inherits": [...], "fields": {GoField: value}}."""
    def hook(pairs):
        return ("obj", pairs)

    def no_constant(c):
        raise ValueError(c)         # NaN / Infinity are not JSON

    try:
        doc = json.loads(text, object_pairs_hook=hook, parse_constant=no_constant)
    except (ValueError, RecursionError):
        return BAD
    if doc is None:
        return {"inherits": [], "fields": {}}
    if not (isinstance(doc, tuple) and doc[0] == "obj"):
        return BAD
    lower = {}
    for k, v in keytab.items():
        lower.setdefault(k.lower(), v)
    out = {"inherits": [], "fields": {}}
    bad = False

    def strlist(v):
        nonlocal bad
        if v is None:
            return []
        if not isinstance(v, list):
            bad = True
            return []
        r = []
        for x in v:
            if x is None:
                r.append("")
            elif isinstance(x, str):
                r.append(x)
            else:
                bad = True
                r.append("")
        return r

    for k, v in doc[1]:
        if k == "inherits" or (k not in keytab and k.lower() == "inherits"):
            out["inherits"] = strlist(v)
            continue
        ent = keytab.get(k) or lower.get(k.lower())
        if ent is None:
            continue                      # unknown keys are ignored
        field, kind = ent
        if kind == "s":
            if v is None:
                continue
            if isinstance(v, str):
                out["fields"][field] = v
            else:
                bad = True
        elif kind == "b":
            if v is None:
                continue
            if isinstance(v, bool):
                out["fields"][field] = v
            else:
                bad = True
        elif kind == "l":
            out["fields"][field] = strlist(v)
    if bad:
        return BAD
    # canonical: drop unset values (Go zero values)
    out["fields"] = {f: v for f, v in out["fields"].items() if v not in ("", False, [])}
    return out


# ------------------------------------------------------------------------------------------------ the specification
class Unreadable(Exception):
    def __init__(self, cls, name):
        self.cls, self.name = cls, name


def py_lineage(entries, name, path=()):
    """depth-first inheritance order; raises Unreadable(missing|parse|cycle)"""
    if name in path:
        raise Unreadable("cycle", name)
    e = entries.get(name)
    if e is None:
        raise Unreadable("missing", name)
    if e == BAD:
        raise Unreadable("parse", name)
    out = []
    for p in e["inherits"]:
        out += py_lineage(entries, p, path + (name,))
    return out + [(name, e["fields"])]


def py_resolve(entries, name, kinds):
    """('ok', config dict, lineage names) | ('err', class, name).  kinds: GoField -> s|b|l"""
    try:
        lin = py_lineage(entries, name)
    except Unreadable as u:
        return ("err", u.cls, u.name)
    except RecursionError:
        return ("err", "cycle", name)
    cfg = {"Name": name}
    for f, k in kinds.items():
        if k == "s":
            v = ""
            for _, d in lin:
                if d.get(f, "") != "":
                    v = d[f]
            if v != "":
                cfg[f] = v
        elif k == "b":
            if any(d.get(f, False) for _, d in lin):
                cfg[f] = True
        elif k == "l":
            v = []
            for _, d in lin:
                v += d.get(f, [])
            if v:
                cfg[f] = v
    return ("ok", cfg, [n for n, _ in lin])


def has_cycle_anywhere(entries, name, path=()):
    """does the depth-first walk over ALL parents meet a name on its own path? (what `acyclic` of the model decides)"""
    if name in path:
        return True
    e = entries.get(name)
    if e is None or e == BAD:
        return False
    return any(has_cycle_anywhere(entries, p, path + (name,)) for p in e["inherits"])


# ------------------------------------------------------------------------------------------------ model protocol
def hx(s):
    return hexs(s)


def model_lines(entries, names, model_kinds):
    lines = ["reset"]
    for n, e in entries.items():
        if e == BAD:
            lines.append("bad " + hx(n))
            continue
        toks = ["file", hx(n), ",".join(hx(p) for p in e["inherits"]) if e["inherits"] else "."]
        for f, v in e["fields"].items():
            k = model_kinds.get(f)
            if k == "s":
                toks.append("s:%s=%s" % (f, hx(v)))
            elif k == "b":
                toks.append("b:%s" % f)
            elif k == "l":
                toks.append("l:%s=%s" % (f, ",".join(hx(x) for x in v)))
        lines.append(" ".join(toks))
    for n in names:
        for op in ("load", "loadv", "spec", "lineage"):
            lines.append("%s %s %d" % (op, hx(n), FUEL))
        lines.append("acyclic " + hx(n))
    return lines


def unhx(h):
    return unhexs(h).decode("utf-8")


def parse_model_outcome(line):
    """-> ('ok', cfg dict) | ('err', cls, name) | ('diverge',) | ('?', line)"""
    if line == "diverge":
        return ("diverge",)
    t = line.split(" ")
    if t[0] == "err" and len(t) == 3:
        return ("err", t[1], unhx(t[2]))
    if t[0] == "ok":
        cfg = {}
        for tok in t[1:]:
            if tok.startswith("Name="):
                cfg["Name"] = unhx(tok[5:])
            elif tok.startswith("s:"):
                k, v = tok[2:].split("=")
                cfg[k] = unhx(v)
            elif tok.startswith("b:"):
                cfg[tok[2:]] = True
            elif tok.startswith("l:"):
                k, v = tok[2:].split("=")
                cfg[k] = [unhx(x) for x in v.split(",")]
        return ("ok", cfg)
    return ("?", line)


# ------------------------------------------------------------------------------------------------ real code runner
def serve(harness, reqs, env, per_req_timeout):
    """Run the requests through `harness serve`; a process death or a stall is recorded for the request it happened on
    and the harness is restarted for the remaining requests."""
    results = [None] * len(reqs)
    i = 0
    restarts = 0
    while i < len(reqs):
        data = "".join(json.dumps(r) + "\n" for r in reqs[i:])
        p = subprocess.Popen([harness, "serve"], stdin=subprocess.PIPE, stdout=subprocess.PIPE, stderr=subprocess.PIPE, env=env, text=True)
        errbuf = []
        te = threading.Thread(target=lambda: errbuf.append(p.stderr.read()))
        te.start()

        def feed():
            try:
                p.stdin.write(data)
                p.stdin.close()
            except (BrokenPipeError, ValueError, OSError):
                pass
        tf = threading.Thread(target=feed)
        tf.start()
        hung = [False]
        got = 0
        while True:
            timer = threading.Timer(per_req_timeout, lambda: (hung.__setitem__(0, True), p.kill()))
            timer.start()
            line = p.stdout.readline()
            timer.cancel()
            if not line:
                break
            try:
                results[i + got] = json.loads(line)
            except ValueError:
                results[i + got] = {"bad": line[:200]}
            got += 1
            hung[0] = False
        rc = p.wait()
        tf.join()
        te.join()
        i += got
        if i < len(reqs):
            err = errbuf[0] if errbuf else ""
            kind = "hang" if hung[0] else ("stack-overflow" if "stack overflow" in err or "goroutine stack exceeds" in err else "died")
            results[i] = {"crash": kind, "rc": rc, "stderr": err[:400]}
            i += 1
            restarts += 1
    return results, restarts


# ------------------------------------------------------------------------------------------------ generator
def jtext(rng, pairs):
    """JSON object text from (key, value) pairs, keeping order and duplicates"""
    sep = rng.choice([",", ", ", ",\n  "])
    return "{" + sep.join(json.dumps(k) + ":" + json.dumps(v, ensure_ascii=rng.random() < 0.5) for k, v in pairs) + "}"


MALFORMED = ['{"cpu": 5}', '{"cpu": "x"', '[]', '', '{"build-tags": "notalist"}', '{"cflags": [1]}', '{"inherits": "x"}',
             '{"rp2040-boot-patch": "yes"}', '"str"', '{"cpu": {"a": 1}}', '{"inherits": [3]}', '{cpu: "x"}', '{"cpu": "x"} trailing']
VALUE_POOL = ["x", "y", "cortex-m4", "+a,+b", "true", "é", "世界", " sp ace ", "q\"uote", "back\\slash", "{root}/lib", "-"]


def gen_forest(rng, fields, idx):
    """fields: [(GoField, kind, tag)] of the current Config.  Returns (files: name->text, meta)"""
    shape = rng.choice(["single", "chain", "chain", "tree", "dag", "dag", "diamond", "diamond", "multi", "cycle", "selfcycle",
                        "missing", "bad", "deep", "dup-parent", "cycle-after-missing", "longchain"])
    # longchain: an acyclic single-parent chain far deeper than any shipped target (the property holds for ANY acyclic set;
    # resolve_acyclic has no depth bound) - lengths around powers of two and below the model's fuel
    n = {"single": 1, "selfcycle": rng.choice([1, 2, 3]), "diamond": rng.choice([4, 5, 6]), "deep": 6,
         "longchain": rng.choice([9, 12, 16, 17, 18, 24, 32, 33, 48, 60])}.get(shape, rng.choice([2, 3, 3, 4, 5, 6, 8]))
    names = ["n%d" % i for i in range(n)]
    if rng.random() < 0.1:
        names = [rng.choice(["t-", "x.y", "Ünï", "a b", "0"]) + nm for nm in names]
    inh = {nm: [] for nm in names}
    if shape == "longchain":
        for i in range(n - 1):
            inh[names[i]] = [names[i + 1]]
    elif shape in ("chain", "deep"):
        for i in range(min(n - 1, 5)):
            inh[names[i]] = [names[i + 1]]
    elif shape == "diamond":
        inh[names[0]] = [names[1], names[2]]
        inh[names[1]] = [names[3]]
        inh[names[2]] = [names[3]]
        for i in range(4, n):
            inh[names[rng.choice([0, 1, 2, 3])]].append(names[i])
        if rng.random() < 0.5:
            rng.shuffle(inh[names[0]])
    else:
        for i in range(n - 1):
            later = names[i + 1:]
            k = rng.choice([0, 1, 1, 2, 2, 3]) if shape in ("dag", "multi", "tree", "cycle", "missing", "bad", "dup-parent", "cycle-after-missing") else 1
            ps = rng.sample(later, min(k, len(later)))
            inh[names[i]] = ps
    # keep depth <= 5 (levels below the root <= 5)
    def depth(nm, seen=()):
        if nm in seen:
            return 0
        return 1 + max([depth(p, seen + (nm,)) for p in inh.get(nm, [])] or [0])
    for nm in names:
        while shape != "longchain" and depth(nm) > 6 and inh[nm]:
            inh[nm].pop()
    risky = False
    if shape == "cycle" and n >= 2:
        a = rng.randrange(1, n)
        b = rng.randrange(0, a)
        inh[names[a]].insert(rng.randint(0, len(inh[names[a]])), names[b])   # back edge (cyclic iff b reaches a)
        if names[a] not in inh[names[b]] and rng.random() < 0.7:
            inh[names[b]].insert(rng.randint(0, len(inh[names[b]])), names[a])
    elif shape == "selfcycle":
        v = rng.choice(names)
        inh[v].insert(rng.randint(0, len(inh[v])), v)
    elif shape == "missing":
        v = rng.choice(names)
        inh[v].insert(rng.randint(0, len(inh[v])), "ghost")
    elif shape == "dup-parent" and n >= 2:
        v = names[0]
        if inh[v]:
            inh[v].append(inh[v][0])
    elif shape == "cycle-after-missing":
        v = names[0]
        inh[v] = ["ghost", v] if rng.random() < 0.5 else [v, "ghost"]
    density = rng.choice(["none", "sparse", "sparse", "half", "half", "all", "one-field", "lists-only", "scalars-only"])
    one = rng.choice(fields)[0] if fields else None
    uniq = rng.random() < 0.7
    files = {}
    for nm in names:
        pairs = []
        if inh[nm] or rng.random() < 0.1:
            pairs.append(("inherits", list(inh[nm])))
        for (f, k, tag) in fields:
            p = {"none": 0.0, "sparse": 0.15, "half": 0.5, "all": 1.0, "one-field": 1.0 if f == one else 0.0,
                 "lists-only": 0.7 if k == "l" else 0.0, "scalars-only": 0.6 if k != "l" else 0.0}[density]
            if rng.random() >= p:
                if rng.random() < 0.03:
                    pairs.append((tag, None))          # explicit null = unset
                continue
            if k == "s":
                r = rng.random()
                v = ("%s/%s" % (nm, tag)) if (uniq or r < 0.5) else rng.choice(VALUE_POOL)
                if r > 0.95:
                    v = ""                              # explicit empty string = unset for the loader
                pairs.append((tag, v))
            elif k == "b":
                pairs.append((tag, rng.random() < 0.6))
            elif k == "l":
                m = rng.choice([0, 1, 1, 2, 3])
                v = [("%s/%s#%d" % (nm, tag, j)) if (uniq or rng.random() < 0.5) else rng.choice(VALUE_POOL) for j in range(m)]
                if v and rng.random() < 0.05:
                    v[rng.randrange(len(v))] = ""
                pairs.append((tag, v))
        r = rng.random()
        if r < 0.15:
            pairs.append((rng.choice(["comment", "gc", "scheduler", "default-stack-size", "Name", "name", "Config"]),
                          rng.choice(["x", 2048, True, None, ["a"], {"k": "v"}])))
        if r > 0.97 and pairs:                          # a duplicate key: the later occurrence decides
            k0, v0 = rng.choice(pairs)
            if isinstance(v0, str):
                pairs.append((k0, v0 + "'"))
            elif isinstance(v0, list) and k0 != "inherits":
                pairs.append((k0, v0 + ["dup"]))
        if 0.90 < r < 0.93 and pairs:                   # a key in another letter case still names the field
            j = rng.randrange(len(pairs))
            if pairs[j][0] not in ("Name", "name", "Config"):
                pairs[j] = (pairs[j][0].upper(), pairs[j][1])
        rng.shuffle(pairs)
        files[nm] = jtext(rng, pairs)
    if shape == "bad":
        files[rng.choice(names)] = rng.choice(MALFORMED)
    if rng.random() < 0.03:
        files[rng.choice(names)] = "null"
    return files, {"shape": shape, "density": density}


def load_corpus():
    out = []
    for fn in sorted(glob.glob(os.path.join(VERIF, "corpus", "C18", "*.json"))):
        d = json.load(open(fn))
        out.append((d["files"], {"shape": "corpus:" + os.path.basename(fn)[:-5], "density": "corpus"}))
    return out


# ------------------------------------------------------------------------------------------------ request histories
def make_script(rng, c, include_risky):
    """A sequence of requests for ONE Resolver: every name twice in a row and again after other names, failing names
    (missing, malformed, cyclic, missing parent) interleaved with good ones, HasTarget / ListAvailableTargets before
    and after failed loads, ResolveAll after single resolves."""
    pool = [n for n in c["names"] if include_risky or n not in c["risky"]] + ["no-such-target"]
    ops = [["has", n] for n in rng.sample(pool, min(3, len(pool)))]
    ops.append(["list"])
    o = list(pool)
    rng.shuffle(o)
    for n in o:
        ops += [["resolve", n], ["resolve", n]]
    ops += [["has", n] for n in pool]
    o = list(pool)
    rng.shuffle(o)
    ops += [["resolve", n] for n in o]
    ops += [["all"], ["list"]]
    o = list(pool)
    rng.shuffle(o)
    for n in o[:6]:
        ops += [["resolve", n], ["has", n]]
    ops.append(["all"])
    return ops


def expect_op(c, op, kinds):
    """what the request must answer, whatever was asked before (the specification has no history)"""
    if op[0] == "resolve":
        e = c["expect"].get(op[1]) or py_resolve(c["entries"], op[1], kinds)
        return ("ok", e[1]) if e[0] == "ok" else ("err",)
    if op[0] == "has":
        e = c["entries"].get(op[1])
        return ("has", e is not None and e != BAD)
    if op[0] == "list":
        return ("list", sorted(c["files"]))
    if op[0] == "all":
        exps = {n: (c["expect"].get(n) or py_resolve(c["entries"], n, kinds)) for n in c["files"]}
        if any(e[0] != "ok" for e in exps.values()):
            return ("err",)
        return ("all", {n: e[1] for n, e in exps.items()})
    raise ValueError(op)


def clean_cfg(d):
    return {k: v for k, v in (d or {}).items() if not k.startswith("?")}


def judge_op(exp, got):
    """None if the answer is the demanded one, else a short class of the deviation"""
    if got is None or got.get("err") in ("panic", "bad-op"):
        return "panic"
    if "res" in got:
        r = got["res"]
        if r.get("err") in ("panic", "nil-config"):
            return "panic"
        if "err" in r:
            return None if exp[0] == "err" else "error-instead-of-config"
        if exp[0] != "ok":
            return "config-instead-of-error"
        return None if clean_cfg(r.get("ok")) == exp[1] else "wrong-config"
    if "has" in got:
        return None if exp == ("has", got["has"]) else "wrong-answer"
    if "list" in got:
        return None if exp == ("list", sorted(got["list"][1:])) else "wrong-answer"
    if "all" in got:
        if exp[0] != "all":
            return "config-instead-of-error"
        if any("ok" not in v for v in got["all"].values()):
            return "panic"
        return None if {k: clean_cfg(v["ok"]) for k, v in got["all"].items()} == exp[1] else "wrong-config"
    if "err" in got:                       # error of list / all
        return None if exp[0] == "err" else "error-instead-of-config"
    return "panic"


def closure_files(c, n):
    """the files a name depends on (for replays of shipped targets)"""
    seen, todo = {}, [n]
    while todo:
        x = todo.pop()
        if x in seen or x not in c["files"]:
            continue
        seen[x] = c["files"][x]
        e = c["entries"].get(x)
        if e and e != BAD:
            todo += e["inherits"]
    return seen


def digest(files):
    return hashlib.sha256(json.dumps(files, sort_keys=True).encode()).hexdigest()[:12]


# ------------------------------------------------------------------------------------------------ the check
def run(ctx, args):
    rng = ctx.rng
    quick = ctx.tier == "quick"
    n_forests = 400 if quick else 12000
    max_risky = 14 if quick else 120
    gen_rel = "LlgoVerif/Gen/C18Fields.lean"
    gen_path = os.path.join(LEAN, gen_rel)

    # (2) harness from the working tree; (A) regenerate the facts file (deleted first)
    harness = build_go_harness(ctx, "c18")
    if os.path.exists(gen_path):
        os.remove(gen_path)
    pe = run_cmd([harness, "extract", REPO, gen_path])
    facts = None
    if pe.returncode == 0:
        try:
            facts = json.loads(pe.stdout)
        except ValueError:
            facts = None
    if facts is None or not os.path.exists(gen_path):
        ctx.log("fact extraction failed:", (pe.stderr or pe.stdout)[-500:])
        with open(gen_path, "w") as f:
            f.write("/-! GENERATED (extraction FAILED on this tree) -/\nnamespace LlgoVerif.Gen.C18\n"
                    "def configFields : List (String × String × String) := []\n"
                    "def rawConfigFields : List (String × String × String) := []\n"
                    "def mergedFields : List String := []\nend LlgoVerif.Gen.C18\n")
        ctx.broken.append("tie (A): go/ast extraction of Config / mergeConfig failed")
        facts = {"config": [], "raw": [], "merged": [], "merge_found": False}

    # (1) Lean: build + obligations + axiom audit
    st = lean_check(ctx, ["LlgoVerif.Props.C18"], ["LlgoVerif/Props/C18.lean"],
                    extra_files=["LlgoVerif/Model/Targets.lean", "LlgoVerif/Spec/Targets.lean", "LlgoVerif/Lemmas/Targets.lean",
                                 gen_rel, "Driver/C18.lean", "LlgoVerif/GenProofs/C18Coverage.lean"],
                    leanchecker=(ctx.tier == "thorough"))
    for name, s in st.items():
        if s != "ok":
            ctx.log("theorem", name, s)
    modeld = build_driver(ctx, "modeld_c18")
    # coverage obligation (soft, see GenProofs/C18Coverage.lean): every field of the Go struct is in the model
    pc = lake(["build", "LlgoVerif.GenProofs.C18Coverage"])
    ctx.obligations += 1
    coverage_ok = pc.returncode == 0
    ctx.coverage.setdefault("theorems", []).append("LlgoVerif.Targets.config_fields_modelled" + ("" if coverage_ok else " (OPEN)"))
    if coverage_ok:
        ctx.discharged += 1

    # field tables: current struct (extractor) and the model's own list
    fields = [(f["name"], KIND_OF_GOTYPE.get(f["type"]), f["tag"]) for f in facts["config"] if f["name"] != "Name"]
    unknown_kind = [f for f in fields if f[1] is None or f[2] in ("", "-")]
    fields = [f for f in fields if f[1] is not None and f[2] not in ("", "-")]
    kinds = {f: k for f, k, _ in fields}
    keytab_now = {tag: (f, k) for f, k, tag in fields}
    keytab_shipped = dict(keytab_now)
    for tag, (f, k) in FROZEN.items():
        keytab_shipped[tag] = (f, k)
        kinds.setdefault(f, k)
    mf, _, _ = run_lines([modeld], ["fields"])
    model_kinds = {}
    for tok in mf[0].split(" ")[1:]:
        g, t = tok.split(":")
        if g != "Name":
            model_kinds[g] = KIND_OF_GOTYPE[t]
    not_in_model = sorted(set(kinds) - set(model_kinds))
    if not_in_model:
        ctx.log("fields of Config that the Lean model does not have (judged by the specification only):", not_in_model)
    if unknown_kind:
        ctx.log("fields of Config of a kind this check cannot generate (not exercised):", unknown_kind)

    # ------------------------------------------------------------------ cases
    cases = []      # dict(files, entries, names, meta, dir)
    if args.replay:
        rp = json.load(open(args.replay))["replay"]
        cases.append({"files": rp["files"], "meta": {"shape": "replay", "density": "replay"}})
        if rp.get("ops"):
            cases[-1]["script"] = rp["ops"]
        if "(directory)" in rp["files"]:
            cases[-1]["dir"] = rp["files"]["(directory)"]
            cases[-1]["files"] = {os.path.basename(fn)[:-5]: open(fn, encoding="utf-8", errors="surrogateescape").read()
                                  for fn in sorted(glob.glob(os.path.join(cases[-1]["dir"], "*.json")))}
            cases[-1]["meta"] = {"shape": "shipped", "density": "shipped"}
    else:
        # shipped targets: the directory itself for the real code, an independent parse for model and spec
        shipped = {}
        for fn in sorted(glob.glob(os.path.join(REPO, "targets", "*.json"))):
            shipped[os.path.basename(fn)[:-5]] = open(fn, encoding="utf-8", errors="surrogateescape").read()
        cases.append({"files": shipped, "meta": {"shape": "shipped", "density": "shipped"}, "dir": os.path.join(REPO, "targets")})
        for files, meta in load_corpus():
            cases.append({"files": files, "meta": meta})
        for i in range(n_forests):
            files, meta = gen_forest(rng, fields, i)
            cases.append({"files": files, "meta": meta})
    for c in cases:
        tab = keytab_shipped if c["meta"]["shape"] == "shipped" else keytab_now
        c["entries"] = {n: parse_raw(t, tab) for n, t in c["files"].items()}
        names = sorted(c["files"])
        if c["meta"]["shape"] not in ("shipped",):
            refd = sorted(set(p for e in c["entries"].values() if e != BAD for p in e["inherits"]) - set(names))
            names += refd[:2]                       # also ask for names that have no file
        c["names"] = names
        c["expect"] = {n: py_resolve(c["entries"], n, kinds) for n in names}
        c["risky"] = [n for n in names if c["expect"][n][0] == "err" and c["expect"][n][1] == "cycle"]

    # ------------------------------------------------------------------ real code
    env = go_env({"TMPDIR": ctx.scratch, "C18_MAXSTACK": str(8 << 20)})
    reqs, where = [], []     # where[i] = (case index, kind, names)
    risky_budget = max_risky
    deferred = []
    for ci, c in enumerate(cases):
        safe = [n for n in c["names"] if n not in c["risky"]]
        base = {"dir": c["dir"]} if "dir" in c else {"files": c["files"]}
        o1 = list(safe)
        rng.shuffle(o1)
        reqs.append(dict(base, seq=o1, all=not c["risky"]))
        where.append((ci, "one-loader", o1))
        o2 = list(reversed(sorted(safe)))
        if len(safe) > 1 or "dir" in c:
            reqs.append(dict(base, seq=o2 + o2[:1], fresh=("dir" not in c and rng.random() < 0.5)))
            where.append((ci, "again", o2 + o2[:1]))
        c["risky_run"] = []
        for n in c["risky"]:
            if risky_budget > 0 or c["meta"]["shape"].startswith("corpus") or c["meta"]["shape"] == "replay":
                risky_budget -= 1
                c["risky_run"].append(n)
                reqs.append(dict(base, seq=[n]))
                where.append((ci, "risky", [n]))
            else:
                deferred.append((ci, n))
    t_real = time.time()
    results, restarts = serve(harness, reqs, env, per_req_timeout=60)
    # every process death costs a restart, hence the budget above; when the loader answers cyclic requests without
    # dying (the repaired loader), the remaining cyclic names are cheap and are all run
    if deferred and not any("crash" in r for r, w in zip(results, where) if w[1] == "risky"):
        more, more_where = [], []
        for ci, n in deferred:
            c = cases[ci]
            c["risky_run"].append(n)
            more.append(dict({"dir": c["dir"]} if "dir" in c else {"files": c["files"]}, seq=[n]))
            more_where.append((ci, "risky", [n]))
        r3, rs3 = serve(harness, more, env, per_req_timeout=60)
        reqs += more
        where += more_where
        results += r3
        restarts += rs3
    # a multi-name request that died: ask again name by name to pin the name
    extra_reqs, extra_where = [], []
    for ri, r in enumerate(results):
        if "crash" in r and len(where[ri][2]) != 1:
            ci, kind, names = where[ri]
            c = cases[ci]
            base = {"dir": c["dir"]} if "dir" in c else {"files": c["files"]}
            for n in sorted(set(names)):
                extra_reqs.append(dict(base, seq=[n]))
                extra_where.append((ci, "pin", [n]))
    if extra_reqs:
        r2, rs2 = serve(harness, extra_reqs, env, per_req_timeout=60)
        reqs += extra_reqs
        where += extra_where
        results += r2
        restarts += rs2
    ctx.log("real code: %d requests, %d harness restarts, %.1fs" % (len(reqs), restarts, time.time() - t_real))
    default_limit = None
    if not quick and any("crash" in r for r in results if r):
        # once per thorough run: the same overflow under Go's default 1 GB stack limit (about 20 s)
        env_default = go_env({"TMPDIR": ctx.scratch})
        env_default.pop("C18_MAXSTACK", None)
        rd, _ = serve(harness, [{"files": {"a": '{"inherits": ["a"]}'}, "seq": ["a"]}], env_default, per_req_timeout=600)
        default_limit = rd[0].get("crash", "no-crash")
        ctx.log("self-cycle under the default stack limit:", default_limit)

    # request histories on one Resolver (the specification is history-free: every answer must be the one demanded
    # for that request alone)
    t_hist = time.time()
    loader_dies_on_cycles = any("crash" in r for r, w in zip(results, where) if w[1] in ("risky", "pin"))
    hreqs, hcases = [], []
    for ci, c in enumerate(cases):
        c["script"] = c.get("script") or make_script(rng, c, include_risky=not loader_dies_on_cycles)
        hreqs.append(dict({"dir": c["dir"]} if "dir" in c else {"files": c["files"]}, ops=c["script"]))
        hcases.append(ci)
    hres, hrestarts = serve(harness, hreqs, env, per_req_timeout=120)
    restarts += hrestarts
    hist_failures = []          # (size, key, what, replay)
    hist_ops = 0
    hist_stats = {}
    first_of_key = {}
    for ci, r in zip(hcases, hres):
        c = cases[ci]
        ops = c["script"]
        files_for_replay = c["files"] if c["meta"]["shape"] != "shipped" else {"(directory)": os.path.join(REPO, "targets")}
        if r is None or "crash" in r or "bad" in r:
            hist_failures.append((len(c["files"]), "history:process-death:" + str((r or {}).get("crash", "?")),
                                  "the loader process died while answering a sequence of requests on one Resolver",
                                  {"files": files_for_replay, "ops": ops, "stderr": (r or {}).get("stderr", "")[:300]}))
            continue
        for i, (op, got) in enumerate(zip(ops, r.get("script") or [])):
            hist_ops += 1
            hist_stats[op[0]] = hist_stats.get(op[0], 0) + 1
            exp = expect_op(c, op, kinds)
            dev = judge_op(exp, got)
            if dev is None:
                continue
            key = "history:%s:%s" % (op[0], dev)
            cand = (len(c["files"]), i, ci)
            if key not in first_of_key or cand < first_of_key[key][0]:
                first_of_key[key] = (cand, op, exp, got)
        if len(r.get("script") or []) != len(ops):
            hist_failures.append((len(c["files"]), "history:short-answer", "the harness answered fewer requests than were sent", {"ops": ops}))
    # shrink: is the failing request wrong on its own, after one earlier request, or only after the whole prefix?
    for key, ((size, i, ci), op, exp, got) in sorted(first_of_key.items()):
        c = cases[ci]
        ops = c["script"]
        base = {"dir": c["dir"]} if "dir" in c else {"files": c["files"]}
        cands = [[op]]
        seen_ops = []
        for q in ops[:i]:
            if q not in seen_ops:
                seen_ops.append(q)
                cands.append([q, op])
        cands.append(ops[:i + 1])
        cres, rs = serve(harness, [dict(base, ops=cd) for cd in cands], env, per_req_timeout=120)
        restarts += rs
        best = ops[:i + 1]
        best_got = got
        for cd, cr in zip(cands, cres):
            g = (cr.get("script") or [None])[-1] if cr and "crash" not in cr else None
            if (cr is None or "crash" in cr or judge_op(exp, g) is not None) and len(cd) < len(best):
                best, best_got = cd, g
        alone = len(best) == 1
        what = ("request %s is answered wrongly (%s)" % (op, key.split(":")[2]) if alone else
                "the answer to %s depends on earlier requests to the same Resolver (%s): after %s" % (op, key.split(":")[2], best[:-1][:4]))
        files_for_replay = c["files"] if c["meta"]["shape"] != "shipped" else {"(directory)": os.path.join(REPO, "targets")}
        hist_failures.append((size, key if not alone else "request:%s:%s" % (op[0], key.split(":")[2]), what,
                              {"files": files_for_replay, "ops": best, "got": best_got, "want": exp if exp[0] != "all" else "(all configurations)"}))
    ctx.log("request histories: %d scripts, %d requests, %d deviations, %.1fs" % (len(hreqs), hist_ops, len(first_of_key), time.time() - t_hist))

    # observations per (case, name): list of ('ok', cfg) | ('err', cls) | ('crash', kind)
    obs = {}
    all_obs = {}
    for ri, r in enumerate(results):
        ci, kind, names = where[ri]
        if "crash" in r:
            if len(names) == 1:
                obs.setdefault((ci, names[0]), []).append(("crash", r["crash"], r.get("stderr", "")))
            continue
        if "bad" in r:
            raise RuntimeError("harness rejected a request: %s" % r)
        for n, x in zip(names, r["res"]):
            if "ok" in x and x.get("ok") is not None and "err" not in x:
                obs.setdefault((ci, n), []).append(("ok", x["ok"]))
            elif x.get("err") in ("panic", "nil-config"):
                # a run-time panic inside Resolve (recovered by the harness) is a crash, not an error value
                obs.setdefault((ci, n), []).append(("crash", x["err"], x.get("msg", "")))
            else:
                obs.setdefault((ci, n), []).append(("err", x.get("err", "?"), x.get("msg", "")))
        if reqs[ri].get("all"):
            all_obs[ci] = ("err", r.get("all_err")) if r.get("all_err") else ("ok", {k: v.get("ok") for k, v in (r.get("all") or {}).items()})

    # ------------------------------------------------------------------ model
    mlines, mindex = [], []
    for ci, c in enumerate(cases):
        ls = model_lines(c["entries"], c["names"], model_kinds)
        mindex.append((len(mlines) + len(ls) - 5 * len(c["names"])))
        mlines += ls
    t_model = time.time()
    mout, mrc, merr = run_lines([modeld], mlines)
    if len(mout) != len(mlines):
        raise RuntimeError("modeld_c18 died: %d/%d lines\n%s" % (len(mout), len(mlines), merr[-2000:]))
    if any(l == "bad-op" for l in mout):
        bi = [i for i, l in enumerate(mout) if l == "bad-op"][0]
        raise RuntimeError("modeld_c18 rejected line %r" % mlines[bi][:300])
    ctx.log("model: %d lines, %.1fs" % (len(mlines), time.time() - t_model))

    # ------------------------------------------------------------------ judge
    stats = {"shape": {}, "density": {}, "expected": {}, "real": {}, "lineage_len": {}, "depth": {}, "model_load": {}}
    evaluations = 0
    nontrivial = set()
    inherited_decisive = {}     # field -> resolutions in which an ancestor's value reached the result
    spec_failures = []          # (size, key, what, replay)
    corr_mismatch = []
    specval_mismatch = []
    order_dep = []
    diamonds_shipped = 0
    crash_hits = 0
    samples = []

    def proj(cfg, ks):
        return {k: v for k, v in cfg.items() if k == "Name" or k in ks}

    def bump(d, k):
        d[k] = d.get(k, 0) + 1

    for ci, c in enumerate(cases):
        bump(stats["shape"], c["meta"]["shape"].split(":")[0])
        bump(stats["density"], c["meta"]["density"])
        dg = digest(c["files"]) if c["meta"]["shape"] != "shipped" else "shipped"
        size = len(c["files"])
        for ni, n in enumerate(c["names"]):
            exp = c["expect"][n]
            base = mindex[ci] + 5 * ni
            m_load, m_loadv, m_spec = (parse_model_outcome(mout[base + j]) for j in range(3))
            m_lin, m_acyc = mout[base + 3], mout[base + 4]
            bump(stats["expected"], exp[0] if exp[0] == "ok" else "err-" + exp[1])
            bump(stats["model_load"], m_load[0])
            replay = {"files": c["files"] if c["meta"]["shape"] != "shipped" else closure_files(c, n),
                      "name": n, "shape": c["meta"], "expected": exp}
            # -- the Python judge implements the Lean specification (validated on every case, model fields only)
            if exp[0] == "ok":
                e_model = proj(exp[1], model_kinds)
                if m_spec != ("ok", e_model) or m_lin != "ok " + ",".join(hx(x) for x in exp[2]):
                    specval_mismatch.append((dg, n, "spec", m_spec, exp))
                bump(stats["lineage_len"], min(len(exp[2]), 12))
                if len(exp[2]) != len(set(exp[2])) and c["meta"]["shape"] == "shipped":
                    diamonds_shipped += 1
                own = c["entries"][n]["fields"]
                for f, v in exp[1].items():
                    if f != "Name" and own.get(f) != v:
                        bump(inherited_decisive, f)
            else:
                if exp[1] == "cycle":
                    ok_m = m_spec == ("diverge",) and m_loadv[0] == "err"
                else:
                    ok_m = m_spec[0] == "err" and m_spec[1] == exp[1] and m_spec[2] == exp[2]
                if not ok_m:
                    specval_mismatch.append((dg, n, "spec-err", m_spec, exp))
            if (m_acyc == "true") == has_cycle_anywhere(c["entries"], n):
                specval_mismatch.append((dg, n, "acyclic", m_acyc, None))
            if m_load != m_spec or (m_load[0] != "diverge" and m_load != m_loadv):
                specval_mismatch.append((dg, n, "load/spec/loadv", (m_load, m_spec, m_loadv), None))
            # -- the real code
            os_ = obs.get((ci, n), [])
            if not os_:
                continue                      # a risky name beyond this tier's budget
            evaluations += len(os_)
            if exp[0] == "ok" and len(exp[2]) >= 2:
                nontrivial.add((dg, n))
            if len(samples) < 3 and exp[0] == "ok" and len(exp[2]) >= 3 and c["meta"]["shape"] != "shipped":
                samples.append({"files": c["files"], "name": n, "real": os_[0][1], "model": mout[base], "lineage": exp[2]})
            first = os_[0]
            for o in os_[1:]:
                if o[:2] != first[:2] and not (o[0] == "err" and first[0] == "err"):
                    order_dep.append((size, dg, n, first[:2], o[:2]))
            for o in os_[:1] + [x for x in os_[1:] if x[0] == "crash"]:
                bump(stats["real"], o[0] if o[0] != "err" else "err-" + o[1])
                rep = dict(replay, real=o[:2])
                # specification
                if o[0] == "crash":
                    crash_hits += 1
                    cyc_reachable = has_cycle_anywhere(c["entries"], n)
                    if cyc_reachable and o[1] == "stack-overflow":
                        ctx.report(KNOWN_CYCLE_KEY, "cyclic inherits: the process dies with a fatal stack overflow instead of returning an error",
                                   dict(rep, stderr=o[2][:300]))
                    elif o[1] == "hang":
                        spec_failures.append((size, "hang:" + ("cyclic-forest" if cyc_reachable else "acyclic-forest"), "resolution does not end within 60 s", rep))
                    else:
                        spec_failures.append((size, "crash:" + ("cyclic-forest" if cyc_reachable else "acyclic-forest") + ":" + o[1],
                                              "the loader crashed (%s) instead of returning a configuration or an error" % o[1], dict(rep, stderr=o[2][:300])))
                elif exp[0] == "err":
                    if o[0] == "ok":
                        spec_failures.append((size, "resolves-despite-%s-ancestor" % exp[1],
                                              "a description with a %s ancestor (%s) resolves to a configuration instead of an error" % (exp[1], exp[2]), rep))
                else:
                    if o[0] == "err":
                        key = ("shipped-unresolvable:" + n) if c["meta"]["shape"] == "shipped" else "spurious-error:" + o[1]
                        spec_failures.append((size, key, "a readable acyclic description fails to resolve: %s" % o[2][:200], rep))
                    else:
                        got = {k: v for k, v in o[1].items() if not k.startswith("?")}
                        if got != exp[1]:
                            for f in sorted(set(got) | set(exp[1])):
                                if got.get(f) != exp[1].get(f):
                                    spec_failures.append((size, "wrong-value:" + f,
                                                          "field %s of the resolved configuration is %r; the inheritance order %s demands %r" % (f, got.get(f), exp[2], exp[1].get(f)),
                                                          dict(rep, field=f, got=got.get(f), want=exp[1].get(f))))
                # correspondence (model fields only; `loadv` = what a terminating loader returns, `load` diverges where the code as written crashes)
                if o[0] == "crash":
                    agree = m_load == ("diverge",) and o[1] == "stack-overflow"
                elif o[0] == "err":
                    agree = m_loadv[0] == "err"
                else:
                    agree = m_loadv == ("ok", proj({k: v for k, v in o[1].items() if not k.startswith("?")}, model_kinds))
                if not agree:
                    corr_mismatch.append((size, dg, n, o[:2], m_load if o[0] == "crash" else m_loadv))
        # ResolveAll on the directory
        if ci in all_obs:
            a = all_obs[ci]
            onames = sorted(c["files"])
            want_err = any(c["expect"][n][0] != "ok" for n in onames)
            evaluations += 1
            if a[0] == "err":
                if a[1] == "panic":
                    spec_failures.append((len(c["files"]), "resolveall-panic", "ResolveAll panics", {"files": replay["files"]}))
                elif not want_err:
                    spec_failures.append((len(c["files"]), "resolveall-spurious-error", "ResolveAll fails on a directory whose files all resolve", {"files": replay["files"], "real": a}))
            else:
                if want_err:
                    spec_failures.append((len(c["files"]), "resolveall-ignores-unreadable", "ResolveAll succeeds although a file of the directory cannot be resolved", {"files": replay["files"]}))
                else:
                    for n in onames:
                        got = a[1].get(n)
                        if got is None or {k: v for k, v in got.items() if not k.startswith("?")} != c["expect"][n][1]:
                            spec_failures.append((len(c["files"]), "resolveall-differs:" + ("shipped" if c["meta"]["shape"] == "shipped" else "generated"),
                                                  "ResolveAll gives a different configuration for %s than the inheritance order demands" % n,
                                                  {"files": replay["files"], "name": n, "got": got, "want": c["expect"][n][1]}))
                            break

    # ------------------------------------------------------------------ verdict
    # spec failures: one report per class, the smallest failing forest first
    spec_failures += hist_failures
    evaluations += hist_ops
    spec_failures.sort(key=lambda x: x[0])
    for size, key, what, rep in spec_failures:
        ctx.report(key, what, rep)
    order_dep.sort()
    for size, dg, n, a, b in order_dep[:1]:
        ctx.report("order-dependent:" + dg + ":" + n, "the same name resolves differently depending on what was loaded before (%s vs %s)" % (a, b),
                   {"digest": dg, "name": n})
    if corr_mismatch:
        corr_mismatch.sort(key=lambda x: x[0])
        ctx.log("correspondence mismatches: %d, first: %s" % (len(corr_mismatch), str(corr_mismatch[0])[:600]))
        ctx.broken.append("correspondence real vs Lean model: %d resolutions differ" % len(corr_mismatch))
        if not ctx.violations:
            ctx.report_broken("correspondence C18 real-vs-model", {"first": corr_mismatch[:3]})
    if specval_mismatch:
        ctx.log("the Python judge and the Lean specification/model disagree: %d, first: %s" % (len(specval_mismatch), str(specval_mismatch[0])[:600]))
        ctx.broken.append("spec validation: checks/c18.py py_resolve vs Lean specResolve/load/acyclic: %d differ" % len(specval_mismatch))
        if not ctx.violations:
            ctx.report_broken("spec validation C18 python-judge-vs-lean-spec", {"first": [str(x)[:500] for x in specval_mismatch[:3]]})
    bad_thms = [n for n, s in st.items() if s != "ok"]
    if (bad_thms or facts.get("merge_found") is False) and not ctx.violations:
        ctx.report_broken("Props/C18: " + (", ".join(bad_thms) or "mergeConfig not found by the extractor"), {k: v for k, v in st.items() if v != "ok"})

    covered = sorted(f for f in kinds if inherited_decisive.get(f))
    if not coverage_ok:
        # the struct has fields the model lacks: acceptable only if each of them was exercised through inheritance on the
        # real code and judged by the specification without a failure
        gap_ok = bool(not_in_model) and all(f in covered for f in not_in_model) and not unknown_kind and not spec_failures
        if gap_ok and not ctx.violations:
            print("NOTE property=C18 model-coverage: Config has fields the Lean model does not have yet %s - judged on the real code by the "
                  "specification only (%s inherited-value resolutions, no failure); extend Model/Targets.lean" %
                  (not_in_model, {f: inherited_decisive.get(f, 0) for f in not_in_model}), flush=True)
            ctx.assumptions.append("config_fields_modelled is OPEN: fields %s are covered by tie (A) and the Python specification judge only" % not_in_model)
        elif not ctx.violations:
            ctx.report_broken("GenProofs/C18Coverage: config_fields_modelled", {"fields_not_in_model": not_in_model, "unknown_kind": unknown_kind,
                                                                                "build": (pc.stdout + pc.stderr)[-1500:]})
    ctx.coverage["samples"] = samples or [{"note": "no generated case with lineage >= 3 in this run"}]
    ctx.coverage["trusted_base"] += [
        "hand-written Lean model of internal/targets Load/resolveInheritance/mergeConfig, tied by (A) go/ast facts regenerated each run (field lists of Config/RawConfig, fields written by mergeConfig) and (B) a differential run of the real Resolver (subprocess) against the compiled model on the shipped targets and generated forests",
        "checks/c18.py: forest generator, independent JSON reader (parse_raw: encoding/json's treatment of null, unknown keys, duplicate keys, letter case, type mismatches) and the specification judge py_resolve (compared with the Lean specResolve on every case)",
        "harness/c18/main.go (reflection dump of the resolved Config; runtime/debug.SetMaxStack(8 MB) so that a stack overflow costs 0.2 s instead of 20 s)",
        "encoding/json, os.ReadFile, filepath.Join are not modelled: a file is `bad` or a decoded RawConfig",
    ]
    ctx.assumptions += [
        "Go's zero values are the loader's 'unset': an explicit \"\" / false / [] in a child does not override an ancestor (modelled as the code does it)",
        "diamonds: a description reached along two paths contributes twice to the lineage (lists repeat, and its scalars, re-asserted through a later parent, override an earlier parent's own value) - this is the depth-first order the property names; shipped targets with a repeated ancestor: %d" % diamonds_shipped,
        "file names are taken literally (no path separators in generated names)",
    ]
    return ctx.finish("proof", {
        "evaluations": evaluations,
        "distinct_nontrivial": len(nontrivial),
        "rule": "one evaluation = one Resolve (or ResolveAll) of the real code on one directory; non-trivial = the expected lineage has >= 2 descriptions; distinct by (directory digest, name)",
        "input_distribution": stats,
        "forests": len(cases),
        "shipped_targets": len(cases[0]["files"]) if cases and cases[0]["meta"]["shape"] == "shipped" else 0,
        "fields_in_config": len(kinds), "fields_not_in_model": not_in_model,
        "fields_with_inherited_value_decisive": {f: inherited_decisive.get(f, 0) for f in sorted(kinds)},
        "fields_never_decisive": sorted(set(kinds) - set(covered)),
        "cyclic_names_run_on_real_code": sum(len(c.get("risky_run", [])) for c in cases),
        "cyclic_names_total": sum(len(c["risky"]) for c in cases),
        "process_deaths_observed": crash_hits, "harness_restarts": restarts, "self_cycle_under_default_stack_limit": default_limit,
        "spec_failures_on_real_code": len(spec_failures),
        "correspondence_mismatches": len(corr_mismatch), "spec_validation_mismatches": len(specval_mismatch),
        "order_dependence": len(order_dep),
        "request_histories": {"scripts": len(hreqs), "requests": hist_ops, "by_op": hist_stats, "deviations": len(first_of_key),
                              "cyclic_names_in_scripts": not loader_dies_on_cycles},
        "tie_A": {"config_fields": len(facts["config"]), "merged_fields": len(facts["merged"]), "merge_found": facts.get("merge_found")},
    })


def run_cmd(cmd):
    return subprocess.run(cmd, capture_output=True, text=True)
