import LlgoVerif.Model.Slice
/-!
Machine-integer (`int` = two's-complement int64, `uintptr` = mod 2^64) rendering of the arithmetic of
`runtime/internal/runtime/z_slice.go` that `Model/Slice.lean` does with mathematical integers:
`nextslicecap` (with its `for` loop and the "did `newcap` overflow" tests), `GrowSlice`
(`newLen = oldLen + num`, `uintptr(newCap * etSize)`, `uintptr(oldLen * etSize)`) and `SliceAppend`
(`oldLen * etSize`, `uintptr(num * etSize)`).  `MakeSlice` already models its `uintptr` conversions
(`Model/Slice.lean`); its exactness theorem is in `Lemmas/Slice64.lean`.

An `int` value is represented by the integer it denotes (always inside `[-2^63, 2^63)`); every operation that can
wrap in Go is followed by `wrap`.  `>> 2` on an `int` is floor division by 4; `uint(x)` is `x mod 2^64`.

`GrowSlice64`/`SliceAppend64` take a flag `lenCheck`: `false` is the unchanged tree (no test of the wrapped
`newLen`), `true` the tree with `fixes/C05-3.diff` (`if newLen < 0 { panic("growslice: len out of range") }`, as in
Go's own `growslice`).  The check probes the real code to learn which one is live.
-/
namespace LlgoVerif.Slice

/-- the int64 value an integer wraps to (Go `int` arithmetic on a 64-bit target) -/
def wrap (x : Int) : Int := (x + 2 ^ 63) % 2 ^ 64 - 2 ^ 63

/-- `uint(x)` of an `int` (as an integer) -/
def toU (x : Int) : Int := x % 2 ^ 64

/-- the value is a representable `int` -/
def InI64 (x : Int) : Prop := -2 ^ 63 ≤ x ∧ x < 2 ^ 63

instance (x : Int) : Decidable (InI64 x) := by unfold InI64; infer_instance

/-- how a machine-level operation can fail -/
inductive Err64 where
  | panic     -- a Go run-time panic
  | ub        -- undefined behaviour in C (`memcpy` on overlapping ranges)
  | diverge   -- the loop of `nextslicecap` is outside the domain on which its termination is proved
  deriving DecidableEq, Repr

def Err.to64 : Err → Err64
  | .panic => .panic
  | .ub => .ub

/-- the mathematical-integer result read as a machine-level result -/
def lift64 {α : Type} : Except Err α → Except Err64 α
  | .ok a => .ok a
  | .error e => .error e.to64

/-- termination measure of the machine loop (see `capLoop64`).  While the loop continues `newcap` is in
    `[0, newLen) ⊆ [0, 2^63)`.  Below `2^63 - 768` an iteration adds at least 192 (or wraps to a negative value, which
    ends the loop).  In the last 768 values `newcap + 768` itself wraps, `>> 2` of the negative sum is about `-2^61`,
    and `newcap` *drops* to `3·2^61 ± 768`; from there the next value is `15·2^59 ± 768`, and the one after wraps.
    So: rank 0 for the last station, 1 for the one before, 2 for the top window, `3 + (2^63 - newcap)` elsewhere. -/
def capRank (c : Int) : Nat :=
  if 15 * 2 ^ 59 - 768 ≤ c ∧ c ≤ 15 * 2 ^ 59 + 429 then 0
  else if 3 * 2 ^ 61 - 768 ≤ c ∧ c ≤ 3 * 2 ^ 61 + 190 then 1
  else if 2 ^ 63 - 768 ≤ c then 2
  else 3 + (2 ^ 63 - c).toNat

/-! The termination proof of the machine loop needs these facts before the definition. -/
theorem wrap_id (x : Int) (h : -2 ^ 63 ≤ x ∧ x < 2 ^ 63) : wrap x = x := by unfold wrap; omega
theorem wrap_hi (x : Int) (h : 2 ^ 63 ≤ x ∧ x < 2 ^ 64 + 2 ^ 63) : wrap x = x - 2 ^ 64 := by unfold wrap; omega
theorem toU_nonneg (x : Int) (h : 0 ≤ x ∧ x < 2 ^ 64) : toU x = x := by unfold toU; omega
theorem toU_neg (x : Int) (h : -2 ^ 63 ≤ x ∧ x < 0) : toU x = x + 2 ^ 64 := by unfold toU; omega

theorem capRank_B (c : Int) (h : 15 * 2 ^ 59 - 768 ≤ c ∧ c ≤ 15 * 2 ^ 59 + 429) : capRank c = 0 := by
  unfold capRank; rw [if_pos h]
theorem capRank_A (c : Int) (h : 3 * 2 ^ 61 - 768 ≤ c ∧ c ≤ 3 * 2 ^ 61 + 190) : capRank c = 1 := by
  unfold capRank; rw [if_neg (by omega), if_pos h]
theorem capRank_W (c : Int) (h : 2 ^ 63 - 768 ≤ c) : capRank c = 2 := by
  unfold capRank; rw [if_neg (by omega), if_neg (by omega), if_pos h]
theorem capRank_O (c : Int) (hb : ¬ (15 * 2 ^ 59 - 768 ≤ c ∧ c ≤ 15 * 2 ^ 59 + 429))
    (ha : ¬ (3 * 2 ^ 61 - 768 ≤ c ∧ c ≤ 3 * 2 ^ 61 + 190)) (hw : c < 2 ^ 63 - 768) :
    capRank c = 3 + (2 ^ 63 - c).toNat := by
  unfold capRank; rw [if_neg hb, if_neg ha, if_neg (by omega)]
theorem capRank_le (c : Int) : capRank c ≤ 3 + (2 ^ 63 - c).toNat := by
  unfold capRank; split
  · omega
  · split
    · omega
    · split <;> omega

/-- one iteration leaves the loop or lowers the rank -/
theorem capRank_step (newLen newcap : Int) (h : 0 < newLen ∧ newLen < 2 ^ 63 ∧ 0 ≤ newcap ∧ newcap < 2 ^ 63)
    (hc : ¬ toU (wrap (newcap + wrap (newcap + 768) / 4)) ≥ toU newLen) :
    capRank (wrap (newcap + wrap (newcap + 768) / 4)) < capRank newcap := by
  rw [toU_nonneg newLen (by omega)] at hc
  by_cases hw : newcap < 2 ^ 63 - 768
  · rw [wrap_id (newcap + 768) (by omega)] at hc ⊢
    generalize hd : (newcap + 768) / 4 = d at hc ⊢
    by_cases hs : newcap + d < 2 ^ 63
    · rw [wrap_id _ (by omega)] at hc ⊢
      rw [toU_nonneg _ (by omega)] at hc
      by_cases hA : 3 * 2 ^ 61 - 768 ≤ newcap ∧ newcap ≤ 3 * 2 ^ 61 + 190
      · rw [capRank_A _ hA, capRank_B _ (by omega)]; omega
      · rw [capRank_O newcap (by omega) hA hw]
        have := capRank_le (newcap + d)
        omega
    · exfalso
      rw [wrap_hi _ (by omega), toU_neg _ (by omega)] at hc
      omega
  · rw [wrap_hi (newcap + 768) (by omega)] at hc ⊢
    generalize hd : (newcap + 768 - 2 ^ 64) / 4 = d at hc ⊢
    rw [wrap_id _ (by omega)] at hc ⊢
    rw [capRank_W newcap (by omega), capRank_A _ (by omega)]; omega

/-- the `for { … }` loop of `nextslicecap` on int64:
    `newcap += (newcap + 3*threshold) >> 2; if uint(newcap) >= uint(newLen) { break }`.
    The recursion is guarded by the code's own precondition ("newLen is guaranteed to be larger than zero") and by
    `0 ≤ newcap` (a capacity); outside it the model answers `none` (for instance `newLen = -1, newcap = -768` is a
    fixed point of the step, the real loop would not end). -/
def capLoop64 (newLen newcap : Int) : Option Int :=
  let nc := wrap (newcap + wrap (newcap + 768) / 4)
  if hc : toU nc ≥ toU newLen then some nc
  else if _h : 0 < newLen ∧ newLen < 2 ^ 63 ∧ 0 ≤ newcap ∧ newcap < 2 ^ 63 then capLoop64 newLen nc
  else none
termination_by capRank newcap
decreasing_by exact capRank_step newLen newcap (by assumption) (by assumption)

/-- `nextslicecap(newLen, oldCap)` on int64 -/
def nextslicecap64 (newLen oldCap : Int) : Option Int :=
  let newcap := oldCap
  let doublecap := wrap (newcap + newcap)
  if newLen > doublecap then some newLen
  else if oldCap < 256 then some doublecap
  else
    match capLoop64 newLen newcap with
    | none => none
    | some newcap => if newcap ≤ 0 then some newLen else some newcap

/-- `GrowSlice(src, num, etSize)` on int64 / uintptr -/
def GrowSlice64 (lenCheck : Bool) (m : Mem) (src : Slice) (num etSize : Int) : Except Err64 (Mem × Slice) :=
  let oldLen := src.len
  let newLen := wrap (oldLen + num)
  if lenCheck = true ∧ newLen < 0 then .error .panic       -- fixes/C05-3.diff; absent from the unchanged tree
  else if newLen > src.cap then
    match nextslicecap64 newLen src.cap with
    | none => .error .diverge
    | some newCap =>
      let r := allocZ m (uintptr (wrap (newCap * etSize)))
      let p := r.1
      match (if oldLen ≠ 0 then memcpy r.2 p src.data (uintptr (wrap (oldLen * etSize))) else .ok r.2) with
      | .error e => .error e.to64
      | .ok m2 => .ok (m2, { data := p, len := newLen, cap := newCap })
  else .ok (m, { src with len := newLen })

/-- `SliceAppend(src, data, num, etSize)` on int64 / uintptr (the tree after `fixes/C05-1.diff`: no zero-size
    shortcut, `Memmove` for the appended values) -/
def SliceAppend64 (lenCheck : Bool) (m : Mem) (src : Slice) (data : Nat) (num etSize : Int) :
    Except Err64 (Mem × Slice) :=
  let oldLen := src.len
  match GrowSlice64 lenCheck m src num etSize with
  | .error e => .error e
  | .ok (m1, s1) =>
    .ok (memmove m1 (advance s1.data (wrap (oldLen * etSize))) data (uintptr (wrap (num * etSize))), s1)

end LlgoVerif.Slice
