/-! placeholder driver (property C16 not built yet) -/
def main : IO Unit := IO.println "bad-op"
