import LlgoVerif.Model.TypeStr
namespace LlgoVerif.Types
end LlgoVerif.Types
