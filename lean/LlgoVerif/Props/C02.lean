import LlgoVerif.Lemmas.Arith
/-!
# C02 — numeric operators and conversions are exact for every operand value

Fixed property-level theorems.  The per-operator lowering obligations (`<Op>_<type>[_<type>]_spec`:
"the IR llgo emits for this operator at this type computes `GoArith.<op>` for ALL operands, with no undefined
behaviour and no poison") are REGENERATED from the compiler's output into `Gen/C02_*.lean` on every run.

The theorems below show that the specification those obligations refer to (`Spec/GoArith.lean`, stated on
`Int` values) says what the property says, for every width `w`.
-/
namespace LlgoVerif.C02
open LlgoVerif LlgoVerif.Arith

/-- the most negative integer divided by -1 is itself … -/
theorem quo_minInt_negOne (hw : 0 < w) :
    GoArith.quo true (BitVec.intMin w) (BitVec.allOnes w) = .ok (BitVec.intMin w) := by
  rw [quo_signed]
  have hne : BitVec.allOnes w ≠ 0#w := by
    intro h; have := congrArg BitVec.toInt h; simp [BitVec.toInt_allOnes, hw] at this
  simp only [hne, if_false]
  rw [← BitVec.neg_one_eq_allOnes, BitVec.intMin_sdiv_neg_one]

/-- … with remainder 0 -/
theorem rem_minInt_negOne (hw : 0 < w) :
    GoArith.rem true (BitVec.intMin w) (BitVec.allOnes w) = .ok 0#w := by
  rw [rem_signed]
  have hne : BitVec.allOnes w ≠ 0#w := by
    intro h; have := congrArg BitVec.toInt h; simp [BitVec.toInt_allOnes, hw] at this
  simp only [hne, if_false, srem_allOnes _ hw]

/-- division and remainder by zero panic (signed and unsigned), and only then -/
theorem quo_panics_iff (s : Bool) (x y : BitVec w) :
    (GoArith.quo s x y = .error .divZero) ↔ y = 0#w := by
  unfold GoArith.quo
  rw [← val_eq_zero s y]
  split <;> simp_all

theorem rem_panics_iff (s : Bool) (x y : BitVec w) :
    (GoArith.rem s x y = .error .divZero) ↔ y = 0#w := by
  unfold GoArith.rem
  rw [← val_eq_zero s y]
  split <;> simp_all

/-- a shift count at or beyond the operand width gives 0 for `<<` … -/
theorem shl_ge_width (s : Bool) (x : BitVec w) (n : Nat) (h : w ≤ n) : GoArith.shlMath s x n = 0#w := by
  rw [shl_spec]; simp [GoArith.shlE, h]

/-- … 0 for an unsigned `>>` … -/
theorem shr_ge_width_unsigned (x : BitVec w) (n : Nat) (h : w ≤ n) : GoArith.shrMath false x n = 0#w := by
  rw [shr_spec]; simp [GoArith.shrE, h]

/-- … and the sign fill for a signed `>>`, whatever the width of the count's own type
    (the count enters as a natural number: `GoArith.shr` converts it from its own type) -/
theorem shr_ge_width_signed (x : BitVec w) (n : Nat) (h : w ≤ n) :
    GoArith.shrMath true x n = x.sshiftRight (w - 1) := by
  rw [shr_spec]; simp [GoArith.shrE, h]

/-- a negative shift count panics, a non-negative one never does -/
theorem shl_panics_iff (sx sy : Bool) (x : BitVec w) (y : BitVec u) :
    (∃ p, GoArith.shl sx sy x y = .error p) ↔ GoArith.val sy y < 0 := by
  unfold GoArith.shl; split <;> simp_all

theorem shr_panics_iff (sx sy : Bool) (x : BitVec w) (y : BitVec u) :
    (∃ p, GoArith.shr sx sy x y = .error p) ↔ GoArith.val sy y < 0 := by
  unfold GoArith.shr; split <;> simp_all

/-- integer results wrap: the specification equals two's-complement machine arithmetic -/
theorem add_wraps (s : Bool) (x y : BitVec w) : GoArith.add s x y = x + y := add_spec s x y
theorem sub_wraps (s : Bool) (x y : BitVec w) : GoArith.sub s x y = x - y := sub_spec s x y
theorem mul_wraps (s : Bool) (x y : BitVec w) : GoArith.mul s x y = x * y := mul_spec s x y

/-- conversions sign- or zero-extend according to the SOURCE type: widening preserves the value -/
theorem conv_widen_signed (x : BitVec w) (h : w ≤ w') : (GoArith.conv true w' x).toInt = x.toInt := by
  show (BitVec.signExtend w' x).toInt = x.toInt
  exact BitVec.toInt_signExtend_of_le h

theorem conv_widen_unsigned (x : BitVec w) (h : w ≤ w') : (GoArith.conv false w' x).toNat = x.toNat := by
  simp only [GoArith.conv, GoArith.val, Bool.false_eq_true, if_false, BitVec.ofInt_natCast, BitVec.toNat_ofNat]
  exact Nat.mod_eq_of_lt (Nat.lt_of_lt_of_le x.isLt (Nat.pow_le_pow_right (by omega) h))

/-- hypotheses of the theorems above are satisfiable at a concrete width -/
example : GoArith.quo true (BitVec.intMin 8) (BitVec.allOnes 8) = .ok (BitVec.intMin 8) := quo_minInt_negOne (by decide)

end LlgoVerif.C02
