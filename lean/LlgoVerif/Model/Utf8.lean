/-!
Model of `runtime/internal/runtime/utf8.go` (`decoderune`, `encoderune`) and of the string
iteration / conversion loops built on it (`z_string.go`: `StringToRunes`, `StringFromRunes`,
`StringIterNext` step).

Bytes and runes are natural numbers (a byte is `< 256`).  The Go source uses bit masks and
shifts on fixed-width integers; for the operand ranges that reach them they are rendered as
arithmetic (`b & 0x3F = b % 64`, `x << 6 = x * 64`, `t | y = t + y` when the bits are disjoint,
`byte(r >> 6) = (r / 64) % 256`).  The correspondence check runs the real functions on every
rune and on byte strings around every boundary to tie this rendering to the code.
-/
namespace LlgoVerif.Utf8

def runeError : Nat := 0xFFFD
def maxRune : Nat := 0x10FFFF
def surrogateMin : Nat := 0xD800
def surrogateMax : Nat := 0xDFFF

def isCont (b : Nat) : Bool := 0x80 ≤ b && b ≤ 0xBF

/-- `decoderune(s, k)` with `s[k:]` given as a list, returning `(rune, width)`;
    the Go function returns `pos = k + width`.  Assumes nothing about the first byte
    (the Go callers only call it for `s[k] >= 0x80`, the model is total and agrees with the
    code on ASCII first bytes as well: `(runeError, 1)`). -/
def decodeRune (s : List Nat) : Nat × Nat :=
  match s with
  | [] => (runeError, 1)
  | b0 :: rest =>
    if 0xC0 ≤ b0 && b0 < 0xE0 then
      match rest with
      | b1 :: _ =>
        if isCont b1 then
          let r := (b0 % 32) * 64 + b1 % 64
          if 0x7F < r then (r, 2) else (runeError, 1)
        else (runeError, 1)
      | _ => (runeError, 1)
    else if 0xE0 ≤ b0 && b0 < 0xF0 then
      match rest with
      | b1 :: b2 :: _ =>
        if isCont b1 && isCont b2 then
          let r := (b0 % 16) * 4096 + (b1 % 64) * 64 + b2 % 64
          if 0x7FF < r && !(surrogateMin ≤ r && r ≤ surrogateMax) then (r, 3) else (runeError, 1)
        else (runeError, 1)
      | _ => (runeError, 1)
    else if 0xF0 ≤ b0 && b0 < 0xF8 then
      match rest with
      | b1 :: b2 :: b3 :: _ =>
        if isCont b1 && isCont b2 && isCont b3 then
          let r := (b0 % 8) * 262144 + (b1 % 64) * 4096 + (b2 % 64) * 64 + b3 % 64
          if 0xFFFF < r && r ≤ maxRune then (r, 4) else (runeError, 1)
        else (runeError, 1)
      | _ => (runeError, 1)
    else (runeError, 1)

/-- `encoderune(p, r)` for `r` given as the `uint32` reinterpretation of the rune
    (negative runes are values above `maxRune`). -/
def encodeRune (i : Nat) : List Nat :=
  if i ≤ 0x7F then [i]
  else if i ≤ 0x7FF then [0xC0 + i / 64, 0x80 + i % 64]
  else if i > maxRune || (surrogateMin ≤ i && i ≤ surrogateMax) then
    [0xEF, 0xBF, 0xBD]  -- runeError
  else if i ≤ 0xFFFF then [0xE0 + i / 4096, 0x80 + (i / 64) % 64, 0x80 + i % 64]
  else [0xF0 + i / 262144, 0x80 + (i / 4096) % 64, 0x80 + (i / 64) % 64, 0x80 + i % 64]

/-- one step of `for i, r := range s` / `StringIterNext`: ASCII fast path else `decoderune` -/
def nextRune (s : List Nat) : Nat × Nat :=
  match s with
  | [] => (runeError, 1)
  | b :: _ => if b < 0x80 then (b, 1) else decodeRune s

/-- `[]rune(s)` (`StringToRunes`): decode until the input is exhausted.
    `fuel` is the length bound (each step consumes at least one byte). -/
def toRunesAux : Nat → List Nat → List Nat
  | 0, _ => []
  | _, [] => []
  | fuel+1, s => let p := nextRune s; p.1 :: toRunesAux fuel (s.drop p.2)

def toRunes (s : List Nat) : List Nat := toRunesAux s.length s

/-- `string(rs)` (`StringFromRunes`) -/
def fromRunes (rs : List Nat) : List Nat := rs.flatMap encodeRune

/-- a Unicode scalar value -/
def validScalar (r : Nat) : Prop := r ≤ maxRune ∧ ¬ (surrogateMin ≤ r ∧ r ≤ surrogateMax)

instance (r : Nat) : Decidable (validScalar r) := by unfold validScalar; infer_instance

end LlgoVerif.Utf8
