import LlgoVerif.Lemmas.HMap
/-!
# C06 — maps behave as finite maps under every operation history and key type

Property theorems only.  Model: `LlgoVerif/Model/HMap.lean` (bucket-level transcription of llgo's `map.go`),
specification: `LlgoVerif/Spec/AssocList.lean`, lemmas and the invariant `WF`: `LlgoVerif/Lemmas/HMap.lean`.

`abs : HMap K V → AList K V` reads a table as the association list of its filled cells; two association lists
denote the same map when one is a permutation of the other (`List.Perm`).  `Inv o h` = `WF o h`, or the bucket
array is not allocated yet.  `HashOK o` = what the runtime assumes about the hasher and `==` (no reflexivity:
NaN keys are covered).

Stages of DESIGN.md §4 C06: (1) no growth, (2) growth incl. same-size growth, (3) delete with the emptyRest
back-propagation, (4) clear are PROVED here for every table state and every history; (5) iteration is stated
(`IterationSpec`) and is FALSE for the code as it is (`iteration_counterexample`).
-/
namespace LlgoVerif.HMap
open LlgoVerif.AssocList
variable {K V : Type} [Inhabited K] [Inhabited V]

/-! ## single operations -/

/-- `make(map[K]V, hint)` is the empty map and satisfies the invariant. -/
theorem makemap_refines (o : Ops K) (hint : Nat) (r : Rand) :
    Inv o (makemap hint r : HMap K V) ∧ abs (makemap hint r : HMap K V) = [] :=
  makemap_spec o hint r

/-- `m[k]` / `v, ok := m[k]` return what the association list holds for `k`; the table is unchanged.
    Stages 1+2: also while the map is growing (old buckets not yet evacuated are searched). -/
theorem mapaccess_refines {o : Ops K} (ho : HashOK o) {h : HMap K V} (hi : Inv o h) (k : K) :
    (∀ r h', mapaccess o h k = .ok (r, h') →
      r.map (·.val) = lookup o.eq k (abs h) ∧ Inv o h' ∧ abs h' = abs h) ∧
    (∀ e, mapaccess o h k = .error e → e = .unhashable ∧ o.unhashable k = true) :=
  mapaccess_spec ho hi k

/-- `m[k] = v` is `insert`, for every table state: in place, into a free cell, into a new overflow bucket, and
    across `hashGrow` (doubling and same-size), `growWork`, `evacuate`.  The only error besides the unhashable-key
    panic is the model's bound on the number of `goto again` passes (`Err.loop`). -/
theorem mapassign_refines {o : Ops K} (ho : HashOK o) {h : HMap K V} (hi : Inv o h) (k : K) (v : V) :
    (∀ h', mapassign o h k v = .ok h' →
      WF o h' ∧ (abs h').Perm (insert o.eq o.needKeyUpdate k v (abs h))) ∧
    (∀ e, mapassign o h k v = .error e → (e = .unhashable ∧ o.unhashable k = true) ∨ e = .loop) :=
  mapassign_spec ho hi k v

/-- `delete(m, k)` is `erase` (stage 3: including the emptyRest back-propagation, and during growth). -/
theorem mapdelete_refines {o : Ops K} (ho : HashOK o) {h : HMap K V} (hi : Inv o h) (k : K) :
    (∀ h', mapdelete o h k = .ok h' → Inv o h' ∧ (abs h').Perm (erase o.eq k (abs h))) ∧
    (∀ e, mapdelete o h k = .error e → e = .unhashable ∧ o.unhashable k = true) :=
  mapdelete_spec ho hi k

/-- `clear(m)` is the empty map (stage 4; with a `memclr` that clears, which is what `map.go` assumes). -/
theorem mapclear_refines {o : Ops K} {h : HMap K V} (hi : Inv o h) :
    Inv o (mapclear h) ∧ abs (mapclear h) = [] :=
  mapclear_spec hi

/-- `len(m)` is the number of entries. -/
theorem maplen_refines {o : Ops K} {h : HMap K V} (hi : Inv o h) : h.count = len (abs h) :=
  inv_count hi

/-- one evacuation step moves entries without losing or duplicating any (stage 2) -/
theorem evacuate_preserves {o : Ops K} (ho : HashOK o) {h : HMap K V} (hw : WF o h) {j : Nat}
    (hjs : ∀ oa, h.old = some oa → j < oa.size) :
    ∃ h', evacuate o h j = .ok h' ∧ WF o h' ∧ (abs h').Perm (abs h) :=
  let ⟨h', e, p⟩ := evacuate_spec ho hw hjs
  ⟨h', e, p.wf, p.perm⟩

/-- starting a growth changes nothing observable (stage 2) -/
theorem hashGrow_preserves {o : Ops K} {h : HMap K V} (hw : WF o h) (hold : h.old = none) :
    WF o (hashGrow h) ∧ abs (hashGrow h) = abs h :=
  let ⟨w, a, _⟩ := hashGrow_spec hw hold
  ⟨w, a⟩

/-! ## all histories -/

inductive Op (K V : Type) where
  | assign (k : K) (v : V)
  | access (k : K)
  | delete (k : K)
  | clear
  | len

inductive Obs (V : Type) where
  | done
  | val (v : Option V)      -- `none`: zero value, ok = false
  | len (n : Nat)
  | panic                   -- "hash of unhashable type"

/-- one operation on the table; a panic leaves the table as it was -/
def stepModel (o : Ops K) (h : HMap K V) : Op K V → Except Err (Obs V × HMap K V)
  | .assign k v =>
    match mapassign o h k v with
    | .ok h' => .ok (.done, h')
    | .error .unhashable => .ok (.panic, h)
    | .error e => .error e
  | .access k =>
    match mapaccess o h k with
    | .ok (r, h') => .ok (.val (r.map (·.val)), h')
    | .error .unhashable => .ok (.panic, h)
    | .error e => .error e
  | .delete k =>
    match mapdelete o h k with
    | .ok h' => .ok (.done, h')
    | .error .unhashable => .ok (.panic, h)
    | .error e => .error e
  | .clear => .ok (.done, mapclear h)
  | .len => .ok (.len h.count, h)

def runModel (o : Ops K) : HMap K V → List (Op K V) → Except Err (List (Obs V) × HMap K V)
  | h, [] => .ok ([], h)
  | h, op :: ops =>
    match stepModel o h op with
    | .error e => .error e
    | .ok (ob, h') =>
      match runModel o h' ops with
      | .error e => .error e
      | .ok (obs, h'') => .ok (ob :: obs, h'')

/-- the same operation on the specification -/
def stepSpec (o : Ops K) (m : AList K V) : Op K V → Obs V × AList K V
  | .assign k v => if o.unhashable k then (.panic, m) else (.done, insert o.eq o.needKeyUpdate k v m)
  | .access k => if o.unhashable k then (.panic, m) else (.val (lookup o.eq k m), m)
  | .delete k => if o.unhashable k then (.panic, m) else (.done, erase o.eq k m)
  | .clear => (.done, [])
  | .len => (.len (len m), m)

def runSpec (o : Ops K) : AList K V → List (Op K V) → List (Obs V) × AList K V
  | m, [] => ([], m)
  | m, op :: ops =>
    let (ob, m') := stepSpec o m op
    let (obs, m'') := runSpec o m' ops
    (ob :: obs, m'')

/-- a key type whose hasher cannot panic has no unhashable keys (only interface-holding key types do) -/
def PanicOK (o : Ops K) : Prop := o.hashMightPanic = false → ∀ k, o.unhashable k = false

theorem step_refines {o : Ops K} (ho : HashOK o) (hp : PanicOK o) {h : HMap K V} (hi : Inv o h)
    {m : AList K V} (hm : (abs h).Perm m) (op : Op K V) :
    (∀ ob h', stepModel o h op = .ok (ob, h') →
      ob = (stepSpec o m op).1 ∧ Inv o h' ∧ (abs h').Perm (stepSpec o m op).2) ∧
    (∀ e, stepModel o h op = .error e → e = .loop) := by
  have hnd := inv_nodup hi
  cases op with
  | assign k v =>
    obtain ⟨a1, a2⟩ := mapassign_spec ho hi k v
    simp only [stepModel, stepSpec]
    cases hr : mapassign o h k v with
    | ok h' =>
      obtain ⟨w, p⟩ := a1 h' hr
      have hu : o.unhashable k = false := by
        cases hu : o.unhashable k with
        | false => rfl
        | true => simp [mapassign, hashKey, hu, bind, Except.bind] at hr
      simp only [hu, Bool.false_eq_true, if_false]
      refine ⟨fun ob h'' e => ?_, (fun e he => by cases he)⟩
      cases e
      exact ⟨rfl, Or.inl w, p.trans (insert_perm ho.eqok hm hnd)⟩
    | error e =>
      rcases a2 e hr with ⟨rfl, hu⟩ | rfl
      · simp only [hu, if_true]
        refine ⟨fun ob h'' e => ?_, (fun e he => by cases he)⟩
        cases e
        exact ⟨rfl, hi, hm⟩
      · exact ⟨(fun ob h'' e => by cases e), (fun e he => by cases he; rfl)⟩
  | access k =>
    obtain ⟨a1, a2⟩ := mapaccess_spec ho hi k
    simp only [stepModel, stepSpec]
    cases hr : mapaccess o h k with
    | ok p =>
      obtain ⟨r, h'⟩ := p
      obtain ⟨e1, e2, e3⟩ := a1 r h' hr
      have hu : o.unhashable k = false := by
        cases hu : o.unhashable k with
        | false => rfl
        | true =>
          exfalso
          by_cases hmp : o.hashMightPanic = false
          · rw [hp hmp k] at hu; cases hu
          · have hmp' : o.hashMightPanic = true := by simpa using hmp
            unfold mapaccess at hr
            simp only [hmp', if_true, hashKey, hu, bind, Except.bind] at hr
            split at hr <;> cases hr
      simp only [hu, Bool.false_eq_true, if_false]
      refine ⟨fun ob h'' e => ?_, (fun e he => by cases he)⟩
      cases e
      refine ⟨?_, e2, by rw [e3]; exact hm⟩
      rw [e1, lookup_perm ho.eqok hm hnd]
    | error e =>
      obtain ⟨rfl, hu⟩ := a2 e hr
      simp only [hu, if_true]
      refine ⟨fun ob h'' e => ?_, (fun e he => by cases he)⟩
      cases e
      exact ⟨rfl, hi, hm⟩
  | delete k =>
    obtain ⟨a1, a2⟩ := mapdelete_spec ho hi k
    simp only [stepModel, stepSpec]
    cases hr : mapdelete o h k with
    | ok h' =>
      obtain ⟨w, p⟩ := a1 h' hr
      have hu : o.unhashable k = false := by
        cases hu : o.unhashable k with
        | false => rfl
        | true =>
          exfalso
          by_cases hmp : o.hashMightPanic = false
          · rw [hp hmp k] at hu; cases hu
          · have hmp' : o.hashMightPanic = true := by simpa using hmp
            unfold mapdelete at hr
            simp only [hmp', if_true, hashKey, hu, bind, Except.bind] at hr
            split at hr <;> cases hr
      simp only [hu, Bool.false_eq_true, if_false]
      refine ⟨fun ob h'' e => ?_, (fun e he => by cases he)⟩
      cases e
      exact ⟨rfl, w, p.trans (erase_perm ho.eqok hm hnd)⟩
    | error e =>
      obtain ⟨rfl, hu⟩ := a2 e hr
      simp only [hu, if_true]
      refine ⟨fun ob h'' e => ?_, (fun e he => by cases he)⟩
      cases e
      exact ⟨rfl, hi, hm⟩
  | clear =>
    obtain ⟨c1, c2⟩ := mapclear_spec hi
    simp only [stepModel, stepSpec]
    refine ⟨fun ob h'' e => ?_, (fun e he => by cases he)⟩
    cases e
    exact ⟨rfl, c1, by rw [c2]⟩
  | len =>
    simp only [stepModel, stepSpec]
    refine ⟨fun ob h'' e => ?_, (fun e he => by cases he)⟩
    cases e
    refine ⟨?_, hi, hm⟩
    rw [inv_count hi, AssocList.len, hm.length_eq]

/-- **Refinement for all histories.**  From any table that satisfies the invariant and stands for `m`, every
    sequence of assign / access / delete / clear / len — of any length, through every growth, same-size growth
    and overflow bucket — produces exactly the observations of the association list (lookups return the most
    recently stored value or "absent", `len` is the number of entries, unhashable keys panic and change
    nothing), the invariant holds afterwards and the table stands for the specification's final state. -/
theorem history_refines {o : Ops K} (ho : HashOK o) (hp : PanicOK o) (ops : List (Op K V)) :
    ∀ (h : HMap K V) (m : AList K V), Inv o h → (abs h).Perm m →
    (∀ obs h', runModel o h ops = .ok (obs, h') →
      obs = (runSpec o m ops).1 ∧ Inv o h' ∧ (abs h').Perm (runSpec o m ops).2) ∧
    (∀ e, runModel o h ops = .error e → e = .loop) := by
  induction ops with
  | nil =>
    intro h m hi hm
    refine ⟨fun obs h' e => ?_, (fun e he => by cases he)⟩
    cases e
    exact ⟨rfl, hi, hm⟩
  | cons op ops ih =>
    intro h m hi hm
    obtain ⟨s1, s2⟩ := step_refines ho hp hi hm op
    simp only [runModel, runSpec]
    cases hs : stepModel o h op with
    | error e =>
      exact ⟨(fun obs h' e' => by cases e'), (fun e' he' => by cases he'; exact s2 e hs)⟩
    | ok p =>
      obtain ⟨ob, h1⟩ := p
      obtain ⟨e1, i1, p1⟩ := s1 ob h1 hs
      obtain ⟨r1, r2⟩ := ih h1 (stepSpec o m op).2 i1 p1
      simp only
      cases hr : runModel o h1 ops with
      | error e => exact ⟨(fun obs h' e' => by cases e'), (fun e' he' => by cases he'; exact r2 e hr)⟩
      | ok q =>
        obtain ⟨obs, h2⟩ := q
        obtain ⟨f1, f2, f3⟩ := r1 obs h2 hr
        refine ⟨fun obs' h' e' => ?_, (fun e' he' => by cases he')⟩
        cases e'
        exact ⟨by rw [e1, f1], f2, f3⟩

/-- the history theorem for a map created by `make` -/
theorem history_refines_from_make {o : Ops K} (ho : HashOK o) (hp : PanicOK o) (hint : Nat) (r : Rand)
    (ops : List (Op K V)) :
    (∀ obs h', runModel o (makemap hint r : HMap K V) ops = .ok (obs, h') →
      obs = (runSpec o ([] : AList K V) ops).1 ∧ Inv o h' ∧ (abs h').Perm (runSpec o ([] : AList K V) ops).2) ∧
    (∀ e, runModel o (makemap hint r : HMap K V) ops = .error e → e = .loop) := by
  obtain ⟨i, a⟩ := makemap_spec (V := V) o hint r
  exact history_refines ho hp ops _ [] i (by rw [a])

end LlgoVerif.HMap
