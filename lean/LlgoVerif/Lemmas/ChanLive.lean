import LlgoVerif.Lemmas.ChanThreads
/-! Liveness-side invariant for C10: a thread parked in one of the two *buffered* wait loops of
    `ChanSend` / `ChanRecv` — or, in the `fixed` variant, in the second phase of an unbuffered receive — has its
    wait condition still true, unless a `Broadcast` on that channel is pending. -/
namespace LlgoVerif.Chan

/-! ### channel-level facts about the critical sections -/

theorem body_cap (p : Point) (t : Tid) (ch : Chan) : (body p t ch).ch.cap = ch.cap := by
  cases p <;> simp only [body]
  case sendLock c v => unfold sendLoop; split <;> (try split) <;> (try split) <;> simp_all [Chan.push, Chan.handOff] <;> (split <;> simp_all)
  case sendWaitU c v => unfold sendLoop; split <;> (try split) <;> (try split) <;> simp_all [Chan.push, Chan.handOff] <;> (split <;> simp_all)
  case sendWaitB c v => unfold sendLoop; split <;> (try split) <;> (try split) <;> simp_all [Chan.push, Chan.handOff] <;> (split <;> simp_all)
  case recvLock c sl => unfold recvLoop; split <;> (try split) <;> (try split) <;> simp_all [Chan.pop]
  case recvWaitU c sl => unfold recvLoop; split <;> (try split) <;> (try split) <;> simp_all [Chan.pop]
  case recvWaitB c sl => unfold recvLoop; split <;> (try split) <;> (try split) <;> simp_all [Chan.pop]
  case recv2Lock c b sq => unfold recv2Loop; split <;> (split <;> simp_all)
  case recv2Wait c b sq => unfold recv2Loop; split <;> (split <;> simp_all)
  case closeLock c => unfold closeBody; split <;> simp_all
  case trySendLock c v => unfold trySendBody; split <;> (try split) <;> simp_all [Chan.push, Chan.handOff] <;> (split <;> simp_all)
  case tryRecvLock c sl a => unfold tryRecvBody; split <;> (try split) <;> (try split) <;> simp_all [Chan.pop]
  case prepLock c b => unfold prepBody; split <;> simp_all <;> (split <;> simp_all)
  case endLock c b => unfold endBody; simp_all; split <;> simp_all

theorem body_fixed (p : Point) (t : Tid) (ch : Chan) : (body p t ch).ch.fixed = ch.fixed := by
  cases p <;> simp only [body]
  case sendLock c v => unfold sendLoop; split <;> (try split) <;> (try split) <;> simp_all [Chan.push, Chan.handOff] <;> (split <;> simp_all)
  case sendWaitU c v => unfold sendLoop; split <;> (try split) <;> (try split) <;> simp_all [Chan.push, Chan.handOff] <;> (split <;> simp_all)
  case sendWaitB c v => unfold sendLoop; split <;> (try split) <;> (try split) <;> simp_all [Chan.push, Chan.handOff] <;> (split <;> simp_all)
  case recvLock c sl => unfold recvLoop; split <;> (try split) <;> (try split) <;> simp_all [Chan.pop]
  case recvWaitU c sl => unfold recvLoop; split <;> (try split) <;> (try split) <;> simp_all [Chan.pop]
  case recvWaitB c sl => unfold recvLoop; split <;> (try split) <;> (try split) <;> simp_all [Chan.pop]
  case recv2Lock c b sq => unfold recv2Loop; split <;> (split <;> simp_all)
  case recv2Wait c b sq => unfold recv2Loop; split <;> (split <;> simp_all)
  case closeLock c => unfold closeBody; split <;> simp_all
  case trySendLock c v => unfold trySendBody; split <;> (try split) <;> simp_all [Chan.push, Chan.handOff] <;> (split <;> simp_all)
  case tryRecvLock c sl a => unfold tryRecvBody; split <;> (try split) <;> (try split) <;> simp_all [Chan.pop]
  case prepLock c b => unfold prepBody; split <;> simp_all <;> (split <;> simp_all)
  case endLock c b => unfold endBody; simp_all; split <;> simp_all

/-- a critical section that changes anything a `Cond.Wait` loop tests is followed by `Unlock; Broadcast` -/
theorem body_change_broadcasts (p : Point) (t : Tid) (ch : Chan)
    (h : (body p t ch).ch.len ≠ ch.len ∨ (body p t ch).ch.closed ≠ ch.closed ∨ (body p t ch).ch.getp ≠ ch.getp ∨
      (body p t ch).ch.recvseq ≠ ch.recvseq) :
    ∃ n, (body p t ch).out = .notify (.finish true n) := by
  cases p <;> simp only [body] at h ⊢
  case sendLock c v => unfold sendLoop at h ⊢; split <;> (try split) <;> (try split) <;> simp_all [Chan.push, Chan.handOff] <;> (split <;> simp_all)
  case sendWaitU c v => unfold sendLoop at h ⊢; split <;> (try split) <;> (try split) <;> simp_all [Chan.push, Chan.handOff] <;> (split <;> simp_all)
  case sendWaitB c v => unfold sendLoop at h ⊢; split <;> (try split) <;> (try split) <;> simp_all [Chan.push, Chan.handOff] <;> (split <;> simp_all)
  case recvLock c sl => unfold recvLoop at h ⊢; split <;> (try split) <;> (try split) <;> simp_all [Chan.pop]
  case recvWaitU c sl => unfold recvLoop at h ⊢; split <;> (try split) <;> (try split) <;> simp_all [Chan.pop]
  case recvWaitB c sl => unfold recvLoop at h ⊢; split <;> (try split) <;> (try split) <;> simp_all [Chan.pop]
  case recv2Lock c b sq => unfold recv2Loop at h ⊢; split <;> (split <;> simp_all)
  case recv2Wait c b sq => unfold recv2Loop at h ⊢; split <;> (split <;> simp_all)
  case closeLock c => unfold closeBody at h ⊢; split <;> simp_all
  case trySendLock c v => unfold trySendBody at h ⊢; split <;> (try split) <;> simp_all [Chan.push, Chan.handOff] <;> (split <;> simp_all)
  case tryRecvLock c sl a => unfold tryRecvBody at h ⊢; split <;> (try split) <;> (try split) <;> simp_all [Chan.pop]
  case prepLock c b => unfold prepBody at h ⊢; split <;> simp_all <;> (split at h <;> simp_all)
  case endLock c b => unfold endBody at h ⊢; simp_all; split at h <;> simp_all

/-- the fields the tracked wait loops test -/
structure SameW (ch ch' : Chan) : Prop where
  len : ch'.len = ch.len
  cap : ch'.cap = ch.cap
  seq : ch'.recvseq = ch.recvseq
  closed : ch'.closed = ch.closed
  fixed : ch'.fixed = ch.fixed

theorem body_quiet (p : Point) (t : Tid) (ch : Chan)
    (h : ∀ n, (body p t ch).out ≠ .notify (.finish true n)) : SameW ch (body p t ch).ch := by
  have key : ∀ (P : Prop), (¬P → ∃ n, (body p t ch).out = .notify (.finish true n)) → P := by
    intro P hP
    by_cases hp : P
    · exact hp
    · obtain ⟨n, hn⟩ := hP hp
      exact absurd hn (h n)
  refine ⟨?_, body_cap p t ch, ?_, ?_, body_fixed p t ch⟩
  · exact key _ (fun hn => body_change_broadcasts p t ch (Or.inl hn))
  · exact key _ (fun hn => body_change_broadcasts p t ch (Or.inr (Or.inr (Or.inr hn))))
  · exact key _ (fun hn => body_change_broadcasts p t ch (Or.inr (Or.inl hn)))

/-- the wait loops the invariant tracks: the two buffered loops and the second phase of an unbuffered receive -/
def Point.isWaitB : Point → Bool
  | .sendWaitB .. | .recvWaitB .. | .recv2Wait .. => true
  | _ => false

/-- the condition under which the code went to sleep at wait point `p` (buffered loops only) -/
def waitCond (p : Point) (ch : Chan) : Prop :=
  match p with
  | .sendWaitB .. => ch.len = ch.cap ∧ ch.cap ≠ 0
  | .recvWaitB .. => ch.len = 0 ∧ ch.cap ≠ 0
  | .recv2Wait _ _ seq => ch.fixed = true → ch.recvseq = seq ∧ ch.closed = false
  | _ => True

theorem waitCond_of_not_B (p : Point) (ch : Chan) (h : p.isWaitB = false) : waitCond p ch := by
  cases p <;> simp_all [Point.isWaitB, waitCond]

theorem waitCond_congr (p : Point) (ch ch' : Chan) (hs : SameW ch ch')
    (h : waitCond p ch) : waitCond p ch' := by
  obtain ⟨h1, h2, h3, h4, h5⟩ := hs
  cases p <;> simp_all [waitCond]

theorem isWait_of_isWaitB (p : Point) (h : p.isWaitB = true) : p.isWait = true := by
  cases p <;> simp_all [Point.isWaitB, Point.isWait]

/-- going to sleep: same channel, and the wait condition holds at that moment -/
theorem body_wait (p q : Point) (t : Tid) (ch : Chan) (h : (body p t ch).out = .wait q) :
    q.chan = p.chan ∧ waitCond q ch := by
  cases p <;> simp only [body] at h
  case sendLock c v => unfold sendLoop at h; split at h <;> (try split at h) <;> (try split at h) <;> (try simp_all) <;> (try split at h) <;> (try simp_all) <;> (try (subst h; simp_all [waitCond, Point.chan, Point.isWaitB]))
  case sendWaitU c v => unfold sendLoop at h; split at h <;> (try split at h) <;> (try split at h) <;> (try simp_all) <;> (try split at h) <;> (try simp_all) <;> (try (subst h; simp_all [waitCond, Point.chan, Point.isWaitB]))
  case sendWaitB c v => unfold sendLoop at h; split at h <;> (try split at h) <;> (try split at h) <;> (try simp_all) <;> (try split at h) <;> (try simp_all) <;> (try (subst h; simp_all [waitCond, Point.chan, Point.isWaitB]))
  case recvLock c sl => unfold recvLoop at h; split at h <;> (try split at h) <;> (try split at h) <;> (try simp_all) <;> (try split at h) <;> (try simp_all) <;> (try (subst h; simp_all [waitCond, Point.chan, Point.isWaitB]))
  case recvWaitU c sl => unfold recvLoop at h; split at h <;> (try split at h) <;> (try split at h) <;> (try simp_all) <;> (try split at h) <;> (try simp_all) <;> (try (subst h; simp_all [waitCond, Point.chan, Point.isWaitB]))
  case recvWaitB c sl => unfold recvLoop at h; split at h <;> (try split at h) <;> (try split at h) <;> (try simp_all) <;> (try split at h) <;> (try simp_all) <;> (try (subst h; simp_all [waitCond, Point.chan, Point.isWaitB]))
  case recv2Lock c b sq => unfold recv2Loop at h; split at h <;> (try split at h) <;> (try split at h) <;> (try simp_all) <;> (try split at h) <;> (try simp_all) <;> (try (subst h; simp_all [waitCond, Point.chan, Point.isWaitB]))
  case recv2Wait c b sq => unfold recv2Loop at h; split at h <;> (try split at h) <;> (try split at h) <;> (try simp_all) <;> (try split at h) <;> (try simp_all) <;> (try (subst h; simp_all [waitCond, Point.chan, Point.isWaitB]))
  case closeLock c => unfold closeBody at h; split at h <;> (try split at h) <;> (try split at h) <;> (try simp_all) <;> (try split at h) <;> (try simp_all) <;> (try (subst h; simp_all [waitCond, Point.chan, Point.isWaitB]))
  case trySendLock c v => unfold trySendBody at h; split at h <;> (try split at h) <;> (try split at h) <;> (try simp_all) <;> (try split at h) <;> (try simp_all) <;> (try (subst h; simp_all [waitCond, Point.chan, Point.isWaitB]))
  case tryRecvLock c sl a => unfold tryRecvBody at h; split at h <;> (try split at h) <;> (try split at h) <;> (try simp_all) <;> (try split at h) <;> (try simp_all) <;> (try (subst h; simp_all [waitCond, Point.chan, Point.isWaitB]))
  case prepLock c b => unfold prepBody at h; split at h <;> (try split at h) <;> (try split at h) <;> (try simp_all) <;> (try split at h) <;> (try simp_all) <;> (try (subst h; simp_all [waitCond, Point.chan, Point.isWaitB]))
  case endLock c b => unfold endBody at h; split at h <;> (try split at h) <;> (try split at h) <;> (try simp_all) <;> (try split at h) <;> (try simp_all) <;> (try (subst h; simp_all [waitCond, Point.chan, Point.isWaitB]))

/-- `notifyOps` followed by `Wait` happens only in the unbuffered loop of `ChanSend` -/
theorem body_notify_wait (p q : Point) (t : Tid) (ch : Chan) (h : (body p t ch).out = .notify (.wait q)) :
    q.chan = p.chan ∧ q.isWaitB = false := by
  cases p <;> simp only [body] at h
  case sendLock c v => unfold sendLoop at h; split at h <;> (try split at h) <;> (try split at h) <;> (try simp_all) <;> (try split at h) <;> (try simp_all) <;> (try (subst h; simp_all [waitCond, Point.chan, Point.isWaitB]))
  case sendWaitU c v => unfold sendLoop at h; split at h <;> (try split at h) <;> (try split at h) <;> (try simp_all) <;> (try split at h) <;> (try simp_all) <;> (try (subst h; simp_all [waitCond, Point.chan, Point.isWaitB]))
  case sendWaitB c v => unfold sendLoop at h; split at h <;> (try split at h) <;> (try split at h) <;> (try simp_all) <;> (try split at h) <;> (try simp_all) <;> (try (subst h; simp_all [waitCond, Point.chan, Point.isWaitB]))
  case recvLock c sl => unfold recvLoop at h; split at h <;> (try split at h) <;> (try split at h) <;> (try simp_all) <;> (try split at h) <;> (try simp_all) <;> (try (subst h; simp_all [waitCond, Point.chan, Point.isWaitB]))
  case recvWaitU c sl => unfold recvLoop at h; split at h <;> (try split at h) <;> (try split at h) <;> (try simp_all) <;> (try split at h) <;> (try simp_all) <;> (try (subst h; simp_all [waitCond, Point.chan, Point.isWaitB]))
  case recvWaitB c sl => unfold recvLoop at h; split at h <;> (try split at h) <;> (try split at h) <;> (try simp_all) <;> (try split at h) <;> (try simp_all) <;> (try (subst h; simp_all [waitCond, Point.chan, Point.isWaitB]))
  case recv2Lock c b sq => unfold recv2Loop at h; split at h <;> (try split at h) <;> (try split at h) <;> (try simp_all) <;> (try split at h) <;> (try simp_all) <;> (try (subst h; simp_all [waitCond, Point.chan, Point.isWaitB]))
  case recv2Wait c b sq => unfold recv2Loop at h; split at h <;> (try split at h) <;> (try split at h) <;> (try simp_all) <;> (try split at h) <;> (try simp_all) <;> (try (subst h; simp_all [waitCond, Point.chan, Point.isWaitB]))
  case closeLock c => unfold closeBody at h; split at h <;> (try split at h) <;> (try split at h) <;> (try simp_all) <;> (try split at h) <;> (try simp_all) <;> (try (subst h; simp_all [waitCond, Point.chan, Point.isWaitB]))
  case trySendLock c v => unfold trySendBody at h; split at h <;> (try split at h) <;> (try split at h) <;> (try simp_all) <;> (try split at h) <;> (try simp_all) <;> (try (subst h; simp_all [waitCond, Point.chan, Point.isWaitB]))
  case tryRecvLock c sl a => unfold tryRecvBody at h; split at h <;> (try split at h) <;> (try split at h) <;> (try simp_all) <;> (try split at h) <;> (try simp_all) <;> (try (subst h; simp_all [waitCond, Point.chan, Point.isWaitB]))
  case prepLock c b => unfold prepBody at h; split at h <;> (try split at h) <;> (try split at h) <;> (try simp_all) <;> (try split at h) <;> (try simp_all) <;> (try (subst h; simp_all [waitCond, Point.chan, Point.isWaitB]))
  case endLock c b => unfold endBody at h; split at h <;> (try split at h) <;> (try split at h) <;> (try simp_all) <;> (try split at h) <;> (try simp_all) <;> (try (subst h; simp_all [waitCond, Point.chan, Point.isWaitB]))

/-! ### a thread that continues after a return is at a `Lock`, never at a wait point -/

def PC.isWaitPt : PC → Bool
  | .at p => p.isWait
  | _ => false

theorem pollPoint_notWait (sl : Sel) (i : Nat) (cs : Case) : (pollPoint sl i cs).isWait = false := by
  unfold pollPoint; split <;> (try split) <;> rfl

theorem startOps_notWaitPt (th : Thread) (ops : List Op) : (startOps th ops).pc.isWaitPt = false := by
  induction ops generalizing th with
  | nil => rfl
  | cons op rest ih =>
    cases op with
    | send c' v => rfl
    | recv c' => rfl
    | close c' => rfl
    | select cases blocking =>
      cases blocking with
      | true => simp only [startOps]; split <;> rfl
      | false =>
        simp only [startOps]
        split
        · exact ih _
        · exact pollPoint_notWait _ _ _

theorem finishOp_notWaitPt (th : Thread) (r : Res) : (finishOp th r).pc.isWaitPt = false :=
  startOps_notWaitPt _ _

theorem pollFrom_notWaitPt (th : Thread) (sl : Sel) (pass i : Nat) : (pollFrom th sl pass i).pc.isWaitPt = false := by
  unfold pollFrom
  split
  · split
    · exact pollPoint_notWait _ _ _
    · split
      · split
        · exact pollPoint_notWait _ _ _
        · rfl
      · rfl
  · split
    · exact pollPoint_notWait _ _ _
    · exact finishOp_notWaitPt _ _

theorem commitSel_notWaitPt (th : Thread) (sl : Sel) (ok : Bool) : (commitSel th sl ok).pc.isWaitPt = false := by
  unfold commitSel
  dsimp only
  split
  · split
    · rfl
    · exact finishOp_notWaitPt _ _
  · exact finishOp_notWaitPt _ _

theorem onRet_notWaitPt (th : Thread) (r : Ret) : (onRet th r).pc.isWaitPt = false := by
  unfold onRet
  split
  · split <;> exact finishOp_notWaitPt _ _
  · split
    · split
      · rfl
      · exact pollFrom_notWaitPt _ _ _ _
    · split
      · exact commitSel_notWaitPt _ _ _
      · exact pollFrom_notWaitPt _ _ _ _
    · split
      · exact commitSel_notWaitPt _ _ _
      · exact pollFrom_notWaitPt _ _ _ _
    · split
      · rfl
      · exact finishOp_notWaitPt _ _
    · exact finishOp_notWaitPt _ _

/-! ### `doAfter`: who sleeps afterwards -/

/-- after `notifyOps … k` the acting thread sits at a wait point only if `k` was `Wait` at that point -/
theorem doAfter_self (s : State) (t : Tid) (c : Cid) (k : After) (ht : t < s.threads.length) (q : Point)
    (hpc : ((doAfter s t c k).thread t).pc = .at q) (hq : q.isWait = true) : k = .wait q := by
  cases k with
  | wait p =>
    simp only [doAfter] at hpc
    rw [thread_setThread_self _ _ _ (by simpa using ht)] at hpc
    cases hpc; rfl
  | finish bc n =>
    exfalso
    simp only [doAfter] at hpc
    have hl : t < (if bc = true then { (s.setOwner c none) with threads := broadcast c (s.setOwner c none).threads } else s.setOwner c none).threads.length := by
      split
      · simp only [broadcast_length]; exact ht
      · exact ht
    cases n with
    | ret r =>
      simp only [] at hpc
      rw [thread_setThread_self _ _ _ hl] at hpc
      have := onRet_notWaitPt ((if bc = true then { (s.setOwner c none) with threads := broadcast c (s.setOwner c none).threads } else s.setOwner c none).thread t) r
      rw [hpc] at this
      simp [PC.isWaitPt, hq] at this
    | recv2 b sq =>
      simp only [] at hpc
      rw [thread_setThread_self _ _ _ hl] at hpc
      cases hpc
      cases hq

/-- `Unlock; Broadcast` leaves nobody else asleep at a wait point of the channel -/
theorem doAfter_wakes (s : State) (t t' : Tid) (c : Cid) (n : Next) (p : Point) (hne : t' ≠ t)
    (hpc : (s.thread t').pc = .at p) (hw : p.isWait = true) (hc : p.chan = c) :
    ((doAfter s t c (.finish true n)).thread t').waiting = false := by
  simp only [doAfter, if_true]
  have hb : (({ (s.setOwner c none) with threads := broadcast c (s.setOwner c none).threads } : State).thread t').waiting = false :=
    broadcast_wakes c _ t' p hpc hw hc
  cases n with
  | ret r => simp only []; rw [thread_setThread_ne _ _ _ _ (Ne.symm hne)]; exact hb
  | recv2 b sq => simp only []; rw [thread_setThread_ne _ _ _ _ (Ne.symm hne)]; exact hb

/-! ### what a step does, in the detail the wait invariant needs -/

theorem exec_at_detail (s : State) (t : Tid) (p : Point) (ht : t < s.threads.length) (hpc : (s.thread t).pc = .at p) :
    (exec s t).chans = s.chans.set p.chan (body p t (s.chan p.chan)).ch ∧
    (∀ q, ((exec s t).thread t).pc = .at q → q.isWait = true →
      (body p t (s.chan p.chan)).out = .wait q ∨ (body p t (s.chan p.chan)).out = .notify (.wait q)) ∧
    (∀ n, (body p t (s.chan p.chan)).out = .notify (.finish true n) →
      (∃ l, ((exec s t).thread t).pc = .notify p.chan l (.finish true n)) ∨
      (∀ t' p', t' ≠ t → (s.thread t').pc = .at p' → p'.isWait = true → p'.chan = p.chan →
        ((exec s t).thread t').waiting = false)) ∧
    (∀ c l k, ((exec s t).thread t).pc = .notify c l k → (body p t (s.chan p.chan)).out = .notify k) := by
  unfold exec
  simp only [hpc]
  generalize hr : body p t (s.chan p.chan) = r
  let s2 := applyDeliver ((s.setChan p.chan r.ch).setOwner p.chan (some t)) r.deliver
  have e2 : Eff s s2 t p.chan :=
    ((eff_setChan s t p.chan p.chan r.ch).trans (eff_setOwner _ t p.chan (some t))).trans (eff_applyDeliver _ t p.chan _)
  have hl2 : t < s2.threads.length := by rw [e2.tlen]; exact ht
  have hch2 : s2.chans = s.chans.set p.chan r.ch := by simp [s2]
  show (match r.out with
      | .wait p' => (s2.setOwner p.chan none).setThread t { s2.thread t with pc := .at p', waiting := true }
      | .notify k => doNotify s2 t p.chan k
      | .unlock ret => (s2.setOwner p.chan none).setThread t (onRet (s2.thread t) ret)
      | .panic => (s2.setOwner p.chan none).setThread t
          { s2.thread t with pc := .done, ops := [], sel := none, res := (s2.thread t).res ++ [Res.panic] }).chans = _ ∧ _
  cases r.out with
  | wait p' =>
    refine ⟨by simp [hch2], fun q hq _ => ?_, fun n hn => (by cases hn), fun c l k hk => ?_⟩
    · rw [thread_setThread_self _ _ _ (by simpa using hl2)] at hq
      cases hq; left; rfl
    · rw [thread_setThread_self _ _ _ (by simpa using hl2)] at hk
      cases hk
  | notify k =>
    refine ⟨by simp [hch2], fun q hq hw => ?_, fun n hn => ?_, fun c l k' hk => ?_⟩
    rotate_left 2
    · dsimp only at hk
      unfold doNotify at hk
      split at hk
      · exfalso
        have := (doAfter_eff s2 t p.chan k hl2).2 c
        rw [hk] at this
        simp [PC.inCS] at this
      · rw [thread_setThread_self _ _ _ hl2] at hk
        cases hk; rfl
    · right
      dsimp only at hq
      unfold doNotify at hq
      split at hq
      · rw [doAfter_self s2 t p.chan k hl2 q hq hw]
      · exfalso
        rw [thread_setThread_self _ _ _ hl2] at hq; cases hq
    · cases hn
      dsimp only
      unfold doNotify
      split
      · right
        intro t' p' hne hp' hw' hc'
        exact doAfter_wakes s2 t t' p.chan n p' hne (by rw [e2.pcs t' hne]; exact hp') hw' hc'
      · rename_i l _
        left
        exact ⟨_, by rw [thread_setThread_self _ _ _ hl2]⟩
  | unlock ret =>
    refine ⟨by simp [hch2], fun q hq hw => ?_, fun n hn => (by cases hn), fun c l k hk => ?_⟩
    · exfalso
      rw [thread_setThread_self _ _ _ (by simpa using hl2)] at hq
      have := onRet_notWaitPt (s2.thread t) ret
      rw [hq] at this
      simp [PC.isWaitPt, hw] at this
    · exfalso
      rw [thread_setThread_self _ _ _ (by simpa using hl2)] at hk
      have := onRet_notCS (s2.thread t) ret c
      rw [hk] at this
      simp [PC.inCS] at this
  | panic =>
    refine ⟨by simp [hch2], fun q hq hw => ?_, fun n hn => (by cases hn), fun c l k hk => ?_⟩
    · rw [thread_setThread_self _ _ _ (by simpa using hl2)] at hq
      cases hq
    · rw [thread_setThread_self _ _ _ (by simpa using hl2)] at hk
      cases hk

theorem exec_notify_detail (s : State) (t : Tid) (c : Cid) (rest : List Tid) (k : After) (ht : t < s.threads.length)
    (hpc : (s.thread t).pc = .notify c rest k) :
    (exec s t).chans = s.chans ∧
    ((∃ l, ((exec s t).thread t).pc = .notify c l k) ∨
     ((∀ q, ((exec s t).thread t).pc = .at q → q.isWait = true → k = .wait q) ∧
      (∀ n, k = .finish true n → ∀ t' p', t' ≠ t → (s.thread t').pc = .at p' → p'.isWait = true → p'.chan = c →
        ((exec s t).thread t').waiting = false))) ∧
    (∀ c' l k', ((exec s t).thread t).pc = .notify c' l k' → k' = k) := by
  unfold exec
  simp only [hpc]
  cases rest with
  | nil =>
    refine ⟨by simp, Or.inr ⟨fun q hq hw => doAfter_self s t c k ht q hq hw, fun n hn t' p' hne hp' hw' hc' => ?_⟩, fun c' l k' hk => ?_⟩
    · subst hn
      exact doAfter_wakes s t t' c n p' hne hp' hw' hc'
    · exfalso
      have := (doAfter_eff s t c k ht).2 c'
      rw [hk] at this
      simp [PC.inCS] at this
  | cons x xs =>
    have e1 : Eff s (s.setThread x (notifyThread (s.thread x))) t c :=
      eff_setThread_same s x t c _ rfl (fun h => by
        simp only [notifyThread] at h
        split at h
        · cases h
        · exact h)
    have hl1 : t < (s.setThread x (notifyThread (s.thread x))).threads.length := by rw [e1.tlen]; exact ht
    cases xs with
    | nil =>
      refine ⟨by simp, Or.inr ⟨fun q hq hw => doAfter_self _ t c k hl1 q hq hw, fun n hn t' p' hne hp' hw' hc' => ?_⟩, fun c' l k' hk => ?_⟩
      · subst hn
        exact doAfter_wakes _ t t' c n p' hne (by rw [e1.pcs t' hne]; exact hp') hw' hc'
      · exfalso
        have := (doAfter_eff _ t c k hl1).2 c'
        rw [hk] at this
        simp [PC.inCS] at this
    | cons y ys =>
      refine ⟨by simp, Or.inl ⟨y :: ys, ?_⟩, fun c' l k' hk => ?_⟩
      · rw [thread_setThread_self _ _ _ hl1]
      · rw [thread_setThread_self _ _ _ hl1] at hk
        cases hk; rfl

theorem exec_other_detail (s : State) (t : Tid) (ht : t < s.threads.length)
    (h1 : ∀ p, (s.thread t).pc ≠ .at p) (h2 : ∀ c r k, (s.thread t).pc ≠ .notify c r k) :
    (exec s t).chans = s.chans ∧ ((exec s t).thread t).pc.isWaitPt = false ∧
    (∀ t', t' ≠ t → ((exec s t).thread t').waiting = (s.thread t').waiting) := by
  unfold exec
  dsimp only
  cases hpc : (s.thread t).pc with
  | «at» p => exact absurd hpc (h1 p)
  | notify c r k => exact absurd hpc (h2 c r k)
  | done => exact ⟨rfl, by rw [hpc]; rfl, fun _ _ => rfl⟩
  | start =>
    refine ⟨rfl, ?_, fun t' h => by rw [thread_setThread_ne _ _ _ _ (Ne.symm h)]⟩
    rw [thread_setThread_self _ _ _ ht]; exact startOps_notWaitPt _ _
  | selLock =>
    dsimp only
    split
    · split
      · refine ⟨rfl, ?_, fun t' h => by rw [thread_setThread_ne _ _ _ _ (Ne.symm h)]⟩
        rw [thread_setThread_self _ _ _ ht]; exact pollFrom_notWaitPt _ _ _ _
      · exact ⟨rfl, by rw [hpc]; rfl, fun _ _ => rfl⟩
    · refine ⟨rfl, ?_, fun t' h => by rw [thread_setThread_ne _ _ _ _ (Ne.symm h)]⟩
      rw [thread_setThread_self _ _ _ ht]; rfl
  | selWait =>
    dsimp only
    split
    · refine ⟨rfl, ?_, fun t' h => by rw [thread_setThread_ne _ _ _ _ (Ne.symm h)]⟩
      rw [thread_setThread_self _ _ _ ht]; exact pollFrom_notWaitPt _ _ _ _
    · exact ⟨rfl, by rw [hpc]; rfl, fun _ _ => rfl⟩

/-! ### the wait invariant -/

/-- a `Broadcast` on channel `c` is pending: some thread is inside `notifyOps(c)` on its way to `Unlock; Broadcast` -/
def Busy (s : State) (c : Cid) : Prop :=
  ∃ t0 rest n, (s.thread t0).pc = .notify c rest (.finish true n)

structure WaitInv (s : State) : Prop where
  /-- a thread asleep in a buffered wait loop: its wait condition still holds, or a broadcast is pending -/
  cond : ∀ t p, (s.thread t).pc = .at p → (s.thread t).waiting = true → p.chan < s.owner.length →
    waitCond p (s.chan p.chan) ∨ Busy s p.chan
  /-- `notifyOps` followed by `Wait` only occurs in the unbuffered loop of `ChanSend` -/
  nwait : ∀ t c rest q, (s.thread t).pc = .notify c rest (.wait q) → q.isWaitB = false

theorem chan_after_set (s s' : State) (c0 : Cid) (ch' : Chan) (h : s'.chans = s.chans.set c0 ch') (c : Cid) :
    s'.chan c = s.chan c ∨ (c = c0 ∧ s'.chan c = ch') := by
  unfold State.chan
  rw [h]
  by_cases hc : c0 = c
  · subst hc
    by_cases hl : c0 < s.chans.length
    · right; exact ⟨rfl, getD_set_self _ _ _ _ hl⟩
    · left
      have hle : s.chans.length ≤ c0 := Nat.le_of_not_lt hl
      rw [List.set_eq_of_length_le hle]
  · left; exact getD_set_other _ _ _ _ _ hc

theorem not_busy_of_free {s : State} {c : Cid} (hm : MutexInv s) (hc : c < s.owner.length) (hf : s.own c = none) :
    ¬ Busy s c := by
  rintro ⟨t0, rest, n, hb⟩
  have := hm t0 c (by rw [hb]; simp [PC.inCS]) hc
  rw [hf] at this
  cases this

theorem exec_waitInv {s : State} {t : Tid} (h : WaitInv s) (hm : MutexInv s) (hr : runnable s t = true) :
    WaitInv (exec s t) := by
  have ht := runnable_lt hr
  by_cases hp : ∃ p0, (s.thread t).pc = .at p0
  · obtain ⟨p0, hpc⟩ := hp
    obtain ⟨e, _⟩ := exec_at s t p0 ht hpc
    obtain ⟨hch, hself, hbc, hnk⟩ := exec_at_detail s t p0 ht hpc
    have hfree := runnable_free hr hpc
    constructor
    · intro t' p hpc' hw' hlen
      rw [e.olen] at hlen
      by_cases hB' : p.isWaitB = false
      · left; exact waitCond_of_not_B _ _ hB'
      have hB : p.isWaitB = true := by simpa using hB'
      have hpw := isWait_of_isWaitB p hB
      by_cases htt : t' = t
      · rw [htt] at hpc' hw'
        rcases hself p hpc' hpw with ho | ho
        · obtain ⟨hc, hcond⟩ := body_wait p0 p t _ ho
          left
          have hq : ∀ n, (body p0 t (s.chan p0.chan)).out ≠ .notify (.finish true n) := by
            intro n hn; rw [ho] at hn; cases hn
          have hsame := body_quiet p0 t _ hq
          rcases chan_after_set s _ p0.chan _ hch p.chan with e1 | ⟨_, e1⟩
          · rw [e1, hc]; exact hcond
          · rw [e1]; exact waitCond_congr p _ _ hsame hcond
        · obtain ⟨_, hnb⟩ := body_notify_wait p0 p t _ ho
          rw [hnb] at hB; cases hB
      · have hpc_s : (s.thread t').pc = .at p := by rw [← e.pcs t' htt]; exact hpc'
        have hw_s := e.wts t' htt hw'
        by_cases hc : p.chan = p0.chan
        · have hnb : ¬ Busy s p.chan := by
            rw [hc]; exact not_busy_of_free hm (hc ▸ hlen) hfree
          have hcond : waitCond p (s.chan p.chan) := (h.cond t' p hpc_s hw_s hlen).resolve_right hnb
          by_cases hq : ∃ n, (body p0 t (s.chan p0.chan)).out = .notify (.finish true n)
          · obtain ⟨n, hn⟩ := hq
            rcases hbc n hn with ⟨l, hl⟩ | hwk
            · right; rw [hc]; exact ⟨t, l, n, hl⟩
            · exfalso
              have := hwk t' p htt hpc_s hpw hc
              rw [this] at hw'; cases hw'
          · left
            have hq' : ∀ n, (body p0 t (s.chan p0.chan)).out ≠ .notify (.finish true n) := fun n hn => hq ⟨n, hn⟩
            have hsame := body_quiet p0 t _ hq'
            rcases chan_after_set s _ p0.chan _ hch p.chan with e1 | ⟨_, e1⟩
            · rw [e1]; exact hcond
            · rw [e1]; rw [hc] at hcond; exact waitCond_congr p _ _ hsame hcond
        · have e1 : (exec s t).chan p.chan = s.chan p.chan := by
            rcases chan_after_set s _ p0.chan _ hch p.chan with e1 | ⟨e0, _⟩
            · exact e1
            · exact absurd e0 hc
          rw [e1]
          rcases h.cond t' p hpc_s hw_s hlen with hcnd | ⟨t0, rest, n, hb⟩
          · left; exact hcnd
          · right
            have hne : t0 ≠ t := by
              intro e0; rw [e0, hpc] at hb; cases hb
            exact ⟨t0, rest, n, by rw [e.pcs t0 hne]; exact hb⟩
    · intro t1 c rest q hk
      by_cases htt : t1 = t
      · rw [htt] at hk
        exact (body_notify_wait p0 q t _ (hnk c rest (.wait q) hk)).2
      · rw [e.pcs t1 htt] at hk; exact h.nwait t1 c rest q hk
  · by_cases hn : ∃ c0 r k, (s.thread t).pc = .notify c0 r k
    · obtain ⟨c0, rest0, k0, hpc⟩ := hn
      obtain ⟨e, _⟩ := exec_notify s t c0 rest0 k0 ht hpc
      obtain ⟨hch, hstep, hk'⟩ := exec_notify_detail s t c0 rest0 k0 ht hpc
      have hchan : ∀ c, (exec s t).chan c = s.chan c := fun c => by unfold State.chan; rw [hch]
      constructor
      · intro t' p hpc' hw' hlen
        rw [e.olen] at hlen
        by_cases hB' : p.isWaitB = false
        · left; exact waitCond_of_not_B _ _ hB'
        have hB : p.isWaitB = true := by simpa using hB'
        have hpw := isWait_of_isWaitB p hB
        by_cases htt : t' = t
        · exfalso
          rw [htt] at hpc'
          rcases hstep with ⟨l, hl⟩ | ⟨hs, _⟩
          · rw [hl] at hpc'; cases hpc'
          · have hk0 := hs p hpc' hpw
            rw [hk0] at hpc
            have := h.nwait t c0 rest0 p hpc
            rw [this] at hB; cases hB
        · have hpc_s : (s.thread t').pc = .at p := by rw [← e.pcs t' htt]; exact hpc'
          have hw_s := e.wts t' htt hw'
          rw [hchan]
          rcases h.cond t' p hpc_s hw_s hlen with hcnd | ⟨t0, rest, n, hb⟩
          · left; exact hcnd
          · by_cases h0 : t0 = t
            · rw [h0, hpc] at hb
              injection hb with hc0 _ hk0
              rcases hstep with ⟨l, hl⟩ | ⟨_, hwk⟩
              · right; exact ⟨t, l, n, by rw [hl, hc0, hk0]⟩
              · exfalso
                have := hwk n hk0 t' p htt hpc_s hpw hc0.symm
                rw [this] at hw'; cases hw'
            · right; exact ⟨t0, rest, n, by rw [e.pcs t0 h0]; exact hb⟩
      · intro t1 c rest q hk
        by_cases htt : t1 = t
        · rw [htt] at hk
          have := hk' c rest (.wait q) hk
          rw [← this] at hpc
          exact h.nwait t c0 rest0 q hpc
        · rw [e.pcs t1 htt] at hk; exact h.nwait t1 c rest q hk
    · have h1 : ∀ p, (s.thread t).pc ≠ .at p := fun p hp' => hp ⟨p, hp'⟩
      have h2 : ∀ c0 r k, (s.thread t).pc ≠ .notify c0 r k := fun c0 r k hn' => hn ⟨c0, r, k, hn'⟩
      obtain ⟨hpcs, hown, hnot⟩ := exec_other s t ht h1 h2
      obtain ⟨hch, hnw, hwt⟩ := exec_other_detail s t ht h1 h2
      have hchan : ∀ c, (exec s t).chan c = s.chan c := fun c => by unfold State.chan; rw [hch]
      constructor
      · intro t' p hpc' hw' hlen
        rw [hown] at hlen
        by_cases hB' : p.isWaitB = false
        · left; exact waitCond_of_not_B _ _ hB'
        have hB : p.isWaitB = true := by simpa using hB'
        have hpw := isWait_of_isWaitB p hB
        by_cases htt : t' = t
        · exfalso
          rw [htt] at hpc'
          rw [hpc'] at hnw
          simp [PC.isWaitPt, hpw] at hnw
        · have hpc_s : (s.thread t').pc = .at p := by rw [← hpcs t' htt]; exact hpc'
          have hw_s : (s.thread t').waiting = true := by rw [← hwt t' htt]; exact hw'
          rw [hchan]
          rcases h.cond t' p hpc_s hw_s hlen with hcnd | ⟨t0, rest, n, hb⟩
          · left; exact hcnd
          · right
            have hne : t0 ≠ t := by
              intro e0; rw [e0] at hb; exact h2 _ _ _ hb
            exact ⟨t0, rest, n, by rw [hpcs t0 hne]; exact hb⟩
      · intro t1 c rest q hk
        by_cases htt : t1 = t
        · exfalso
          rw [htt] at hk
          have := hnot c
          rw [hk] at this
          simp [PC.inCS] at this
        · rw [hpcs t1 htt] at hk; exact h.nwait t1 c rest q hk

theorem init_waitInv (cfg : Cfg) (caps : List Nat) (progs : List (List Op)) : WaitInv (init cfg caps progs) := by
  have hpc : ∀ t, ((init cfg caps progs).thread t).pc = .start ∨ ((init cfg caps progs).thread t).pc = .done := by
    intro t
    simp only [State.thread, init, List.getD, List.getElem?_map]
    cases progs[t]? <;> simp [dfltThread]
  constructor
  · intro t p h
    rcases hpc t with e | e <;> rw [e] at h <;> cases h
  · intro t c rest q h
    rcases hpc t with e | e <;> rw [e] at h <;> cases h

theorem wake_waitInv {s : State} (h : WaitInv s) (t : Tid) :
    WaitInv (s.setThread t { s.thread t with waiting := false }) := by
  have hpcs : ∀ t', ((s.setThread t { s.thread t with waiting := false }).thread t').pc = (s.thread t').pc :=
    fun t' => pc_setThread_same s t t' _ rfl
  have hw : ∀ t', ((s.setThread t { s.thread t with waiting := false }).thread t').waiting = true →
      (s.thread t').waiting = true := by
    intro t' w
    rcases thread_setThread_cases s t t' { s.thread t with waiting := false } with e | e
    · rw [e] at w; cases w
    · rwa [e] at w
  constructor
  · intro t' p hp hwt hlen
    rw [hpcs] at hp
    rcases h.cond t' p hp (hw t' hwt) hlen with hc | ⟨t0, rest, n, hb⟩
    · left; exact hc
    · right; exact ⟨t0, rest, n, by rw [hpcs]; exact hb⟩
  · intro t1 c rest q hk
    rw [hpcs] at hk
    exact h.nwait t1 c rest q hk

theorem apply_waitInv {s s' : State} (h : WaitInv s) (hm : MutexInv s) (ch : Choice) (hs : apply s ch = some s') :
    WaitInv s' := by
  cases ch with
  | step t =>
    simp only [apply, step] at hs
    split at hs
    · rename_i hr; cases hs; exact exec_waitInv h hm hr
    · cases hs
  | wake t =>
    simp only [apply, wake] at hs
    split at hs
    · cases hs; exact wake_waitInv h t
    · cases hs

theorem reachable_waitInv {cfg : Cfg} {caps : List Nat} {progs : List (List Op)} {s : State}
    (h : Reachable (init cfg caps progs) s) : WaitInv s ∧ MutexInv s := by
  induction h with
  | init => exact ⟨init_waitInv cfg caps progs, init_mutexInv cfg caps progs⟩
  | next ch _ hs ih => exact ⟨apply_waitInv ih.1 ih.2 ch hs, apply_mutexInv ih.2 ch hs⟩

/-! ### the code variant of a channel never changes -/

def FixInv (b : Bool) (s : State) : Prop := ∀ c, c < s.chans.length → (s.chan c).fixed = b

theorem exec_fixInv {b : Bool} {s : State} (h : FixInv b s) (t : Tid) : FixInv b (exec s t) := by
  rcases exec_chans s t with he | ⟨p, _, he⟩
  · intro c hc
    have : (exec s t).chan c = s.chan c := by unfold State.chan; rw [he]
    rw [this]; exact h c (by rw [he] at hc; exact hc)
  · intro c hc
    have hlen : c < s.chans.length := by rw [he] at hc; simpa using hc
    rcases chan_after_set s _ p.chan _ he c with e1 | ⟨e0, e1⟩
    · rw [e1]; exact h c hlen
    · rw [e1, body_fixed, ← e0]; exact h c hlen

theorem reachable_fixInv {cfg : Cfg} {caps : List Nat} {progs : List (List Op)} {s : State}
    (h : Reachable (init cfg caps progs) s) : FixInv cfg.recvseqFix s := by
  induction h with
  | init =>
    intro c hc
    simp only [init, List.length_map] at hc
    simp [State.chan, init, List.getD, hc, newChan]
  | next ch _ hs ih =>
    cases ch with
    | step t =>
      simp only [apply, step] at hs
      split at hs
      · cases hs; exact exec_fixInv ih t
      · cases hs
    | wake t =>
      simp only [apply, wake] at hs
      split at hs
      · cases hs; exact ih
      · cases hs

/-- `p.recvseq` never decreases -/
theorem recvseq_mono (p : Point) (t : Tid) (ch : Chan) : ch.recvseq ≤ (body p t ch).ch.recvseq := by
  by_cases h : (body p t ch).ch.recvseq = ch.recvseq
  · omega
  · cases p <;> simp only [body] at h ⊢
    case sendLock c v => unfold sendLoop at h ⊢; split <;> (try split) <;> (try split) <;> simp_all [Chan.push, Chan.handOff, Chan.bump] <;> (split <;> simp_all) <;> (try split) <;> omega
    case sendWaitU c v => unfold sendLoop at h ⊢; split <;> (try split) <;> (try split) <;> simp_all [Chan.push, Chan.handOff, Chan.bump] <;> (split <;> simp_all) <;> (try split) <;> omega
    case sendWaitB c v => unfold sendLoop at h ⊢; split <;> (try split) <;> (try split) <;> simp_all [Chan.push, Chan.handOff, Chan.bump] <;> (split <;> simp_all) <;> (try split) <;> omega
    case recvLock c sl => unfold recvLoop at h ⊢; split <;> (try split) <;> (try split) <;> simp_all [Chan.pop]
    case recvWaitU c sl => unfold recvLoop at h ⊢; split <;> (try split) <;> (try split) <;> simp_all [Chan.pop]
    case recvWaitB c sl => unfold recvLoop at h ⊢; split <;> (try split) <;> (try split) <;> simp_all [Chan.pop]
    case recv2Lock c b sq => unfold recv2Loop at h ⊢; split <;> (split <;> simp_all)
    case recv2Wait c b sq => unfold recv2Loop at h ⊢; split <;> (split <;> simp_all)
    case closeLock c => unfold closeBody at h ⊢; split <;> simp_all
    case trySendLock c v => unfold trySendBody at h ⊢; split <;> (try split) <;> simp_all [Chan.push, Chan.handOff, Chan.bump] <;> (split <;> simp_all) <;> (try split) <;> omega
    case tryRecvLock c sl a => unfold tryRecvBody at h ⊢; split <;> (try split) <;> (try split) <;> simp_all [Chan.pop]
    case prepLock c b => unfold prepBody at h ⊢; split <;> simp_all <;> (split at h <;> simp_all)
    case endLock c b => unfold endBody at h ⊢; simp_all; split at h <;> simp_all

end LlgoVerif.Chan
