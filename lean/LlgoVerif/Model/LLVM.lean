/-!
Semantics of the straight-line integer subset of LLVM IR that llgo emits for Go's numeric operators,
conversions and bound checks at `-O0` (DESIGN.md §2.2 A).  Trusted base: this file is the reading of the
LLVM LangRef the regenerated obligations are stated against.

* a value of type `iN` is `V N = Option (BitVec N)`; `none` is **poison**;
* instructions that can have undefined behaviour (`sdiv`, `udiv`, `srem`, `urem`) and calls to llgo's
  assert helpers live in `M = Except Trap`;
* `ret` of a poison value is reported as `Trap.ub` (the caller would observe an arbitrary value).
-/
namespace LlgoVerif.LLVM

inductive Trap where
  | divZero      -- runtime.AssertDivideByZero
  | negShift     -- runtime.AssertNegativeShift
  | indexRange   -- runtime.AssertIndexRange
  | ub           -- undefined behaviour / poison reached an observable position
deriving DecidableEq, Repr

abbrev M := Except Trap
abbrev V (w : Nat) := Option (BitVec w)

inductive Pred where
  | eq | ne | ugt | uge | ult | ule | sgt | sge | slt | sle
deriving DecidableEq, Repr

def ofBool (b : Bool) : BitVec 1 := if b then 1#1 else 0#1

def icmpB (p : Pred) (x y : BitVec w) : Bool :=
  match p with
  | .eq => x == y | .ne => x != y
  | .ugt => y.ult x | .uge => y.ule x | .ult => x.ult y | .ule => x.ule y
  | .sgt => y.slt x | .sge => y.sle x | .slt => x.slt y | .sle => x.sle y

def icmp (p : Pred) (a b : V w) : V 1 :=
  match a, b with
  | some x, some y => some (ofBool (icmpB p x y))
  | _, _ => none

def bin (f : BitVec w → BitVec w → BitVec w) (a b : V w) : V w :=
  match a, b with
  | some x, some y => some (f x y)
  | _, _ => none

def add (a b : V w) : V w := bin (· + ·) a b
def sub (a b : V w) : V w := bin (· - ·) a b
def mul (a b : V w) : V w := bin (· * ·) a b
def and (a b : V w) : V w := bin (· &&& ·) a b
def or  (a b : V w) : V w := bin (· ||| ·) a b
def xor (a b : V w) : V w := bin (· ^^^ ·) a b

/-- `shl`: poison when the count is not smaller than the bit width -/
def shl (a b : V w) : V w :=
  match a, b with
  | some x, some y => if w ≤ y.toNat then none else some (x <<< y.toNat)
  | _, _ => none
def lshr (a b : V w) : V w :=
  match a, b with
  | some x, some y => if w ≤ y.toNat then none else some (x >>> y.toNat)
  | _, _ => none
def ashr (a b : V w) : V w :=
  match a, b with
  | some x, some y => if w ≤ y.toNat then none else some (x.sshiftRight y.toNat)
  | _, _ => none

/-- `select`: poison condition gives poison; otherwise ONLY the chosen operand matters -/
def select (c : V 1) (a b : V w) : V w :=
  match c with
  | none => none
  | some c => if c = 1#1 then a else b

def trunc (w' : Nat) (a : V w) : V w' := a.map (·.setWidth w')
def zext (w' : Nat) (a : V w) : V w' := a.map (·.setWidth w')
def sext (w' : Nat) (a : V w) : V w' := a.map (·.signExtend w')

/-- division instructions: undefined behaviour on a zero (or poison) divisor and on signed overflow -/
def udiv (a b : V w) : M (V w) :=
  match a, b with
  | some x, some y => if y = 0#w then throw .ub else pure (some (x / y))
  | _, none => throw .ub
  | none, some y => if y = 0#w then throw .ub else pure none
def urem (a b : V w) : M (V w) :=
  match a, b with
  | some x, some y => if y = 0#w then throw .ub else pure (some (x % y))
  | _, none => throw .ub
  | none, some y => if y = 0#w then throw .ub else pure none
def sdiv (a b : V w) : M (V w) :=
  match a, b with
  | some x, some y =>
    if y = 0#w then throw .ub
    else if x = BitVec.intMin w ∧ y = BitVec.allOnes w then throw .ub
    else pure (some (x.sdiv y))
  | _, none => throw .ub
  | none, some y => if y = 0#w then throw .ub else pure none
def srem (a b : V w) : M (V w) :=
  match a, b with
  | some x, some y =>
    if y = 0#w then throw .ub
    else if x = BitVec.intMin w ∧ y = BitVec.allOnes w then throw .ub
    else pure (some (x.srem y))
  | _, none => throw .ub
  | none, some y => if y = 0#w then throw .ub else pure none

/-- `call void @runtime.AssertX(i1 c)`: panics when the flag is set -/
def assert (t : Trap) (c : V 1) : M Unit :=
  match c with
  | none => throw .ub
  | some c => if c = 1#1 then throw t else pure ()

/-- `ret` -/
def ret (a : V w) : M (BitVec w) :=
  match a with
  | none => throw .ub
  | some x => pure x

end LlgoVerif.LLVM
