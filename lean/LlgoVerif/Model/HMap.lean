/-!
# Bucket-level model of llgo's hash map (`runtime/internal/runtime/map.go`, `z_map.go`)

A transcription, branch by branch, of `makemap, mapaccess1/2/K, mapassign, mapdelete, mapclear, hashGrow,
growWork, evacuate, advanceEvacuationMark, newoverflow/incrnoverflow, tooManyOverflowBuckets,
mapiterinit, mapiternext` and of `z_map.go`'s `NewMapIter/MapIterNext/MapLen`.

Representation (DESIGN.md §4 C06): a bucket *chain* (main bucket + overflow buckets) is a `List (Cell K V)`
whose length is a multiple of 8; `tophash` marks (`emptyRest … evacuatedEmpty`) are the `top` values used by
the code; stale key/value data stays in the cells as memory keeps it.  Raw pointers are not modelled: a bucket
array is identified by a generation number (`gen`), arrays no longer referenced by the header but possibly by
an iterator are kept in `dead`.  The hash function, key equality and the type flags are parameters (`Ops`);
`fastrand` is an input stream (`Rand`) that lives inside the model state because the real one is a global.

Not modelled (stated in design/C06.md): `hashWriting` (set and cleared inside every operation), the
preallocated overflow pool of `makeBucketArray` (decides only *which* memory a new overflow bucket uses),
`uint8`/`uint16`/`uintptr` wrap-around of `B`, `noverflow > 65535`, and allocation limits.
Core Lean only.
-/
namespace LlgoVerif.HMap

/-! ## fastrand stream -/

/-- the scripted stream of the native harness (`rt.FastrandScript`, then the harness' LCG) -/
structure Rand where
  script : List UInt32 := []
  lcg : UInt32 := 12345
  calls : Nat := 0
deriving Repr

def Rand.next (r : Rand) : UInt32 × Rand :=
  match r.script with
  | v :: rest => (v, { r with script := rest, calls := r.calls + 1 })
  | [] =>
    let s := r.lcg * 1664525 + 1013904223
    (s >>> 1, { r with lcg := s, calls := r.calls + 1 })

def Rand.skip (r : Rand) : Nat → Rand
  | 0 => r
  | n + 1 => (r.next.2).skip n

/-! ## constants of map.go -/

def emptyRest : UInt8 := 0
def emptyOne : UInt8 := 1
def evacuatedX : UInt8 := 2
def evacuatedY : UInt8 := 3
def evacuatedEmpty : UInt8 := 4
def minTopHash : UInt8 := 5
def bucketCnt : Nat := 8

/-- `isEmpty(x)`: `x <= emptyOne` -/
def isEmptyTop (x : UInt8) : Bool := x ≤ emptyOne

/-- `tophash(hash)`: top byte, bumped above the reserved marks -/
def tophash (hash : UInt64) : UInt8 :=
  let top := (hash >>> 56).toUInt8
  if top < minTopHash then top + minTopHash else top

/-- `hash & bucketMask(B)` (for `B < 64`) -/
def bucketIdx (hash : UInt64) (B : Nat) : Nat := hash.toNat % 2 ^ B

/-- `overLoadFactor(count, B)`; `loadFactorNum = (8*13/16)*2 = 12`, `loadFactorDen = 2` as in the source -/
def overLoadFactor (count B : Nat) : Bool :=
  decide (count > bucketCnt) && decide (count > 12 * (2 ^ B / 2))

/-- `tooManyOverflowBuckets(noverflow, B)` -/
def tooManyOverflowBuckets (noverflow B : Nat) : Bool :=
  decide (noverflow ≥ 2 ^ (min B 15))

/-! ## cells, chains, the table -/

structure Cell (K V : Type) where
  top : UInt8
  key : K
  val : V
deriving Repr

abbrev Chain (K V : Type) := List (Cell K V)

/-- a zeroed bucket (`newobject(t.Bucket)` / a bucket of a fresh array) -/
def freshBucket (K V : Type) [Inhabited K] [Inhabited V] : Chain K V :=
  List.replicate bucketCnt { top := emptyRest, key := default, val := default }

/-- `evacuated(b)`: decided by `tophash[0]` of the main bucket -/
def evacuatedChain {K V : Type} (c : Chain K V) : Bool :=
  match c with
  | [] => false
  | x :: _ => decide (x.top > emptyOne) && decide (x.top < minTopHash)

inductive Err where
  | nilMap          -- "assignment to entry in nil map"
  | unhashable      -- "hash of unhashable type"
  | loop            -- model fuel exhausted (never on reachable states)
deriving Repr, DecidableEq

/-- what the type descriptor fixes: hasher, equality and the `maptype` flags -/
structure Ops (K : Type) where
  /-- hasher on keys with `k == k`, under seed `hash0` -/
  hash : UInt32 → K → UInt64
  /-- hasher on keys with `k != k` (NaN inside): consumes `nanCount k` `fastrand` values, in this order (one per
      NaN component: a complex key with two NaN parts draws two) -/
  nanHash : UInt32 → K → List UInt32 → UInt64
  /-- number of `fastrand` calls the hasher makes for a `k != k` key -/
  nanCount : K → Nat
  eq : K → K → Bool
  /-- the hasher panics (`interhash` on a dynamic type without `Equal`) -/
  unhashable : K → Bool
  reflexiveKey : Bool
  needKeyUpdate : Bool
  hashMightPanic : Bool

structure HMap (K V : Type) where
  count : Nat := 0
  iterFlag : Bool := false       -- flags & iterator
  oldIterFlag : Bool := false    -- flags & oldIterator
  sameSizeGrow : Bool := false   -- flags & sameSizeGrow
  B : Nat := 0
  noverflow : Nat := 0
  hash0 : UInt32 := 0
  /-- `h.buckets`; `#[]` = nil (lazily allocated when `B = 0`) -/
  buckets : Array (Chain K V) := #[]
  /-- `h.oldbuckets` -/
  old : Option (Array (Chain K V)) := none
  nevacuate : Nat := 0
  /-- generation of `buckets` (identity of the array, for iterators) -/
  gen : Nat := 0
  /-- arrays the header dropped (growth finished / cleared); only iterators look at them -/
  dead : List (Nat × Array (Chain K V)) := []
  /-- number of `throw("bad map state")` executed (`throw` prints and continues in this runtime) -/
  throws : Nat := 0
  rand : Rand := {}

variable {K V : Type} [Inhabited K] [Inhabited V]

def HMap.growing (h : HMap K V) : Bool := h.old.isSome

/-- `h.noldbuckets()` -/
def HMap.noldbuckets (h : HMap K V) : Nat :=
  if h.sameSizeGrow then 2 ^ h.B else 2 ^ (h.B - 1)

def HMap.fastrand (h : HMap K V) : UInt32 × HMap K V :=
  let (v, r) := h.rand.next
  (v, { h with rand := r })

/-- `n` consecutive `fastrand()` values -/
def HMap.fastrands (h : HMap K V) : Nat → List UInt32 × HMap K V
  | 0 => ([], h)
  | n + 1 =>
    let (v, h1) := h.fastrand
    let (vs, h2) := h1.fastrands n
    (v :: vs, h2)

/-- `t.Hasher(key, seed)` -/
def hashKey (o : Ops K) (seed : UInt32) (k : K) (h : HMap K V) : Except Err (UInt64 × HMap K V) :=
  if o.unhashable k then .error .unhashable
  else if o.eq k k then .ok (o.hash seed k, h)
  else
    let (xs, h') := h.fastrands (o.nanCount k)
    .ok (o.nanHash seed k xs, h')

/-! ## makemap -/

/-- the `for overLoadFactor(hint, B) { B++ }` loop -/
def pickB (hint : Nat) : Nat → Nat → Nat
  | 0, B => B
  | fuel + 1, B => if overLoadFactor hint B then pickB hint fuel (B + 1) else B

def freshArray (K V : Type) [Inhabited K] [Inhabited V] (B : Nat) : Array (Chain K V) :=
  Array.replicate (2 ^ B) (freshBucket K V)

/-- `makemap(t, hint, nil)`; `rand` is the global fastrand state handed to the new map -/
def makemap (hint : Nat) (rand : Rand) : HMap K V :=
  let (h0, r) := rand.next
  let B := pickB hint 64 0
  { hash0 := h0, B := B, buckets := if B != 0 then freshArray K V B else #[], rand := r }

/-! ## mapaccess -/

/-- the `bucketloop` of mapaccess1/2/K over a whole chain -/
def lookupChain (eq : K → K → Bool) (top : UInt8) (k : K) : Chain K V → Option (Cell K V)
  | [] => none
  | c :: cs =>
    if c.top != top then
      if c.top == emptyRest then none else lookupChain eq top k cs
    else if eq k c.key then some c
    else lookupChain eq top k cs

/-- the chain mapaccess searches: the old bucket if it is not evacuated yet, else the new one -/
def accessChain (h : HMap K V) (hash : UInt64) : Chain K V :=
  match h.old with
  | none => h.buckets.getD (bucketIdx hash h.B) []
  | some oa =>
    let oldb := oa.getD (hash.toNat % h.noldbuckets) []
    if !evacuatedChain oldb then oldb else h.buckets.getD (bucketIdx hash h.B) []

/-- `mapaccess1` / `mapaccess2` (the found cell, if any) -/
def mapaccess (o : Ops K) (h : HMap K V) (k : K) : Except Err (Option (Cell K V) × HMap K V) :=
  if h.count == 0 then
    if o.hashMightPanic then do
      let (_, h') ← hashKey o 0 k h      -- see issue 23734
      pure (none, h')
    else pure (none, h)
  else do
    let (hash, h') ← hashKey o h.hash0 k h
    pure (lookupChain o.eq (tophash hash) k (accessChain h' hash), h')

/-- `mapaccessK` (used by the iterator; no hashMightPanic probe) -/
def mapaccessK (o : Ops K) (h : HMap K V) (k : K) : Except Err (Option (Cell K V) × HMap K V) :=
  if h.count == 0 then pure (none, h)
  else do
    let (hash, h') ← hashKey o h.hash0 k h
    pure (lookupChain o.eq (tophash hash) k (accessChain h' hash), h')

/-! ## overflow buckets -/

/-- `h.incrnoverflow()` (`noverflow` is a uint16) -/
def HMap.incrnoverflow (h : HMap K V) : HMap K V :=
  if h.B < 16 then { h with noverflow := (h.noverflow + 1) % 65536 }
  else
    let mask : UInt32 := (1 <<< (UInt32.ofNat (h.B - 15))) - 1
    let (v, h') := h.fastrand
    if v &&& mask == 0 then { h' with noverflow := (h'.noverflow + 1) % 65536 } else h'

/-! ## evacuation -/

/-- an evacuation destination (`evacDst`): the destination chain, the bucket `dst.b` inside it, `dst.i` -/
structure Dst (K V : Type) where
  chain : Chain K V
  bi : Nat := 0
  i : Nat := 0

/-- store one cell at the destination (`dst.i == bucketCnt` ⇒ `newoverflow`) -/
def Dst.put (d : Dst K V) (c : Cell K V) (h : HMap K V) : Dst K V × HMap K V :=
  let (d, h) :=
    if d.i == bucketCnt then
      -- h.newoverflow(t, dst.b): link a zeroed bucket behind dst.b
      ({ chain := d.chain.take ((d.bi + 1) * bucketCnt) ++ freshBucket K V, bi := d.bi + 1, i := 0 : Dst K V },
        h.incrnoverflow)
    else (d, h)
  ({ d with chain := d.chain.set (d.bi * bucketCnt + d.i) c, i := d.i + 1 }, h)

/-- the evacuation decision of `evacuate` for one filled cell: (useY, tophash in the new table) -/
def evacDecide (o : Ops K) (newbit : Nat) (c : Cell K V) (h : HMap K V) : Except Err (Bool × UInt8 × HMap K V) :=
  if !h.sameSizeGrow then do
    let (hash, h) ← hashKey o h.hash0 c.key h
    if h.iterFlag && !o.reflexiveKey && !o.eq c.key c.key then
      -- key != key (NaN): the low bit of the old tophash decides, a fresh random tophash is drawn
      pure (decide (c.top &&& 1 = 1), tophash hash, h)
    else
      pure (decide (hash.toNat % (2 * newbit) ≥ newbit), c.top, h)      -- hash & newbit != 0
  else pure (false, c.top, h)

/-- the two nested loops of `evacuate` over the cells of the old chain; returns the marked old cells -/
def evacCells (o : Ops K) (newbit : Nat) : List (Cell K V) → Dst K V → Dst K V → HMap K V →
    Except Err (List (Cell K V) × Dst K V × Dst K V × HMap K V)
  | [], x, y, h => pure ([], x, y, h)
  | c :: cs, x, y, h =>
    if isEmptyTop c.top then do
      let (rest, x, y, h) ← evacCells o newbit cs x y h
      pure ({ c with top := evacuatedEmpty } :: rest, x, y, h)
    else do
      let h := if c.top < minTopHash then { h with throws := h.throws + 1 } else h   -- throw("bad map state")
      let (useY, top, h) ← evacDecide o newbit c h
      let moved : Cell K V := { top := top, key := c.key, val := c.val }
      let (x, y, h) : Dst K V × Dst K V × HMap K V :=
        if useY then
          let (y, h) := y.put moved h
          (x, y, h)
        else
          let (x, h) := x.put moved h
          (x, y, h)
      let (rest, x, y, h) ← evacCells o newbit cs x y h
      pure ({ c with top := if useY then evacuatedY else evacuatedX } :: rest, x, y, h)

/-- `bucketEvacuated(t, h, bucket)` -/
def bucketEvacuated (oa : Array (Chain K V)) (bucket : Nat) : Bool :=
  evacuatedChain (oa.getD bucket [])

/-- the `for h.nevacuate != stop && bucketEvacuated(...)` loop -/
def advanceLoop (oa : Array (Chain K V)) (stop : Nat) : Nat → Nat → Nat
  | 0, n => n
  | fuel + 1, n => if n != stop && bucketEvacuated oa n then advanceLoop oa stop fuel (n + 1) else n

/-- `advanceEvacuationMark(h, t, newbit)` -/
def advanceEvacuationMark (h : HMap K V) (newbit : Nat) : HMap K V :=
  match h.old with
  | none => h
  | some oa =>
    let n := h.nevacuate + 1
    let stop := min (n + 1024) newbit
    let n := advanceLoop oa stop 1024 n
    if n == newbit then
      { h with nevacuate := n, old := none, sameSizeGrow := false, dead := (h.gen - 1, oa) :: h.dead }
    else { h with nevacuate := n }

/-- the copy loop of `evacuate` (`if !evacuated(b) { … }`) for old bucket `oldbucket` of the old array `oa` -/
def evacCopy (o : Ops K) (h : HMap K V) (oa : Array (Chain K V)) (oldbucket : Nat) : Except Err (HMap K V) :=
  let newbit := h.noldbuckets
  let b := oa.getD oldbucket []
  if !evacuatedChain b then do
    let x : Dst K V := { chain := h.buckets.getD oldbucket [] }
    let y : Dst K V := { chain := h.buckets.getD (oldbucket + newbit) [] }
    let (marked, x, y, h) ← evacCells o newbit b x y h
    let nb := h.buckets.setIfInBounds oldbucket x.chain
    let nb := if !h.sameSizeGrow then nb.setIfInBounds (oldbucket + newbit) y.chain else nb
    pure { h with buckets := nb, old := some (oa.setIfInBounds oldbucket marked) }
  else pure h

/-- `evacuate(t, h, oldbucket)` -/
def evacuate (o : Ops K) (h : HMap K V) (oldbucket : Nat) : Except Err (HMap K V) :=
  match h.old with
  | none => pure h
  | some oa => do
    let newbit := h.noldbuckets
    let h ← evacCopy o h oa oldbucket
    if oldbucket == h.nevacuate then pure (advanceEvacuationMark h newbit) else pure h

/-- `growWork(t, h, bucket)` -/
def growWork (o : Ops K) (h : HMap K V) (bucket : Nat) : Except Err (HMap K V) := do
  let h ← evacuate o h (bucket % h.noldbuckets)
  if h.growing then evacuate o h h.nevacuate else pure h

/-- `hashGrow(t, h)` -/
def hashGrow (h : HMap K V) : HMap K V :=
  let bigger := overLoadFactor (h.count + 1) h.B
  let newB := if bigger then h.B + 1 else h.B
  { h with
    sameSizeGrow := if bigger then h.sameSizeGrow else true
    iterFlag := false
    oldIterFlag := h.iterFlag
    B := newB
    old := some h.buckets
    buckets := freshArray K V newB
    nevacuate := 0
    noverflow := 0
    gen := h.gen + 1 }

/-! ## mapassign -/

inductive ScanRes where
  | found (i : Nat)
  | notFound (inserti : Option Nat)
deriving Repr, DecidableEq

/-- the `bucketloop` of mapassign over a whole chain (cell index, first free slot) -/
def scanAssign (eq : K → K → Bool) (top : UInt8) (k : K) : Chain K V → Nat → Option Nat → ScanRes
  | [], _, ins => .notFound ins
  | c :: cs, i, ins =>
    if c.top != top then
      let ins' := if isEmptyTop c.top && ins.isNone then some i else ins
      if c.top == emptyRest then .notFound ins' else scanAssign eq top k cs (i + 1) ins'
    else if eq k c.key then .found i
    else scanAssign eq top k cs (i + 1) ins

inductive PassRes (K V : Type) where
  | done (h : HMap K V)
  | again (h : HMap K V)      -- `goto again` after hashGrow

/-- one pass of mapassign from the label `again`, after `growWork`: scan the chain, update or insert -/
def assignCore (o : Ops K) (h : HMap K V) (hash : UInt64) (k : K) (v : V) : PassRes K V :=
  let bucket := bucketIdx hash h.B
  let chain := h.buckets.getD bucket []
  let top := tophash hash
  match scanAssign o.eq top k chain 0 none with
  | .found i =>
    let upd := fun (c : Cell K V) => { c with key := if o.needKeyUpdate then k else c.key, val := v }
    .done { h with buckets := h.buckets.setIfInBounds bucket (chain.modify i upd) }
  | .notFound ins =>
    if !h.growing && (overLoadFactor (h.count + 1) h.B || tooManyOverflowBuckets h.noverflow h.B) then
      .again (hashGrow h)
    else
      let c' : Cell K V := { top := top, key := k, val := v }
      match ins with
      | some i =>
        .done { h with buckets := h.buckets.setIfInBounds bucket (chain.set i c'), count := h.count + 1 }
      | none =>
        -- h.newoverflow(t, b)
        let h := h.incrnoverflow
        .done { h with buckets := h.buckets.setIfInBounds bucket ((chain ++ freshBucket K V).set chain.length c'),
                       count := h.count + 1 }

/-- one pass of mapassign from the label `again` -/
def assignPass (o : Ops K) (h : HMap K V) (hash : UInt64) (k : K) (v : V) : Except Err (PassRes K V) := do
  let h ← if h.growing then growWork o h (bucketIdx hash h.B) else pure h
  pure (assignCore o h hash k v)

/-- the `again:` loop of mapassign.  The real loop is unbounded; a second pass is needed after `hashGrow`, and a
    further one only if a single `growWork` completes the whole growth and the fresh table is over the threshold
    again; the model gives up (`Err.loop`) after `fuel` passes. -/
def assignLoop (o : Ops K) (hash : UInt64) (k : K) (v : V) : Nat → HMap K V → Except Err (HMap K V)
  | 0, _ => .error .loop
  | fuel + 1, h => do
    match ← assignPass o h hash k v with
    | .done h' => pure h'
    | .again h' => assignLoop o hash k v fuel h'

/-- `*mapassign(t, h, key) = v` on a non-nil map -/
def mapassign (o : Ops K) (h : HMap K V) (k : K) (v : V) : Except Err (HMap K V) := do
  let (hash, h) ← hashKey o h.hash0 k h
  let h := if h.buckets.isEmpty then { h with buckets := #[freshBucket K V] } else h
  assignLoop o hash k v 8 h

/-! ## mapdelete -/

/-- the `search` loop of mapdelete: index of the matching cell -/
def scanDelete (eq : K → K → Bool) (top : UInt8) (k : K) : Chain K V → Nat → Option Nat
  | [], _ => none
  | c :: cs, i =>
    if c.top != top then
      if c.top == emptyRest then none else scanDelete eq top k cs (i + 1)
    else if eq k c.key then some i
    else scanDelete eq top k cs (i + 1)

def setTop (c : Chain K V) (i : Nat) (t : UInt8) : Chain K V :=
  c.modify i (fun x => { x with top := t })

def topAt (c : Chain K V) (i : Nat) : Option UInt8 := (c[i]?).map (·.top)

/-- the loop that turns a trailing run of `emptyOne` into `emptyRest`, starting at cell `j` -/
def backProp (c : Chain K V) : Nat → Chain K V
  | 0 => setTop c 0 emptyRest
  | j + 1 =>
    let c' := setTop c (j + 1) emptyRest
    if topAt c' j != some emptyOne then c' else backProp c' j

/-- cell `i` of the chain is deleted: `emptyOne`, then the emptyRest back-propagation -/
def deleteAt (c : Chain K V) (i : Nat) : Chain K V :=
  let c := setTop c i emptyOne
  match topAt c (i + 1) with
  | some t => if t != emptyRest then c else backProp c i
  | none => backProp c i

/-- mapdelete after `growWork`: search the chain, delete, reseed when the map became empty -/
def deleteCore (o : Ops K) (h : HMap K V) (hash : UInt64) (k : K) : HMap K V :=
  let bucket := bucketIdx hash h.B
  let chain := h.buckets.getD bucket []
  match scanDelete o.eq (tophash hash) k chain 0 with
  | none => h
  | some i =>
    let h := { h with buckets := h.buckets.setIfInBounds bucket (deleteAt chain i), count := h.count - 1 }
    if h.count == 0 then
      let (s, h) := h.fastrand
      { h with hash0 := s }
    else h

/-- mapdelete from `growWork` on -/
def deletePass (o : Ops K) (h : HMap K V) (hash : UInt64) (k : K) : Except Err (HMap K V) := do
  let h ← if h.growing then growWork o h (bucketIdx hash h.B) else pure h
  pure (deleteCore o h hash k)

/-- `mapdelete(t, h, key)` on a non-nil map -/
def mapdelete (o : Ops K) (h : HMap K V) (k : K) : Except Err (HMap K V) :=
  if h.count == 0 then
    if o.hashMightPanic then do
      let (_, h') ← hashKey o 0 k h
      pure h'
    else pure h
  else do
    let (hash, h) ← hashKey o h.hash0 k h
    deletePass o h hash k

/-! ## mapclear -/

def markEmpty (a : Array (Chain K V)) : Array (Chain K V) :=
  a.map (fun c => c.map (fun x => { x with top := emptyRest }))

/-- `mapclear(t, h)` with a `memclr` that clears (what map.go's comments assume) -/
def mapclear (h : HMap K V) : HMap K V :=
  if h.count == 0 then h
  else
    let dead := match h.old with
      | some oa => (h.gen - 1, markEmpty oa) :: h.dead
      | none => h.dead
    let (s, h) := h.fastrand
    { h with
      sameSizeGrow := false, old := none, nevacuate := 0, noverflow := 0, count := 0, hash0 := s,
      buckets := Array.replicate h.buckets.size (freshBucket K V), dead := dead }

/-! ## iteration -/

/-- a bucket pointer: array generation, chain index, bucket number inside the chain -/
structure BRef where
  gen : Nat
  idx : Nat
  pos : Nat
deriving Repr, DecidableEq

structure Iter (K V : Type) where
  /-- `it.h != nil` -/
  active : Bool := false
  key : Option K := none
  elem : Option V := none
  B : Nat := 0
  gen : Nat := 0                -- it.buckets
  bptr : Option BRef := none
  startBucket : Nat := 0
  offset : Nat := 0
  wrapped : Bool := false
  i : Nat := 0
  bucket : Nat := 0
  checkBucket : Option Nat := none   -- none = noCheck
  /-- `llgoMapIter.ready` -/
  ready : Bool := false

/-- the array a generation number denotes now -/
def HMap.arrayOf (h : HMap K V) (g : Nat) : Option (Array (Chain K V)) :=
  if g == h.gen then some h.buckets
  else match h.old with
    | some oa => if g + 1 == h.gen then some oa else (h.dead.find? (·.1 == g)).map (·.2)
    | none => (h.dead.find? (·.1 == g)).map (·.2)

/-- the 8 cells of the bucket a `BRef` points to (`none`: the memory is no longer part of the model's chain) -/
def HMap.bucketAt (h : HMap K V) (b : BRef) : Option (List (Cell K V) × Bool) :=
  match h.arrayOf b.gen with
  | none => none
  | some a =>
    let chain := a.getD b.idx []
    let cells := (chain.drop (b.pos * bucketCnt)).take bucketCnt
    if cells.length == bucketCnt then some (cells, decide (chain.length > (b.pos + 1) * bucketCnt)) else none

/-- `fastrand64()` of stubs.go -/
def fastrand64 (h : HMap K V) : Nat × HMap K V :=
  let (v, h) := h.fastrand
  let n := (v.toNat + 0xa0761d6478bd642f) % 2 ^ 64
  let p := n * (n ^^^ 0xe7037ed1a0b428db)
  ((p / 2 ^ 64) ^^^ (p % 2 ^ 64), h)

inductive ScanOut (K V : Type) where
  | yield (k : K) (v : V) (i : Nat)
  | done

/-- the `for ; i < bucketCnt; i++` loop of mapiternext over one bucket -/
def iterScan (o : Ops K) (h : HMap K V) (it : Iter K V) (cells : List (Cell K V)) (cb : Option Nat) :
    Nat → Nat → Except Err (ScanOut K V)
  | 0, _ => pure .done
  | n + 1, i =>
    if i ≥ bucketCnt then pure .done else
    let offi := (i + it.offset) % bucketCnt
    match cells[offi]? with
    | none => pure .done
    | some c =>
      if isEmptyTop c.top || c.top == evacuatedEmpty then iterScan o h it cells cb n (i + 1)
      else
        let reflexive := o.reflexiveKey || o.eq c.key c.key
        let skip : Bool :=
          match cb with
          | some chk =>
            if !h.sameSizeGrow then
              if reflexive then bucketIdx (o.hash h.hash0 c.key) it.B != chk
              else chk / 2 ^ (it.B - 1) != (c.top &&& 1).toNat
            else false
          | none => false
        if skip then iterScan o h it cells cb n (i + 1)
        else if (c.top != evacuatedX && c.top != evacuatedY) || !reflexive then
          pure (.yield c.key c.val (i + 1))
        else do
          let (r, _) ← mapaccessK o h c.key
          match r with
          | none => iterScan o h it cells cb n (i + 1)
          | some rc => pure (.yield rc.key rc.val (i + 1))

/-- `mapiternext(it)`: the `next:` loop (fuel bounds the number of buckets visited) -/
def iterLoop (o : Ops K) (h : HMap K V) : Nat → Iter K V → Nat → Option BRef → Nat → Option Nat → Except Err (Iter K V)
  | 0, _, _, _, _, _ => .error .loop
  | fuel + 1, it, bucket, b, i, cb =>
    match b with
    | none =>
      if bucket == it.startBucket && it.wrapped then
        pure { it with key := none, elem := none }
      else
        let (b', cb') : BRef × Option Nat :=
          if h.growing && it.B == h.B then
            let oldbucket := bucket % h.noldbuckets
            let oa := h.old.getD #[]
            if !evacuatedChain (oa.getD oldbucket []) then
              ({ gen := h.gen - 1, idx := oldbucket, pos := 0 }, some bucket)
            else ({ gen := it.gen, idx := bucket, pos := 0 }, none)
          else ({ gen := it.gen, idx := bucket, pos := 0 }, none)
        let bucket' := bucket + 1
        let (bucket', it) := if bucket' == 2 ^ it.B then (0, { it with wrapped := true }) else (bucket', it)
        iterLoop o h fuel it bucket' (some b') 0 cb'
    | some br =>
      match h.bucketAt br with
      | none => iterLoop o h fuel it bucket none 0 cb
      | some (cells, hasOvf) => do
        match ← iterScan o h it cells cb bucketCnt i with
        | .yield k v i' =>
          pure { it with key := some k, elem := some v, bucket := bucket, bptr := some br, i := i', checkBucket := cb }
        | .done =>
          iterLoop o h fuel it bucket (if hasOvf then some { br with pos := br.pos + 1 } else none) 0 cb

/-- number of buckets (incl. overflow buckets) of an array, plus one per chain -/
def totalCells (a : Array (Chain K V)) : Nat := (a.toList.map (fun c => c.length / bucketCnt + 1)).sum

/-- fuel for one `mapiternext`: every round of `next:` enters a chain, moves to an overflow bucket or ends, so three
    times the number of buckets of the arrays involved is plenty (`iterLoop_walk`, `iterFuel_ge` in the lemmas) -/
def HMap.iterFuel (h : HMap K V) (it : Iter K V) : Nat :=
  2 * (2 ^ it.B + 2) + 3 * (totalCells h.buckets + totalCells (h.old.getD #[]) +
    ((h.arrayOf it.gen).map totalCells).getD 0) + 8

def mapiternext (o : Ops K) (h : HMap K V) (it : Iter K V) : Except Err (Iter K V) :=
  iterLoop o h (h.iterFuel it) it it.bucket it.bptr it.i it.checkBucket

/-- `mapiterinit(t, h, it)` on a non-nil map -/
def mapiterinit (o : Ops K) (h : HMap K V) : Except Err (Iter K V × HMap K V) :=
  if h.count == 0 then pure ({}, h)
  else do
    let (r, h) : Nat × HMap K V :=
      if h.B > 31 - 3 then fastrand64 h
      else let (v, h) := h.fastrand; (v.toNat, h)
    let start := r % 2 ^ h.B
    let it : Iter K V :=
      { active := true, B := h.B, gen := h.gen, startBucket := start,
        offset := (r / 2 ^ h.B) % bucketCnt, bucket := start }
    let h := { h with iterFlag := true, oldIterFlag := true }
    let it ← mapiternext o h it
    pure (it, h)

/-! ## z_map.go wrappers (nil maps) -/

/-- a map variable: nil (only the global fastrand state remains) or a header -/
inductive MapRef (K V : Type) where
  | nil (rand : Rand)
  | ref (h : HMap K V)

def MapRef.rand : MapRef K V → Rand
  | .nil r => r
  | .ref h => h.rand

/-- `t.Hasher(key, 0)` on a nil map (only its panic and its fastrand use matter) -/
def nilProbe (o : Ops K) (r : Rand) (k : K) : Except Err Rand :=
  if o.hashMightPanic then
    if o.unhashable k then .error .unhashable
    else if o.eq k k then pure r else pure (r.skip (o.nanCount k))
  else pure r

/-- `MakeMap(t, hint)` -/
def makeMap (m : MapRef K V) (hint : Nat) : MapRef K V := .ref (makemap hint m.rand)

/-- `NewMapIter(t, h)` -/
def newMapIter (o : Ops K) (m : MapRef K V) : Except Err (Iter K V × MapRef K V) :=
  match m with
  | .nil r => pure ({ ready := true }, .nil r)
  | .ref h => do
    let (it, h) ← mapiterinit o h
    pure ({ it with ready := true }, .ref h)

/-- `MapIterNext(it)`; the iterator keeps referring to the map it was created on -/
def mapIterNext (o : Ops K) (m : MapRef K V) (it : Iter K V) : Except Err (Option (K × V) × Iter K V) :=
  match m with
  | .nil _ => pure (none, { it with key := none, elem := none })
  | .ref h =>
    if !it.active || h.count == 0 then pure (none, { it with key := none, elem := none })
    else do
      let it ← if !it.ready then (do let it ← mapiternext o h it; pure { it with ready := true }) else pure it
      match it.key, it.elem with
      | some k, some v => pure (some (k, v), { it with ready := false })
      | _, _ => pure (none, it)

/-- `MapLen(h)` -/
def mapLen (m : MapRef K V) : Nat :=
  match m with
  | .nil _ => 0
  | .ref h => h.count

/-- `MapAccess2(t, h, key)` / `MapAccess1`: the stored value, `none` = zero value, ok=false -/
def mapAccess (o : Ops K) (m : MapRef K V) (k : K) : Except Err (Option V × MapRef K V) :=
  match m with
  | .nil r => do
    let r ← nilProbe o r k
    pure (none, .nil r)
  | .ref h => do
    let (r, h) ← mapaccess o h k
    pure (r.map (·.val), .ref h)

/-- `*MapAssign(t, h, key) = v` -/
def mapAssign (o : Ops K) (m : MapRef K V) (k : K) (v : V) : Except Err (MapRef K V) :=
  match m with
  | .nil _ => .error .nilMap
  | .ref h => do
    let h ← mapassign o h k v
    pure (.ref h)

/-- `MapDelete(t, h, key)` -/
def mapDelete (o : Ops K) (m : MapRef K V) (k : K) : Except Err (MapRef K V) :=
  match m with
  | .nil r => do
    let r ← nilProbe o r k
    pure (.nil r)
  | .ref h => do
    let h ← mapdelete o h k
    pure (.ref h)

/-- `MapClear(t, h)` -/
def mapClear (m : MapRef K V) : MapRef K V :=
  match m with
  | .nil r => .nil r
  | .ref h => .ref (mapclear h)

/-- drop dead arrays no iterator refers to (bookkeeping of the model only) -/
def HMap.prune (h : HMap K V) (keep : List Nat) : HMap K V :=
  { h with dead := h.dead.filter (fun p => keep.contains p.1) }

end LlgoVerif.HMap
