import LlgoVerif.Lemmas.ChanPlain
/-! C10, select-free programs, continued: sleeping conditions of the unbuffered loops, the arming invariants of the
    hand-off (fixed variant), and the link between channel history and thread results. -/
namespace LlgoVerif.Chan

def Point.isSendU : Point → Bool
  | .sendWaitU .. => true
  | _ => false

/-- why the code went to sleep in an unbuffered loop (first two loops; the second phase of a receive is `waitCond`) -/
def waitCondU (p : Point) (ch : Chan) : Prop :=
  match p with
  | .sendWaitU .. => ch.cap = 0 ∧ ch.getp ≠ hasRecv ∧ ch.closed = false
  | .recvWaitU .. => ch.cap = 0 ∧ ch.getp = hasRecv ∧ ch.closed = false
  | _ => True

theorem body_wait_isWait (p q : Point) (t : Tid) (ch : Chan) (hp : p.plain = true)
    (h : (body p t ch).out = .wait q) : q.isWait = true := by
  cases p <;> simp only [body] at h ⊢
  case sendLock c v => (try unfold sendLoop at h); (try unfold sendLoop); (try simp only [Chan.handOff] at h ⊢); (repeat' (first | split at h | split)); all_goals (try simp_all [Point.plain]); all_goals (try subst_vars); all_goals (try simp_all [Chan.push, Chan.pop, Chan.handOff, Chan.bump, Chan.front, Point.plain, Point.chan, Point.secondPhase2, Out.isArm, Out.commits, Ret.isRecvOn, hasRecv, noSendRecv, Point.isWait])
  case sendWaitU c v => (try unfold sendLoop at h); (try unfold sendLoop); (try simp only [Chan.handOff] at h ⊢); (repeat' (first | split at h | split)); all_goals (try simp_all [Point.plain]); all_goals (try subst_vars); all_goals (try simp_all [Chan.push, Chan.pop, Chan.handOff, Chan.bump, Chan.front, Point.plain, Point.chan, Point.secondPhase2, Out.isArm, Out.commits, Ret.isRecvOn, hasRecv, noSendRecv, Point.isWait])
  case sendWaitB c v => (try unfold sendLoop at h); (try unfold sendLoop); (try simp only [Chan.handOff] at h ⊢); (repeat' (first | split at h | split)); all_goals (try simp_all [Point.plain]); all_goals (try subst_vars); all_goals (try simp_all [Chan.push, Chan.pop, Chan.handOff, Chan.bump, Chan.front, Point.plain, Point.chan, Point.secondPhase2, Out.isArm, Out.commits, Ret.isRecvOn, hasRecv, noSendRecv, Point.isWait])
  case recvLock c sl => (try unfold recvLoop at h); (try unfold recvLoop); (try simp only [Chan.handOff] at h ⊢); (repeat' (first | split at h | split)); all_goals (try simp_all [Point.plain]); all_goals (try subst_vars); all_goals (try simp_all [Chan.push, Chan.pop, Chan.handOff, Chan.bump, Chan.front, Point.plain, Point.chan, Point.secondPhase2, Out.isArm, Out.commits, Ret.isRecvOn, hasRecv, noSendRecv, Point.isWait])
  case recvWaitU c sl => (try unfold recvLoop at h); (try unfold recvLoop); (try simp only [Chan.handOff] at h ⊢); (repeat' (first | split at h | split)); all_goals (try simp_all [Point.plain]); all_goals (try subst_vars); all_goals (try simp_all [Chan.push, Chan.pop, Chan.handOff, Chan.bump, Chan.front, Point.plain, Point.chan, Point.secondPhase2, Out.isArm, Out.commits, Ret.isRecvOn, hasRecv, noSendRecv, Point.isWait])
  case recvWaitB c sl => (try unfold recvLoop at h); (try unfold recvLoop); (try simp only [Chan.handOff] at h ⊢); (repeat' (first | split at h | split)); all_goals (try simp_all [Point.plain]); all_goals (try subst_vars); all_goals (try simp_all [Chan.push, Chan.pop, Chan.handOff, Chan.bump, Chan.front, Point.plain, Point.chan, Point.secondPhase2, Out.isArm, Out.commits, Ret.isRecvOn, hasRecv, noSendRecv, Point.isWait])
  case recv2Lock c b sq => (try unfold recv2Loop at h); (try unfold recv2Loop); (try simp only [Chan.handOff] at h ⊢); (repeat' (first | split at h | split)); all_goals (try simp_all [Point.plain]); all_goals (try subst_vars); all_goals (try simp_all [Chan.push, Chan.pop, Chan.handOff, Chan.bump, Chan.front, Point.plain, Point.chan, Point.secondPhase2, Out.isArm, Out.commits, Ret.isRecvOn, hasRecv, noSendRecv, Point.isWait])
  case recv2Wait c b sq => (try unfold recv2Loop at h); (try unfold recv2Loop); (try simp only [Chan.handOff] at h ⊢); (repeat' (first | split at h | split)); all_goals (try simp_all [Point.plain]); all_goals (try subst_vars); all_goals (try simp_all [Chan.push, Chan.pop, Chan.handOff, Chan.bump, Chan.front, Point.plain, Point.chan, Point.secondPhase2, Out.isArm, Out.commits, Ret.isRecvOn, hasRecv, noSendRecv, Point.isWait])
  case closeLock c => (try unfold closeBody at h); (try unfold closeBody); (try simp only [Chan.handOff] at h ⊢); (repeat' (first | split at h | split)); all_goals (try simp_all [Point.plain]); all_goals (try subst_vars); all_goals (try simp_all [Chan.push, Chan.pop, Chan.handOff, Chan.bump, Chan.front, Point.plain, Point.chan, Point.secondPhase2, Out.isArm, Out.commits, Ret.isRecvOn, hasRecv, noSendRecv, Point.isWait])
  case trySendLock c v => simp [Point.plain] at hp
  case tryRecvLock c sl a => simp [Point.plain] at hp
  case prepLock c b => simp [Point.plain] at hp
  case endLock c b => simp [Point.plain] at hp

theorem body_nwait_sendU (p q : Point) (t : Tid) (ch : Chan) (hp : p.plain = true)
    (h : (body p t ch).out = .notify (.wait q)) : q.isSendU = true := by
  cases p <;> simp only [body] at h ⊢
  case sendLock c v => (try unfold sendLoop at h); (try unfold sendLoop); (try simp only [Chan.handOff] at h ⊢); (repeat' (first | split at h | split)); all_goals (try simp_all [Point.plain]); all_goals (try subst_vars); all_goals (try simp_all [Chan.push, Chan.pop, Chan.handOff, Chan.bump, Chan.front, Point.plain, Point.chan, Point.secondPhase2, Out.isArm, Out.commits, Ret.isRecvOn, hasRecv, noSendRecv, Point.isSendU])
  case sendWaitU c v => (try unfold sendLoop at h); (try unfold sendLoop); (try simp only [Chan.handOff] at h ⊢); (repeat' (first | split at h | split)); all_goals (try simp_all [Point.plain]); all_goals (try subst_vars); all_goals (try simp_all [Chan.push, Chan.pop, Chan.handOff, Chan.bump, Chan.front, Point.plain, Point.chan, Point.secondPhase2, Out.isArm, Out.commits, Ret.isRecvOn, hasRecv, noSendRecv, Point.isSendU])
  case sendWaitB c v => (try unfold sendLoop at h); (try unfold sendLoop); (try simp only [Chan.handOff] at h ⊢); (repeat' (first | split at h | split)); all_goals (try simp_all [Point.plain]); all_goals (try subst_vars); all_goals (try simp_all [Chan.push, Chan.pop, Chan.handOff, Chan.bump, Chan.front, Point.plain, Point.chan, Point.secondPhase2, Out.isArm, Out.commits, Ret.isRecvOn, hasRecv, noSendRecv, Point.isSendU])
  case recvLock c sl => (try unfold recvLoop at h); (try unfold recvLoop); (try simp only [Chan.handOff] at h ⊢); (repeat' (first | split at h | split)); all_goals (try simp_all [Point.plain]); all_goals (try subst_vars); all_goals (try simp_all [Chan.push, Chan.pop, Chan.handOff, Chan.bump, Chan.front, Point.plain, Point.chan, Point.secondPhase2, Out.isArm, Out.commits, Ret.isRecvOn, hasRecv, noSendRecv, Point.isSendU])
  case recvWaitU c sl => (try unfold recvLoop at h); (try unfold recvLoop); (try simp only [Chan.handOff] at h ⊢); (repeat' (first | split at h | split)); all_goals (try simp_all [Point.plain]); all_goals (try subst_vars); all_goals (try simp_all [Chan.push, Chan.pop, Chan.handOff, Chan.bump, Chan.front, Point.plain, Point.chan, Point.secondPhase2, Out.isArm, Out.commits, Ret.isRecvOn, hasRecv, noSendRecv, Point.isSendU])
  case recvWaitB c sl => (try unfold recvLoop at h); (try unfold recvLoop); (try simp only [Chan.handOff] at h ⊢); (repeat' (first | split at h | split)); all_goals (try simp_all [Point.plain]); all_goals (try subst_vars); all_goals (try simp_all [Chan.push, Chan.pop, Chan.handOff, Chan.bump, Chan.front, Point.plain, Point.chan, Point.secondPhase2, Out.isArm, Out.commits, Ret.isRecvOn, hasRecv, noSendRecv, Point.isSendU])
  case recv2Lock c b sq => (try unfold recv2Loop at h); (try unfold recv2Loop); (try simp only [Chan.handOff] at h ⊢); (repeat' (first | split at h | split)); all_goals (try simp_all [Point.plain]); all_goals (try subst_vars); all_goals (try simp_all [Chan.push, Chan.pop, Chan.handOff, Chan.bump, Chan.front, Point.plain, Point.chan, Point.secondPhase2, Out.isArm, Out.commits, Ret.isRecvOn, hasRecv, noSendRecv, Point.isSendU])
  case recv2Wait c b sq => (try unfold recv2Loop at h); (try unfold recv2Loop); (try simp only [Chan.handOff] at h ⊢); (repeat' (first | split at h | split)); all_goals (try simp_all [Point.plain]); all_goals (try subst_vars); all_goals (try simp_all [Chan.push, Chan.pop, Chan.handOff, Chan.bump, Chan.front, Point.plain, Point.chan, Point.secondPhase2, Out.isArm, Out.commits, Ret.isRecvOn, hasRecv, noSendRecv, Point.isSendU])
  case closeLock c => (try unfold closeBody at h); (try unfold closeBody); (try simp only [Chan.handOff] at h ⊢); (repeat' (first | split at h | split)); all_goals (try simp_all [Point.plain]); all_goals (try subst_vars); all_goals (try simp_all [Chan.push, Chan.pop, Chan.handOff, Chan.bump, Chan.front, Point.plain, Point.chan, Point.secondPhase2, Out.isArm, Out.commits, Ret.isRecvOn, hasRecv, noSendRecv, Point.isSendU])
  case trySendLock c v => simp [Point.plain] at hp
  case tryRecvLock c sl a => simp [Point.plain] at hp
  case prepLock c b => simp [Point.plain] at hp
  case endLock c b => simp [Point.plain] at hp

/-- falling asleep in an unbuffered loop: the channel is unbuffered, open, and (sender) not armed / (first-phase
    receiver) armed by somebody else -/
theorem body_waitU (p q : Point) (t : Tid) (ch : Chan) (hp : p.plain = true)
    (h : (body p t ch).out = .wait q ∨ (body p t ch).out = .notify (.wait q)) : waitCondU q ch := by
  cases p <;> simp only [body] at h ⊢
  case sendLock c v => (try unfold sendLoop at h); (try unfold sendLoop); (try simp only [Chan.handOff] at h ⊢); (repeat' (first | split at h | split)); all_goals (try simp_all [Point.plain]); all_goals (try subst_vars); all_goals (try simp_all [Chan.push, Chan.pop, Chan.handOff, Chan.bump, Chan.front, Point.plain, Point.chan, Point.secondPhase2, Out.isArm, Out.commits, Ret.isRecvOn, hasRecv, noSendRecv, waitCondU])
  case sendWaitU c v => (try unfold sendLoop at h); (try unfold sendLoop); (try simp only [Chan.handOff] at h ⊢); (repeat' (first | split at h | split)); all_goals (try simp_all [Point.plain]); all_goals (try subst_vars); all_goals (try simp_all [Chan.push, Chan.pop, Chan.handOff, Chan.bump, Chan.front, Point.plain, Point.chan, Point.secondPhase2, Out.isArm, Out.commits, Ret.isRecvOn, hasRecv, noSendRecv, waitCondU])
  case sendWaitB c v => (try unfold sendLoop at h); (try unfold sendLoop); (try simp only [Chan.handOff] at h ⊢); (repeat' (first | split at h | split)); all_goals (try simp_all [Point.plain]); all_goals (try subst_vars); all_goals (try simp_all [Chan.push, Chan.pop, Chan.handOff, Chan.bump, Chan.front, Point.plain, Point.chan, Point.secondPhase2, Out.isArm, Out.commits, Ret.isRecvOn, hasRecv, noSendRecv, waitCondU])
  case recvLock c sl => (try unfold recvLoop at h); (try unfold recvLoop); (try simp only [Chan.handOff] at h ⊢); (repeat' (first | split at h | split)); all_goals (try simp_all [Point.plain]); all_goals (try subst_vars); all_goals (try simp_all [Chan.push, Chan.pop, Chan.handOff, Chan.bump, Chan.front, Point.plain, Point.chan, Point.secondPhase2, Out.isArm, Out.commits, Ret.isRecvOn, hasRecv, noSendRecv, waitCondU])
  case recvWaitU c sl => (try unfold recvLoop at h); (try unfold recvLoop); (try simp only [Chan.handOff] at h ⊢); (repeat' (first | split at h | split)); all_goals (try simp_all [Point.plain]); all_goals (try subst_vars); all_goals (try simp_all [Chan.push, Chan.pop, Chan.handOff, Chan.bump, Chan.front, Point.plain, Point.chan, Point.secondPhase2, Out.isArm, Out.commits, Ret.isRecvOn, hasRecv, noSendRecv, waitCondU])
  case recvWaitB c sl => (try unfold recvLoop at h); (try unfold recvLoop); (try simp only [Chan.handOff] at h ⊢); (repeat' (first | split at h | split)); all_goals (try simp_all [Point.plain]); all_goals (try subst_vars); all_goals (try simp_all [Chan.push, Chan.pop, Chan.handOff, Chan.bump, Chan.front, Point.plain, Point.chan, Point.secondPhase2, Out.isArm, Out.commits, Ret.isRecvOn, hasRecv, noSendRecv, waitCondU])
  case recv2Lock c b sq => (try unfold recv2Loop at h); (try unfold recv2Loop); (try simp only [Chan.handOff] at h ⊢); (repeat' (first | split at h | split)); all_goals (try simp_all [Point.plain]); all_goals (try subst_vars); all_goals (try simp_all [Chan.push, Chan.pop, Chan.handOff, Chan.bump, Chan.front, Point.plain, Point.chan, Point.secondPhase2, Out.isArm, Out.commits, Ret.isRecvOn, hasRecv, noSendRecv, waitCondU])
  case recv2Wait c b sq => (try unfold recv2Loop at h); (try unfold recv2Loop); (try simp only [Chan.handOff] at h ⊢); (repeat' (first | split at h | split)); all_goals (try simp_all [Point.plain]); all_goals (try subst_vars); all_goals (try simp_all [Chan.push, Chan.pop, Chan.handOff, Chan.bump, Chan.front, Point.plain, Point.chan, Point.secondPhase2, Out.isArm, Out.commits, Ret.isRecvOn, hasRecv, noSendRecv, waitCondU])
  case closeLock c => (try unfold closeBody at h); (try unfold closeBody); (try simp only [Chan.handOff] at h ⊢); (repeat' (first | split at h | split)); all_goals (try simp_all [Point.plain]); all_goals (try subst_vars); all_goals (try simp_all [Chan.push, Chan.pop, Chan.handOff, Chan.bump, Chan.front, Point.plain, Point.chan, Point.secondPhase2, Out.isArm, Out.commits, Ret.isRecvOn, hasRecv, noSendRecv, waitCondU])
  case trySendLock c v => simp [Point.plain] at hp
  case tryRecvLock c sl a => simp [Point.plain] at hp
  case prepLock c b => simp [Point.plain] at hp
  case endLock c b => simp [Point.plain] at hp

theorem body_closed_mono (p : Point) (t : Tid) (ch : Chan) (hp : p.plain = true)
    (h : (body p t ch).ch.closed = false) : ch.closed = false := by
  cases p <;> simp only [body] at h ⊢
  case sendLock c v => (try unfold sendLoop at h); (try unfold sendLoop); (try simp only [Chan.handOff] at h ⊢); (repeat' (first | split at h | split)); all_goals (try simp_all [Point.plain]); all_goals (try subst_vars); all_goals (try simp_all [Chan.push, Chan.pop, Chan.handOff, Chan.bump, Chan.front, Point.plain, Point.chan, Point.secondPhase2, Out.isArm, Out.commits, Ret.isRecvOn, hasRecv, noSendRecv])
  case sendWaitU c v => (try unfold sendLoop at h); (try unfold sendLoop); (try simp only [Chan.handOff] at h ⊢); (repeat' (first | split at h | split)); all_goals (try simp_all [Point.plain]); all_goals (try subst_vars); all_goals (try simp_all [Chan.push, Chan.pop, Chan.handOff, Chan.bump, Chan.front, Point.plain, Point.chan, Point.secondPhase2, Out.isArm, Out.commits, Ret.isRecvOn, hasRecv, noSendRecv])
  case sendWaitB c v => (try unfold sendLoop at h); (try unfold sendLoop); (try simp only [Chan.handOff] at h ⊢); (repeat' (first | split at h | split)); all_goals (try simp_all [Point.plain]); all_goals (try subst_vars); all_goals (try simp_all [Chan.push, Chan.pop, Chan.handOff, Chan.bump, Chan.front, Point.plain, Point.chan, Point.secondPhase2, Out.isArm, Out.commits, Ret.isRecvOn, hasRecv, noSendRecv])
  case recvLock c sl => (try unfold recvLoop at h); (try unfold recvLoop); (try simp only [Chan.handOff] at h ⊢); (repeat' (first | split at h | split)); all_goals (try simp_all [Point.plain]); all_goals (try subst_vars); all_goals (try simp_all [Chan.push, Chan.pop, Chan.handOff, Chan.bump, Chan.front, Point.plain, Point.chan, Point.secondPhase2, Out.isArm, Out.commits, Ret.isRecvOn, hasRecv, noSendRecv])
  case recvWaitU c sl => (try unfold recvLoop at h); (try unfold recvLoop); (try simp only [Chan.handOff] at h ⊢); (repeat' (first | split at h | split)); all_goals (try simp_all [Point.plain]); all_goals (try subst_vars); all_goals (try simp_all [Chan.push, Chan.pop, Chan.handOff, Chan.bump, Chan.front, Point.plain, Point.chan, Point.secondPhase2, Out.isArm, Out.commits, Ret.isRecvOn, hasRecv, noSendRecv])
  case recvWaitB c sl => (try unfold recvLoop at h); (try unfold recvLoop); (try simp only [Chan.handOff] at h ⊢); (repeat' (first | split at h | split)); all_goals (try simp_all [Point.plain]); all_goals (try subst_vars); all_goals (try simp_all [Chan.push, Chan.pop, Chan.handOff, Chan.bump, Chan.front, Point.plain, Point.chan, Point.secondPhase2, Out.isArm, Out.commits, Ret.isRecvOn, hasRecv, noSendRecv])
  case recv2Lock c b sq => (try unfold recv2Loop at h); (try unfold recv2Loop); (try simp only [Chan.handOff] at h ⊢); (repeat' (first | split at h | split)); all_goals (try simp_all [Point.plain]); all_goals (try subst_vars); all_goals (try simp_all [Chan.push, Chan.pop, Chan.handOff, Chan.bump, Chan.front, Point.plain, Point.chan, Point.secondPhase2, Out.isArm, Out.commits, Ret.isRecvOn, hasRecv, noSendRecv])
  case recv2Wait c b sq => (try unfold recv2Loop at h); (try unfold recv2Loop); (try simp only [Chan.handOff] at h ⊢); (repeat' (first | split at h | split)); all_goals (try simp_all [Point.plain]); all_goals (try subst_vars); all_goals (try simp_all [Chan.push, Chan.pop, Chan.handOff, Chan.bump, Chan.front, Point.plain, Point.chan, Point.secondPhase2, Out.isArm, Out.commits, Ret.isRecvOn, hasRecv, noSendRecv])
  case closeLock c => (try unfold closeBody at h); (try unfold closeBody); (try simp only [Chan.handOff] at h ⊢); (repeat' (first | split at h | split)); all_goals (try simp_all [Point.plain]); all_goals (try subst_vars); all_goals (try simp_all [Chan.push, Chan.pop, Chan.handOff, Chan.bump, Chan.front, Point.plain, Point.chan, Point.secondPhase2, Out.isArm, Out.commits, Ret.isRecvOn, hasRecv, noSendRecv])
  case trySendLock c v => simp [Point.plain] at hp
  case tryRecvLock c sl a => simp [Point.plain] at hp
  case prepLock c b => simp [Point.plain] at hp
  case endLock c b => simp [Point.plain] at hp

theorem body_getp_keeps_seq (p : Point) (t : Tid) (ch : Chan) (hp : p.plain = true) (hcap : ch.cap = 0)
    (hg : ch.getp = hasRecv) (h : (body p t ch).ch.getp = hasRecv) : (body p t ch).ch.recvseq = ch.recvseq := by
  cases p <;> simp only [body] at h ⊢
  case sendLock c v => (try unfold sendLoop at h); (try unfold sendLoop); (try simp only [Chan.handOff] at h ⊢); (repeat' (first | split at h | split)); all_goals (try simp_all [Point.plain]); all_goals (try subst_vars); all_goals (try simp_all [Chan.push, Chan.pop, Chan.handOff, Chan.bump, Chan.front, Point.plain, Point.chan, Point.secondPhase2, Out.isArm, Out.commits, Ret.isRecvOn, hasRecv, noSendRecv])
  case sendWaitU c v => (try unfold sendLoop at h); (try unfold sendLoop); (try simp only [Chan.handOff] at h ⊢); (repeat' (first | split at h | split)); all_goals (try simp_all [Point.plain]); all_goals (try subst_vars); all_goals (try simp_all [Chan.push, Chan.pop, Chan.handOff, Chan.bump, Chan.front, Point.plain, Point.chan, Point.secondPhase2, Out.isArm, Out.commits, Ret.isRecvOn, hasRecv, noSendRecv])
  case sendWaitB c v => (try unfold sendLoop at h); (try unfold sendLoop); (try simp only [Chan.handOff] at h ⊢); (repeat' (first | split at h | split)); all_goals (try simp_all [Point.plain]); all_goals (try subst_vars); all_goals (try simp_all [Chan.push, Chan.pop, Chan.handOff, Chan.bump, Chan.front, Point.plain, Point.chan, Point.secondPhase2, Out.isArm, Out.commits, Ret.isRecvOn, hasRecv, noSendRecv])
  case recvLock c sl => (try unfold recvLoop at h); (try unfold recvLoop); (try simp only [Chan.handOff] at h ⊢); (repeat' (first | split at h | split)); all_goals (try simp_all [Point.plain]); all_goals (try subst_vars); all_goals (try simp_all [Chan.push, Chan.pop, Chan.handOff, Chan.bump, Chan.front, Point.plain, Point.chan, Point.secondPhase2, Out.isArm, Out.commits, Ret.isRecvOn, hasRecv, noSendRecv])
  case recvWaitU c sl => (try unfold recvLoop at h); (try unfold recvLoop); (try simp only [Chan.handOff] at h ⊢); (repeat' (first | split at h | split)); all_goals (try simp_all [Point.plain]); all_goals (try subst_vars); all_goals (try simp_all [Chan.push, Chan.pop, Chan.handOff, Chan.bump, Chan.front, Point.plain, Point.chan, Point.secondPhase2, Out.isArm, Out.commits, Ret.isRecvOn, hasRecv, noSendRecv])
  case recvWaitB c sl => (try unfold recvLoop at h); (try unfold recvLoop); (try simp only [Chan.handOff] at h ⊢); (repeat' (first | split at h | split)); all_goals (try simp_all [Point.plain]); all_goals (try subst_vars); all_goals (try simp_all [Chan.push, Chan.pop, Chan.handOff, Chan.bump, Chan.front, Point.plain, Point.chan, Point.secondPhase2, Out.isArm, Out.commits, Ret.isRecvOn, hasRecv, noSendRecv])
  case recv2Lock c b sq => (try unfold recv2Loop at h); (try unfold recv2Loop); (try simp only [Chan.handOff] at h ⊢); (repeat' (first | split at h | split)); all_goals (try simp_all [Point.plain]); all_goals (try subst_vars); all_goals (try simp_all [Chan.push, Chan.pop, Chan.handOff, Chan.bump, Chan.front, Point.plain, Point.chan, Point.secondPhase2, Out.isArm, Out.commits, Ret.isRecvOn, hasRecv, noSendRecv])
  case recv2Wait c b sq => (try unfold recv2Loop at h); (try unfold recv2Loop); (try simp only [Chan.handOff] at h ⊢); (repeat' (first | split at h | split)); all_goals (try simp_all [Point.plain]); all_goals (try subst_vars); all_goals (try simp_all [Chan.push, Chan.pop, Chan.handOff, Chan.bump, Chan.front, Point.plain, Point.chan, Point.secondPhase2, Out.isArm, Out.commits, Ret.isRecvOn, hasRecv, noSendRecv])
  case closeLock c => (try unfold closeBody at h); (try unfold closeBody); (try simp only [Chan.handOff] at h ⊢); (repeat' (first | split at h | split)); all_goals (try simp_all [Point.plain]); all_goals (try subst_vars); all_goals (try simp_all [Chan.push, Chan.pop, Chan.handOff, Chan.bump, Chan.front, Point.plain, Point.chan, Point.secondPhase2, Out.isArm, Out.commits, Ret.isRecvOn, hasRecv, noSendRecv])
  case trySendLock c v => simp [Point.plain] at hp
  case tryRecvLock c sl a => simp [Point.plain] at hp
  case prepLock c b => simp [Point.plain] at hp
  case endLock c b => simp [Point.plain] at hp

/-- a critical section that does not end in `Unlock; Broadcast` leaves `getp` alone -/
theorem body_quiet_getp (p : Point) (t : Tid) (ch : Chan)
    (h : ∀ n, (body p t ch).out ≠ .notify (.finish true n)) : (body p t ch).ch.getp = ch.getp := by
  by_cases hg : (body p t ch).ch.getp = ch.getp
  · exact hg
  · obtain ⟨n, hn⟩ := body_change_broadcasts p t ch (Or.inr (Or.inr (Or.inl hg)))
    exact absurd hn (h n)

/-- fixed variant: an armed, unserved receiver that looks again goes (back) to sleep -/
theorem recv2Loop_armed (ch : Chan) (c : Cid) (b : Bool) (seq : Nat) (hf : ch.fixed = true) (hs : ch.recvseq = seq)
    (hc : ch.closed = false) : (recv2Loop ch c b seq).out = .wait (.recv2Wait c b seq) := by
  simp [recv2Loop, hf, hs, hc]

/-! ### sleepers of the unbuffered loops -/

/-- a thread asleep in `ChanSend`'s unbuffered loop / `ChanRecv`'s first unbuffered loop still has its reason to sleep
    (select-free programs: every change is broadcast in the same step) -/
def SleepU (s : State) : Prop :=
  ∀ t p, (s.thread t).pc = .at p → (s.thread t).waiting = true → waitCondU p (s.chan p.chan)

theorem waitCondU_trivial (p : Point) (ch : Chan) (h1 : p.isSendU = false) (h2 : ∀ c sl, p ≠ .recvWaitU c sl) :
    waitCondU p ch := by
  cases p <;> simp_all [waitCondU, Point.isSendU]

theorem waitCondU_congr (p : Point) (ch ch' : Chan) (h1 : ch'.cap = ch.cap) (h2 : ch'.getp = ch.getp)
    (h3 : ch'.closed = ch.closed) (h : waitCondU p ch) : waitCondU p ch' := by
  cases p <;> simp_all [waitCondU]

theorem waitCondU_isWait (p : Point) (ch : Chan) (h : ¬ waitCondU p ch) : p.isWait = true := by
  cases p <;> simp_all [waitCondU, Point.isWait]

theorem exec_sleepU {s : State} {t : Tid} (h : SleepU s) (hpi : PlainInv s) (hr : runnable s t = true) :
    SleepU (exec s t) := by
  have ht := runnable_lt hr
  have hpi' := exec_plainInv hpi hr
  rcases plain_pc_cases hpi hr with hpc | ⟨p0, hpc, hpl⟩
  · rw [exec_start s t hpc]
    intro t' p hp hw
    by_cases htt : t' = t
    · rw [htt, thread_setThread_self _ _ _ ht] at hp
      obtain ⟨_, h2, _⟩ := startOps_plain (s.thread t) (s.thread t).ops (hpi.th t).ops
      have := entry_notWaitPt h2
      rw [hp] at this
      by_cases hc : waitCondU p (s.chan p.chan)
      · exact hc
      · have := waitCondU_isWait p _ hc
        simp_all [PC.isWaitPt]
    · rw [thread_setThread_ne _ _ _ _ (Ne.symm htt)] at hp hw
      exact h t' p hp hw
  · have hso : (body p0 t (s.chan p0.chan)).ch.sops = [] := by rw [body_sops p0 t _ hpl]; exact hpi.sops _
    obtain ⟨hoth, hself, _⟩ := plain_exec s t p0 ht hpc (hpi.th t).sel (hpi.th t).ops hso
    obtain ⟨e, _⟩ := exec_at s t p0 ht hpc
    obtain ⟨hch, _, hbc, _⟩ := exec_at_detail s t p0 ht hpc
    intro t' p hp hw
    by_cases hcond : waitCondU p ((exec s t).chan p.chan)
    · exact hcond
    exfalso
    have hpw := waitCondU_isWait p _ hcond
    by_cases htt : t' = t
    · rw [htt] at hp hw
      -- the acting thread fell asleep at `p`
      have hq : ∀ n, (body p0 t (s.chan p0.chan)).out ≠ .notify (.finish true n) → True := fun _ _ => trivial
      cases hout : (body p0 t (s.chan p0.chan)).out with
      | wait q =>
        rw [hout] at hself
        have hqp : q = p := by have := hself.1; rw [hp] at this; cases this; rfl
        subst hqp
        have hcu := body_waitU p0 q t _ hpl (Or.inl hout)
        have hqc := (body_wait p0 q t _ hout).1
        have hquiet : ∀ n, (body p0 t (s.chan p0.chan)).out ≠ .notify (.finish true n) := by
          intro n hn; rw [hout] at hn; cases hn
        apply hcond
        rcases chan_after_set s _ p0.chan _ hch q.chan with e1 | ⟨_, e1⟩
        · rw [e1, hqc]; exact hcu
        · rw [e1]
          exact waitCondU_congr q _ _ (body_cap p0 t _) (body_quiet_getp p0 t _ hquiet) (body_quiet p0 t _ hquiet).closed hcu
      | notify k =>
        rw [hout] at hself
        cases k with
        | wait q =>
          have hqp : q = p := by have := hself.1; rw [hp] at this; cases this; rfl
          subst hqp
          have hcu := body_waitU p0 q t _ hpl (Or.inr hout)
          have hqc := (body_notify_wait p0 q t _ hout).1
          have hquiet : ∀ n, (body p0 t (s.chan p0.chan)).out ≠ .notify (.finish true n) := by
            intro n hn; rw [hout] at hn; cases hn
          apply hcond
          rcases chan_after_set s _ p0.chan _ hch q.chan with e1 | ⟨_, e1⟩
          · rw [e1, hqc]; exact hcu
          · rw [e1]
            exact waitCondU_congr q _ _ (body_cap p0 t _) (body_quiet_getp p0 t _ hquiet) (body_quiet p0 t _ hquiet).closed hcu
        | finish bc n =>
          cases n with
          | ret r =>
            have := entry_notWaitPt hself.2.1
            rw [hp] at this; simp_all [PC.isWaitPt]
          | recv2 b seq =>
            have := hself.1
            rw [hp] at this; cases this; cases hpw
      | unlock r =>
        rw [hout] at hself
        have := entry_notWaitPt hself.2.1
        rw [hp] at this; simp_all [PC.isWaitPt]
      | panic =>
        rw [hout] at hself
        have := hself.1
        rw [hp] at this; cases this
    · have hps : (s.thread t').pc = .at p := by rw [← (hoth t' htt).pc]; exact hp
      have hws := e.wts t' htt hw
      have hc0 := h t' p hps hws
      by_cases hc : p.chan = p0.chan
      · by_cases hq : ∃ n, (body p0 t (s.chan p0.chan)).out = .notify (.finish true n)
        · obtain ⟨n, hn⟩ := hq
          rcases hbc n hn with ⟨l, hl⟩ | hwk
          · have := (hpi'.th t).pc
            rw [hl] at this; cases this
          · have := hwk t' p htt hps hpw hc
            rw [this] at hw; cases hw
        · have hquiet : ∀ n, (body p0 t (s.chan p0.chan)).out ≠ .notify (.finish true n) := fun n hn => hq ⟨n, hn⟩
          apply hcond
          rcases chan_after_set s _ p0.chan _ hch p.chan with e1 | ⟨_, e1⟩
          · rw [e1]; exact hc0
          · rw [e1]; rw [hc] at hc0
            exact waitCondU_congr p _ _ (body_cap p0 t _) (body_quiet_getp p0 t _ hquiet) (body_quiet p0 t _ hquiet).closed hc0
      · apply hcond
        rcases chan_after_set s _ p0.chan _ hch p.chan with e1 | ⟨e0, _⟩
        · rw [e1]; exact hc0
        · exact absurd e0 hc

theorem wake_sleepU {s : State} (h : SleepU s) (t : Tid) :
    SleepU (s.setThread t { s.thread t with waiting := false }) := by
  intro t' p hp hw
  have hpcs := pc_setThread_same s t t' { s.thread t with waiting := false } rfl
  rw [hpcs] at hp
  rcases thread_setThread_cases s t t' { s.thread t with waiting := false } with e | e
  · rw [e] at hw; cases hw
  · rw [e] at hw; exact h t' p hp hw

theorem init_sleepU (cfg : Cfg) (caps : List Nat) (progs : List (List Op)) : SleepU (init cfg caps progs) := by
  intro t p hp
  have hpc : ((init cfg caps progs).thread t).pc = .start ∨ ((init cfg caps progs).thread t).pc = .done := by
    simp only [State.thread, init, List.getD, List.getElem?_map]
    cases progs[t]? <;> simp [dfltThread]
  rcases hpc with e | e <;> rw [e] at hp <;> cases hp

/-! ### the arming invariants of the unbuffered hand-off (fixed variant) -/

/-- thread pc is in the second phase of a receive on `c`, armed at `seq` -/
def atRecv2 (pc : PC) (c : Cid) (b : Bool) (seq : Nat) : Prop :=
  pc = .at (.recv2Lock c b seq) ∨ pc = .at (.recv2Wait c b seq)

structure ArmInv (s : State) : Prop where
  /-- a second-phase receiver armed at `seq`: the channel is unbuffered, at most `recvseq - seq` hand-offs happened
      since, and if none happened the channel is still armed for exactly this receiver's variable -/
  arm : ∀ t c b seq, c < s.chans.length → atRecv2 (s.thread t).pc c b seq →
    (s.chan c).cap = 0 ∧ seq ≤ (s.chan c).recvseq ∧
    (seq = (s.chan c).recvseq → (s.chan c).getp = hasRecv ∧ (s.chan c).slot = some ⟨t, 0⟩)
  /-- an armed open channel has its receiver: a thread in the second phase, armed at the current `recvseq` -/
  armed : ∀ c, c < s.chans.length → (s.chan c).cap = 0 → (s.chan c).getp = hasRecv → (s.chan c).closed = false →
    ∃ t b, (s.chan c).slot = some ⟨t, 0⟩ ∧ atRecv2 (s.thread t).pc c b (s.chan c).recvseq

theorem entry_not_atRecv2 {pc : PC} (h : pc.entry = true) (c : Cid) (b : Bool) (seq : Nat) : ¬ atRecv2 pc c b seq := by
  rintro (e | e) <;> (rw [e] at h; simp [PC.entry] at h)

theorem exec_armInv {s : State} {t : Tid} (h : ArmInv s) (hpi : PlainInv s) (hfx : FixInv true s)
    (hr : runnable s t = true) : ArmInv (exec s t) := by
  have ht := runnable_lt hr
  rcases plain_pc_cases hpi hr with hpc | ⟨p0, hpc, hpl⟩
  · -- the first step of a thread touches no channel and ends at an entry pc
    rw [exec_start s t hpc]
    obtain ⟨_, h2, _⟩ := startOps_plain (s.thread t) (s.thread t).ops (hpi.th t).ops
    have hpcs : ∀ t', t' ≠ t → ((s.setThread t (startOps (s.thread t) (s.thread t).ops)).thread t').pc = (s.thread t').pc :=
      fun t' hne => by rw [thread_setThread_ne _ _ _ _ (Ne.symm hne)]
    constructor
    · intro t' c b seq hc hat
      by_cases htt : t' = t
      · rw [htt, thread_setThread_self _ _ _ ht] at hat
        exact absurd hat (entry_not_atRecv2 h2 c b seq)
      · rw [hpcs t' htt] at hat; exact h.arm t' c b seq hc hat
    · intro c hc h1 h2' h3
      obtain ⟨t', b, hs, hat⟩ := h.armed c hc h1 h2' h3
      refine ⟨t', b, hs, ?_⟩
      have htt : t' ≠ t := by
        intro e; rw [e] at hat; rcases hat with e' | e' <;> (rw [hpc] at e'; cases e')
      rw [hpcs t' htt]; exact hat
  · have hso : (body p0 t (s.chan p0.chan)).ch.sops = [] := by rw [body_sops p0 t _ hpl]; exact hpi.sops _
    obtain ⟨hoth, hself, _⟩ := plain_exec s t p0 ht hpc (hpi.th t).sel (hpi.th t).ops hso
    obtain ⟨hch, _, _, _⟩ := exec_at_detail s t p0 ht hpc
    have hlen : (exec s t).chans.length = s.chans.length := by rw [hch]; simp
    -- the acting thread's pc when it is in the second phase afterwards
    have hselfpc : ∀ c b seq, atRecv2 ((exec s t).thread t).pc c b seq →
        ((body p0 t (s.chan p0.chan)).out = .wait (.recv2Wait c b seq)) ∨
        (∃ bc, (body p0 t (s.chan p0.chan)).out = .notify (.finish bc (.recv2 b seq)) ∧ c = p0.chan ∧
          ((exec s t).thread t).pc = .at (.recv2Lock c b seq)) := by
      intro c b seq hat
      cases hout : (body p0 t (s.chan p0.chan)).out with
      | wait q =>
        rw [hout] at hself
        left
        rcases hat with e | e
        · have := hself.1; rw [e] at this; cases this
          have := body_wait_isWait p0 _ t _ hpl hout
          cases this
        · have := hself.1; rw [e] at this; cases this; rfl
      | notify k =>
        rw [hout] at hself
        cases k with
        | wait q =>
          exfalso
          have hq := body_nwait_sendU p0 q t _ hpl hout
          rcases hat with e | e <;> (have := hself.1; rw [e] at this; cases this; cases hq)
        | finish bc n =>
          cases n with
          | ret r => exact absurd hat (entry_not_atRecv2 hself.2.1 c b seq)
          | recv2 b' seq' =>
            right
            rcases hat with e | e
            · have := hself.1; rw [e] at this; cases this
              exact ⟨bc, rfl, rfl, e⟩
            · have := hself.1; rw [e] at this; cases this
      | unlock r =>
        rw [hout] at hself
        exact absurd hat (entry_not_atRecv2 hself.2.1 c b seq)
      | panic =>
        rw [hout] at hself
        rcases hat with e | e <;> (have := hself.1; rw [e] at this; cases this)
    constructor
    · intro t' c b seq hc hat
      rw [hlen] at hc
      by_cases htt : t' = t
      · rw [htt] at hat ⊢
        rcases hselfpc c b seq hat with hw | ⟨bc, ho, hcc, _⟩
        · obtain ⟨hsame, _, hp0⟩ := body_recv2_wait p0 t _ c b seq hpl hw
          have hat0 : atRecv2 (s.thread t).pc c b seq := by
            rw [hpc]; rcases hp0 with e | e <;> rw [e]
            · left; rfl
            · right; rfl
          have hcc : c = p0.chan := by rcases hp0 with e | e <;> rw [e] <;> rfl
          have ih := h.arm t c b seq hc hat0
          rcases chan_after_set s _ p0.chan _ hch c with e1 | ⟨_, e1⟩
          · rw [e1]; exact ih
          · rw [e1, hsame, ← hcc]; exact ih
        · obtain ⟨_, hseq, hcap, _, _, hg', hs', hrs', hcap', _⟩ := body_arm p0 t _ bc b seq hpl ho
          have hc0 : p0.chan < s.chans.length := hcc ▸ hc
          have e1 : (exec s t).chan c = (body p0 t (s.chan p0.chan)).ch := by
            rw [hcc]; unfold State.chan; rw [hch]; exact getD_set_self _ _ _ _ hc0
          rw [e1]
          exact ⟨hcap', by rw [hrs', hseq]; exact Nat.le_refl _, fun _ => ⟨hg', hs'⟩⟩
      · have hat0 : atRecv2 (s.thread t').pc c b seq := by rw [← (hoth t' htt).pc]; exact hat
        have ih := h.arm t' c b seq hc hat0
        rcases chan_after_set s _ p0.chan _ hch c with e1 | ⟨hcc, e1⟩
        · rw [e1]; exact ih
        · rw [e1]
          have hmono := recvseq_mono p0 t (s.chan p0.chan)
          rw [hcc] at ih
          refine ⟨by rw [body_cap]; exact ih.1, Nat.le_trans ih.2.1 hmono, fun hs => ?_⟩
          have hsq : (body p0 t (s.chan p0.chan)).ch.recvseq = (s.chan p0.chan).recvseq := by
            have := ih.2.1; omega
          obtain ⟨hg, hsl⟩ := ih.2.2 (by rw [hs, hsq])
          have hfix : (s.chan p0.chan).fixed = true := hfx p0.chan (hcc ▸ hc)
          obtain ⟨k1, k2⟩ := body_keeps_arm p0 t _ hpl hfix ih.1 hg hsq
          exact ⟨k1, by rw [k2]; exact hsl⟩
    · intro c hc h1 h2 h3
      rw [hlen] at hc
      by_cases hcc : c = p0.chan
      · have hc0 : p0.chan < s.chans.length := hcc ▸ hc
        have e1 : (exec s t).chan c = (body p0 t (s.chan p0.chan)).ch := by
          rw [hcc]; unfold State.chan; rw [hch]; exact getD_set_self _ _ _ _ hc0
        rw [e1] at h1 h2 h3 ⊢
        have hcap : (s.chan p0.chan).cap = 0 := by rw [← body_cap p0 t]; exact h1
        have hfix : (s.chan p0.chan).fixed = true := hfx p0.chan hc0
        by_cases hg : (s.chan p0.chan).getp = hasRecv
        · have hcl := body_closed_mono p0 t _ hpl h3
          obtain ⟨t', b, hsl, hat⟩ := h.armed p0.chan hc0 hcap hg hcl
          have hsq := body_getp_keeps_seq p0 t _ hpl hcap hg h2
          obtain ⟨_, k2⟩ := body_keeps_arm p0 t _ hpl hfix hcap hg hsq
          refine ⟨t', b, by rw [k2]; exact hsl, ?_⟩
          rw [hsq, hcc]
          by_cases htt : t' = t
          · -- the armed receiver itself looked again: it goes back to sleep
            rw [htt] at hat ⊢
            rw [hpc] at hat
            have hw : (body p0 t (s.chan p0.chan)).out = .wait (.recv2Wait p0.chan b (s.chan p0.chan).recvseq) := by
              rcases hat with e | e
              all_goals
                have e' := PC.at.inj e
                cases p0 <;> simp [Point.chan] at e'
                all_goals
                  obtain ⟨rfl, e2⟩ := e'
                  subst e2
                  exact recv2Loop_armed _ _ _ _ hfix rfl hcl
            have := hself
            rw [hw] at this
            right; exact this.1
          · rw [(hoth t' htt).pc]; exact hat
        · have harm := body_getp_hasRecv p0 t _ hpl hcap h2 hg
          cases hout : (body p0 t (s.chan p0.chan)).out with
          | notify k =>
            cases k with
            | finish bc n =>
              cases n with
              | recv2 b seq =>
                obtain ⟨_, hseq, _, _, _, _, hs', hrs', _⟩ := body_arm p0 t _ bc b seq hpl hout
                rw [hout] at hself
                refine ⟨t, b, hs', ?_⟩
                left
                rw [hself.1, hrs', hseq, hcc]
              | ret r => rw [hout] at harm; cases harm
            | wait q => rw [hout] at harm; cases harm
          | wait q => rw [hout] at harm; cases harm
          | unlock r => rw [hout] at harm; cases harm
          | panic => rw [hout] at harm; cases harm
      · have e1 : (exec s t).chan c = s.chan c := by
          rcases chan_after_set s _ p0.chan _ hch c with e1 | ⟨e0, _⟩
          · exact e1
          · exact absurd e0 hcc
        rw [e1] at h1 h2 h3 ⊢
        obtain ⟨t', b, hsl, hat⟩ := h.armed c hc h1 h2 h3
        refine ⟨t', b, hsl, ?_⟩
        have htt : t' ≠ t := by
          intro e; rw [e, hpc] at hat
          rcases hat with e' | e' <;> (cases e'; exact hcc rfl)
        rw [(hoth t' htt).pc]; exact hat

theorem wake_armInv {s : State} (h : ArmInv s) (t : Tid) :
    ArmInv (s.setThread t { s.thread t with waiting := false }) := by
  have hpcs : ∀ t', ((s.setThread t { s.thread t with waiting := false }).thread t').pc = (s.thread t').pc :=
    fun t' => pc_setThread_same s t t' _ rfl
  constructor
  · intro t' c b seq hc hat
    unfold atRecv2 at hat; rw [hpcs] at hat
    exact h.arm t' c b seq hc hat
  · intro c hc h1 h2 h3
    obtain ⟨t', b, hs, hat⟩ := h.armed c hc h1 h2 h3
    exact ⟨t', b, hs, by unfold atRecv2; rw [hpcs]; exact hat⟩

theorem init_armInv (cfg : Cfg) (caps : List Nat) (progs : List (List Op)) : ArmInv (init cfg caps progs) := by
  have hpc : ∀ t, ((init cfg caps progs).thread t).pc = .start ∨ ((init cfg caps progs).thread t).pc = .done := by
    intro t
    simp only [State.thread, init, List.getD, List.getElem?_map]
    cases progs[t]? <;> simp [dfltThread]
  constructor
  · intro t c b seq _ hat
    rcases hat with e | e <;> (rcases hpc t with e' | e' <;> (rw [e'] at e; cases e))
  · intro c _ _ h2 _
    exfalso
    simp only [State.chan, init, List.getD, List.getElem?_map] at h2
    rcases hcc : caps[c]? with _ | x <;> simp [hcc, newChan, hasRecv, dfltChan] at h2

/-! ### history and results -/

/-- values of thread `th`'s completed sends on `c`, in order -/
def sentVals (th : Thread) (c : Cid) : List Val :=
  th.res.filterMap fun
    | .sent c' v => if c' = c then some v else none
    | _ => none

/-- values of thread `th`'s completed receives on `c` that returned `ok = true`, in order -/
def okVals (th : Thread) (c : Cid) : List Val :=
  th.res.filterMap fun
    | .recv c' v true => if c' = c then some v else none
    | _ => none

/-- values the channel history attributes to sender `t` / to receiver `t`, in order -/
def sentFrom (ch : Chan) (t : Tid) : List Val := (ch.sentBy.filter (·.1 == t)).map (·.2)
def handedTo (ch : Chan) (t : Tid) : List Val := (ch.recvBy.filter (·.1 == t)).map (·.2)

/-- the value sitting in the variable of a second-phase receiver that has been served (`seq < recvseq`) but has
    not returned yet -/
def inflightOf (pc : PC) (rv : List Val) (c : Cid) (rs : Nat) : List Val :=
  match pc with
  | .at (.recv2Lock c' _ seq) => if c' = c ∧ seq < rs then [rv.getD 0 0] else []
  | .at (.recv2Wait c' _ seq) => if c' = c ∧ seq < rs then [rv.getD 0 0] else []
  | _ => []

def Out.isWaitOrUnlock : Out → Bool
  | .wait _ | .unlock _ => true
  | _ => false

def Ret.isPlainRet (c : Cid) : Ret → Bool
  | .sent c' _ => c' == c
  | .closed => true
  | .recv c' ok => c' == c && ok
  | _ => false

theorem inflightOf_entry {pc : PC} (h : pc.entry = true) (rv : List Val) (c : Cid) (rs : Nat) : inflightOf pc rv c rs = [] := by
  cases pc with
  | «at» p => cases p <;> simp_all [PC.entry, inflightOf]
  | _ => simp [inflightOf]

theorem inflightOf_other_chan (p : Point) (rv : List Val) (c : Cid) (rs : Nat) (h : p.chan ≠ c) :
    inflightOf (.at p) rv c rs = [] := by
  cases p <;> simp_all [inflightOf, Point.chan]

theorem inflightOf_not2 (p : Point) (rv : List Val) (c : Cid) (rs : Nat) (h : p.secondPhase2 = none) :
    inflightOf (.at p) rv c rs = [] := by
  cases p <;> simp_all [inflightOf, Point.secondPhase2]

theorem sentVals_snoc (th : Thread) (r : Res) (c : Cid) :
    sentVals { th with res := th.res ++ [r] } c =
      sentVals th c ++ (match r with | .sent c' v => if c' = c then [v] else [] | _ => []) := by
  unfold sentVals
  simp only [List.filterMap_append]
  congr 1
  cases r with
  | sent c' v => by_cases hc : c' = c <;> simp [hc]
  | _ => simp

theorem okVals_snoc (th : Thread) (r : Res) (c : Cid) :
    okVals { th with res := th.res ++ [r] } c =
      okVals th c ++ (match r with | .recv c' v true => if c' = c then [v] else [] | _ => []) := by
  unfold okVals
  simp only [List.filterMap_append]
  congr 1
  cases r with
  | recv c' v ok => cases ok <;> (by_cases hc : c' = c <;> simp [hc])
  | _ => simp

theorem body_hist_sentBy (p : Point) (t : Tid) (ch : Chan) (bc : Bool) (c' : Cid) (v' : Val) (hp : p.plain = true)
    (h : (body p t ch).out = .notify (.finish bc (.ret (.sent c' v')))) :
    c' = p.chan ∧ (body p t ch).ch.sentBy = ch.sentBy ++ [(t, v')] ∧ ch.closed = false ∧ (ch.cap = 0 → ch.getp = hasRecv) ∧
    p.secondPhase2 = none := by
  cases p <;> simp only [body] at h ⊢
  case sendLock c v => (try unfold sendLoop at h); (try unfold sendLoop); (try simp only [Chan.handOff] at h ⊢); (repeat' (first | split at h | split)); all_goals (try simp_all [Point.plain]); all_goals (try subst_vars); all_goals (try simp_all [Chan.push, Chan.pop, Chan.handOff, Chan.bump, Chan.front, Point.plain, Point.chan, Point.secondPhase2, Out.isArm, Out.commits, Ret.isRecvOn, hasRecv, noSendRecv, inflightOf, Out.isWaitOrUnlock, Ret.isPlainRet])
  case sendWaitU c v => (try unfold sendLoop at h); (try unfold sendLoop); (try simp only [Chan.handOff] at h ⊢); (repeat' (first | split at h | split)); all_goals (try simp_all [Point.plain]); all_goals (try subst_vars); all_goals (try simp_all [Chan.push, Chan.pop, Chan.handOff, Chan.bump, Chan.front, Point.plain, Point.chan, Point.secondPhase2, Out.isArm, Out.commits, Ret.isRecvOn, hasRecv, noSendRecv, inflightOf, Out.isWaitOrUnlock, Ret.isPlainRet])
  case sendWaitB c v => (try unfold sendLoop at h); (try unfold sendLoop); (try simp only [Chan.handOff] at h ⊢); (repeat' (first | split at h | split)); all_goals (try simp_all [Point.plain]); all_goals (try subst_vars); all_goals (try simp_all [Chan.push, Chan.pop, Chan.handOff, Chan.bump, Chan.front, Point.plain, Point.chan, Point.secondPhase2, Out.isArm, Out.commits, Ret.isRecvOn, hasRecv, noSendRecv, inflightOf, Out.isWaitOrUnlock, Ret.isPlainRet])
  case recvLock c sl => (try unfold recvLoop at h); (try unfold recvLoop); (try simp only [Chan.handOff] at h ⊢); (repeat' (first | split at h | split)); all_goals (try simp_all [Point.plain]); all_goals (try subst_vars); all_goals (try simp_all [Chan.push, Chan.pop, Chan.handOff, Chan.bump, Chan.front, Point.plain, Point.chan, Point.secondPhase2, Out.isArm, Out.commits, Ret.isRecvOn, hasRecv, noSendRecv, inflightOf, Out.isWaitOrUnlock, Ret.isPlainRet])
  case recvWaitU c sl => (try unfold recvLoop at h); (try unfold recvLoop); (try simp only [Chan.handOff] at h ⊢); (repeat' (first | split at h | split)); all_goals (try simp_all [Point.plain]); all_goals (try subst_vars); all_goals (try simp_all [Chan.push, Chan.pop, Chan.handOff, Chan.bump, Chan.front, Point.plain, Point.chan, Point.secondPhase2, Out.isArm, Out.commits, Ret.isRecvOn, hasRecv, noSendRecv, inflightOf, Out.isWaitOrUnlock, Ret.isPlainRet])
  case recvWaitB c sl => (try unfold recvLoop at h); (try unfold recvLoop); (try simp only [Chan.handOff] at h ⊢); (repeat' (first | split at h | split)); all_goals (try simp_all [Point.plain]); all_goals (try subst_vars); all_goals (try simp_all [Chan.push, Chan.pop, Chan.handOff, Chan.bump, Chan.front, Point.plain, Point.chan, Point.secondPhase2, Out.isArm, Out.commits, Ret.isRecvOn, hasRecv, noSendRecv, inflightOf, Out.isWaitOrUnlock, Ret.isPlainRet])
  case recv2Lock c b sq => (try unfold recv2Loop at h); (try unfold recv2Loop); (try simp only [Chan.handOff] at h ⊢); (repeat' (first | split at h | split)); all_goals (try simp_all [Point.plain]); all_goals (try subst_vars); all_goals (try simp_all [Chan.push, Chan.pop, Chan.handOff, Chan.bump, Chan.front, Point.plain, Point.chan, Point.secondPhase2, Out.isArm, Out.commits, Ret.isRecvOn, hasRecv, noSendRecv, inflightOf, Out.isWaitOrUnlock, Ret.isPlainRet])
  case recv2Wait c b sq => (try unfold recv2Loop at h); (try unfold recv2Loop); (try simp only [Chan.handOff] at h ⊢); (repeat' (first | split at h | split)); all_goals (try simp_all [Point.plain]); all_goals (try subst_vars); all_goals (try simp_all [Chan.push, Chan.pop, Chan.handOff, Chan.bump, Chan.front, Point.plain, Point.chan, Point.secondPhase2, Out.isArm, Out.commits, Ret.isRecvOn, hasRecv, noSendRecv, inflightOf, Out.isWaitOrUnlock, Ret.isPlainRet])
  case closeLock c => (try unfold closeBody at h); (try unfold closeBody); (try simp only [Chan.handOff] at h ⊢); (repeat' (first | split at h | split)); all_goals (try simp_all [Point.plain]); all_goals (try subst_vars); all_goals (try simp_all [Chan.push, Chan.pop, Chan.handOff, Chan.bump, Chan.front, Point.plain, Point.chan, Point.secondPhase2, Out.isArm, Out.commits, Ret.isRecvOn, hasRecv, noSendRecv, inflightOf, Out.isWaitOrUnlock, Ret.isPlainRet])
  case trySendLock c v => simp [Point.plain] at hp
  case tryRecvLock c sl a => simp [Point.plain] at hp
  case prepLock c b => simp [Point.plain] at hp
  case endLock c b => simp [Point.plain] at hp

theorem body_wait_inflight (p q : Point) (t : Tid) (ch : Chan) (rv : List Val) (c0 : Cid) (rs : Nat) (hp : p.plain = true)
    (h : (body p t ch).out = .wait q ∨ (body p t ch).out = .notify (.wait q)) :
    inflightOf (.at q) rv c0 rs = inflightOf (.at p) rv c0 rs := by
  cases p <;> simp only [body] at h ⊢
  case sendLock c v => (try unfold sendLoop at h); (try unfold sendLoop); (try simp only [Chan.handOff] at h ⊢); (repeat' (first | split at h | split)); all_goals (try simp_all [Point.plain]); all_goals (try subst_vars); all_goals (try simp_all [Chan.push, Chan.pop, Chan.handOff, Chan.bump, Chan.front, Point.plain, Point.chan, Point.secondPhase2, Out.isArm, Out.commits, Ret.isRecvOn, hasRecv, noSendRecv, inflightOf, Out.isWaitOrUnlock, Ret.isPlainRet])
  case sendWaitU c v => (try unfold sendLoop at h); (try unfold sendLoop); (try simp only [Chan.handOff] at h ⊢); (repeat' (first | split at h | split)); all_goals (try simp_all [Point.plain]); all_goals (try subst_vars); all_goals (try simp_all [Chan.push, Chan.pop, Chan.handOff, Chan.bump, Chan.front, Point.plain, Point.chan, Point.secondPhase2, Out.isArm, Out.commits, Ret.isRecvOn, hasRecv, noSendRecv, inflightOf, Out.isWaitOrUnlock, Ret.isPlainRet])
  case sendWaitB c v => (try unfold sendLoop at h); (try unfold sendLoop); (try simp only [Chan.handOff] at h ⊢); (repeat' (first | split at h | split)); all_goals (try simp_all [Point.plain]); all_goals (try subst_vars); all_goals (try simp_all [Chan.push, Chan.pop, Chan.handOff, Chan.bump, Chan.front, Point.plain, Point.chan, Point.secondPhase2, Out.isArm, Out.commits, Ret.isRecvOn, hasRecv, noSendRecv, inflightOf, Out.isWaitOrUnlock, Ret.isPlainRet])
  case recvLock c sl => (try unfold recvLoop at h); (try unfold recvLoop); (try simp only [Chan.handOff] at h ⊢); (repeat' (first | split at h | split)); all_goals (try simp_all [Point.plain]); all_goals (try subst_vars); all_goals (try simp_all [Chan.push, Chan.pop, Chan.handOff, Chan.bump, Chan.front, Point.plain, Point.chan, Point.secondPhase2, Out.isArm, Out.commits, Ret.isRecvOn, hasRecv, noSendRecv, inflightOf, Out.isWaitOrUnlock, Ret.isPlainRet])
  case recvWaitU c sl => (try unfold recvLoop at h); (try unfold recvLoop); (try simp only [Chan.handOff] at h ⊢); (repeat' (first | split at h | split)); all_goals (try simp_all [Point.plain]); all_goals (try subst_vars); all_goals (try simp_all [Chan.push, Chan.pop, Chan.handOff, Chan.bump, Chan.front, Point.plain, Point.chan, Point.secondPhase2, Out.isArm, Out.commits, Ret.isRecvOn, hasRecv, noSendRecv, inflightOf, Out.isWaitOrUnlock, Ret.isPlainRet])
  case recvWaitB c sl => (try unfold recvLoop at h); (try unfold recvLoop); (try simp only [Chan.handOff] at h ⊢); (repeat' (first | split at h | split)); all_goals (try simp_all [Point.plain]); all_goals (try subst_vars); all_goals (try simp_all [Chan.push, Chan.pop, Chan.handOff, Chan.bump, Chan.front, Point.plain, Point.chan, Point.secondPhase2, Out.isArm, Out.commits, Ret.isRecvOn, hasRecv, noSendRecv, inflightOf, Out.isWaitOrUnlock, Ret.isPlainRet])
  case recv2Lock c b sq => (try unfold recv2Loop at h); (try unfold recv2Loop); (try simp only [Chan.handOff] at h ⊢); (repeat' (first | split at h | split)); all_goals (try simp_all [Point.plain]); all_goals (try subst_vars); all_goals (try simp_all [Chan.push, Chan.pop, Chan.handOff, Chan.bump, Chan.front, Point.plain, Point.chan, Point.secondPhase2, Out.isArm, Out.commits, Ret.isRecvOn, hasRecv, noSendRecv, inflightOf, Out.isWaitOrUnlock, Ret.isPlainRet])
  case recv2Wait c b sq => (try unfold recv2Loop at h); (try unfold recv2Loop); (try simp only [Chan.handOff] at h ⊢); (repeat' (first | split at h | split)); all_goals (try simp_all [Point.plain]); all_goals (try subst_vars); all_goals (try simp_all [Chan.push, Chan.pop, Chan.handOff, Chan.bump, Chan.front, Point.plain, Point.chan, Point.secondPhase2, Out.isArm, Out.commits, Ret.isRecvOn, hasRecv, noSendRecv, inflightOf, Out.isWaitOrUnlock, Ret.isPlainRet])
  case closeLock c => (try unfold closeBody at h); (try unfold closeBody); (try simp only [Chan.handOff] at h ⊢); (repeat' (first | split at h | split)); all_goals (try simp_all [Point.plain]); all_goals (try subst_vars); all_goals (try simp_all [Chan.push, Chan.pop, Chan.handOff, Chan.bump, Chan.front, Point.plain, Point.chan, Point.secondPhase2, Out.isArm, Out.commits, Ret.isRecvOn, hasRecv, noSendRecv, inflightOf, Out.isWaitOrUnlock, Ret.isPlainRet])
  case trySendLock c v => simp [Point.plain] at hp
  case tryRecvLock c sl a => simp [Point.plain] at hp
  case prepLock c b => simp [Point.plain] at hp
  case endLock c b => simp [Point.plain] at hp

theorem body_notrecv2 (p : Point) (t : Tid) (ch : Chan) (hp : p.plain = true)
    (h : (body p t ch).out.isWaitOrUnlock = false) : p.secondPhase2 = none := by
  cases p <;> simp only [body] at h ⊢
  case sendLock c v => (try unfold sendLoop at h); (try unfold sendLoop); (try simp only [Chan.handOff] at h ⊢); (repeat' (first | split at h | split)); all_goals (try simp_all [Point.plain]); all_goals (try subst_vars); all_goals (try simp_all [Chan.push, Chan.pop, Chan.handOff, Chan.bump, Chan.front, Point.plain, Point.chan, Point.secondPhase2, Out.isArm, Out.commits, Ret.isRecvOn, hasRecv, noSendRecv, inflightOf, Out.isWaitOrUnlock, Ret.isPlainRet])
  case sendWaitU c v => (try unfold sendLoop at h); (try unfold sendLoop); (try simp only [Chan.handOff] at h ⊢); (repeat' (first | split at h | split)); all_goals (try simp_all [Point.plain]); all_goals (try subst_vars); all_goals (try simp_all [Chan.push, Chan.pop, Chan.handOff, Chan.bump, Chan.front, Point.plain, Point.chan, Point.secondPhase2, Out.isArm, Out.commits, Ret.isRecvOn, hasRecv, noSendRecv, inflightOf, Out.isWaitOrUnlock, Ret.isPlainRet])
  case sendWaitB c v => (try unfold sendLoop at h); (try unfold sendLoop); (try simp only [Chan.handOff] at h ⊢); (repeat' (first | split at h | split)); all_goals (try simp_all [Point.plain]); all_goals (try subst_vars); all_goals (try simp_all [Chan.push, Chan.pop, Chan.handOff, Chan.bump, Chan.front, Point.plain, Point.chan, Point.secondPhase2, Out.isArm, Out.commits, Ret.isRecvOn, hasRecv, noSendRecv, inflightOf, Out.isWaitOrUnlock, Ret.isPlainRet])
  case recvLock c sl => (try unfold recvLoop at h); (try unfold recvLoop); (try simp only [Chan.handOff] at h ⊢); (repeat' (first | split at h | split)); all_goals (try simp_all [Point.plain]); all_goals (try subst_vars); all_goals (try simp_all [Chan.push, Chan.pop, Chan.handOff, Chan.bump, Chan.front, Point.plain, Point.chan, Point.secondPhase2, Out.isArm, Out.commits, Ret.isRecvOn, hasRecv, noSendRecv, inflightOf, Out.isWaitOrUnlock, Ret.isPlainRet])
  case recvWaitU c sl => (try unfold recvLoop at h); (try unfold recvLoop); (try simp only [Chan.handOff] at h ⊢); (repeat' (first | split at h | split)); all_goals (try simp_all [Point.plain]); all_goals (try subst_vars); all_goals (try simp_all [Chan.push, Chan.pop, Chan.handOff, Chan.bump, Chan.front, Point.plain, Point.chan, Point.secondPhase2, Out.isArm, Out.commits, Ret.isRecvOn, hasRecv, noSendRecv, inflightOf, Out.isWaitOrUnlock, Ret.isPlainRet])
  case recvWaitB c sl => (try unfold recvLoop at h); (try unfold recvLoop); (try simp only [Chan.handOff] at h ⊢); (repeat' (first | split at h | split)); all_goals (try simp_all [Point.plain]); all_goals (try subst_vars); all_goals (try simp_all [Chan.push, Chan.pop, Chan.handOff, Chan.bump, Chan.front, Point.plain, Point.chan, Point.secondPhase2, Out.isArm, Out.commits, Ret.isRecvOn, hasRecv, noSendRecv, inflightOf, Out.isWaitOrUnlock, Ret.isPlainRet])
  case recv2Lock c b sq => (try unfold recv2Loop at h); (try unfold recv2Loop); (try simp only [Chan.handOff] at h ⊢); (repeat' (first | split at h | split)); all_goals (try simp_all [Point.plain]); all_goals (try subst_vars); all_goals (try simp_all [Chan.push, Chan.pop, Chan.handOff, Chan.bump, Chan.front, Point.plain, Point.chan, Point.secondPhase2, Out.isArm, Out.commits, Ret.isRecvOn, hasRecv, noSendRecv, inflightOf, Out.isWaitOrUnlock, Ret.isPlainRet])
  case recv2Wait c b sq => (try unfold recv2Loop at h); (try unfold recv2Loop); (try simp only [Chan.handOff] at h ⊢); (repeat' (first | split at h | split)); all_goals (try simp_all [Point.plain]); all_goals (try subst_vars); all_goals (try simp_all [Chan.push, Chan.pop, Chan.handOff, Chan.bump, Chan.front, Point.plain, Point.chan, Point.secondPhase2, Out.isArm, Out.commits, Ret.isRecvOn, hasRecv, noSendRecv, inflightOf, Out.isWaitOrUnlock, Ret.isPlainRet])
  case closeLock c => (try unfold closeBody at h); (try unfold closeBody); (try simp only [Chan.handOff] at h ⊢); (repeat' (first | split at h | split)); all_goals (try simp_all [Point.plain]); all_goals (try subst_vars); all_goals (try simp_all [Chan.push, Chan.pop, Chan.handOff, Chan.bump, Chan.front, Point.plain, Point.chan, Point.secondPhase2, Out.isArm, Out.commits, Ret.isRecvOn, hasRecv, noSendRecv, inflightOf, Out.isWaitOrUnlock, Ret.isPlainRet])
  case trySendLock c v => simp [Point.plain] at hp
  case tryRecvLock c sl a => simp [Point.plain] at hp
  case prepLock c b => simp [Point.plain] at hp
  case endLock c b => simp [Point.plain] at hp

end LlgoVerif.Chan
