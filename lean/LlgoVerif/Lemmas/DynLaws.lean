import LlgoVerif.Lemmas.DynEq
/-!
# Lemmas for DynEq (C07): laws of Go's `==` (symmetry, reflexivity away from NaN), and `EfaceEqual` as a corollary
-/
namespace LlgoVerif.DynEq

theorem nat_beq_comm (x y : Nat) : (x == y) = (y == x) := by
  by_cases h : x = y
  · subst h; rfl
  · rw [beq_eq_false_iff_ne.2 h, beq_eq_false_iff_ne.2 (Ne.symm h)]

theorem bytes_beq_comm (x y : List UInt8) : (x == y) = (y == x) := by
  by_cases h : x = y
  · subst h; rfl
  · rw [beq_eq_false_iff_ne.2 h, beq_eq_false_iff_ne.2 (Ne.symm h)]

theorem feq32_comm (x y : Nat) : feq32 x y = feq32 y x := by
  unfold feq32
  rw [nat_beq_comm x y]
  cases nanBits32 x <;> cases nanBits32 y <;> cases zeroBits32 x <;> cases zeroBits32 y <;> simp

theorem feq64_comm (x y : Nat) : feq64 x y = feq64 y x := by
  unfold feq64
  rw [nat_beq_comm x y]
  cases nanBits64 x <;> cases nanBits64 y <;> cases zeroBits64 x <;> cases zeroBits64 y <;> simp

/-! ## symmetry (results AND panics) -/

mutual
theorem goEq_symm : ∀ (v : V) (ty : Ty) (w : V), goEq ty v w = goEq ty w v
  | .word a, ty, w => by
    cases w <;> simp only [goEq]
    cases under ty with
    | basic b => cases b <;> simp [nat_beq_comm a, feq32_comm a, feq64_comm a]
    | ptr k tag => cases k <;> simp [nat_beq_comm a]
    | slice _ | iface _ _ | array _ _ | struct _ _ | named _ _ => rfl
  | .pair a b, ty, w => by
    cases w <;> simp only [goEq]
    cases under ty with
    | basic k => cases k <;> simp [feq32_comm a, feq32_comm b, feq64_comm a, feq64_comm b]
    | ptr _ _ | slice _ | iface _ _ | array _ _ | struct _ _ | named _ _ => rfl
  | .str s, ty, w => by
    cases w <;> simp only [goEq]
    cases under ty with
    | basic k => cases k <;> simp [bytes_beq_comm s]
    | ptr _ _ | slice _ | iface _ _ | array _ _ | struct _ _ | named _ _ => rfl
  | .opq, ty, w => by cases w <;> simp only [goEq]
  | .inil, ty, w => by cases w <;> simp only [goEq]
  | .idyn t v', ty, w => by
    cases w with
    | idyn u w' =>
      simp only [goEq]
      by_cases h : t = u
      · subst h
        simp only [ne_eq, not_true_eq_false, if_false]
        rw [goEq_symm v' t w']
      · have h' : ¬ u = t := fun e => h e.symm
        simp [h, h']
    | word _ | pair _ _ | str _ | opq | inil | agg _ | skip | bad => simp only [goEq]
  | .agg vs, ty, w => by
    cases w with
    | agg ws =>
      simp only [goEq]
      cases under ty with
      | array n e => exact goEqElems_symm vs e ws
      | struct size fs => exact goEqFields_symm vs fs ws
      | basic _ | ptr _ _ | slice _ | iface _ _ | named _ _ => rfl
    | word _ | pair _ _ | str _ | opq | inil | idyn _ _ | skip | bad => simp only [goEq]
  | .skip, ty, w => by cases w <;> simp only [goEq]
  | .bad, ty, w => by cases w <;> simp only [goEq]
theorem goEqElems_symm : ∀ (vs : Vs) (e : Ty) (ws : Vs), goEqElems e vs ws = goEqElems e ws vs
  | .nil, e, ws => by cases ws <;> simp only [goEqElems]
  | .cons v vr, e, ws => by
    cases ws with
    | nil => simp only [goEqElems]
    | cons w wr =>
      simp only [goEqElems]
      rw [goEq_symm v e w, goEqElems_symm vr e wr]
theorem goEqFields_symm : ∀ (vs : Vs) (fs : Fs) (ws : Vs), goEqFields fs vs ws = goEqFields fs ws vs
  | .nil, fs, ws => by cases ws <;> simp only [goEqFields]
  | .cons v vr, fs, ws => by
    cases ws with
    | nil => simp only [goEqFields]
    | cons w wr =>
      cases fs with
      | nil => simp only [goEqFields]
      | cons name off t fr =>
        simp only [goEqFields]
        rw [goEq_symm v t w, goEqFields_symm vr fr wr]
end

/-! ## reflexivity away from NaN and uncomparable dynamic types -/

mutual
/-- `v` (of type `ty`) holds no NaN in a compared position and no interface with a non-comparable dynamic type -/
def reflOK (ty : Ty) (v : V) : Bool :=
  match v with
  | .word a =>
    match under ty with
    | .basic .float32 => !nanBits32 a
    | .basic .float64 => !nanBits64 a
    | .basic .complex64 => false
    | .basic .complex128 => false
    | .basic .string => false
    | .basic _ => true
    | .ptr .pointer _ => true
    | .ptr .chan _ => true
    | _ => false
  | .pair a b =>
    match under ty with
    | .basic .complex64 => !nanBits32 a && !nanBits32 b
    | .basic .complex128 => !nanBits64 a && !nanBits64 b
    | _ => false
  | .str _ =>
    match under ty with
    | .basic .string => true
    | _ => false
  | .inil => true
  | .idyn t v' => comparable t && reflOK t v'
  | .agg vs =>
    match under ty with
    | .array _ e => reflOKElems e vs
    | .struct _ fs => reflOKFields fs vs
    | _ => false
  | _ => false
def reflOKElems (e : Ty) (vs : Vs) : Bool :=
  match vs with
  | .nil => true
  | .cons v r => reflOK e v && reflOKElems e r
def reflOKFields (fs : Fs) (vs : Vs) : Bool :=
  match vs with
  | .nil => true
  | .cons v r =>
    match fs with
    | .nil => false
    | .cons name _ t fr => (name == 0 || reflOK t v) && reflOKFields fr r
end

theorem feq32_refl (x : Nat) (h : nanBits32 x = false) : feq32 x x = true := by simp [feq32, h]
theorem feq64_refl (x : Nat) (h : nanBits64 x = false) : feq64 x x = true := by simp [feq64, h]

mutual
theorem goEq_refl : ∀ (v : V) (ty : Ty), reflOK ty v = true → goEq ty v v = .ok true
  | .word a, ty, h => by
    simp only [reflOK] at h
    simp only [goEq]
    cases hu : under ty with
    | basic b => rw [hu] at h; cases b <;> simp at h <;> simp [feq32_refl, feq64_refl, h]
    | ptr k tag => rw [hu] at h; cases k <;> simp at h <;> simp
    | slice _ | iface _ _ | array _ _ | struct _ _ | named _ _ => rw [hu] at h; simp at h
  | .pair a b, ty, h => by
    simp only [reflOK] at h
    simp only [goEq]
    cases hu : under ty with
    | basic k => rw [hu] at h; cases k <;> simp at h <;> simp [feq32_refl, feq64_refl, h.1, h.2]
    | ptr _ _ | slice _ | iface _ _ | array _ _ | struct _ _ | named _ _ => rw [hu] at h; simp at h
  | .str s, ty, h => by
    simp only [reflOK] at h
    simp only [goEq]
    cases hu : under ty with
    | basic k => rw [hu] at h; cases k <;> simp at h <;> simp
    | ptr _ _ | slice _ | iface _ _ | array _ _ | struct _ _ | named _ _ => rw [hu] at h; simp at h
  | .opq, ty, h => by simp [reflOK] at h
  | .inil, ty, _ => by simp [goEq]
  | .idyn t v', ty, h => by
    simp only [reflOK, Bool.and_eq_true] at h
    simp only [goEq, ne_eq, not_true_eq_false, if_false, h.1, Bool.not_true, Bool.false_eq_true]
    exact goEq_refl v' t h.2
  | .agg vs, ty, h => by
    simp only [reflOK] at h
    simp only [goEq]
    cases hu : under ty with
    | array n e => rw [hu] at h; exact goEqElems_refl vs e h
    | struct size fs => rw [hu] at h; exact goEqFields_refl vs fs h
    | basic _ | ptr _ _ | slice _ | iface _ _ | named _ _ => rw [hu] at h; simp at h
  | .skip, ty, h => by simp [reflOK] at h
  | .bad, ty, h => by simp [reflOK] at h
theorem goEqElems_refl : ∀ (vs : Vs) (e : Ty), reflOKElems e vs = true → goEqElems e vs vs = .ok true
  | .nil, e, _ => by simp [goEqElems]
  | .cons v r, e, h => by
    simp only [reflOKElems, Bool.and_eq_true] at h
    simp [goEqElems, goEq_refl v e h.1, goEqElems_refl r e h.2]
theorem goEqFields_refl : ∀ (vs : Vs) (fs : Fs), reflOKFields fs vs = true → goEqFields fs vs vs = .ok true
  | .nil, fs, _ => by simp [goEqFields]
  | .cons v r, fs, h => by
    cases fs with
    | nil => simp [reflOKFields] at h
    | cons name off t fr =>
      simp only [reflOKFields, Bool.and_eq_true, Bool.or_eq_true, beq_iff_eq] at h
      have h2 := goEqFields_refl r fr h.2
      by_cases hn : name = 0
      · simp [goEqFields, hn, h2]
      · have h1 : reflOK t v = true := by cases h.1 with | inl e => exact absurd e hn | inr e => exact e
        simp [goEqFields, hn, goEq_refl v t h1, h2]
end

/-! ## transitivity of "compares equal" -/

theorem feq32_trans {x y z : Nat} (h1 : feq32 x y = true) (h2 : feq32 y z = true) : feq32 x z = true := by
  simp only [feq32, Bool.and_eq_true, Bool.not_eq_true', Bool.or_eq_true, beq_iff_eq] at h1 h2 ⊢
  obtain ⟨⟨nx, ny⟩, o1⟩ := h1
  obtain ⟨⟨_, nz⟩, o2⟩ := h2
  refine ⟨⟨nx, nz⟩, ?_⟩
  rcases o1 with e1 | ⟨zx, zy⟩ <;> rcases o2 with e2 | ⟨zy', zz⟩
  · left; exact e1.trans e2
  · right; subst e1; exact ⟨zy', zz⟩
  · right; subst e2; exact ⟨zx, zy⟩
  · right; exact ⟨zx, zz⟩

theorem feq64_trans {x y z : Nat} (h1 : feq64 x y = true) (h2 : feq64 y z = true) : feq64 x z = true := by
  simp only [feq64, Bool.and_eq_true, Bool.not_eq_true', Bool.or_eq_true, beq_iff_eq] at h1 h2 ⊢
  obtain ⟨⟨nx, ny⟩, o1⟩ := h1
  obtain ⟨⟨_, nz⟩, o2⟩ := h2
  refine ⟨⟨nx, nz⟩, ?_⟩
  rcases o1 with e1 | ⟨zx, zy⟩ <;> rcases o2 with e2 | ⟨zy', zz⟩
  · left; exact e1.trans e2
  · right; subst e1; exact ⟨zy', zz⟩
  · right; subst e2; exact ⟨zx, zy⟩
  · right; exact ⟨zx, zz⟩

theorem match_ok_true {r : Except Err Bool} {k : Except Err Bool}
    (h : (match r with
          | .error x => (Except.error x : Except Err Bool)
          | .ok false => Except.ok false
          | .ok true => k) = Except.ok true) :
    r = .ok true ∧ k = .ok true := by
  cases r with
  | error x => simp at h
  | ok b => cases b <;> simp_all

mutual
theorem goEq_trans : ∀ (a : V) (ty : Ty) (b c : V), goEq ty a b = .ok true → goEq ty b c = .ok true → goEq ty a c = .ok true
  | .word x, ty, b, c, h1, h2 => by
    cases b <;> simp only [goEq, reduceCtorEq] at h1
    cases c <;> simp only [goEq, reduceCtorEq] at h2
    simp only [goEq]
    rename_i y z
    cases hu : under ty with
    | basic k =>
      rw [hu] at h1 h2
      cases k <;> simp at h1 h2 ⊢ <;> first | exact feq32_trans h1 h2 | exact feq64_trans h1 h2 | exact h1.trans h2
    | ptr k tag => rw [hu] at h1 h2; cases k <;> simp at h1 h2 ⊢ <;> exact h1.trans h2
    | slice _ | iface _ _ | array _ _ | struct _ _ | named _ _ => rw [hu] at h1; simp at h1
  | .pair x x', ty, b, c, h1, h2 => by
    cases b <;> simp only [goEq, reduceCtorEq] at h1
    cases c <;> simp only [goEq, reduceCtorEq] at h2
    simp only [goEq]
    cases hu : under ty with
    | basic k =>
      rw [hu] at h1 h2
      cases k <;> simp at h1 h2 ⊢
      · exact ⟨feq32_trans h1.1 h2.1, feq32_trans h1.2 h2.2⟩
      · exact ⟨feq64_trans h1.1 h2.1, feq64_trans h1.2 h2.2⟩
    | ptr _ _ | slice _ | iface _ _ | array _ _ | struct _ _ | named _ _ => rw [hu] at h1; simp at h1
  | .str s, ty, b, c, h1, h2 => by
    cases b <;> simp only [goEq, reduceCtorEq] at h1
    cases c <;> simp only [goEq, reduceCtorEq] at h2
    simp only [goEq]
    cases hu : under ty with
    | basic k => rw [hu] at h1 h2; cases k <;> simp at h1 h2 ⊢; exact h1.trans h2
    | ptr _ _ | slice _ | iface _ _ | array _ _ | struct _ _ | named _ _ => rw [hu] at h1; simp at h1
  | .opq, ty, b, c, h1, _ => by cases b <;> simp [goEq] at h1
  | .inil, ty, b, c, h1, h2 => by
    cases b <;> simp [goEq] at h1
    cases c <;> simp [goEq] at h2
    simp [goEq]
  | .idyn t v, ty, b, c, h1, h2 => by
    cases b with
    | idyn u w =>
      cases c with
      | idyn u' w' =>
        simp only [goEq] at h1 h2 ⊢
        by_cases e1 : t = u
        · subst e1
          by_cases e2 : t = u'
          · subst e2
            simp only [ne_eq, not_true_eq_false, if_false] at h1 h2 ⊢
            by_cases hc : comparable t = true
            · simp only [hc, Bool.not_true, Bool.false_eq_true, if_false] at h1 h2 ⊢
              exact goEq_trans v t w w' h1 h2
            · have hc' : comparable t = false := by simpa using hc
              simp [hc'] at h1
          · simp [e2] at h2
        · simp [e1] at h1
      | word _ | pair _ _ | str _ | opq | inil | agg _ | skip | bad => simp [goEq] at h2
    | word _ | pair _ _ | str _ | opq | inil | agg _ | skip | bad => simp [goEq] at h1
  | .agg vs, ty, b, c, h1, h2 => by
    cases b with
    | agg ws =>
      cases c with
      | agg us =>
        simp only [goEq] at h1 h2 ⊢
        cases hu : under ty with
        | array n e => rw [hu] at h1 h2; exact goEqElems_trans vs e ws us h1 h2
        | struct size fs => rw [hu] at h1 h2; exact goEqFields_trans vs fs ws us h1 h2
        | basic _ | ptr _ _ | slice _ | iface _ _ | named _ _ => rw [hu] at h1; simp at h1
      | word _ | pair _ _ | str _ | opq | inil | idyn _ _ | skip | bad => simp [goEq] at h2
    | word _ | pair _ _ | str _ | opq | inil | idyn _ _ | skip | bad => simp [goEq] at h1
  | .skip, ty, b, c, h1, _ => by cases b <;> simp [goEq] at h1
  | .bad, ty, b, c, h1, _ => by cases b <;> simp [goEq] at h1
theorem goEqElems_trans : ∀ (vs : Vs) (e : Ty) (ws us : Vs), goEqElems e vs ws = .ok true → goEqElems e ws us = .ok true →
    goEqElems e vs us = .ok true
  | .nil, e, ws, us, h1, h2 => by
    cases ws <;> simp [goEqElems] at h1
    exact h2
  | .cons v vr, e, ws, us, h1, h2 => by
    cases ws with
    | nil => simp [goEqElems] at h1
    | cons w wr =>
      cases us with
      | nil => simp [goEqElems] at h2
      | cons u ur =>
        simp only [goEqElems] at h1 h2 ⊢
        obtain ⟨a1, a2⟩ := match_ok_true h1
        obtain ⟨b1, b2⟩ := match_ok_true h2
        rw [goEq_trans v e w u a1 b1]
        exact goEqElems_trans vr e wr ur a2 b2
theorem goEqFields_trans : ∀ (vs : Vs) (fs : Fs) (ws us : Vs), goEqFields fs vs ws = .ok true → goEqFields fs ws us = .ok true →
    goEqFields fs vs us = .ok true
  | .nil, fs, ws, us, h1, h2 => by
    cases ws <;> simp [goEqFields] at h1
    exact h2
  | .cons v vr, fs, ws, us, h1, h2 => by
    cases ws with
    | nil => simp [goEqFields] at h1
    | cons w wr =>
      cases us with
      | nil => simp [goEqFields] at h2
      | cons u ur =>
        cases fs with
        | nil => simp [goEqFields] at h1
        | cons name off t fr =>
          simp only [goEqFields] at h1 h2 ⊢
          by_cases hn : name = 0
          · simp only [hn, if_true] at h1 h2 ⊢
            exact goEqFields_trans vr fr wr ur h1 h2
          · simp only [hn, if_false] at h1 h2 ⊢
            obtain ⟨a1, a2⟩ := match_ok_true h1
            obtain ⟨b1, b2⟩ := match_ok_true h2
            rw [goEq_trans v t w u a1 b1]
            exact goEqFields_trans vr fr wr ur a2 b2
end

/-! ## `EfaceEqual` is what `interequal`/`nilinterequal` compute -/

theorem efaceEqual_eq_callEq (d : Desc) (v u : Obj Ty) :
    efaceEqual descOf v u = callEq descOf .nilinterequal d v u := by
  cases v <;> cases u <;> simp [efaceEqual, callEq]

/-- **`EfaceEqual` computes Go's `==` on interface values** (on images without a `blankDirect` dynamic type) -/
theorem efaceEqual_spec_of_okDyn (v u : Obj Ty) (hv : fits (.iface 0 0) v = true) (hu : fits (.iface 0 0) u = true)
    (hok : okDyn v = true) :
    efaceEqual descOf v u = ifaceEq (valOf (.iface 0 0) v) (valOf (.iface 0 0) u) := by
  rw [efaceEqual_eq_callEq (descOf (.iface 0 0)) v u, ifaceEq]
  exact eq_spec v (.iface 0 0) u .nilinterequal hv hu hok (by simp [equalName])

/-! ## key equality and key hash of a map type, in the shape C06's `HashOK` asks for -/

/-- `key1 == key2` as the map code decides it: the key type's `Equal` returns true -/
def keyEq (K : Ty) (a b : Obj Ty) : Bool :=
  match equalD descOf (descOf K) a b with
  | .ok true => true
  | _ => false

theorem keyEq_iff (K : Ty) (a b : Obj Ty) : keyEq K a b = true ↔ equalD descOf (descOf K) a b = .ok true := by
  unfold keyEq
  generalize equalD descOf (descOf K) a b = r
  cases r with
  | error x => simp
  | ok v => cases v <;> simp

theorem equalD_spec (K : Ty) (a b : Obj Ty) (hc : comparable K = true) (ha : fits K a = true) (hb : fits K b = true)
    (hok : okDyn a = true) : equalD descOf (descOf K) a b = goEq K (valOf K a) (valOf K b) := by
  have hs := equalName_isSome K
  rw [hc] at hs
  cases hf : equalName K with
  | none => simp [hf] at hs
  | some f =>
    simp only [equalD, descOf_c, commonOf, hf]
    exact eq_spec a K b f ha hb hok hf

theorem keyEq_symm (K : Ty) (a b : Obj Ty) (hc : comparable K = true) (ha : fits K a = true) (hb : fits K b = true)
    (hoka : okDyn a = true) (hokb : okDyn b = true) (h : keyEq K a b = true) : keyEq K b a = true := by
  rw [keyEq_iff] at h ⊢
  rw [equalD_spec K a b hc ha hb hoka] at h
  rw [equalD_spec K b a hc hb ha hokb, goEq_symm]
  exact h

theorem keyEq_trans (K : Ty) (a b c : Obj Ty) (hc : comparable K = true) (ha : fits K a = true) (hb : fits K b = true)
    (hcc : fits K c = true) (hoka : okDyn a = true) (hokb : okDyn b = true)
    (h1 : keyEq K a b = true) (h2 : keyEq K b c = true) : keyEq K a c = true := by
  rw [keyEq_iff] at h1 h2 ⊢
  rw [equalD_spec K a b hc ha hb hoka] at h1
  rw [equalD_spec K b c hc hb hcc hokb] at h2
  rw [equalD_spec K a c hc ha hcc hoka]
  exact goEq_trans _ K _ _ h1 h2

end LlgoVerif.DynEq
