import LlgoVerif.Util
import LlgoVerif.Model.GoType
import LlgoVerif.Model.Iface
import LlgoVerif.Spec.TypeIdent
import LlgoVerif.Lemmas.GoType
/-! Line-protocol driver for C07 (executable only; SHA-256 and base64url live here, not in any theorem).

Type terms (prefix notation, blank separated; `H` = hex of UTF-8 bytes, `-` = empty, `~` = absent):
```
B kind | P t | S t | A n t | M k v | C d t            (d: 0 chan, 1 chan<-, 2 <-chan)
F variadic np nr t…                                     params then results
T n (nameH pkgH|~ emb tagH t)…                          struct
I n (nameH pkgH|~ sig)…                                 interface
N decl pkgH|~ nameH scope ntargs t…                     scope: g | s:i.j.k (innermost first) | p:pos
L nameH t                                               alias
```
Requests:
(`V` = variant of structHash the tree implements: two digits, tags written? embedded names written?  `00` = pinned tree)
* `name V T`              → `ok <hex TypeName>` | `unsupported`
* `pair V T | T`          → `<hex name1> <hex name2> <identical 0/1> <fragment 0/1>` (names `unsupported` when not covered;
                            fragment = the decidable hypotheses of `typeName_injective_partial` hold for the pair)
* `impl t:(nameH typ ifn)… | v:(…)` (or `v@kind:`) or `| none`   → `<implScan> <newItabOk> <spec> <itab function words | ->`
* `find v:(…) | nameH typ` → `<ifn> <found>` (via the itab of the one-method interface)
* `implspec MSET | T`     → `<implements 0/1>`   (MSET is an `I` term holding the method set)
* `closure X tid tclosure tf0 tnamed | vid vclosure vf0 vnamed` or `| none` → `<matchesClosure>` (X = 1: variant with fixes/C07-3.diff)
* `sha H`                 → base64url(sha256) (self test)
-/
open LlgoVerif LlgoVerif.Util LlgoVerif.Types

/-! ## SHA-256 + base64 RawURLEncoding -/

def shaK : Array UInt32 := #[
  0x428a2f98, 0x71374491, 0xb5c0fbcf, 0xe9b5dba5, 0x3956c25b, 0x59f111f1, 0x923f82a4, 0xab1c5ed5,
  0xd807aa98, 0x12835b01, 0x243185be, 0x550c7dc3, 0x72be5d74, 0x80deb1fe, 0x9bdc06a7, 0xc19bf174,
  0xe49b69c1, 0xefbe4786, 0x0fc19dc6, 0x240ca1cc, 0x2de92c6f, 0x4a7484aa, 0x5cb0a9dc, 0x76f988da,
  0x983e5152, 0xa831c66d, 0xb00327c8, 0xbf597fc7, 0xc6e00bf3, 0xd5a79147, 0x06ca6351, 0x14292967,
  0x27b70a85, 0x2e1b2138, 0x4d2c6dfc, 0x53380d13, 0x650a7354, 0x766a0abb, 0x81c2c92e, 0x92722c85,
  0xa2bfe8a1, 0xa81a664b, 0xc24b8b70, 0xc76c51a3, 0xd192e819, 0xd6990624, 0xf40e3585, 0x106aa070,
  0x19a4c116, 0x1e376c08, 0x2748774c, 0x34b0bcb5, 0x391c0cb3, 0x4ed8aa4a, 0x5b9cca4f, 0x682e6ff3,
  0x748f82ee, 0x78a5636f, 0x84c87814, 0x8cc70208, 0x90befffa, 0xa4506ceb, 0xbef9a3f7, 0xc67178f2]

@[inline] def rotr (x : UInt32) (n : UInt32) : UInt32 := (x >>> n) ||| (x <<< (32 - n))

def shaPad (msg : ByteArray) : ByteArray := Id.run do
  let bitLen : UInt64 := msg.size.toUInt64 * 8
  let mut m := msg.push 0x80
  while m.size % 64 != 56 do
    m := m.push 0
  for i in [0:8] do
    m := m.push ((bitLen >>> (8 * (7 - i)).toUInt64).toUInt8)
  return m

def sha256 (msg : ByteArray) : ByteArray := Id.run do
  let m := shaPad msg
  let mut h : Array UInt32 := #[0x6a09e667, 0xbb67ae85, 0x3c6ef372, 0xa54ff53a, 0x510e527f, 0x9b05688c, 0x1f83d9ab, 0x5be0cd19]
  for blk in [0:m.size / 64] do
    let mut w : Array UInt32 := Array.replicate 64 0
    for i in [0:16] do
      let b := blk * 64 + i * 4
      w := w.set! i ((m.get! b).toUInt32 <<< 24 ||| (m.get! (b+1)).toUInt32 <<< 16 ||| (m.get! (b+2)).toUInt32 <<< 8 ||| (m.get! (b+3)).toUInt32)
    for i in [16:64] do
      let w15 := w[i-15]!
      let w2 := w[i-2]!
      let s0 := rotr w15 7 ^^^ rotr w15 18 ^^^ (w15 >>> 3)
      let s1 := rotr w2 17 ^^^ rotr w2 19 ^^^ (w2 >>> 10)
      w := w.set! i (w[i-16]! + s0 + w[i-7]! + s1)
    let mut a := h[0]!
    let mut b := h[1]!
    let mut c := h[2]!
    let mut d := h[3]!
    let mut e := h[4]!
    let mut f := h[5]!
    let mut g := h[6]!
    let mut hh := h[7]!
    for i in [0:64] do
      let s1 := rotr e 6 ^^^ rotr e 11 ^^^ rotr e 25
      let ch := (e &&& f) ^^^ ((~~~ e) &&& g)
      let t1 := hh + s1 + ch + shaK[i]! + w[i]!
      let s0 := rotr a 2 ^^^ rotr a 13 ^^^ rotr a 22
      let mj := (a &&& b) ^^^ (a &&& c) ^^^ (b &&& c)
      let t2 := s0 + mj
      hh := g; g := f; f := e; e := d + t1; d := c; c := b; b := a; a := t1 + t2
    h := #[h[0]! + a, h[1]! + b, h[2]! + c, h[3]! + d, h[4]! + e, h[5]! + f, h[6]! + g, h[7]! + hh]
  let mut out := ByteArray.empty
  for x in h do
    out := out.push (x >>> 24).toUInt8
    out := out.push (x >>> 16).toUInt8
    out := out.push (x >>> 8).toUInt8
    out := out.push x.toUInt8
  return out

def b64Alphabet : Array Char := "ABCDEFGHIJKLMNOPQRSTUVWXYZabcdefghijklmnopqrstuvwxyz0123456789-_".toList.toArray

/-- base64.RawURLEncoding -/
def b64url (bs : ByteArray) : List Char := Id.run do
  let mut out : Array Char := #[]
  let n := bs.size
  let mut i := 0
  while i + 3 ≤ n do
    let v := (bs.get! i).toNat * 65536 + (bs.get! (i+1)).toNat * 256 + (bs.get! (i+2)).toNat
    out := out.push b64Alphabet[v / 262144 % 64]!
    out := out.push b64Alphabet[v / 4096 % 64]!
    out := out.push b64Alphabet[v / 64 % 64]!
    out := out.push b64Alphabet[v % 64]!
    i := i + 3
  if n - i == 1 then
    let v := (bs.get! i).toNat * 65536
    out := out.push b64Alphabet[v / 262144 % 64]!
    out := out.push b64Alphabet[v / 4096 % 64]!
  else if n - i == 2 then
    let v := (bs.get! i).toNat * 65536 + (bs.get! (i+1)).toNat * 256
    out := out.push b64Alphabet[v / 262144 % 64]!
    out := out.push b64Alphabet[v / 4096 % 64]!
    out := out.push b64Alphabet[v / 64 % 64]!
  return out.toList

/-- the text-level hash `nameC` is parameterised by -/
def hashText (cs : List Char) : List Char := b64url (sha256 (String.ofList cs).toUTF8)

/-! ## term parser -/

def strOfHex (h : String) : Option Str := do
  let bs ← unhex h
  let s ← String.fromUTF8? bs.toByteArray
  pure s.toList

def optStrOfHex (h : String) : Option (Option Str) :=
  if h = "~" then some none else (strOfHex h).map some

def hexOfStr (s : Str) : String := hex (String.ofList s).toUTF8.data.toList

def basicOfName : String → Option BasicKind
  | "bool" => some .bool | "int" => some .int | "int8" => some .int8 | "int16" => some .int16
  | "int32" => some .int32 | "int64" => some .int64 | "uint" => some .uint | "uint8" => some .uint8
  | "uint16" => some .uint16 | "uint32" => some .uint32 | "uint64" => some .uint64 | "uintptr" => some .uintptr
  | "float32" => some .float32 | "float64" => some .float64 | "complex64" => some .complex64
  | "complex128" => some .complex128 | "string" => some .string | "unsafe.Pointer" => some .unsafePointer
  | "byte" => some .byte | "rune" => some .rune
  | _ => none

def scopeOf (s : String) : Option Scope :=
  if s = "g" then some .pkg
  else if s.startsWith "s:" then
    let body := (s.drop 2).toString
    if body = "" then some (.path [])
    else ((body.splitOn ".").mapM String.toNat?).map Scope.path
  else if s.startsWith "p:" then (s.drop 2).toString.toNat?.map Scope.pos
  else none

mutual
partial def parseT : List String → Option (GoType × List String)
  | "B" :: k :: r => (basicOfName k).map fun b => (.basic b, r)
  | "P" :: r => do let (t, r) ← parseT r; pure (.pointer t, r)
  | "S" :: r => do let (t, r) ← parseT r; pure (.slice t, r)
  | "A" :: n :: r => do let n ← n.toNat?; let (t, r) ← parseT r; pure (.array n t, r)
  | "M" :: r => do let (k, r) ← parseT r; let (v, r) ← parseT r; pure (.map k v, r)
  | "C" :: d :: r => do
    let d ← (match d with | "0" => some ChanDir.both | "1" => some .send | "2" => some .recv | _ => none)
    let (t, r) ← parseT r; pure (.chan d t, r)
  | "F" :: v :: np :: nr :: r => do
    let np ← np.toNat?; let nr ← nr.toNat?
    let (ps, r) ← parseTL np r; let (rs, r) ← parseTL nr r
    pure (.func ps rs (v == "1"), r)
  | "T" :: n :: r => do let n ← n.toNat?; let (fs, r) ← parseFL n r; pure (.struct fs, r)
  | "I" :: n :: r => do let n ← n.toNat?; let (ms, r) ← parseML n r; pure (.iface ms, r)
  | "N" :: d :: pkg :: name :: sc :: nt :: r => do
    let d ← d.toNat?; let pkg ← optStrOfHex pkg; let name ← strOfHex name; let sc ← scopeOf sc
    let nt ← nt.toNat?; let (ts, r) ← parseTL nt r
    pure (.named d pkg name sc ts, r)
  | "L" :: name :: r => do let name ← strOfHex name; let (t, r) ← parseT r; pure (.alias name t, r)
  | _ => none
partial def parseTL : Nat → List String → Option (TList × List String)
  | 0, r => some (.nil, r)
  | n+1, r => do let (t, r) ← parseT r; let (ts, r) ← parseTL n r; pure (.cons t ts, r)
partial def parseFL : Nat → List String → Option (FList × List String)
  | 0, r => some (.nil, r)
  | n+1, name :: pkg :: emb :: tag :: r => do
    let name ← strOfHex name; let pkg ← optStrOfHex pkg; let tag ← strOfHex tag
    let (t, r) ← parseT r; let (fs, r) ← parseFL n r
    pure (.cons name pkg (emb == "1") tag t fs, r)
  | _, _ => none
partial def parseML : Nat → List String → Option (MList × List String)
  | 0, r => some (.nil, r)
  | n+1, name :: pkg :: r => do
    let name ← strOfHex name; let pkg ← optStrOfHex pkg
    let (t, r) ← parseT r; let (ms, r) ← parseML n r
    pure (.cons name pkg t ms, r)
  | _, _ => none
end

def parseWhole (toks : List String) : Option GoType :=
  match parseT toks with
  | some (t, []) => some t
  | _ => none

def splitBar (toks : List String) : List String × List String :=
  (toks.takeWhile (· ≠ "|"), (toks.dropWhile (· ≠ "|")).drop 1)

/-- `token.IsExported` on ASCII names -/
def exAscii (s : Str) : Bool := match s with | c :: _ => c.isUpper | [] => false

/-- the decidable hypotheses of `typeName_injective_partial` -/
def inFragment (cfg : Cfg) (t1 t2 : GoType) : Bool :=
  wfT cfg exAscii t1 && wfT cfg exAscii t2 && tagsOk cfg t1 && tagsOk cfg t2 &&
    decide (Coherent (declKeys t1 ++ declKeys t2))

def cfgOf (v : String) : Option Cfg :=
  match v with
  | "00" => some ⟨false, false⟩ | "10" => some ⟨true, false⟩
  | "01" => some ⟨false, true⟩ | "11" => some ⟨true, true⟩
  | _ => none

def nameOut (cfg : Cfg) (t : GoType) : String :=
  if supported t then hexOfStr (nameC cfg hashText false t) else "unsupported"

/-! ## method tables -/

def parseEnts : List String → Option (List Face.Ent)
  | [] => some []
  | n :: t :: f :: r => do
    let n ← unhex n; let t ← t.toNat?; let f ← f.toNat?
    let rest ← parseEnts r
    pure ({ name := n.map (·.toNat), typ := t, ifn := f } :: rest)
  | _ => none

def bstr (b : Bool) : String := if b then "1" else "0"

def specDec (t v : List Face.Ent) : Bool := t.all fun e => v.any fun m => m.name == e.name && m.typ == e.typ

/-- drop the table markers `t:` / `v:` / `iface:` the native driver's syntax carries -/
def dropMark (l : List String) : List String :=
  match l with
  | "t:" :: r => r
  | "v:" :: r => r
  | "iface:" :: r => r
  | m :: r => if m.startsWith "v@" then r else m :: r   -- `v@chan:` …: the descriptor kind does not matter to the scans
  | l => l

def parseDesc : List String → Option Face.Desc
  | [a, b, c, d] => do pure { id := (← a.toNat?), closure := b == "1", field0 := (← c.toNat?), named := d == "1" }
  | _ => none

def handle (line : String) : String :=
  match fields line with
  | "name" :: v :: toks =>
    match cfgOf v, parseWhole toks with
    | some cfg, some t => if supported t then "ok " ++ hexOfStr (nameC cfg hashText false t) else "unsupported"
    | _, _ => "bad-op"
  | "pair" :: v :: toks =>
    let (a, b) := splitBar toks
    match cfgOf v, parseWhole a, parseWhole b with
    | some cfg, some t1, some t2 =>
      nameOut cfg t1 ++ " " ++ nameOut cfg t2 ++ " " ++ bstr (identical t1 t2) ++ " " ++ bstr (inFragment cfg t1 t2)
    | _, _, _ => "bad-op"
  | "impl" :: toks =>
    let (a, b) := splitBar toks
    match parseEnts (dropMark a) with
    | some t =>
      if b = ["none"] then bstr (Face.implScan t none) ++ " " ++ bstr (Face.newItabOk t none) ++ " " ++ bstr t.isEmpty ++ " -"
      else match parseEnts (dropMark b) with
        | some v =>
          let funs := match Face.newItabFuns t v with
            | some (f :: fs) => if f != 0 then ",".intercalate ((f :: fs).map toString) else "-"
            | _ => "-"
          bstr (Face.implScan t (some v)) ++ " " ++ bstr (Face.newItabOk t (some v)) ++ " " ++ bstr (specDec t v) ++ " " ++ funs
        | none => "bad-op"
    | none => "bad-op"
  | "find" :: toks =>
    let (a, b) := splitBar toks
    match parseEnts (dropMark a), b with
    | some v, [n, t] =>
      match unhex n, t.toNat? with
      | some n, some t =>
        -- as the native driver does: the itab of the one-method interface (valid iff found with a non-nil code pointer)
        match Face.newItabFuns [{ name := n.map (·.toNat), typ := t }] v with
        | some [f] => if f != 0 then toString f ++ " 1" else "0 0"
        | _ => "0 0"
      | _, _ => "bad-op"
    | _, _ => "bad-op"
  | "implspec" :: toks =>
    let (a, b) := splitBar toks
    match parseWhole a, parseWhole b with
    | some (.iface ms), some i => bstr (implements ms i)
    | _, _ => "bad-op"
  | "closure" :: fx :: toks =>
    let (a, b) := splitBar toks
    match parseDesc a with
    | some t =>
      if b = ["none"] then bstr (Face.matchesClosure (fx == "1") t none)
      else match parseDesc b with
        | some v => bstr (Face.matchesClosure (fx == "1") t (some v))
        | none => "bad-op"
    | none => "bad-op"
  | ["sha", h] =>
    match unhex h with
    | some bs => String.ofList (b64url (sha256 bs.toByteArray))
    | none => "bad-op"
  | _ => "bad-op"

def main : IO Unit := lineLoop handle
