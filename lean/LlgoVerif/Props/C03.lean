import LlgoVerif.Lemmas.Bounds
import LlgoVerif.Lemmas.BoundsCall
/-!
# C03 — every run-time panic Go mandates is raised, recoverable, and raised only then

Fixed theorems.  The per-shape obligations "`x[i]` for this indexable kind and index type traps exactly when the
index, at its source type's value, is outside `[0, len)` and otherwise addresses element `i`" are REGENERATED from
the compiler's IR into `Gen/C03_idx.lean` on every run (statement: `f len i = idxSpec (GoArith.val s i) len`).
Here: what `idxSpec` means, and the signal-based recovery state machine behind nil dereferences.

Second regenerated family (`Gen/C03_bnd.lean`, from `harness/irgen/bndgen.py`): every 2- and 3-index slice expression on
slices, strings, array pointers and array values, `make` of slices / channels / maps, `unsafe.Slice`/`unsafe.String`,
slice→array(-pointer) conversion and the explicit nil check — statement per function: the routine reached and the operands
handed over are exactly `fit <signedness of the operand's SOURCE type> operand` (omitted bounds: the header field Go
prescribes; constants: themselves), the base pointer is the operand's storage, and the function returns the routine's
result.  The theorems of the second half of this file compose that with the run-time routines (C05's `NewSlice3`,
`StringSlice`, `MakeSlice`; `NewChan`, `sliceToArray` of `Model/BoundsCall.lean`): per form, *panics iff the SOURCE
values violate Go's rule, and in range yields exactly the specified window*.
-/
namespace LlgoVerif.C03
open LlgoVerif LlgoVerif.LLVM LlgoVerif.Bounds

/-- the index check panics exactly on out-of-range indexes … -/
theorem idxSpec_panics_iff (v : Int) (len : BitVec 64) :
    idxSpec v len = .error .indexRange ↔ ¬ (0 ≤ v ∧ v < len.toInt) := by
  unfold idxSpec; split <;> simp_all

/-- … and an in-range index reaches the address computation unchanged ("raised only then") -/
theorem idxSpec_in_range (v : Int) (len : BitVec 64) (h0 : 0 ≤ v) (h1 : v < len.toInt) :
    ∃ c : BitVec 64, idxSpec v len = .ok c ∧ c.toInt = v := by
  refine ⟨BitVec.ofInt 64 v, ?_, ?_⟩
  · simp [idxSpec, h0, h1]
  · have hl := @BitVec.toInt_lt 64 len
    rw [BitVec.toInt_ofInt]
    apply Int.bmod_eq_of_le <;> omega

/-- no other trap and no undefined behaviour can come out of an index check -/
theorem idxSpec_total (v : Int) (len : BitVec 64) :
    (∃ c, idxSpec v len = .ok c) ∨ idxSpec v len = .error .indexRange := by
  unfold idxSpec; split
  · exact Or.inl ⟨_, rfl⟩
  · exact Or.inr rfl

example : (0 : Int) ≤ 2 ∧ (2 : Int) < (BitVec.ofNat 64 3).toInt := by decide

/-! ## nil dereference: the SIGSEGV handler and `sigsetjmp(jb, 0)`

`z_signal.go` installs a SIGSEGV handler that panics; the panic unwinds by `siglongjmp` to the frame's
`sigsetjmp(jb, savemask = 0)`.  While a handler runs the kernel blocks its signal; a jump out of the handler with
`savemask = 0` does not restore the mask.  The model below is that protocol; `second_fault_fatal` is the reason the
check lists "second recovered nil dereference in one thread kills the process" as a known finding. -/

inductive SigEv where
  | fault        -- a hardware fault (nil dereference)
deriving DecidableEq, Repr

structure SigState where
  blocked : Bool := false     -- SIGSEGV blocked in the thread's signal mask
  dead    : Bool := false     -- process killed by the kernel
  recovered : Nat := 0        -- faults turned into recoverable Go panics
deriving DecidableEq, Repr

/-- one fault: delivered to the handler if unblocked (which leaves it blocked after the longjmp, savemask = 0),
    fatal if the signal is blocked -/
def sigStep (savemask : Bool) (s : SigState) (_ : SigEv) : SigState :=
  if s.dead then s
  else if s.blocked then { s with dead := true }
  else { s with blocked := !savemask, recovered := s.recovered + 1 }

def sigRun (savemask : Bool) (evs : List SigEv) : SigState := evs.foldl (sigStep savemask) {}

/-- with the code as it is (`savemask = 0`) the second fault of a thread is fatal, however the first was recovered -/
theorem second_fault_fatal (evs : List SigEv) (h : 2 ≤ evs.length) : (sigRun false evs).dead = true := by
  match evs, h with
  | .fault :: .fault :: rest, _ =>
    simp only [sigRun, List.foldl_cons, sigStep]
    have : ∀ (l : List SigEv) (s : SigState), s.dead = true → (l.foldl (sigStep false) s).dead = true := by
      intro l
      induction l with
      | nil => intro s hs; simpa using hs
      | cons e es ih => intro s hs; exact ih _ (by simp [sigStep, hs])
    exact this rest _ (by simp)

/-- the property's demand ("as many times as it happens in one goroutine") holds of the protocol with the mask restored -/
theorem every_fault_recovered_if_mask_restored (evs : List SigEv) :
    (sigRun true evs).dead = false ∧ (sigRun true evs).recovered = evs.length := by
  have : ∀ (l : List SigEv) (s : SigState), s.dead = false → s.blocked = false →
      (l.foldl (sigStep true) s).dead = false ∧ (l.foldl (sigStep true) s).recovered = s.recovered + l.length := by
    intro l
    induction l with
    | nil => intro s h1 _; simp [h1]
    | cons e es ih =>
      intro s h1 h2
      have := ih (sigStep true s e) (by simp [sigStep, h1, h2]) (by simp [sigStep, h1, h2])
      simp only [List.foldl_cons, List.length_cons]
      refine ⟨this.1, ?_⟩
      rw [this.2]; simp [sigStep, h1, h2]; omega
  have := this evs {} rfl rfl
  simpa [sigRun] using this

/-! ## bound operands ∘ run-time checks: slice expressions, make, conversions

`a : BitVec w` is the operand as the program computed it (type of width `w ≤ 64`, signedness `s`), `GoArith.val s a` its
value, `fit s a` what the generated obligations show the compiler hands over, `.toInt` how the runtime reads it. -/

open LlgoVerif.BoundsCall LlgoVerif.Slice

/-- Go's rule for `a[i:j:k]` (2-index forms: `k = cap`; omitted `i`: 0; omitted `j`: `len`) -/
def slice3OK (cap i j k : Int) : Prop := 0 ≤ i ∧ i ≤ j ∧ j ≤ k ∧ k ≤ cap

instance (cap i j k : Int) : Decidable (slice3OK cap i j k) := by unfold slice3OK; infer_instance

/-- **no truncation, right extension** (every bound operand of every form): what the runtime reads is the source value
    whenever that value is an `int` at all; otherwise (a 64-bit unsigned operand `≥ 2^63`) it reads a negative number -/
theorem operand_handed (s : Bool) (a : BitVec w) (hw : w ≤ 64) :
    (fit s a).toInt = GoArith.val s a ∨ ((fit s a).toInt < 0 ∧ 2 ^ 63 ≤ GoArith.val s a) :=
  handed_fit s a hw

theorem operand_exact (s : Bool) (a : BitVec w) (hw : w ≤ 64) (hfit : GoArith.val s a < 2 ^ 63) :
    (fit s a).toInt = GoArith.val s a :=
  handed_exact s a hw hfit

example : GoArith.val false (200#8) < 2 ^ 63 ∧ (fit false (200#8)).toInt = 200 ∧ (fit true (200#8)).toInt = -56 := by decide

/-- **`x[i:j:k]` end to end** (slice, array pointer, array; every operand type): the compiled expression panics iff the
    SOURCE values violate `0 ≤ i ≤ j ≤ k ≤ cap`, and otherwise yields exactly `len = j-i`, `cap = k-i`, data `i` elements
    into the base (base kept for an empty capacity window).  Omitted / constant bounds are the instances
    `si = true, ai = len | cap | constant` (`fit true x = x`, `GoArith.val true x = x.toInt`). -/
theorem slice_expr_spec (base : Nat) (esz : Int) (cap : BitVec 64)
    (si sj sk : Bool) (ai : BitVec wi) (aj : BitVec wj) (ak : BitVec wk) (hi : wi ≤ 64) (hj : wj ≤ 64) (hk : wk ≤ 64) :
    NewSlice3 base esz cap.toInt (fit si ai).toInt (fit sj aj).toInt (fit sk ak).toInt =
      if slice3OK cap.toInt (GoArith.val si ai) (GoArith.val sj aj) (GoArith.val sk ak) then
        .ok { data := if GoArith.val sk ak - GoArith.val si ai > 0 then advance base (GoArith.val si ai * esz) else base,
              len := GoArith.val sj aj - GoArith.val si ai, cap := GoArith.val sk ak - GoArith.val si ai }
      else .error .panic :=
  newSlice3_handed base esz cap _ _ _ _ _ _ (handed_fit si ai hi) (handed_fit sj aj hj) (handed_fit sk ak hk)

theorem slice_expr_panics_iff (base : Nat) (esz : Int) (cap : BitVec 64)
    (si sj sk : Bool) (ai : BitVec wi) (aj : BitVec wj) (ak : BitVec wk) (hi : wi ≤ 64) (hj : wj ≤ 64) (hk : wk ≤ 64) :
    NewSlice3 base esz cap.toInt (fit si ai).toInt (fit sj aj).toInt (fit sk ak).toInt = .error .panic ↔
      ¬ slice3OK cap.toInt (GoArith.val si ai) (GoArith.val sj aj) (GoArith.val sk ak) := by
  rw [slice_expr_spec base esz cap si sj sk ai aj ak hi hj hk]
  split <;> simp_all

example : slice3OK (BitVec.ofNat 64 300).toInt (GoArith.val false (200#8)) (GoArith.val false (250#8)) (GoArith.val true (299#16)) := by
  decide

/-- the 2-index form on a slice `s[i:j]` (operands of the generated `Sij_slice_*`): bound by the CAPACITY -/
theorem slice2_spec (base : Nat) (esz : Int) (cap : BitVec 64) (si sj : Bool) (ai : BitVec wi) (aj : BitVec wj)
    (hi : wi ≤ 64) (hj : wj ≤ 64) :
    NewSlice3 base esz cap.toInt (fit si ai).toInt (fit sj aj).toInt cap.toInt = .error .panic ↔
      ¬ (0 ≤ GoArith.val si ai ∧ GoArith.val si ai ≤ GoArith.val sj aj ∧ GoArith.val sj aj ≤ cap.toInt) := by
  have h := newSlice3_handed base esz cap _ _ cap _ _ _ (handed_fit si ai hi) (handed_fit sj aj hj) (handed_self cap)
  rw [h]
  split <;> rename_i hc
  · simp only [reduceCtorEq, false_iff, Classical.not_not]; exact ⟨hc.1, hc.2.1, hc.2.2.1⟩
  · simp only [true_iff]; intro hh; exact hc ⟨hh.1, hh.2.1, hh.2.2, Int.le_refl _⟩

/-- `s[i:]` (`Si_slice_*`): bound by the LENGTH; the result keeps the rest of the capacity -/
theorem slice_low_spec (base : Nat) (esz : Int) (len cap : BitVec 64) (hl : 0 ≤ len.toInt ∧ len.toInt ≤ cap.toInt)
    (si : Bool) (ai : BitVec wi) (hi : wi ≤ 64) :
    NewSlice3 base esz cap.toInt (fit si ai).toInt len.toInt cap.toInt =
      if 0 ≤ GoArith.val si ai ∧ GoArith.val si ai ≤ len.toInt then
        .ok { data := if cap.toInt - GoArith.val si ai > 0 then advance base (GoArith.val si ai * esz) else base,
              len := len.toInt - GoArith.val si ai, cap := cap.toInt - GoArith.val si ai }
      else .error .panic := by
  have h := newSlice3_handed base esz cap _ len cap _ _ _ (handed_fit si ai hi) (handed_self len) (handed_self cap)
  rw [h]
  by_cases hc : 0 ≤ GoArith.val si ai ∧ GoArith.val si ai ≤ len.toInt
  · rw [if_pos hc, if_pos ⟨hc.1, hc.2, hl.2, Int.le_refl _⟩]
  · rw [if_neg hc, if_neg (fun hh => hc ⟨hh.1, hh.2.1⟩)]

example : (0 : Int) ≤ (BitVec.ofNat 64 3).toInt ∧ (BitVec.ofNat 64 3).toInt ≤ (BitVec.ofNat 64 5).toInt := by decide

/-- `s[:j]` (`Sj_slice_*`) -/
theorem slice_high_spec (base : Nat) (esz : Int) (cap : BitVec 64) (sj : Bool) (aj : BitVec wj) (hj : wj ≤ 64) :
    NewSlice3 base esz cap.toInt (BitVec.ofInt 64 0).toInt (fit sj aj).toInt cap.toInt =
      if 0 ≤ GoArith.val sj aj ∧ GoArith.val sj aj ≤ cap.toInt then
        .ok { data := if cap.toInt > 0 then advance base 0 else base, len := GoArith.val sj aj, cap := cap.toInt }
      else .error .panic := by
  have h := newSlice3_handed base esz cap (BitVec.ofInt 64 0) _ cap 0 _ _ (Or.inl (by decide)) (handed_fit sj aj hj) (handed_self cap)
  have hz : (BitVec.ofInt 64 0).toInt = 0 := by decide
  rw [h]
  by_cases hc : 0 ≤ GoArith.val sj aj ∧ GoArith.val sj aj ≤ cap.toInt
  · rw [if_pos hc, if_pos ⟨Int.le_refl _, hc.1, hc.2, Int.le_refl _⟩]; simp
  · rw [if_neg hc, if_neg (fun hh => hc ⟨hh.2.1, hh.2.2.1⟩)]

/-- the elements of an in-range `x[i:j:k]` are the elements `i … j-1` of the operand's capacity window (C05's
    `slice3_window` behind the compiler's operands) -/
theorem slice_expr_window (m : Mem) (base : Nat) (esz : Int) (hesz : 0 ≤ esz) (cap : BitVec 64)
    (si sj sk : Bool) (ai : BitVec wi) (aj : BitVec wj) (ak : BitVec wk) (hi : wi ≤ 64) (hj : wj ≤ 64) (hk : wk ≤ 64)
    (hok : slice3OK cap.toInt (GoArith.val si ai) (GoArith.val sj aj) (GoArith.val sk ak)) :
    ∃ s, NewSlice3 base esz cap.toInt (fit si ai).toInt (fit sj aj).toInt (fit sk ak).toInt = .ok s ∧
      view m s esz = ((m.read base (cap.toInt * esz).toNat).drop (GoArith.val si ai * esz).toNat).take
        ((GoArith.val sj aj - GoArith.val si ai) * esz).toNat := by
  have hc := toInt_lt cap
  have e1 := operand_exact si ai hi (by unfold slice3OK at hok; omega)
  have e2 := operand_exact sj aj hj (by unfold slice3OK at hok; omega)
  have e3 := operand_exact sk ak hk (by unfold slice3OK at hok; omega)
  rw [e1, e2, e3]
  refine ⟨_, slice3_ok base esz cap.toInt _ _ _ hok, ?_⟩
  exact slice3_window' m base esz cap.toInt _ _ _ hesz hok _ (slice3_ok base esz cap.toInt _ _ _ hok)

/-- **`str[i:j]` end to end**: panics iff NOT `0 ≤ i ≤ j ≤ len(str)` on the SOURCE values; otherwise the bytes `i … j-1` -/
theorem string_slice_spec (str : List Nat) (len : BitVec 64) (hlen : len.toInt = str.length)
    (si sj : Bool) (ai : BitVec wi) (aj : BitVec wj) (hi : wi ≤ 64) (hj : wj ≤ 64) :
    StringSlice str (fit si ai).toInt (fit sj aj).toInt =
      if 0 ≤ GoArith.val si ai ∧ GoArith.val si ai ≤ GoArith.val sj aj ∧ GoArith.val sj aj ≤ str.length then
        .ok ((str.drop (GoArith.val si ai).toNat).take (GoArith.val sj aj - GoArith.val si ai).toNat)
      else .error .panic :=
  stringSlice_handed str len _ _ _ _ hlen (handed_fit si ai hi) (handed_fit sj aj hj)

example : (BitVec.ofNat 64 3).toInt = ([97, 98, 99] : List Nat).length := by decide

/-- **`make([]T, n, m)` end to end**: panics iff NOT (`0 ≤ n ≤ m`, `m` an `int`, `m * sizeof(T) ≤ maxAlloc`) on the SOURCE
    values (`make([]T, n)`: the same operand twice) -/
theorem make_slice_spec (m : Mem) (esz : Int) (hesz : 0 ≤ esz ∧ esz < 2 ^ 63)
    (sl sc : Bool) (al : BitVec wl) (ac : BitVec wc) (hl : wl ≤ 64) (hc : wc ≤ 64) :
    MakeSlice m (fit sl al).toInt (fit sc ac).toInt esz = .error .panic ↔
      ¬ (0 ≤ GoArith.val sl al ∧ GoArith.val sl al ≤ GoArith.val sc ac ∧ GoArith.val sc ac < 2 ^ 63 ∧
         GoArith.val sc ac * esz ≤ 2 ^ 48) :=
  makeSlice_handed m esz _ _ _ _ hesz (handed_fit sl al hl) (handed_fit sc ac hc)

example : (0 : Int) ≤ 4 ∧ (4 : Int) < 2 ^ 63 := by decide

/-- in range `make` returns exactly a fresh zeroed block of `m` elements with `len = n`, `cap = m` -/
theorem make_slice_in_range (m : Mem) (esz : Int) (hesz : 0 ≤ esz ∧ esz < 2 ^ 63)
    (sl sc : Bool) (al : BitVec wl) (ac : BitVec wc) (hl : wl ≤ 64) (hc : wc ≤ 64)
    (hok : 0 ≤ GoArith.val sl al ∧ GoArith.val sl al ≤ GoArith.val sc ac ∧ GoArith.val sc ac < 2 ^ 63 ∧
      GoArith.val sc ac * esz ≤ 2 ^ 48) :
    ∃ m', MakeSlice m (fit sl al).toInt (fit sc ac).toInt esz = .ok (m', ⟨m.next, GoArith.val sl al, GoArith.val sc ac⟩) ∧
      (∀ i, i < (GoArith.val sc ac * esz).toNat → m'.bytes (m.next + i) = 0) := by
  rw [operand_exact sl al hl (by omega), operand_exact sc ac hc hok.2.2.1]
  exact makeSlice_in_range m _ _ esz hesz hok.2.2.1 ⟨hok.1, hok.2.1, hok.2.2.2⟩

example : (0 : Int) ≤ GoArith.val false (3#8) ∧ GoArith.val false (3#8) ≤ GoArith.val true (5#16) ∧
    GoArith.val true (5#16) < 2 ^ 63 ∧ GoArith.val true (5#16) * 4 ≤ 2 ^ 48 := by decide

/-- what Go demands of `make(chan T, n)` at run time -/
def MakeChanFull (cfg : BCfg) : Prop :=
  ∀ esz n : Int, 0 ≤ esz ∧ esz < 2 ^ 63 → -2 ^ 63 ≤ n ∧ n < 2 ^ 63 →
    (NewChan cfg esz n = .error .panic ↔ ¬ chanOK esz n)

/-- it holds of `NewChan` with `fixes/C03-4.diff` … -/
theorem makeChan_fixed : MakeChanFull BCfg.fixed := fun esz n h1 h2 => newChan_fixed_panics_iff esz n h1 h2

/-- … and is FALSE on the unfixed tree: `make(chan int64, 1<<62)` does not panic (the byte size wraps to 0); the check
    replays this input on the compiled program (finding `panic:make-chan-oversize`) -/
theorem makeChan_counterexample : ¬ MakeChanFull BCfg.current := by
  intro h
  have := (h 8 (2 ^ 62) (by decide) (by decide)).2 (by decide)
  rw [newChan_current_panics_iff] at this
  exact absurd this (by decide)

/-- what does hold on the unfixed tree: exact for every size whose buffer fits the allocation limit (and every negative one) -/
theorem makeChan_partial (esz n : Int) (h : n < 0 ∨ n * esz ≤ 2 ^ 48) :
    NewChan BCfg.current esz n = .error .panic ↔ ¬ chanOK esz n := by
  rw [newChan_current_panics_iff]
  unfold chanOK
  constructor
  · intro h1 h2; omega
  · intro h1; rcases h with h | h
    · exact h
    · by_cases hn : n < 0
      · exact hn
      · exact absurd ⟨by omega, h⟩ h1

example : (3 : Int) < 0 ∨ (3 : Int) * 8 ≤ 2 ^ 48 := by decide

/-- in range both configurations build the channel Go specifies: capacity `n`, room for `n` elements -/
theorem make_chan_in_range (cfg : BCfg) (esz : Int) (hesz : 0 ≤ esz ∧ esz < 2 ^ 63) (s : Bool) (a : BitVec w) (hw : w ≤ 64)
    (hok : chanOK esz (GoArith.val s a)) (hint : GoArith.val s a < 2 ^ 63) :
    NewChan cfg esz (fit s a).toInt = .ok ⟨GoArith.val s a, (GoArith.val s a * esz).toNat⟩ := by
  rw [operand_exact s a hw hint]
  exact newChan_in_range cfg esz _ hesz hok

example : chanOK 4 (GoArith.val false (200#8)) ∧ GoArith.val false (200#8) < 2 ^ 63 := by decide

/-- a negative or non-`int` size always panics, through the compiler's operand, in both configurations -/
theorem make_chan_negative (cfg : BCfg) (esz : Int) (s : Bool) (a : BitVec w) (hw : w ≤ 64)
    (hbad : GoArith.val s a < 0 ∨ 2 ^ 63 ≤ GoArith.val s a) :
    NewChan cfg esz (fit s a).toInt = .error .panic := by
  have hneg : (fit s a).toInt < 0 := by
    rcases handed_fit s a hw with h | h <;> rcases hbad with hb | hb
    · omega
    · have := toInt_lt (fit s a); omega
    · exact h.1
    · exact h.1
  rw [newChan_eq, if_pos (Or.inr hneg)]

example : GoArith.val true (255#8) < 0 ∨ 2 ^ 63 ≤ GoArith.val true (255#8) := by decide

/-- **slice → array(-pointer) conversion**: panics iff the slice is shorter than the array; otherwise the data pointer -/
theorem slice_to_array_spec (len : BitVec 64) (n : Int) (data : Nat) :
    (sliceToArray len.toInt n data = .error .panic ↔ len.toInt < n) ∧
    (n ≤ len.toInt → sliceToArray len.toInt n data = .ok data) :=
  sliceToArray_spec len.toInt n data

/-- slicing through a nil array pointer must panic (Go dereferences the pointer) -/
def NilArraySliceFull (cfg : BCfg) : Prop := ∀ p : Nat, p = 0 → nilArrayCheck cfg p = .error .panic

theorem nilArraySlice_fixed : NilArraySliceFull BCfg.fixed := by
  intro p hp; simp [nilArrayCheck, BCfg.fixed, hp]

/-- FALSE on the unfixed tree: `(*[10]int32)(nil)[:]`, `[1:2]`, `[0:0]` return a slice (finding
    `panic:nil-array-pointer-slice`, replayed on the compiled program by the check) -/
theorem nilArraySlice_counterexample : ¬ NilArraySliceFull BCfg.current := by
  intro h
  have := h 0 rfl
  simp [nilArrayCheck, BCfg.current] at this

/-- a non-nil array pointer is never rejected by the (present or absent) check -/
theorem nilArraySlice_partial (cfg : BCfg) (p : Nat) (hp : p ≠ 0) : nilArrayCheck cfg p = .ok () := by
  simp [nilArrayCheck, hp]

example : (4096 : Nat) ≠ 0 := by decide

end LlgoVerif.C03
