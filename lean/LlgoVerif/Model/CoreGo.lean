import LlgoVerif.Spec.GoArith
import LlgoVerif.Model.Utf8
import LlgoVerif.Model.SoftFloat
/-!
# CoreGo — a reference semantics for a typed core-Go fragment (property C01)

This is NOT a model of llgo: it is an independent reading of the Go specification for a fragment of the
language, used as the oracle of the translation-validation check (`checks/c01.py`).  Programs arrive *after type
checking* (the generator resolves names to slots and annotates selectors / conversions with static types and
monomorphises generics); the evaluator is dynamically typed and gets *stuck* (`Abort.stuck`) on anything a
type-correct program cannot do.

Shape of the evaluator (chosen so that `eval_fuel_mono` / `eval_deterministic` in `Props/C01.lean` are proved once,
for the whole language, by induction on the fuel):

* `step P : Task → M Ret` is ONE LAYER of big-step evaluation.  It is not recursive: whenever the semantics needs
  the result of a sub-evaluation (a sub-expression, a statement of a block, the next loop iteration, a call) it asks
  for it with `recur task`, which builds a node `Prog.call task state k` of a free monad.
* `eval (fuel+1) t s = Prog.run (eval fuel) (step t s)`: the recursive knot is tied by structural recursion on the fuel.
  `eval 0 = none` (out of fuel).  Fuel bounds the *depth* of the evaluation tree, not the number of steps.

Values are immutable trees; every variable lives in a heap cell (so closures capture by reference and `&x` is a cell
address plus a path into the value); pointers are `(cell, path)`; slices are `(pointer to backing array, off, len, cap)`.
-/
namespace LlgoVerif.CoreGo

/-! ## Syntax -/

inductive IntKind where
  | int | i8 | i16 | i32 | i64 | uint | u8 | u16 | u32 | u64 | uptr
deriving DecidableEq, Repr, Inhabited

def IntKind.width : IntKind → Nat
  | .i8 | .u8 => 8
  | .i16 | .u16 => 16
  | .i32 | .u32 => 32
  | _ => 64

def IntKind.signed : IntKind → Bool
  | .int | .i8 | .i16 | .i32 | .i64 => true
  | _ => false

inductive Ty where
  | int (k : IntKind)
  | bool
  | str
  | named (id : Nat)
  | ptr (t : Ty)
  | slice (t : Ty)
  | arr (n : Nat) (t : Ty)
  | func (sig : Nat)
  | rtErr                       -- the dynamic type of a run-time panic value (`runtime.Error`)
  | float                       -- float64: created, + - * /, compared (NaN, ±0); never printed
deriving DecidableEq, Repr, Inhabited

inductive BinOp where
  | add | sub | mul | quo | rem | and | or | xor | andNot | shl | shr | eq | ne | lt | le | gt | ge
deriving DecidableEq, Repr, Inhabited

inductive UnOp where
  | neg | not | compl
deriving DecidableEq, Repr, Inhabited

inductive NilKind where
  | ptr | slice | iface | func
deriving DecidableEq, Repr, Inhabited

/-- what an index / slice / range expression operates on (static type of the operand) -/
inductive SeqKind where
  | arr | slice | str | ptrArr
deriving DecidableEq, Repr, Inhabited

inductive Expr where
  | intLit (k : IntKind) (v : Int)
  | boolLit (b : Bool)
  | strLit (s : List Nat)
  | floatLit (bits : Nat)                             -- float64 given by its IEEE-754 bit pattern
  | nil (k : NilKind)
  | blank                                             -- `_` on the left of an assignment
  | var (x : Nat)
  | glob (g : Nat)
  | bin (op : BinOp) (a b : Expr)
  | un (op : UnOp) (a : Expr)
  | land (a b : Expr)
  | lor (a b : Expr)
  | conv (k : IntKind) (a : Expr)                     -- integer conversion
  | strOfBytes (a : Expr)
  | bytesOfStr (a : Expr)
  | strOfRune (a : Expr)
  | funcRef (f : Nat)                                 -- a top-level function as a value
  | funcLit (f : Nat)                                 -- a function literal: closure over the current environment
  | call (f : Nat) (args : List Expr)
  | callv (f : Expr) (args : List Expr)
  | mcall (recv : Expr) (t : Ty) (name : String) (args : List Expr)
  | icall (recv : Expr) (name : String) (args : List Expr)
  | mval (recv : Expr) (t : Ty) (name : String)          -- method value `x.M` (receiver bound now)
  | imval (recv : Expr) (name : String)                  -- method value of an interface value
  | structLit (fs : List Expr)
  | blankF (e : Expr)                                 -- the value of a blank (`_`) struct field: ignored by ==
  | zeroArr (n : Nat) (z : Expr)                      -- `[n]T{}`: n copies of the zero value z
  | arrLit (es : List Expr)
  | sliceLit (es : List Expr)
  | make (zero len : Expr) (cap : Option Expr)
  | new (init : Expr)
  | addr (lv : Expr)
  | deref (p : Expr)
  | sel (e : Expr) (t : Ty) (name : String)
  | index (k : SeqKind) (e i : Expr)
  | sliceOf (k : SeqKind) (e : Expr) (lo hi max : Option Expr)
  | len (k : SeqKind) (e : Expr)
  | cap (k : SeqKind) (e : Expr)
  | append (s : Expr) (es : List Expr)
  | appendSlice (s t : Expr)
  | copy (dst src : Expr)
  | toIface (t : Ty) (e : Expr)
  | assert (e : Expr) (t : Ty) (commaOk : Bool) (zero : Expr)     -- zero: the zero value of `t` (comma-ok form)
  | assertI (e : Expr) (iface : Nat) (commaOk : Bool)
  | recover
deriving Repr, Inhabited

inductive TyPat where
  | ty (t : Ty) | iface (id : Nat) | nil
deriving Repr, Inhabited

mutual
inductive Stmt where
  | decl (xs : List Nat) (es : List Expr)
  | assign (ls : List Expr) (es : List Expr)
  | opAssign (op : BinOp) (l : Expr) (e : Expr)
  | exprS (e : Expr)
  | print (nl : Bool) (es : List Expr)
  | block (ss : List Stmt)
  | ite (init : List Stmt) (c : Expr) (t e : List Stmt)
  | loop (lbl : String) (init : List Stmt) (c : Option Expr) (post : List Stmt) (body : List Stmt) (iterVars : List Nat)
  | rangeInt (lbl : String) (x : Option Nat) (n : Expr) (body : List Stmt)
  | rangeSeq (lbl : String) (k : SeqKind) (kx vx : Option Nat) (e : Expr) (body : List Stmt)
  | rangeFunc (lbl : String) (xs : List Nat) (f : Expr) (body : Nat)
  | switch (lbl : String) (init : List Stmt) (tag : Option Expr) (cases : List SwCase)
  | tswitch (lbl : String) (x : Option Nat) (e : Expr) (cases : List TsCase)
  | brk (lbl : String)
  | cont (lbl : String)
  | ret (es : List Expr)
  | defer (f : Expr) (args : List Expr)
  | panic (e : Expr)
  | exit (e : Expr)
/-- `case e1, e2: body` (`isDefault` for `default:`); `fall` = ends in `fallthrough` -/
inductive SwCase where
  | mk (isDefault : Bool) (es : List Expr) (body : List Stmt) (fall : Bool)
/-- `case T1, T2: body`; `unwrap` = the bound variable has the single concrete type of the clause -/
inductive TsCase where
  | mk (isDefault : Bool) (pats : List TyPat) (unwrap : Bool) (body : List Stmt)
end

instance : Inhabited Stmt := ⟨.block []⟩

inductive TyKind where
  | struct (fields : List (String × Ty × Bool))     -- name, type, embedded?
  | iface (methods : List String)
  | basic (t : Ty)
deriving Repr, Inhabited

structure TypeDecl where
  name : String
  kind : TyKind
deriving Repr, Inhabited

structure MethodDecl where
  tid : Nat
  name : String
  ptrRecv : Bool
  func : Nat                       -- the receiver is parameter 0 of that function
deriving Repr, Inhabited

structure FuncDecl where
  name : String
  params : List Nat
  results : List Nat               -- slots of the (named or hidden) result variables
  resultInit : List Expr           -- their zero values
  body : List Stmt
deriving Inhabited

/-- body of a `for … range f` loop, run by the synthetic `yield` function -/
structure RangeBody where
  xs : List Nat
  lbl : String
  body : List Stmt
deriving Inhabited

structure Program where
  types : Array TypeDecl
  methods : List MethodDecl
  funcs : Array FuncDecl
  rbodies : Array RangeBody
  globals : List Expr              -- initialisers of the package-level variables, in initialisation order
  main : Nat
deriving Inhabited

/-! ## Semantic domains -/

abbrev Env := List (Nat × Nat)       -- slot ↦ heap cell
abbrev Ptr := Nat × List Nat         -- heap cell, path into the value stored there

inductive FuncKind where
  | top | clo | yield
deriving DecidableEq, Repr, Inhabited

inductive Val where
  | int (k : IntKind) (v : Int)
  | bool (b : Bool)
  | str (s : List Nat)
  | struct (fs : List Val)
  | arr (es : List Val)
  | ptr (p : Option Ptr)
  | slice (base : Option Ptr) (off len cap : Nat)
  | func (f : Option (FuncKind × Nat × Env × Nat))     -- kind, function / range-body id, captured environment, token (yield)
  | iface (d : Option (Ty × Val))
  | bound (f : Nat) (recv : Val)                       -- method value: function id with its receiver
  | blank (v : Val)                                    -- content of a blank struct field
  | float (bits : Nat)                                 -- float64 as its IEEE-754 bit pattern (kernel-transparent: Model/SoftFloat.lean)
deriving Repr, Inhabited

/-- non-local completion of a statement -/
inductive Ctl where
  | brk (lbl : String) | cont (lbl : String) | ret
deriving DecidableEq, Repr, Inhabited

inductive Abort where
  | panic (v : Val)                 -- a Go panic in flight (an interface value)
  | exit (code : Int)
  | stuck (msg : String)            -- the program left the fragment / is ill-typed: a generator or model bug
deriving Repr, Inhabited

structure State where
  heap : Array Val := #[]
  out : Array Nat := #[]                               -- bytes written by print/println
  depth : Nat := 0                                     -- call depth
  defers : List (List (Val × List Val)) := []          -- one list of deferred calls per active frame
  panicking : Option (Val × Nat) := none               -- panic value, and the call depth at which `recover()` sees it
  pend : List (Nat × Ctl) := []                        -- control leaving a range-over-func body, by loop token
deriving Inhabited

inductive Task where
  | expr (e : Expr) (env : Env)
  | addr (e : Expr) (env : Env)
  | stmt (s : Stmt) (env : Env)
  | loopIter (lbl : String) (c : Option Expr) (post : List Stmt) (body : List Stmt) (iterVars : List Nat) (env : Env)
  | callFn (f : Val) (args : List Val)
deriving Inhabited

inductive Ret where
  | vals (vs : List Val)
  | ptr (p : Ptr)
  | ctl (c : Option Ctl) (env : Env)
deriving Inhabited

abbrev RawRes := Except Abort Ret × State

/-! ## The free monad of "ask for a sub-evaluation" -/

inductive Prog (α : Type) where
  | pure : α → Prog α
  | call : Task → State → (RawRes → Prog α) → Prog α

def Prog.bind {α β : Type} : Prog α → (α → Prog β) → Prog β
  | .pure a, f => f a
  | .call t s k, f => .call t s (fun r => (k r).bind f)

instance : Monad Prog where
  pure := Prog.pure
  bind := Prog.bind

/-- run one layer, answering every request for a sub-evaluation with `g` (`none` = out of fuel) -/
def Prog.run {α : Type} (g : Task → State → Option RawRes) : Prog α → Option α
  | .pure a => some a
  | .call t s k =>
    match g t s with
    | none => none
    | some r => (k r).run g

abbrev M := ExceptT Abort (StateT State Prog)

/-- evaluate `t` in the current state (one level deeper in fuel) -/
def recur (t : Task) : M Ret :=
  ExceptT.mk (fun s => Prog.call t s Prog.pure)

def stuck {α : Type} (msg : String) : M α := throw (.stuck msg)

/-! ## Pure helpers -/

def toBV (k : IntKind) (v : Int) : BitVec k.width := BitVec.ofInt k.width v
def ofBV (k : IntKind) (b : BitVec k.width) : Int := GoArith.val k.signed b

/-- the value of `v` wrapped into the range of kind `k` -/
def wrap (k : IntKind) (v : Int) : Int := ofBV k (toBV k v)

def strBytes (s : String) : List Nat := s.toUTF8.toList.map (·.toNat)

def rtPanic (msg : String) : Abort := .panic (.iface (some (.rtErr, .str (strBytes msg))))

def rtPanicM {α : Type} (msg : String) : M α := throw (.panic (.iface (some (.rtErr, .str (strBytes msg)))))

def lookupEnv (env : Env) (x : Nat) : Option Nat :=
  match env with
  | [] => none
  | (y, a) :: rest => if x = y then some a else lookupEnv rest x

def listSet {α : Type} : List α → Nat → α → Option (List α)
  | [], _, _ => none
  | _ :: xs, 0, v => some (v :: xs)
  | x :: xs, n+1, v => (listSet xs n v).map (x :: ·)

def Val.elems : Val → Option (List Val)
  | .struct fs => some fs
  | .arr es => some es
  | _ => none

def Val.withElems : Val → List Val → Val
  | .struct _, l => .struct l
  | _, l => .arr l

def getPath : Val → List Nat → Option Val
  | v, [] => some v
  | v, i :: rest =>
    match v.elems with
    | some l => match l[i]? with
      | some c => getPath c rest
      | none => none
    | none => none

def setPath : Val → List Nat → Val → Option Val
  | _, [], nv => some nv
  | v, i :: rest, nv =>
    match v.elems with
    | some l => match l[i]? with
      | some c => match setPath c rest nv with
        | some c' => (listSet l i c').map v.withElems
        | none => none
      | none => none
    | none => none

/-- IEEE-754 equality of two float64 bit patterns -/
def f64Eq (a b : Nat) : Bool := SoftFloat.cmp SoftFloat.f64 a b == .eq

def f64Lt (a b : Nat) : Bool := SoftFloat.cmp SoftFloat.f64 a b == .lt

def f64Le (a b : Nat) : Bool := SoftFloat.cmp SoftFloat.f64 a b == .lt || SoftFloat.cmp SoftFloat.f64 a b == .eq

mutual
def Val.beq : Val → Val → Bool
  | .int k a, .int k' b => k = k' && a = b
  | .bool a, .bool b => a = b
  | .str a, .str b => a = b
  | .float a, .float b => f64Eq a b                    -- IEEE: NaN is not equal to itself, +0 == -0
  | .struct a, .struct b => Val.beqList a b
  | .arr a, .arr b => Val.beqList a b
  | .ptr a, .ptr b => a = b
  | .slice a o l c, .slice a' o' l' c' => a = a' && o = o' && l = l' && c = c'   -- only used against nil
  | .func none, .func none => true
  | .iface none, .iface none => true
  | .iface (some (t, v)), .iface (some (t', v')) => t = t' && Val.beq v v'
  | .blank _, .blank _ => true                       -- blank fields do not take part in comparisons
  | _, _ => false
def Val.beqList : List Val → List Val → Bool
  | [], [] => true
  | a :: as, b :: bs => Val.beq a b && Val.beqList as bs
  | _, _ => false
end

mutual
/-- does `==` on two interface values holding this value panic ("comparing uncomparable type")?  Slices, funcs and
    anything containing them are not comparable; an interface-typed part is checked dynamically. -/
def Val.uncomparable : Val → Bool
  | .slice _ _ _ _ => true
  | .func _ => true
  | .bound _ _ => true
  | .struct fs => Val.anyUncomparable fs
  | .arr es => Val.anyUncomparable es
  | .iface (some (_, v)) => Val.uncomparable v
  | .blank _ => false
  | _ => false
def Val.anyUncomparable : List Val → Bool
  | [] => false
  | v :: vs => Val.uncomparable v || Val.anyUncomparable vs
end

mutual
/-- does the value carry a NaN in a part that `==` looks at?  (Blank fields are skipped by `==`.) -/
def Val.hasNaN : Val → Bool
  | .float b => SoftFloat.isNaN SoftFloat.f64 b
  | .struct fs => Val.anyNaN fs
  | .arr es => Val.anyNaN es
  | .iface (some (_, v)) => Val.hasNaN v
  | _ => false
def Val.anyNaN : List Val → Bool
  | [] => false
  | v :: vs => Val.hasNaN v || Val.anyNaN vs
end

def natToDigits (n : Nat) : List Nat := (toString n).toUTF8.toList.map (·.toNat)

def intToBytes (v : Int) : List Nat := (toString v).toUTF8.toList.map (·.toNat)

/-- how `print`/`println` render an operand (only ints, bools and strings are in the fragment) -/
def printBytes : Val → Option (List Nat)
  | .int _ v => some (intToBytes v)
  | .bool true => some (strBytes "true")
  | .bool false => some (strBytes "false")
  | .str s => some s
  | _ => none

def lexLt : List Nat → List Nat → Bool
  | [], [] => false
  | [], _ :: _ => true
  | _ :: _, [] => false
  | a :: as, b :: bs => if a < b then true else if b < a then false else lexLt as bs

/-- integer binary operators through the Go arithmetic specification (`Spec/GoArith.lean`) -/
def intBin (op : BinOp) (k : IntKind) (a b : Int) : Except Abort Val :=
  let x := toBV k a
  let y := toBV k b
  let s := k.signed
  match op with
  | .add => .ok (.int k (ofBV k (GoArith.add s x y)))
  | .sub => .ok (.int k (ofBV k (GoArith.sub s x y)))
  | .mul => .ok (.int k (ofBV k (GoArith.mul s x y)))
  | .quo => match GoArith.quo s x y with
    | .ok r => .ok (.int k (ofBV k r))
    | .error _ => .error (rtPanic "integer divide by zero")
  | .rem => match GoArith.rem s x y with
    | .ok r => .ok (.int k (ofBV k r))
    | .error _ => .error (rtPanic "integer divide by zero")
  | .and => .ok (.int k (ofBV k (x &&& y)))
  | .or => .ok (.int k (ofBV k (x ||| y)))
  | .xor => .ok (.int k (ofBV k (x ^^^ y)))
  | .andNot => .ok (.int k (ofBV k (x &&& ~~~y)))
  | .eq => .ok (.bool (GoArith.eq s x y))
  | .ne => .ok (.bool (!GoArith.eq s x y))
  | .lt => .ok (.bool (GoArith.lt s x y))
  | .le => .ok (.bool (GoArith.le s x y))
  | .gt => .ok (.bool (GoArith.lt s y x))
  | .ge => .ok (.bool (GoArith.le s y x))
  | _ => .error (.stuck "intBin")

/-- shifts: the count may have any integer type; a negative count panics; evaluation-safe forms of the spec -/
def intShift (left : Bool) (k : IntKind) (a : Int) (cnt : Int) : Except Abort Val :=
  if cnt < 0 then .error (rtPanic "negative shift amount")
  else
    let x := toBV k a
    let n := cnt.toNat
    if left then .ok (.int k (ofBV k (GoArith.shlE x n)))
    else .ok (.int k (ofBV k (GoArith.shrE k.signed x n)))

def binop (op : BinOp) (a b : Val) : Except Abort Val :=
  match op, a, b with
  | .shl, .int k x, .int _ c => intShift true k x c
  | .shr, .int k x, .int _ c => intShift false k x c
  | op, .int k x, .int k' y => if k = k' then intBin op k x y else .error (.stuck "binop: int kinds differ")
  | .add, .str x, .str y => .ok (.str (x ++ y))
  | .eq, .str x, .str y => .ok (.bool (x = y))
  | .ne, .str x, .str y => .ok (.bool (x ≠ y))
  | .lt, .str x, .str y => .ok (.bool (lexLt x y))
  | .le, .str x, .str y => .ok (.bool (!lexLt y x))
  | .gt, .str x, .str y => .ok (.bool (lexLt y x))
  | .ge, .str x, .str y => .ok (.bool (!lexLt x y))
  | .add, .float x, .float y => .ok (.float (SoftFloat.add SoftFloat.f64 x y))
  | .sub, .float x, .float y => .ok (.float (SoftFloat.sub SoftFloat.f64 x y))
  | .mul, .float x, .float y => .ok (.float (SoftFloat.mul SoftFloat.f64 x y))
  | .quo, .float x, .float y => .ok (.float (SoftFloat.div SoftFloat.f64 x y))
  | .lt, .float x, .float y => .ok (.bool (f64Lt x y))
  | .le, .float x, .float y => .ok (.bool (f64Le x y))
  | .gt, .float x, .float y => .ok (.bool (f64Lt y x))
  | .ge, .float x, .float y => .ok (.bool (f64Le y x))
  | .eq, .iface (some (t, v)), .iface (some (t', v')) =>
    if t = t' && Val.uncomparable v then .error (rtPanic "comparing uncomparable type") else .ok (.bool (t = t' && Val.beq v v'))
  | .ne, .iface (some (t, v)), .iface (some (t', v')) =>
    if t = t' && Val.uncomparable v then .error (rtPanic "comparing uncomparable type") else .ok (.bool (!(t = t' && Val.beq v v')))
  | .eq, x, y => .ok (.bool (Val.beq x y))
  | .ne, x, y => .ok (.bool (!Val.beq x y))
  | _, _, _ => .error (.stuck "binop: operands")

def unop (op : UnOp) (a : Val) : Except Abort Val :=
  match op, a with
  | .neg, .int k x => .ok (.int k (ofBV k (GoArith.neg k.signed (toBV k x))))
  | .compl, .int k x => .ok (.int k (ofBV k (~~~ (toBV k x))))
  | .not, .bool b => .ok (.bool (!b))
  | _, _ => .error (.stuck "unop: operand")

/-! ### Type declarations: fields and methods with promotion through embedded structs -/

def structFields (P : Program) (id : Nat) : List (String × Ty × Bool) :=
  match P.types[id]? with
  | some ⟨_, .struct fs⟩ => fs
  | _ => []

def findIdx {α : Type} (p : α → Bool) : List α → Nat → Option Nat
  | [], _ => none
  | a :: as, i => if p a then some i else findIdx p as (i + 1)

/-- one step of a selector path: into field `i` of a struct value, or through a pointer (embedded `*T`) -/
inductive PStep where
  | fld (i : Nat)
  | deref
deriving DecidableEq, Repr, Inhabited

def isIface (P : Program) (id : Nat) : Bool :=
  match P.types[id]? with
  | some ⟨_, .iface _⟩ => true
  | _ => false

def ifaceMethods (P : Program) (id : Nat) : List String :=
  match P.types[id]? with
  | some ⟨_, .iface ms⟩ => ms
  | _ => []

/-- fields named `name` at exactly embedding depth `d` of struct type `id`: all paths (embedded `T` and `*T`) -/
def fieldPaths (P : Program) : Nat → Nat → String → List (List PStep)
  | 0, id, name =>
    match findIdx (fun f => f.1 == name) (structFields P id) 0 with
    | some i => [[.fld i]]
    | none => []
  | d+1, id, name =>
    let rec go (fs : List (String × Ty × Bool)) (i : Nat) : List (List PStep) :=
      match fs with
      | [] => []
      | (_, .named id', true) :: rest => (fieldPaths P d id' name).map (.fld i :: ·) ++ go rest (i + 1)
      | (_, .ptr (.named id'), true) :: rest => (fieldPaths P d id' name).map (fun q => .fld i :: .deref :: q) ++ go rest (i + 1)
      | _ :: rest => go rest (i + 1)
    go (structFields P id) 0

/-- Go's selector rule: the shallowest depth at which the name occurs; it must occur exactly once there -/
def findField (P : Program) (id : Nat) (name : String) : Option (List PStep) :=
  let rec go (fuel d : Nat) : Option (List PStep) :=
    match fuel with
    | 0 => none
    | fuel+1 =>
      match fieldPaths P d id name with
      | [p] => some p
      | [] => go fuel (d + 1)
      | _ => none
  go (P.types.size + 1) 0

def ownMethod (P : Program) (id : Nat) (name : String) : Option MethodDecl :=
  P.methods.find? (fun m => m.tid = id && m.name == name)

/-- what a method selector resolves to: a declared method, or dynamic dispatch on an embedded interface value -/
inductive MFound where
  | decl (m : MethodDecl)
  | viaIface
deriving Repr, Inhabited

/-- methods named `name` at exactly embedding depth `d`: (path to the embedded receiver, what is found there) -/
def methodPaths (P : Program) : Nat → Nat → String → List (List PStep × MFound)
  | 0, id, name =>
    match ownMethod P id name with
    | some m => [([], .decl m)]
    | none => []
  | d+1, id, name =>
    let rec go (fs : List (String × Ty × Bool)) (i : Nat) : List (List PStep × MFound) :=
      match fs with
      | [] => []
      | (_, .named id', true) :: rest =>
        (if isIface P id' then
           (if d = 0 && (ifaceMethods P id').contains name then [([PStep.fld i], MFound.viaIface)] else [])
         else (methodPaths P d id' name).map (fun pm => (PStep.fld i :: pm.1, pm.2))) ++ go rest (i + 1)
      | (_, .ptr (.named id'), true) :: rest =>
        (methodPaths P d id' name).map (fun pm => (PStep.fld i :: PStep.deref :: pm.1, pm.2)) ++ go rest (i + 1)
      | _ :: rest => go rest (i + 1)
    go (structFields P id) 0

/-- a field at a shallower or equal depth hides / clashes with a promoted method; the generator never creates such
    clashes, so only methods are searched here -/
def findMethod (P : Program) (id : Nat) (name : String) : Option (List PStep × MFound) :=
  let rec go (fuel d : Nat) : Option (List PStep × MFound) :=
    match fuel with
    | 0 => none
    | fuel+1 =>
      match methodPaths P d id name with
      | [pm] => some pm
      | [] => go fuel (d + 1)
      | _ => none
  go (P.types.size + 1) 0

/-- does dynamic type `t` have method `name` in its method set? -/
def hasMethod (P : Program) (t : Ty) (name : String) : Bool :=
  match t with
  | .named id => match findMethod P id name with
    | some (path, .decl m) => !m.ptrRecv || path.contains .deref     -- through an embedded *T the pointer methods count
    | some (_, .viaIface) => true
    | none => false
  | .ptr (.named id) => (findMethod P id name).isSome
  | .rtErr => name == "Error" || name == "RuntimeError"
  | _ => false

def implements (P : Program) (t : Ty) (iface : Nat) : Bool :=
  (ifaceMethods P iface).all (hasMethod P t)

/-! ## Monadic helpers (inside one layer) -/

def liftE {α : Type} (x : Except Abort α) : M α :=
  match x with
  | .ok a => pure a
  | .error e => throw e

def getSt : M State := get
def modSt (f : State → State) : M Unit := modify f

def alloc (v : Val) : M Nat := do
  let s ← getSt
  set { s with heap := s.heap.push v }
  pure s.heap.size

def load (p : Ptr) : M Val := do
  let s ← getSt
  match s.heap[p.1]? with
  | some c => match getPath c p.2 with
    | some v => pure v
    | none => stuck "load: bad path"
  | none => stuck "load: bad cell"

def store (p : Ptr) (v : Val) : M Unit := do
  let s ← getSt
  match s.heap[p.1]? with
  | some c => match setPath c p.2 v with
    | some c' => set { s with heap := s.heap.set! p.1 c' }
    | none => stuck "store: bad path"
  | none => stuck "store: bad cell"

def emit (bs : List Nat) : M Unit := modSt fun s => { s with out := s.out ++ bs.toArray }

def eval1 (e : Expr) (env : Env) : M Val := do
  match ← recur (.expr e env) with
  | .vals [v] => pure v
  | _ => stuck "single value expected"

def evalN (e : Expr) (env : Env) : M (List Val) := do
  match ← recur (.expr e env) with
  | .vals vs => pure vs
  | _ => stuck "values expected"

def evalAddr (e : Expr) (env : Env) : M Ptr := do
  match ← recur (.addr e env) with
  | .ptr p => pure p
  | _ => stuck "pointer expected"

def evalList (env : Env) : List Expr → M (List Val)
  | [] => pure []
  | e :: es => do
    let v ← eval1 e env
    let vs ← evalList env es
    pure (v :: vs)

/-- argument lists: `f(g())` with a multi-valued `g` spreads -/
def evalArgs (env : Env) (es : List Expr) : M (List Val) :=
  match es with
  | [e] => evalN e env
  | es => evalList env es

def callVal (f : Val) (args : List Val) : M (List Val) := do
  match ← recur (.callFn f args) with
  | .vals vs => pure vs
  | _ => stuck "callFn result"

def execStmt (s : Stmt) (env : Env) : M (Option Ctl × Env) := do
  match ← recur (.stmt s env) with
  | .ctl c env' => pure (c, env')
  | _ => stuck "stmt result"

/-- a statement list in its own scope position: declarations extend the environment for the following statements -/
def execList : List Stmt → Env → M (Option Ctl × Env)
  | [], env => pure (none, env)
  | s :: ss, env => do
    let (c, env') ← execStmt s env
    match c with
    | none => execList ss env'
    | some c => pure (some c, env')

/-- a block: the environment extensions are dropped at its end -/
def execBlock (ss : List Stmt) (env : Env) : M (Option Ctl) := do
  let (c, _) ← execList ss env
  pure c

def asInt (v : Val) : M Int :=
  match v with
  | .int _ n => pure n
  | _ => stuck "integer expected"

def asBool (v : Val) : M Bool :=
  match v with
  | .bool b => pure b
  | _ => stuck "bool expected"

def bindFresh : List Nat → List Val → Env → M Env
  | [], [], env => pure env
  | x :: xs, v :: vs, env => do
    let a ← alloc v
    bindFresh xs vs ((x, a) :: env)
  | _, _, _ => stuck "arity mismatch"

def envAddr (env : Env) (x : Nat) : M Nat :=
  match lookupEnv env x with
  | some a => pure a
  | none => stuck s!"unbound variable {x}"

/-- the pointer to element `i` of what a sequence value denotes; bounds-checked -/
def elemPtr (base : Ptr) (off len : Nat) (i : Int) : M Ptr :=
  if i < 0 ∨ i ≥ len then rtPanicM "index out of range"
  else pure (base.1, base.2 ++ [off + i.toNat])

def sliceElems (base : Option Ptr) (off len : Nat) : M (List Val) := do
  match base with
  | none => pure []
  | some b =>
    match ← load b with
    | .arr es => pure ((es.drop off).take len)
    | _ => stuck "slice base is not an array"

/-- write `vs` into the backing array starting at element `at` -/
def writeElems (b : Ptr) (at_ : Nat) (vs : List Val) : M Unit := do
  match ← load b with
  | .arr es => store b (.arr (es.take at_ ++ vs ++ es.drop (at_ + vs.length)))
  | _ => stuck "slice base is not an array"

/-- `append(s, vs...)`: in place when the capacity suffices, else a fresh backing array.  The new capacity is not fixed
    by the Go specification; generated programs never observe it (the generator only prints `cap` of slices whose
    capacity the specification determines) nor depend on whether two appends share storage unless that is determined. -/
def appendVals (s : Val) (vs : List Val) : M Val := do
  match s with
  | .slice base off len cap =>
    if vs.isEmpty then pure s
    else if len + vs.length ≤ cap then
      match base with
      | some b => do
        writeElems b (off + len) vs
        pure (.slice base off (len + vs.length) cap)
      | none => stuck "append: nil base with capacity"
    else do
      let old ← sliceElems base off len
      let n := len + vs.length
      let ncap := if n ≤ 2 * cap then 2 * cap else n
      -- the spare capacity is filled with copies of an existing element's zero-shape; it is never read before written
      let filler := match vs with | v :: _ => v | [] => Val.bool false
      let a ← alloc (.arr (old ++ vs ++ List.replicate (ncap - n) filler))
      pure (.slice (some (a, [])) 0 n ncap)
  | _ => stuck "append: not a slice"

def sliceBounds (lo hi max : Option Int) (len cap : Nat) (isStr : Bool) : M (Nat × Nat × Nat) := do
  let l := lo.getD 0
  let limit : Int := if isStr then len else cap
  let h := hi.getD len
  let m := max.getD limit
  if l < 0 ∨ h < l ∨ m < h ∨ m > limit then rtPanicM "slice bounds out of range"
  else pure (l.toNat, h.toNat, m.toNat)

def optEval (env : Env) : Option Expr → M (Option Int)
  | none => pure none
  | some e => do
    let v ← eval1 e env
    let n ← asInt v
    pure (some n)

/-- the `(base pointer, off, len, cap)` view of a sliceable operand -/
def seqView (k : SeqKind) (e : Expr) (env : Env) : M (Option Ptr × Nat × Nat × Nat) := do
  match k with
  | .slice =>
    match ← eval1 e env with
    | .slice b o l c => pure (b, o, l, c)
    | _ => stuck "slice expected"
  | .arr => do
    let p ← evalAddr e env
    match ← load p with
    | .arr es => pure (some p, 0, es.length, es.length)
    | _ => stuck "array expected"
  | .ptrArr =>
    match ← eval1 e env with
    | .ptr (some p) =>
      match ← load p with
      | .arr es => pure (some p, 0, es.length, es.length)
      | _ => stuck "array expected"
    | .ptr none => rtPanicM "invalid memory address or nil pointer dereference"
    | _ => stuck "pointer expected"
  | .str => stuck "seqView: string"

def commaOk (ok : Bool) (v : Val) (zero : Val) (two : Bool) (failMsg : String) : M Ret :=
  if two then pure (.vals [if ok then v else zero, .bool ok])
  else if ok then pure (.vals [v])
  else rtPanicM failMsg

/-- where a selector walk currently is: inside a value that is not addressable, or at an addressable place -/
inductive Loc where
  | val (v : Val)
  | ptr (p : Ptr)
deriving Inhabited

def Loc.get : Loc → M Val
  | .val v => pure v
  | .ptr p => load p

def nilDeref {α : Type} : M α := rtPanicM "invalid memory address or nil pointer dereference"

/-- follow a selector path (fields of embedded structs, dereferences of embedded pointers) -/
def walk : Loc → List PStep → M Loc
  | l, [] => pure l
  | .ptr p, .fld i :: rest => walk (.ptr (p.1, p.2 ++ [i])) rest
  | .val v, .fld i :: rest =>
    match v.elems with
    | some l => match l[i]? with
      | some c => walk (.val c) rest
      | none => stuck "walk: field index"
    | none => stuck "walk: not a struct"
  | l, .deref :: rest => do
    match ← l.get with
    | .ptr (some q) => walk (.ptr q) rest
    | .ptr none => nilDeref
    | _ => stuck "walk: pointer expected"

section
variable (P : Program)

/-- resolve a method selector to (function id, receiver value): promotion through embedded structs, embedded pointers and
    embedded interfaces; interface values dispatch on their dynamic type.  `fuel` bounds the chain of interface hops. -/
def resolve : Nat → Ty → Loc → String → M (Nat × Val)
  | 0, _, _, _ => stuck "resolve: out of fuel"
  | fuel+1, t, loc, name => do
    -- the struct type whose method set is searched, and the location of that struct
    let target : Option (Nat × Loc) ← (match t with
      | .ptr (.named id) => do
        match ← loc.get with
        | .ptr (some p) => pure (some (id, Loc.ptr p))
        | .ptr none => pure none
        | _ => stuck "resolve: pointer receiver expected"
      | .named id => pure (some (id, loc))
      | _ => stuck "resolve: receiver type")
    match t, target with
    | .ptr (.named id), none =>
      -- a nil *T receiver is fine for T's own pointer-receiver methods
      match findMethod P id name with
      | some ([], .decl m) => if m.ptrRecv then pure (m.func, Val.ptr none) else nilDeref
      | _ => nilDeref
    | _, none => stuck "resolve"
    | _, some (id, sloc) =>
      if isIface P id then do
        match ← sloc.get with
        | .iface (some (t', v')) => resolve fuel t' (.val v') name
        | .iface none => nilDeref
        | _ => stuck "resolve: interface value expected"
      else
        match findMethod P id name with
        | none => stuck s!"no method {name}"
        | some (path, found) => do
          let l ← walk sloc path
          match found with
          | .decl m =>
            if m.ptrRecv then
              match l with
              | .ptr q => pure (m.func, Val.ptr (some q))
              | .val _ => stuck "pointer-receiver method on a value that is not addressable"
            else do
              let r ← l.get
              pure (m.func, r)
          | .viaIface => do
            match ← l.get with
            | .iface (some (t', v')) => resolve fuel t' (.val v') name
            | .iface none => nilDeref
            | _ => stuck "resolve: embedded interface value expected"

/-- does `x.name` (x of struct type `id`) need the address of `x`? -/
def needsAddr (id : Nat) (name : String) : Bool :=
  match findMethod P id name with
  | some (path, .decl m) => m.ptrRecv && !path.contains .deref
  | _ => false

end

/-- decode the string `s` into `(byte index, rune)` pairs as `for i, r := range s` sees them -/
def runesOf : Nat → Nat → List Nat → List (Nat × Nat)
  | 0, _, _ => []
  | _, _, [] => []
  | fuel+1, i, s =>
    let p := Utf8.nextRune s
    (i, p.1) :: runesOf fuel (i + p.2) (s.drop p.2)

/-- does a loop / switch labelled `lbl` absorb this `break`? -/
def absorbsBrk (lbl : String) : Option Ctl → Bool
  | some (.brk l) => l == "" || l == lbl
  | _ => false

def absorbsCont (lbl : String) : Option Ctl → Bool
  | some (.cont l) => l == "" || l == lbl
  | _ => false

/-- after a loop body: `none` = go on with the next iteration, `some c` = leave the loop with completion `c` -/
def afterBody (lbl : String) (c : Option Ctl) : Option (Option Ctl) :=
  if c.isNone || absorbsCont lbl c then none
  else if absorbsBrk lbl c then some none
  else some c

/-- reserved environment key under which a frame keeps the cells of its result variables -/
def resultsKey : Nat := 1000000007

/-! ## One layer of evaluation -/

section
variable (P : Program)

/-- the receiver operand of `recv.name`: its address when a pointer-receiver method is selected on an addressable struct
    operand, else its value -/
def recvLoc (recv : Expr) (t : Ty) (name : String) (env : Env) : M Loc := do
  match t with
  | .named id =>
    if !isIface P id && needsAddr P id name then do
      let p ← evalAddr recv env
      pure (.ptr p)
    else do
      let v ← eval1 recv env
      pure (.val v)
  | _ => do
    let v ← eval1 recv env
    pure (.val v)

def stepExpr (e : Expr) (env : Env) : M Ret := do
  match e with
  | .intLit k v => pure (.vals [.int k (wrap k v)])
  | .boolLit b => pure (.vals [.bool b])
  | .strLit s => pure (.vals [.str s])
  | .floatLit bits => pure (.vals [.float (bits % 2 ^ 64)])
  | .nil .ptr => pure (.vals [.ptr none])
  | .nil .slice => pure (.vals [.slice none 0 0 0])
  | .nil .iface => pure (.vals [.iface none])
  | .nil .func => pure (.vals [.func none])
  | .blank => stuck "blank as a value"
  | .var x => do
    let a ← envAddr env x
    let v ← load (a, [])
    pure (.vals [v])
  | .glob g => do
    let v ← load (g, [])
    pure (.vals [v])
  | .bin op a b => do
    let x ← eval1 a env
    let y ← eval1 b env
    let r ← liftE (binop op x y)
    pure (.vals [r])
  | .un op a => do
    let x ← eval1 a env
    let r ← liftE (unop op x)
    pure (.vals [r])
  | .land a b => do
    let x ← eval1 a env
    if ← asBool x then do
      let y ← eval1 b env
      pure (.vals [y])
    else pure (.vals [.bool false])
  | .lor a b => do
    let x ← eval1 a env
    if ← asBool x then pure (.vals [.bool true])
    else do
      let y ← eval1 b env
      pure (.vals [y])
  | .conv k a => do
    match ← eval1 a env with
    | .int k0 v => pure (.vals [.int k (ofBV k (GoArith.conv k0.signed k.width (toBV k0 v)))])
    | _ => stuck "conv: operand"
  | .strOfBytes a => do
    match ← eval1 a env with
    | .slice b o l _ => do
      let es ← sliceElems b o l
      let bs ← es.mapM asInt
      pure (.vals [.str (bs.map Int.toNat)])
    | _ => stuck "string([]byte): operand"
  | .bytesOfStr a => do
    match ← eval1 a env with
    | .str s =>
      if s.isEmpty then pure (.vals [.slice none 0 0 0])   -- len 0; nil-ness of the result is not observed
      else do
        let cell ← alloc (.arr (s.map fun (b : Nat) => Val.int .u8 (b : Int)))
        pure (.vals [.slice (some (cell, [])) 0 s.length s.length])
    | _ => stuck "[]byte(string): operand"
  | .strOfRune a => do
    match ← eval1 a env with
    | .int k v =>
      -- string(r): the UTF-8 encoding of r; values outside the valid range give U+FFFD
      let r : Nat := if v < 0 ∨ v > 0x10FFFF then 0xFFFD else v.toNat
      let _ := k
      pure (.vals [.str (Utf8.encodeRune r)])
    | _ => stuck "string(rune): operand"
  | .funcRef f => pure (.vals [.func (some (.top, f, [], 0))])
  | .funcLit f => pure (.vals [.func (some (.clo, f, env, 0))])
  | .call f args => do
    let vs ← evalArgs env args
    let r ← callVal (.func (some (.top, f, [], 0))) vs
    pure (.vals r)
  | .callv f args => do
    let fv ← eval1 f env
    let vs ← evalArgs env args
    let r ← callVal fv vs
    pure (.vals r)
  | .mcall recv t name args => do
    let loc ← recvLoc P recv t name env
    let (fid, r) ← resolve P (P.types.size + 2) t loc name
    let vs ← evalArgs env args
    pure (.vals (← callVal (.func (some (.top, fid, [], 0))) (r :: vs)))
  | .icall recv name args => do
    match ← eval1 recv env with
    | .iface none => nilDeref
    | .iface (some (t', v')) => do
      let (fid, r) ← resolve P (P.types.size + 2) t' (.val v') name
      let vs ← evalArgs env args
      pure (.vals (← callVal (.func (some (.top, fid, [], 0))) (r :: vs)))
    | _ => stuck "icall: receiver"
  | .mval recv t name => do
    let loc ← recvLoc P recv t name env
    let (fid, r) ← resolve P (P.types.size + 2) t loc name
    pure (.vals [.bound fid r])
  | .imval recv name => do
    match ← eval1 recv env with
    | .iface none => nilDeref
    | .iface (some (t', v')) => do
      let (fid, r) ← resolve P (P.types.size + 2) t' (.val v') name
      pure (.vals [.bound fid r])
    | _ => stuck "imval: receiver"
  | .structLit fs => do
    let vs ← evalList env fs
    pure (.vals [.struct vs])
  | .blankF e => do
    let v ← eval1 e env
    pure (.vals [.blank v])
  | .zeroArr n z => do
    let v ← eval1 z env
    pure (.vals [.arr (List.replicate n v)])
  | .arrLit es => do
    let vs ← evalList env es
    pure (.vals [.arr vs])
  | .sliceLit es => do
    let vs ← evalList env es
    let a ← alloc (.arr vs)
    pure (.vals [.slice (some (a, [])) 0 vs.length vs.length])
  | .make zero len cap => do
    let z ← eval1 zero env
    let n ← asInt (← eval1 len env)
    let c ← match cap with
      | some ce => do asInt (← eval1 ce env)
      | none => pure n
    if n < 0 then rtPanicM "makeslice: len out of range"
    else if c < n then rtPanicM "makeslice: cap out of range"
    else do
      let a ← alloc (.arr (List.replicate c.toNat z))
      pure (.vals [.slice (some (a, [])) 0 n.toNat c.toNat])
  | .new init => do
    let v ← eval1 init env
    let a ← alloc v
    pure (.vals [.ptr (some (a, []))])
  | .addr lv => do
    let p ← evalAddr lv env
    pure (.vals [.ptr (some p)])
  | .deref p => do
    match ← eval1 p env with
    | .ptr (some q) => do
      let v ← load q
      pure (.vals [v])
    | .ptr none => rtPanicM "invalid memory address or nil pointer dereference"
    | _ => stuck "deref: pointer expected"
  | .sel e t name => do
    match t with
    | .ptr (.named id) =>
      match findField P id name with
      | none => stuck s!"no field {name}"
      | some path =>
        match ← eval1 e env with
        | .ptr (some p) => do
          let l ← walk (.ptr p) path
          pure (.vals [← l.get])
        | .ptr none => nilDeref
        | _ => stuck "sel: pointer expected"
    | .named id =>
      match findField P id name with
      | none => stuck s!"no field {name}"
      | some path => do
        let v ← eval1 e env
        let l ← walk (.val v) path
        pure (.vals [← l.get])
    | _ => stuck "sel: type"
  | .index k e i => do
    match k with
    | .str =>
      match ← eval1 e env with
      | .str s => do
        let n ← asInt (← eval1 i env)
        if n < 0 ∨ n ≥ s.length then rtPanicM "index out of range"
        else pure (.vals [.int .u8 (s.getD n.toNat 0)])
      | _ => stuck "index: string expected"
    | .arr => do
      -- the operand need not be addressable (`f()[i]`): index the value
      match ← eval1 e env with
      | .arr es => do
        let n ← asInt (← eval1 i env)
        if n < 0 ∨ n ≥ es.length then rtPanicM "index out of range"
        else match es[n.toNat]? with
          | some v => pure (.vals [v])
          | none => stuck "index"
      | _ => stuck "index: array expected"
    | _ => do
      let p ← evalAddr (.index k e i) env
      let v ← load p
      pure (.vals [v])
  | .sliceOf k e lo hi max => do
    match k with
    | .str =>
      match ← eval1 e env with
      | .str s => do
        let l ← optEval env lo
        let h ← optEval env hi
        let (a, b, _) ← sliceBounds l h none s.length s.length true
        pure (.vals [.str ((s.drop a).take (b - a))])
      | _ => stuck "slice: string expected"
    | _ => do
      let (b, o, len, cap) ← seqView k e env
      let l ← optEval env lo
      let h ← optEval env hi
      let m ← optEval env max
      let (x, y, z) ← sliceBounds l h m len cap false
      pure (.vals [.slice b (o + x) (y - x) (z - x)])
  | .len k e => do
    match k, ← eval1 e env with
    | _, .str s => pure (.vals [.int .int s.length])
    | _, .slice _ _ l _ => pure (.vals [.int .int l])
    | _, .arr es => pure (.vals [.int .int es.length])
    | _, .ptr (some p) =>
      match ← load p with
      | .arr es => pure (.vals [.int .int es.length])
      | _ => stuck "len: pointer to array expected"
    | _, _ => stuck "len: operand"
  | .cap _ e => do
    match ← eval1 e env with
    | .slice _ _ _ c => pure (.vals [.int .int c])
    | .arr es => pure (.vals [.int .int es.length])
    | _ => stuck "cap: operand"
  | .append s es => do
    let sv ← eval1 s env
    let vs ← evalList env es
    let r ← appendVals sv vs
    pure (.vals [r])
  | .appendSlice s t => do
    let sv ← eval1 s env
    match ← eval1 t env with
    | .slice b o l _ => do
      let vs ← sliceElems b o l
      let r ← appendVals sv vs
      pure (.vals [r])
    | .str bs => do
      let r ← appendVals sv (bs.map fun (b : Nat) => Val.int .u8 (b : Int))
      pure (.vals [r])
    | _ => stuck "append(s, t...): operand"
  | .copy dst src => do
    match ← eval1 dst env with
    | .slice db dof dl _ => do
      let vs ← match ← eval1 src env with
        | .slice b o l _ => sliceElems b o l
        | .str bs => pure (bs.map fun (b : Nat) => Val.int .u8 (b : Int))
        | _ => stuck "copy: source"
      let n := min dl vs.length
      match db with
      | some b => do
        if n > 0 then writeElems b dof (vs.take n)
        pure (.vals [.int .int n])
      | none => pure (.vals [.int .int 0])
    | _ => stuck "copy: destination"
  | .toIface t e => do
    let v ← eval1 e env
    pure (.vals [.iface (some (t, v))])
  | .assert e t two zero => do
    match ← eval1 e env with
    | .iface (some (t', v)) =>
      if t' = t then commaOk true v v two ""
      else do
        let z ← if two then eval1 zero env else pure (Val.iface none)
        commaOk false v z two "interface conversion: type assertion failed"
    | .iface none => do
      let z ← if two then eval1 zero env else pure (Val.iface none)
      commaOk false z z two "interface conversion: interface is nil"
    | _ => stuck "assert: interface expected"
  | .assertI e id two => do
    match ← eval1 e env with
    | .iface (some (t', v)) =>
      commaOk (implements P t' id) (.iface (some (t', v))) (.iface none) two "interface conversion: missing method"
    | .iface none => commaOk false (.iface none) (.iface none) two "interface conversion: interface is nil"
    | _ => stuck "assertI: interface expected"
  | .recover => do
    let s ← getSt
    match s.panicking with
    | some (v, d) =>
      if d = s.depth then do
        set { s with panicking := none }
        pure (.vals [v])
      else pure (.vals [.iface none])
    | none => pure (.vals [.iface none])

def stepAddr (e : Expr) (env : Env) : M Ret := do
  match e with
  | .var x => do
    let a ← envAddr env x
    pure (.ptr (a, []))
  | .glob g => pure (.ptr (g, []))
  | .deref p => do
    match ← eval1 p env with
    | .ptr (some q) => pure (.ptr q)
    | .ptr none => rtPanicM "invalid memory address or nil pointer dereference"
    | _ => stuck "addr deref: pointer expected"
  | .sel e t name => do
    match t with
    | .ptr (.named id) =>
      match findField P id name with
      | none => stuck s!"no field {name}"
      | some path =>
        match ← eval1 e env with
        | .ptr (some p) => do
          match ← walk (.ptr p) path with
          | .ptr q => pure (.ptr q)
          | .val _ => stuck "addr sel"
        | .ptr none => nilDeref
        | _ => stuck "addr sel: pointer expected"
    | .named id =>
      match findField P id name with
      | none => stuck s!"no field {name}"
      | some path => do
        -- through an embedded pointer the operand itself need not be addressable, but generated operands always are
        let p ← evalAddr e env
        match ← walk (.ptr p) path with
        | .ptr q => pure (.ptr q)
        | .val _ => stuck "addr sel"
    | _ => stuck "addr sel: type"
  | .index k e i => do
    match k with
    | .arr => do
      let p ← evalAddr e env
      let n ← asInt (← eval1 i env)
      match ← load p with
      | .arr es => do
        let q ← elemPtr p 0 es.length n
        pure (.ptr q)
      | _ => stuck "addr index: array expected"
    | .slice => do
      match ← eval1 e env with
      | .slice b o l _ => do
        let n ← asInt (← eval1 i env)
        match b with
        | some bp => do
          let q ← elemPtr bp o l n
          pure (.ptr q)
        | none => rtPanicM "index out of range"
      | _ => stuck "addr index: slice expected"
    | .ptrArr => do
      match ← eval1 e env with
      | .ptr (some p) => do
        let n ← asInt (← eval1 i env)
        match ← load p with
        | .arr es => do
          let q ← elemPtr p 0 es.length n
          pure (.ptr q)
        | _ => stuck "addr index: array expected"
      | .ptr none => rtPanicM "invalid memory address or nil pointer dereference"
      | _ => stuck "addr index: pointer expected"
    | .str => stuck "addr index: string"
  | _ => stuck "not addressable"

/-- phase 1 of an assignment: the operands of the left-hand sides -/
def lhsPtrs (env : Env) : List Expr → M (List (Option Ptr))
  | [] => pure []
  | .blank :: ls => do
    let rest ← lhsPtrs env ls
    pure (none :: rest)
  | l :: ls => do
    let p ← evalAddr l env
    let rest ← lhsPtrs env ls
    pure (some p :: rest)

/-- phase 2: the stores, left to right -/
def storeAll : List (Option Ptr) → List Val → M Unit
  | [], [] => pure ()
  | none :: ps, _ :: vs => storeAll ps vs
  | some p :: ps, v :: vs => do
    store p v
    storeAll ps vs
  | _, _ => stuck "assignment arity"

def printArgs (nl : Bool) : List Val → Bool → M Unit
  | [], _ => pure ()
  | v :: vs, first => do
    match printBytes v with
    | some bs => do
      if nl && !first then emit [32]
      emit bs
      printArgs nl vs false
    | none => stuck "print: operand kind outside the fragment"

def matchPat (d : Option (Ty × Val)) : TyPat → Bool
  | .nil => d.isNone
  | .ty t => match d with
    | some (t', _) => t' = t
    | none => false
  | .iface id => match d with
    | some (t', _) => implements P t' id
    | none => false

/-- index of the clause a switch selects (tag compared left to right, top to bottom), else the default clause -/
def selectCase (env : Env) (tag : Option Val) : List SwCase → Nat → M (Option Nat)
  | [], _ => pure none
  | .mk true _ _ _ :: rest, i => selectCase env tag rest (i + 1)
  | .mk false es _ _ :: rest, i => do
    let rec tryExprs : List Expr → M Bool
      | [] => pure false
      | e :: es => do
        let v ← eval1 e env
        let hit ← match tag with
          | some t => do
            match ← liftE (binop .eq t v) with
            | .bool b => pure b
            | _ => stuck "switch compare"
          | none => asBool v
        if hit then pure true else tryExprs es
    if ← tryExprs es then pure (some i) else selectCase env tag rest (i + 1)

def defaultIdx : List SwCase → Nat → Option Nat
  | [], _ => none
  | .mk true _ _ _ :: _, i => some i
  | _ :: rest, i => defaultIdx rest (i + 1)

/-- run clause bodies from the selected one, following `fallthrough` -/
def runCases (env : Env) : List SwCase → M (Option Ctl)
  | [] => pure none
  | .mk _ _ body fall :: rest => do
    let c ← execBlock body env
    match c with
    | none => if fall then runCases env rest else pure none
    | some c => pure (some c)

def selectTs (d : Option (Ty × Val)) : List TsCase → Option TsCase
  | [] => none
  | .mk true ps u b :: rest =>
    match selectTs d rest with
    | some c => some c
    | none => some (.mk true ps u b)
  | .mk false ps u b :: rest =>
    if ps.any (matchPat P d) then some (.mk false ps u b)
    else selectTs d rest

/-- per-iteration copies of the loop variables (Go 1.22 `for` semantics) -/
def copyIterVars (env : Env) : List Nat → M Env
  | [] => pure env
  | x :: xs => do
    let a ← envAddr env x
    let v ← load (a, [])
    let a' ← alloc v
    copyIterVars ((x, a') :: env) xs

def rangeLoop (lbl : String) (body : List Stmt) (env : Env) (bindIter : Nat → M (Option Env)) : Nat → Nat → M (Option Ctl)
  | 0, _ => pure none
  | fuel+1, i => do
    match ← bindIter i with
    | none => pure none
    | some env' => do
      let c ← execBlock body env'
      match afterBody lbl c with
      | none => rangeLoop lbl body env bindIter fuel (i + 1)
      | some c' => pure c'

def bindOpt (x : Option Nat) (v : Val) (env : Env) : M Env :=
  match x with
  | some x => do
    let a ← alloc v
    pure ((x, a) :: env)
  | none => pure env

def stepStmt (s : Stmt) (env : Env) : M Ret := do
  match s with
  | .decl xs es => do
    let vs ← evalArgs env es
    let env' ← bindFresh xs vs env
    pure (.ctl none env')
  | .assign ls es => do
    let ps ← lhsPtrs env ls
    let vs ← evalArgs env es
    storeAll ps vs
    pure (.ctl none env)
  | .opAssign op l e => do
    let p ← evalAddr l env
    let old ← load p
    let v ← eval1 e env
    let r ← liftE (binop op old v)
    store p r
    pure (.ctl none env)
  | .exprS e => do
    let _ ← evalN e env
    pure (.ctl none env)
  | .print nl es => do
    let vs ← evalList env es
    printArgs nl vs true
    if nl then emit [10]
    pure (.ctl none env)
  | .block ss => do
    let c ← execBlock ss env
    pure (.ctl c env)
  | .ite init c t e => do
    let (c0, env') ← execList init env
    match c0 with
    | some c0 => pure (.ctl (some c0) env)
    | none =>
      if ← asBool (← eval1 c env') then do
        pure (.ctl (← execBlock t env') env)
      else do
        pure (.ctl (← execBlock e env') env)
  | .loop lbl init c post body iterVars => do
    let (c0, env') ← execList init env
    match c0 with
    | some c0 => pure (.ctl (some c0) env)
    | none =>
      match ← recur (.loopIter lbl c post body iterVars env') with
      | .ctl r _ => pure (.ctl r env)
      | _ => stuck "loop result"
  | .rangeInt lbl x n body => do
    let nv ← eval1 n env
    match nv with
    | .int k cnt =>
      let c ← rangeLoop lbl body env (fun i =>
        if (i : Int) < cnt then do
          let env' ← bindOpt x (.int k i) env
          pure (some env')
        else pure none) cnt.toNat 0
      pure (.ctl c env)
    | _ => stuck "range int: operand"
  | .rangeSeq lbl k kx vx e body => do
    match k with
    | .str =>
      match ← eval1 e env with
      | .str s =>
        let items := runesOf s.length 0 s
        let c ← rangeLoop lbl body env (fun i =>
          match items[i]? with
          | some (bi, r) => do
            let env1 ← bindOpt kx (.int .int bi) env
            let env2 ← bindOpt vx (.int .i32 r) env1
            pure (some env2)
          | none => pure none) items.length 0
        pure (.ctl c env)
      | _ => stuck "range string: operand"
    | .arr => do
      -- the range expression is evaluated once; for an array that is a copy
      match ← eval1 e env with
      | .arr es =>
        let c ← rangeLoop lbl body env (fun i =>
          match es[i]? with
          | some v => do
            let env1 ← bindOpt kx (.int .int i) env
            let env2 ← bindOpt vx v env1
            pure (some env2)
          | none => pure none) es.length 0
        pure (.ctl c env)
      | _ => stuck "range array: operand"
    | _ => do
      -- slices and pointers to arrays: the length is fixed at loop entry, the elements are read live
      let (b, o, len, _) ← seqView k e env
      let c ← rangeLoop lbl body env (fun i =>
        if i < len then do
          let env1 ← bindOpt kx (.int .int i) env
          match vx, b with
          | some x, some bp => do
            let v ← load (bp.1, bp.2 ++ [o + i])
            let env2 ← bindOpt (some x) v env1
            pure (some env2)
          | some _, none => stuck "range: nil base with positive length"
          | none, _ => pure (some env1)
        else pure none) len 0
      pure (.ctl c env)
  | .rangeFunc lbl _ f body => do
    let fv ← eval1 f env
    -- a token identifying this execution of the loop: a fresh heap cell
    let tok ← alloc (.bool false)
    let _ ← callVal fv [.func (some (.yield, body, env, tok))]
    let s ← getSt
    match s.pend.find? (fun p => p.1 = tok) with
    | some (_, c) => do
      set { s with pend := s.pend.filter (fun p => p.1 ≠ tok) }
      match afterBody lbl (some c) with
      | some c' => pure (.ctl c' env)
      | none => pure (.ctl none env)
    | none => pure (.ctl none env)
  | .switch lbl init tag cases => do
    let (c0, env') ← execList init env
    match c0 with
    | some c0 => pure (.ctl (some c0) env)
    | none => do
      let tv ← match tag with
        | some t => do
          let v ← eval1 t env'
          pure (some v)
        | none => pure none
      let sel ← selectCase env' tv cases 0
      let idx := match sel with
        | some i => some i
        | none => defaultIdx cases 0
      match idx with
      | none => pure (.ctl none env)
      | some i => do
        let c ← runCases env' (cases.drop i)
        if absorbsBrk lbl c then pure (.ctl none env) else pure (.ctl c env)
  | .tswitch lbl x e cases => do
    match ← eval1 e env with
    | .iface d =>
      match selectTs P d cases with
      | none => pure (.ctl none env)
      | some (.mk _ _ unwrap body) => do
        let bound : Val := match unwrap, d with
          | true, some (_, v) => v
          | _, _ => .iface d
        let env' ← bindOpt x bound env
        let c ← execBlock body env'
        if absorbsBrk lbl c then pure (.ctl none env) else pure (.ctl c env)
    | _ => stuck "type switch: interface expected"
  | .brk lbl => pure (.ctl (some (.brk lbl)) env)
  | .cont lbl => pure (.ctl (some (.cont lbl)) env)
  | .ret es => do
    -- `return` with operands assigns the result variables; they are read after the deferred calls have run.
    -- Result slots are stored under the reserved key of the frame: see `stepCall`.
    match es with
    | [] => pure (.ctl (some .ret) env)
    | _ => do
      let vs ← evalArgs env es
      match lookupEnv env resultsKey with
      | some fr => do
        match ← load (fr, []) with
        | .arr cells => do
          let ptrs ← cells.mapM (fun c => match c with
            | .ptr (some p) => pure (some p)
            | _ => (stuck "result cell" : M (Option Ptr)))
          storeAll ptrs vs
          pure (.ctl (some .ret) env)
        | _ => stuck "frame cell"
      | none => stuck "return outside a function"
  | .defer f args => do
    let fv ← eval1 f env
    let vs ← evalList env args
    let st ← getSt
    match st.defers with
    | fr :: rest => do
      set { st with defers := ((fv, vs) :: fr) :: rest }
      pure (.ctl none env)
    | [] => stuck "defer outside a function"
  | .panic e => do
    let v ← eval1 e env
    match v with
    | .iface none => rtPanicM "panic called with nil argument"
    | _ => throw (.panic v)
  | .exit e => do
    let v ← asInt (← eval1 e env)
    throw (.exit v)

def stepLoopIter (lbl : String) (c : Option Expr) (post body : List Stmt) (iterVars : List Nat) (env : Env) : M Ret := do
  let go ← match c with
    | some ce => do asBool (← eval1 ce env)
    | none => pure true
  if !go then pure (.ctl none env)
  else do
    let r ← execBlock body env
    match afterBody lbl r with
    | some r' => pure (.ctl r' env)
    | none => do
      let env' ← copyIterVars env iterVars
      let (pc, _) ← execList post env'
      match pc with
      | some pc => pure (.ctl (some pc) env)
      | none => recur (.loopIter lbl c post body iterVars env')

/-- run the deferred calls of the current frame, newest first.  `cur` is the panic in flight (if any). -/
def runDefers (depth : Nat) : List (Val × List Val) → Option Val → M (Option Val)
  | [], cur => pure cur
  | (f, args) :: rest, cur => do
    let st ← getSt
    let saved := st.panicking
    set { st with panicking := cur.map (fun v => (v, depth + 1)) }
    let r ← tryCatch (do let _ ← callVal f args; pure (none : Option Abort)) (fun a => pure (some a))
    let st' ← getSt
    let recovered := cur.isSome && st'.panicking.isNone
    set { st' with panicking := saved }
    match r with
    | none => runDefers depth rest (if recovered then none else cur)
    | some (.panic v) => runDefers depth rest (some v)      -- a new panic replaces the one in flight
    | some a => throw a

def stepCall (f0 : Val) (args0 : List Val) : M Ret := do
  let (f, args) : Val × List Val := match f0 with
    | .bound fid r => (Val.func (some (.top, fid, [], 0)), r :: args0)
    | _ => (f0, args0)
  match f with
  | .func none => rtPanicM "invalid memory address or nil pointer dereference"
  | .func (some (.yield, bid, env, tok)) =>
    -- the synthetic yield function of a range-over-func loop: run the loop body in the loop's environment
    match P.rbodies[bid]? with
    | none => stuck "range body id"
    | some rb => do
      let st ← getSt
      if (st.pend.find? (fun p => p.1 = tok)).isSome then rtPanicM "range function continued iteration after function for loop body returned false"
      else do
        let env' ← bindFresh rb.xs (args.take rb.xs.length) env
        let c ← execBlock rb.body env'
        if c.isNone || absorbsCont rb.lbl c then pure (.vals [.bool true])
        else match c with
          | some c => do
            modSt fun s => { s with pend := (tok, c) :: s.pend }
            pure (.vals [.bool false])
          | none => pure (.vals [.bool true])
  | .func (some (_, fid, cenv, _)) =>
    match P.funcs[fid]? with
    | none => stuck "function id"
    | some fd => do
      let env1 ← bindFresh fd.params args cenv
      let zs ← evalList env1 fd.resultInit
      let env2 ← bindFresh fd.results zs env1
      let cells ← fd.results.mapM (fun x => do
        let a ← envAddr env2 x
        pure (Val.ptr (some (a, []))))
      let fr ← alloc (.arr cells)
      let env3 : Env := (resultsKey, fr) :: env2
      let st ← getSt
      let depth := st.depth + 1
      set { st with depth := depth, defers := [] :: st.defers }
      let r ← tryCatch (do let c ← execBlock fd.body env3; pure (Except.ok c : Except Abort (Option Ctl)))
                        (fun a => pure (Except.error a))
      let st1 ← getSt
      let (mine, rest) := match st1.defers with
        | fr :: rest => (fr, rest)
        | [] => ([], [])
      -- the frame's list is consumed; deferred calls run in their own frames
      set { st1 with defers := rest }
      let cur ← match r with
        | .ok (some (.brk _)) | .ok (some (.cont _)) => stuck "break/continue leaving a function"
        | .ok _ => pure (none : Option Val)
        | .error (.panic v) => pure (some v)
        | .error a => throw a
      let cur' ← runDefers depth mine cur
      modSt fun s => { s with depth := depth - 1 }
      match cur' with
      | some v => throw (.panic v)
      | none => do
        let vs ← fd.results.mapM (fun x => do
          let a ← envAddr env2 x
          load (a, []))
        pure (.vals vs)
  | _ => stuck "call of a non-function"

def step (t : Task) : M Ret :=
  match t with
  | .expr e env => stepExpr P e env
  | .addr e env => stepAddr P e env
  | .stmt s env => stepStmt P s env
  | .loopIter lbl c post body iv env => stepLoopIter lbl c post body iv env
  | .callFn f args => stepCall P f args

/-- the layer as a program of the free monad, from a given state -/
def stepRun (t : Task) (s : State) : Prog RawRes := ((step P t).run).run s

/-- the fuel-indexed big-step evaluator: `none` = out of fuel -/
def eval : Nat → Task → State → Option RawRes
  | 0, _, _ => none
  | n+1, t, s => (stepRun P t s).run (eval n)

end

/-! ## Whole programs -/

inductive Termination where
  | normal
  | exit (code : Int)
  | panic (msg : List Nat)          -- uncaught panic: what follows `panic: ` on stderr; exit status 2
deriving DecidableEq, Repr, Inhabited

structure Outcome where
  out : Array Nat
  term : Termination
deriving DecidableEq, Repr, Inhabited

/-- text printed after `panic: ` for an uncaught panic value (strings, ints, run-time errors) -/
def panicText : Val → List Nat
  | .iface (some (.rtErr, .str s)) => strBytes "runtime error: " ++ s
  | .iface (some (_, .str s)) => s
  | .iface (some (_, .int _ v)) => intToBytes v
  | .iface (some (_, .bool b)) => strBytes (if b then "true" else "false")
  | _ => strBytes "?"

/-- run the initialisers of the package-level variables (cells `0 … n-1`), then `main` -/
def initTask (P : Program) : Task :=
  -- a synthetic function value cannot be built without a declaration, so globals are initialised by a block
  -- of `decl` statements whose cells are the first allocations: global `g` lives in cell `g`.
  .stmt (.block ((P.globals.map fun _ => Stmt.decl [0] [.boolLit false])
    ++ (P.globals.zipIdx.map fun (e, g) => Stmt.assign [.glob g] [e])
    ++ [Stmt.exprS (.call P.main [])])) []

def run (P : Program) (fuel : Nat) : Option (Except String Outcome) :=
  match eval P fuel (initTask P) {} with
  | none => none
  | some (.ok _, s) => some (.ok ⟨s.out, .normal⟩)
  | some (.error (.panic v), s) => some (.ok ⟨s.out, .panic (panicText v)⟩)
  | some (.error (.exit c), s) => some (.ok ⟨s.out, .exit c⟩)
  | some (.error (.stuck m), _) => some (.error m)

end LlgoVerif.CoreGo
