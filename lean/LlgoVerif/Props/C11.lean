import LlgoVerif.Lemmas.Sema
import LlgoVerif.Lemmas.AtomicValue
import LlgoVerif.Spec.Atomics
import LlgoVerif.Gen.C11Atomics
/-!
# C11 — goroutines, sync primitives and atomics keep their guarantees under contention

Property theorems only.  Model: `Model/Sema.lean` (llgo's semaphore and notify list, `runtime/internal/lib/runtime/
sema_llgo.go`, as a transition system over ANY number of threads, any programs, any interleaving at lock / atomic /
wait granularity, spurious wake-ups and the environment's choice of the thread a `Signal` wakes included).
`Reachable cfg (init v progs) s` = "`s` is reached by some schedule from the initial state with count `v` and thread
programs `progs`"; every theorem below quantifies over all of them (induction over the step sequence).

`Cfg.current` is the pinned tree; `Cfg.fixed` the tree after `/verif/fixes/C11-1.diff` (ticket comparison in
`notifyListWait`, broadcast in `NotifyOne`) and `C11-2.diff` (retry after a failed CAS in `semaAcquire`).  Statements
that are false for `Cfg.current` stay visible as `def … : Prop` with a `…_counterexample` (a concrete schedule,
replayed on the real code by `checks/c11.py`) and a `…_partial`.

Atomics: `Gen/C11Atomics.lean` is regenerated on every run from the IR llgo emits; `atomics_lowering` /
`atomics_complete` are `decide` over that whole table.  Indivisibility and the single total order of `seq_cst`
instructions are LLVM's and the hardware's: trusted, not proved.
-/
namespace LlgoVerif.C11
open LlgoVerif.Sema LlgoVerif.Atomics

/-! ## helpers for concrete witnesses -/

/-- a state reached by running a concrete schedule, with a decidable property read off it -/
theorem of_run {cfg : Cfg} {s0 : State} (as : List Action) (p : State → Bool)
    (h : (run cfg s0 as).map p = some true) : ∃ s, Reachable cfg s0 s ∧ p s = true := by
  cases hr : run cfg s0 as with
  | none => simp [hr] at h
  | some s =>
    simp only [hr, Option.map_some, Option.some.injEq] at h
    exact ⟨s, run_reachable as s0 s .refl hr, h⟩

/-! ## 1. Semaphore -/

/-- **permits are conserved**: under every interleaving, `count + completed acquires = initial + releases`. -/
theorem permits_conserved (cfg : Cfg) (v : Nat) (progs : List (List Op)) (s : State)
    (h : Reachable cfg (init v progs) s) : s.sh.val + s.sh.acquired = v + s.sh.released :=
  (baseInv_reachable h).cons

/-- hence never more acquires complete than the initial count plus the releases issued so far -/
theorem acquires_bounded (cfg : Cfg) (v : Nat) (progs : List (List Op)) (s : State)
    (h : Reachable cfg (init v progs) s) : s.sh.acquired ≤ v + s.sh.released := by
  have := permits_conserved cfg v progs s h; omega

/-- **an acquire completes only on a positive count**: the history holds one entry per completed acquire, and every
    entry (the count the successful CAS replaced) is positive. -/
theorem acquire_needs_release (cfg : Cfg) (v : Nat) (progs : List (List Op)) (s : State)
    (h : Reachable cfg (init v progs) s) :
    s.sh.acqSaw.length = s.sh.acquired ∧ ∀ c ∈ s.sh.acqSaw, 0 < c :=
  (baseInv_reachable h).saw

example : ∃ s, Reachable Cfg.current (init 1 [[.acquire, .release], [.acquire, .release]]) s ∧
    (s.sh.acquired == 2 && s.sh.released == 2 && s.sh.val == 1) = true :=
  of_run [.step 0 0, .step 0 0, .step 0 0, .step 1 0, .step 0 0, .step 0 0, .step 1 0, .step 1 0, .step 1 0, .step 1 0]
    _ (by decide)

/-- a thread is asleep in the semaphore's `Cond.Wait` -/
def SomeoneAsleep (s : State) : Prop := ∃ (i : Nat) (t : Thread), s.threads[i]? = some t ∧ t.pc = .aWait

/-- a wake-up or re-check is pending: a releaser between its `Add` and its `Signal`, a woken sleeper, or the holder of
    the semaphore's mutex about to (re-)read the count -/
def WakePending (s : State) : Prop :=
  ∃ (j : Nat) (t : Thread), s.threads[j]? = some t ∧
    (t.pc = .rGet ∨ t.pc = .rLock ∨ t.pc = .aWoken ∨ t.pc = .aLoad2 ∨ ∃ v, t.pc = .aCas2 v)

/-- `st.waiters` counts exactly the threads between `waiters++` and `waiters--`, so `semaRelease`'s test
    `if st.waiters != 0` never skips a sleeper. -/
theorem waiters_counted (cfg : Cfg) (v : Nat) (progs : List (List Op)) (s : State)
    (h : Reachable cfg (init v progs) s) (hc : cfg.casRetry = true ∨ s.sh.maxVal ≤ 1) :
    s.sh.waiters = total mW s.threads :=
  (semInv_reachable h hc).wc

/-- **Full statement (no lost wake-up)**: whenever the count is positive while a thread sleeps in the semaphore, a
    wake-up or a re-check of the count is pending — a sleeper is never left behind with a permit available. -/
def NoLostWakeup (cfg : Cfg) : Prop :=
  ∀ (v : Nat) (progs : List (List Op)) (s : State), Reachable cfg (init v progs) s →
    0 < s.sh.val → SomeoneAsleep s → WakePending s

theorem wakePending_of_total {s : State} (h : 0 < total mP s.threads) : WakePending s := by
  obtain ⟨j, t, hj, ht⟩ := total_pos mP s.threads h
  refine ⟨j, t, hj, ?_⟩
  unfold mP at ht
  split at ht <;> simp_all

theorem asleep_total {s : State} (h : SomeoneAsleep s) : 0 < total mWt s.threads := by
  obtain ⟨i, t, hi, ht⟩ := h
  exact total_pos_of_mem mWt s.threads i t hi (by simp [mWt, ht])

/-- … it holds for the repaired loop (`fixes/C11-2.diff`), for all interleavings and thread counts -/
theorem no_lost_wakeup_fixed (cfg : Cfg) (hc : cfg.casRetry = true) : NoLostWakeup cfg := by
  intro v progs s hr hv hs
  have := (semInv_reachable hr (Or.inl hc)).lw (asleep_total hs)
  exact wakePending_of_total (by omega)

/-- … and for the pinned code in every run in which the count never exceeded 1 (a binary semaphore, the way
    `sync.Mutex` uses it): `maxVal` is the largest count seen so far. -/
theorem no_lost_wakeup_partial (cfg : Cfg) (v : Nat) (progs : List (List Op)) (s : State)
    (hr : Reachable cfg (init v progs) s) (hmax : s.sh.maxVal ≤ 1) :
    0 < s.sh.val → SomeoneAsleep s → WakePending s := by
  intro hv hs
  have := (semInv_reachable hr (Or.inr hmax)).lw (asleep_total hs)
  exact wakePending_of_total (by omega)

/-- the hypothesis is satisfiable on a non-trivial run: two threads contend for a binary semaphore, one sleeps -/
example : ∃ s, Reachable Cfg.current (init 0 [[.acquire], [.release]]) s ∧
    (decide (s.sh.maxVal ≤ 1) && decide (0 < s.sh.val) && s.threads.any (fun t => t.pc == .aWait)) = true :=
  of_run [.step 0 0, .step 0 0, .step 0 0, .step 0 0, .step 1 0] _ (by decide)

/-- … but it is FALSE for the pinned code: `if v != 0 && CAS(addr, v, v-1)` falls through to `waiters++; Wait` also
    when the CAS merely lost a race.  Count 3, three acquirers: thread 1 reaches the locked loop, reads 2, thread 2
    takes a permit, thread 1's CAS fails and it goes to sleep with count 1 — every other thread is finished. -/
theorem no_lost_wakeup_counterexample : ¬ NoLostWakeup Cfg.current := by
  intro h
  obtain ⟨s, hr, hp⟩ := of_run (cfg := Cfg.current) (s0 := init 3 [[.acquire], [.acquire], [.acquire]])
    [.step 0 0, .step 1 0, .step 0 0, .step 1 0, .step 1 0, .step 1 0, .step 1 0, .step 2 0, .step 2 0, .step 1 0]
    (fun s => decide (s.sh.val = 1) && decide (s.threads.map (·.pc) = [.done, .aWait, .done])) (by decide)
  simp only [Bool.and_eq_true, decide_eq_true_eq] at hp
  obtain ⟨hv, hpcs⟩ := hp
  have hlen : s.threads.length = 3 := by
    have := congrArg List.length hpcs; simpa using this
  obtain ⟨j, t, hj, ht⟩ := h 3 _ s hr (by omega) ⟨1, s.threads[1], by simp [hlen], by
    have := congrArg (fun l => l[1]?) hpcs
    simp [hlen] at this
    exact this⟩
  have hjl : j < 3 := by
    have := (List.getElem?_eq_some_iff.mp hj).1; omega
  have hpc : (s.threads.map (·.pc))[j]? = some t.pc := by simp [hj]
  rw [hpcs] at hpc
  have : j = 0 ∨ j = 1 ∨ j = 2 := by omega
  rcases this with rfl | rfl | rfl <;> simp at hpc <;> rw [← hpc] at ht <;> simp at ht

/-! ## 2. Notify list -/

/-- **Full statement**: `notifyListWait(t)` returns only when `notify > t` at that moment, i.e. only after a
    `NotifyOne`/`NotifyAll` that covers ticket `t` (`rets` = the history of returns: thread, ticket, `notify` read). -/
def WaitReturnsOnlyAfterNotify (cfg : Cfg) : Prop :=
  ∀ (v : Nat) (progs : List (List Op)) (s : State), Reachable cfg (init v progs) s →
    ∀ r ∈ s.sh.rets, r.2.1 < r.2.2

/-- FALSE for the pinned code (`for notify == t`): two waiters, nobody ever notifies, the second waiter (ticket 1,
    `notify` 0) returns. -/
theorem wait_returns_only_after_notify_counterexample : ¬ WaitReturnsOnlyAfterNotify Cfg.current := by
  intro h
  obtain ⟨s, hr, hp⟩ := of_run (cfg := Cfg.current) (s0 := init 0 [[.wait], [.wait]])
    [.step 0 0, .step 1 0, .step 1 0, .step 1 0, .step 1 0]
    (fun s => decide ((1, 1, 0) ∈ s.sh.rets)) (by decide)
  have := h 0 _ s hr (1, 1, 0) (by simpa using hp)
  simp at this

/-- what the pinned code does guarantee: a return happens only when `notify ≠ ticket` … -/
theorem wait_returns_only_if_notify_differs (cfg : Cfg) (hc : cfg.ticketLess = false) (v : Nat)
    (progs : List (List Op)) (s : State) (h : Reachable cfg (init v progs) s) :
    ∀ r ∈ s.sh.rets, r.2.2 ≠ r.2.1 := by
  intro r hr
  have := ((baseInv_reachable h).rets r hr).1
  simpa [keepWaiting, hc] using this

/-- … which is the full statement as long as at most one ticket has been drawn (a single waiter): for every
    interleaving with any number of notifiers. -/
theorem wait_returns_only_after_notify_partial (cfg : Cfg) (v : Nat) (progs : List (List Op)) (s : State)
    (h : Reachable cfg (init v progs) s) (h1 : s.sh.wait ≤ 1) : ∀ r ∈ s.sh.rets, r.2.1 < r.2.2 := by
  intro r hr
  obtain ⟨hk, hlt⟩ := (baseInv_reachable h).rets r hr
  have ht : r.2.1 = 0 := by omega
  unfold keepWaiting at hk
  split at hk
  · simpa using hk
  · have : r.2.2 ≠ r.2.1 := by simpa using hk
    omega

example : ∃ s, Reachable Cfg.current (init 0 [[.wait], [.notifyAll]]) s ∧
    (decide (s.sh.wait ≤ 1) && decide (s.sh.rets = [(0, 0, 1)])) = true :=
  of_run [.step 0 0, .step 0 0, .step 0 0, .step 0 0, .step 1 0, .step 1 0, .step 1 0, .step 1 0, .step 0 0, .step 0 0] _
    (by decide)

/-- the full statement holds for the repaired loop (`fixes/C11-1.diff`: wait while `¬ (t < notify)`). -/
theorem wait_returns_only_after_notify_fixed (cfg : Cfg) (hc : cfg.ticketLess = true) :
    WaitReturnsOnlyAfterNotify cfg := by
  intro v progs s h r hr
  have := ((baseInv_reachable h).rets r hr).1
  simpa [keepWaiting, hc] using this

/-- **Full statement (notifications reach their tickets)**: nobody stays asleep on the notify list with a ticket that
    has been notified. -/
def NotifyReachesTicket (cfg : Cfg) : Prop :=
  ∀ (v : Nat) (progs : List (List Op)) (s : State), Reachable cfg (init v progs) s →
    ∀ t ∈ s.threads, ∀ tk, t.pc = .wWait tk → s.sh.notify ≤ tk

/-- with the ticket comparison repaired but `NotifyOne` still doing `Signal`, pthreads may wake the waiter with
    ticket 1 (which goes back to sleep) and leave ticket 0 asleep although `notify = 1`: this is why the repair also
    turns the `Signal` into a `Broadcast`. -/
theorem notify_reaches_ticket_counterexample : ¬ NotifyReachesTicket ⟨true, false, true⟩ := by
  intro h
  obtain ⟨s, hr, hp⟩ := of_run (cfg := ⟨true, false, true⟩) (s0 := init 0 [[.wait], [.wait], [.notifyOne]])
    [.step 0 0, .step 0 0, .step 0 0, .step 0 0, .step 1 0, .step 1 0, .step 1 0, .step 1 0,
     .step 2 0, .step 2 0, .step 2 0, .step 2 0, .step 2 1]
    (fun s => decide (s.sh.notify = 1) && decide (s.threads[0]?.map (fun (t : Thread) => t.pc) = some (Pc.wWait 0)))
    (by decide)
  simp only [Bool.and_eq_true, decide_eq_true_eq] at hp
  obtain ⟨hn, hpc⟩ := hp
  cases ht : s.threads[0]? with
  | none => simp [ht] at hpc
  | some t =>
    simp [ht] at hpc
    have := h 0 _ s hr t (List.mem_of_getElem? ht) 0 hpc
    omega

/-- the repaired notify list: every interleaving, any number of waiters and notifiers. -/
theorem notify_reaches_ticket_fixed (cfg : Cfg) (h1 : cfg.ticketLess = true) (h2 : cfg.oneBroadcast = true) :
    NotifyReachesTicket cfg := by
  intro v progs s hr
  exact reachable_induction (fun s => AllT (NoStale s.sh.notify) s.threads) (noStale_init v progs)
    (fun _ _ _ h hn => noStale_next h1 h2 h hn) s hr

/-! ## 3. Atomics: the regenerated lowering table -/

/-- `Fn.all` lists every entry point -/
theorem fn_all_complete : ∀ f : Fn, f ∈ Fn.all := by
  intro f; cases f <;> decide

/-- **every `sync/atomic` entry point lowers to a single atomic instruction of the right operation and width with
    `seq_cst` ordering** (strong `cmpxchg`, default scope, natural alignment, no other memory access) — over the WHOLE
    table regenerated from the IR of the llgo built from the working tree. -/
theorem atomics_lowering : ∀ e ∈ Gen.C11.table, e.ok = true := by decide

/-- … and the table has a row for every entry point -/
theorem atomics_complete : ∀ f ∈ Fn.all, (Gen.C11.table.any fun e => e.fn == f) = true := by decide

/-! ## 4. `atomic.Value` (`runtime/internal/lib/sync/atomic/value.go`): the first-store protocol

Model: `Model/AtomicValue.lean` — `Store`, `Load`, `Swap`, `CompareAndSwap` at atomic-access granularity (type word
`nil → firstStoreInProgress → real type`, data word), any number of threads, any programs, every interleaving. -/

/-- **A `Load` (or the old value of a `Swap`) never yields a (type, data) pair that nobody stored**: it observes either
    nothing (`nil`, not recorded) or a value that some `Store`/`Swap`/`CompareAndSwap` call of the programs passed in,
    completely — in particular never a real type word next to the initial `nil` data word. -/
theorem value_load_observes_stored (progs : List (List AValue.Op)) (s : AValue.State)
    (h : AValue.Reachable (AValue.init progs) s) : ∀ v ∈ s.sh.observed, v ∈ AValue.offered progs :=
  fun v hv => (AValue.written_offered h).2 v ((AValue.inv_reachable h).i5 v hv)

/-- the published type word always comes with a data word stored under that type, and it never changes again -/
theorem value_published_complete (progs : List (List AValue.Op)) (s : AValue.State)
    (h : AValue.Reachable (AValue.init progs) s) (τ : Nat) (hτ : s.sh.typ = .real τ) :
    (τ, s.sh.data) ∈ AValue.offered progs :=
  (AValue.written_offered h).2 _ ((AValue.inv_reachable h).i1 τ hτ)

/-- only the thread whose CAS won is inside the first store -/
theorem value_first_store_exclusive (progs : List (List AValue.Op)) (s : AValue.State)
    (h : AValue.Reachable (AValue.init progs) s) (j k : Nat) (u w : AValue.Thread)
    (hu : s.threads[j]? = some u) (hw : s.threads[k]? = some w)
    (fu : AValue.inFirstStore u = true) (fw : AValue.inFirstStore w = true) : j = k := by
  have a := ((AValue.inv_reachable h).i6 j u hu fu).2
  have b := ((AValue.inv_reachable h).i6 k w hw fw).2
  rw [a] at b
  simpa using b

/-- a concrete contended run: the first `Store` is interrupted after the data word, a `Load` sees nothing, a second
    `Store` spins, the `Load` after publication sees the complete value -/
example : ∃ s, AValue.Reachable (AValue.init [[.store (1, 5)], [.load, .load], [.store (1, 7)]]) s ∧
    s.sh.observed = [(1, 5)] ∧ s.sh.typ = .real 1 := by
  have hr : AValue.run (AValue.init [[.store (1, 5)], [.load, .load], [.store (1, 7)]]) [0, 0, 0, 1, 2, 0, 1, 1] =
      some ⟨⟨.real 1, 5, [(1, 5)], [(1, 5)], some 0⟩,
        [⟨.done, [], 1⟩, ⟨.done, [], 2⟩, ⟨.sLoad (1, 7), [], 0⟩]⟩ := by decide
  exact ⟨_, AValue.run_reachable _ _ _ .refl hr, rfl, rfl⟩

end LlgoVerif.C11
