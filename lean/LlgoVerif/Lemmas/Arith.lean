import LlgoVerif.Model.LLVM
import LlgoVerif.Spec.GoArith
/-! Width-generic lemmas for C02: (1) Go's Int-level definitions equal the BitVec operations, (2) each shape of
    straight-line IR that `ssa/expr.go` emits computes the Go-specified result. Used by the regenerated obligations in Gen/C02*.lean. -/
set_option linter.unusedSimpArgs false
namespace LlgoVerif.Arith
open LlgoVerif LlgoVerif.LLVM

/-! ### spec bridges: Go's Int-level definition = the BitVec operation -/

theorem ofInt_val (s : Bool) (x : BitVec w) : BitVec.ofInt w (GoArith.val s x) = x := by
  cases s <;> simp [GoArith.val]

theorem add_spec (s : Bool) (x y : BitVec w) : GoArith.add s x y = x + y := by
  simp [GoArith.add, BitVec.ofInt_add, ofInt_val]
theorem sub_spec (s : Bool) (x y : BitVec w) : GoArith.sub s x y = x - y := by
  rw [GoArith.sub, Int.sub_eq_add_neg, BitVec.ofInt_add, BitVec.ofInt_neg, ofInt_val, ofInt_val, BitVec.sub_eq_add_neg]
theorem mul_spec (s : Bool) (x y : BitVec w) : GoArith.mul s x y = x * y := by
  simp [GoArith.mul, BitVec.ofInt_mul, ofInt_val]
theorem neg_spec (s : Bool) (x : BitVec w) : GoArith.neg s x = -x := by
  simp [GoArith.neg, BitVec.ofInt_neg, ofInt_val]

theorem val_eq_zero (s : Bool) (x : BitVec w) : GoArith.val s x = 0 ↔ x = 0#w := by
  cases s
  · simp [GoArith.val]; constructor
    · intro h; exact BitVec.eq_of_toNat_eq (by simpa using h)
    · intro h; simp [h]
  · simp [GoArith.val]; constructor
    · intro h; exact BitVec.eq_of_toInt_eq (by simpa using h)
    · intro h; simp [h]

theorem quo_signed (x y : BitVec w) :
    GoArith.quo true x y = if y = 0#w then .error .divZero else .ok (x.sdiv y) := by
  unfold GoArith.quo
  by_cases h : y = 0#w
  · simp [h, GoArith.val]
  · have h' : ¬ GoArith.val true y = 0 := by rw [val_eq_zero]; exact h
    simp only [h, h', if_false]
    congr 1
    apply BitVec.eq_of_toInt_eq
    simp [GoArith.val, BitVec.toInt_sdiv]

theorem rem_signed (x y : BitVec w) :
    GoArith.rem true x y = if y = 0#w then .error .divZero else .ok (x.srem y) := by
  unfold GoArith.rem
  by_cases h : y = 0#w
  · simp [h, GoArith.val]
  · have h' : ¬ GoArith.val true y = 0 := by rw [val_eq_zero]; exact h
    simp only [h, h', if_false]
    congr 1
    show BitVec.ofInt w (x.toInt.tmod y.toInt) = x.srem y
    rw [← BitVec.toInt_srem x y]
    exact BitVec.ofInt_toInt

theorem quo_unsigned (x y : BitVec w) :
    GoArith.quo false x y = if y = 0#w then .error .divZero else .ok (x / y) := by
  unfold GoArith.quo
  by_cases h : y = 0#w
  · simp [h, GoArith.val]
  · have h' : ¬ GoArith.val false y = 0 := by rw [val_eq_zero]; exact h
    simp only [h, h', if_false]
    congr 1
    apply BitVec.eq_of_toNat_eq
    simp only [GoArith.val, Bool.false_eq_true, if_false, BitVec.toNat_udiv]
    rw [← Int.ofNat_tdiv, BitVec.ofInt_natCast, BitVec.toNat_ofNat]
    apply Nat.mod_eq_of_lt
    exact Nat.lt_of_le_of_lt (Nat.div_le_self _ _) x.isLt

theorem rem_unsigned (x y : BitVec w) :
    GoArith.rem false x y = if y = 0#w then .error .divZero else .ok (x % y) := by
  unfold GoArith.rem
  by_cases h : y = 0#w
  · simp [h, GoArith.val]
  · have h' : ¬ GoArith.val false y = 0 := by rw [val_eq_zero]; exact h
    simp only [h, h', if_false]
    congr 1
    apply BitVec.eq_of_toNat_eq
    simp only [GoArith.val, Bool.false_eq_true, if_false, BitVec.toNat_umod]
    rw [← Int.ofNat_tmod, BitVec.ofInt_natCast, BitVec.toNat_ofNat]
    apply Nat.mod_eq_of_lt
    exact Nat.lt_of_le_of_lt (Nat.mod_le _ _) x.isLt

/-! ### shifts: evaluation-safe forms = the mathematical definitions -/

theorem ofInt_two_pow (w n : Nat) : BitVec.ofInt w ((2 : Int) ^ n) = BitVec.twoPow w n := by
  apply BitVec.eq_of_toNat_eq
  have : ((2 : Int) ^ n) = ((2 ^ n : Nat) : Int) := by norm_cast
  rw [this, BitVec.ofInt_natCast, BitVec.toNat_ofNat, BitVec.toNat_twoPow]

theorem shl_spec (s : Bool) (x : BitVec w) (n : Nat) : GoArith.shlMath s x n = GoArith.shlE x n := by
  unfold GoArith.shlMath GoArith.shlE
  rw [BitVec.ofInt_mul, ofInt_val, ofInt_two_pow, ← BitVec.shiftLeft_eq_mul_twoPow]
  split
  · rename_i h; exact BitVec.shiftLeft_eq_zero h
  · rfl

theorem shr_spec_unsigned (x : BitVec w) (n : Nat) : GoArith.shrMath false x n = GoArith.shrE false x n := by
  unfold GoArith.shrMath GoArith.shrE
  simp only [GoArith.val, Bool.false_eq_true, if_false]
  have h2 : ((2 : Int) ^ n) = ((2 ^ n : Nat) : Int) := by norm_cast
  rw [h2, ← Int.natCast_ediv, BitVec.ofInt_natCast]
  apply BitVec.eq_of_toNat_eq
  rw [BitVec.toNat_ofNat, Nat.mod_eq_of_lt (Nat.lt_of_le_of_lt (Nat.div_le_self _ _) x.isLt)]
  split
  · rename_i h
    simp
    exact Nat.lt_of_lt_of_le x.isLt (Nat.pow_le_pow_right (by omega) h)
  · simp [Nat.shiftRight_eq_div_pow]

theorem shr_spec_signed (x : BitVec w) (n : Nat) : GoArith.shrMath true x n = GoArith.shrE true x n := by
  unfold GoArith.shrMath GoArith.shrE
  simp only [GoArith.val, if_true]
  by_cases hw : w = 0
  · subst hw; simp [BitVec.eq_nil x]
  have hlt := @BitVec.toInt_lt w x
  have hle := BitVec.le_toInt x
  have hb : ∀ m, w - 1 ≤ m → x.toInt / (2:Int) ^ m = if x.toInt < 0 then -1 else 0 := by
    intro m hm
    have hp : (2:Int) ^ (w - 1) ≤ (2:Int) ^ m := by
      have := Nat.pow_le_pow_right (n := 2) (by omega) hm
      exact_mod_cast this
    split
    · exact Int.ediv_eq_neg_one_of_neg_of_le (by omega) (by omega)
    · exact Int.ediv_eq_zero_of_lt (by omega) (by omega)
  have key : x.toInt / (2:Int) ^ n = x.toInt / (2:Int) ^ (if w ≤ n then w - 1 else n) := by
    split
    · rw [hb n (by omega), hb (w - 1) (by omega)]
    · rfl
  rw [key]
  generalize (if w ≤ n then w - 1 else n) = k
  have : x.toInt / (2:Int) ^ k = (x.sshiftRight k).toInt := by
    rw [BitVec.toInt_sshiftRight, Int.shiftRight_eq_div_pow]; norm_cast
  rw [this, BitVec.ofInt_toInt]

theorem shr_spec (s : Bool) (x : BitVec w) (n : Nat) : GoArith.shrMath s x n = GoArith.shrE s x n := by
  cases s
  · exact shr_spec_unsigned x n
  · exact shr_spec_signed x n

/-! ### LLVM lowering patterns (width generic) -/

def specM (e : Except GoArith.Panic α) : M α :=
  match e with
  | .ok v => .ok v
  | .error .divZero => .error .divZero
  | .error .negShift => .error .negShift

@[simp] theorem ofBool_eq_one (b : Bool) : (ofBool b = 1#1) = (b = true) := by cases b <;> simp [ofBool]

/-! evaluation of instructions on defined operands -/
theorem icmp_some (p : Pred) (x y : BitVec w) : icmp p (some x) (some y) = some (ofBool (icmpB p x y)) := rfl
theorem select_some (c : BitVec 1) (a b : V w) : select (some c) a b = if c = 1#1 then a else b := rfl
theorem trunc_some (x : BitVec w) : trunc w' (some x) = some (x.setWidth w') := rfl
theorem zext_some (x : BitVec w) : zext w' (some x) = some (x.setWidth w') := rfl
theorem sext_some (x : BitVec w) : sext w' (some x) = some (x.signExtend w') := rfl
theorem assert_some (t : Trap) (c : BitVec 1) : assert t (some c) = if c = 1#1 then .error t else .ok () := rfl
theorem ret_some (x : BitVec w) : ret (some x) = .ok x := rfl

/-- core of the `<<` lowering: count `c` already has x's width -/
theorem shl_core (x c k z : BitVec w) (hk : k.toNat = w) (hz : z = 0#w) :
    select (icmp .uge (some c) (some k)) (some z) (shl (some x) (some c)) = some (GoArith.shlE x c.toNat) := by
  subst hz
  simp only [icmp_some, select_some, shl, icmpB, ofBool_eq_one, GoArith.shlE, BitVec.ule_eq_decide, hk, decide_eq_true_eq]
  split <;> rfl

theorem lshr_core (x c k z : BitVec w) (hk : k.toNat = w) (hz : z = 0#w) :
    select (icmp .uge (some c) (some k)) (some z) (lshr (some x) (some c)) = some (GoArith.shrE false x c.toNat) := by
  subst hz
  simp only [icmp_some, select_some, lshr, icmpB, ofBool_eq_one, GoArith.shrE, BitVec.ule_eq_decide, hk, decide_eq_true_eq]
  split <;> simp

theorem ashr_core (x c k k1 : BitVec w) (hk : k.toNat = w) (hk1 : k1.toNat = w - 1) (hw : 0 < w) :
    ashr (some x) (select (icmp .uge (some c) (some k)) (some k1) (some c)) = some (GoArith.shrE true x c.toNat) := by
  simp only [icmp_some, select_some, icmpB, ofBool_eq_one, GoArith.shrE, BitVec.ule_eq_decide, hk, decide_eq_true_eq]
  split
  · simp only [ashr, hk1]
    rw [if_neg (by omega)]; simp
  · simp only [ashr]
    rename_i h
    rw [if_neg (by omega)]; simp


/-- whole-function patterns for shifts.  `c` is the count converted to x's width; `hc` says the conversion
    preserves the count whenever it is smaller than the width (discharged per conversion kind). -/
theorem shl_u (sx : Bool) (x c z : BitVec w) (y k : BitVec u) (hk : k.toNat = w) (hz : z = 0#w)
    (hc : y.toNat < w → c.toNat = y.toNat) :
    ret (select (icmp .uge (some y) (some k)) (some z) (shl (some x) (some c)))
      = specM (GoArith.shl sx false x y) := by
  subst hz
  simp only [GoArith.shl, GoArith.val, Bool.false_eq_true, if_false, shl_spec, specM,
    icmp_some, select_some, shl, icmpB, ofBool_eq_one, GoArith.shlE, BitVec.ule_eq_decide, hk, decide_eq_true_eq]
  have : ¬ ((y.toNat : Int) < 0) := by omega
  simp only [this, if_false, Int.toNat_natCast]
  by_cases h : w ≤ y.toNat
  · simp [h, ret]; rfl
  · simp only [h, if_false]
    rw [hc (by omega)]
    simp [h, ret]; rfl

theorem lshr_u (x c z : BitVec w) (y k : BitVec u) (hk : k.toNat = w) (hz : z = 0#w)
    (hc : y.toNat < w → c.toNat = y.toNat) :
    ret (select (icmp .uge (some y) (some k)) (some z) (lshr (some x) (some c)))
      = specM (GoArith.shr false false x y) := by
  subst hz
  simp only [GoArith.shr, GoArith.val, Bool.false_eq_true, if_false, shr_spec, specM,
    icmp_some, select_some, lshr, icmpB, ofBool_eq_one, GoArith.shrE, BitVec.ule_eq_decide, hk, decide_eq_true_eq]
  have : ¬ ((y.toNat : Int) < 0) := by omega
  simp only [this, if_false, Int.toNat_natCast]
  by_cases h : w ≤ y.toNat
  · simp [h, ret]; rfl
  · simp only [h, if_false]
    rw [hc (by omega)]
    simp [h, ret]; rfl

theorem ashr_u (x c k1 : BitVec w) (y k : BitVec u) (hk : k.toNat = w) (hk1 : k1.toNat = w - 1) (hw : 0 < w)
    (hc : y.toNat < w → c.toNat = y.toNat) :
    ret (ashr (some x) (select (icmp .uge (some y) (some k)) (some k1) (some c)))
      = specM (GoArith.shr true false x y) := by
  simp only [GoArith.shr, GoArith.val, Bool.false_eq_true, if_false, if_true, shr_spec, specM,
    icmp_some, select_some, icmpB, ofBool_eq_one, GoArith.shrE, BitVec.ule_eq_decide, hk, decide_eq_true_eq]
  have : ¬ ((y.toNat : Int) < 0) := by omega
  simp only [this, if_false, Int.toNat_natCast]
  by_cases h : w ≤ y.toNat
  · simp only [h, if_true, ashr, hk1]
    rw [if_neg (by omega)]; simp [ret]; rfl
  · simp only [h, if_false, ashr]
    rw [hc (by omega), if_neg (by omega)]; simp [ret]; rfl


/-! signed shift counts: `AssertNegativeShift` first -/

theorem toInt_nonneg_toNat (y : BitVec u) (h : 0 ≤ y.toInt) : y.toInt = (y.toNat : Int) := by
  cases hm : y.msb
  · exact BitVec.toInt_eq_toNat_of_msb hm
  · have := BitVec.toInt_neg_of_msb_true hm; omega

theorem shl_count_nonneg (sx : Bool) (x : BitVec w) (y : BitVec u) (h : 0 ≤ y.toInt) :
    GoArith.shl sx true x y = GoArith.shl sx false x y := by
  simp only [GoArith.shl, GoArith.val, if_true, Bool.false_eq_true, if_false]
  rw [toInt_nonneg_toNat y h]

theorem shr_count_nonneg (sx : Bool) (x : BitVec w) (y : BitVec u) (h : 0 ≤ y.toInt) :
    GoArith.shr sx true x y = GoArith.shr sx false x y := by
  simp only [GoArith.shr, GoArith.val, if_true, Bool.false_eq_true, if_false]
  rw [toInt_nonneg_toNat y h]

theorem assert_neg (y z0 : BitVec u) (hz0 : z0 = 0#u) (k : M α) :
    (do assert .negShift (icmp .slt (some y) (some z0)); k) = if y.toInt < 0 then .error .negShift else k := by
  subst hz0
  simp only [icmp_some, assert_some, icmpB, ofBool_eq_one, BitVec.slt_eq_decide, BitVec.toInt_zero, decide_eq_true_eq]
  split <;> rfl

theorem shl_s (sx : Bool) (x c z : BitVec w) (y k z0 : BitVec u) (hk : k.toNat = w) (hz : z = 0#w) (hz0 : z0 = 0#u)
    (hc : 0 ≤ y.toInt → y.toNat < w → c.toNat = y.toNat) :
    (do assert .negShift (icmp .slt (some y) (some z0))
        ret (select (icmp .uge (some y) (some k)) (some z) (shl (some x) (some c))))
      = specM (GoArith.shl sx true x y) := by
  rw [assert_neg y z0 hz0]
  by_cases h : y.toInt < 0
  · simp [h, GoArith.shl, GoArith.val, specM]
  · rw [if_neg h, shl_count_nonneg sx x y (by omega)]
    exact shl_u sx x c z y k hk hz (hc (by omega))

theorem lshr_s (x c z : BitVec w) (y k z0 : BitVec u) (hk : k.toNat = w) (hz : z = 0#w) (hz0 : z0 = 0#u)
    (hc : 0 ≤ y.toInt → y.toNat < w → c.toNat = y.toNat) :
    (do assert .negShift (icmp .slt (some y) (some z0))
        ret (select (icmp .uge (some y) (some k)) (some z) (lshr (some x) (some c))))
      = specM (GoArith.shr false true x y) := by
  rw [assert_neg y z0 hz0]
  by_cases h : y.toInt < 0
  · simp [h, GoArith.shr, GoArith.val, specM]
  · rw [if_neg h, shr_count_nonneg false x y (by omega)]
    exact lshr_u x c z y k hk hz (hc (by omega))

theorem ashr_s (x c k1 : BitVec w) (y k z0 : BitVec u) (hk : k.toNat = w) (hk1 : k1.toNat = w - 1) (hw : 0 < w) (hz0 : z0 = 0#u)
    (hc : 0 ≤ y.toInt → y.toNat < w → c.toNat = y.toNat) :
    (do assert .negShift (icmp .slt (some y) (some z0))
        ret (ashr (some x) (select (icmp .uge (some y) (some k)) (some k1) (some c))))
      = specM (GoArith.shr true true x y) := by
  rw [assert_neg y z0 hz0]
  by_cases h : y.toInt < 0
  · simp [h, GoArith.shr, GoArith.val, specM]
  · rw [if_neg h, shr_count_nonneg true x y (by omega)]
    exact ashr_u x c k1 y k hk hk1 hw (hc (by omega))

/-! how each count conversion preserves a count smaller than the width -/

theorem cnt_zext (y : BitVec u) (h : u ≤ w) : (y.setWidth w).toNat = y.toNat :=
  BitVec.toNat_setWidth_of_le h

theorem cnt_trunc (y : BitVec u) (h : y.toNat < w) : (y.setWidth w).toNat = y.toNat := by
  rw [BitVec.toNat_setWidth]
  exact Nat.mod_eq_of_lt (Nat.lt_trans h Nat.lt_two_pow_self)

theorem cnt_sext (y : BitVec u) (h : u ≤ w) (h0 : 0 ≤ y.toInt) : (y.signExtend w).toNat = y.toNat := by
  have h1 : (y.signExtend w).toInt = y.toInt := BitVec.toInt_signExtend_of_le h
  have h2 := toInt_nonneg_toNat (y.signExtend w) (by omega)
  have h3 := toInt_nonneg_toNat y h0
  omega


/-! ### division patterns -/

theorem and_some (a b : BitVec w) : LLVM.and (some a) (some b) = some (a &&& b) := rfl

theorem ofBool_and (a b : Bool) : ofBool a &&& ofBool b = ofBool (a && b) := by
  cases a <;> cases b <;> decide

theorem one_ne_zero_bv (hw : 0 < w) : (1#w = 0#w) = False := by
  simp only [eq_iff_iff, iff_false]
  intro h
  have := congrArg BitVec.toNat h
  simp at this
  omega

theorem quo_s (x y c0 c1 cz cmin cneg : BitVec w) (h0 : c0 = 0#w) (h1 : c1 = 1#w) (hz : cz = 0#w)
    (hmin : cmin = BitVec.intMin w) (hneg : cneg = BitVec.allOnes w) (hw : 0 < w) :
    (do let v2 := icmp .eq (some y) (some c0)
        assert .divZero v2
        let v3 := select v2 (some c1) (some y)
        let v4 := icmp .eq (some x) (some cmin)
        let v5 := icmp .eq (some y) (some cneg)
        let v6 := LLVM.and v4 v5
        let v7 := select v6 (some cz) (some x)
        let v8 := select v6 (some c1) v3
        let v9 ← sdiv v7 v8
        let v10 := select v6 (some x) v9
        ret v10) = specM (GoArith.quo true x y) := by
  subst h0 h1 hz hmin hneg
  rw [quo_signed]
  simp only [icmp_some, assert_some, select_some, and_some, icmpB, ofBool_and, ofBool_eq_one, beq_iff_eq, Bool.and_eq_true]
  by_cases hy : y = 0#w
  · subst hy; simp [specM]; rfl
  · simp only [hy, if_false, specM]
    by_cases hov : x = BitVec.intMin w ∧ y = BitVec.allOnes w
    · obtain ⟨hx, hy1⟩ := hov
      subst hx hy1
      have hmin0 : ¬ (0#w = BitVec.intMin w) := by
        intro h
        have := congrArg BitVec.toNat h
        simp [BitVec.toNat_intMin] at this
        have : 2 ^ (w - 1) < 2 ^ w := Nat.pow_lt_pow_right (by omega) (by omega)
        rw [Nat.mod_eq_of_lt this] at *
        have := Nat.two_pow_pos (w - 1)
        omega
      have hs : (BitVec.intMin w).sdiv (BitVec.allOnes w) = BitVec.intMin w := by
        rw [← BitVec.neg_one_eq_allOnes]; exact BitVec.intMin_sdiv_neg_one
      simp [sdiv, one_ne_zero_bv hw, ret, bind, Except.bind, pure, Except.pure, hmin0, hs]
    · simp only [hov, if_false]
      simp [sdiv, hy, hov, ret, bind, Except.bind, pure, Except.pure]

theorem zero_ne_intMin (hw : 0 < w) : ¬ (0#w = BitVec.intMin w) := by
  intro h
  have := congrArg BitVec.toNat h
  simp [BitVec.toNat_intMin] at this
  have : 2 ^ (w - 1) < 2 ^ w := Nat.pow_lt_pow_right (by omega) (by omega)
  rw [Nat.mod_eq_of_lt this] at *
  have := Nat.two_pow_pos (w - 1)
  omega

theorem srem_allOnes (x : BitVec w) (hw : 0 < w) : x.srem (BitVec.allOnes w) = 0#w := by
  apply BitVec.eq_of_toInt_eq
  simp [BitVec.toInt_srem, BitVec.toInt_allOnes, hw]

theorem rem_s (x y c0 c1 cz cmin cneg : BitVec w) (h0 : c0 = 0#w) (h1 : c1 = 1#w) (hz : cz = 0#w)
    (hmin : cmin = BitVec.intMin w) (hneg : cneg = BitVec.allOnes w) (hw : 0 < w) :
    (do let v2 := icmp .eq (some y) (some c0)
        assert .divZero v2
        let v3 := select v2 (some c1) (some y)
        let v4 := icmp .eq (some x) (some cmin)
        let v5 := icmp .eq (some y) (some cneg)
        let v6 := LLVM.and v4 v5
        let v7 := select v6 (some cz) (some x)
        let v8 := select v6 (some c1) v3
        let v9 ← srem v7 v8
        let v10 := select v6 (some cz) v9
        ret v10) = specM (GoArith.rem true x y) := by
  subst h0 h1 hz hmin hneg
  rw [rem_signed]
  simp only [icmp_some, assert_some, select_some, and_some, icmpB, ofBool_and, ofBool_eq_one, beq_iff_eq, Bool.and_eq_true]
  by_cases hy : y = 0#w
  · subst hy; simp [specM]; rfl
  · simp only [hy, if_false, specM]
    by_cases hov : x = BitVec.intMin w ∧ y = BitVec.allOnes w
    · obtain ⟨hx, hy1⟩ := hov
      subst hx hy1
      simp [srem, one_ne_zero_bv hw, ret, bind, Except.bind, pure, Except.pure, zero_ne_intMin hw, srem_allOnes _ hw]
    · simp only [hov, if_false]
      simp [srem, hy, hov, ret, bind, Except.bind, pure, Except.pure]

theorem quo_u (x y c0 c1 : BitVec w) (h0 : c0 = 0#w) (h1 : c1 = 1#w) :
    (do let v2 := icmp .eq (some y) (some c0)
        assert .divZero v2
        let v3 := select v2 (some c1) (some y)
        let v4 ← udiv (some x) v3
        ret v4) = specM (GoArith.quo false x y) := by
  subst h0 h1
  rw [quo_unsigned]
  simp only [icmp_some, assert_some, select_some, icmpB, ofBool_eq_one, beq_iff_eq]
  by_cases hy : y = 0#w
  · subst hy; simp [specM]; rfl
  · simp [hy, specM, udiv, ret, bind, Except.bind, pure, Except.pure]

theorem rem_u (x y c0 c1 : BitVec w) (h0 : c0 = 0#w) (h1 : c1 = 1#w) :
    (do let v2 := icmp .eq (some y) (some c0)
        assert .divZero v2
        let v3 := select v2 (some c1) (some y)
        let v4 ← urem (some x) v3
        ret v4) = specM (GoArith.rem false x y) := by
  subst h0 h1
  rw [rem_unsigned]
  simp only [icmp_some, assert_some, select_some, icmpB, ofBool_eq_one, beq_iff_eq]
  by_cases hy : y = 0#w
  · subst hy; simp [specM]; rfl
  · simp [hy, specM, urem, ret, bind, Except.bind, pure, Except.pure]

/-! constant divisors (the constant-folding branches of `BinOp`) -/

theorem quo_s_const (x c : BitVec w) (hc0 : c ≠ 0#w) (hc1 : c ≠ BitVec.allOnes w) :
    (do let v1 ← sdiv (some x) (some c); ret v1) = specM (GoArith.quo true x c) := by
  rw [quo_signed]
  simp [sdiv, hc0, hc1, specM, ret, bind, Except.bind, pure, Except.pure]

theorem rem_s_const (x c : BitVec w) (hc0 : c ≠ 0#w) (hc1 : c ≠ BitVec.allOnes w) :
    (do let v1 ← srem (some x) (some c); ret v1) = specM (GoArith.rem true x c) := by
  rw [rem_signed]
  simp [srem, hc0, hc1, specM, ret, bind, Except.bind, pure, Except.pure]

theorem quo_u_const (x c : BitVec w) (hc0 : c ≠ 0#w) :
    (do let v1 ← udiv (some x) (some c); ret v1) = specM (GoArith.quo false x c) := by
  rw [quo_unsigned]
  simp [udiv, hc0, specM, ret, bind, Except.bind, pure, Except.pure]

theorem rem_u_const (x c : BitVec w) (hc0 : c ≠ 0#w) :
    (do let v1 ← urem (some x) (some c); ret v1) = specM (GoArith.rem false x c) := by
  rw [rem_unsigned]
  simp [urem, hc0, specM, ret, bind, Except.bind, pure, Except.pure]

theorem quo_s_m1 (x c1 cz cmin cneg : BitVec w) (t : BitVec 1) (ht : t = 1#1) (h1 : c1 = 1#w) (hz : cz = 0#w)
    (hmin : cmin = BitVec.intMin w) (hneg : cneg = BitVec.allOnes w) (hw : 0 < w) :
    (do let v1 := icmp .eq (some x) (some cmin)
        let v2 := LLVM.and v1 (some t)
        let v3 := select v2 (some cz) (some x)
        let v4 := select v2 (some c1) (some cneg)
        let v5 ← sdiv v3 v4
        let v6 := select v2 (some x) v5
        ret v6) = specM (GoArith.quo true x cneg) := by
  subst ht h1 hz hmin hneg
  have hne : BitVec.allOnes w ≠ 0#w := by
    intro h; have := congrArg BitVec.toInt h; simp [BitVec.toInt_allOnes, hw] at this
  rw [quo_signed]
  simp only [icmp_some, select_some, and_some, icmpB, ofBool_eq_one, beq_iff_eq, hne, if_false, specM]
  have h11 : ∀ b : Bool, (ofBool b &&& 1#1 = 1#1) = (b = true) := by intro b; cases b <;> decide
  simp only [h11, decide_eq_true_eq]
  by_cases hx : x = BitVec.intMin w
  · subst hx
    have hs : (BitVec.intMin w).sdiv (BitVec.allOnes w) = BitVec.intMin w := by
      rw [← BitVec.neg_one_eq_allOnes]; exact BitVec.intMin_sdiv_neg_one
    simp [sdiv, one_ne_zero_bv hw, ret, bind, Except.bind, pure, Except.pure, zero_ne_intMin hw, hs]
  · simp [hx, sdiv, hne, ret, bind, Except.bind, pure, Except.pure]

theorem rem_s_m1 (x c1 cz cmin cneg : BitVec w) (t : BitVec 1) (ht : t = 1#1) (h1 : c1 = 1#w) (hz : cz = 0#w)
    (hmin : cmin = BitVec.intMin w) (hneg : cneg = BitVec.allOnes w) (hw : 0 < w) :
    (do let v1 := icmp .eq (some x) (some cmin)
        let v2 := LLVM.and v1 (some t)
        let v3 := select v2 (some cz) (some x)
        let v4 := select v2 (some c1) (some cneg)
        let v5 ← srem v3 v4
        let v6 := select v2 (some cz) v5
        ret v6) = specM (GoArith.rem true x cneg) := by
  subst ht h1 hz hmin hneg
  have hne : BitVec.allOnes w ≠ 0#w := by
    intro h; have := congrArg BitVec.toInt h; simp [BitVec.toInt_allOnes, hw] at this
  rw [rem_signed]
  simp only [icmp_some, select_some, and_some, icmpB, ofBool_eq_one, beq_iff_eq, hne, if_false, specM]
  have h11 : ∀ b : Bool, (ofBool b &&& 1#1 = 1#1) = (b = true) := by intro b; cases b <;> decide
  simp only [h11, decide_eq_true_eq]
  by_cases hx : x = BitVec.intMin w
  · subst hx
    simp [srem, one_ne_zero_bv hw, ret, bind, Except.bind, pure, Except.pure, zero_ne_intMin hw, srem_allOnes _ hw]
  · simp [hx, srem, hne, ret, bind, Except.bind, pure, Except.pure]



/-! arithmetic, bitwise and unary operators -/
theorem add_p (s : Bool) (x y : BitVec w) : ret (LLVM.add (some x) (some y)) = .ok (GoArith.add s x y) := by
  rw [add_spec]; rfl
theorem sub_p (s : Bool) (x y : BitVec w) : ret (LLVM.sub (some x) (some y)) = .ok (GoArith.sub s x y) := by
  rw [sub_spec]; rfl
theorem mul_p (s : Bool) (x y : BitVec w) : ret (LLVM.mul (some x) (some y)) = .ok (GoArith.mul s x y) := by
  rw [mul_spec]; rfl
theorem and_p (x y : BitVec w) : ret (LLVM.and (some x) (some y)) = .ok (x &&& y) := rfl
theorem or_p (x y : BitVec w) : ret (LLVM.or (some x) (some y)) = .ok (x ||| y) := rfl
theorem xor_p (x y : BitVec w) : ret (LLVM.xor (some x) (some y)) = .ok (x ^^^ y) := rfl

theorem xor_allOnes (y m : BitVec w) (hm : m = BitVec.allOnes w) : y ^^^ m = ~~~y := by
  subst hm; exact BitVec.xor_allOnes
theorem andnot_p (x y m : BitVec w) (hm : m = BitVec.allOnes w) :
    ret (LLVM.and (some x) (LLVM.xor (some y) (some m))) = .ok (x &&& ~~~y) := by
  show Except.ok (x &&& (y ^^^ m)) = _
  rw [xor_allOnes y m hm]
theorem not_p (x m : BitVec w) (hm : m = BitVec.allOnes w) :
    ret (LLVM.xor (some x) (some m)) = .ok (~~~x) := by
  show Except.ok (x ^^^ m) = _
  rw [xor_allOnes x m hm]
theorem neg_p (s : Bool) (x z : BitVec w) (hz : z = 0#w) :
    ret (LLVM.sub (some z) (some x)) = .ok (GoArith.neg s x) := by
  subst hz; rw [neg_spec]
  show Except.ok (0#w - x) = _
  simp

/-! comparisons -/
theorem val_inj (s : Bool) (x y : BitVec w) : GoArith.val s x = GoArith.val s y ↔ x = y := by
  cases s
  · simp only [GoArith.val, Bool.false_eq_true, if_false]
    constructor
    · intro h; exact BitVec.eq_of_toNat_eq (by omega)
    · intro h; rw [h]
  · simp only [GoArith.val, if_true]
    exact BitVec.toInt_inj

theorem eq_p (s : Bool) (x y : BitVec w) : ret (icmp .eq (some x) (some y)) = .ok (ofBool (GoArith.eq s x y)) := by
  show Except.ok (ofBool (x == y)) = _
  congr 2
  simp only [GoArith.eq, val_inj]
  exact Bool.eq_iff_iff.mpr (by simp)
theorem ne_p (s : Bool) (x y : BitVec w) : ret (icmp .ne (some x) (some y)) = .ok (ofBool (!GoArith.eq s x y)) := by
  show Except.ok (ofBool (x != y)) = _
  congr 2
  simp only [GoArith.eq, val_inj]
  cases h : (x == y) <;> simp_all [bne]

theorem slt_p (x y : BitVec w) : ret (icmp .slt (some x) (some y)) = .ok (ofBool (GoArith.lt true x y)) := rfl
theorem sle_p (x y : BitVec w) : ret (icmp .sle (some x) (some y)) = .ok (ofBool (GoArith.le true x y)) := rfl
theorem sgt_p (x y : BitVec w) : ret (icmp .sgt (some x) (some y)) = .ok (ofBool (GoArith.lt true y x)) := rfl
theorem sge_p (x y : BitVec w) : ret (icmp .sge (some x) (some y)) = .ok (ofBool (GoArith.le true y x)) := rfl
theorem ult_p (x y : BitVec w) : ret (icmp .ult (some x) (some y)) = .ok (ofBool (GoArith.lt false x y)) := by
  show Except.ok (ofBool (x.ult y)) = _
  congr 2; simp [GoArith.lt, GoArith.val, BitVec.ult_eq_decide]
theorem ule_p (x y : BitVec w) : ret (icmp .ule (some x) (some y)) = .ok (ofBool (GoArith.le false x y)) := by
  show Except.ok (ofBool (x.ule y)) = _
  congr 2; simp [GoArith.le, GoArith.val, BitVec.ule_eq_decide]
theorem ugt_p (x y : BitVec w) : ret (icmp .ugt (some x) (some y)) = .ok (ofBool (GoArith.lt false y x)) := by
  show Except.ok (ofBool (y.ult x)) = _
  congr 2; simp [GoArith.lt, GoArith.val, BitVec.ult_eq_decide]
theorem uge_p (x y : BitVec w) : ret (icmp .uge (some x) (some y)) = .ok (ofBool (GoArith.le false y x)) := by
  show Except.ok (ofBool (y.ule x)) = _
  congr 2; simp [GoArith.le, GoArith.val, BitVec.ule_eq_decide]

/-! conversions -/
theorem conv_id (s : Bool) (x : BitVec w) : ret (some x) = .ok (GoArith.conv s w x) := by
  simp [GoArith.conv, ofInt_val, ret]; rfl
theorem conv_sext (x : BitVec w) : ret (sext w' (some x)) = .ok (GoArith.conv true w' x) := rfl
theorem conv_zext (x : BitVec w) : ret (zext w' (some x)) = .ok (GoArith.conv false w' x) := by
  show Except.ok (x.setWidth w') = _
  congr 1
  simp only [GoArith.conv, GoArith.val, Bool.false_eq_true, if_false, BitVec.ofInt_natCast]
  apply BitVec.eq_of_toNat_eq; simp
theorem conv_trunc (s : Bool) (x : BitVec w) (h : w' ≤ w) : ret (trunc w' (some x)) = .ok (GoArith.conv s w' x) := by
  show Except.ok (x.setWidth w') = _
  congr 1
  cases s
  · simp only [GoArith.conv, GoArith.val, Bool.false_eq_true, if_false, BitVec.ofInt_natCast]
    apply BitVec.eq_of_toNat_eq; simp
  · simp only [GoArith.conv, GoArith.val, if_true]
    exact (BitVec.signExtend_eq_setWidth_of_le x h).symm

/-! constant shift counts (`overflows` folded to a constant by the IR builder) -/
theorem shl_const (sx : Bool) (x c z : BitVec w) (f : BitVec 1) (hf : f = 0#1) (hc : c.toNat < w) (n : Nat) (hn : n = c.toNat) :
    ret (select (some f) (some z) (shl (some x) (some c))) = .ok (GoArith.shlMath sx x n) := by
  subst hf hn
  rw [shl_spec]
  simp [select_some, shl, GoArith.shlE, Nat.not_le.mpr hc, ret]; rfl
theorem lshr_const (x c z : BitVec w) (f : BitVec 1) (hf : f = 0#1) (hc : c.toNat < w) (n : Nat) (hn : n = c.toNat) :
    ret (select (some f) (some z) (lshr (some x) (some c))) = .ok (GoArith.shrMath false x n) := by
  subst hf hn
  rw [shr_spec]
  simp [select_some, lshr, GoArith.shrE, Nat.not_le.mpr hc, ret]; rfl
theorem ashr_const (x c : BitVec w) (hc : c.toNat < w) (n : Nat) (hn : n = c.toNat) :
    ret (ashr (some x) (some c)) = .ok (GoArith.shrMath true x n) := by
  subst hn
  rw [shr_spec]
  simp [ashr, GoArith.shrE, Nat.not_le.mpr hc, ret]; rfl


/-! constant shift counts AT OR BEYOND the operand width: the builder folds `overflows` to true (the count is compared in ITS OWN
   type before it is narrowed); whatever the narrowed count is - even a value below the width, as for `uint8 << 256` - the result is
   0 (or the sign fill) -/
theorem shl_const_big (sx : Bool) (x c z : BitVec w) (f : BitVec 1) (hf : f = 1#1) (hz : z = 0#w) (n : Nat) (hn : w ≤ n) :
    ret (select (some f) (some z) (shl (some x) (some c))) = .ok (GoArith.shlMath sx x n) := by
  subst hf hz
  rw [shl_spec]
  simp [select, GoArith.shlE, hn, ret]; rfl
theorem lshr_const_big (x c z : BitVec w) (f : BitVec 1) (hf : f = 1#1) (hz : z = 0#w) (n : Nat) (hn : w ≤ n) :
    ret (select (some f) (some z) (lshr (some x) (some c))) = .ok (GoArith.shrMath false x n) := by
  subst hf hz
  rw [shr_spec]
  simp [select, GoArith.shrE, hn, ret]; rfl
theorem ashr_const_big (x c : BitVec w) (hc : c.toNat = w - 1) (hw : 0 < w) (n : Nat) (hn : w ≤ n) :
    ret (ashr (some x) (some c)) = .ok (GoArith.shrMath true x n) := by
  rw [shr_spec]
  have h1 : ¬ w ≤ w - 1 := by omega
  simp [ashr, GoArith.shrE, hn, hc, h1, ret]; rfl

/-! constant DIVIDENDS: the overflow guard is decided at compile time from the constant `x` -/

theorem quo_s_xconst (x y c0 c1 : BitVec w) (h0 : c0 = 0#w) (h1 : c1 = 1#w) (hx : x ≠ BitVec.intMin w) :
    (do let v1 := icmp .eq (some y) (some c0)
        assert .divZero v1
        let v2 := select v1 (some c1) (some y)
        let v3 ← sdiv (some x) v2
        ret v3) = specM (GoArith.quo true x y) := by
  subst h0 h1
  rw [quo_signed]
  simp only [icmp_some, assert_some, select_some, icmpB, ofBool_eq_one, beq_iff_eq]
  by_cases hy : y = 0#w
  · subst hy; simp [specM]; rfl
  · simp [hy, hx, specM, sdiv, ret, bind, Except.bind, pure, Except.pure]

theorem rem_s_xconst (x y c0 c1 : BitVec w) (h0 : c0 = 0#w) (h1 : c1 = 1#w) (hx : x ≠ BitVec.intMin w) :
    (do let v1 := icmp .eq (some y) (some c0)
        assert .divZero v1
        let v2 := select v1 (some c1) (some y)
        let v3 ← srem (some x) v2
        ret v3) = specM (GoArith.rem true x y) := by
  subst h0 h1
  rw [rem_signed]
  simp only [icmp_some, assert_some, select_some, icmpB, ofBool_eq_one, beq_iff_eq]
  by_cases hy : y = 0#w
  · subst hy; simp [specM]; rfl
  · simp [hy, hx, specM, srem, ret, bind, Except.bind, pure, Except.pure]

theorem quo_s_xmin (y c0 c1 cz cmin cneg : BitVec w) (t : BitVec 1) (ht : t = 1#1) (h0 : c0 = 0#w) (h1 : c1 = 1#w) (hz : cz = 0#w)
    (hmin : cmin = BitVec.intMin w) (hneg : cneg = BitVec.allOnes w) (hw : 0 < w) :
    (do let v1 := icmp .eq (some y) (some c0)
        assert .divZero v1
        let v2 := select v1 (some c1) (some y)
        let v3 := icmp .eq (some y) (some cneg)
        let v4 := LLVM.and (some t) v3
        let v5 := select v4 (some cz) (some cmin)
        let v6 := select v4 (some c1) v2
        let v7 ← sdiv v5 v6
        let v8 := select v4 (some cmin) v7
        ret v8) = specM (GoArith.quo true cmin y) := by
  subst ht h0 h1 hz hmin hneg
  rw [quo_signed]
  have h11 : ∀ b : Bool, (1#1 &&& ofBool b = 1#1) = (b = true) := by intro b; cases b <;> decide
  simp only [icmp_some, assert_some, select_some, and_some, icmpB, ofBool_eq_one, beq_iff_eq, h11]
  by_cases hy : y = 0#w
  · subst hy; simp [specM]; rfl
  · simp only [hy, if_false, specM]
    by_cases hn : y = BitVec.allOnes w
    · subst hn
      have hs : (BitVec.intMin w).sdiv (BitVec.allOnes w) = BitVec.intMin w := by
        rw [← BitVec.neg_one_eq_allOnes]; exact BitVec.intMin_sdiv_neg_one
      simp [sdiv, one_ne_zero_bv hw, ret, bind, Except.bind, pure, Except.pure, zero_ne_intMin hw, hs]
    · simp [hn, hy, sdiv, ret, bind, Except.bind, pure, Except.pure]

theorem rem_s_xmin (y c0 c1 cz cmin cneg : BitVec w) (t : BitVec 1) (ht : t = 1#1) (h0 : c0 = 0#w) (h1 : c1 = 1#w) (hz : cz = 0#w)
    (hmin : cmin = BitVec.intMin w) (hneg : cneg = BitVec.allOnes w) (hw : 0 < w) :
    (do let v1 := icmp .eq (some y) (some c0)
        assert .divZero v1
        let v2 := select v1 (some c1) (some y)
        let v3 := icmp .eq (some y) (some cneg)
        let v4 := LLVM.and (some t) v3
        let v5 := select v4 (some cz) (some cmin)
        let v6 := select v4 (some c1) v2
        let v7 ← srem v5 v6
        let v8 := select v4 (some cz) v7
        ret v8) = specM (GoArith.rem true cmin y) := by
  subst ht h0 h1 hz hmin hneg
  rw [rem_signed]
  have h11 : ∀ b : Bool, (1#1 &&& ofBool b = 1#1) = (b = true) := by intro b; cases b <;> decide
  simp only [icmp_some, assert_some, select_some, and_some, icmpB, ofBool_eq_one, beq_iff_eq, h11]
  by_cases hy : y = 0#w
  · subst hy; simp [specM]; rfl
  · simp only [hy, if_false, specM]
    by_cases hn : y = BitVec.allOnes w
    · subst hn
      simp [srem, one_ne_zero_bv hw, ret, bind, Except.bind, pure, Except.pure, zero_ne_intMin hw, srem_allOnes _ hw]
    · simp [hn, hy, srem, ret, bind, Except.bind, pure, Except.pure]

end LlgoVerif.Arith
