"""Generator of Go functions whose go/ssa form exercises fixSSAOrderBlock: locals whose address is taken by a call
(pointer-receiver method / &o argument) and that are also returned by value, with stores, field loads, uses of the
loaded value and several results mixed in."""

HEADER = '''package main

type T struct{ a, b int }

func (t *T) mut(x int) int { t.a += x; return t.a }
func (t T) get() int       { return t.a }
func touch(p *T, q *T) int { p.b++; return q.a }
func use(t T) int          { return t.a + t.b }
func ext() int             { return 1 }

'''


def gen_func(rng, name):
    nloc = rng.randint(1, 3)
    locs = ['o%d' % i for i in range(nloc)]
    lines = ['\tvar %s T' % ', '.join(locs)] + ['\t_ = %s' % o for o in locs]
    for si in range(rng.randint(0, 3)):
        o = rng.choice(locs)
        lines.append(rng.choice(['\t%s.a = x' % o, '\t%s.b = x + 1' % o, '\tx += %s.mut(x)' % o, '\tx += touch(&%s, &%s)' % (o, rng.choice(locs)),
                                 '\tif x > 3 {\n\t\t%s.a = 7\n\t}' % o, '\tp%d := &%s\n\tp%d.b = x' % (si, o, si)]))
    nres = rng.randint(1, 4)
    res, tys = [], []
    for _ in range(nres):
        o = rng.choice(locs)
        k = rng.random()
        if k < 0.35:
            res.append(o); tys.append('T')
        elif k < 0.6:
            res.append('%s.mut(%d)' % (o, rng.randint(1, 9))); tys.append('int')
        elif k < 0.7:
            res.append('touch(&%s, &%s)' % (o, rng.choice(locs))); tys.append('int')
        elif k < 0.8:
            res.append('%s.a' % o); tys.append('int')
        elif k < 0.88:
            res.append('use(%s)' % o); tys.append('int')
        elif k < 0.94:
            res.append('%s.get()' % o); tys.append('int')
        else:
            res.append(rng.choice(['x + 1', 'ext()'])); tys.append('int')
    lines.append('\treturn ' + ', '.join(res))
    if rng.random() < 0.2:
        # named results (+ a deferred closure touching one): go/ssa then stores the operands into the result variables
        sig = ', '.join('r%d %s' % (i, t) for i, t in enumerate(tys))
        lines.insert(0, '\tdefer func() { _ = r0 }()')
        return 'func %s(x int) (%s) {\n%s\n}\n\n' % (name, sig, '\n'.join(lines))
    return 'func %s(x int) (%s) {\n%s\n}\n\n' % (name, ', '.join(tys), '\n'.join(lines))


def source(rng, n):
    return HEADER + ''.join(gen_func(rng, 'f%d' % i) for i in range(n))


CORPUS = HEADER + '''
func c0(x int) (T, int)       { var o T; return o, o.mut(1) }
func c1(x int) (T, int, T)    { var o T; return o, o.mut(1), o }
func c2(x int) (T, int, int)  { var o T; return o, o.mut(1), o.mut(2) }
func c3(x int) (int, T)       { var o T; return o.mut(1), o }
func c4(x int) (T, int)       { var o, p T; return o, p.mut(1) }
func c5(x int) (T, T, int)    { var o, p T; return o, p, touch(&o, &p) }
func c6(x int) (T, int, int)  { var o T; return o, use(o), o.mut(1) }
func c7(x int) (r T, n int)   { defer func() { n++ }(); var o T; return o, o.mut(1) }
func c8(x int) (T, T)         { var o T; return o, T{a: o.mut(1)} }
'''
