"""C19 tie A: read the -O0 IR llgo wrote for the generated packages and turn every `init` function into the token
list / decomposition of lean/LlgoVerif/Spec/PyShape.lean (`InitFact`), the entry function into `EntryCall`s.

Textual, for the instruction shapes llgo emits; anything Python-related that is not recognised becomes `Tok.other`
(which makes `okShape` false) or raises Unsupported (reported as a broken obligation) — never skipped."""
import re


class Unsupported(Exception):
    pass


RE_DEFINE = re.compile(r'^define [^@]*@("[^"]+"|[^\s(]+)\(')
RE_LABEL = re.compile(r'^([A-Za-z_][\w.]*):')
RE_CSTR = re.compile(r'^(@\d+) = private unnamed_addr constant \[\d+ x i8\] c"((?:[^"\\]|\\[0-9A-Fa-f]{2})*)"', re.M)
RE_LOAD_GUARD = re.compile(r'^(%\d+) = load i1, ptr @"?([^"\s,]+)\.init\$guard"?')
RE_BR_COND = re.compile(r'^br i1 (%\d+), label %(\S+), label %(\S+)$')
RE_BR = re.compile(r'^br label %(\S+)$')
RE_STORE_GUARD = re.compile(r'^store i1 true, ptr @"?([^"\s,]+)\.init\$guard"?')
RE_CALL_VOID = re.compile(r'^call void @("[^"]+"|[^\s(]+)\(\)$')
RE_LOAD_PY = re.compile(r'^(%\d+) = load ptr, ptr @__llgo_py\.([^\s,]+),')
RE_LOADSYMS = re.compile(r'^call void \(ptr, \.\.\.\) @llgoLoadPyModSyms\(ptr (%\d+), (.*), ptr null\)$')
RE_PAIR = re.compile(r'ptr getelementptr inbounds \(\[\d+ x i8\], ptr (@\d+), i32 0, i32 0\), ptr @__llgo_py\.([^\s,)]+)')
RE_PYCALL = re.compile(r'call ptr (?:\(ptr, \.\.\.\) )?@PyObject_Call(?:NoArgs|OneArg|FunctionObjArgs)\(ptr (%\d+)')
RE_GETATTR = re.compile(r'call ptr @PyObject_GetAttrString\(ptr (%\d+), ptr getelementptr inbounds \(\[\d+ x i8\], ptr (@\d+), i32 0, i32 0\)\)')
RE_IMPORT = re.compile(r'^(%\d+) = call ptr @PyImport_ImportModule\(ptr getelementptr inbounds \(\[\d+ x i8\], ptr (@\d+), i32 0, i32 0\)\)')
RE_ICMP_NULL = re.compile(r'^(%\d+) = icmp ne ptr (%\d+), null$')
RE_STORE_PY = re.compile(r'^store ptr (%\d+), ptr @__llgo_py\.([^\s,]+),')
RE_ANY_CALL = re.compile(r'call [^@]*@("[^"]+"|[^\s(]+)\(')


def unq(n):
    return n[1:-1] if n.startswith('"') else n


def parse_ll(text):
    """-> (functions {name: [(label, [instr])]}, cstrings {@n: str})"""
    cstr = {}
    for m in RE_CSTR.finditer(text):
        raw = re.sub(r"\\([0-9A-Fa-f]{2})", lambda x: chr(int(x.group(1), 16)), m.group(2))
        cstr[m.group(1)] = raw[:-1] if raw.endswith("\x00") else raw
    fns = {}
    cur = None
    for line in text.split("\n"):
        m = RE_DEFINE.match(line)
        if m:
            cur = []
            fns[unq(m.group(1))] = cur
            continue
        if cur is None:
            continue
        if line.startswith("}"):
            cur = None
            continue
        s = line.split(" ; ")[0].strip()
        if not s:
            continue
        lm = RE_LABEL.match(s)
        if lm and s.endswith(":"):
            cur.append((lm.group(1), []))
        elif cur:
            cur[-1][1].append(s)
        else:
            cur.append(("entry", [s]))
    return fns, cstr


class Names:
    """module and attribute numbering shared by all packages of one program"""

    def __init__(self, modules):
        self.modules = list(modules)
        self.attrs = {}

    def split(self, dotted):
        """'vpk.sub2.tag' -> (module index, 'tag'); 'vpk.sub2' -> (module index, None)"""
        best = None
        for i, m in enumerate(self.modules):
            if dotted == m:
                return i, None
            if dotted.startswith(m + ".") and (best is None or len(m) > len(self.modules[best])):
                best = i
        if best is None:
            raise Unsupported("Python variable of an unknown module: __llgo_py." + dotted)
        return best, dotted[len(self.modules[best]) + 1:]

    def mod(self, name):
        if name not in self.modules:
            raise Unsupported("unknown Python module " + name)
        return self.modules.index(name)

    def attr(self, mi, name):
        lst = self.attrs.setdefault(mi, [])
        if name not in lst:
            lst.append(name)
        return lst.index(name)


def fn_uses(name, fns, cstr, names, pkgpath, seen=None):
    """uses of function `name` including the functions of the same package it calls (depth-first, call order)"""
    seen = seen if seen is not None else set()
    if name in seen:
        return []
    seen.add(name)
    uses = []
    vals = {}
    for _, instrs in fns[name]:
        for ins in instrs:
            m = RE_LOAD_PY.match(ins)
            if m:
                vals[m.group(1)] = names.split(m.group(2))
                continue
            m = RE_PYCALL.search(ins)
            if m and m.group(1) in vals and vals[m.group(1)][1] is not None:
                mi, a = vals[m.group(1)]
                uses.append(("c", mi, names.attr(mi, a)))
                continue
            m = RE_GETATTR.search(ins)
            if m and m.group(1) in vals and vals[m.group(1)][1] is None:
                mi = vals[m.group(1)][0]
                uses.append(("v", mi, names.attr(mi, cstr[m.group(2)])))
                continue
            m = RE_IMPORT.match(ins)
            if m:
                uses.append(("e", names.mod(cstr[m.group(2)]), None))
                continue
            for cm in RE_ANY_CALL.finditer(ins):
                callee = unq(cm.group(1))
                if callee.startswith(pkgpath + ".") and callee in fns and callee != pkgpath + ".init":
                    uses += fn_uses(callee, fns, cstr, names, pkgpath, seen)
    return uses


def init_fact(pkgpath, pid, text, names, pkg_ids):
    """-> dict(id, toks, inits, loadGroups, initUses, imp, fnUses, foreign) for package `pkgpath`"""
    fns, cstr = parse_ll(text)
    iname = pkgpath + ".init"
    toks, inits, groups, init_uses, imp, foreign = [], [], [], [], None, []
    if iname in fns:
        blocks = dict(fns[iname])
        order = [l for l, _ in fns[iname]]
        cur = order[0]
        vals, guardv, tests = {}, None, {}
        steps = 0
        exit_label = None
        while True:
            steps += 1
            if steps > 200:
                raise Unsupported(iname + ": control flow does not reach ret")
            nxt = None
            for ins in blocks[cur]:
                m = RE_LOAD_GUARD.match(ins)
                if m:
                    guardv = m.group(1)
                    continue
                m = RE_BR_COND.match(ins)
                if m:
                    if m.group(1) == guardv:
                        toks.append("guardTest")
                        exit_label, nxt = m.group(2), m.group(3)
                        guardv = None
                        break
                    if m.group(1) in tests:
                        mi = tests[m.group(1)]
                        ok = False
                        impb = blocks.get(m.group(3), [])
                        if len(impb) == 3:
                            a, b_, c_ = impb
                            ma, mb, mc = RE_IMPORT.match(a), RE_STORE_PY.match(b_), RE_BR.match(c_)
                            if ma and mb and mc and names.mod(cstr[ma.group(2)]) == mi and mb.group(1) == ma.group(1) \
                                    and names.split(mb.group(2)) == (mi, None) and mc.group(1) == m.group(2):
                                ok = True
                        if ok:
                            toks.append(("guardedImport", mi))
                            imp = mi if imp is None else imp
                        else:
                            toks.append(("other", 1))
                        nxt = m.group(2)
                        break
                    raise Unsupported(iname + ": conditional branch in the initialiser body: " + ins)
                m = RE_STORE_GUARD.match(ins)
                if m:
                    toks.append("guardStore")
                    continue
                m = RE_CALL_VOID.match(ins)
                if m and unq(m.group(1)).endswith(".init"):
                    q = unq(m.group(1))[:-5]
                    if q in pkg_ids:
                        toks.append(("callInit", pkg_ids[q]))
                        inits.append(pkg_ids[q])
                    else:
                        foreign.append(q)
                    continue
                m = RE_LOAD_PY.match(ins)
                if m:
                    vals[m.group(1)] = names.split(m.group(2))
                    continue
                m = RE_LOADSYMS.match(ins)
                if m:
                    if m.group(1) not in vals or vals[m.group(1)][1] is not None:
                        toks.append(("other", 2))
                        continue
                    mi = vals[m.group(1)][0]
                    ns = []
                    good = True
                    pairs = RE_PAIR.findall(m.group(2))
                    if m.group(2).count("getelementptr") != len(pairs) or m.group(2).count("@__llgo_py.") != len(pairs):
                        good = False
                    for (cs, var) in pairs:
                        vm, va = names.split(var)
                        if vm != mi or va != cstr.get(cs):
                            good = False
                        ns.append(names.attr(mi, va if va is not None else "?"))
                    if not pairs or not good:
                        toks.append(("other", 3))
                    else:
                        toks.append(("loadSyms", mi, ns))
                        groups.append((mi, ns))
                    continue
                m = RE_ICMP_NULL.match(ins)
                if m and m.group(2) in vals and vals[m.group(2)][1] is None:
                    tests[m.group(1)] = vals[m.group(2)][0]
                    continue
                m = RE_PYCALL.search(ins)
                if m and m.group(1) in vals and vals[m.group(1)][1] is not None:
                    mi, a = vals[m.group(1)]
                    u = ("c", mi, names.attr(mi, a))
                    toks.append(("use", u))
                    init_uses.append(u)
                    continue
                m = RE_GETATTR.search(ins)
                if m and m.group(1) in vals and vals[m.group(1)][1] is None:
                    mi = vals[m.group(1)][0]
                    u = ("v", mi, names.attr(mi, cstr[m.group(2)]))
                    toks.append(("use", u))
                    init_uses.append(u)
                    continue
                m = RE_IMPORT.match(ins)
                if m:
                    u = ("e", names.mod(cstr[m.group(2)]), None)
                    toks.append(("use", u))
                    init_uses.append(u)
                    continue
                if RE_STORE_PY.match(ins):
                    toks.append(("other", 4))
                    continue
                hit = False
                for cm in RE_ANY_CALL.finditer(ins):
                    callee = unq(cm.group(1))
                    if callee.startswith(pkgpath + ".") and callee in fns and callee != iname:
                        for u in fn_uses(callee, fns, cstr, names, pkgpath):
                            toks.append(("use", u))
                            init_uses.append(u)
                        hit = True
                if hit:
                    continue
                m = RE_BR.match(ins)
                if m:
                    nxt = m.group(1)
                    break
                if ins.startswith("ret "):
                    toks.append("ret")
                    nxt = None
                    break
            else:
                raise Unsupported(iname + ": block %s does not end in a branch" % cur)
            if nxt is None:
                break
            cur = nxt
    # uses of all other functions
    fuses = []
    for name in fns:
        if name == iname or "init#" in name[len(pkgpath):]:
            continue
        for u in fn_uses(name, fns, cstr, names, pkgpath, set()):
            if u not in fuses:
                fuses.append(u)
    return {"id": pid, "toks": toks, "inits": inits, "loadGroups": groups, "initUses": init_uses, "imp": imp,
            "fnUses": fuses, "foreign": foreign, "has_init": iname in fns}


def entry_calls(text, modpath):
    fns, _ = parse_ll(text)
    if "main" not in fns:
        raise Unsupported("entry module has no @main")
    out = []
    for _, instrs in fns["main"]:
        for ins in instrs:
            m = RE_ANY_CALL.search(ins)
            if not m:
                continue
            c = unq(m.group(1))
            if c == "Py_Initialize":
                out.append("pyInitialize")
            elif c == "github.com/goplus/llgo/runtime/internal/runtime.init":
                out.append("rtInit")
            elif c.endswith("init$abitypes"):
                out.append("abiInit")
            elif c == "runtime.init":
                out.append("runtimeInit")
            elif c == modpath + ".init":
                out.append("mainInit")
            elif c == modpath + ".main":
                out.append("mainMain")
            else:
                out.append("otherCall")
    return out


# ------------------------------------------------------------------ symbol loads, read without any numbering
def raw_sym_facts(pkgpath, text):
    """What the package loads and what it calls, as NAMES (independent of `Names` and of the decomposition above):
    -> dict(loads=[(module variable, [(C string passed as attribute name, symbol variable)])] in the order of <pkg>.init,
            called=sorted symbol variables whose loaded value is the callee of a PyObject_Call* anywhere in the package,
            unparsed=[llgoLoadPyModSyms calls that could not be read])"""
    fns, cstr = parse_ll(text)
    loads, unparsed, called = [], [], set()
    for name, blocks in fns.items():
        vals = {}
        for _, instrs in blocks:
            for ins in instrs:
                m = RE_LOAD_PY.match(ins)
                if m:
                    vals[m.group(1)] = "__llgo_py." + m.group(2)
                    continue
                m = RE_PYCALL.search(ins)
                if m and m.group(1) in vals:
                    called.add(vals[m.group(1)])
                    continue
                if "@llgoLoadPyModSyms(" in ins and name == pkgpath + ".init":
                    m = RE_LOADSYMS.match(ins)
                    pairs = RE_PAIR.findall(m.group(2)) if m else []
                    if not m or m.group(1) not in vals or not pairs or m.group(2).count("@__llgo_py.") != len(pairs) \
                            or m.group(2).count("getelementptr") != len(pairs) or any(cs not in cstr for cs, _ in pairs):
                        unparsed.append(ins[:300])
                        continue
                    loads.append((vals[m.group(1)], [(cstr[cs], "__llgo_py." + var) for cs, var in pairs]))
                elif "@llgoLoadPyModSyms(" in ins and not ins.startswith("declare"):
                    unparsed.append("outside init: " + ins[:300])
    return {"loads": loads, "called": sorted(called), "unparsed": unparsed}


def loads_text(loads):
    """the format of `modeld_c19 loadsyms` / `compile`"""
    return ";".join("%s:%s" % (mv, ",".join("%s=%s" % (a, v) for a, v in pairs)) for mv, pairs in loads) or "."


def judge_loads(loads, called):
    """The specification, on the real IR alone: every Python function the package calls is stored by the package's own
    init through `PyObject_GetAttrString(<module object of M>, a)` where the variable is `M.a` and `a` has no dot (the C
    helper does a plain attribute lookup).  -> list of problems"""
    problems = []
    good = set()
    for modvar, pairs in loads:
        for cs, var in pairs:
            if var == modvar + "." + cs and "." not in cs and cs != "":
                good.add(var)
            else:
                problems.append({"problem": "wrong-lookup", "symbol": var, "looked_up_in": modvar, "attribute_string": cs})
    bad = {p["symbol"] for p in problems}
    for v in called:
        if v not in good and v not in bad:
            problems.append({"problem": "not-loaded", "symbol": v})
    return problems


# ------------------------------------------------------------------ Lean text
def lean_use(u):
    k, m, a = u
    if k == "c":
        return ".call (%d, %d)" % (m, a)
    if k == "v":
        return ".var (%d, %d)" % (m, a)
    return ".explicitImport %d" % m


def lean_tok(t):
    if isinstance(t, str):
        return "." + t
    if t[0] == "callInit":
        return ".callInit %d" % t[1]
    if t[0] == "loadSyms":
        return ".loadSyms %d [%s]" % (t[1], ", ".join(str(n) for n in t[2]))
    if t[0] == "use":
        return ".use (%s)" % lean_use(t[1])
    if t[0] == "guardedImport":
        return ".guardedImport %d" % t[1]
    return ".other %d" % t[1]


def lean_fact(f, comment):
    return ("      -- %s\n      { id := %d,\n        toks := [%s],\n        inits := [%s], loadGroups := [%s],\n        initUses := [%s],\n"
            "        imp := %s, fnUses := [%s], intrinsics := false }") % (
        comment, f["id"], ", ".join(lean_tok(t) for t in f["toks"]), ", ".join(str(i) for i in f["inits"]),
        ", ".join("(%d, [%s])" % (m, ", ".join(str(n) for n in ns)) for m, ns in f["loadGroups"]),
        ", ".join(lean_use(u) for u in f["initUses"]), "none" if f["imp"] is None else "some %d" % f["imp"],
        ", ".join(lean_use(u) for u in f["fnUses"]))


def lean_file(progs):
    """progs: [dict(name, facts:[(comment, fact)], entry, main, calls)]"""
    L = ["import LlgoVerif.Spec.PyShape",
         "/-! REGENERATED on every run of ./check C19 from the -O0 IR llgo emits for the generated Python-using packages",
         "    (harness/c19/gen.py, harness/c19/irfacts.py). Do not edit. -/",
         "namespace LlgoVerif.Gen.C19", "open LlgoVerif.PyGuard", "", "def progs : List GenProg := ["]
    items = []
    for p in progs:
        items.append("  -- program %s\n  { main := %d,\n    entry := [%s],\n    calls := [%s],\n    facts := [\n%s] }" % (
            p["name"], p["main"], ", ".join("." + c for c in p["entry"]),
            ", ".join("(%d, %s)" % (pid, lean_use(u)) for pid, u in p["calls"]),
            ",\n".join(lean_fact(f, c) for c, f in p["facts"])))
    L.append(",\n".join(items) + "]")
    L += ["", "end LlgoVerif.Gen.C19", ""]
    return "\n".join(L)


def model_prog_text(facts):
    """the `PROG` argument of `modeld_c19 guard` for a list of facts (index = package number)"""
    def uses(us):
        return ",".join(("c%d.%d" % (m, a)) if k == "c" else ("v%d.%d" % (m, a)) if k == "v" else ("e%d" % m) for k, m, a in us) or "-"
    out = []
    for f in facts:
        loads = ",".join("%d.%d" % (m, n) for m, ns in f["loadGroups"] for n in ns) or "-"
        out.append("%s|%s|%s|%s|0|%s" % (",".join(str(i) for i in f["inits"]) or "-", "-" if f["imp"] is None else f["imp"],
                                        uses(f["initUses"]), uses(f["fnUses"]), loads))
    return ";".join(out)
