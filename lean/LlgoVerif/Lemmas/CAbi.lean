import LlgoVerif.Spec.SysV
/-!
# C09 — lemmas: natural layout, the split loop's running-offset invariant, eightbyte classes
-/
set_option linter.unusedSimpArgs false

namespace LlgoVerif.CAbi
open LlgoVerif.SysV

/-! ## arithmetic on the four scalar sizes -/

theorem size_cases (s : Scalar) : s.size = 1 ∨ s.size = 2 ∨ s.size = 4 ∨ s.size = 8 := by
  cases s <;> simp [Scalar.size]

theorem size_pos (s : Scalar) : 0 < s.size := by cases s <;> simp [Scalar.size]

theorem size_le8 (s : Scalar) : s.size ≤ 8 := by cases s <;> simp [Scalar.size]

/-- Go's `(offset + size + align-1) &^ (align-1)` is "align the start, then add the size" -/
theorem alignUp_add_size (c : Nat) (s : Scalar) : alignUp (c + s.size) s.size = alignUp c s.size + s.size := by
  rcases size_cases s with h | h | h | h <;> rw [h] <;> unfold alignUp <;> omega

theorem alignUp_ge (c : Nat) (s : Scalar) : c ≤ alignUp c s.size := by
  rcases size_cases s with h | h | h | h <;> rw [h] <;> unfold alignUp <;> omega

theorem alignUp_add8 (c : Nat) (s : Scalar) : alignUp (c + 8) s.size = alignUp c s.size + 8 := by
  rcases size_cases s with h | h | h | h <;> rw [h] <;> unfold alignUp <;> omega

/-- an element that starts below 8 ends at or below 8 (natural alignment: no scalar straddles an eightbyte) -/
theorem no_straddle (c : Nat) (s : Scalar) (h : alignUp c s.size < 8) : alignUp c s.size + s.size ≤ 8 := by
  rcases size_cases s with h1 | h1 | h1 | h1 <;> rw [h1] at h ⊢ <;> unfold alignUp at h ⊢ <;> omega

theorem alignUp_le8 (c : Nat) (s : Scalar) (h : c ≤ 8) : alignUp c s.size ≤ 8 := by
  rcases size_cases s with h1 | h1 | h1 | h1 <;> rw [h1] <;> unfold alignUp <;> omega

/-! ## natural layout -/

theorem natEnd_ge (l : List Scalar) (c : Nat) : c ≤ natEnd l c := by
  induction l generalizing c with
  | nil => simp [natEnd]
  | cons s r ih =>
    simp only [natEnd]
    have := ih (alignUp c s.size + s.size)
    have := alignUp_ge c s
    omega

theorem natEnd_cons_gt (s : Scalar) (r : List Scalar) (c : Nat) : c < natEnd (s :: r) c := by
  simp only [natEnd]
  have := natEnd_ge r (alignUp c s.size + s.size)
  have := alignUp_ge c s
  have := size_pos s
  omega

theorem natLayout_bounds (l : List Scalar) (c : Nat) :
    ∀ e ∈ natLayout l c, c ≤ e.1 ∧ e.1 + e.2.size ≤ natEnd l c := by
  induction l generalizing c with
  | nil => simp [natLayout]
  | cons s r ih =>
    intro e he
    simp only [natLayout, List.mem_cons] at he
    simp only [natEnd]
    have h1 := alignUp_ge c s
    have h2 := natEnd_ge r (alignUp c s.size + s.size)
    rcases he with rfl | he
    · simp; omega
    · have := ih _ e he
      omega

theorem natLayout_types (l : List Scalar) (c : Nat) : (natLayout l c).map (·.2) = l := by
  induction l generalizing c with
  | nil => simp [natLayout]
  | cons s r ih => simp [natLayout, ih]

theorem natLayout_shift8 (l : List Scalar) (c : Nat) : natLayout l (c + 8) = shift 8 (natLayout l c) := by
  induction l generalizing c with
  | nil => simp [natLayout, shift]
  | cons s r ih =>
    simp only [natLayout, shift, List.map_cons]
    rw [alignUp_add8]
    have : alignUp c s.size + 8 + s.size = (alignUp c s.size + s.size) + 8 := by omega
    rw [this, ih]
    simp [shift]

theorem natEnd_shift8 (l : List Scalar) (c : Nat) : natEnd l (c + 8) = natEnd l c + 8 := by
  induction l generalizing c with
  | nil => simp [natEnd]
  | cons s r ih =>
    simp only [natEnd]
    rw [alignUp_add8]
    have : alignUp c s.size + 8 + s.size = (alignUp c s.size + s.size) + 8 := by omega
    rw [this, ih]

theorem subFold_eq_natEnd (l : List Scalar) (n : Nat) : subFold l n = natEnd l n := by
  induction l generalizing n with
  | nil => simp [subFold, natEnd]
  | cons s r ih => simp only [subFold, natEnd]; rw [alignUp_add_size, ih]

/-! ## the split loop: running-offset invariant

`splitLoop types cur i` is entered with the running offset `cur < 8` (everything before lies in the first
eightbyte).  If the natural layout of `types` from `cur` reaches beyond byte 8, the loop stops at `i + k`
where the first `k` elements end at or before byte 8 and the remaining ones are laid out from byte 8 on. -/
theorem splitLoop_spec (types : List Scalar) (cur i : Nat) (hcur : cur < 8) (hend : 8 < natEnd types cur) :
    ∃ k, splitLoop types cur i = i + k ∧ k ≤ types.length ∧
      natEnd (types.take k) cur ≤ 8 ∧
      natLayout types cur = natLayout (types.take k) cur ++ natLayout (types.drop k) 8 ∧
      natEnd types cur = natEnd (types.drop k) 8 ∧
      types.drop k ≠ [] := by
  induction types generalizing cur i with
  | nil => simp [natEnd] at hend; omega
  | cons s r ih =>
    simp only [splitLoop]
    rw [alignUp_add_size]
    by_cases h1 : alignUp cur s.size + s.size < 8
    · -- still inside the first eightbyte
      simp only [h1, if_true]
      have hend' : 8 < natEnd r (alignUp cur s.size + s.size) := by simpa [natEnd] using hend
      obtain ⟨k, hk, hlen, hle, hlay, he, hne⟩ := ih (alignUp cur s.size + s.size) (i + 1) h1 hend'
      refine ⟨k + 1, by omega, by simp; omega, ?_, ?_, ?_, ?_⟩
      · simpa [natEnd] using hle
      · simp only [List.take_succ_cons, List.drop_succ_cons, natLayout, List.cons_append]
        rw [hlay]
      · simpa [natEnd] using he
      · simpa using hne
    · simp only [h1, if_false]
      by_cases h2 : 8 < alignUp cur s.size + s.size
      · -- the element starts exactly at byte 8
        simp only [h2, if_true]
        have hstart : alignUp cur s.size = 8 := by
          have hle := alignUp_le8 cur s (by omega)
          by_cases hlt : alignUp cur s.size < 8
          · have := no_straddle cur s hlt; omega
          · omega
        refine ⟨0, by omega, by simp, by simp [natEnd]; omega, ?_, ?_, by simp⟩
        · simp only [List.take_zero, List.drop_zero, natLayout, List.nil_append]
          have h8 : alignUp 8 s.size = 8 := by
            rcases size_cases s with h | h | h | h <;> rw [h] <;> unfold alignUp <;> omega
          rw [hstart, h8]
        · simp only [List.drop_zero, natEnd]
          have h8 : alignUp 8 s.size = 8 := by
            rcases size_cases s with h | h | h | h <;> rw [h] <;> unfold alignUp <;> omega
          rw [hstart, h8]
      · -- the element ends exactly at byte 8
        simp only [h2, if_false]
        have he8 : alignUp cur s.size + s.size = 8 := by omega
        refine ⟨1, by omega, by simp, ?_, ?_, ?_, ?_⟩
        · simp [natEnd]; omega
        · simp only [List.take_succ_cons, List.take_zero, List.drop_succ_cons, List.drop_zero, natLayout,
            List.cons_append, List.nil_append]
          rw [he8]
        · simp only [List.drop_succ_cons, List.drop_zero, natEnd]; rw [he8]
        · simp only [List.drop_succ_cons, List.drop_zero]
          intro hr
          rw [hr] at hend
          simp [natEnd] at hend
          omega

/-- from offset 0 the loop never stops at index 0 -/
theorem splitLoop_pos (types : List Scalar) (hend : 8 < natEnd types 0) : 0 < splitLoop types 0 0 := by
  cases types with
  | nil => simp [natEnd] at hend
  | cons s r =>
    simp only [splitLoop]
    rw [alignUp_add_size]
    have h0 : alignUp 0 s.size = 0 := by
      rcases size_cases s with h | h | h | h <;> rw [h] <;> unfold alignUp <;> omega
    rw [h0, Nat.zero_add]
    have := size_le8 s
    by_cases h1 : s.size < 8
    · simp only [h1, if_true]
      have hend' : 8 < natEnd r s.size := by simpa [natEnd, h0] using hend
      obtain ⟨k, hk, _⟩ := splitLoop_spec r s.size (0 + 1) h1 hend'
      omega
    · simp only [h1, if_false]
      have : ¬ 8 < s.size := by omega
      simp [this]

/-! ## more layout facts -/

theorem le_alignUp (x a : Nat) (ha : 0 < a) : x ≤ alignUp x a := by
  unfold alignUp
  have := Nat.lt_div_mul_add (a := x + a - 1) ha
  omega

theorem maxAlign_cases (l : List Scalar) : maxAlign l = 1 ∨ maxAlign l = 2 ∨ maxAlign l = 4 ∨ maxAlign l = 8 := by
  induction l with
  | nil => simp [maxAlign]
  | cons s r ih =>
    simp only [maxAlign]
    rcases size_cases s with h | h | h | h <;> rcases ih with h' | h' | h' | h' <;> rw [h, h'] <;> simp

theorem natLayout_append (a b : List Scalar) (c : Nat) :
    natLayout (a ++ b) c = natLayout a c ++ natLayout b (natEnd a c) := by
  induction a generalizing c with
  | nil => simp [natLayout, natEnd]
  | cons s r ih => simp [natLayout, natEnd, ih]

theorem natEnd_append (a b : List Scalar) (c : Nat) : natEnd (a ++ b) c = natEnd b (natEnd a c) := by
  induction a generalizing c with
  | nil => simp [natEnd]
  | cons s r ih => simp [natEnd, ih]

/-! ## eightbyte classes -/

def clsList : List Scalar → Class
  | [] => .noClass
  | s :: r => merge (clsOf s) (clsList r)

theorem merge_assoc (a b c : Class) : merge (merge a b) c = merge a (merge b c) := by
  cases a <;> cases b <;> cases c <;> rfl

theorem merge_noClass_right (a : Class) : merge a .noClass = a := by cases a <;> rfl

theorem ebClass_append (a b : List Elem) (k : Nat) : ebClass (a ++ b) k = merge (ebClass a k) (ebClass b k) := by
  induction a with
  | nil => simp [ebClass, merge]
  | cons e r ih =>
    simp only [List.cons_append, ebClass]
    split
    · rw [ih, merge_assoc]
    · exact ih

theorem ebClass_in (l : List Elem) (k : Nat) (h : ∀ e ∈ l, e.1 / 8 = k) : ebClass l k = clsList (l.map (·.2)) := by
  induction l with
  | nil => simp [ebClass, clsList]
  | cons e r ih =>
    have he := h e (by simp)
    simp only [ebClass, he, if_true, List.map_cons, clsList]
    rw [ih (fun x hx => h x (by simp [hx]))]

theorem ebClass_out (l : List Elem) (k : Nat) (h : ∀ e ∈ l, e.1 / 8 ≠ k) : ebClass l k = .noClass := by
  induction l with
  | nil => simp [ebClass]
  | cons e r ih =>
    have he := h e (by simp)
    simp only [ebClass, he, if_false]
    exact ih (fun x hx => h x (by simp [hx]))

theorem clsOf_ne_noClass (s : Scalar) : clsOf s ≠ .noClass := by cases s <;> simp [clsOf, Scalar.isSSE]

theorem merge_eq_sse (s : Scalar) (x : Class) (h : merge (clsOf s) x = .sse) :
    s.isSSE = true ∧ (x = .sse ∨ x = .noClass) := by
  cases s <;> cases x <;> simp_all [clsOf, Scalar.isSSE, merge]

theorem clsList_cons_ne_noClass (s : Scalar) (r : List Scalar) : clsList (s :: r) ≠ .noClass := by
  simp only [clsList]
  cases s <;> cases clsList r <;> simp [clsOf, Scalar.isSSE, merge]

theorem isSSE_size (s : Scalar) (h : s.isSSE = true) : 4 ≤ s.size := by cases s <;> simp_all [Scalar.isSSE, Scalar.size]

/-- a list of ≥ 2 scalars that fits into one eightbyte and is all SSE is exactly `[float, float]` -/
theorem fit8_allSSE (l : List Scalar) (hfit : natEnd l 0 ≤ 8) (hlen : 2 ≤ l.length) (hcls : clsList l = .sse) :
    l = [.f32, .f32] := by
  match l, hlen with
  | [a, b], _ =>
    revert hfit hcls
    cases a <;> cases b <;> decide
  | a :: b :: c :: r, _ =>
    exfalso
    simp only [clsList] at hcls
    obtain ⟨ha, hx⟩ := merge_eq_sse a _ hcls
    have hb : merge (clsOf b) (merge (clsOf c) (clsList r)) = .sse := by
      rcases hx with h | h
      · exact h
      · exact absurd h (clsList_cons_ne_noClass b (c :: r))
    obtain ⟨hb', hy⟩ := merge_eq_sse b _ hb
    have hc : merge (clsOf c) (clsList r) = .sse := by
      rcases hy with h | h
      · exact h
      · exact absurd h (clsList_cons_ne_noClass c r)
    obtain ⟨hc', _⟩ := merge_eq_sse c _ hc
    have h1 := isSSE_size a ha
    have h2 := isSSE_size b hb'
    have h3 := isSSE_size c hc'
    simp only [natEnd] at hfit
    have g1 := natEnd_ge r (alignUp (alignUp (alignUp 0 a.size + a.size) b.size + b.size) c.size + c.size)
    have g2 := alignUp_ge (alignUp (alignUp 0 a.size + a.size) b.size + b.size) c
    have g3 := alignUp_ge (alignUp 0 a.size + a.size) b
    omega

theorem regTy_isSSE (s : Scalar) : s.regTy.isSSE = s.isSSE := by cases s <;> rfl
theorem regTy_bytes (s : Scalar) : s.regTy.bytes = s.size := by cases s <;> rfl
theorem clsOf_sse_iff (s : Scalar) : decide (clsOf s = .sse) = s.isSSE := by cases s <;> rfl

/-! ## the two halves chosen by `subType` -/

theorem natLayout_end_le (l : List Scalar) (c : Nat) (e : Elem) (he : e ∈ natLayout l c) : e.1 + e.2.size ≤ natEnd l c :=
  (natLayout_bounds l c e he).2

theorem subType_single (al : Nat) (s : Scalar) (left : Bool) : subTypeLegacy al [s] left = s.regTy := rfl
theorem subType_ff (al : Nat) (left : Bool) : subTypeLegacy al [.f32, .f32] left = .v2f32 := by
  simp [subTypeLegacy]

/-- left half: a non-empty list that fits into the first eightbyte -/
theorem subType_left (al : Nat) (L : List Scalar) (hne : L ≠ []) (hfit : natEnd L 0 ≤ 8) :
    regCls (subTypeLegacy al L true) = clsList L ∧ (subTypeLegacy al L true).bytes ≤ 8 ∧
    (∀ e ∈ natLayout L 0, e.1 + e.2.size ≤ (subTypeLegacy al L true).bytes) ∧
    ((subTypeLegacy al L true).allocSize = 8 ∨ ∃ s, L = [s]) := by
  match L, hne with
  | [s], _ =>
    rw [subType_single]
    refine ⟨?_, ?_, ?_, Or.inr ⟨s, rfl⟩⟩
    · cases s <;> rfl
    · cases s <;> decide
    · intro e he
      have := natLayout_end_le [s] 0 e he
      simp only [regTy_bytes]
      have h0 : natEnd [s] 0 = s.size := by
        simp only [natEnd]
        rcases size_cases s with h | h | h | h <;> rw [h] <;> unfold alignUp <;> omega
      omega
  | a :: b :: r, _ =>
    by_cases hff : a :: b :: r = [.f32, .f32]
    · rw [hff, subType_ff]
      refine ⟨by decide, by decide, ?_, Or.inl (by decide)⟩
      intro e he
      revert e; decide
    · have hst : subTypeLegacy al (a :: b :: r) true = .int 8 := by
        simp only [subTypeLegacy, hff, if_false, if_true]
      rw [hst]
      refine ⟨?_, by decide, ?_, Or.inl (by decide)⟩
      · have h1 : clsList (a :: b :: r) ≠ .sse := fun h => hff (fit8_allSSE _ hfit (by simp) h)
        have h2 := clsList_cons_ne_noClass a (b :: r)
        cases hc : clsList (a :: b :: r) <;> simp_all [regCls, RegTy.isSSE]
      · intro e he
        have := natLayout_end_le _ 0 e he
        simp only [RegTy.bytes]; omega

theorem alignUp_le_of_le8 (x al : Nat) (hx : x ≤ 8) (hal : al = 1 ∨ al = 2 ∨ al = 4 ∨ al = 8) : alignUp x al ≤ 8 := by
  rcases hal with h | h | h | h <;> rw [h] <;> unfold alignUp <;> omega

/-- right half: a non-empty list that, laid out from 0, fits into one eightbyte -/
theorem subType_right (al : Nat) (hal : al = 1 ∨ al = 2 ∨ al = 4 ∨ al = 8) (R : List Scalar) (hne : R ≠ [])
    (hfit : natEnd R 0 ≤ 8) :
    regCls (subTypeLegacy al R false) = clsList R ∧ (subTypeLegacy al R false).bytes ≤ 8 ∧
    (∀ e ∈ natLayout R 0, e.1 + e.2.size ≤ (subTypeLegacy al R false).bytes) ∧
    ((subTypeLegacy al R false).abiAlign = 1 ∨ (subTypeLegacy al R false).abiAlign = 2 ∨ (subTypeLegacy al R false).abiAlign = 4 ∨
      (subTypeLegacy al R false).abiAlign = 8) := by
  match R, hne with
  | [s], _ =>
    rw [subType_single]
    refine ⟨?_, ?_, ?_, ?_⟩
    · cases s <;> rfl
    · cases s <;> decide
    · intro e he
      have := natLayout_end_le [s] 0 e he
      simp only [regTy_bytes]
      have h0 : natEnd [s] 0 = s.size := by
        simp only [natEnd]
        rcases size_cases s with h | h | h | h <;> rw [h] <;> unfold alignUp <;> omega
      omega
    · cases s <;> decide
  | a :: b :: r, _ =>
    by_cases hff : a :: b :: r = [.f32, .f32]
    · rw [hff, subType_ff]
      refine ⟨by decide, by decide, ?_, by decide⟩
      intro e he
      revert e; decide
    · have hst : subTypeLegacy al (a :: b :: r) false = .int (alignUp (natEnd (a :: b :: r) 0) al) := by
        simp only [subTypeLegacy, hff, if_false]
        rw [subFold_eq_natEnd]
        simp
      rw [hst]
      have hb := alignUp_le_of_le8 _ al hfit hal
      have hpos : 0 < al := by omega
      have hge := le_alignUp (natEnd (a :: b :: r) 0) al hpos
      refine ⟨?_, by simpa [RegTy.bytes] using hb, ?_, ?_⟩
      · have h1 : clsList (a :: b :: r) ≠ .sse := fun h => hff (fit8_allSSE _ hfit (by simp) h)
        have h2 := clsList_cons_ne_noClass a (b :: r)
        cases hc : clsList (a :: b :: r) <;> simp_all [regCls, RegTy.isSSE]
      · intro e he
        have := natLayout_end_le _ 0 e he
        simp only [RegTy.bytes]; omega
      · simp only [RegTy.abiAlign]
        split
        · simp
        · split
          · simp
          · split <;> simp

theorem alignUp8 (a : Nat) (ha : a = 1 ∨ a = 2 ∨ a = 4 ∨ a = 8) : alignUp 8 a = 8 := by
  rcases ha with h | h | h | h <;> rw [h] <;> decide

theorem alignUp_add8' (x al : Nat) (hal : al = 1 ∨ al = 2 ∨ al = 4 ∨ al = 8) : alignUp (x + 8) al = alignUp x al + 8 := by
  rcases hal with h | h | h | h <;> rw [h] <;> unfold alignUp <;> omega

/-! ## soundness of the classifier on naturally laid out lists -/

theorem regImage_two (size al : Nat) (types : List Scalar) (elems : List Elem) (h8 : 8 < size) (h16 : size ≤ 16) :
    regImage ⟨size, al, types, elems⟩ =
      .regs [(ebClass elems 0, 0), (ebClass elems 1, 8)] := by
  have h2 : (size + 7) / 8 = 2 := by omega
  have hr : List.range 2 = [0, 1] := by decide
  simp only [regImage, classifyAgg]
  rw [if_neg (by omega), if_neg (by omega), h2, hr]
  simp [imageOfClasses]

theorem regImage_one (size al : Nat) (types : List Scalar) (elems : List Elem) (h0 : size ≠ 0) (h8 : size ≤ 8) :
    regImage ⟨size, al, types, elems⟩ = .regs [(ebClass elems 0, 0)] := by
  have h2 : (size + 7) / 8 = 1 := by omega
  have hr : List.range 1 = [0] := by decide
  simp only [regImage, classifyAgg]
  rw [if_neg h0, if_neg (by omega), h2, hr]
  simp [imageOfClasses]

/-- the general two-eightbyte branch (`splitLoop` + `subType`), for EVERY naturally laid out scalar list -/
theorem splitClassify_sound (types : List Scalar) (size al : Nat)
    (hal : al = maxAlign types) (hsz : size = alignUp (natEnd types 0) al) (h8 : 8 < size) (h16 : size ≤ 16) :
    Sound (splitClassifyLegacy al types) ⟨size, al, types, natLayout types 0⟩ := by
  have halc : al = 1 ∨ al = 2 ∨ al = 4 ∨ al = 8 := hal ▸ maxAlign_cases types
  have hpos : 0 < al := by omega
  have hend : 8 < natEnd types 0 := by
    by_cases h : natEnd types 0 ≤ 8
    · have := alignUp_le_of_le8 _ al h halc; omega
    · omega
  have hend16 : natEnd types 0 ≤ 16 := by have := le_alignUp (natEnd types 0) al hpos; omega
  obtain ⟨k, hk, hlen, hle, hlay, he, hne⟩ := splitLoop_spec types 0 0 (by omega) hend
  have kpos := splitLoop_pos types hend
  rw [hk] at kpos
  have hidx : splitLoop types 0 0 = k := by omega
  have hLne : types.take k ≠ [] := by
    intro h
    have h' := congrArg List.length h
    rw [List.length_take] at h'
    simp only [List.length_nil] at h'
    omega
  -- the right half, seen from offset 0
  have hR8 : natEnd (types.drop k) 8 = natEnd (types.drop k) 0 + 8 := by
    have := natEnd_shift8 (types.drop k) 0; simpa using this
  have hRlay : natLayout (types.drop k) 8 = shift 8 (natLayout (types.drop k) 0) := by
    have := natLayout_shift8 (types.drop k) 0; simpa using this
  have hRfit : natEnd (types.drop k) 0 ≤ 8 := by omega
  have hsize : size = alignUp (natEnd (types.drop k) 0) al + 8 := by
    rw [hsz, he, hR8, alignUp_add8' _ _ halc]
  obtain ⟨l1, l2, l3, l4⟩ := subType_left al (types.take k) hLne hle
  obtain ⟨r1, r2, r3, r4⟩ := subType_right al halc (types.drop k) hne hRfit
  -- the second half is loaded from byte 8
  have hoff : off2 (subTypeLegacy al (types.take k) true) (subTypeLegacy al (types.drop k) false) = 8 := by
    rcases l4 with h | ⟨s, hs⟩
    · unfold off2; rw [h]; exact alignUp8 _ r4
    · -- a single small scalar on the left: the right half is a single 8-byte scalar
      have happ : natLayout types 0 = natLayout (types.take k) 0 ++ natLayout (types.drop k) (natEnd (types.take k) 0) := by
        have := natLayout_append (types.take k) (types.drop k) 0
        rwa [List.take_append_drop] at this
      have hEapp : natEnd types 0 = natEnd (types.drop k) (natEnd (types.take k) 0) := by
        have := natEnd_append (types.take k) (types.drop k) 0
        rwa [List.take_append_drop] at this
      rw [hlay] at happ
      have hcancel := List.append_cancel_left happ
      rw [hs] at hcancel hle ⊢
      rw [subType_single]
      have hs0 : natEnd [s] 0 = s.size := by
        simp only [natEnd]
        rcases size_cases s with h | h | h | h <;> rw [h] <;> unfold alignUp <;> omega
      rw [hs0] at hcancel
      obtain ⟨x, R', hR⟩ := List.exists_cons_of_ne_nil hne
      rw [hR] at hcancel hRfit r4 ⊢
      have hx : alignUp 8 x.size = alignUp s.size x.size := by
        have := congrArg (fun l => (l.map (·.1)).head?) hcancel
        simpa [natLayout] using this
      by_cases hs8 : s.size = 8
      · have : s.regTy.allocSize = 8 := by cases s <;> simp_all [Scalar.size] <;> decide
        unfold off2; rw [this]; exact alignUp8 _ r4
      · -- alignUp 8 x.size = alignUp s.size x.size forces x.size = 8
        have hx8 : x.size = 8 := by
          have := size_le8 s
          rcases size_cases s with h | h | h | h <;> rcases size_cases x with h' | h' | h' | h' <;>
            rw [h, h'] at hx <;> unfold alignUp at hx <;> omega
        have hR'nil : R' = [] := by
          cases R' with
          | nil => rfl
          | cons y R'' =>
            exfalso
            simp only [natEnd] at hRfit
            have := natEnd_ge R'' (alignUp (alignUp 0 x.size + x.size) y.size + y.size)
            have := alignUp_ge (alignUp 0 x.size + x.size) y
            have := size_pos y
            have := alignUp_ge 0 x
            omega
        rw [hR'nil, subType_single]
        cases s <;> cases x <;> simp_all [Scalar.size] <;> decide
  have hview : (⟨size, al, types, natLayout types 0⟩ : View).elems = natLayout types 0 := rfl
  -- classes of the two eightbytes
  have hL0 : ∀ e ∈ natLayout (types.take k) 0, e.1 / 8 = 0 := by
    intro e he'
    have := natLayout_bounds _ 0 e he'
    have := size_pos e.2
    omega
  have hR1 : ∀ e ∈ natLayout (types.drop k) 8, e.1 / 8 = 1 := by
    intro e he'
    have := natLayout_bounds _ 8 e he'
    have := size_pos e.2
    omega
  have hc0 : ebClass (natLayout types 0) 0 = clsList (types.take k) := by
    rw [hlay, ebClass_append, ebClass_in _ 0 hL0, natLayout_types,
      ebClass_out _ 0 (fun e he' => by have := hR1 e he'; omega), merge_noClass_right]
  have hc1 : ebClass (natLayout types 0) 1 = clsList (types.drop k) := by
    rw [hlay, ebClass_append, ebClass_in _ 1 hR1, natLayout_types,
      ebClass_out _ 1 (fun e he' => by have := hL0 e he'; omega)]
    simp [merge]
  unfold splitClassifyLegacy
  rw [hidx]
  refine ⟨?_, ?_, ?_⟩
  · rw [regImage_two _ _ _ _ h8 h16, hc0, hc1]
    simp only [kindImage, kindRegs, List.map_cons, List.map_nil, hoff, l1, r1]
  · intro r hr
    simp only [kindRegs, List.mem_cons, List.mem_nil_iff, or_false] at hr
    rcases hr with rfl | rfl
    · exact l2
    · exact r2
  · intro _ e he'
    rw [hview, hlay, List.mem_append] at he'
    simp only [covered, kindRegs, List.any_cons, List.any_nil, Bool.or_false, Bool.or_eq_true, Bool.and_eq_true,
      decide_eq_true_eq, hoff]
    rcases he' with h | h
    · left
      have := l3 e h
      omega
    · right
      rw [hRlay] at h
      simp only [shift, List.mem_map] at h
      obtain ⟨e', he', rfl⟩ := h
      have := r3 e' he'
      simp only
      omega

/-- one- and two-element lists (the `n < 2` and `n == 2` special cases of the Go code): finitely many, checked by evaluation -/
theorem one_sound (a : Scalar) :
    Sound (getTypeInfoLegacy (alignUp (natEnd [a] 0) (maxAlign [a])) (maxAlign [a]) [a])
      ⟨alignUp (natEnd [a] 0) (maxAlign [a]), maxAlign [a], [a], natLayout [a] 0⟩ := by
  cases a <;> decide

theorem two_sound (a b : Scalar) :
    Sound (getTypeInfoLegacy (alignUp (natEnd [a, b] 0) (maxAlign [a, b])) (maxAlign [a, b]) [a, b])
      ⟨alignUp (natEnd [a, b] 0) (maxAlign [a, b]), maxAlign [a, b], [a, b], natLayout [a, b] 0⟩ := by
  cases a <;> cases b <;> decide

theorem natEnd3_ff (c : Scalar) (r : List Scalar) : 8 < natEnd (.f32 :: .f32 :: c :: r) 0 := by
  simp only [natEnd]
  have h1 := natEnd_ge r (alignUp (alignUp (alignUp 0 Scalar.f32.size + Scalar.f32.size) Scalar.f32.size + Scalar.f32.size) c.size + c.size)
  have h2 := alignUp_ge (alignUp (alignUp 0 Scalar.f32.size + Scalar.f32.size) Scalar.f32.size + Scalar.f32.size) c
  have h3 := size_pos c
  have h4 : alignUp (alignUp 0 Scalar.f32.size + Scalar.f32.size) Scalar.f32.size + Scalar.f32.size = 8 := by decide
  omega

/-- **`TypeInfoAmd64.GetTypeInfo` is sound on every naturally laid out scalar list** (any length) -/
theorem getTypeInfo_sound (types : List Scalar) (size al : Nat)
    (hal : al = maxAlign types) (hsz : size = alignUp (natEnd types 0) al) (h0 : size ≠ 0) :
    Sound (getTypeInfoLegacy size al types) ⟨size, al, types, natLayout types 0⟩ := by
  match types with
  | [] => subst hal; subst hsz; exact absurd (by decide) h0
  | [a] => subst hal; subst hsz; exact one_sound a
  | [a, b] => subst hal; subst hsz; exact two_sound a b
  | a :: b :: c :: r =>
    have halc : al = 1 ∨ al = 2 ∨ al = 4 ∨ al = 8 := hal ▸ maxAlign_cases _
    have hpos : 0 < al := by omega
    have hge := le_alignUp (natEnd (a :: b :: c :: r) 0) al hpos
    have hlen : (a :: b :: c :: r).length ≥ 2 := by simp
    unfold getTypeInfoLegacy
    rw [if_pos hlen]
    by_cases h16 : size > 16
    · rw [if_pos h16]
      refine ⟨?_, by simp [kindRegs], fun h => absurd rfl h⟩
      simp only [kindImage, regImage, classifyAgg]
      rw [if_neg h0, if_pos h16]
    · rw [if_neg h16]
      by_cases h8 : size ≤ 8
      · rw [if_pos h8]
        have hnff : ¬ (a = .f32 ∧ b = .f32) := by
          rintro ⟨rfl, rfl⟩
          have := natEnd3_ff c r
          omega
        have hpk : smallClassify size (a :: b :: c :: r) = .coerce (.int size) := by
          unfold smallClassify
          split
          · rename_i heq
            simp only [List.cons.injEq] at heq
            exact absurd ⟨heq.1, heq.2.1⟩ hnff
          · rfl
        rw [hpk]
        have hfit : natEnd (a :: b :: c :: r) 0 ≤ 8 := by omega
        have hall : ∀ e ∈ natLayout (a :: b :: c :: r) 0, e.1 / 8 = 0 := by
          intro e he
          have := natLayout_bounds _ 0 e he
          have := size_pos e.2
          omega
        have hcls : ebClass (natLayout (a :: b :: c :: r) 0) 0 = clsList (a :: b :: c :: r) := by
          rw [ebClass_in _ 0 hall, natLayout_types]
        have hns : clsList (a :: b :: c :: r) ≠ .sse := by
          intro h
          have := fit8_allSSE _ hfit hlen h
          simp at this
        refine ⟨?_, ?_, ?_⟩
        · rw [regImage_one _ _ _ _ h0 h8]
          simp only [hcls]
          have hnn := clsList_cons_ne_noClass a (b :: c :: r)
          cases hc : clsList (a :: b :: c :: r) <;> simp_all [kindImage, kindRegs, regCls, RegTy.isSSE]
        · intro r' hr'
          simp only [kindRegs, List.mem_cons, List.mem_nil_iff, or_false] at hr'
          subst hr'
          simpa [RegTy.bytes] using h8
        · intro _ e he
          have := natLayout_bounds _ 0 e he
          simp [covered, kindRegs, RegTy.bytes]
          omega
      · rw [if_neg h8]
        exact splitClassify_sound _ size al hal hsz (by omega) (by omega)

theorem classifyV_sound (v : View) (hn : v.natural) (isRet : Bool) : Sound (classifyLegacyV v isRet) v := by
  obtain ⟨size, al, types, elems⟩ := v
  obtain ⟨h1, h2, h3⟩ := hn
  simp only at h1 h2 h3
  subst h1
  unfold classifyLegacyV
  by_cases h0 : size = 0
  · simp only [h0, if_true]
    have hal := maxAlign_cases types
    have hge := le_alignUp (natEnd types 0) al (by omega)
    have ht : types = [] := by
      cases types with
      | nil => rfl
      | cons s r => have := natEnd_cons_gt s r 0; omega
    subst ht
    cases isRet <;> simp [Sound, kindImage, kindRegs, regImage, classifyAgg, natLayout]
  · simp only [h0, if_false]
    exact getTypeInfo_sound types size al h3 h2 h0

/-! ## flat structs are always naturally laid out -/

theorem elemsL_scalars (fs : List Scalar) (cur : Nat) : elemsL (fs.map .sc) cur = natLayout fs cur := by
  induction fs generalizing cur with
  | nil => simp [elemsL, natLayout]
  | cons s r ih => simp [elemsL, natLayout, CType.elems, CType.align, CType.size, shift, ih]

theorem endL_scalars (fs : List Scalar) (cur : Nat) : endL (fs.map .sc) cur = natEnd fs cur := by
  induction fs generalizing cur with
  | nil => simp [endL, natEnd]
  | cons s r ih => simp [endL, natEnd, CType.align, CType.size, ih]

theorem alignL_scalars (fs : List Scalar) : alignL (fs.map .sc) = maxAlign fs := by
  induction fs with
  | nil => simp [alignL, maxAlign]
  | cons s r ih => simp [alignL, maxAlign, CType.align, ih]

theorem flattenL_scalars (fs : List Scalar) : flattenL (fs.map .sc) = fs := by
  induction fs with
  | nil => simp [flattenL]
  | cons s r ih => simp [flattenL, CType.flatten, ih]

theorem natural_flat (fs : List Scalar) : (CType.struct (fs.map .sc)).view.natural := by
  simp [View.natural, CType.view, CType.elems, CType.size, CType.align, CType.flatten,
    elemsL_scalars, endL_scalars, alignL_scalars, flattenL_scalars]

/-! ## placement: per-parameter classification followed by the scalar convention vs the sequential psABI assignment -/

def St.ok (st : St) : Prop := st.gpr ≤ 6 ∧ st.sse ≤ 8

theorem imageOfClasses_fst (cs : List Class) (k : Nat) : (imageOfClasses cs k).map (·.1) = cs := by
  induction cs generalizing k with
  | nil => simp [imageOfClasses]
  | cons c r ih => simp [imageOfClasses, ih]

/-- what `regImage v = .regs img` says about `classifyAgg` -/
theorem regImage_regs (v : View) (img : List (Class × Nat)) (h : regImage v = .regs img) (hne : img ≠ []) :
    classifyAgg v.size v.elems = .regs (img.map (·.1)) ∧ (v.size + 7) / 8 = img.length := by
  unfold regImage at h
  cases hc : classifyAgg v.size v.elems with
  | none => rw [hc] at h; simp only [Image.regs.injEq] at h; exact absurd h.symm hne
  | memory => rw [hc] at h; simp at h
  | regs cs =>
    rw [hc] at h
    simp only [Image.regs.injEq] at h
    subst h
    rw [imageOfClasses_fst]
    refine ⟨rfl, ?_⟩
    unfold classifyAgg at hc
    split at hc
    · simp at hc
    · split at hc
      · simp at hc
      · simp only [ArgClass.regs.injEq] at hc
        have := congrArg List.length hc
        simp at this
        have h2 : (imageOfClasses cs 0).length = cs.length := by
          have := congrArg List.length (imageOfClasses_fst cs 0)
          simpa using this
        omega

theorem alignUp_mul8 (x : Nat) : alignUp (alignUp x 8 + 8) 8 = alignUp x 8 + 8 := by unfold alignUp; omega

/-- ONE register of class `regCls r`: scalar convention = psABI (no hypothesis on free registers needed) -/
theorem place_single (r : RegTy) (v : View) (st : St) (hst : st.ok) (hal : v.align ≤ 8)
    (himg : regImage v = .regs [(regCls r, 0)]) :
    ccArgs [.scalar r] st = placeArg v st := by
  obtain ⟨hc, hn⟩ := regImage_regs v _ himg (by simp)
  simp only [List.map_cons, List.map_nil, List.length_cons, List.length_nil] at hc hn
  obtain ⟨hg, hs⟩ := hst
  have hsz8 : alignUp v.size 8 = 8 := by unfold alignUp; omega
  have hmax : max 8 v.align = 8 := by omega
  have hr1 : List.range 1 = [0] := by decide
  unfold placeArg
  rw [hc]
  simp only [ccArgs, ccArg, List.append_nil]
  cases hr : r.isSSE
  · simp only [regCls, hr, Bool.false_eq_true, if_false, fits, countInt, countSse, assignRegs, toStack, hn, hr1,
      hmax, hsz8]
    by_cases h : st.gpr < 6
    · have : st.gpr + 1 ≤ 6 := by omega
      simp [h, this, hs]
    · have : ¬ st.gpr + 1 ≤ 6 := by omega
      simp [h, this]
  · simp only [regCls, hr, if_true, fits, countInt, countSse, assignRegs, toStack, hn, hr1, hmax, hsz8]
    by_cases h : st.sse < 8
    · have : st.sse + 1 ≤ 8 := by omega
      simp [h, this, hg]
    · have : ¬ st.sse + 1 ≤ 8 := by omega
      simp [h, this]

/-- TWO registers: equal when both fit, or when neither eightbyte can get a register -/
theorem place_double (r1 r2 : RegTy) (v : View) (st : St) (o : Nat) (hst : st.ok) (hal : v.align ≤ 8)
    (himg : regImage v = .regs [(regCls r1, 0), (regCls r2, o)])
    (hns : argNoSplit v st = true) :
    ccArgs [.scalar r1, .scalar r2] st = placeArg v st := by
  obtain ⟨hc, hn⟩ := regImage_regs v _ himg (by simp)
  simp only [List.map_cons, List.map_nil, List.length_cons, List.length_nil] at hc hn
  obtain ⟨hg, hs⟩ := hst
  have hsz8 : alignUp v.size 8 = 16 := by unfold alignUp; omega
  have hmax : max 8 v.align = 8 := by omega
  have hr2 : List.range 2 = [0, 1] := by decide
  unfold argNoSplit at hns
  rw [hc] at hns
  unfold placeArg
  rw [hc]
  have ha := alignUp_mul8 st.stack
  cases hr1 : r1.isSSE <;> cases hr2' : r2.isSSE <;>
    simp only [regCls, hr1, hr2', Bool.false_eq_true, if_false, if_true, fits, countInt, countSse, assignRegs, toStack,
      hn, hr2, hmax, hsz8, exhausted, List.all_cons, List.all_nil] at hns ⊢ <;>
    simp only [ccArgs, ccArg, hr1, hr2', Bool.false_eq_true, if_false, if_true, List.append_nil] <;>
    simp at hns ⊢
  · by_cases hg6 : st.gpr < 6 <;> by_cases hg5 : st.gpr + 1 < 6 <;>
      simp only [*, if_true, if_false] <;>
      first
        | (exfalso; omega)
        | (split <;> first | (exfalso; simp only [and_true, true_and] at *; omega) | (simp [ha]; try omega))
  · by_cases hg6 : st.gpr < 6 <;> by_cases hs8 : st.sse < 8 <;>
      simp only [*, if_true, if_false] <;>
      first
        | (exfalso; omega)
        | (split <;> first | (exfalso; simp only [and_true, true_and] at *; omega) | (simp [ha]; try omega))
  · by_cases hg6 : st.gpr < 6 <;> by_cases hs8 : st.sse < 8 <;>
      simp only [*, if_true, if_false] <;>
      first
        | (exfalso; omega)
        | (split <;> first | (exfalso; simp only [and_true, true_and] at *; omega) | (simp [ha]; try omega))
  · by_cases hs8 : st.sse < 8 <;> by_cases hs7 : st.sse + 1 < 8 <;>
      simp only [*, if_true, if_false] <;>
      first
        | (exfalso; omega)
        | (split <;> first | (exfalso; simp only [and_true, true_and] at *; omega) | (simp [ha]; try omega))

theorem natural_align (v : View) (hn : v.natural) : v.align = 1 ∨ v.align = 2 ∨ v.align = 4 ∨ v.align = 8 := by
  obtain ⟨_, _, h3⟩ := hn
  rw [h3]; exact maxAlign_cases _

theorem place_none (v : View) (st : St) (hst : st.ok) (himg : regImage v = .regs []) : placeArg v st = ([], st) := by
  unfold regImage at himg
  unfold placeArg
  cases hc : classifyAgg v.size v.elems with
  | none => rfl
  | memory => rw [hc] at himg; simp at himg
  | regs cs =>
    rw [hc] at himg
    simp only [Image.regs.injEq] at himg
    have : cs = [] := by
      cases cs with
      | nil => rfl
      | cons c r => simp [imageOfClasses] at himg
    subst this
    obtain ⟨hg, hs⟩ := hst
    simp [fits, countInt, countSse, assignRegs, hg, hs]

theorem place_memory (v : View) (st : St) (himg : regImage v = .memory) :
    ccArgs [.byval v.size v.align] st = placeArg v st := by
  unfold regImage at himg
  unfold placeArg
  cases hc : classifyAgg v.size v.elems with
  | none => rw [hc] at himg; simp at himg
  | memory => simp [ccArgs, ccArg]
  | regs cs => rw [hc] at himg; simp at himg

theorem smallClassify_ne (size : Nat) (types : List Scalar) :
    smallClassify size types ≠ .direct ∧ smallClassify size types ≠ .void := by
  unfold smallClassify; split <;> simp

theorem getTypeInfo_direct (size al : Nat) (types : List Scalar) (h : getTypeInfoLegacy size al types = .direct) :
    types.length < 2 := by
  unfold getTypeInfoLegacy at h
  split at h
  · exfalso
    split at h
    · simp at h
    · split at h
      · exact (smallClassify_ne size types).1 h
      · split at h
        · split at h
          · simp at h
          · simp [splitClassifyLegacy] at h
        · simp [splitClassifyLegacy] at h
  · omega

theorem getTypeInfo_ne_void (size al : Nat) (types : List Scalar) : getTypeInfoLegacy size al types ≠ .void := by
  intro h
  unfold getTypeInfoLegacy at h
  split at h
  · split at h
    · simp at h
    · split at h
      · exact (smallClassify_ne size types).2 h
      · split at h
        · split at h
          · simp at h
          · simp [splitClassifyLegacy] at h
        · simp [splitClassifyLegacy] at h
  · simp at h

/-- what the placement proofs need to know about a classifier `cls` on one view -/
structure ClsOK (cls : View → Bool → PassKind) (v : View) : Prop where
  sound : ∀ r, Sound (cls v r) v
  align8 : v.align ≤ 8
  direct : ∀ r, cls v r = .direct → (v.elems = [] ∧ v.types = []) ∨ ∃ s, v.elems = [(0, s)] ∧ v.types = [s]
  few : v.types.length < 2 → (v.size + 7) / 8 ≤ 1

/-- **one parameter**: per-parameter lowering followed by the scalar convention puts the parameter
    exactly where the psABI does, provided the parameter is not split (`argNoSplit`) -/
theorem placeArg_eq (cls : View → Bool → PassKind) (v : View) (st : St) (hst : st.ok) (hok : ClsOK cls v)
    (hns : argNoSplit v st = true) :
    ccArgs (lowerParamC cls v) st = placeArg v st := by
  have hs := hok.sound false
  have hal : v.align ≤ 8 := hok.align8
  unfold lowerParamC
  cases hk : cls v false with
  | void =>
    rw [hk] at hs
    have himg : regImage v = .regs [] := by simpa [kindImage, kindRegs] using hs.1.symm
    simp only [ccArgs]
    exact (place_none v st hst himg).symm
  | memory =>
    rw [hk] at hs
    have himg : regImage v = .memory := by simpa [kindImage] using hs.1.symm
    exact place_memory v st himg
  | coerce r =>
    rw [hk] at hs
    have himg : regImage v = .regs [(regCls r, 0)] := by simpa [kindImage, kindRegs] using hs.1.symm
    exact place_single r v st hst hal himg
  | coerce2 r1 r2 =>
    rw [hk] at hs
    have himg : regImage v = .regs [(regCls r1, 0), (regCls r2, off2 r1 r2)] := by
      simpa [kindImage, kindRegs] using hs.1.symm
    exact place_double r1 r2 v st (off2 r1 r2) hst hal himg hns
  | direct =>
    rw [hk] at hs
    have himg := hs.1.symm
    simp only [kindImage, kindRegs] at himg
    rcases hok.direct false hk with ⟨he, ht⟩ | ⟨s, he, ht⟩
    · rw [he] at himg
      rw [ht]
      simp only [List.map_nil, ccArgs] at himg ⊢
      exact (place_none v st hst himg).symm
    · rw [he] at himg
      rw [ht]
      simp only [List.map_cons, List.map_nil] at himg ⊢
      exact place_single s.regTy v st hst hal himg

theorem assignRegs_state (cs : List Class) (st : St) :
    (assignRegs cs st).2 = { gpr := st.gpr + countInt cs, sse := st.sse + countSse cs, stack := st.stack } := by
  induction cs generalizing st with
  | nil => simp [assignRegs, countInt, countSse]
  | cons c r ih =>
    cases c <;> simp only [assignRegs, ih] <;> simp [countInt, countSse, List.filter] <;> omega

theorem placeArg_ok (v : View) (st : St) (hst : st.ok) : (placeArg v st).2.ok := by
  unfold placeArg
  cases classifyAgg v.size v.elems with
  | none => exact hst
  | memory => exact hst
  | regs cs =>
    simp only
    split
    · rename_i hf
      rw [assignRegs_state]
      simp only [fits, Bool.and_eq_true, decide_eq_true_eq] at hf
      exact hf
    · exact hst

/-- **the whole parameter list**, by induction with the register/stack state as invariant -/
theorem placeArgs_eq (cls : View → Bool → PassKind) (vs : List View) (st : St) (hst : st.ok)
    (hn : ∀ v ∈ vs, ClsOK cls v) (hns : noSplitArgs vs st = true) : implPlaceArgsC cls vs st = placeArgs vs st := by
  induction vs generalizing st with
  | nil => rfl
  | cons v r ih =>
    simp only [noSplitArgs, Bool.and_eq_true] at hns
    have h1 := placeArg_eq cls v st hst (hn v (by simp)) hns.1
    simp only [implPlaceArgsC, placeArgs]
    rw [h1]
    rw [ih (placeArg v st).2 (placeArg_ok v st hst) (fun x hx => hn x (by simp [hx])) hns.2]

theorem count_le_length (cs : List Class) : countInt cs + countSse cs ≤ cs.length := by
  induction cs with
  | nil => simp [countInt, countSse]
  | cons c r ih => cases c <;> simp [countInt, countSse, List.filter] at ih ⊢ <;> omega

theorem classifyAgg_len (size : Nat) (elems : List Elem) (cs : List Class) (h : classifyAgg size elems = .regs cs) :
    cs.length ≤ 2 := by
  unfold classifyAgg at h
  split at h
  · simp at h
  · split at h
    · simp at h
    · simp only [ArgClass.regs.injEq] at h
      rw [← h]; simp; omega

/-- results: RAX/RDX, XMM0/XMM1 in class order, or `sret` -/
theorem implRet_eq (cls : View → Bool → PassKind) (r : Option View) (hn : ∀ v ∈ r, ClsOK cls v) :
    implRetC cls r = placeRet r := by
  cases r with
  | none => rfl
  | some v =>
    have hnv := hn v (by simp)
    have hs := hnv.sound true
    have hal : v.align ≤ 8 := hnv.align8
    have hok : (⟨0, 0, 0⟩ : St).ok := by simp [St.ok]
    -- at the empty state every register image fits
    have hfit : ∀ cs, classifyAgg v.size v.elems = .regs cs → fits cs ⟨0, 0, 0⟩ = true := by
      intro cs hc
      have := classifyAgg_len _ _ _ hc
      have := count_le_length cs
      simp [fits]; omega
    have hnsplit : argNoSplit v ⟨0, 0, 0⟩ = true := by
      unfold argNoSplit
      cases hc : classifyAgg v.size v.elems with
      | none => rfl
      | memory => rfl
      | regs cs => simp [hfit cs hc]
    have hspec : placeRet (some v) =
        (match classifyAgg v.size v.elems with
         | .memory => RetPlace.sret
         | _ => RetPlace.regs (placeArg v ⟨0, 0, 0⟩).1) := by
      simp only [placeRet, placeArg]
      cases hc : classifyAgg v.size v.elems with
      | none => simp
      | memory => simp
      | regs cs => simp [hfit cs hc]
    rw [hspec]
    unfold implRetC lowerRetC
    cases hk : cls v true with
    | void =>
      rw [hk] at hs
      simp only [hk]
      have himg : regImage v = .regs [] := by simpa [kindImage, kindRegs] using hs.1.symm
      have hp := place_none v ⟨0, 0, 0⟩ hok himg
      have hne : classifyAgg v.size v.elems ≠ .memory := by
        intro h; simp [regImage, h] at himg
      cases hc : classifyAgg v.size v.elems <;> simp_all [ccArgs]
    | memory =>
      rw [hk] at hs
      simp only [hk]
      have himg : regImage v = .memory := by simpa [kindImage] using hs.1.symm
      have : classifyAgg v.size v.elems = .memory := by
        unfold regImage at himg
        cases hc : classifyAgg v.size v.elems <;> simp_all
      simp [this]
    | coerce r =>
      rw [hk] at hs
      simp only [hk]
      have himg : regImage v = .regs [(regCls r, 0)] := by simpa [kindImage, kindRegs] using hs.1.symm
      have hp := place_single r v ⟨0, 0, 0⟩ hok hal himg
      have hne : classifyAgg v.size v.elems ≠ .memory := by
        intro h; simp [regImage, h] at himg
      simp only [List.map_cons, List.map_nil]
      rw [hp]
      all_goals (cases hc : classifyAgg v.size v.elems <;> simp_all)
    | coerce2 r1 r2 =>
      rw [hk] at hs
      simp only [hk]
      have himg : regImage v = .regs [(regCls r1, 0), (regCls r2, off2 r1 r2)] := by
        simpa [kindImage, kindRegs] using hs.1.symm
      have hp := place_double r1 r2 v ⟨0, 0, 0⟩ (off2 r1 r2) hok hal himg hnsplit
      have hne : classifyAgg v.size v.elems ≠ .memory := by
        intro h; simp [regImage, h] at himg
      simp only [List.map_cons, List.map_nil]
      rw [hp]
      all_goals (cases hc : classifyAgg v.size v.elems <;> simp_all)
    | direct =>
      rw [hk] at hs
      simp only [hk]
      have himg := hs.1.symm
      simp only [kindImage, kindRegs] at himg
      have hne : classifyAgg v.size v.elems ≠ .memory := by
        intro h; simp [regImage, h] at himg
      rcases hnv.direct true hk with ⟨he, ht⟩ | ⟨s, he, ht⟩
      · rw [he] at himg
        rw [ht]
        simp only [List.map_nil] at himg
        have hp := place_none v ⟨0, 0, 0⟩ hok himg
        cases hc : classifyAgg v.size v.elems <;> simp_all [ccArgs]
      · rw [he] at himg
        rw [ht]
        simp only [List.map_cons, List.map_nil] at himg ⊢
        have hp := place_single s.regTy v ⟨0, 0, 0⟩ hok hal himg
        rw [hp]
        all_goals (cases hc : classifyAgg v.size v.elems <;> simp_all)

/-! ## `fitsInRegs` implies `noSplit` -/

theorem argFits_noSplit (v : View) (st : St) (hst : st.ok) (hfew : v.types.length < 2 → (v.size + 7) / 8 ≤ 1)
    (h : argFits v st = true) : argNoSplit v st = true := by
  unfold argFits at h
  unfold argNoSplit
  cases hc : classifyAgg v.size v.elems with
  | none => rfl
  | memory => rfl
  | regs cs =>
    rw [hc] at h
    simp only [Bool.or_eq_true, decide_eq_true_eq] at h ⊢
    rcases h with h | h
    · -- fewer than two leaves: at most one eightbyte
      have hlen : cs.length ≤ 1 := by
        have := hfew h
        unfold classifyAgg at hc
        split at hc
        · simp at hc
        · split at hc
          · simp at hc
          · simp only [ArgClass.regs.injEq] at hc
            rw [← hc]
            simp only [List.length_map, List.length_range]
            exact this
      obtain ⟨hg, hs⟩ := hst
      match cs, hlen with
      | [], _ => right; rfl
      | [c], _ =>
        cases c
        · right; rfl
        · by_cases hh : st.gpr + 1 ≤ 6
          · left; simp [fits, countInt, countSse, hh, hs]
          · right; simp [exhausted]; omega
        · by_cases hh : st.sse + 1 ≤ 8
          · left; simp [fits, countInt, countSse, hh, hg]
          · right; simp [exhausted]; omega
    · left; exact h

theorem fitsArgs_noSplit (vs : List View) (st : St) (hst : st.ok)
    (hn : ∀ v ∈ vs, v.types.length < 2 → (v.size + 7) / 8 ≤ 1)
    (h : fitsArgs vs st = true) : noSplitArgs vs st = true := by
  induction vs generalizing st with
  | nil => rfl
  | cons v r ih =>
    simp only [fitsArgs, Bool.and_eq_true] at h
    simp only [noSplitArgs, Bool.and_eq_true]
    exact ⟨argFits_noSplit v st hst (hn v (by simp)) h.1,
      ih (placeArg v st).2 (placeArg_ok v st hst) (fun x hx => hn x (by simp [hx])) h.2⟩

/-! ## C strings -/

theorem strlenFrom_append (s rest : List UInt8) (h : (0 : UInt8) ∉ s) :
    strlenFrom (s ++ 0 :: rest) = some s.length := by
  induction s with
  | nil => simp [strlenFrom]
  | cons b r ih =>
    have hb : b ≠ 0 := fun hb => h (by simp [hb])
    have hr : (0 : UInt8) ∉ r := fun hr => h (by simp [hr])
    simp [strlenFrom, hb, ih hr]

theorem drop_append_len {α : Type} (a b : List α) (n : Nat) (h : a.length = n) : (a ++ b).drop n = b := by
  subst h; simp

theorem take_append_len {α : Type} (a b : List α) (n : Nat) (h : a.length = n) : (a ++ b).take n = a := by
  subst h; simp


/-! ## the repaired classifier agrees with the current one on every naturally laid out shape -/

theorem takeWhile_append_stop {α : Type} (p : α → Bool) (a b : List α) (ha : ∀ x ∈ a, p x = true)
    (hb : ∀ x r, b = x :: r → p x = false) : (a ++ b).takeWhile p = a := by
  induction a with
  | nil =>
    cases b with
    | nil => rfl
    | cons x r => simp [List.takeWhile, hb x r rfl]
  | cons x r ih =>
    simp only [List.cons_append, List.takeWhile, ha x (by simp)]
    rw [ih (fun y hy => ha y (by simp [hy]))]

theorem subTypeFixed_left (al size : Nat) (subs : List Scalar) : subType size subs true = subTypeLegacy al subs true := by
  unfold subType subTypeLegacy
  split
  · rfl
  · split
    · rfl
    · simp

theorem splitClassifyFixed_eq (types : List Scalar) (size al : Nat)
    (hal : al = maxAlign types) (hsz : size = alignUp (natEnd types 0) al) (h8 : 8 < size) (h16 : size ≤ 16) :
    splitClassify ⟨size, al, types, natLayout types 0⟩ = splitClassifyLegacy al types := by
  have halc : al = 1 ∨ al = 2 ∨ al = 4 ∨ al = 8 := hal ▸ maxAlign_cases types
  have hpos : 0 < al := by omega
  have hend : 8 < natEnd types 0 := by
    by_cases h : natEnd types 0 ≤ 8
    · have := alignUp_le_of_le8 _ al h halc; omega
    · omega
  obtain ⟨k, hk, hlen, hle, hlay, he, hne⟩ := splitLoop_spec types 0 0 (by omega) hend
  have hidx : splitLoop types 0 0 = k := by omega
  have hR8 : natEnd (types.drop k) 8 = natEnd (types.drop k) 0 + 8 := by
    have := natEnd_shift8 (types.drop k) 0; simpa using this
  have hsize : size = alignUp (natEnd (types.drop k) 0) al + 8 := by
    rw [hsz, he, hR8, alignUp_add8' _ _ halc]
  -- the real-offset split index is the loop's index
  have hreal : splitIndex (natLayout types 0) = k := by
    unfold splitIndex
    rw [hlay, takeWhile_append_stop]
    · have := congrArg List.length (natLayout_types (types.take k) 0)
      simp only [List.length_map, List.length_take] at this
      omega
    · intro e he'
      have := natLayout_bounds _ 0 e he'
      have := size_pos e.2
      simp only [decide_eq_true_eq]; omega
    · intro e r her
      have hmem : e ∈ natLayout (types.drop k) 8 := by rw [her]; simp
      have := natLayout_bounds _ 8 e hmem
      simp only [decide_eq_false_iff_not]; omega
  unfold splitClassify splitClassifyLegacy
  simp only [hreal, hidx, subTypeFixed_left al]
  congr 1
  -- the right half
  unfold subType subTypeLegacy
  split
  · rfl
  · split
    · rfl
    · simp only [Bool.false_eq_true, if_false]
      rw [subFold_eq_natEnd]
      congr 1; omega

/-- **the repair of fixes/C09-1.diff changes nothing on naturally laid out shapes** (hence inherits their soundness) -/
theorem classifyFixedV_eq_natural (v : View) (hn : v.natural) (isRet : Bool) : classifyV v isRet = classifyLegacyV v isRet := by
  obtain ⟨size, al, types, elems⟩ := v
  obtain ⟨h1, h2, h3⟩ := hn
  simp only at h1 h2 h3
  subst h1
  unfold classifyV classifyLegacyV
  split
  · rfl
  · unfold getTypeInfo getTypeInfoLegacy
    simp only
    split
    · split
      · rfl
      · split
        · rfl
        · rename_i h16 h8
          have e := splitClassifyFixed_eq types size al h3 h2 (by omega) (by omega)
          split <;> (try split) <;> first | rfl | exact e
    · rfl

end LlgoVerif.CAbi
