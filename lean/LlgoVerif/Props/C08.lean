import LlgoVerif.Lemmas.Layout
/-!
# C08 — type size, alignment and field offsets agree wherever they are computed

Property theorems only.  Model: `LlgoVerif/Model/Layout.lean` ((a) `goSizes`, (b) `llvmLayout`, (c) `abiTable`);
lemmas: `LlgoVerif/Lemmas/Layout.lean`.
-/
namespace LlgoVerif.Layout

/-- **Full statement of the property for one target**: for every Go type the compile-time numbers (a) and the
    descriptor numbers (c) are the numbers generated code uses (b) — size, alignment, every field offset. -/
def LayoutAgree (tg : Target) : Prop :=
  ∀ t, goSizes tg t = llvmLayout tg t ∧ abiTable tg t = llvmLayout tg t

/-! ## what holds -/

/-- **(a) = (b)** on every target whose gc-style alignment of each basic kind equals the LLVM ABI alignment
    (`wfTarget`, decidable), for every type in which gc does not pad a zero-size tail (`padFree`, decidable):
    `unsafe.Sizeof/Alignof/Offsetof` fold to the size, alignment and field offsets of the LLVM type. -/
theorem layout_agree_go (tg : Target) (h : wfTarget tg = true) (t : GoType) (hp : padFree tg t = true) :
    goSizes tg t = llvmLayout tg t := by
  rcases wfTarget_cases tg h with rfl | rfl
  · exact go_eq_ll 4 (Or.inl rfl) t hp
  · exact go_eq_ll 8 (Or.inr rfl) t hp

/-- **(c) = (b)** when in addition the descriptor table's alignment of each basic kind equals LLVM's (`abiOK`):
    descriptor size, alignment and field offsets are those of the LLVM type. -/
theorem layout_agree_abi (tg : Target) (h : wfTarget tg = true) (ha : abiOK tg = true) (t : GoType)
    (hp : padFree tg (toRaw t) = true) : abiTable tg t = llvmLayout tg t := by
  rcases wfTarget_cases tg h with rfl | rfl
  · exact absurd ha (by decide)
  · exact abi_eq_ll 8 (Or.inr rfl) 1 _ ha t hp

/-- **(c) = (b) with `fixes/C08-1.diff`** (the descriptor table takes the alignment of 8-byte kinds from the data
    layout): holds on every well-formed target, 386 included. -/
theorem layout_agree_abi_fixed (tg : Target) (h : wfTarget tg = true) (t : GoType)
    (hp : padFree tg (toRaw t) = true) : abiTableFixed tg t = llvmLayout tg t := by
  rcases wfTarget_cases tg h with rfl | rfl
  · exact abi_eq_ll 4 (Or.inl rfl) 1 _ (by decide) t hp
  · exact abi_eq_ll 8 (Or.inr rfl) 1 _ (by decide) t hp

/-- the raw conversion (function value → closure struct) keeps a type free of padded zero-size tails -/
theorem padFree_raw (tg : Target) (h : wfTarget tg = true) (t : GoType) (hp : padFree tg t = true) :
    padFree tg (toRaw t) = true := by
  rcases wfTarget_cases tg h with rfl | rfl
  · exact padFree_toRaw 4 (Or.inl rfl) t hp
  · exact padFree_toRaw 8 (Or.inr rfl) t hp

/-- **The property, as far as it is true of the current code** (all three computations, every type term). -/
theorem layout_agree_partial (tg : Target) (h : wfTarget tg = true) (ha : abiOK tg = true) (t : GoType)
    (hp : padFree tg t = true) :
    goSizes tg t = llvmLayout tg t ∧ abiTable tg t = llvmLayout tg t :=
  ⟨layout_agree_go tg h t hp, layout_agree_abi tg h ha t (padFree_raw tg h t hp)⟩

/-- **Referenced element descriptors** (full statement): the `Size_` of the descriptor a map, slice, chan, pointer,
    array or struct descriptor references for an element of type `t` is the size of a `t` in generated code. -/
def ElemDescAgree (tg : Target) (fw : Nat) : Prop := ∀ t, elemDescSize tg fw t = (llvmLayout tg t).size

/-- false for the code as it is (`fw = 1`), on every target: the descriptor of `func()` says one word, a function
    value is two (`map[int]func()` loses the closure context when it grows; `clear([]func())` clears half). -/
theorem elem_descriptor_counterexample :
    elemDescSize amd64 1 .func = 8 ∧ (llvmLayout amd64 .func).size = 16 ∧ (goSizes amd64 .func).size = 16 ∧
    ¬ ElemDescAgree amd64 1 ∧ ¬ ElemDescAgree arm64 1 ∧ ¬ ElemDescAgree i386 1 ∧ ¬ ElemDescAgree arm 1 ∧
    ¬ ElemDescAgree wasm 1 :=
  ⟨by decide, by decide, by decide, fun h => absurd (h .func) (by decide), fun h => absurd (h .func) (by decide),
   fun h => absurd (h .func) (by decide), fun h => absurd (h .func) (by decide), fun h => absurd (h .func) (by decide)⟩

/-- what holds now: every type that is not itself an unnamed function type -/
theorem elem_descriptor_agree_partial (tg : Target) (h : wfTarget tg = true) (t : GoType)
    (hp : padFree tg (toRaw t) = true) (hf : toRaw t ≠ .closure) :
    elemDescSize tg 1 t = (llvmLayout tg t).size := by
  rcases wfTarget_cases tg h with rfl | rfl
  · exact elemDesc_eq 4 (Or.inl rfl) 1 t hp (Or.inr hf)
  · exact elemDesc_eq 8 (Or.inr rfl) 1 t hp (Or.inr hf)

/-- with `fixes/C08-2.diff` (`Builder.Size` of a signature = two words): every type -/
theorem elem_descriptor_agree_fixed (tg : Target) (h : wfTarget tg = true) (t : GoType)
    (hp : padFree tg (toRaw t) = true) : elemDescSize tg 2 t = (llvmLayout tg t).size := by
  rcases wfTarget_cases tg h with rfl | rfl
  · exact elemDesc_eq 4 (Or.inl rfl) 2 t hp (Or.inl rfl)
  · exact elemDesc_eq 8 (Or.inr rfl) 2 t hp (Or.inl rfl)

/-- `FieldAlign` is `Align` in the descriptor table. -/
theorem abi_fieldAlign (tg : Target) (t : GoType) : abiFieldAlign tg t = abiAlign tg t := rfl

/-- the targets: amd64, arm64 and 386 are well formed; the descriptor table fits amd64 and arm64 only -/
theorem wfTarget_amd64 : wfTarget amd64 = true := by decide
theorem wfTarget_arm64 : wfTarget arm64 = true := by decide
theorem wfTarget_386 : wfTarget i386 = true := by decide
theorem abiOK_amd64 : abiOK amd64 = true := by decide
theorem abiOK_arm64 : abiOK arm64 = true := by decide
theorem wfTarget_arm_false : wfTarget arm = false := by decide
theorem wfTarget_wasm_false : wfTarget wasm = false := by decide
theorem abiOK_386_false : abiOK i386 = false := by decide

/-- a well-formed target has one of two shapes: every alignment is `min size ptrSize`, `ptrSize ∈ {4, 8}` -/
theorem wfTarget_shape (tg : Target) (h : wfTarget tg = true) : tg = gcTarget 4 ∨ tg = gcTarget 8 :=
  wfTarget_cases tg h

/-- map descriptors: `KeySize`, `ValueSize` are the LLVM sizes of a key / element slot (the value, or a pointer when it
    is larger than 128 bytes) and `BucketSize` is the LLVM size of the bucket struct -/
theorem map_sizes_agree (tg : Target) (h : wfTarget tg = true) (ha : abiOK tg = true) (k v : GoType)
    (hk : padFree tg (toRaw k) = true) (hv : padFree tg (toRaw v) = true)
    (hb : padFree tg (toRaw (mapBucket tg (toRaw k) (toRaw v))) = true) :
    mapSizes tg k v = (slotSize tg (llvmLayout tg k).size, slotSize tg (llvmLayout tg v).size,
      (llvmLayout tg (mapBucket tg (toRaw k) (toRaw v))).size) := by
  have e1 := congrArg Layout.size (layout_agree_abi tg h ha k hk)
  have e2 := congrArg Layout.size (layout_agree_abi tg h ha v hv)
  have e3 := congrArg Layout.size (layout_agree_abi tg h ha _ hb)
  simp only [abiTable] at e1 e2 e3
  have hraw : ∀ a b : GoType, toRaw (mapBucket tg (toRaw a) (toRaw b)) = mapBucket tg (toRaw a) (toRaw b) := by
    intro a b
    unfold mapBucket
    split <;> split <;> simp only [toRaw, toRaws, toRaw_idem] <;> split <;> simp [toRaw]
  rw [hraw] at e3
  simp only [mapSizes, e1, e2, e3]

/-! ## hypotheses are satisfiable (non-vacuity) -/

/-- `struct{ a int8; f func(); g [3]func(); s string; x int64; c complex128 }` -/
def exStruct : GoType :=
  .struct (.cons (.basic .int8) (.cons .func (.cons (.array 3 .func) (.cons (.basic .string)
    (.cons (.basic .int64) (.cons (.basic .complex128) .nil))))))

example : wfTarget amd64 = true ∧ abiOK amd64 = true ∧ padFree amd64 exStruct = true ∧
    padFree amd64 (toRaw exStruct) = true := by decide
example : goSizes amd64 exStruct = ⟨112, 8, [0, 8, 24, 72, 88, 96]⟩ ∧ goSizes i386 exStruct = ⟨68, 4, [0, 4, 12, 36, 44, 52]⟩ := by decide
example : toRaw exStruct ≠ .closure ∧ toRaw (.named .func) ≠ .closure := by simp [exStruct, toRaw]
example : wfTarget i386 = true ∧ padFree i386 exStruct = true ∧ padFree i386 (toRaw exStruct) = true := by decide
example : abiTableFixed i386 (.basic .int64) = ⟨8, 4, []⟩ ∧ abiTable i386 (.basic .int64) = ⟨8, 8, []⟩ := by decide
example : padFree amd64 (toRaw (mapBucket amd64 (toRaw (.basic .string)) (toRaw exStruct))) = true := by decide

/-! ## what does not hold: the full statement is false on every target -/

/-- `struct{ int8; int64 }` -/
def sI8I64 : GoType := .struct (.cons (.basic .int8) (.cons (.basic .int64) .nil))
/-- `struct{ int64; struct{} }`: a zero-size last field -/
def sZeroTail : GoType := .struct (.cons (.basic .int64) (.cons (.struct .nil) .nil))
/-- `struct{ struct{ int32; int8 }; int8 }`: a nested struct with tail padding -/
def sNestedTail : GoType :=
  .struct (.cons (.struct (.cons (.basic .int32) (.cons (.basic .int8) .nil))) (.cons (.basic .int8) .nil))

/-- arm: gc sizes align `int64` to 4, the LLVM data layout (`i64:64`) to 8 -/
theorem layout_arm_witness : goSizes arm sI8I64 = ⟨12, 4, [0, 4]⟩ ∧ llvmLayout arm sI8I64 = ⟨16, 8, [0, 8]⟩ ∧
    abiTable arm sI8I64 = ⟨12, 8, [0, 8]⟩ := by decide
theorem layout_agree_counterexample_arm : ¬ LayoutAgree arm :=
  fun h => absurd (h sI8I64).1 (by decide)

/-- wasm: `StdSizes{WordSize: 4, MaxAlign: 4}` (internal/build/build.go) against `i64:64` -/
theorem layout_wasm_witness : goSizes wasm sI8I64 = ⟨12, 4, [0, 4]⟩ ∧ llvmLayout wasm sI8I64 = ⟨16, 8, [0, 8]⟩ ∧
    abiTable wasm sI8I64 = ⟨12, 8, [0, 8]⟩ := by decide
theorem layout_agree_counterexample_wasm : ¬ LayoutAgree wasm :=
  fun h => absurd (h sI8I64).1 (by decide)

/-- wasm, second cause: `StdSizes` does not pad a nested struct to its alignment, LLVM does -/
theorem layout_wasm_nested_tail_witness :
    goSizes wasm sNestedTail = ⟨8, 4, [0, 5]⟩ ∧ llvmLayout wasm sNestedTail = ⟨12, 4, [0, 8]⟩ := by decide

/-- the candidate repair `MaxAlign: 8` for wasm moves the disagreement to `struct{ func(); int64 }`: the bulk
    `extraSize` correction (+4) breaks the 8-byte alignment -/
def wasmMaxAlign8 : Target := { wasm with maxAlign := 8 }
def sFuncI64 : GoType := .struct (.cons .func (.cons (.basic .int64) .nil))
theorem wasm_maxalign8_not_a_fix :
    goSizes wasmMaxAlign8 sI8I64 = llvmLayout wasmMaxAlign8 sI8I64 ∧
    goSizes wasmMaxAlign8 sFuncI64 = ⟨24, 8, [0, 12]⟩ ∧ llvmLayout wasmMaxAlign8 sFuncI64 = ⟨16, 8, [0, 8]⟩ ∧
    (goSizes wasm sFuncI64).size = (llvmLayout wasm sFuncI64).size := by decide

/-- 386: the descriptor table says alignment 8 for `int64`, compile time and LLVM say 4 -/
theorem layout_386_witness : goSizes i386 (.basic .int64) = ⟨8, 4, []⟩ ∧ llvmLayout i386 (.basic .int64) = ⟨8, 4, []⟩ ∧
    abiTable i386 (.basic .int64) = ⟨8, 8, []⟩ := by decide
theorem layout_agree_counterexample_386 : ¬ LayoutAgree i386 :=
  fun h => absurd (h (.basic .int64)).2 (by decide)

/-- amd64 / arm64 (every gc-style target): gc pads a zero-size last field, LLVM does not -/
theorem layout_zero_tail_witness : goSizes amd64 sZeroTail = ⟨16, 8, [0, 8]⟩ ∧ llvmLayout amd64 sZeroTail = ⟨8, 8, [0, 8]⟩ ∧
    abiTable amd64 sZeroTail = ⟨16, 8, [0, 8]⟩ := by decide
theorem layout_agree_counterexample_amd64 : ¬ LayoutAgree amd64 :=
  fun h => absurd (h sZeroTail).1 (by decide)
theorem layout_agree_counterexample_arm64 : ¬ LayoutAgree arm64 :=
  fun h => absurd (h sZeroTail).1 (by decide)

/-- `padFree` is exact for a struct's own tail: on a well-formed target, a struct whose fields are `padFree` but whose
    tail is padded by gc has a compile-time size different from its LLVM size. -/
theorem zero_tail_disagrees (tg : Target) (h : wfTarget tg = true) (fs : Fields) (hf : padFrees tg fs = true)
    (ht : tailOK (stdSAs tg fs) = false) :
    (goSizes tg (.struct fs)).size ≠ (llvmLayout tg (.struct fs)).size := by
  rcases wfTarget_cases tg h with rfl | rfl
  · exact zero_tail_key fs 4 (Or.inl rfl) hf ht
  · exact zero_tail_key fs 8 (Or.inr rfl) hf ht

example : wfTarget amd64 = true ∧ padFrees amd64 (.cons (.basic .int64) (.cons (.struct .nil) .nil)) = true ∧
    tailOK (stdSAs amd64 (.cons (.basic .int64) (.cons (.struct .nil) .nil))) = false := by decide

/-! ## `PtrBytes` (the prefix of a value that can hold pointers) -/

/-- `struct{ p *int; n int }` and `struct{ s string; p *int; n [4]int }`: the code as it is records 0 and 16 (the
    pointer-free LAST field overwrites `bytes`), the repaired loop (`fixes/C08-4.diff`) 8 and 24 -/
theorem ptrBytes_counterexample :
    let s1 : GoType := .struct (.cons (.pointer (.basic .int)) (.cons (.basic .int) .nil))
    let s2 : GoType := .struct (.cons (.basic .string) (.cons (.pointer (.basic .int)) (.cons (.array 4 (.basic .int)) .nil)))
    ptrBytesG amd64 false s1 = 0 ∧ ptrBytesG amd64 true s1 = 8 ∧ hasPtrs s1 = true ∧
    ptrBytesG amd64 false s2 = 16 ∧ ptrBytesG amd64 true s2 = 24 := by decide

/-- both variants agree when the last field is the last one with pointers -/
theorem structPtrBytes_last (pbs offs : List Nat) (h : lastNonZero pbs = some (pbs.length - 1)) :
    structPtrBytes false pbs offs = structPtrBytes true pbs offs := by
  unfold structPtrBytes
  rw [h]
  simp only [Bool.false_eq_true, if_false, if_true]
  congr 1
  cases pbs with
  | nil => simp [lastNonZero] at h
  | cons x r => simp [List.getLastD, List.getD, List.getLast_eq_getElem]

example : lastNonZero [0, 8, 16] = some ([0, 8, 16].length - 1) := by decide

/-! ## aliases -/

/-- `type F = func(); struct{ f F; x int }`: `extraSize` does not look through the alias -/
def sAliasFunc : GoType := .struct (.cons (.alias .func) (.cons (.basic .int) .nil))

theorem layout_alias_witness : goSizes amd64 sAliasFunc = ⟨16, 8, [0, 8]⟩ ∧ llvmLayout amd64 sAliasFunc = ⟨24, 8, [0, 16]⟩ ∧
    abiTable amd64 sAliasFunc = ⟨24, 8, [0, 16]⟩ ∧ padFree amd64 sAliasFunc = false := by decide

/-- an alias of a type without function values is harmless (covered by `layout_agree_partial`) -/
example : padFree amd64 (.struct (.cons (.alias (.basic .int64)) (.cons (.alias (.struct .nil)) (.cons (.basic .int8) .nil)))) = true := by
  decide

/-! ## `unsafe.Offsetof` in instances of generic functions (`cl/instr.go`) -/

/-- **Per-instance `unsafe.Offsetof`** computes the Go-spec value for every selector chain: the offset of the selected
    field plus the offsets of exactly those parents that were inserted for promotion (up to the first selector written
    in the source) — on top of LLVM offsets, which are the offsets generated code uses. -/
theorem generic_offsetof_spec (sel : Nat) (ps : List Step) : chainOffset sel ps = specOffset sel ps :=
  chainOffset_eq_spec ps sel

/-- `Offsetof(x.a.b)` with `a` written in the source is relative to `x.a` … -/
theorem generic_offsetof_explicit (sel o : Nat) (ps : List Step) : chainOffset sel (⟨o, true⟩ :: ps) = sel := by
  simp [chainOffset]

/-- … and a promoted field adds the offset of every embedded struct it is reached through. -/
theorem generic_offsetof_promoted (sel o1 o2 : Nat) (ps : List Step) :
    chainOffset sel (⟨o1, false⟩ :: ⟨o2, false⟩ :: ⟨0, true⟩ :: ps) = sel + o1 + o2 := by
  simp [chainOffset]

/-- `rec[int32]`: `struct{ A int64; B int32; h struct{ pad int32; len byte; w int32 } }`: `Offsetof(v.h.len)` = 4 -/
example : genericOffsetof amd64
    (.struct (.cons (.basic .int64) (.cons (.basic .int32)
      (.cons (.struct (.cons (.basic .int32) (.cons (.basic .uint8) (.cons (.basic .int32) .nil)))) .nil))))
    [(2, true), (1, true)] = some 4 := by decide

/-! ## C-compatible structs -/

/-- **For C-compatible types the LLVM layout is the natural C layout** (member at the lowest multiple of its
    alignment, scalar alignment = `min size cmax`, size rounded up to the largest member alignment), on every target
    whose LLVM scalar sizes/alignments are the natural ones (`wfC`, decidable). -/
theorem cLayout_agree (tg : Target) (cmax : Nat) (h : wfC tg cmax = true) (t : GoType) (hc : isC t = true) :
    llvmLayout tg t = cLayout tg cmax t := ll_eq_c h t hc

theorem wfC_amd64 : wfC amd64 8 = true := by decide
theorem wfC_arm64 : wfC arm64 8 = true := by decide
theorem wfC_386 : wfC i386 4 = true := by decide
theorem wfC_arm : wfC arm 8 = true := by decide
theorem wfC_wasm : wfC wasm 8 = true := by decide

/-- `struct{ int8; int64; struct{ bool; complex128 }; [3]int16; *T }` -/
def exC : GoType :=
  .struct (.cons (.basic .int8) (.cons (.basic .int64) (.cons (.struct (.cons (.basic .bool) (.cons (.basic .complex128) .nil)))
    (.cons (.array 3 (.basic .int16)) (.cons (.pointer (.basic .int8)) .nil)))))
example : isC exC = true ∧ cLayout amd64 8 exC = ⟨56, 8, [0, 8, 16, 40, 48]⟩ := by decide

/-- so, on amd64/arm64/386, compile-time numbers of pad-free C-compatible types are the C compiler's -/
theorem go_eq_c (tg : Target) (cmax : Nat) (h : wfTarget tg = true) (hc : wfC tg cmax = true) (t : GoType)
    (hp : padFree tg t = true) (hC : isC t = true) : goSizes tg t = cLayout tg cmax t :=
  (layout_agree_go tg h t hp).trans (cLayout_agree tg cmax hc t hC)

end LlgoVerif.Layout
