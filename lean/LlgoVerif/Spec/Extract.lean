import LlgoVerif.Lemmas.Path
import LlgoVerif.Model.Extract
/-!
# Specification side of C20: what an archive *means*, and when it is well formed

An archive denotes a tree (relative to the destination): a directory entry makes the directory and its
ancestors, a regular-file entry makes the ancestors and the file with exactly the archived bytes (a later
entry of the same name replaces the earlier one), anything else (links, devices) denotes nothing.  A name
denotes the element list `relComps name` (empty elements and `.` dropped, `x/..` cancelled).  The archive is
*consistent* when this never asks for a file where a directory is, or the reverse.

No destination string, no `Join`, no prefix guard, no open flags appear here.
-/
namespace LlgoVerif.Extract
open LlgoVerif.Path

/-- the meaning of one entry on the tree `t` (keys relative to the destination) -/
def specStep (t : FS) (e : Entry) : Except Err FS :=
  match e.kind with
  | .dir => mkdirAll t (relComps e.name)
  | .reg =>
    match mkdirAll t (relComps e.name).dropLast with
    | .error err => .error err
    | .ok t1 => openWrite true t1 (relComps e.name) e.data
  | _ => .ok t

/-- the archived tree (and whether the archive is inconsistent) -/
def specTree (ar : List Entry) : FS × Option Err := runSteps specStep [] ar

/-- every directory on the way from `pre` down `cs` exists (then `MkdirAll` has nothing to do) -/
def dirsFrom (t : FS) (pre : Key) : List Comp → Bool
  | [] => true
  | c :: rest => lookup t (pre ++ [c]) == some .dir && dirsFrom t (pre ++ [c]) rest

/-- Side conditions on one entry, evaluated in the tree archived so far.  The first two lines are the
    well-formedness every variant needs (name stays inside, a file has a name); the rest are the extra
    demands of the *code variant* `cfg` — all of them `true` for `Cfg.fixed` on entries a format can express. -/
def entryOK (cfg : Cfg) (fmt : Format) (t : FS) (e : Entry) : Bool :=
  let k := relComps e.name
  decide (dotdot ∉ k) &&
  (e.kind != .reg || k != []) &&
  match fmt with
  | .tgz =>
    -- a `./` entry passes only the repaired guard
    (k != [] || cfg.tarAcceptRoot) &&
    -- without O_TRUNC a later, shorter duplicate keeps the tail of the earlier one
    (e.kind != .reg || cfg.tarTrunc ||
      (match lookup t k with
       | some (.file old) => decide (old.length ≤ e.data.length)
       | _ => true))
  | .zip =>
    -- zip: a symlink entry would be written as a regular file; a "regular" entry named `x/` is a directory
    (e.kind == .dir || e.kind == .reg) &&
    (e.kind != .reg || e.name.getLast? != some '/') &&
    (k != [] || !cfg.zipGuard || cfg.zipAcceptRoot) &&
    -- without MkdirAll(parent) the parent must have been archived as a directory before
    (e.kind != .reg || cfg.zipMkParents || dirsFrom t [] k.dropLast)

/-- all entries satisfy `entryOK` and the archive is consistent -/
def runOK (cfg : Cfg) (fmt : Format) : FS → List Entry → Bool
  | _, [] => true
  | t, e :: es =>
    entryOK cfg fmt t e &&
    match specStep t e with
    | .ok t' => runOK cfg fmt t' es
    | .error _ => false

/-- **well-formed archive** (decidable): names stay inside, files have names, the tree is consistent,
    and (zip) only directory and regular-file entries -/
def wellFormed (fmt : Format) (ar : List Entry) : Bool := runOK Cfg.fixed fmt [] ar

/-- the sub-tree of `fs` at `d` is exactly `t` -/
def TreeAt (d : Key) (fs : FS) (t : FS) : Prop := ∀ k, k ≠ [] → lookup fs (d ++ k) = lookup t k

end LlgoVerif.Extract
