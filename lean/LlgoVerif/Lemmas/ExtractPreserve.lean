import LlgoVerif.Lemmas.Extract
import LlgoVerif.Spec.Extract
/-! Helper lemmas for C20 (preservation): the extraction steps on the real destination follow the archived tree
    (`specStep`) through the embedding `k ↦ dest ++ k`, under the per-entry side conditions `entryOK`. -/
namespace LlgoVerif.Extract
open LlgoVerif.Path

/-- the destination is ready and the sub-tree at `d` is `t` -/
def Rel (d : Key) (fs t : FS) : Prop := DestReady fs d ∧ TreeAt d fs t

theorem prefix_not_ext (d r pre : Key) (hr : r ≠ []) (hp : pre <+: d) : pre ≠ d ++ r := by
  intro e
  have := hp.length_le
  rw [e] at this
  simp at this
  exact hr (List.eq_nil_of_length_eq_zero (by omega))

theorem Rel.insert {d : Key} {fs t : FS} (h : Rel d fs t) (k : Key) (hk : k ≠ []) (n : Node) :
    Rel d ((d ++ k, n) :: fs) ((k, n) :: t) := by
  refine ⟨?_, ?_⟩
  · intro pre hp hne
    rw [lookup_cons]
    simp [prefix_not_ext d k pre hk hp]
    exact h.1 pre hp hne
  · intro q hq
    rw [lookup_cons, lookup_cons]
    simp
    rw [h.2 q hq]

theorem mkdirFrom_rel (d : Key) (cs : List Comp) : ∀ (fs t : FS) (pre : Key) (t' : FS), Rel d fs t →
    mkdirFrom t pre cs = .ok t' → ∃ fs', mkdirFrom fs (d ++ pre) cs = .ok fs' ∧ Rel d fs' t' := by
  induction cs with
  | nil =>
    intro fs t pre t' hrel h
    simp [mkdirFrom] at h ⊢
    cases h; exact hrel
  | cons c rest ih =>
    intro fs t pre t' hrel h
    unfold mkdirFrom at h ⊢
    have hk : lookup fs (d ++ pre ++ [c]) = lookup t (pre ++ [c]) := by
      rw [List.append_assoc]; exact hrel.2 (pre ++ [c]) (by simp)
    rw [hk]
    split at h
    · rw [List.append_assoc]
      exact ih fs t (pre ++ [c]) t' hrel h
    · cases h
    · rw [List.append_assoc]
      exact ih _ _ (pre ++ [c]) t' (hrel.insert (pre ++ [c]) (by simp) .dir) h

/-- walking down through directories that exist -/
theorem mkdirFrom_walk (fs : FS) (cs : List Comp) : ∀ (a : List Comp) (pre : Key),
    (∀ r, r ≠ [] → r <+: a → lookup fs (pre ++ r) = some .dir) →
    mkdirFrom fs pre (a ++ cs) = mkdirFrom fs (pre ++ a) cs := by
  intro a
  induction a with
  | nil => intro pre _; simp
  | cons x xs ih =>
    intro pre h
    simp only [List.cons_append]
    rw [mkdirFrom, h [x] (by simp) (by simp)]
    simp only
    rw [ih (pre ++ [x])]
    · simp
    · intro r hr hp
      have := h (x :: r) (by simp) (by simpa using hp)
      simpa using this

theorem mkdirAll_rel (d k : Key) (fs t t' : FS) (hrel : Rel d fs t) (h : mkdirAll t k = .ok t') :
    ∃ fs', mkdirAll fs (d ++ k) = .ok fs' ∧ Rel d fs' t' := by
  unfold mkdirAll at h ⊢
  rw [mkdirFrom_walk fs k d []]
  · have := mkdirFrom_rel d k fs t [] t' hrel h
    simpa using this
  · intro r hr hp
    simpa using hrel.1 r hp hr

theorem dropLast_append_ne (d k : Key) (hk : k ≠ []) : (d ++ k).dropLast = d ++ k.dropLast :=
  List.dropLast_append_of_ne_nil hk

theorem isDir_rel (d k : Key) (fs t : FS) (hrel : Rel d fs t) : isDir fs (d ++ k) = isDir t k := by
  by_cases hk : k = []
  · subst hk
    simp [isDir]
    by_cases hd : d = []
    · simp [hd]
    · right; exact hrel.1 d (List.prefix_refl d) hd
  · have : d ++ k ≠ [] := by simp [hk]
    simp [isDir, hk, this, hrel.2 k hk]

theorem openWrite_rel (d k : Key) (hk : k ≠ []) (tr : Bool) (data : Bytes) (fs t t' : FS) (hrel : Rel d fs t)
    (hstale : tr = true ∨ (match lookup t k with
       | some (.file old) => old.length ≤ data.length
       | _ => True))
    (h : openWrite true t k data = .ok t') :
    ∃ fs', openWrite tr fs (d ++ k) data = .ok fs' ∧ Rel d fs' t' := by
  unfold openWrite at h ⊢
  have hne : d ++ k ≠ [] := by simp [hk]
  simp only [hk, hne, if_false] at h ⊢
  rw [dropLast_append_ne d k hk, isDir_rel d k.dropLast fs t hrel, hrel.2 k hk]
  split at h
  · split at h <;> cases h
  · rename_i hdir
    simp only [hdir]
    split at h
    · cases h
    · rename_i old hl
      cases h
      simp only [hl] at hstale ⊢
      have : (if tr = true then data else data ++ List.drop data.length old) = data := by
        rcases hstale with h1 | h1
        · simp [h1]
        · split
          · rfl
          · rw [List.drop_eq_nil_of_le h1]; simp
      rw [this]
      exact ⟨_, rfl, hrel.insert k hk _⟩
    · cases h
      exact ⟨_, rfl, hrel.insert k hk _⟩


/-! ### the guard lets local names through, and the target is where the specification puts the entry -/

theorem joinSlash_append (a b : List Comp) (ha : a ≠ []) (hb : b ≠ []) :
    joinSlash (a ++ b) = joinSlash a ++ '/' :: joinSlash b := by
  induction a with
  | nil => exact absurd rfl ha
  | cons x xs ih =>
    cases xs with
    | nil =>
      cases b with
      | nil => exact absurd rfl hb
      | cons y ys => simp [joinSlash]
    | cons z zs =>
      have := ih (by simp)
      simp only [List.cons_append] at this ⊢
      rw [joinSlash_cons_cons, this, joinSlash_cons_cons]
      simp

theorem cleanComps_join_local (d0 name : Str) (h : dotdot ∉ relComps name) :
    cleanComps true (split ('/' :: d0 ++ '/' :: name)) = cleanComps true (split ('/' :: d0)) ++ relComps name := by
  have := comps_join_local d0 name h
  rwa [join_abs, clean_rooted, comps_rooted_join _ (cleanComps_rooted_normal _),
      comps_rooted_join _ (cleanComps_rooted_normal _)] at this

theorem guard_pass (d0 name : Str) (acc : Bool) (h : dotdot ∉ relComps name)
    (hd : comps (clean ('/' :: d0)) ≠ []) (hk : relComps name ≠ [] ∨ acc = true) :
    guardOK acc ('/' :: d0) (join ('/' :: d0) name) = true := by
  have hds : comps (clean ('/' :: d0)) = cleanComps true (split ('/' :: d0)) := by
    rw [clean_rooted, comps_rooted_join _ (cleanComps_rooted_normal _)]
  rw [hds] at hd
  unfold guardOK
  rw [join_abs, clean_rooted, cleanComps_join_local d0 name h]
  by_cases hk0 : relComps name = []
  · have hacc : acc = true := by rcases hk with hk | hk; exact absurd hk0 hk; exact hk
    simp [hk0, hacc]
  · rw [joinSlash_append _ _ hd hk0]
    simp [hasPrefix]

theorem target_local (d0 name : Str) (h : dotdot ∉ relComps name) :
    comps (join ('/' :: d0) name) = comps (clean ('/' :: d0)) ++ relComps name ∧
    comps (dirOf (join ('/' :: d0) name)) = (comps (clean ('/' :: d0)) ++ relComps name).dropLast := by
  refine ⟨comps_join_local d0 name h, ?_⟩
  rw [← comps_join_local d0 name h, join_abs, comps_dirOf _ (cleanComps_rooted_normal _),
      comps_rooted_join _ (cleanComps_rooted_normal _)]

theorem tarStep_rel (cfg : Cfg) (d0 : Str) (fs t t' : FS) (e : Entry)
    (hd : comps (clean ('/' :: d0)) ≠ []) (hrel : Rel (comps (clean ('/' :: d0))) fs t)
    (hok : entryOK cfg .tgz t e = true) (hs : specStep t e = .ok t') :
    ∃ fs', tarStep cfg ('/' :: d0) fs e = .ok fs' ∧ Rel (comps (clean ('/' :: d0))) fs' t' := by
  simp only [entryOK, Bool.and_eq_true, Bool.or_eq_true, decide_eq_true_eq, bne_iff_ne, ne_eq] at hok
  obtain ⟨⟨hloc, hname⟩, hroot, hstale⟩ := hok
  have hg := guard_pass d0 e.name cfg.tarAcceptRoot hloc hd hroot
  obtain ⟨htk, hdk⟩ := target_local d0 e.name hloc
  unfold tarStep
  simp only [hg, Bool.not_true, Bool.false_eq_true, if_false]
  unfold specStep at hs
  cases hkind : e.kind with
  | dir =>
    simp only [hkind] at hs ⊢
    rw [htk]
    exact mkdirAll_rel _ _ fs t t' hrel hs
  | reg =>
    simp only [hkind] at hs hname hstale ⊢
    have hkne : relComps e.name ≠ [] := by
      rcases hname with h | h
      · exact absurd trivial h
      · exact h
    split at hs
    · cases hs
    · rename_i t1 hm
      rw [hdk, htk, dropLast_append_ne _ _ hkne]
      obtain ⟨fs1, hm1, hrel1⟩ := mkdirAll_rel _ _ fs t t1 hrel hm
      rw [hm1]
      simp only
      apply openWrite_rel _ _ hkne cfg.tarTrunc e.data fs1 t1 t' hrel1 _ hs
      rcases hstale with h | h
      · rcases h with h | h
        · exact absurd trivial h
        · exact Or.inl h
      · right
        rcases mkdirFrom_changes _ t [] t1 hm (relComps e.name) with h1 | ⟨_, h1, _⟩
        · rw [h1]
          split at h <;> simp_all
        · rw [h1]; trivial
  | sym => simp only [hkind] at hs ⊢; cases hs; exact ⟨fs, rfl, hrel⟩
  | other => simp only [hkind] at hs ⊢; cases hs; exact ⟨fs, rfl, hrel⟩


theorem dirsFrom_mkdirFrom (t : FS) (cs : List Comp) : ∀ pre, dirsFrom t pre cs = true → mkdirFrom t pre cs = .ok t := by
  induction cs with
  | nil => intro pre _; rfl
  | cons c rest ih =>
    intro pre h
    simp only [dirsFrom, Bool.and_eq_true, beq_iff_eq] at h
    rw [mkdirFrom, h.1]
    exact ih _ h.2

theorem zipStep_rel (cfg : Cfg) (d0 : Str) (fs t t' : FS) (e : Entry)
    (hd : comps (clean ('/' :: d0)) ≠ []) (hrel : Rel (comps (clean ('/' :: d0))) fs t)
    (hok : entryOK cfg .zip t e = true) (hs : specStep t e = .ok t') :
    ∃ fs', zipStep cfg ('/' :: d0) fs e = .ok fs' ∧ Rel (comps (clean ('/' :: d0))) fs' t' := by
  simp only [entryOK, Bool.and_eq_true, Bool.or_eq_true, decide_eq_true_eq, bne_iff_ne, ne_eq,
    beq_iff_eq, Bool.not_eq_true'] at hok
  obtain ⟨⟨hloc, hname⟩, ⟨⟨hkinds, hslash⟩, hroot⟩, hpar⟩ := hok
  obtain ⟨htk, hdk⟩ := target_local d0 e.name hloc
  have hguard : (cfg.zipGuard && !guardOK cfg.zipAcceptRoot ('/' :: d0) (join ('/' :: d0) e.name)) = false := by
    cases hzg : cfg.zipGuard with
    | false => rfl
    | true =>
      have : relComps e.name ≠ [] ∨ cfg.zipAcceptRoot = true := by
        rcases hroot with (h | h) | h
        · exact Or.inl h
        · rw [hzg] at h; cases h
        · exact Or.inr h
      simp [guard_pass d0 e.name cfg.zipAcceptRoot hloc hd this]
  unfold zipStep
  simp only [hguard, Bool.false_eq_true, if_false]
  unfold specStep at hs
  rcases hkinds with hkind | hkind
  · have hdir : zipIsDir e = true := by simp [zipIsDir, hkind]
    simp only [hkind] at hs
    simp only [hdir, if_true]
    rw [htk]
    exact mkdirAll_rel _ _ fs t t' hrel hs
  · have hdir : zipIsDir e = false := by
      have : ¬ e.name.getLast? = some '/' := by
        rcases hslash with h | h
        · exact absurd hkind h
        · exact h
      simp [zipIsDir, hkind, this]
    have hdata : zipData e = e.data := by simp [zipData, hkind]
    simp only [hkind] at hs
    simp only [hdir, Bool.false_eq_true, if_false, hdata]
    have hkne : relComps e.name ≠ [] := by
      rcases hname with h | h
      · exact absurd hkind h
      · exact h
    split at hs
    · cases hs
    · rename_i t1 hm
      rw [hdk, htk, dropLast_append_ne _ _ hkne]
      cases hmk : cfg.zipMkParents with
      | true =>
        simp only [if_true]
        obtain ⟨fs1, hm1, hrel1⟩ := mkdirAll_rel _ _ fs t t1 hrel hm
        rw [hm1]
        exact openWrite_rel _ _ hkne true e.data fs1 t1 t' hrel1 (Or.inl rfl) hs
      | false =>
        simp only [Bool.false_eq_true, if_false]
        have hdf : dirsFrom t [] (relComps e.name).dropLast = true := by
          rcases hpar with (h | h) | h
          · exact absurd hkind h
          · rw [hmk] at h; cases h
          · exact h
        have : t1 = t := by
          have := dirsFrom_mkdirFrom t _ [] hdf
          unfold mkdirAll at hm
          rw [this] at hm; cases hm; rfl
        subst this
        exact openWrite_rel _ _ hkne true e.data fs t1 t' hrel (Or.inl rfl) hs

/-- **the run**: under the side conditions, extraction succeeds and the tree at the destination follows the
    archived tree entry by entry -/
theorem run_rel (cfg : Cfg) (fmt : Format) (d0 : Str) (hd : comps (clean ('/' :: d0)) ≠ []) :
    ∀ (ar : List Entry) (fs t : FS), Rel (comps (clean ('/' :: d0))) fs t → runOK cfg fmt t ar = true →
    (extract cfg fmt ('/' :: d0) fs ar).2 = none ∧ (runSteps specStep t ar).2 = none ∧
    Rel (comps (clean ('/' :: d0))) (extract cfg fmt ('/' :: d0) fs ar).1 (runSteps specStep t ar).1 := by
  intro ar
  induction ar with
  | nil => intro fs t hrel _; exact ⟨rfl, rfl, hrel⟩
  | cons e es ih =>
    intro fs t hrel hok
    simp only [runOK, Bool.and_eq_true] at hok
    obtain ⟨hok1, hok2⟩ := hok
    cases hs : specStep t e with
    | error err => rw [hs] at hok2; cases hok2
    | ok t' =>
      rw [hs] at hok2
      have : ∃ fs', step cfg fmt ('/' :: d0) fs e = .ok fs' ∧ Rel (comps (clean ('/' :: d0))) fs' t' := by
        cases fmt with
        | tgz => exact tarStep_rel cfg d0 fs t t' e hd hrel hok1 hs
        | zip => exact zipStep_rel cfg d0 fs t t' e hd hrel hok1 hs
      obtain ⟨fs', hst, hrel'⟩ := this
      have h := ih fs' t' hrel' hok2
      simp only [extract, runSteps, hst, hs] at h ⊢
      exact h

end LlgoVerif.Extract


