import LlgoVerif.Model.Gzip
import LlgoVerif.Model.Tar
import LlgoVerif.Model.Zip
/-!
# Well-formed containers: how the bytes of an archive file are written

The specification side of the container layer of C20.  A `.tar.gz` is **a concatenation of one or more gzip
members** (RFC 1952 §2.2); the tar stream is the concatenation of their payloads; the tar stream is a sequence
of members, each a 512-byte header followed by the data padded to a multiple of 512, closed by an end marker of
two zero blocks behind which anything may follow.  The writers below produce exactly such files, with the
freedom real writers have:

* `GzMember`: any combination of the optional header fields (`FTEXT`, `FEXTRA`, `FNAME`, `FCOMMENT`, `FHCRC`),
  any `MTIME`/`XFL`/`OS`, and the payload cut into any number of stored DEFLATE blocks (the theorems are about
  the framing; compressed blocks are covered by the correspondence runs);
* `TarMember`: a directory, a regular file or a symbolic link, with a name of any length — names that do not
  fit the 100-byte field are written as a GNU `L` (long name) member in front of the header.

What such a file *means* is the list of entries `TarMember.entry`; what the extraction has to produce is
`specTree` of that list (`Spec/Extract.lean`).  Nothing here is used by the model.
-/
namespace LlgoVerif.Container
open LlgoVerif.Gzip (Bytes natLE crc32)

/-! ## gzip -/

structure GzMember where
  text : Bool
  extra : Option Bytes
  name : Option Bytes
  comment : Option Bytes
  hcrc : Bool
  mtime : Nat
  xfl : UInt8
  os : UInt8
  /-- the payload, cut into stored blocks; `last` is the final block -/
  blocks : List Bytes
  last : Bytes

def GzMember.payload (m : GzMember) : Bytes := m.blocks.flatten ++ m.last

def cstrOK (s : Option Bytes) : Prop := ∀ b, s = some b → b.length < 512 ∧ (0 : UInt8) ∉ b

/-- the fields fit their length prefixes / limits -/
structure GzMember.WF (m : GzMember) : Prop where
  extra : ∀ b, m.extra = some b → b.length < 65536
  name : cstrOK m.name
  comment : cstrOK m.comment
  blocks : ∀ b ∈ m.blocks, b.length < 65536
  last : m.last.length < 65536

def flagByte (m : GzMember) : UInt8 :=
  UInt8.ofNat ((if m.text then 1 else 0) + (if m.hcrc then 2 else 0) + (if m.extra.isSome then 4 else 0) +
    (if m.name.isSome then 8 else 0) + (if m.comment.isSome then 16 else 0))

def cstr : Option Bytes → Bytes
  | none => []
  | some b => b ++ [0]

/-- the header up to (not including) the optional CRC16 -/
def GzMember.headerBody (m : GzMember) : Bytes :=
  [0x1f, 0x8b, 8, flagByte m] ++ natLE 4 m.mtime ++ [m.xfl, m.os] ++
  (match m.extra with | none => [] | some x => natLE 2 x.length ++ x) ++ cstr m.name ++ cstr m.comment

def GzMember.header (m : GzMember) : Bytes :=
  m.headerBody ++ (if m.hcrc then natLE 2 ((crc32 m.headerBody).toNat % 65536) else [])

/-- one stored block: `BFINAL`, `BTYPE = 00`, padding to the byte boundary, `LEN`, `NLEN`, the bytes -/
def storedBlock (final : Bool) (b : Bytes) : Bytes :=
  (if final then 1 else 0) :: (natLE 2 b.length ++ natLE 2 (65535 - b.length) ++ b)

def GzMember.deflate (m : GzMember) : Bytes := m.blocks.flatMap (storedBlock false) ++ storedBlock true m.last

def GzMember.encode (m : GzMember) : Bytes :=
  m.header ++ m.deflate ++ natLE 4 (crc32 m.payload).toNat ++ natLE 4 m.payload.length

/-- a `.gz` file: the members one after the other -/
def gzFile (ms : List GzMember) : Bytes := ms.flatMap GzMember.encode

/-! ## tar -/

open LlgoVerif.Extract (Entry Kind)
open LlgoVerif.Tar (bytesOf toStr padOf sumBytes)

/-- `k` octal digits, most significant first -/
def octalN : Nat → Nat → Bytes
  | 0, _ => []
  | k + 1, n => octalN k (n / 8) ++ [UInt8.ofNat (48 + n % 8)]

/-- a NUL-padded field of `n` bytes -/
def field (n : Nat) (b : Bytes) : Bytes := b ++ List.replicate (n - b.length) 0

/-- a numeric field: `k` octal digits and a NUL -/
def octField (k n : Nat) : Bytes := octalN k n ++ [0]

/-- the checksum field: six octal digits, NUL, space -/
def chkField (n : Nat) : Bytes := octalN 6 n ++ [0, 32]

/-- the part of a header block before the checksum field: name, mode, uid, gid, size, mtime -/
def hdrPre (name : Bytes) (size : Nat) : Bytes :=
  field 100 name ++ octField 7 420 ++ octField 7 0 ++ octField 7 0 ++ octField 11 size ++ octField 11 0

/-- the part behind it: type flag, link name, GNU magic, the rest of the block -/
def hdrPost (typeflag : UInt8) : Bytes :=
  typeflag :: (List.replicate 100 0 ++ bytesOf "ustar  \x00" ++ List.replicate 247 0)

/-- a 512-byte header block (old GNU format) with its checksum -/
def tarHeader (name : Bytes) (typeflag : UInt8) (size : Nat) : Bytes :=
  hdrPre name size ++ chkField (sumBytes (hdrPre name size) + 256 + sumBytes (hdrPost typeflag)) ++ hdrPost typeflag

def zeros (n : Nat) : Bytes := List.replicate n 0

/-- data followed by the padding to the next multiple of 512 -/
def padded (d : Bytes) : Bytes := d ++ zeros (padOf d.length)

inductive TKind where
  | dir | reg | sym | fifo
  deriving DecidableEq, Repr

def TKind.flag : TKind → UInt8
  | .dir => 53 | .reg => 48 | .sym => 50 | .fifo => 54

def TKind.kind : TKind → Kind
  | .dir => .dir | .reg => .reg | .sym => .sym | .fifo => .other

structure TarMember where
  kind : TKind
  name : Bytes
  /-- content (regular files) -/
  data : Bytes

structure TarMember.WF (m : TarMember) : Prop where
  nameNoNUL : (0 : UInt8) ∉ m.name
  nameLen : m.name.length < 1048576
  dataLen : m.data.length < 8 ^ 11

def TarMember.content (m : TarMember) : Bytes := if m.kind = .reg then m.data else []

/-- the member as written: a GNU long-name member first when the name does not fit the header -/
def TarMember.encode (m : TarMember) : Bytes :=
  (if m.name.length > 100 then
     tarHeader (bytesOf "././@LongLink") 76 (m.name.length + 1) ++ padded (m.name ++ [0])
   else []) ++
  tarHeader (m.name.take 100) m.kind.flag m.content.length ++ padded m.content

/-- what the member means -/
def TarMember.entry (m : TarMember) : Entry :=
  { kind := m.kind.kind, name := toStr m.name, data := m.content, link := [] }

def tarStream (ms : List TarMember) : Bytes := ms.flatMap TarMember.encode

/-! ## zip -/

/-- fixed-width little-endian fields one after the other: `(width, value)` -/
def encFields : List (Nat × Nat) → Bytes
  | [] => []
  | (w, v) :: fs => natLE w v ++ encFields fs

/-- a local record: header, name, extra field, the content (stored) -/
structure ZipLocal where
  name : Bytes
  extra : Bytes
  data : Bytes

def ZipLocal.fixed (l : ZipLocal) : List (Nat × Nat) :=
  [(4, 0x04034b50), (2, 20), (2, 0), (2, 0), (2, 0), (2, 0), (4, (crc32 l.data).toNat), (4, l.data.length), (4, l.data.length),
   (2, l.name.length), (2, l.extra.length)]

def ZipLocal.encode (l : ZipLocal) : Bytes := encFields l.fixed ++ (l.name ++ (l.extra ++ l.data))

/-- a central-directory header pointing at the local record number `idx` -/
structure ZipCentral where
  idx : Nat
  /-- "version made by": creator system * 256 + version -/
  creator : Nat
  extAttrs : Nat
  extra : Bytes
  comment : Bytes

def localsBytes (ls : List ZipLocal) : Bytes := ls.flatMap ZipLocal.encode

/-- where the local record number `i` starts -/
def offsetOf (ls : List ZipLocal) (i : Nat) : Nat := (localsBytes (ls.take i)).length

def ZipCentral.fixed (ls : List ZipLocal) (c : ZipCentral) (l : ZipLocal) : List (Nat × Nat) :=
  [(4, 0x02014b50), (2, c.creator), (2, 20), (2, 0), (2, 0), (2, 0), (2, 0), (4, (crc32 l.data).toNat), (4, l.data.length),
   (4, l.data.length), (2, l.name.length), (2, c.extra.length), (2, c.comment.length), (2, 0), (2, 0), (4, c.extAttrs),
   (4, offsetOf ls c.idx)]

def ZipCentral.encode (ls : List ZipLocal) (c : ZipCentral) : Bytes :=
  match ls[c.idx]? with
  | none => []
  | some l => encFields (c.fixed ls l) ++ (l.name ++ (c.extra ++ c.comment))

def centralBytes (ls : List ZipLocal) (cs : List ZipCentral) : Bytes := cs.flatMap (ZipCentral.encode ls)

def eocdFixed (ls : List ZipLocal) (cs : List ZipCentral) : List (Nat × Nat) :=
  [(4, 0x06054b50), (2, 0), (2, 0), (2, cs.length), (2, cs.length), (4, (centralBytes ls cs).length), (4, (localsBytes ls).length), (2, 0)]

/-- a zip file: the local records in *their* order, the central directory in *its* order (it may leave local
    records out, name one twice, and need not follow the order of the records), the end record (no comment) -/
def zipFile (ls : List ZipLocal) (cs : List ZipCentral) : Bytes :=
  localsBytes ls ++ (centralBytes ls cs ++ encFields (eocdFixed ls cs))

structure ZipWF (ls : List ZipLocal) (cs : List ZipCentral) : Prop where
  names : ∀ l ∈ ls, l.name.length < 65536 ∧ l.extra.length < 65536 ∧ l.data.length < 4294967295
  noNUL : ∀ l ∈ ls, (0 : UInt8) ∉ l.name
  centrals : ∀ c ∈ cs, c.idx < ls.length ∧ c.creator < 65536 ∧ c.extAttrs < 4294967296 ∧ c.extra.length < 65536 ∧
    c.comment.length < 65536
  count : cs.length < 65535
  dirSize : (centralBytes ls cs).length < 4294967296 ∧ (centralBytes ls cs).length ≠ 65535
  dirOffset : (localsBytes ls).length < 4294967295

/-- what the central header number `c` means to the loop of `extractZip` -/
def ZipCentral.entry (ls : List ZipLocal) (c : ZipCentral) : Zip.ZEntry :=
  let l := ls.getD c.idx ⟨[], [], []⟩
  let h : Zip.CDH := { creator := c.creator, flags := 0, method := 0, crc := (crc32 l.data).toNat, csize := l.data.length,
                       usize := l.data.length, extAttrs := c.extAttrs, offset := offsetOf ls c.idx, name := l.name,
                       len := 46 + l.name.length + c.extra.length + c.comment.length }
  { name := Zip.toStr l.name, isDir := Zip.isDirOf h, isSym := Zip.isSymOf h, opened := .copied (if Zip.isDirOf h then [] else l.data) false }

end LlgoVerif.Container
