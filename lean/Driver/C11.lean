/-! placeholder driver (property C11 not built yet) -/
def main : IO Unit := IO.println "bad-op"
