/-! placeholder driver (property C01 not built yet) -/
def main : IO Unit := IO.println "bad-op"
