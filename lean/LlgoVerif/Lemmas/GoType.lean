import LlgoVerif.Lemmas.GoTypeStr
/-!
# Lemmas for C07: the run-time type name determines the type (and conversely)

Layout: the decidable side conditions (`wfT`, `tagsErased`, `declKeys`/`Coherent`) → character
classes → invariants of `nameC` (atoms are flat; no newline; balanced brackets; head
classification) → the mutual induction `inj_T`/`inj_L`/`inj_F`/`inj_M`.
-/
namespace LlgoVerif.Types

/-! ## decidable side conditions -/

/-- characters that may occur in a package path -/
def pathChar (c : Char) : Bool :=
  c != ' ' && c != '\n' && c != '\t' && c != '[' && c != ']' && c != '$' && c != '*' && c != '<' && c != ',' && c != '(' && c != ')'
/-- characters of the hash token (base64url: letters, digits, `-`, `_`) -/
def hashChar (c : Char) : Bool := pathChar c && c != '.'
/-- characters of an identifier -/
def identChar (c : Char) : Bool := hashChar c && c != '-' && c != '/'

def identOk (s : Str) : Bool :=
  match s with
  | [] => false
  | c :: r => !isDigit c && (c :: r).all identChar

def pathOk (s : Str) : Bool := s != [] && s.all pathChar

def pkgOk : Option Str → Bool
  | none => true
  | some p => pathOk p

/-- names a package-less named type must not have (they are the names of the basic types) -/
def reserved : List Str :=
  ["bool", "int", "int8", "int16", "int32", "int64", "uint", "uint8", "uint16", "uint32", "uint64", "uintptr",
   "float32", "float64", "complex64", "complex128", "string", "Pointer", "byte", "rune", "any"].map String.toList

/-- the field name Go derives for an embedded field of this type (canonical spellings only:
    an alias, `byte` or `rune` is excluded — their field names are not determined by the type) -/
def embName : GoType → Option Str
  | .named _ _ name _ _ => some name
  | .pointer (.named _ _ name _ _) => some name
  | .basic k => if k = .byte ∨ k = .rune then none else some (basicGoName k)
  | _ => none

def isFunc : GoType → Bool
  | .func _ _ _ => true
  | _ => false

def scOk : Scope → Bool
  | .pos _ => false
  | _ => true

def uniformF (q : Str) : FList → Bool
  | .nil => true
  | .cons _ pkg _ _ _ r => (match pkg with | none => true | some p => p == q) && uniformF q r

def uniformM (q : Str) : MList → Bool
  | .nil => true
  | .cons _ pkg _ r => (match pkg with | none => true | some p => p == q) && uniformM q r

def litUnsafeName : Str := ['u', 'n', 's', 'a', 'f', 'e']   -- path of the pseudo package whose only type is a *types.Basic

/-- the condition on a named type's package: a package-less type is not called like a basic type;
    a package path uses path characters and is not the pseudo package of `unsaf`+`e.Pointer` -/
def namedPkgOk (pkg : Option Str) (name : Str) : Bool :=
  match pkg with
  | none => !(reserved.contains name)
  | some p => pathOk p && pathOf p != litUnsafeName

/-- type arguments the injectivity proof covers: basic types in canonical spelling (no `byte`/`rune`:
    `typeArgString` does not normalise them — a listed finding), named types without type arguments
    of their own, and pointers / slices of these; aliases are looked through as `typeArgString` does -/
def wfArg : GoType → Bool
  | .alias _ a => wfArg a
  | .basic k => k != .byte && k != .rune
  | .pointer e => wfArg e
  | .slice e => wfArg e
  | .named _ pkg name sc targs => targs.isNil && identOk name && scOk sc && namedPkgOk pkg name
  | _ => false

def wfArgs : TList → Bool
  | .nil => true
  | .cons t r => wfArg t && wfArgs r

mutual
/-- well-formedness + the fragment the injectivity proof covers (`ex` = "is this name exported"):
    identifiers and package paths use sane characters; `pkg` is present exactly on non-exported
    names; all non-exported names of one struct / interface belong to one package; an embedded
    field's name is the one its type determines; interface methods have func signatures; named
    types have type arguments from `wfArg` only and no detached scope (`Scope.pos`). -/
def wfT (cfg : Cfg) (ex : Str → Bool) : GoType → Bool
  | .basic _ => true
  | .pointer e => wfT cfg ex e
  | .slice e => wfT cfg ex e
  | .array _ e => wfT cfg ex e
  | .map k v => wfT cfg ex k && wfT cfg ex v
  | .chan _ e => wfT cfg ex e
  | .alias _ a => wfT cfg ex a
  | .func ps rs _ => wfL cfg ex ps && wfL cfg ex rs
  | .struct fs => wfF cfg ex fs && uniformF (firstPkgF fs) fs
  | .iface ms => wfM cfg ex ms && uniformM (firstPkgM ms) ms
  | .named _ pkg name sc targs =>
    identOk name && wfArgs targs && scOk sc && namedPkgOk pkg name && (pkg.isSome || targs.isNil)
def wfL (cfg : Cfg) (ex : Str → Bool) : TList → Bool
  | .nil => true
  | .cons t r => wfT cfg ex t && wfL cfg ex r
def wfF (cfg : Cfg) (ex : Str → Bool) : FList → Bool
  | .nil => true
  | .cons name pkg emb _ t r =>
    identOk name && pkgOk pkg && (pkg.isNone == ex name) && (!emb || cfg.embNames || embName t == some name) &&
      wfT cfg ex t && wfF cfg ex r
def wfM (cfg : Cfg) (ex : Str → Bool) : MList → Bool
  | .nil => true
  | .cons name pkg sig r =>
    identOk name && pkgOk pkg && (pkg.isNone == ex name) && isFunc sig && wfT cfg ex sig && wfM cfg ex r
end

mutual
/-- tags are harmless for the naming variant: either the variant writes them (`cfg.tags`) or no struct
    field carries one -/
def tagsOk (cfg : Cfg) : GoType → Bool
  | .basic _ => true
  | .pointer e => tagsOk cfg e
  | .slice e => tagsOk cfg e
  | .array _ e => tagsOk cfg e
  | .map k v => tagsOk cfg k && tagsOk cfg v
  | .chan _ e => tagsOk cfg e
  | .alias _ a => tagsOk cfg a
  | .func ps rs _ => tagsOkL cfg ps && tagsOkL cfg rs
  | .struct fs => tagsOkF cfg fs
  | .iface ms => tagsOkM cfg ms
  | .named _ _ _ _ targs => tagsOkL cfg targs
def tagsOkL (cfg : Cfg) : TList → Bool
  | .nil => true
  | .cons t r => tagsOk cfg t && tagsOkL cfg r
def tagsOkF (cfg : Cfg) : FList → Bool
  | .nil => true
  | .cons _ _ _ tag t r => (cfg.tags || tag == []) && tagsOk cfg t && tagsOkF cfg r
def tagsOkM (cfg : Cfg) : MList → Bool
  | .nil => true
  | .cons _ _ s r => tagsOk cfg s && tagsOkM cfg r
end

/-- no struct field carries a tag (the side condition for the pinned tree) -/
def tagsErased (t : GoType) : Bool := tagsOk .current t


/-- what `TypeName` renders of a type declaration: (PathOf package, name, scope indices) -/
abbrev Key := Option Str × Str × List Nat

def scIdx : Scope → List Nat
  | .path idx => idx
  | _ => []

def keyOf (pkg : Option Str) (name : Str) (sc : Scope) : Key :=
  match pkg with
  | none => (none, name, [])
  | some p => (some (pathOf p), name, scIdx sc)

mutual
/-- every named-type node of a term with its declaration id and rendered key -/
def declKeys : GoType → List (Nat × Key)
  | .basic _ => []
  | .pointer e => declKeys e
  | .slice e => declKeys e
  | .array _ e => declKeys e
  | .map k v => declKeys k ++ declKeys v
  | .chan _ e => declKeys e
  | .alias _ a => declKeys a
  | .func ps rs _ => declKeysL ps ++ declKeysL rs
  | .struct fs => declKeysF fs
  | .iface ms => declKeysM ms
  | .named d pkg name sc targs => (d, keyOf pkg name sc) :: declKeysL targs
def declKeysL : TList → List (Nat × Key)
  | .nil => []
  | .cons t r => declKeys t ++ declKeysL r
def declKeysF : FList → List (Nat × Key)
  | .nil => []
  | .cons _ _ _ _ t r => declKeys t ++ declKeysF r
def declKeysM : MList → List (Nat × Key)
  | .nil => []
  | .cons _ _ s r => declKeys s ++ declKeysM r
end

/-- the declaration environment is coherent: two named-type nodes denote the same declaration
    exactly when (PathOf package, name, scope indices) agree.  This is what `scopeIndices` is for;
    it fails e.g. for a patched package and its original (`PathOf` maps both to one path). -/
def Coherent (E : List (Nat × Key)) : Prop := ∀ a ∈ E, ∀ b ∈ E, (a.1 = b.1 ↔ a.2 = b.2)

instance (E : List (Nat × Key)) : Decidable (Coherent E) := by unfold Coherent; exact inferInstance


/-! ## character classes -/

def flatChar (c : Char) : Bool := c != ' ' && c != '\n' && c != '[' && c != ']' && c != '*' && c != '<'

/-- a string without blanks, newlines, brackets, `*`, `<` -/
def Flat (s : Str) : Prop := ∀ c ∈ s, flatChar c = true

theorem pathChar_flat {c : Char} (h : pathChar c = true) : flatChar c = true := by
  simp [pathChar, flatChar] at *; simp [h]

theorem hashChar_path {c : Char} (h : hashChar c = true) : pathChar c = true := by
  simp [hashChar] at h; exact h.1

theorem identChar_hash {c : Char} (h : identChar c = true) : hashChar c = true := by
  simp [identChar] at h; exact h.1.1

theorem isDigit_flat {c : Char} (h : isDigit c = true) : flatChar c = true := by
  simp only [isDigit, Bool.and_eq_true, decide_eq_true_eq] at h
  simp only [flatChar, Bool.and_eq_true, bne_iff_ne, ne_eq]
  refine ⟨⟨⟨⟨⟨?_, ?_⟩, ?_⟩, ?_⟩, ?_⟩, ?_⟩ <;> (intro hc; subst hc; revert h; decide)

theorem isDigit_ne {c : Char} (h : isDigit c = true) : c ≠ '.' ∧ c ≠ ']' ∧ c ≠ ' ' ∧ c ≠ '\n' ∧ c ≠ '$' := by
  simp only [isDigit, Bool.and_eq_true, decide_eq_true_eq] at h
  refine ⟨?_, ?_, ?_, ?_, ?_⟩ <;> (intro hc; subst hc; revert h; decide)

theorem flat_append {a b : Str} (ha : Flat a) (hb : Flat b) : Flat (a ++ b) := by
  intro c hc; simp at hc; rcases hc with h | h; exact ha c h; exact hb c h

theorem flat_cons {c : Char} {s : Str} (hc : flatChar c = true) (hs : Flat s) : Flat (c :: s) := by
  intro x hx; simp at hx; rcases hx with rfl | h; exact hc; exact hs x h

theorem flat_of_all {s : Str} {p : Char → Bool} (h : s.all p = true) (hp : ∀ c, p c = true → flatChar c = true) : Flat s := by
  intro c hc; simp at h; exact hp c (h c hc)

theorem flat_dec (n : Nat) : Flat (dec n) := fun c hc => isDigit_flat (dec_isDigit n c hc)

theorem flat_nl {s : Str} (h : Flat s) : '\n' ∉ s := by
  intro hc; have := h _ hc; revert this; decide

theorem flat_sp {s : Str} (h : Flat s) : ' ' ∉ s := by
  intro hc; have := h _ hc; revert this; decide

theorem flat_balanced {s : Str} (h : Flat s) : Balanced s := by
  apply balanced_plain
  · intro hc; have := h _ hc; revert this; decide
  · intro hc; have := h _ hc; revert this; decide

theorem identOk_all {s : Str} (h : identOk s = true) : s.all identChar = true ∧ s ≠ [] := by
  cases s with
  | nil => simp [identOk] at h
  | cons c r => simp only [identOk, Bool.and_eq_true] at h; exact ⟨h.2, by simp⟩

theorem identOk_flat {s : Str} (h : identOk s = true) : Flat s :=
  flat_of_all (identOk_all h).1 fun _ hc => pathChar_flat (hashChar_path (identChar_hash hc))

theorem identOk_notin {s : Str} (h : identOk s = true) : '.' ∉ s ∧ '$' ∉ s ∧ ' ' ∉ s ∧ '-' ∉ s := by
  have ha := (identOk_all h).1
  simp only [List.all_eq_true] at ha
  refine ⟨?_, ?_, ?_, ?_⟩ <;> (intro hc; have := ha _ hc; revert this; decide)

theorem pathOk_chars {s : Str} (h : pathOk s = true) : ∀ c ∈ s, pathChar c = true := by
  simp [pathOk] at h; exact h.2

theorem pathOk_ne {s : Str} (h : pathOk s = true) : s ≠ [] := by
  simp [pathOk] at h; exact h.1

theorem pathChars_flat {s : Str} (h : ∀ c ∈ s, pathChar c = true) : Flat s := fun c hc => pathChar_flat (h c hc)

theorem pathChars_nodollar {s : Str} (h : ∀ c ∈ s, pathChar c = true) : '$' ∉ s := by
  intro hc; have := h _ hc; revert this; decide

theorem pathOf_chars {p : Str} (h : ∀ c ∈ p, pathChar c = true) : ∀ c ∈ pathOf p, pathChar c = true := by
  unfold pathOf
  split
  · intro c hc; exact h c (List.mem_of_mem_drop hc)
  · exact h

theorem hash_flat {hc : Str → Str} (hclean : ∀ x, ∀ c ∈ hc x, hashChar c = true) (x : Str) : Flat (hc x) :=
  fun c h => pathChar_flat (hashChar_path (hclean x c h))

theorem hash_nodollar {hc : Str → Str} (hclean : ∀ x, ∀ c ∈ hc x, hashChar c = true) (x : Str) : '$' ∉ hc x := by
  intro h; have := hclean x _ h; revert this; decide

theorem hash_nodot {hc : Str → Str} (hclean : ∀ x, ∀ c ∈ hc x, hashChar c = true) (x : Str) : '.' ∉ hc x := by
  intro h; have := hclean x _ h; revert this; decide

/-! ## package prefixes -/

theorem firstPkgF_chars {cfg : Cfg} {ex : Str → Bool} : ∀ fs, wfF cfg ex fs = true → ∀ c ∈ firstPkgF fs, pathChar c = true
  | .nil, _ => by simp [firstPkgF]
  | .cons _ pkg _ _ _ r, h => by
    simp only [wfF, Bool.and_eq_true] at h
    have ih := firstPkgF_chars r h.2
    cases pkg with
    | none => simpa [firstPkgF] using ih
    | some p =>
      simp only [firstPkgF]
      split
      · exact ih
      · exact pathOk_chars (by simpa [pkgOk] using h.1.1.1.1.2)

theorem firstPkgM_chars {cfg : Cfg} {ex : Str → Bool} : ∀ ms, wfM cfg ex ms = true → ∀ c ∈ firstPkgM ms, pathChar c = true
  | .nil, _ => by simp [firstPkgM]
  | .cons _ pkg _ r, h => by
    simp only [wfM, Bool.and_eq_true] at h
    have ih := firstPkgM_chars r h.2
    cases pkg with
    | none => simpa [firstPkgM] using ih
    | some p =>
      simp only [firstPkgM]
      split
      · exact ih
      · exact pathOk_chars (by simpa [pkgOk] using h.1.1.1.1.2)

theorem isClosure_false {cfg : Cfg} {ex : Str → Bool} (fs : FList) (h : wfF cfg ex fs = true) : isClosure fs = false := by
  unfold isClosure
  split
  · next n1 _ _ _ _ _ _ n2 _ _ _ =>
    simp only [wfF, Bool.and_eq_true] at h
    have hn := (identOk_notin h.1.1.1.1.1).2.1
    have : n1 ≠ ['$', 'f'] := by intro e; rw [e] at hn; revert hn; decide
    simp
    intro e; exact absurd e this
  · rfl


/-! ## invariants of `nameC` -/

section
variable {hc : Str → Str} (hclean : ∀ x, ∀ c ∈ hc x, hashChar c = true) {cfg : Cfg} {ex : Str → Bool}

theorem flat_lit_dollar_dot (s : Str) (h : s.all flatChar = true) : Flat s := flat_of_all h fun _ h => h

theorem name_basic_flat (k : BasicKind) : Flat (nameC cfg hc false (.basic k)) := by
  simp only [nameC]
  cases k <;> exact flat_lit_dollar_dot _ (by decide)

include hclean in
theorem name_func_flat (ps rs : TList) (v : Bool) : Flat (nameC cfg hc false (.func ps rs v)) := by
  simp only [nameC]
  exact flat_append (flat_lit_dollar_dot _ (by decide)) (hash_flat hclean _)

include hclean in
theorem name_struct_flat (fs : FList) (h : wfF cfg ex fs = true) : Flat (nameC cfg hc false (.struct fs)) := by
  simp only [nameC, isClosure_false fs h, Bool.false_and, Bool.false_eq_true, if_false]
  split
  · exact flat_append (flat_lit_dollar_dot _ (by decide)) (hash_flat hclean _)
  · exact flat_append (pathChars_flat (firstPkgF_chars fs h))
      (flat_append (flat_lit_dollar_dot _ (by decide)) (hash_flat hclean _))

include hclean in
theorem name_iface_flat (ms : MList) (h : wfM cfg ex ms = true) : Flat (nameC cfg hc false (.iface ms)) := by
  simp only [nameC]
  split
  · exact flat_lit_dollar_dot _ (by decide)
  · split
    · exact flat_append (flat_lit_dollar_dot _ (by decide)) (hash_flat hclean _)
    · exact flat_append (pathChars_flat (firstPkgM_chars ms h))
        (flat_append (flat_lit_dollar_dot _ (by decide)) (hash_flat hclean _))

theorem scopeIdx_flat (idx : List Nat) : Flat (idx.flatMap fun i => '.' :: dec i) := by
  intro c hc
  simp at hc
  obtain ⟨i, _, h⟩ := hc
  rcases h with rfl | h
  · decide
  · exact flat_dec i c h

theorem scopeStr_flat (pkg : Option Str) (sc : Scope) (h : scOk sc = true) : Flat (scopeStr pkg sc) := by
  unfold scopeStr
  cases pkg with
  | none => intro c hc; simp at hc
  | some p =>
    cases sc with
    | pkg => intro c hc; simp at hc
    | path idx => exact scopeIdx_flat idx
    | pos p => simp [scOk] at h

/-! ### rendered type arguments -/

/-- every character is a path character (no blank, newline, tab, bracket, `$`, `*`, `<`, comma, parenthesis) -/
def Clean (s : Str) : Prop := ∀ c ∈ s, pathChar c = true

theorem clean_append {a b : Str} (ha : Clean a) (hb : Clean b) : Clean (a ++ b) := by
  intro c hc; simp at hc; rcases hc with h | h; exact ha c h; exact hb c h

theorem clean_cons {c : Char} {s : Str} (hc : pathChar c = true) (hs : Clean s) : Clean (c :: s) := by
  intro x hx; simp at hx; rcases hx with rfl | h; exact hc; exact hs x h

theorem clean_nil : Clean [] := by intro c hc; simp at hc

theorem clean_flat {s : Str} (h : Clean s) : Flat s := fun c hc => pathChar_flat (h c hc)

theorem identOk_clean {s : Str} (h : identOk s = true) : Clean s := by
  have := (identOk_all h).1
  simp only [List.all_eq_true] at this
  exact fun c hc => hashChar_path (identChar_hash (this c hc))

theorem isDigit_path {c : Char} (h : isDigit c = true) : pathChar c = true := by
  simp only [isDigit, Bool.and_eq_true, decide_eq_true_eq] at h
  simp only [pathChar, Bool.and_eq_true, bne_iff_ne, ne_eq]
  refine ⟨⟨⟨⟨⟨⟨⟨⟨⟨⟨?_, ?_⟩, ?_⟩, ?_⟩, ?_⟩, ?_⟩, ?_⟩, ?_⟩, ?_⟩, ?_⟩, ?_⟩ <;> (intro hc; subst hc; revert h; decide)

theorem scopeStr_clean (pkg : Option Str) (sc : Scope) (h : scOk sc = true) : Clean (scopeStr pkg sc) := by
  unfold scopeStr
  cases pkg with
  | none => exact clean_nil
  | some p =>
    cases sc with
    | pkg => exact clean_nil
    | path idx =>
      intro c hc
      simp at hc
      obtain ⟨i, _, h⟩ := hc
      rcases h with rfl | h
      · decide
      · exact isDigit_path (dec_isDigit i c h)
    | pos p => simp [scOk] at h

/-- what the rest of the proof needs to know about a rendered type argument / argument list -/
structure ArgInv (s : Str) : Prop where
  nl : '\n' ∉ s
  dollar : '$' ∉ s
  bal : Balanced s

theorem argInv_clean {s : Str} (h : Clean s) : ArgInv s :=
  ⟨flat_nl (clean_flat h), pathChars_nodollar h, flat_balanced (clean_flat h)⟩

theorem argInv_append {a b : Str} (ha : ArgInv a) (hb : ArgInv b) : ArgInv (a ++ b) :=
  ⟨by simp [ha.nl, hb.nl], by simp [ha.dollar, hb.dollar], balanced_append ha.bal hb.bal⟩

theorem namedPkgOk_some {p name : Str} (h : namedPkgOk (some p) name = true) : pathOk p = true ∧ pathOf p ≠ litUnsafeName := by
  simpa [namedPkgOk] using h

/-- a type argument of the covered fragment renders without newline, `$`, top-level comma, and balanced;
    named arguments and basic names are `Clean`, pointer / slice prefixes add `*` / `[]` -/
theorem argStr_inv : ∀ (t : GoType), wfArg t = true → ArgInv (argStr t) ∧ ',' ∉ argStr t ∧ argStr t ≠ []
  | .alias _ a, h => by simpa [argStr] using argStr_inv a (by simpa [wfArg] using h)
  | .basic k, _ => by
    simp only [argStr]
    cases k <;> exact ⟨⟨by decide, by decide, balanced_plain _ (by decide) (by decide)⟩, by decide, by decide⟩
  | .pointer e, h => by
    obtain ⟨i, c, _⟩ := argStr_inv e (by simpa [wfArg] using h)
    simp only [argStr]
    refine ⟨?_, by simp [c], by simp⟩
    have : ArgInv ['*'] := ⟨by decide, by decide, balanced_plain _ (by decide) (by decide)⟩
    exact argInv_append this i
  | .slice e, h => by
    obtain ⟨i, c, _⟩ := argStr_inv e (by simpa [wfArg] using h)
    simp only [argStr]
    refine ⟨?_, by simp [c], by simp⟩
    have : ArgInv ['[', ']'] := ⟨by decide, by decide, balanced_bracket (s := []) balanced_nil⟩
    exact argInv_append this i
  | .named d pkg name sc targs, h => by
    simp only [wfArg, Bool.and_eq_true] at h
    obtain ⟨⟨⟨ht, hn⟩, hs⟩, hp⟩ := h
    have hc : Clean (argStr (.named d pkg name sc targs)) := by
      simp only [argStr, ht, if_true, List.append_nil]
      cases pkg with
      | none => exact clean_append (identOk_clean hn) (scopeStr_clean _ _ hs)
      | some p =>
        exact clean_append (pathOf_chars (pathOk_chars (namedPkgOk_some hp).1))
          (clean_cons (by decide) (clean_append (identOk_clean hn) (scopeStr_clean _ _ hs)))
    refine ⟨argInv_clean hc, ?_, ?_⟩
    · intro hm; have := hc _ hm; revert this; decide
    · simp only [argStr, ht, if_true, List.append_nil]
      have hne := (identOk_all hn).2
      cases pkg <;> simp [hne]
  | .array _ _, h => by simp [wfArg] at h
  | .map _ _, h => by simp [wfArg] at h
  | .chan _ _, h => by simp [wfArg] at h
  | .func _ _ _, h => by simp [wfArg] at h
  | .struct _, h => by simp [wfArg] at h
  | .iface _, h => by simp [wfArg] at h

theorem argStrs_inv : ∀ (l : TList), wfArgs l = true → ArgInv (argStrs l)
  | .nil, _ => by simp only [argStrs]; exact argInv_clean clean_nil
  | .cons t r, h => by
    simp only [wfArgs, Bool.and_eq_true] at h
    have it := (argStr_inv t h.1).1
    have ir := argStrs_inv r h.2
    simp only [argStrs]
    split
    · exact it
    · have : ArgInv [','] := ⟨by decide, by decide, balanced_plain _ (by decide) (by decide)⟩
      have := argInv_append it (argInv_append this ir)
      simpa using this

/-- `[` args `]`, or nothing -/
def argsPart (targs : TList) : Str := if targs.isNil then [] else '[' :: argStrs targs ++ [']']

theorem argsPart_inv (targs : TList) (h : wfArgs targs = true) : ArgInv (argsPart targs) := by
  unfold argsPart
  split
  · exact argInv_clean clean_nil
  · have i := argStrs_inv targs h
    exact ⟨by simp [i.nl], by simp [i.dollar], balanced_bracket i.bal⟩

theorem namedName_eq (name : Str) (targs : TList) : namedName name targs = name ++ argsPart targs := rfl

theorem name_named_shape {cfg : Cfg} {ex : Str → Bool} (d : Nat) (pkg : Option Str) (name : Str) (sc : Scope) (targs : TList)
    (h : wfT cfg ex (.named d pkg name sc targs) = true) :
    identOk name = true ∧ wfArgs targs = true ∧ scOk sc = true ∧ namedPkgOk pkg name = true ∧ (pkg.isSome = true ∨ targs = .nil) := by
  simp only [wfT, Bool.and_eq_true, Bool.or_eq_true] at h
  obtain ⟨⟨⟨⟨hn, ht⟩, hs⟩, hp⟩, hq⟩ := h
  refine ⟨hn, ht, hs, hp, ?_⟩
  rcases hq with hq | hq
  · exact Or.inl hq
  · right; cases targs with
    | nil => rfl
    | cons _ _ => simp [TList.isNil] at hq

theorem name_named_inv' {cfg : Cfg} {ex : Str → Bool} {hc : Str → Str} (d : Nat) (pkg : Option Str) (name : Str) (sc : Scope) (targs : TList)
    (h : wfT cfg ex (.named d pkg name sc targs) = true) :
    ArgInv (nameC cfg hc false (.named d pkg name sc targs)) := by
  obtain ⟨hn, ht, hs, hp, _⟩ := name_named_shape d pkg name sc targs h
  simp only [nameC, namedName_eq]
  have i1 : ArgInv llgoPrefix := ⟨by decide, by decide, balanced_plain _ (by decide) (by decide)⟩
  have i2 : ArgInv (name ++ argsPart targs ++ scopeStr pkg sc) :=
    argInv_append (argInv_append (argInv_clean (identOk_clean hn)) (argsPart_inv targs ht)) (argInv_clean (scopeStr_clean _ _ hs))
  apply argInv_append i1
  cases pkg with
  | none => simpa [fullName] using i2
  | some p =>
    simp only [fullName]
    have i3 : ArgInv (pathOf p ++ ['.']) :=
      argInv_clean (clean_append (pathOf_chars (pathOk_chars (namedPkgOk_some hp).1)) (clean_cons (by decide) clean_nil))
    have := argInv_append i3 i2
    simpa using this

/-- no newline, balanced brackets -/
def Inv (s : Str) : Prop := '\n' ∉ s ∧ Balanced s

theorem inv_flat {s : Str} (h : Flat s) : Inv s := ⟨flat_nl h, flat_balanced h⟩

theorem inv_append {a b : Str} (ha : Inv a) (hb : Inv b) : Inv (a ++ b) :=
  ⟨by simp [ha.1, hb.1], balanced_append ha.2 hb.2⟩

theorem inv_star : Inv ['*'] := ⟨by decide, balanced_plain _ (by decide) (by decide)⟩

theorem inv_brackets {s : Str} (h : Flat s) : Inv ('[' :: s ++ [']']) :=
  ⟨by have := flat_nl h; simp [this], balanced_bracket (flat_balanced h)⟩

theorem inv_brackets' {s : Str} (h : Inv s) : Inv ('[' :: s ++ [']']) :=
  ⟨by simp [h.1], balanced_bracket h.2⟩

include hclean in
theorem name_inv : ∀ (t : GoType), wfT cfg ex t = true → Inv (nameC cfg hc false t)
  | .basic k, _ => inv_flat (name_basic_flat k)
  | .pointer e, h => by
    have ih := name_inv e (by simpa [wfT] using h)
    simp only [nameC]
    exact inv_append inv_star ih
  | .slice e, h => by
    have ih := name_inv e (by simpa [wfT] using h)
    simp only [nameC]
    have : Inv ['[', ']'] := inv_brackets (s := []) (by intro c hc; simp at hc)
    exact inv_append this ih
  | .array n e, h => by
    have ih := name_inv e (by simpa [wfT] using h)
    simp only [nameC]
    have := inv_append (inv_brackets (flat_dec n)) ih
    simpa using this
  | .map k v, h => by
    simp only [wfT, Bool.and_eq_true] at h
    have ihk := name_inv k h.1
    have ihv := name_inv v h.2
    simp only [nameC]
    have h1 : Inv "map".toList := inv_flat (flat_lit_dollar_dot _ (by decide))
    have := inv_append h1 (inv_append (inv_brackets' ihk) ihv)
    simpa [litMapOpen] using this
  | .chan d e, h => by
    have ih := name_inv e (by simpa [wfT] using h)
    simp only [nameC]
    have h1 : Inv (chanDirStr d ++ [' ']) := by
      cases d <;> exact ⟨by decide, balanced_plain _ (by decide) (by decide)⟩
    have := inv_append h1 ih
    simpa using this
  | .alias _ a, h => by
    have ih := name_inv a (by simpa [wfT] using h)
    simpa [nameC] using ih
  | .func ps rs v, _ => inv_flat (name_func_flat hclean ps rs v)
  | .struct fs, h => by
    simp only [wfT, Bool.and_eq_true] at h
    exact inv_flat (name_struct_flat hclean fs h.1)
  | .iface ms, h => by
    simp only [wfT, Bool.and_eq_true] at h
    exact inv_flat (name_iface_flat hclean ms h.1)
  | .named d pkg name sc targs, h => by
    have := name_named_inv' (hc := hc) d pkg name sc targs h
    exact ⟨this.nl, this.bal⟩

end

/-! ## classification of a name by its head and, for atoms, by its `$`/`.` shape -/

inductive Head | ptr | slice | array | map | chanB | chanS | chanR | atom
  deriving DecidableEq, Repr

inductive AC | func | struct | iface | dotted | plain
  deriving DecidableEq, Repr

def headOf (s : Str) : Head :=
  if ['*'].isPrefixOf s then .ptr
  else if ['[', ']'].isPrefixOf s then .slice
  else if ['['].isPrefixOf s then .array
  else if litMapOpen.isPrefixOf s then .map
  else if ['c', 'h', 'a', 'n', ' '].isPrefixOf s then .chanB
  else if ['c', 'h', 'a', 'n', '<'].isPrefixOf s then .chanS
  else if ['<'].isPrefixOf s then .chanR
  else .atom

def atomClass (s : Str) : AC :=
  if '$' ∈ s then
    let r := (s.takeWhile (· != '$')).reverse
    if r.take 4 = ['c', 'n', 'u', 'f'] then .func
    else if r.take 6 = ['t', 'c', 'u', 'r', 't', 's'] then .struct
    else .iface
  else if '.' ∈ s then .dotted else .plain

def classOf (s : Str) : Head × Option AC :=
  match headOf s with
  | .atom => (.atom, some (atomClass s))
  | h => (h, none)

def typeClass : GoType → Head × Option AC
  | .pointer _ => (.ptr, none)
  | .slice _ => (.slice, none)
  | .array _ _ => (.array, none)
  | .map _ _ => (.map, none)
  | .chan .both _ => (.chanB, none)
  | .chan .send _ => (.chanS, none)
  | .chan .recv _ => (.chanR, none)
  | .alias _ a => typeClass a
  | .basic _ => (.atom, some .plain)
  | .func _ _ _ => (.atom, some .func)
  | .struct _ => (.atom, some .struct)
  | .iface ms => if ms.isNil then (.atom, some .plain) else (.atom, some .iface)
  | .named _ pkg _ _ _ => if pkg.isNone then (.atom, some .plain) else (.atom, some .dotted)

theorem prefix_mem {p s : Str} (h : p.isPrefixOf s = true) : ∀ c ∈ p, c ∈ s := by
  rw [List.isPrefixOf_iff_prefix] at h
  obtain ⟨t, rfl⟩ := h
  intro c hc; simp [hc]

theorem headOf_flat {s : Str} (h : Flat s) : headOf s = .atom := by
  have hn : ∀ p : Str, (∃ c ∈ p, flatChar c = false) → p.isPrefixOf s = false := by
    intro p ⟨c, hc, hf⟩
    cases hp : p.isPrefixOf s with
    | false => rfl
    | true => have := h c (prefix_mem hp c hc); rw [hf] at this; cases this
  unfold headOf
  rw [hn _ ⟨'*', by simp, by decide⟩, hn _ ⟨'[', by simp, by decide⟩, hn ['['] ⟨'[', by simp, by decide⟩,
      hn litMapOpen ⟨'[', by decide, by decide⟩, hn _ ⟨' ', by simp, by decide⟩,
      hn ['c', 'h', 'a', 'n', '<'] ⟨'<', by simp, by decide⟩, hn ['<'] ⟨'<', by simp, by decide⟩]
  simp

theorem takeWhile_until {α} [BEq α] [LawfulBEq α] (c : α) : ∀ (a b : List α), c ∉ a →
    (a ++ c :: b).takeWhile (· != c) = a
  | [], b, _ => by simp
  | x :: a, b, h => by
    simp at h
    have := takeWhile_until c a b h.2
    simp [this, Ne.symm h.1]

theorem atomClass_dollar {pre h : Str} (hp : '$' ∉ pre) :
    atomClass (pre ++ '$' :: h) =
      if pre.reverse.take 4 = ['c', 'n', 'u', 'f'] then .func
      else if pre.reverse.take 6 = ['t', 'c', 'u', 'r', 't', 's'] then .struct else .iface := by
  unfold atomClass
  have : '$' ∈ pre ++ '$' :: h := by simp
  simp only [this, if_true, takeWhile_until '$' pre h hp]


/-! ## the class of `nameC t` is the class of `t` -/

section
variable {hc : Str → Str} (hclean : ∀ x, ∀ c ∈ hc x, hashChar c = true) {cfg : Cfg} {ex : Str → Bool}

theorem classOf_flat {s : Str} (h : Flat s) : classOf s = (.atom, some (atomClass s)) := by
  unfold classOf; rw [headOf_flat h]

theorem atomClass_plain {s : Str} (h1 : '$' ∉ s) (h2 : '.' ∉ s) : atomClass s = .plain := by
  unfold atomClass; simp [h1, h2]

theorem atomClass_dotted {s : Str} (h1 : '$' ∉ s) (h2 : '.' ∈ s) : atomClass s = .dotted := by
  unfold atomClass; simp [h1, h2]

theorem scopeStr_nodollar (pkg : Option Str) (sc : Scope) : '$' ∉ scopeStr pkg sc := by
  unfold scopeStr
  cases pkg with
  | none => simp
  | some p =>
    cases sc with
    | pkg => simp
    | path idx =>
      simp only [List.mem_flatMap, not_exists, not_and]
      intro i _ h
      have h' : '$' ∈ dec i := by simpa using h
      have := dec_isDigit i _ h'; revert this; decide
    | pos p =>
      simp only
      split
      · simp
      · intro h
        have h' : '$' ∈ dec p := by simpa using h
        have := dec_isDigit p _ h'; revert this; decide

theorem scopeStr_none_nodot (sc : Scope) : scopeStr none sc = [] := by simp [scopeStr]

include hclean in
theorem class_name : ∀ (t : GoType), wfT cfg ex t = true → classOf (nameC cfg hc false t) = typeClass t
  | .pointer e, _ => by simp [nameC, classOf, headOf, typeClass]
  | .slice e, _ => by simp [nameC, classOf, headOf, typeClass]
  | .array n e, _ => by
    simp only [nameC, typeClass]
    cases hd : dec n with
    | nil => exact absurd hd (dec_ne_nil n)
    | cons d ds =>
      have : d ≠ ']' := (isDigit_ne (dec_isDigit n d (by simp [hd]))).2.1
      have this' : ¬ (']' = d) := fun e => this e.symm
      simp [classOf, headOf, this']
  | .map k v, _ => by simp [nameC, classOf, headOf, typeClass, litMapOpen]
  | .chan d e, _ => by cases d <;> simp [nameC, classOf, headOf, typeClass, chanDirStr, litMapOpen]
  | .alias _ a, h => by
    have := class_name a (by simpa [wfT] using h)
    simpa [nameC, typeClass] using this
  | .basic k, _ => by
    rw [classOf_flat (name_basic_flat k)]
    simp only [nameC, typeClass]
    cases k <;> decide
  | .func ps rs v, _ => by
    rw [classOf_flat (name_func_flat hclean ps rs v)]
    simp only [nameC, typeClass]
    have : litFunc = ['_', 'l', 'l', 'g', 'o', '_', 'f', 'u', 'n', 'c'] ++ ['$'] := rfl
    rw [this, List.append_assoc, List.singleton_append, atomClass_dollar (by decide)]
    simp
  | .struct fs, h => by
    simp only [wfT, Bool.and_eq_true] at h
    rw [classOf_flat (name_struct_flat hclean fs h.1)]
    simp only [nameC, isClosure_false fs h.1, Bool.false_and, Bool.false_eq_true, if_false, typeClass]
    split
    · have : litStruct = ['_', 'l', 'l', 'g', 'o', '_', 's', 't', 'r', 'u', 'c', 't'] ++ ['$'] := rfl
      rw [this, List.append_assoc, List.singleton_append, atomClass_dollar (by decide)]
      simp
    · have : litStructP = ['.', 's', 't', 'r', 'u', 'c', 't'] ++ ['$'] := rfl
      rw [this, List.append_assoc, ← List.append_assoc, List.singleton_append,
        atomClass_dollar (by
          have := pathChars_nodollar (firstPkgF_chars fs h.1)
          simp [this])]
      simp
  | .iface ms, h => by
    simp only [wfT, Bool.and_eq_true] at h
    rw [classOf_flat (name_iface_flat hclean ms h.1)]
    simp only [nameC, typeClass]
    split
    · decide
    · split
      · have : litIface = ['_', 'l', 'l', 'g', 'o', '_', 'i', 'f', 'a', 'c', 'e'] ++ ['$'] := rfl
        rw [this, List.append_assoc, List.singleton_append, atomClass_dollar (by decide)]
        simp
      · have : litIfaceP = ['.', 'i', 'f', 'a', 'c', 'e'] ++ ['$'] := rfl
        rw [this, List.append_assoc, ← List.append_assoc, List.singleton_append,
          atomClass_dollar (by
            have := pathChars_nodollar (firstPkgM_chars ms h.1)
            simp [this])]
        simp
  | .named d pkg name sc targs, h => by
    have inv := name_named_inv' (hc := hc) d pkg name sc targs h
    obtain ⟨hn, ht, hs, hp, _⟩ := name_named_shape d pkg name sc targs h
    have hd : headOf (nameC cfg hc false (.named d pkg name sc targs)) = .atom := by
      simp [nameC, headOf, llgoPrefix, litMapOpen]
    simp only [classOf, hd, typeClass]
    have hnd := identOk_notin hn
    cases pkg with
    | none =>
      simp only [Option.isNone_none, if_true]
      rw [atomClass_plain inv.dollar]
      simp only [nameC, fullName, scopeStr_none_nodot, List.append_nil, namedName_eq]
      rcases ‹(none : Option Str).isSome = true ∨ targs = .nil› with h' | h'
      · simp at h'
      · subst h'
        simp [argsPart, TList.isNil, llgoPrefix, hnd.1]
    | some p =>
      simp only [Option.isNone_some, Bool.false_eq_true, if_false]
      rw [atomClass_dotted inv.dollar]
      simp [nameC, fullName]

end

/-! ## aliases are transparent -/

theorem unalias_ne_alias : ∀ (t : GoType) (n : Str) (a : GoType), unalias t ≠ .alias n a
  | .alias _ b, n, a => by rw [unalias]; exact unalias_ne_alias b n a
  | .basic _, _, _ => by simp [unalias]
  | .pointer _, _, _ => by simp [unalias]
  | .slice _, _, _ => by simp [unalias]
  | .array _ _, _, _ => by simp [unalias]
  | .map _ _, _, _ => by simp [unalias]
  | .chan _ _, _, _ => by simp [unalias]
  | .func _ _ _, _, _ => by simp [unalias]
  | .struct _, _, _ => by simp [unalias]
  | .iface _, _, _ => by simp [unalias]
  | .named _ _ _ _ _, _, _ => by simp [unalias]

theorem unalias_idem : ∀ (t : GoType), unalias (unalias t) = unalias t
  | .alias _ b => by rw [unalias]; exact unalias_idem b
  | .basic _ => by simp [unalias]
  | .pointer _ => by simp [unalias]
  | .slice _ => by simp [unalias]
  | .array _ _ => by simp [unalias]
  | .map _ _ => by simp [unalias]
  | .chan _ _ => by simp [unalias]
  | .func _ _ _ => by simp [unalias]
  | .struct _ => by simp [unalias]
  | .iface _ => by simp [unalias]
  | .named _ _ _ _ _ => by simp [unalias]

theorem nameC_unalias (hc : Str → Str) (pub : Bool) : ∀ (t : GoType), nameC cfg hc pub t = nameC cfg hc pub (unalias t)
  | .alias _ b => by rw [unalias, nameC]; exact nameC_unalias hc pub b
  | .basic _ => by simp [unalias]
  | .pointer _ => by simp [unalias]
  | .slice _ => by simp [unalias]
  | .array _ _ => by simp [unalias]
  | .map _ _ => by simp [unalias]
  | .chan _ _ => by simp [unalias]
  | .func _ _ _ => by simp [unalias]
  | .struct _ => by simp [unalias]
  | .iface _ => by simp [unalias]
  | .named _ _ _ _ _ => by simp [unalias]

theorem wfT_unalias (cfg : Cfg) (ex : Str → Bool) : ∀ (t : GoType), wfT cfg ex (unalias t) = wfT cfg ex t
  | .alias _ b => by rw [unalias, wfT]; exact wfT_unalias cfg ex b
  | .basic _ => by simp [unalias]
  | .pointer _ => by simp [unalias]
  | .slice _ => by simp [unalias]
  | .array _ _ => by simp [unalias]
  | .map _ _ => by simp [unalias]
  | .chan _ _ => by simp [unalias]
  | .func _ _ _ => by simp [unalias]
  | .struct _ => by simp [unalias]
  | .iface _ => by simp [unalias]
  | .named _ _ _ _ _ => by simp [unalias]

theorem tagsOk_unalias (cfg : Cfg) : ∀ (t : GoType), tagsOk cfg (unalias t) = tagsOk cfg t
  | .alias _ b => by rw [unalias, tagsOk]; exact tagsOk_unalias cfg b
  | .basic _ => by simp [unalias]
  | .pointer _ => by simp [unalias]
  | .slice _ => by simp [unalias]
  | .array _ _ => by simp [unalias]
  | .map _ _ => by simp [unalias]
  | .chan _ _ => by simp [unalias]
  | .func _ _ _ => by simp [unalias]
  | .struct _ => by simp [unalias]
  | .iface _ => by simp [unalias]
  | .named _ _ _ _ _ => by simp [unalias]

theorem declKeys_unalias : ∀ (t : GoType), declKeys (unalias t) = declKeys t
  | .alias _ b => by rw [unalias, declKeys]; exact declKeys_unalias b
  | .basic _ => by simp [unalias]
  | .pointer _ => by simp [unalias]
  | .slice _ => by simp [unalias]
  | .array _ _ => by simp [unalias]
  | .map _ _ => by simp [unalias]
  | .chan _ _ => by simp [unalias]
  | .func _ _ _ => by simp [unalias]
  | .struct _ => by simp [unalias]
  | .iface _ => by simp [unalias]
  | .named _ _ _ _ _ => by simp [unalias]

theorem identical_unalias_r : ∀ (t₁ t₂ : GoType), identical t₁ t₂ = identical t₁ (unalias t₂)
  | .alias _ b, t₂ => by rw [identical, identical]; exact identical_unalias_r b t₂
  | .basic _, _ => by simp [identical, unalias_idem]
  | .pointer _, _ => by simp [identical, unalias_idem]
  | .slice _, _ => by simp [identical, unalias_idem]
  | .array _ _, _ => by simp [identical, unalias_idem]
  | .map _ _, _ => by simp [identical, unalias_idem]
  | .chan _ _, _ => by simp [identical, unalias_idem]
  | .func _ _ _, _ => by simp [identical, unalias_idem]
  | .struct _, _ => by simp [identical, unalias_idem]
  | .iface _, _ => by simp [identical, unalias_idem]
  | .named _ _ _ _ _, _ => by simp [identical, unalias_idem]


/-! ## the tag line of the repaired variant -/

theorem hexDigitC_props : ∀ n, n < 16 → hexDigitC n ≠ '\n' ∧ (hexDigitC n).toNat = (if n < 10 then 48 + n else 87 + n) := by
  intro n hn
  have : n = 0 ∨ n = 1 ∨ n = 2 ∨ n = 3 ∨ n = 4 ∨ n = 5 ∨ n = 6 ∨ n = 7 ∨ n = 8 ∨ n = 9 ∨ n = 10 ∨ n = 11 ∨
      n = 12 ∨ n = 13 ∨ n = 14 ∨ n = 15 := by omega
  rcases this with h | h | h | h | h | h | h | h | h | h | h | h | h | h | h | h <;> subst h <;> decide

theorem hexDigitC_inj {a b : Nat} (ha : a < 16) (hb : b < 16) (h : hexDigitC a = hexDigitC b) : a = b := by
  have h1 := (hexDigitC_props a ha).2
  have h2 := (hexDigitC_props b hb).2
  rw [h] at h1
  rw [h1] at h2
  split at h2 <;> split at h2 <;> omega

theorem hexStr_nonl (bs : List UInt8) : '\n' ∉ hexStr bs := by
  unfold hexStr
  simp only [List.mem_flatMap, not_exists, not_and]
  intro b _ h
  simp only [List.mem_cons, List.not_mem_nil, or_false] at h
  have hb : b.toNat < 256 := b.toNat_lt
  rcases h with h | h
  · exact (hexDigitC_props (b.toNat / 16) (by omega)).1 h.symm
  · exact (hexDigitC_props (b.toNat % 16) (by omega)).1 h.symm

theorem hexStr_inj : ∀ (a b : List UInt8), hexStr a = hexStr b → a = b
  | [], [], _ => rfl
  | [], _ :: _, h => by simp [hexStr] at h
  | _ :: _, [], h => by simp [hexStr] at h
  | x :: xs, y :: ys, h => by
    have e : ∀ (z : UInt8) (zs : List UInt8), hexStr (z :: zs) =
        hexDigitC (z.toNat / 16) :: hexDigitC (z.toNat % 16) :: hexStr zs := by
      intro z zs; simp [hexStr]
    rw [e, e] at h
    simp only [List.cons.injEq] at h
    have hx : x.toNat < 256 := x.toNat_lt
    have hy : y.toNat < 256 := y.toNat_lt
    have h1 := hexDigitC_inj (by omega) (by omega) h.1
    have h2 := hexDigitC_inj (by omega) (by omega) h.2.1
    have : x = y := UInt8.toNat_inj.1 (by omega)
    rw [this, hexStr_inj xs ys h.2.2]

theorem utf8_injective : Function.Injective utf8 := by
  intro a b h
  unfold utf8 at h
  have h1 : (String.ofList a).toByteArray.data = (String.ofList b).toByteArray.data := Array.toList_inj.1 h
  have h2 := ByteArray.ext h1
  exact String.ofList_inj.1 (String.toByteArray_inj.1 h2)

/-- what follows a tag line: nothing, or a field line (which never starts with a tab) -/
def RowStart (s : Str) : Prop := s = [] ∨ ∃ c r, s = c :: r ∧ c ≠ '\t'

theorem tag_step (cfg : Cfg) (g g' F F' : Str) (hg : cfg.tags = true ∨ g = []) (hg' : cfg.tags = true ∨ g' = [])
    (hF : RowStart F) (hF' : RowStart F') (h : tagLine cfg g ++ F = tagLine cfg g' ++ F') : g = g' ∧ F = F' := by
  unfold tagLine at h
  cases ht : cfg.tags with
  | false =>
    simp only [ht, Bool.false_and, Bool.false_eq_true, if_false, List.nil_append] at h
    rcases hg with hg | hg
    · rw [ht] at hg; cases hg
    · rcases hg' with hg' | hg'
      · rw [ht] at hg'; cases hg'
      · exact ⟨by rw [hg, hg'], h⟩
  | true =>
    simp only [ht, Bool.true_and] at h
    have starts : ∀ (X : Str) (T R : Str), RowStart X → X ≠ '\t' :: T ++ R := by
      intro X T R hX e
      rcases hX with rfl | ⟨c, r, rfl, hc⟩
      · simp at e
      · simp at e; exact hc e.1
    by_cases e1 : g = [] <;> by_cases e2 : g' = []
    · simp only [e1, e2] at h ⊢
      exact ⟨trivial, by simpa using h⟩
    · simp only [e1, bne_self_eq_false, Bool.false_eq_true, if_false, List.nil_append] at h
      have : (g' != []) = true := by simpa using e2
      simp only [this, if_true] at h
      exact absurd (by simpa using h) (starts F _ _ hF)
    · simp only [e2, bne_self_eq_false, Bool.false_eq_true, if_false, List.nil_append] at h
      have : (g != []) = true := by simpa using e1
      simp only [this, if_true] at h
      exact absurd (by simpa using h.symm) (starts F' _ _ hF')
    · have t1 : (g != []) = true := by simpa using e1
      have t2 : (g' != []) = true := by simpa using e2
      simp only [t1, t2, if_true, List.cons_append, List.cons.injEq, true_and, List.append_assoc, List.singleton_append] at h
      have := splitFirst '\n' _ _ _ _ (hexStr_nonl _) (hexStr_nonl _) h
      exact ⟨utf8_injective (hexStr_inj _ _ this.1), this.2⟩

end LlgoVerif.Types
