import LlgoVerif.Model.Path
/-! Helper lemmas for C20: `split`/`joinSlash`, the shape of `clean`'s result, prefix guard ⇒ component prefix. -/
namespace LlgoVerif.Path

/-- an ordinary path element: non-empty, not `.`, not `..`, no separator inside -/
def Normal (c : Comp) : Prop := c ≠ [] ∧ c ≠ dot ∧ c ≠ dotdot ∧ '/' ∉ c

instance (c : Comp) : Decidable (Normal c) := by unfold Normal; exact inferInstance

theorem split_ne_nil (s : Str) : split s ≠ [] := by
  induction s with
  | nil => simp [split]
  | cons c cs ih =>
    unfold split
    split
    · simp
    · split <;> simp

theorem split_cons_slash (s : Str) : split ('/' :: s) = [] :: split s := by
  simp [split]

theorem split_cons_of_ne (c : Char) (cs : Str) (h : Comp) (t : List Comp) (hc : c ≠ '/')
    (hs : split cs = h :: t) : split (c :: cs) = (c :: h) :: t := by
  rw [split]; simp [hc, hs]

theorem split_append_slash (a b : Str) : split (a ++ '/' :: b) = split a ++ split b := by
  induction a with
  | nil => simp [split]
  | cons c cs ih =>
    by_cases hc : c = '/'
    · subst hc; simp [split, ih]
    · cases hs : split cs with
      | nil => exact absurd hs (split_ne_nil cs)
      | cons h t =>
        rw [List.cons_append, split_cons_of_ne c _ h (t ++ split b) hc (by rw [ih, hs]; simp),
            split_cons_of_ne c cs h t hc hs]
        simp

theorem split_noslash (c : Comp) (h : '/' ∉ c) : split c = [c] := by
  induction c with
  | nil => simp [split]
  | cons x xs ih =>
    have hx : x ≠ '/' := by intro e; exact h (by simp [e])
    have hxs : '/' ∉ xs := by intro e; exact h (by simp [e])
    rw [split]; simp [hx, ih hxs]

theorem split_noslash_mem (s : Str) : ∀ c ∈ split s, '/' ∉ c := by
  induction s with
  | nil => simp [split]
  | cons x xs ih =>
    by_cases hx : x = '/'
    · subst hx; simp [split]; exact ih
    · rw [split]; simp only [hx, if_false]
      cases hs : split xs with
      | nil => exact absurd hs (split_ne_nil xs)
      | cons h t =>
        rw [hs] at ih
        intro c hc
        simp at hc
        rcases hc with rfl | hc
        · have := ih h (by simp)
          simp [Ne.symm hx, this]
        · exact ih c (by simp [hc])

theorem joinSlash_cons_cons (c d : Comp) (cs : List Comp) :
    joinSlash (c :: d :: cs) = c ++ '/' :: joinSlash (d :: cs) := by
  simp [joinSlash]

theorem split_joinSlash (cs : List Comp) (hne : cs ≠ []) (h : ∀ c ∈ cs, '/' ∉ c) :
    split (joinSlash cs) = cs := by
  induction cs with
  | nil => exact absurd rfl hne
  | cons c rest ih =>
    cases rest with
    | nil => simp [joinSlash]; exact split_noslash c (h c (by simp))
    | cons d ds =>
      rw [joinSlash_cons_cons, split_append_slash, split_noslash c (h c (by simp)),
          ih (by simp) (fun x hx => h x (by simp [hx]))]
      simp

theorem joinSlash_append_singleton (init : List Comp) (l : Comp) (hne : init ≠ []) :
    joinSlash (init ++ [l]) = joinSlash init ++ '/' :: l := by
  induction init with
  | nil => exact absurd rfl hne
  | cons c rest ih =>
    cases rest with
    | nil => simp [joinSlash]
    | cons d ds =>
      have := ih (by simp)
      simp only [List.cons_append] at this ⊢
      rw [joinSlash_cons_cons, this, joinSlash_cons_cons]
      simp

theorem normal_ne_dotdot {c : Comp} (h : Normal c) : c ≠ dotdot := h.2.2.1

/-- pushing ordinary elements -/
theorem cleanStep_normal (r : Bool) (st : List Comp) (c : Comp) (h : Normal c) :
    cleanStep r st c = c :: st := by
  simp [cleanStep, h.1, h.2.1, h.2.2.1]

theorem foldl_cleanStep_normals (r : Bool) (cs : List Comp) (h : ∀ c ∈ cs, Normal c) :
    ∀ st, cs.foldl (cleanStep r) st = cs.reverse ++ st := by
  induction cs with
  | nil => simp
  | cons c rest ih =>
    intro st
    simp [cleanStep_normal r st c (h c (by simp)), ih (fun x hx => h x (by simp [hx]))]

/-- rooted: the stack only ever holds ordinary elements -/
theorem cleanStep_rooted_normal (st : List Comp) (c : Comp) (hc : '/' ∉ c) (hst : ∀ x ∈ st, Normal x) :
    ∀ x ∈ cleanStep true st c, Normal x := by
  unfold cleanStep
  split
  · exact hst
  · split
    · exact hst
    · split
      · cases st with
        | nil => simp
        | cons top rest =>
          simp only
          split
          · simpa using hst
          · intro x hx; exact hst x (by simp [hx])
      · intro x hx
        simp at hx
        rcases hx with rfl | hx
        · exact ⟨by assumption, by assumption, by assumption, hc⟩
        · exact hst x hx

theorem foldl_rooted_normal (cs : List Comp) (hcs : ∀ c ∈ cs, '/' ∉ c) :
    ∀ st, (∀ x ∈ st, Normal x) → ∀ x ∈ cs.foldl (cleanStep true) st, Normal x := by
  induction cs with
  | nil => intro st h; simpa using h
  | cons c rest ih =>
    intro st h
    simp only [List.foldl_cons]
    exact ih (fun x hx => hcs x (by simp [hx])) _ (cleanStep_rooted_normal st c (hcs c (by simp)) h)

theorem cleanComps_rooted_normal (s : Str) : ∀ x ∈ cleanComps true (split s), Normal x := by
  intro x hx
  unfold cleanComps at hx
  simp at hx
  exact foldl_rooted_normal (split s) (split_noslash_mem s) [] (by simp) x hx

theorem clean_rooted (r : Str) : clean ('/' :: r) = '/' :: joinSlash (cleanComps true (split ('/' :: r))) := by
  simp [clean]

theorem normal_nonempty_filter (cs : List Comp) (h : ∀ c ∈ cs, Normal c) : cs.filter (· ≠ []) = cs := by
  simp
  intro a ha
  exact (h a ha).1

theorem comps_rooted_join (cs : List Comp) (h : ∀ c ∈ cs, Normal c) : comps ('/' :: joinSlash cs) = cs := by
  unfold comps
  rw [split_cons_slash]
  by_cases hne : cs = []
  · subst hne; simp [joinSlash, split]
  · rw [split_joinSlash cs hne (fun c hc => (h c hc).2.2.2)]
    simp
    intro a ha
    exact (h a ha).1


/-- string prefix `D/` of a cleaned absolute path ⇒ component prefix with a non-empty ordinary rest -/
theorem prefix_slash_comps (ds ts : List Comp) (hd : ∀ c ∈ ds, Normal c) (ht : ∀ c ∈ ts, Normal c)
    (h : hasPrefix ('/' :: joinSlash ts) (('/' :: joinSlash ds) ++ ['/']) = true) :
    ∃ rest, ts = ds ++ rest ∧ rest ≠ [] ∧ ∀ c ∈ rest, Normal c := by
  unfold hasPrefix at h
  rw [List.isPrefixOf_iff_prefix] at h
  obtain ⟨r, hr⟩ := h
  simp at hr
  -- hr : joinSlash ds ++ '/' :: r = joinSlash ts
  have hts : ts ≠ [] := by
    intro e; subst e; simp [joinSlash] at hr
  have hsp : split (joinSlash ts) = ts := split_joinSlash ts hts (fun c hc => (ht c hc).2.2.2)
  rw [← hr, split_append_slash] at hsp
  by_cases hds : ds = []
  · subst hds
    simp [joinSlash, split] at hsp
    have : ([] : Comp) ∈ ts := by rw [← hsp]; simp
    exact absurd rfl (ht [] this).1
  · rw [split_joinSlash ds hds (fun c hc => (hd c hc).2.2.2)] at hsp
    refine ⟨split r, hsp.symm, split_ne_nil r, ?_⟩
    intro c hc
    exact ht c (by rw [← hsp]; simp [hc])

theorem join_abs (d0 name : Str) :
    join ('/' :: d0) name = '/' :: joinSlash (cleanComps true (split ('/' :: d0 ++ '/' :: name))) := by
  simp [join, clean]

/-- **core of `confined`** in terms of the cleaned component lists -/
theorem guard_comps (d0 name : Str) (acc : Bool)
    (h : guardOK acc ('/' :: d0) (join ('/' :: d0) name) = true) :
    (acc = true ∧ join ('/' :: d0) name = clean ('/' :: d0)) ∨
    ∃ rest, comps (join ('/' :: d0) name) = comps (clean ('/' :: d0)) ++ rest ∧ rest ≠ [] ∧
      ∀ c ∈ rest, Normal c := by
  unfold guardOK at h
  simp only [Bool.or_eq_true, Bool.and_eq_true, beq_iff_eq] at h
  rcases h with h | h
  · exact Or.inl h
  · right
    rw [join_abs, clean_rooted] at h
    have hd := cleanComps_rooted_normal ('/' :: d0)
    have ht := cleanComps_rooted_normal ('/' :: d0 ++ '/' :: name)
    obtain ⟨rest, h1, h2, h3⟩ := prefix_slash_comps _ _ hd ht h
    refine ⟨rest, ?_, h2, h3⟩
    rw [join_abs, clean_rooted, comps_rooted_join _ ht, comps_rooted_join _ hd]
    exact h1

/-! ### unrooted: shape of the stack, idempotence -/

/-- the stack of an unrooted clean: ordinary elements on top of a run of `..` -/
def StackShape (st : List Comp) : Prop :=
  ∃ k ns, st = ns ++ List.replicate k dotdot ∧ ∀ c ∈ ns, Normal c

theorem cleanStep_unrooted_shape (st : List Comp) (c : Comp) (hc : '/' ∉ c) (hst : StackShape st) :
    StackShape (cleanStep false st c) := by
  obtain ⟨k, ns, rfl, hns⟩ := hst
  unfold cleanStep
  split
  · exact ⟨k, ns, rfl, hns⟩
  · split
    · exact ⟨k, ns, rfl, hns⟩
    · split
      · rename_i hdd
        cases ns with
        | nil =>
          cases k with
          | zero => simp; exact ⟨1, [], by simp [hdd, List.replicate], by simp⟩
          | succ k =>
            simp [List.replicate_succ]
            exact ⟨k + 2, [], by simp [hdd, List.replicate_succ], by simp⟩
        | cons top rest =>
          have htop : top ≠ dotdot := (hns top (by simp)).2.2.1
          simp [htop]
          exact ⟨k, rest, rfl, fun x hx => hns x (by simp [hx])⟩
      · refine ⟨k, c :: ns, by simp, ?_⟩
        intro x hx
        simp at hx
        rcases hx with rfl | hx
        · exact ⟨by assumption, by assumption, by assumption, hc⟩
        · exact hns x hx

theorem foldl_unrooted_shape (cs : List Comp) (hcs : ∀ c ∈ cs, '/' ∉ c) :
    ∀ st, StackShape st → StackShape (cs.foldl (cleanStep false) st) := by
  induction cs with
  | nil => intro st h; simpa using h
  | cons c rest ih =>
    intro st h
    simp only [List.foldl_cons]
    exact ih (fun x hx => hcs x (by simp [hx])) _ (cleanStep_unrooted_shape st c (hcs c (by simp)) h)

/-- result shape of `filepath.Clean` -/
inductive CleanShape : Str → Prop where
  | dot : CleanShape ['.']
  | rooted (cs : List Comp) : (∀ c ∈ cs, Normal c) → CleanShape ('/' :: joinSlash cs)
  | rel (k : Nat) (cs : List Comp) : (∀ c ∈ cs, Normal c) → List.replicate k dotdot ++ cs ≠ [] →
      CleanShape (joinSlash (List.replicate k dotdot ++ cs))

theorem clean_shape (p : Str) : CleanShape (clean p) := by
  cases p with
  | nil => exact .dot
  | cons c r =>
    by_cases hc : c = '/'
    · subst hc
      rw [clean_rooted]
      exact .rooted _ (cleanComps_rooted_normal _)
    · simp only [clean, hc, if_false]
      split
      · exact .dot
      · rename_i hne
        obtain ⟨k, ns, hst, hns⟩ := foldl_unrooted_shape (split (c :: r)) (split_noslash_mem _) [] ⟨0, [], rfl, by simp⟩
        have : cleanComps false (split (c :: r)) = List.replicate k dotdot ++ ns.reverse := by
          unfold cleanComps; rw [hst]; simp
        rw [this] at hne ⊢
        exact .rel k ns.reverse (by simpa using hns) hne

theorem foldl_dotdots (k : Nat) : ∀ j, (List.replicate k dotdot).foldl (cleanStep false) (List.replicate j dotdot)
    = List.replicate (k + j) dotdot := by
  induction k with
  | zero => simp
  | succ k ih =>
    intro j
    rw [List.replicate_succ, List.foldl_cons]
    have : cleanStep false (List.replicate j dotdot) dotdot = List.replicate (j + 1) dotdot := by
      cases j with
      | zero => simp [cleanStep, dotdot, dot]
      | succ j => simp [cleanStep, dotdot, dot, List.replicate_succ]
    rw [this, ih]
    congr 1; omega

theorem cleanComps_rel (k : Nat) (cs : List Comp) (h : ∀ c ∈ cs, Normal c) :
    cleanComps false (List.replicate k dotdot ++ cs) = List.replicate k dotdot ++ cs := by
  unfold cleanComps
  rw [List.foldl_append]
  have := foldl_dotdots k 0
  simp only [List.replicate_zero] at this
  rw [this, foldl_cleanStep_normals false cs h]
  simp

theorem normal_head_ne_slash (c : Comp) (h : Normal c) : ∃ x xs, c = x :: xs ∧ x ≠ '/' := by
  cases c with
  | nil => exact absurd rfl h.1
  | cons x xs => exact ⟨x, xs, rfl, by intro e; exact h.2.2.2 (by simp [e])⟩

theorem slashfree_all (cs : List Comp) (k : Nat) (h : ∀ c ∈ cs, Normal c) :
    ∀ c ∈ List.replicate k dotdot ++ cs, '/' ∉ c := by
  intro c hc
  simp at hc
  rcases hc with ⟨_, rfl⟩ | hc
  · decide
  · exact (h c hc).2.2.2

theorem joinSlash_head (cs : List Comp) (x : Char) (xs : Comp) (rest : List Comp) (h : cs = (x :: xs) :: rest) :
    ∃ t, joinSlash cs = x :: t := by
  subst h
  cases rest with
  | nil => exact ⟨xs, by simp [joinSlash]⟩
  | cons d ds => exact ⟨xs ++ '/' :: joinSlash (d :: ds), by simp [joinSlash]⟩

/-- `Clean` is idempotent -/
theorem clean_fix_of_shape (q : Str) (hq : CleanShape q) : clean q = q := by
  cases hq with
  | dot => decide
  | rooted cs h =>
    rw [clean_rooted]
    congr 1; congr 1
    rw [split_cons_slash]
    by_cases hne : cs = []
    · subst hne; simp [joinSlash, split, cleanComps, cleanStep]
    · rw [split_joinSlash cs hne (fun c hc => (h c hc).2.2.2)]
      unfold cleanComps
      simp only [List.foldl_cons]
      have : cleanStep true [] [] = [] := by simp [cleanStep]
      rw [this, foldl_cleanStep_normals true cs h]
      simp
  | rel k cs h hne =>
    have hsp := split_joinSlash _ hne (slashfree_all cs k h)
    -- the first character is not a separator
    have hhead : ∃ x t, joinSlash (List.replicate k dotdot ++ cs) = x :: t ∧ x ≠ '/' := by
      cases k with
      | zero =>
        cases cs with
        | nil => simp at hne
        | cons c rest =>
          obtain ⟨x, xs, hx, hx'⟩ := normal_head_ne_slash c (h c (by simp))
          obtain ⟨t, ht⟩ := joinSlash_head (List.replicate 0 dotdot ++ c :: rest) x xs rest (by simp [hx])
          exact ⟨x, t, ht, hx'⟩
      | succ k =>
        obtain ⟨t, ht⟩ := joinSlash_head (List.replicate (k+1) dotdot ++ cs) '.' ['.'] (List.replicate k dotdot ++ cs)
          (by simp [List.replicate_succ, dotdot])
        exact ⟨'.', t, ht, by decide⟩
    obtain ⟨x, t, hxt, hx⟩ := hhead
    have : clean (x :: t) = (let cs' := cleanComps false (split (x :: t)); if cs' = [] then ['.'] else joinSlash cs') := by
      simp [clean, hx]
    rw [hxt, this, ← hxt, hsp, cleanComps_rel k cs h]
    simp [hne]

theorem clean_idem (p : Str) : clean (clean p) = clean p := clean_fix_of_shape _ (clean_shape p)

/-! ### `filepath.Dir` of a cleaned absolute path drops the last element -/

theorem dropWhile_append_all {α} (p : α → Bool) (a b : List α) (h : ∀ x ∈ a, p x = true) :
    (a ++ b).dropWhile p = b.dropWhile p := by
  induction a with
  | nil => rfl
  | cons x xs ih =>
    simp [h x (by simp)]
    exact ih (fun y hy => h y (by simp [hy]))

theorem uptoLastSlash_append (x l : Str) (hl : '/' ∉ l) : uptoLastSlash (x ++ '/' :: l) = x ++ ['/'] := by
  unfold uptoLastSlash
  have : (x ++ '/' :: l).reverse = l.reverse ++ ('/' :: x.reverse) := by simp
  rw [this, dropWhile_append_all]
  · simp
  · intro c hc
    simp at hc ⊢
    intro e; subst e; exact hl hc

theorem cleanComps_rooted_trailing (ds : List Comp) (h : ∀ c ∈ ds, Normal c) :
    cleanComps true ([] :: (ds ++ [[]])) = ds := by
  unfold cleanComps
  simp only [List.foldl_cons, List.foldl_append, List.foldl_nil]
  have h0 : cleanStep true [] [] = [] := by simp [cleanStep]
  rw [h0, foldl_cleanStep_normals true ds h]
  simp [cleanStep]

theorem dirOf_rooted (ts : List Comp) (h : ∀ c ∈ ts, Normal c) (hne : ts ≠ []) :
    dirOf ('/' :: joinSlash ts) = '/' :: joinSlash ts.dropLast := by
  obtain ⟨init, l, rfl⟩ : ∃ init l, ts = init ++ [l] := ⟨ts.dropLast, ts.getLast hne, (List.dropLast_concat_getLast hne).symm⟩
  have hl : '/' ∉ l := (h l (by simp)).2.2.2
  have hinit : ∀ c ∈ init, Normal c := fun c hc => h c (by simp [hc])
  simp only [List.dropLast_concat]
  unfold dirOf
  by_cases hi : init = []
  · subst hi
    simp only [List.nil_append, joinSlash]
    have := uptoLastSlash_append [] l hl
    simp only [List.nil_append] at this
    rw [this]
    decide
  · rw [joinSlash_append_singleton init l hi]
    have := uptoLastSlash_append ('/' :: joinSlash init) l hl
    simp only [List.cons_append] at this
    rw [this, clean_rooted]
    congr 1; congr 1
    have hs : split ('/' :: (joinSlash init ++ ['/'])) = [] :: (init ++ [[]]) := by
      rw [split_cons_slash, split_append_slash, split_joinSlash init hi (fun c hc => (hinit c hc).2.2.2)]
      simp [split]
    rw [hs]
    exact cleanComps_rooted_trailing init hinit

/-! ### joining a destination with a name that does not climb -/

theorem foldl_dotdot_persists (cs : List Comp) : ∀ st, dotdot ∈ st → dotdot ∈ cs.foldl (cleanStep false) st := by
  induction cs with
  | nil => intro st h; simpa using h
  | cons c rest ih =>
    intro st h
    simp only [List.foldl_cons]
    apply ih
    unfold cleanStep
    split
    · exact h
    · split
      · exact h
      · split
        · cases st with
          | nil => simp at h
          | cons top r =>
            simp only
            split
            · simp [h]
            · rename_i hne
              simp at h
              rcases h with h | h
              · exact absurd h.symm hne
              · exact h
        · simp [h]

/-- running the rooted clean on top of a stack `S` = running the unrooted clean alone, provided the
    latter never climbs out (no `..` survives) -/
theorem foldl_rooted_over (cs : List Comp) (S : List Comp) :
    ∀ S0, dotdot ∉ S0 → dotdot ∉ cs.foldl (cleanStep false) S0 →
      cs.foldl (cleanStep true) (S0 ++ S) = cs.foldl (cleanStep false) S0 ++ S := by
  induction cs with
  | nil => intro S0 _ _; rfl
  | cons c rest ih =>
    intro S0 h0 hfin
    simp only [List.foldl_cons] at hfin ⊢
    have hstep0 : dotdot ∉ cleanStep false S0 c := by
      intro hin; exact hfin (foldl_dotdot_persists rest _ hin)
    have hstep : cleanStep true (S0 ++ S) c = cleanStep false S0 c ++ S := by
      by_cases h1 : c = []
      · simp [cleanStep, h1]
      · by_cases h2 : c = dot
        · simp [cleanStep, h2, dot]
        · by_cases h3 : c = dotdot
          · subst h3
            cases S0 with
            | nil => simp [cleanStep, dotdot, dot] at hstep0
            | cons top r =>
              have : top ≠ dotdot := by intro e; exact h0 (by simp [e])
              simp [cleanStep, dotdot, dot] at this ⊢
              simp [this]
          · simp [cleanStep, h1, h2, h3]
    rw [hstep]
    exact ih _ hstep0 hfin

/-- the elements a relative name contributes (`Clean` of the name alone, not rooted) -/
def relComps (name : Str) : List Comp := cleanComps false (split name)

theorem comps_join_local (d0 name : Str) (h : dotdot ∉ relComps name) :
    comps (join ('/' :: d0) name) = comps (clean ('/' :: d0)) ++ relComps name := by
  rw [join_abs, clean_rooted, comps_rooted_join _ (cleanComps_rooted_normal _),
      comps_rooted_join _ (cleanComps_rooted_normal _)]
  have : '/' :: d0 ++ '/' :: name = ('/' :: d0) ++ '/' :: name := rfl
  rw [this, split_append_slash]
  unfold relComps cleanComps at *
  rw [List.foldl_append]
  have h' : dotdot ∉ List.foldl (cleanStep false) [] (split name) := by simpa using h
  have := foldl_rooted_over (split name) (List.foldl (cleanStep true) [] (split ('/' :: d0))) [] (by simp) h'
  simp only [List.nil_append] at this
  rw [this]
  simp

end LlgoVerif.Path
