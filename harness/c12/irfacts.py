"""Reads package initialisers out of the LLVM IR llgo emits (`llgo build -O0 -gen-llfiles`) and classifies every
instruction SYNTACTICALLY into the tokens of lean/LlgoVerif/Spec/InitShape.lean.  Nothing is judged here: the
shape test (`okShape`, `okEntry`) is evaluated by Lean over the regenerated table."""
import re


class Unsupported(Exception):
    pass


def sym(name):
    """how LLVM prints the symbol"""
    return '@' + name if re.fullmatch(r"[A-Za-z0-9_.\-]+", name) else '@"' + name + '"'


def function_blocks(irtext, fname):
    """-> ordered list of (label, [instruction text]) of `define … @fname(`, or None"""
    m = re.search(r"^define [^\n]*" + re.escape(sym(fname)) + r"\([^\n]*\{\n(.*?)^\}", irtext, re.S | re.M)
    if not m:
        return None
    blocks, cur = [], None
    for line in m.group(1).split("\n"):
        s = line.strip()
        if not s:
            continue
        lm = re.match(r"^([A-Za-z0-9_.$\-]+):", s)
        if lm and not line.startswith(" "):
            cur = (lm.group(1), [])
            blocks.append(cur)
            continue
        if cur is None:
            cur = ("entry", [])
            blocks.append(cur)
        cur[1].append(s)
    return blocks


def init_tokens(irtext, pkgpath, fn="init"):
    """tokens of `<pkgpath>.<fn>`: entry block (allocas dropped) then the body block(s).
    -> list of tuples: ('loadGuard',) ('brGuard', t, f) ('storeGuard',) ('callInit', path) ('callHasPatch',) ('act',) ('brRet',)"""
    blocks = function_blocks(irtext, pkgpath + "." + fn)
    if blocks is None:
        return None
    guard = sym(pkgpath + ".init$guard")
    bmap = dict(blocks)

    def is_ret(label):
        return bmap.get(label) == ["ret void"]

    toks = []
    entry = blocks[0][1]
    loaded = None
    body_label = None
    for ins in entry:
        if re.match(r"^%\S+ = alloca ", ins):
            continue
        m = re.match(r"^(%\S+) = load i1, ptr " + re.escape(guard) + r"(,|$)", ins)
        if m:
            loaded = m.group(1)
            toks.append(("loadGuard",))
            continue
        m = re.match(r"^br i1 (%\S+), label %(\S+), label %(\S+)$", ins)
        if m and m.group(1) == loaded:
            t, f = m.group(2), m.group(3)
            toks.append(("brGuard", "ret" if is_ret(t) else "body", "ret" if is_ret(f) else "body"))
            cands = [x for x in (t, f) if not is_ret(x)]
            body_label = cands[0] if len(cands) == 1 else None
            continue
        toks.append(("act",))
    seen = set()
    while body_label is not None and body_label not in seen:
        seen.add(body_label)
        nxt = None
        for ins in bmap.get(body_label, []):
            if re.match(r"^store i1 true, ptr " + re.escape(guard) + r"(,|$)", ins):
                toks.append(("storeGuard",))
                continue
            m = re.match(r'^call void @("?)(.+?)\1\(\)$', ins)
            if m:
                callee = m.group(2)
                if callee == pkgpath + ".init$hasPatch":
                    toks.append(("callHasPatch",))
                    continue
                if callee.endswith(".init") or callee.endswith(".init$hasPatch"):
                    toks.append(("callInit", callee[:-5] if callee.endswith(".init") else callee))
                    continue
            m = re.match(r"^br label %(\S+)$", ins)
            if m:
                if is_ret(m.group(1)):
                    toks.append(("brRet",))
                else:
                    nxt = m.group(1)        # straight-line continuation of the body
                continue
            if ins == "ret void":
                toks.append(("brRet",))
                continue
            if re.match(r"^(br|switch|indirectbr|invoke) ", ins):
                toks.append(("act",))       # control flow inside the body: not the straight-line form; no terminator token follows
                nxt = None
                break
            if toks[-1] != ("act",):
                toks.append(("act",))       # runs of other instructions are one `act`
        body_label = nxt
    return toks


ENTRY_CALLS = {"Py_Initialize": "pyInit", "github.com/goplus/llgo/runtime/internal/runtime.init": "rtInit",
               "init$abitypes": "abiInit", "runtime.init": "runtimeInit"}


def entry_tokens(irtext, mainpath):
    """calls of the generated entry function `main`, in order"""
    blocks = function_blocks(irtext, "main")
    if blocks is None:
        return None
    if len(blocks) != 1:
        return ["other"]
    out = []
    for ins in blocks[0][1]:
        m = re.match(r'^(?:%\S+ = )?call \S+ @("?)(.+?)\1\(', ins)
        if not m:
            continue
        callee = m.group(2)
        if callee == mainpath + ".init":
            out.append("mainInit")
        elif callee == mainpath + ".main":
            out.append("mainMain")
        else:
            out.append(ENTRY_CALLS.get(callee, "other"))
    return out


def lean_tok(t, ids):
    if t[0] == "brGuard":
        return ".brGuard .%s .%s" % (t[1], t[2])
    if t[0] == "callInit":
        return ".callInit %d" % ids.get(t[1], 999999)
    return "." + t[0]


def lean_fact(pid, toks, imports, golist, ids, has_patch_fn=False, chained=False, comment=""):
    return ("%s  { id := %d, hasPatchFn := %s, chained := %s,\n    toks := [%s],\n    imports := [%s], goList := [%s] }" % (
        ("  -- " + comment + "\n") if comment else "", pid, "true" if has_patch_fn else "false", "true" if chained else "false",
        ", ".join(lean_tok(t, ids) for t in toks),
        ", ".join(str(ids.get(x, 999998)) for x in imports),
        ", ".join(str(x) for x in sorted(ids.get(x, 999998) for x in golist))))


def py_ok_shape(pid, toks, imports, golist, ids, has_patch_fn=False, chained=False):
    """mirror of Lean's okShape, used ONLY to name the offending function in the log"""
    imp = [ids.get(x, 999998) for x in imports]
    if sorted(imp) != sorted(ids.get(x, 999998) for x in golist) or any(q >= pid for q in imp):
        return "imports differ from go list or are not smaller than the package"
    want = [("loadGuard",), ("brGuard", "body", "ret") if has_patch_fn else ("brGuard", "ret", "body"), ("storeGuard",)]
    if toks[:3] != want:
        return "entry is not: load guard; br; store true"
    r = toks[3:]
    if chained and not has_patch_fn:
        if not r or r[0] != ("callHasPatch",):
            return "no call of init$hasPatch right after the guard store"
        r = r[1:]
    for q in imports:
        if not r or r[0] != ("callInit", q):
            return "import initialisers are not called in order before the body"
        r = r[1:]
    while r and r[0] == ("act",):
        r = r[1:]
    if r != [("brRet",)]:
        return "body contains guard stores / initialiser calls after its first action, or has no terminator"
    return None
