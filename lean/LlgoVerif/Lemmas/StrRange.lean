import LlgoVerif.Model.CoreGo
import LlgoVerif.Lemmas.Slice
/-! `for i, r := range s` over a string in the reference evaluator (`CoreGo.runesOf`) is the enumeration C05 proves
    correct for the runtime's `StringIterNext`; what a malformed lead byte yields. -/
namespace LlgoVerif.CoreGo
open LlgoVerif.Utf8 LlgoVerif.Slice

theorem runesOf_nil (fuel i : Nat) : runesOf fuel i [] = [] := by
  cases fuel <;> rfl

/-- the evaluator walks the remaining suffix, the runtime iterator keeps the whole string and a position: same pairs -/
theorem runesOf_iterFrom (s : List Nat) : ∀ fuel pos, runesOf fuel pos (s.drop pos) = iterFrom s fuel pos := by
  intro fuel
  induction fuel with
  | zero => intro pos; rfl
  | succ fuel ih =>
    intro pos
    by_cases h : s.length ≤ pos
    · rw [List.drop_eq_nil_of_le h, runesOf_nil]
      simp only [iterFrom, iterNext_none s pos h]
    · have h' : pos < s.length := by omega
      simp only [iterFrom, iterNext_some s pos h']
      have hne : s.drop pos ≠ [] := by
        intro hc; have := congrArg List.length hc; simp at this; omega
      match hs : s.drop pos with
      | [] => exact absurd hs hne
      | b :: t =>
        simp only [runesOf]
        rw [← hs, List.drop_drop, ih]

theorem runesOf_iterAll (s : List Nat) : runesOf s.length 0 s = iterAll s := by
  have := runesOf_iterFrom s s.length 0
  simpa [iterAll] using this

/-- a byte that cannot start a well-formed encoding — a continuation byte `80..BF`, the overlong leads `C0`, `C1`, or
    `F5..FF` — is one rune U+FFFD of width 1, whatever follows -/
theorem nextRune_invalid_lead (b : Nat) (t : List Nat) (h : (0x80 ≤ b ∧ b < 0xC2) ∨ 0xF5 ≤ b) :
    nextRune (b :: t) = (0xFFFD, 1) := by
  rw [nextRune_cons, if_neg (by omega), decodeRune_eq]
  simp only
  by_cases c2 : 0xC0 ≤ b ∧ b < 0xE0
  · rw [if_pos c2]
    have hb : b = 0xC0 ∨ b = 0xC1 := by omega
    cases t with
    | nil => rfl
    | cons b1 tl =>
      show (if 0x80 ≤ b1 ∧ b1 ≤ 0xBF then (if 0x7F < (b % 32) * 64 + b1 % 64 then ((b % 32) * 64 + b1 % 64, 2) else (runeError, 1))
            else (runeError, 1)) = (0xFFFD, 1)
      by_cases k : 0x80 ≤ b1 ∧ b1 ≤ 0xBF
      · rw [if_pos k, if_neg (by rcases hb with rfl | rfl <;> omega)]; rfl
      · rw [if_neg k]; rfl
  · rw [if_neg c2]
    by_cases c3 : 0xE0 ≤ b ∧ b < 0xF0
    · omega
    · rw [if_neg c3]
      by_cases c4 : 0xF0 ≤ b ∧ b < 0xF8
      · rw [if_pos c4]
        match t with
        | b1 :: b2 :: b3 :: tl =>
          show (if (0x80 ≤ b1 ∧ b1 ≤ 0xBF) ∧ (0x80 ≤ b2 ∧ b2 ≤ 0xBF) ∧ 0x80 ≤ b3 ∧ b3 ≤ 0xBF then
                  (if 0xFFFF < (b % 8) * 262144 + (b1 % 64) * 4096 + (b2 % 64) * 64 + b3 % 64 ∧
                      (b % 8) * 262144 + (b1 % 64) * 4096 + (b2 % 64) * 64 + b3 % 64 ≤ maxRune then
                    ((b % 8) * 262144 + (b1 % 64) * 4096 + (b2 % 64) * 64 + b3 % 64, 4) else (runeError, 1))
                else (runeError, 1)) = (0xFFFD, 1)
          by_cases k : (0x80 ≤ b1 ∧ b1 ≤ 0xBF) ∧ (0x80 ≤ b2 ∧ b2 ≤ 0xBF) ∧ 0x80 ≤ b3 ∧ b3 ≤ 0xBF
          · rw [if_pos k, if_neg (by simp only [maxRune]; omega)]; rfl
          · rw [if_neg k]; rfl
        | [] => rfl
        | [_] => rfl
        | [_, _] => rfl
      · rw [if_neg c4]; rfl

theorem runesOf_invalid_lead (fuel i b : Nat) (t : List Nat) (h : (0x80 ≤ b ∧ b < 0xC2) ∨ 0xF5 ≤ b) :
    runesOf (fuel + 1) i (b :: t) = (i, 0xFFFD) :: runesOf fuel (i + 1) t := by
  simp only [runesOf, nextRune_invalid_lead b t h, List.drop_succ_cons, List.drop_zero]

theorem runesOf_ascii (fuel i b : Nat) (t : List Nat) (h : b < 0x80) :
    runesOf (fuel + 1) i (b :: t) = (i, b) :: runesOf fuel (i + 1) t := by
  simp only [runesOf, nextRune_cons, if_pos h, List.drop_succ_cons, List.drop_zero]

end LlgoVerif.CoreGo
