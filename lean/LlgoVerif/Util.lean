/-! Shared helpers for the line-protocol drivers (executable only; nothing here is used in a theorem). -/
namespace LlgoVerif.Util

def hexVal (c : Char) : Option Nat :=
  if '0' ≤ c && c ≤ '9' then some (c.toNat - '0'.toNat)
  else if 'a' ≤ c && c ≤ 'f' then some (c.toNat - 'a'.toNat + 10)
  else if 'A' ≤ c && c ≤ 'F' then some (c.toNat - 'A'.toNat + 10)
  else none

/-- decode a hex string into bytes; `-` stands for the empty string -/
def unhex (s : String) : Option (List UInt8) :=
  if s = "-" then some [] else
  let rec go : List Char → List UInt8 → Option (List UInt8)
    | [], acc => some acc.reverse
    | [_], _ => none
    | a :: b :: rest, acc =>
      match hexVal a, hexVal b with
      | some x, some y => go rest (UInt8.ofNat (x * 16 + y) :: acc)
      | _, _ => none
  go s.toList []

def hexDigit (n : Nat) : Char :=
  if n < 10 then Char.ofNat ('0'.toNat + n) else Char.ofNat ('a'.toNat + n - 10)

def hex (bs : List UInt8) : String :=
  if bs.isEmpty then "-" else
  String.ofList (bs.flatMap fun b => [hexDigit (b.toNat / 16), hexDigit (b.toNat % 16)])

/-- split on a single separator character -/
def fields (s : String) (sep : Char := ' ') : List String :=
  (s.splitOn (String.singleton sep)).filter (· ≠ "")

def stripNl (s : String) : String :=
  let l := s.toList
  let l := if l.getLast? = some '\n' then l.dropLast else l
  let l := if l.getLast? = some '\r' then l.dropLast else l
  String.ofList l

/-- read stdin line by line, print `f line` for each -/
partial def lineLoop (f : String → String) : IO Unit := do
  let stdin ← IO.getStdin
  let stdout ← IO.getStdout
  let rec loop : IO Unit := do
    let line ← stdin.getLine
    if line.isEmpty then return ()
    stdout.putStrLn (f (stripNl line))
    loop
  loop
  stdout.flush

/-- stateful variant -/
partial def lineLoopSt {σ : Type} (init : σ) (f : σ → String → σ × String) : IO Unit := do
  let stdin ← IO.getStdin
  let stdout ← IO.getStdout
  let rec loop (s : σ) : IO Unit := do
    let line ← stdin.getLine
    if line.isEmpty then return ()
    let (s', out) := f s (stripNl line)
    stdout.putStrLn out
    loop s'
  loop init
  stdout.flush

end LlgoVerif.Util
