import LlgoVerif.Model.Shell
/-! Helper lemmas for C17 (shellparse round trip, safesplit round trip, tag parsing). -/
namespace LlgoVerif.Shell

/-- inside double quotes: consuming `esc a ++ '"' :: rest` appends `a` and closes the quote -/
theorem run_inq (a : List Char) : ∀ (args : List (List Char)) (cur rest : List Char),
    run { args := args, cur := cur, inQ := true, q := '"', has := true } (esc a ++ '"' :: rest)
  = run { args := args, cur := a.reverse ++ cur, inQ := false, q := ' ', has := true } rest := by
  induction a with
  | nil => intro args cur rest; simp [esc, run_cons, step]
  | cons c cs ih =>
    intro args cur rest
    by_cases h1 : c = '"'
    · subst h1; simp [esc, run_cons, step, ih]
    · by_cases h2 : c = '\\'
      · subst h2; simp [esc, run_cons, step, ih]
      · simp [esc, h1, h2, run_cons, step, ih]

theorem run_quote1 (a : List Char) (args : List (List Char)) (rest : List Char) :
    run { args := args, cur := [], inQ := false, q := ' ', has := false } (quote1 a ++ rest)
  = run { args := args, cur := a.reverse, inQ := false, q := ' ', has := true } rest := by
  simp [quote1, run_cons, step, run_inq]

theorem isSpace_space : isSpace ' ' = true := by decide

theorem run_join : ∀ (as : List (List Char)) (a : List Char) (done : List (List Char)),
    run { args := done, cur := [], inQ := false, q := ' ', has := false } (join (a :: as))
  = { args := done ++ (a :: as).dropLast, cur := ((a :: as).getLast (by simp)).reverse,
      inQ := false, q := ' ', has := true } := by
  intro as
  induction as with
  | nil =>
    intro a done
    have := run_quote1 a done []
    simp only [List.append_nil] at this
    simp [join, this, run_nil]
  | cons b bs ih =>
    intro a done
    simp only [join]
    rw [run_quote1, run_cons]
    simp [step, isSpace_space]
    rw [ih]
    simp

/-- inside single quotes nothing is special except the closing quote -/
theorem run_insq (a : List Char) (h : '\'' ∉ a) : ∀ (args : List (List Char)) (cur rest : List Char),
    run { args := args, cur := cur, inQ := true, q := '\'', has := true } (a ++ '\'' :: rest)
  = run { args := args, cur := a.reverse ++ cur, inQ := false, q := ' ', has := true } rest := by
  induction a with
  | nil => intro args cur rest; simp [run_cons, step]
  | cons c cs ih =>
    intro args cur rest
    have hc : c ≠ '\'' := by intro e; exact h (by simp [e])
    have hcs : '\'' ∉ cs := by intro e; exact h (by simp [e])
    by_cases h2 : c = '\\'
    · subst h2
      cases cs with
      | nil => simp [run_cons, step]
      | cons d ds =>
        have := ih hcs args ('\\' :: cur) rest
        simp [run_cons, step] at this ⊢
        exact this
    · have := ih hcs args (c :: cur) rest
      simp [run_cons, step, hc, h2] at this ⊢
      exact this

theorem run_squote1 (a : List Char) (h : '\'' ∉ a) (args : List (List Char)) (rest : List Char) :
    run { args := args, cur := [], inQ := false, q := ' ', has := false } (squote1 a ++ rest)
  = run { args := args, cur := a.reverse, inQ := false, q := ' ', has := true } rest := by
  have := run_insq a h args [] rest
  simp [squote1, run_cons, step] at this ⊢
  exact this

theorem run_sjoin : ∀ (as : List (List Char)) (a : List Char) (done : List (List Char)),
    (∀ x ∈ a :: as, '\'' ∉ x) →
    run { args := done, cur := [], inQ := false, q := ' ', has := false } (sjoin (a :: as))
  = { args := done ++ (a :: as).dropLast, cur := ((a :: as).getLast (by simp)).reverse,
      inQ := false, q := ' ', has := true } := by
  intro as
  induction as with
  | nil =>
    intro a done h
    have := run_squote1 a (h a (by simp)) done []
    simp only [List.append_nil] at this
    simp [sjoin, this, run_nil]
  | cons b bs ih =>
    intro a done h
    simp only [sjoin]
    rw [run_squote1 a (h a (by simp)), run_cons]
    simp [step, isSpace_space]
    rw [ih]
    · simp
    · intro x hx; exact h x (by simp at hx ⊢; right; exact hx)

/-! ## safesplit round trip -/

theorem readContent_nil (cur : List Byte) : readContent cur [] = (cur, []) := by rw [readContent]

theorem readContent_cons (cur : List Byte) (c : Byte) (rest : List Byte) :
    readContent cur (c :: rest) =
      if c = 92 then
        match rest with
        | n :: rest' => if isBlank n then readContent (n :: cur) rest' else readContent (c :: cur) (n :: rest')
        | [] => (c :: cur, [])
      else if isBlank c then
        if (skipSp rest).head? = some 45 then (cur, skipSp rest)
        else readContent (32 :: cur) (skipSp rest)
      else readContent (c :: cur) rest := by
  rw [readContent.eq_def]
  rfl

theorem isBlank_92 : isBlank 92 = false := by decide
theorem isBlank_45 : isBlank 45 = false := by decide
theorem isBlank_32 : isBlank 32 = true := by decide

theorem skipSp_nonblank (c : Byte) (l : List Byte) (h : isBlank c = false) : skipSp (c :: l) = c :: l := by
  simp [skipSp, h]

/-- head of an escaped content is never an unescaped blank, and is `-` only if the content starts with `-` -/
theorem escBlank_head_not_blank (cs : List Byte) (rest : List Byte) :
    ∀ n l, escBlank cs ++ rest = n :: l → cs ≠ [] → isBlank n = false := by
  intro n l h hne
  cases cs with
  | nil => exact absurd rfl hne
  | cons d ds =>
    unfold escBlank at h
    split at h
    · simp at h; rw [← h.1]; exact isBlank_92
    · rename_i hb; simp at h; rw [← h.1]; simpa using hb

def sepOK (rest : List Byte) : Prop := rest = [] ∨ ∃ r, rest = 32 :: 45 :: r

theorem readContent_esc (content : List Byte) :
    ∀ (cur rest : List Byte), content.getLast? ≠ some 92 → sepOK rest →
      readContent cur (escBlank content ++ rest) = (content.reverse ++ cur, rest.tail) := by
  induction content with
  | nil =>
    intro cur rest _ hs
    rcases hs with h | ⟨r, h⟩
    · subst h; simp [escBlank, readContent_nil]
    · subst h
      simp only [escBlank, List.nil_append]
      rw [readContent_cons]
      simp [isBlank_32, skipSp_nonblank 45 r isBlank_45]
  | cons c cs ih =>
    intro cur rest hl hs
    have hl' : cs.getLast? ≠ some 92 := by
      cases cs with
      | nil => simp
      | cons d ds => simpa [List.getLast?_cons_cons] using hl
    by_cases hb : isBlank c = true
    · -- escaped blank
      have : escBlank (c :: cs) = 92 :: c :: escBlank cs := by simp [escBlank, hb]
      rw [this]
      simp only [List.cons_append]
      rw [readContent_cons]
      simp only [if_true, hb]
      rw [ih (c :: cur) rest hl' hs]
      simp
    · have hb' : isBlank c = false := by simpa using hb
      have : escBlank (c :: cs) = c :: escBlank cs := by simp [escBlank, hb']
      rw [this]
      simp only [List.cons_append]
      rw [readContent_cons]
      by_cases h92 : c = 92
      · subst h92
        simp only [if_true]
        -- cs is non-empty (else the content would end in a backslash) and its escaped form starts with a non-blank
        cases hcs : escBlank cs ++ rest with
        | nil =>
          exfalso
          cases cs with
          | nil => simp at hl
          | cons d ds =>
            unfold escBlank at hcs; split at hcs <;> simp at hcs
        | cons n l =>
          have hne : cs ≠ [] := by
            intro h; subst h; simp at hl
          have hnb := escBlank_head_not_blank cs rest n l hcs hne
          simp only [hnb, Bool.false_eq_true, if_false]
          rw [← hcs, ih (92 :: cur) rest hl' hs]
          simp
      · simp only [h92, if_false, hb', Bool.false_eq_true]
        rw [ih (c :: cur) rest hl' hs]
        simp


def push (acc : List (List Byte)) (cur : List Byte) : List (List Byte) :=
  if cur.isEmpty then acc else acc ++ [trimSpace cur.reverse]

theorem flagsLoop_nil (acc : List (List Byte)) (cur : List Byte) : flagsLoop acc cur [] = push acc cur := by
  rw [flagsLoop.eq_def]; rfl

theorem flagsLoop_cons2 (acc : List (List Byte)) (cur : List Byte) (a c : Byte) (l2 : List Byte) :
    flagsLoop acc cur (a :: c :: l2) =
      if (skipSp l2).head? = some 45 then flagsLoop (push acc cur) [c, 45] (skipSp l2)
      else flagsLoop (push acc cur) (readContent [c, 45] (skipSp l2)).1 (readContent [c, 45] (skipSp l2)).2 := by
  rw [flagsLoop.eq_def]; rfl

theorem flagsLoop_flag (acc : List (List Byte)) (cur : List Byte) (f : Flag) (tail : List Byte)
    (hs : sepOK tail) (h1 : f.content.head? ≠ some 45) (h2 : f.content.getLast? ≠ some 92) :
    flagsLoop acc cur (f.render ++ tail) = flagsLoop (push acc cur) f.bytes.reverse tail.tail := by
  obtain ⟨c, content⟩ := f
  simp only [Flag.render, Flag.bytes, List.cons_append] at *
  rw [flagsLoop_cons2]
  cases content with
  | nil =>
    simp only [escBlank, List.nil_append]
    rcases hs with h | ⟨r, h⟩
    · subst h
      simp [skipSp, readContent_nil]
    · subst h
      simp [skipSp, isBlank_32, isBlank_45]
  | cons d ds =>
    have hne : (d :: ds) ≠ [] := by simp
    cases hcs : escBlank (d :: ds) ++ tail with
    | nil => unfold escBlank at hcs; split at hcs <;> simp at hcs
    | cons n l =>
      have hnb := escBlank_head_not_blank (d :: ds) tail n l hcs hne
      have hn45 : n ≠ 45 := by
        unfold escBlank at hcs
        split at hcs
        · simp at hcs; rw [← hcs.1]; decide
        · simp at hcs; rw [← hcs.1]; simpa using h1
      rw [skipSp_nonblank n l hnb]
      have : ¬ ((n :: l).head? = some 45) := by simpa using hn45
      simp only [this, if_false]
      rw [← hcs, readContent_esc (d :: ds) [c, 45] tail h2 hs]
      simp

theorem joinFlags_sepOK (g : Flag) (fs : List Flag) : sepOK (32 :: joinFlags (g :: fs)) := by
  right
  cases fs with
  | nil => exact ⟨_, by simp only [joinFlags, Flag.render]; rfl⟩
  | cons h hs => exact ⟨_, by simp only [joinFlags, Flag.render, List.cons_append]; rfl⟩

theorem flagsLoop_join : ∀ (fs : List Flag) (f : Flag) (acc : List (List Byte)) (cur : List Byte),
    (∀ g ∈ f :: fs, g.WF) →
    flagsLoop acc cur (joinFlags (f :: fs)) = push acc cur ++ (f :: fs).map Flag.bytes := by
  intro fs
  induction fs with
  | nil =>
    intro f acc cur h
    have hf := h f (by simp)
    have := flagsLoop_flag acc cur f [] (Or.inl rfl) hf.1 hf.2.1
    simp only [List.append_nil] at this
    simp only [joinFlags, this, List.tail_nil, flagsLoop_nil]
    have hb : f.bytes.reverse.isEmpty = false := by simp [Flag.bytes]
    simp [push, hb, hf.2.2]
  | cons g gs ih =>
    intro f acc cur h
    have hf := h f (by simp)
    simp only [joinFlags]
    rw [flagsLoop_flag acc cur f _ (joinFlags_sepOK g gs) hf.1 hf.2.1]
    simp only [List.tail_cons]
    rw [ih g (push acc cur) f.bytes.reverse (fun x hx => h x (by simp at hx ⊢; right; exact hx))]
    have hb : f.bytes.reverse.isEmpty = false := by simp [Flag.bytes]
    simp [push, hb, hf.2.2]


/-! ## tag de-duplication -/

theorem dedup_spec (l : List (List Char)) : ∀ seen : List (List Char),
    (dedup seen l).Nodup ∧ (∀ x, x ∈ dedup seen l ↔ (x ∈ l ∧ x ∉ seen)) := by
  induction l with
  | nil => intro seen; simp [dedup]
  | cons t ts ih =>
    intro seen
    unfold dedup
    by_cases h : seen.contains t = true
    · simp only [h, if_true]
      have := ih seen
      refine ⟨this.1, ?_⟩
      intro x
      rw [this.2]
      have ht : t ∈ seen := by simpa using h
      constructor
      · intro ⟨h1, h2⟩; exact ⟨by simp [h1], h2⟩
      · intro ⟨h1, h2⟩
        simp at h1
        rcases h1 with h1 | h1
        · subst h1; exact absurd ht h2
        · exact ⟨h1, h2⟩
    · simp only [h, Bool.false_eq_true, if_false]
      have ht : t ∉ seen := by simpa using h
      have := ih (t :: seen)
      refine ⟨?_, ?_⟩
      · rw [List.nodup_cons]
        refine ⟨?_, this.1⟩
        intro hm
        have := (this.2 t).mp hm
        simp at this
      · intro x
        simp only [List.mem_cons]
        rw [this.2]
        constructor
        · rintro (h1 | ⟨h1, h2⟩)
          · subst h1; exact ⟨Or.inl rfl, ht⟩
          · simp at h2; exact ⟨Or.inr h1, h2.2⟩
        · intro ⟨h1, h2⟩
          by_cases hx : x = t
          · exact Or.inl hx
          · rcases h1 with h1 | h1
            · exact absurd h1 hx
            · exact Or.inr ⟨h1, by simp [hx, h2]⟩

/-! ## unterminated quotes -/

theorem run_inq_open (a : List Char) : ∀ (args : List (List Char)) (cur : List Char),
    (run { args := args, cur := cur, inQ := true, q := '"', has := true } (esc a)).inQ = true := by
  induction a with
  | nil => intro args cur; simp [esc, run_nil]
  | cons c cs ih =>
    intro args cur
    by_cases h1 : c = '"'
    · subst h1; simp [esc, run_cons, step, ih]
    · by_cases h2 : c = '\\'
      · subst h2; simp [esc, run_cons, step, ih]
      · simp [esc, h1, h2, run_cons, step, ih]


/-! ### build constraints -/

theorem blankFields_noblank (t : List Char) : ∀ (cur : List Char), (∀ c ∈ t, isBlankChar c = false) →
    blankFields cur t = if (cur.isEmpty && t.isEmpty) = true then [] else [cur.reverse ++ t] := by
  induction t with
  | nil => intro cur _; cases cur <;> simp [blankFields]
  | cons c rest ih =>
    intro cur h
    have hc : isBlankChar c = false := h c (List.mem_cons_self ..)
    have hr : ∀ d ∈ rest, isBlankChar d = false := fun d hd => h d (List.mem_cons_of_mem _ hd)
    rw [blankFields]; simp only [hc, Bool.false_eq_true, if_false]
    rw [ih (c :: cur) hr]; simp

theorem splitComma_nocomma (t : List Char) : ∀ (cur : List Char), (∀ c ∈ t, c ≠ ',') →
    splitComma cur t = [cur.reverse ++ t] := by
  induction t with
  | nil => intro cur _; simp [splitComma]
  | cons c rest ih =>
    intro cur h
    have hc : c ≠ ',' := h c (List.mem_cons_self ..)
    have hr : ∀ d ∈ rest, d ≠ ',' := fun d hd => h d (List.mem_cons_of_mem _ hd)
    rw [splitComma]; simp only [hc, if_false]
    rw [ih (c :: cur) hr]; simp

theorem validChar_facts (c : Char) (h : isValidTagChar c = true) : isBlankChar c = false ∧ c ≠ ',' ∧ c ≠ '!' := by
  refine ⟨?_, ?_, ?_⟩
  · cases hb : isBlankChar c with
    | false => rfl
    | true =>
      simp only [isBlankChar, Bool.or_eq_true, decide_eq_true_eq] at hb
      rcases hb with hb | hb <;> (subst hb; exact absurd h (by decide))
  · intro hc; subst hc; exact absurd h (by decide)
  · intro hc; subst hc; exact absurd h (by decide)



/-! ## `os.Expand` / `expandEnvWithCmd` on rendered templates -/


/-- a link-directive template, seen as what its author meant: literal text and references to variables -/
inductive Piece where
  | lit (text : List Char)
  | var (name : List Char)          -- written `${name}`

def Piece.render : Piece → List Char
  | .lit t => t
  | .var n => '$' :: '{' :: (n ++ ['}'])

def Piece.denote (env : List Char → List Char) : Piece → List Char
  | .lit t => t
  | .var n => env n

def renderAll (ps : List Piece) : List Char := (ps.map Piece.render).flatten
def denoteAll (env : List Char → List Char) (ps : List Piece) : List Char := (ps.map (Piece.denote env)).flatten

def Piece.WF : Piece → Prop
  | .lit t => '$' ∉ t
  | .var n => n ≠ [] ∧ '}' ∉ n ∧ '$' ∉ n

theorem idxOf?_append_close (n rest : List Char) (h : '}' ∉ n) :
    (n ++ '}' :: rest).idxOf? '}' = some n.length := by
  induction n with
  | nil => simp [List.idxOf?, List.findIdx?_cons]
  | cons c cs ih =>
    have hc : c ≠ '}' := by intro e; apply h; simp [e]
    have hcs : '}' ∉ cs := by intro e; apply h; simp [e]
    have := ih hcs
    simp only [List.idxOf?, List.cons_append, List.findIdx?_cons] at this ⊢
    simp [hc, this]

theorem shellName_braced (n rest : List Char) (hne : n ≠ []) (h : '}' ∉ n) :
    shellName ('{' :: (n ++ '}' :: rest)) = (n, n.length + 2) := by
  have hidx := idxOf?_append_close n rest h
  have hlen : n.length ≠ 0 := by cases n <;> simp_all
  have htake : (n ++ '}' :: rest).take n.length = n := by simp
  unfold shellName
  split
  · simp_all
  · rename_i rest' heq
    injection heq with _ heq
    subst heq
    split
    · rename_i c tl heq2
      split
      · -- special single char: n = [c]
        cases n with
        | nil => exact absurd rfl hne
        | cons d ds =>
          cases ds with
          | nil => simp at heq2; simp [heq2.1]
          | cons e es =>
            simp at heq2
            exfalso; apply h; simp [heq2.2.1]
      · simp [hidx, hlen, htake]
    · simp [hidx, hlen, htake]
  · rename_i c tl hno heq
    injection heq with e1 _
    exact absurd e1.symm hno


theorem osExpand_lit (env : List Char → List Char) (t rest : List Char) (h : '$' ∉ t) (fuel : Nat)
    (hf : t.length ≤ fuel) :
    osExpand env (fuel + k) (t ++ rest) = t ++ osExpand env (fuel - t.length + k) rest := by
  induction t generalizing fuel with
  | nil => simp
  | cons c cs ih =>
    have hc : c ≠ '$' := by intro e; apply h; simp [e]
    have hcs : '$' ∉ cs := by intro e; apply h; simp [e]
    obtain ⟨f, rfl⟩ : ∃ f, fuel = f + 1 := ⟨fuel - 1, by simp at hf; omega⟩
    have : f + 1 + k = (f + k) + 1 := by omega
    rw [this]
    simp only [List.cons_append, osExpand, hc, decide_false, Bool.false_and, Bool.false_eq_true, if_false]
    rw [ih hcs f (by simp at hf; omega)]
    simp


theorem osExpand_nil (env : List Char → List Char) (fuel : Nat) : osExpand env fuel [] = [] := by
  cases fuel <;> simp [osExpand]

theorem osExpand_var (env : List Char → List Char) (n rest : List Char) (hne : n ≠ []) (h : '}' ∉ n) (fuel : Nat) :
    osExpand env (fuel + 1) ('$' :: '{' :: (n ++ '}' :: rest)) = env n ++ osExpand env fuel rest := by
  have hs := shellName_braced n rest hne h
  have hdrop : ('{' :: (n ++ '}' :: rest)).drop (n.length + 2) = rest := by
    simp [List.drop_append]
  simp only [osExpand, decide_true, List.isEmpty_cons, Bool.not_false, Bool.and_self, if_true, hs]
  have : n.isEmpty = false := by cases n <;> simp_all
  simp [this, hdrop]

theorem renderAll_cons (p : Piece) (ps : List Piece) : renderAll (p :: ps) = p.render ++ renderAll ps := by
  simp [renderAll]

theorem denoteAll_cons (env) (p : Piece) (ps : List Piece) : denoteAll env (p :: ps) = p.denote env ++ denoteAll env ps := by
  simp [denoteAll]

/-- no `$(` anywhere in the text -/
def noSub : List Char → Bool
  | [] => true
  | c :: cs => !(c = '$' && cs.head? = some '(') && noSub cs

theorem replaceSubcmds_noSub (cmdOut) (s : List Char) (h : noSub s = true) (fuel : Nat) :
    replaceSubcmds cmdOut fuel s = some (s, false) := by
  induction s generalizing fuel with
  | nil => cases fuel <;> simp [replaceSubcmds]
  | cons c cs ih =>
    cases fuel with
    | zero => simp [replaceSubcmds]
    | succ f =>
      simp only [noSub, Bool.and_eq_true, Bool.not_eq_true'] at h
      have hcs := ih h.2 f
      unfold replaceSubcmds
      simp only [hcs, Option.map_some]
      split
      · rename_i hc
        split
        · simp [hc] at h
        · rfl
      · rfl

theorem noSub_append_lit (t r : List Char) (ht : '$' ∉ t) (hr : noSub r = true) : noSub (t ++ r) = true := by
  induction t with
  | nil => simpa
  | cons c cs ih =>
    have hc : c ≠ '$' := by intro e; apply ht; simp [e]
    have hcs : '$' ∉ cs := by intro e; apply ht; simp [e]
    simp [noSub, hc, ih hcs]

theorem noSub_render (ps : List Piece) (h : ∀ p ∈ ps, p.WF) : noSub (renderAll ps) = true := by
  induction ps with
  | nil => simp [renderAll, noSub]
  | cons p ps ih =>
    have hp := h p (List.mem_cons_self ..)
    have hps := ih (fun q hq => h q (List.mem_cons_of_mem _ hq))
    rw [renderAll_cons]
    cases p with
    | lit t => exact noSub_append_lit t _ hp hps
    | var n =>
      have e : (Piece.var n).render ++ renderAll ps = '$' :: '{' :: (n ++ '}' :: renderAll ps) := by simp [Piece.render]
      rw [e]
      have h2 : noSub ('}' :: renderAll ps) = true := by simp [noSub, hps]
      have := noSub_append_lit n _ hp.2.2 h2
      simp [noSub, this]

theorem splitParen_close (inner rest : List Char) (h : ')' ∉ inner) :
    splitParen (inner ++ ')' :: rest) = some (inner, rest) := by
  induction inner with
  | nil => simp [splitParen]
  | cons c cs ih =>
    have hc : c ≠ ')' := by intro e; apply h; simp [e]
    have hcs : ')' ∉ cs := by intro e; apply h; simp [e]
    simp [splitParen, hc, ih hcs]


/-! ## unquoted words -/


/-- a character that needs no quoting: not white space (`unicode.IsSpace`) and not a quote character -/
def plainChar (c : Char) : Bool := !isSpace c && c != '"' && c != '\''

/-- words separated by one blank, no quoting at all -/
def pjoin : List (List Char) → List Char
  | [] => []
  | [a] => a
  | a :: b :: as => a ++ ' ' :: pjoin (b :: as)

/-- outside quotes, a run of plain characters is appended to the current word -/
theorem run_plain (w : List Char) (hw : ∀ c ∈ w, plainChar c = true) :
    ∀ (args : List (List Char)) (cur rest : List Char) (has : Bool),
    run { args := args, cur := cur, inQ := false, q := ' ', has := has } (w ++ rest)
  = run { args := args, cur := w.reverse ++ cur, inQ := false, q := ' ', has := has || !w.isEmpty } rest := by
  induction w with
  | nil => intro args cur rest has; simp
  | cons c cs ih =>
    intro args cur rest has
    have hc := hw c (List.mem_cons_self ..)
    simp only [plainChar, Bool.and_eq_true, Bool.not_eq_true', bne_iff_ne, ne_eq] at hc
    have hcs : ∀ d ∈ cs, plainChar d = true := fun d hd => hw d (List.mem_cons_of_mem _ hd)
    rw [List.cons_append, run_cons]
    simp only [step, hc.1.1, hc.1.2, hc.2, Bool.not_false, decide_false, Bool.or_self, Bool.false_eq_true,
      if_false, Bool.false_and, Bool.and_false]
    rw [ih hcs]
    simp

theorem run_pjoin : ∀ (as : List (List Char)) (a : List Char) (done : List (List Char)),
    (∀ x ∈ a :: as, x ≠ [] ∧ ∀ c ∈ x, plainChar c = true) →
    run { args := done, cur := [], inQ := false, q := ' ', has := false } (pjoin (a :: as))
  = { args := done ++ (a :: as).dropLast, cur := ((a :: as).getLast (by simp)).reverse,
      inQ := false, q := ' ', has := true } := by
  intro as
  induction as with
  | nil =>
    intro a done h
    have ha := h a (List.mem_cons_self ..)
    have := run_plain a ha.2 done [] [] false
    simp only [List.append_nil] at this
    have hne : a.isEmpty = false := by cases a <;> simp_all
    simp [pjoin, this, run_nil, hne]
  | cons b bs ih =>
    intro a done h
    have ha := h a (List.mem_cons_self ..)
    have hne : a.isEmpty = false := by cases a <;> simp_all
    simp only [pjoin]
    rw [run_plain a ha.2, run_cons]
    simp [step, isSpace_space, hne]
    rw [ih b (done ++ [a]) (fun x hx => h x (List.mem_cons_of_mem _ hx))]
    simp

end LlgoVerif.Shell
