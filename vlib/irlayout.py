"""Layout facts of llgo's emitted type descriptors, read from -O0 LLVM IR text (C15; complements vlib/irdesc.py, which reads
the CONTENTS of the descriptor constants).

`type_sizes(text)` -> {short name of a `%"github.com/goplus/llgo/runtime/abi.X"` type: (size, align)} from the IR's own type
definitions (x86-64 data layout: iN naturally aligned, ptr 8).
`layouts(text)`    -> {symbol: {"header": "ChanType" | "Type" | …, "has_uncommon": bool, "nmethods": n, "moff": emitted Moff | None,
                                "uncommon_offset": byte offset of the UncommonType element | None,
                                "methods_offset": byte offset of the [n]Method element | None}}
Only what the IR says is reported; nothing is inferred from the descriptor's kind."""
import re

from . import irdesc

ABI = 'github.com/goplus/llgo/runtime/abi.'
NAMED = r'%(?:"(?:[^"\\]|\\.)*"|[\w.$-]+)'


def _split_top(body):
    """split a `{ a, b, { c, d } }` body at top-level commas"""
    out, depth, cur = [], 0, []
    for ch in body:
        if ch in "{[(<":
            depth += 1
        elif ch in "}])>":
            depth -= 1
        if ch == "," and depth == 0:
            out.append("".join(cur).strip())
            cur = []
        else:
            cur.append(ch)
    if "".join(cur).strip():
        out.append("".join(cur).strip())
    return out


class Sizer:
    def __init__(self, text):
        self.defs = {}
        for m in re.finditer(r'^(' + NAMED + r') = type (.*)$', text, re.M):
            self.defs[m.group(1)] = m.group(2).strip()
        self.cache = {}

    def size_align(self, t):
        t = t.strip()
        if t in self.cache:
            return self.cache[t]
        r = self._sa(t)
        self.cache[t] = r
        return r

    def _sa(self, t):
        m = re.fullmatch(r'i(\d+)', t)
        if m:
            n = max(1, (int(m.group(1)) + 7) // 8)
            p = 1
            while p < n:
                p *= 2
            return (p, min(p, 8))
        if t == "ptr" or t.endswith("*"):
            return (8, 8)
        if t == "float":
            return (4, 4)
        if t == "double":
            return (8, 8)
        m = re.fullmatch(r'\[(\d+) x (.*)\]', t)
        if m:
            s, a = self.size_align(m.group(2))
            return (int(m.group(1)) * s, a)
        if t.startswith("{") and t.endswith("}"):
            return self.struct(_split_top(t[1:-1]))[0:2]
        if t.startswith("%"):
            d = self.defs.get(t)
            if d is None:
                raise KeyError("no definition of LLVM type " + t)
            return self.size_align(d)
        raise ValueError("unsupported LLVM type " + t)

    def struct(self, elems):
        """-> (size, align, [offset of each element])"""
        off, al, offs = 0, 1, []
        for e in elems:
            s, a = self.size_align(e)
            off = (off + a - 1) // a * a
            offs.append(off)
            off += s
            al = max(al, a)
        off = (off + al - 1) // al * al
        return (off, al, offs)


def type_sizes(text):
    sz = Sizer(text)
    out = {}
    for name in sz.defs:
        inner = name[2:-1] if name.startswith('%"') else name[1:]
        if inner.startswith(ABI):
            try:
                out[inner[len(ABI):]] = sz.size_align(name)
            except (KeyError, ValueError):
                pass
    return out


def layouts(text):
    sz = Sizer(text)
    out = {}
    hdr = re.compile(r'^%"' + re.escape(ABI) + r'(\w+)"$')
    for m in re.finditer(r'^(' + irdesc.SYM + r') = (?:weak_odr |linkonce_odr |private |internal )*(?:unnamed_addr )?(?:constant|global) (.*)$', text, re.M):
        init = m.group(2)
        name = irdesc.unq(m.group(1))
        if name.endswith(("$fields", "$imethods", "$in", "$out")):
            continue
        if init.startswith("{"):
            # literal struct type { header, UncommonType, [n x Method] } followed by its initialiser
            depth, k = 0, 0
            for k, ch in enumerate(init):
                if ch == "{":
                    depth += 1
                elif ch == "}":
                    depth -= 1
                    if depth == 0:
                        break
            elems = _split_top(init[1:k])
            hm = hdr.match(elems[0]) if elems else None
            if not hm or len(elems) != 3 or not elems[1].endswith('abi.UncommonType"'):
                continue
            am = re.fullmatch(r'\[(\d+) x %"' + re.escape(ABI) + r'Method"\]', elems[2])
            if not am:
                continue
            try:
                _, _, offs = sz.struct(elems)
            except (KeyError, ValueError):
                continue
            um = re.search(r'%"' + re.escape(ABI) + r'UncommonType" \{ .*?, i16 (\d+), i16 (\d+), i32 (\d+) \}', init[k:])
            out[name] = {"header": hm.group(1), "has_uncommon": True, "nmethods": int(am.group(1)), "moff": int(um.group(3)) if um else None,
                         "uncommon_offset": offs[1], "methods_offset": offs[2]}
        else:
            hm = re.match(r'%"' + re.escape(ABI) + r'(\w+)" ', init)
            if hm and hm.group(1) not in ("Method", "Imethod", "StructField", "UncommonType"):
                out[name] = {"header": hm.group(1), "has_uncommon": False, "nmethods": 0, "moff": None, "uncommon_offset": None, "methods_offset": None}
    return out
