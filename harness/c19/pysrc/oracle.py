"""python3 oracle for C19: the same computations done by CPython itself, on natively built values.
usage: oracle.py cases < specs.json   -> one expected payload per line
       oracle.py init  < events.json  -> the lines the init phase must print (stderr of the modules merged into stdout)"""
import importlib
import json
import os
import struct
import sys

sys.path.insert(0, os.path.dirname(os.path.abspath(__file__)))
from vhelp import cdump  # noqa: E402


class Null(Exception):
    """the C constructor returns NULL for this value (invalid UTF-8 handed to PyUnicode_FromStringAndSize)"""


def unhex(h):
    return b"" if h == "-" else bytes.fromhex(h)


def build(toks):
    k = toks.pop(0)
    if k in "iu":
        return int(toks.pop(0))
    if k in "IU":
        w = int(toks.pop(0))
        pat = int(toks.pop(0))
        w = w if w in (8, 16, 32) else 64
        pat &= (1 << w) - 1
        if k == "I" and pat >> (w - 1):
            pat -= 1 << w
        return pat
    if k in "fd":
        return struct.unpack("<d", struct.pack("<Q", int(toks.pop(0))))[0]
    if k == "g":
        return struct.unpack("<f", struct.pack("<I", int(toks.pop(0))))[0]
    if k in "sSZ":
        b = unhex(toks.pop(0))
        try:
            return b.decode("utf-8")
        except UnicodeDecodeError:
            raise Null()
    if k in "bB":
        return unhex(toks.pop(0))
    if k == "a":
        return bytearray(unhex(toks.pop(0)))
    if k == "T":
        return True
    if k == "F":
        return False
    if k in "lL":
        n = int(toks.pop(0))
        return [build(toks) for _ in range(n)]
    if k in "tP":
        n = int(toks.pop(0))
        return tuple(build(toks) for _ in range(n))
    raise ValueError(k)


def handle(sp):
    k = sp["k"]
    if k == "const":
        return sp["out"]
    if k in ("value", "value1"):
        try:
            v = build(sp["tok"].split())
        except Null:
            return "E -" if k == "value" else "E"
        d = cdump(v)
        return d + " " + d if k == "value" else d
    if k == "call":
        fn = getattr(importlib.import_module(sp["mod"]), sp["attr"])
        args = [build(a.split()) for a in sp["args"]]
        try:
            return cdump(fn(*args))
        except Exception:
            return "E"
    if k == "sigpair":
        fn = getattr(importlib.import_module("vhelp"), sp["py"])
        args = [build(a.split()) for a in sp["args"]]
        return cdump(fn(*args[:sp["na"]])) + " " + cdump(fn(*args[:sp["nb"]]))
    if k == "attr":
        m = importlib.import_module(sp["mod"])
        return cdump(getattr(m, sp["attr"])) + " T"
    raise ValueError(k)


def run_init(events):
    sys.stderr = sys.stdout
    for ev in events:
        if ev[0] == "import":          # a binding package's init: CPython decides whether the body runs
            importlib.import_module(ev[1])
        elif ev[0] == "xinit":         # user-written py.ImportModule in a variable initialiser
            importlib.import_module(ev[2])
        elif ev[0] == "init":
            print("INIT " + ev[1])
        elif ev[0] == "inituse":
            m = sys.modules[ev[2]]
            print("INITUSE %s %s %s" % (ev[1], ev[2], cdump(m.tag())))
        elif ev[0] == "initmod":
            m = importlib.import_module(ev[2])
            print("INITMOD %s %s %s" % (ev[1], ev[2], cdump(sys.modules[ev[2]] is m)))
        sys.stdout.flush()


if __name__ == "__main__":
    if sys.argv[1] == "cases":
        for sp in json.load(sys.stdin):
            print(handle(sp))
    else:
        run_init(json.load(sys.stdin))
