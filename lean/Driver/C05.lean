import LlgoVerif.Util
import LlgoVerif.Model.Utf8
import LlgoVerif.Model.Slice
/-! Line-protocol driver for C05 (slices and strings).  One request per line, one answer per line; the protocol is
    the one of `harness/c05/main.go.txt` (the native-copy interpreter over llgo's real runtime functions):

    `cfg Z M` (which repairs the tree contains) | `reset` | `mk r len cap esz seed` | `nil r esz` | `set a idx seed` |
    `app r a b [cap]` | `appself r a i j [cap]` | `cp a b` | `cpself a i j` | `re r a i j k` | `clr a` | `dump` |
    `nsc newLen oldCap` | `cat H H` | `ssl H i j` | `less H H` | `eq H H` | `s2b H` | `b2s H` | `s2r H` | `r2s r,r,…` |
    `i2s N` | `u2s N` | `rune2s N` | `iter H` | `dec H k` | `enc N` | `encrange lo hi` | `rtrange lo hi` | `decgrid mode lo hi`.

    The optional `[cap]` of `app`/`appself` is the capacity the real code chose when it had to grow (Go does not fix
    the growth policy); without it the model uses its own `nextslicecap`. -/
open LlgoVerif LlgoVerif.Util LlgoVerif.Slice

structure St where
  cfg : Cfg := Cfg.current
  mem : Mem := Mem.empty
  regs : Array (Option (Slice × Nat)) := Array.replicate 8 none
  allocs : Array (Nat × Nat) := #[]

/-- extensionally the identity: re-tabulate the heap so that reads stay O(1) (executable only) -/
def compact (m : Mem) : Mem :=
  let arr : Array Nat := Array.ofFn (n := m.next + 64) fun i => m.bytes i.val
  { m with bytes := fun a => arr.getD a 0 }

def pat (seed t : Nat) : Nat := (seed * 37 + t * 11 + 5) % 251

def hexN (bs : List Nat) : String := hex (bs.map UInt8.ofNat)

def parseInt (s : String) : Option Int :=
  match s.toList with
  | '-' :: rest => if rest.isEmpty then none else (String.ofList rest).toNat?.map fun n => - (n : Int)
  | _ => s.toNat?.map fun n => (n : Int)

def parseReg (s : String) : Option Nat :=
  match s.toList with
  | ['r', d] => if '0' ≤ d ∧ d ≤ '7' then some (d.toNat - '0'.toNat) else none
  | _ => none

def whereIs (allocs : Array (Nat × Nat)) (p capBytes : Nat) : String × Array (Nat × Nat) :=
  match allocs.findIdx? (fun a => a.1 ≤ p ∧ p < a.1 + a.2) with
  | some i => (s!"{i}+{p - (allocs.getD i (0, 0)).1}", allocs)
  | none => (s!"{allocs.size}+0", allocs.push (p, if capBytes = 0 then 1 else capBytes))

def desc (st : St) (r : Option (Slice × Nat)) : String × St :=
  match r with
  | none => ("unset", st)
  | some (s, esz) =>
    let nilf := if s.data = 0 then 1 else 0
    let (al, allocs) :=
      if s.cap > 0 ∧ s.data ≠ 0 then whereIs st.allocs s.data (s.cap * esz).toNat else ("-", st.allocs)
    let st := { st with allocs := allocs }
    if s.len < 0 ∨ s.cap < s.len ∨ s.cap > 1048576 then
      (s!"len={s.len} cap={s.cap} al={al} nil={nilf} d=? t=?", st)
    else
      let l := (s.len * esz).toNat
      let d := st.mem.read s.data l
      let t := st.mem.read (s.data + l) ((s.cap - s.len) * esz).toNat
      (s!"len={s.len} cap={s.cap} al={al} nil={nilf} d={hexN d} t={hexN t}", st)

def getReg (st : St) (name : String) : Option (Slice × Nat) :=
  match parseReg name with
  | some i => (st.regs.getD i none)
  | none => none

def b2i (b : Bool) : Nat := if b then 1 else 0

def polOf (hint : Option String) : Int → Int → Int :=
  match hint.bind parseInt with
  | some c => fun _ _ => c
  | none => nextslicecap

/-- `SliceAppend` as the real process behaves: on `memcpy` UB the stand-in (like glibc) copies as `memmove`,
    and the call is flagged `ub=1` -/
def appendObserved (cfg : Cfg) (pol : Int → Int → Int) (m : Mem) (src : Slice) (data : Nat) (num esz : Int) :
    Except Err (Mem × Slice × Nat) :=
  match SliceAppend cfg pol m src data num esz with
  | .ok (m', s') => .ok (m', s', 0)
  | .error .ub =>
    match SliceAppend { cfg with memmoveFix := true } pol m src data num esz with
    | .ok (m', s') => .ok (m', s', 1)
    | .error e => .error e
  | .error e => .error e

def runesStr (rs : List Int) : String :=
  if rs.isEmpty then "-" else ",".intercalate (rs.map toString)

def mix (d v : Nat) : Nat := (d ^^^ v) * 1099511628211 % 18446744073709551616
def fnvOff : Nat := 14695981039346656037

def grid : List Nat := [0x00, 0x01, 0x7F, 0x80, 0x81, 0x8F, 0x90, 0x9F, 0xA0, 0xAF, 0xB0, 0xBF, 0xC0, 0xC1, 0xF4, 0xFF]

def gridOne (d : Nat) (s : List Nat) : Nat :=
  let r := Utf8.decodeRune s
  let d := mix (mix d r.1) r.2
  mix (mix d r.1) (r.2 + 1)

def finish (st : St) (out : String) : St × String := ({ st with mem := compact st.mem }, out)

def sliceOp (st : St) (ri : Nat) (res : Except Err (Mem × Slice × Nat)) (esz : Nat) (shWith : Option Nat) : St × String :=
  match res with
  | .error _ => (st, "panic")
  | .ok (m, s, ub) =>
    let st := { st with mem := m, regs := st.regs.setIfInBounds ri (some (s, esz)) }
    let (d, st) := desc st (some (s, esz))
    let sh := match shWith with
      | some p => s!" sh={b2i (p = s.data)}"
      | none => ""
    finish st s!"ok {d}{sh} ub={ub}"

def handle (st : St) (line : String) : St × String :=
  let f := fields line
  match f with
  | ["cfg", z, m] => ({ st with cfg := ⟨z = "1", m = "1"⟩ }, "ok")
  | ["reset"] => ({ cfg := st.cfg }, "ok")
  | ["mk", r, l, c, e, seed] =>
    match parseReg r, parseInt l, parseInt c, e.toNat?, seed.toNat? with
    | some ri, some l, some c, some esz, some seed =>
      match MakeSlice st.mem l c esz with
      | .error _ => (st, "panic")
      | .ok (m, s) =>
        let n := (l * esz).toNat
        let m := m.blit s.data ((List.range n).map (pat seed))
        sliceOp st ri (.ok (m, s, 0)) esz none
    | _, _, _, _, _ => (st, "bad-op")
  | ["nil", r, e] =>
    match parseReg r, e.toNat? with
    | some ri, some esz => sliceOp st ri (.ok (st.mem, ⟨0, 0, 0⟩, 0)) esz none
    | _, _ => (st, "bad-op")
  | ["set", a, idx, seed] =>
    match getReg st a, idx.toNat?, seed.toNat? with
    | some (s, esz), some idx, some seed =>
      if (idx : Int) < s.len then
        finish { st with mem := st.mem.blit (s.data + idx * esz) ((List.range esz).map (pat seed)) } "ok"
      else (st, "bad-op")
    | _, _, _ => (st, "bad-op")
  | "app" :: r :: a :: b :: hint =>
    match parseReg r, getReg st a, getReg st b with
    | some ri, some (sa, ea), some (sb, eb) =>
      if ea ≠ eb then (st, "bad-op") else
      sliceOp st ri (appendObserved st.cfg (polOf hint.head?) st.mem sa sb.data sb.len ea) ea (some sa.data)
    | _, _, _ => (st, "bad-op")
  | "appself" :: r :: a :: i :: j :: hint =>
    match parseReg r, getReg st a, parseInt i, parseInt j with
    | some ri, some (sa, ea), some i, some j =>
      let res : Except Err (Mem × Slice × Nat) := do
        let x ← NewSlice3 sa.data ea sa.cap 0 i sa.cap
        let y ← NewSlice3 sa.data ea sa.cap j sa.len sa.cap
        appendObserved st.cfg (polOf hint.head?) st.mem x y.data y.len ea
      sliceOp st ri res ea (some sa.data)
    | _, _, _, _ => (st, "bad-op")
  | ["cp", a, b] =>
    match getReg st a, getReg st b with
    | some (sa, ea), some (sb, eb) =>
      if ea ≠ eb then (st, "bad-op") else
      let (m, n) := SliceCopy st.mem sa sb.data sb.len ea
      let st := { st with mem := m }
      let (d, st) := desc st (some (sa, ea))
      finish st s!"ok n={n} {d} ub=0"
    | _, _ => (st, "bad-op")
  | ["cpself", a, i, j] =>
    match getReg st a, parseInt i, parseInt j with
    | some (sa, ea), some i, some j =>
      let res : Except Err (Mem × Int) := do
        let x ← NewSlice3 sa.data ea sa.cap i sa.len sa.cap
        let y ← NewSlice3 sa.data ea sa.cap j sa.len sa.cap
        pure (SliceCopy st.mem x y.data y.len ea)
      match res with
      | .error _ => (st, "panic")
      | .ok (m, n) =>
        let st := { st with mem := m }
        let (d, st) := desc st (some (sa, ea))
        finish st s!"ok n={n} {d} ub=0"
    | _, _, _ => (st, "bad-op")
  | ["re", r, a, i, j, k] =>
    match parseReg r, getReg st a, parseInt i, parseInt j, parseInt k with
    | some ri, some (sa, ea), some i, some j, some k =>
      match NewSlice3 sa.data ea sa.cap i j k with
      | .error _ => (st, "panic")
      | .ok s => sliceOp st ri (.ok (st.mem, s, 0)) ea none
    | _, _, _, _, _ => (st, "bad-op")
  | ["clr", a] =>
    match getReg st a with
    | some (sa, ea) =>
      let st := { st with mem := SliceClear st.mem sa ea }
      let (d, st) := desc st (some (sa, ea))
      finish st s!"ok {d} ub=0"
    | none => (st, "bad-op")
  | ["dump"] =>
    let (out, st) := (List.range 8).foldl (fun (acc : String × St) i =>
      match acc.2.regs.getD i none with
      | none => acc
      | some r => let (d, st') := desc acc.2 (some r); (acc.1 ++ s!" r{i}[{d}]", st')) ("ok", st)
    (st, out)
  | ["nsc", a, b] =>
    match parseInt a, parseInt b with
    | some a, some b => (st, s!"ok {nextslicecap a b}")
    | _, _ => (st, "bad-op")
  -- strings
  | ["cat", a, b] =>
    match unhex a, unhex b with
    | some a, some b => (st, s!"ok {hexN (StringCat (a.map (·.toNat)) (b.map (·.toNat)))} ub=0")
    | _, _ => (st, "bad-op")
  | ["ssl", a, i, j] =>
    match unhex a, parseInt i, parseInt j with
    | some a, some i, some j =>
      match StringSlice (a.map (·.toNat)) i j with
      | .ok s => (st, s!"ok {hexN s}")
      | .error _ => (st, "panic")
    | _, _, _ => (st, "bad-op")
  | ["less", a, b] =>
    match unhex a, unhex b with
    | some a, some b => (st, s!"ok {b2i (StringLess (a.map (·.toNat)) (b.map (·.toNat)))}")
    | _, _ => (st, "bad-op")
  | ["eq", a, b] =>
    match unhex a, unhex b with
    | some a, some b => (st, s!"ok {b2i (StringEqual (a.map (·.toNat)) (b.map (·.toNat)))}")
    | _, _ => (st, "bad-op")
  | ["s2b", a] =>
    match unhex a with
    | some a => (st, s!"ok {hexN (StringToBytes (a.map (·.toNat)))} ub=0")
    | none => (st, "bad-op")
  | ["b2s", a] =>
    match unhex a with
    | some a =>
      -- the bytes live in a scratch block of the heap; the string is a copy of the slice's window
      let bs := a.map (·.toNat)
      let r := allocU st.mem bs.length
      let m := r.2.blit r.1 bs
      (st, s!"ok {hexN (StringFromBytes m ⟨r.1, bs.length, bs.length⟩)} ub=0")
    | none => (st, "bad-op")
  | ["s2r", a] =>
    match unhex a with
    | some a => (st, s!"ok {runesStr ((StringToRunes (a.map (·.toNat))).map Int.ofNat)}")
    | none => (st, "bad-op")
  | ["r2s", rs] =>
    let l := if rs = "-" then some [] else (rs.splitOn ",").mapM parseInt
    match l with
    | some l => (st, s!"ok {hexN (StringFromRunes l)}")
    | none => (st, "bad-op")
  | ["i2s", v] =>
    match parseInt v with
    | some v => (st, s!"ok {hexN (StringFromInt64 v)}")
    | none => (st, "bad-op")
  | ["u2s", v] =>
    match v.toNat? with
    | some v => (st, s!"ok {hexN (StringFromUint64 v)}")
    | none => (st, "bad-op")
  | ["rune2s", v] =>
    match parseInt v with
    | some v => (st, s!"ok {hexN (StringFromRune v)}")
    | none => (st, "bad-op")
  | ["iter", a] =>
    match unhex a with
    | some a =>
      let l := iterAll (a.map (·.toNat))
      (st, "ok " ++ (if l.isEmpty then "-" else ",".intercalate (l.map fun kv => s!"{kv.1}:{kv.2}")))
    | none => (st, "bad-op")
  | ["dec", a, k] =>
    match unhex a, k.toNat? with
    | some a, some k =>
      let r := Utf8.decodeRune ((a.map (·.toNat)).drop k)
      (st, s!"ok {r.1} {k + r.2}")
    | _, _ => (st, "bad-op")
  | ["enc", v] =>
    match parseInt v with
    | some v => (st, s!"ok {hexN (Utf8.encodeRune (u32 v))}")
    | none => (st, "bad-op")
  | ["encrange", lo, hi] =>
    match parseInt lo, parseInt hi with
    | some lo, some hi => Id.run do
      let mut d := fnvOff
      for i in [0:(hi - lo).toNat] do
        let bs := Utf8.encodeRune (u32 (lo + i))
        d := mix d bs.length
        for b in bs do d := mix d b
      return (st, s!"ok {d}")
    | _, _ => (st, "bad-op")
  | ["rtrange", lo, hi] =>
    match parseInt lo, parseInt hi with
    | some lo, some hi => Id.run do
      let mut d := fnvOff
      for i in [0:(hi - lo).toNat] do
        let s := StringFromRune (lo + i) ++ [0x41]
        match StringIterNext s 0 with
        | some (_, v, pos) =>
          d := mix d v
          match StringIterNext s pos with
          | some (k2, _, _) => d := mix d k2
          | none => d := mix d 0
        | none => d := mix (mix d 0) 0
      return (st, s!"ok {d}")
    | _, _ => (st, "bad-op")
  | ["decgrid", mode, lo, hi] =>
    match mode.toNat?, lo.toNat?, hi.toNat? with
    | some mode, some lo, some hi => Id.run do
      if mode < 1 ∨ mode > 5 then return (st, "bad-op")
      let mut d := fnvOff
      for b0 in [lo:hi] do
        if mode = 1 then d := gridOne d [b0]
        else if mode = 2 then
          for b1 in [0:256] do d := gridOne d [b0, b1]
        else if mode = 3 then
          for b1 in [0:256] do
            for b2 in grid do d := gridOne d [b0, b1, b2]
        else if mode = 4 then
          for b1 in grid do
            for b2 in grid do
              for b3 in grid do d := gridOne d [b0, b1, b2, b3]
        else
          for b1 in [0x80:0xC0] do
            for b2 in [0x80:0xC0] do
              d := gridOne d [b0, b1, b2, 0x80]
              d := gridOne d [b0, b1, b2, 0xBF]
              d := gridOne d [b0, b1, b2]
      return (st, s!"ok {d}")
    | _, _, _ => (st, "bad-op")
  | _ => (st, "bad-op")

def main : IO Unit := lineLoopSt ({} : St) handle
