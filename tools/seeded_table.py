#!/usr/bin/env python3
"""Rewrites the block between <!-- SEEDED:BEGIN --> and <!-- SEEDED:END --> in DESIGN.md from seeded/*/meta.json."""
import json, os, re, glob
V = os.path.dirname(os.path.dirname(os.path.abspath(__file__)))
rows = []
for d in sorted(glob.glob(os.path.join(V, "seeded", "*"))):
    mf = os.path.join(d, "meta.json")
    if not os.path.exists(mf):
        continue
    m = json.load(open(mf))
    sid = os.path.basename(d)
    state = "caught" if m.get("detected_by_check") else "**MISSED**"
    note = m.get("note", "")
    rows.append("| %s | %s | %s | %s |" % (sid, m["needs_to_manifest"].replace("|", "/"), state, note.replace("|", "/")))
n = len(rows); c = sum(1 for r in rows if "| caught |" in r)
tbl = ["<!-- SEEDED:BEGIN -->", "", "%d seeded changes kept, %d detected by the property's check as it stands now (the note says when a check had to be strengthened first)." % (n, c), "",
       "| seeded | needs, to manifest | state | how / what was strengthened |", "|---|---|---|---|"] + rows + ["", "<!-- SEEDED:END -->"]
p = os.path.join(V, "DESIGN.md")
s = open(p).read()
if "<!-- SEEDED:BEGIN -->" in s:
    s = re.sub(r"<!-- SEEDED:BEGIN -->.*?<!-- SEEDED:END -->", lambda _: "\n".join(tbl), s, flags=re.S)
else:
    a = s.index("### 10.4 Seeded changes")
    s = s[:a] + "### 10.4 Seeded changes (kept under `seeded/<id>/`: patch.diff, demonstration, meta.json) and which check catches them\n\nEach was produced by a fresh sub-agent that saw only the property text and a scratch worktree, confirmed by the lead (patch applies, package tests unchanged, demonstration fails with / passes without), and run as `VERIF_REPO=<worktree> ./check <id> --tier quick`.\n\n" + "\n".join(tbl) + "\n"
open(p, "w").write(s)
print(n, "seeded,", c, "caught")
