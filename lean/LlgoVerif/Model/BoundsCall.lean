import LlgoVerif.Model.LLVM
import LlgoVerif.Model.Slice
/-!
C03, compiler half beyond index expressions: what `ssa/datastruct.go` (`Slice`, `MakeSlice`, `MakeChan`, `MakeMap`,
`FitIntSize`), `ssa/expr.go` (`castInt`, `SliceToArrayPointer`, the `unsafe.Slice`/`unsafe.String` builtins,
`unsafeSlice`) and `ssa/memory.go` (`AssertNilDeref`) hand to the run-time checks, and the run-time checks that
C05's `Model/Slice.lean` does not already contain (`z_chan.go` `NewChan`, `errors.go` `PanicSliceConvert`,
`z_error.go` `AssertNilDeref`).  `NewSlice3`, `StringSlice` and `MakeSlice` are C05's models, imported.

* `fit s a` is what the Go spec demands of a bound operand of integer type (signedness `s`, width `w ≤ 64`) when it is
  converted to `int`: sign extension for a signed source type, zero extension for an unsigned one.  The REGENERATED
  obligations (`Gen/C03_bnd.lean`) say, for every generated function, that the operand the emitted IR passes to the
  run-time routine is `fit s a` of the source operand (constants: the constant itself; omitted bounds: the header field
  Go prescribes), that the base pointer is the operand's storage, and that the function's result is the routine's result.
* `RtCall` is the observable of such a function: which routine is reached, with which operands.
* `exec…` functions run the run-time side on a call; the theorems of `Props/C03.lean` compose both halves.
-/
namespace LlgoVerif.BoundsCall
open LlgoVerif LlgoVerif.LLVM

/-- conversion of a bound operand to `int` as Go specifies it (`castInt`: `sext` for signed, `zext` for unsigned sources;
    a 64-bit source is passed unchanged) -/
def fit (s : Bool) (a : BitVec w) : BitVec 64 :=
  match s with
  | true => a.signExtend 64
  | false => a.setWidth 64

/-- traps of the generated bound functions other than the run-time routine's own panic -/
inductive BTrap where
  | nilDeref       -- runtime.AssertNilDeref
  | sliceConvert   -- runtime.PanicSliceConvert (reached through the `len < N` branch)
  | ub             -- poison reached an observable position
deriving DecidableEq, Repr

abbrev BM := Except BTrap

/-- where the base pointer handed to the routine comes from -/
inductive Base where
  | srcData     -- the data word of the source slice / string header
  | srcPtr      -- the array-pointer (or `unsafe` pointer) operand itself
  | arrCopy     -- the heap copy of an array VALUE operand (`AllocZ` + store of the whole array)
  | other       -- anything else (never expected; makes the obligation fail)
deriving DecidableEq, Repr

/-- the routine a generated function reaches, with the integer operands it hands over -/
inductive RtCall where
  | newSlice3 (base : Base) (esz cap i j k : BitVec 64)   -- runtime.NewSlice3(base, esz, cap, i, j, k)
  | stringSlice (base : Base) (len i j : BitVec 64)        -- runtime.StringSlice({base,len}, i, j)
  | makeSlice (len cap esz : BitVec 64)                    -- runtime.MakeSlice(len, cap, esz)
  | newChan (esz n : BitVec 64)                            -- runtime.NewChan(esz, n)
  | makeMap (hint : BitVec 64)                             -- runtime.MakeMap(type, hint)
  | sliceHeader (base : Base) (len cap : BitVec 64)        -- header assembled inline (`a[:]`, unsafe.Slice): NO run-time check
  | stringHeader (base : Base) (len : BitVec 64)           -- unsafe.String: NO run-time check
  | arrayPtr (base : Base)                                 -- slice→array(-pointer): the data pointer is used after the length test
  | unit                                                   -- nothing but the checks (`_ = *p`)
deriving DecidableEq, Repr

def bassert (t : BTrap) (c : V 1) : BM Unit :=
  match c with
  | none => throw .ub
  | some c => if c = 1#1 then throw t else pure ()

def need (a : V 64) : BM (BitVec 64) :=
  match a with
  | none => throw .ub
  | some x => pure x

def callNewSlice3 (b : Base) (esz cap i j k : V 64) : BM RtCall := do
  return .newSlice3 b (← need esz) (← need cap) (← need i) (← need j) (← need k)
def callStringSlice (b : Base) (len i j : V 64) : BM RtCall := do
  return .stringSlice b (← need len) (← need i) (← need j)
def callMakeSlice (len cap esz : V 64) : BM RtCall := do
  return .makeSlice (← need len) (← need cap) (← need esz)
def callNewChan (esz n : V 64) : BM RtCall := do
  return .newChan (← need esz) (← need n)
def callMakeMap (hint : V 64) : BM RtCall := do
  return .makeMap (← need hint)
def retSliceHeader (b : Base) (len cap : V 64) : BM RtCall := do
  return .sliceHeader b (← need len) (← need cap)
def retStringHeader (b : Base) (len : V 64) : BM RtCall := do
  return .stringHeader b (← need len)

/-! ## run-time routines not in C05's model -/

/-- which repairs the modelled tree contains (the check probes the real code to find the live configuration) -/
structure BCfg where
  chanSizeFix : Bool     -- `NewChan` rejects a buffer whose byte size overflows / exceeds maxAlloc (fixes/C03-4.diff)
  nilArrayFix : Bool     -- `Slice` on an array pointer is preceded by `AssertNilDeref` (fixes/C03-5.diff)
deriving DecidableEq, Repr

def BCfg.current : BCfg := ⟨false, false⟩
def BCfg.fixed : BCfg := ⟨true, true⟩

/-- what `NewChan` leaves behind: the capacity and the byte size of the buffer it allocated -/
structure ChanHdr where
  cap : Int
  bufBytes : Nat
deriving DecidableEq, Repr

/-- `z_chan.go` `NewChan(eltSize, cap)`.  Unfixed: only `cap < 0` is rejected and the buffer is
    `AllocU(uintptr(cap * eltSize))` — the product wraps.  Fixed: the `MulUintptr`/`maxAlloc` test of `MakeSlice`. -/
def NewChan (cfg : BCfg) (eltSize cap : Int) : Except Slice.Err ChanHdr :=
  if cfg.chanSizeFix then
    let r := Slice.mulUintptr (Slice.uintptr eltSize) (Slice.uintptr cap)
    if r.2 ∨ r.1 > Slice.maxAlloc ∨ cap < 0 then .error .panic
    else if cap > 0 then .ok ⟨cap, Slice.uintptr (cap * eltSize)⟩ else .ok ⟨0, 0⟩
  else
    if cap < 0 then .error .panic
    else if cap > 0 then .ok ⟨cap, Slice.uintptr (cap * eltSize)⟩ else .ok ⟨0, 0⟩

/-- `SliceToArrayPointer`: `if len <s N { PanicSliceConvert(len, N) }; data` -/
def sliceToArray (len : Int) (n : Int) (data : Nat) : Except Slice.Err Nat :=
  if len < n then .error .panic else .ok data

/-- slicing through an array POINTER `p` (`p[i:j:k]`, `p[:]`): Go dereferences `p`, so a nil `p` panics whatever the
    bounds.  The unfixed compiler emits no test (`Slice` passes `p` to `NewSlice3` / builds the header). -/
def nilArrayCheck (cfg : BCfg) (p : Nat) : Except Slice.Err Unit :=
  if cfg.nilArrayFix ∧ p = 0 then .error .panic else .ok ()

end LlgoVerif.BoundsCall
