/-!
IEEE-754 binary floating point (round to nearest, ties to even) as total computable functions on bit patterns.
Core-only, so the model driver links.  Used by C02 for the float half of the property:

* the LLVM float instructions llgo emits (`fadd fsub fmul fdiv fneg fcmp sitofp uitofp fptosi fptoui fpext fptrunc`)
  get their meaning from these functions (`Model/LLVMFloat.lean`), and
* Go's float operators are specified by the same functions (`Spec/GoFloat.lean`): one correctly rounded operation
  in the operand's own format.

A finite value is kept exactly as `(-1)^neg * m * 2^e` with unbounded `m : Nat`, `e : Int`; every operation computes the
exact result (for division: a quotient with at least two guard bits and a sticky flag) and rounds ONCE in `roundPack`.
NaN results are the canonical quiet NaN; the correspondence check canonicalises NaN payloads on both sides.
Trusted base: this file is the reading of IEEE 754-2019 §3.4, §4.3.1, §5.4, §6.3 the float obligations are stated against;
it is validated against the hardware by the execution tie on boundary x boundary operands.
-/
namespace LlgoVerif.SoftFloat

structure Fmt where
  ebits : Nat
  mbits : Nat
deriving DecidableEq, Repr

def f32 : Fmt := ⟨8, 23⟩
def f64 : Fmt := ⟨11, 52⟩
/-- the format of a float type of the given bit width (`float` / `double`) -/
def Fmt.ofWidth (w : Nat) : Fmt := if w = 32 then f32 else f64

namespace Fmt
def width (F : Fmt) : Nat := 1 + F.ebits + F.mbits
def bias (F : Fmt) : Nat := 2 ^ (F.ebits - 1) - 1
/-- the all-ones exponent field (infinities and NaNs) -/
def emax (F : Fmt) : Nat := 2 ^ F.ebits - 1
/-- exponent of the least significant bit of subnormals and of the smallest normal binade -/
def emin (F : Fmt) : Int := 1 - (F.bias : Int) - (F.mbits : Int)
def prec (F : Fmt) : Nat := F.mbits + 1
def signMask (F : Fmt) : Nat := 2 ^ (F.ebits + F.mbits)
end Fmt

/-- a decoded value: NaN, ±infinity, or `(-1)^neg * m * 2^e` -/
inductive FV where
  | nan
  | inf (neg : Bool)
  | fin (neg : Bool) (m : Nat) (e : Int)
deriving DecidableEq, Repr

def signOf (F : Fmt) (b : Nat) : Bool := b / F.signMask % 2 == 1
def expField (F : Fmt) (b : Nat) : Nat := b / 2 ^ F.mbits % 2 ^ F.ebits
def manField (F : Fmt) (b : Nat) : Nat := b % 2 ^ F.mbits

def decode (F : Fmt) (b : Nat) : FV :=
  let s := signOf F b
  let E := expField F b
  let M := manField F b
  if E = F.emax then (if M = 0 then .inf s else .nan)
  else if E = 0 then .fin s M F.emin
  else .fin s (2 ^ F.mbits + M) (F.emin + ((E - 1 : Nat) : Int))

def sgn (F : Fmt) (neg : Bool) : Nat := if neg then F.signMask else 0
def qnan (F : Fmt) : Nat := F.emax * 2 ^ F.mbits + 2 ^ (F.mbits - 1)
def infBits (F : Fmt) (neg : Bool) : Nat := sgn F neg + F.emax * 2 ^ F.mbits
def zeroBits (F : Fmt) (neg : Bool) : Nat := sgn F neg

def isNaN (F : Fmt) (b : Nat) : Bool := expField F b == F.emax && manField F b != 0

/-- number of significant bits -/
def bitLen (n : Nat) : Nat := if n = 0 then 0 else Nat.log2 n + 1

/-- assemble sign, exponent `e ≥ emin` of the least significant bit and significand `q ≤ 2^prec`; the exponent field is
    produced by the carry of the hidden bit, so `q = 2^prec` (rounding carried out of the binade) and `q < 2^mbits`
    (subnormal, `e = emin`) need no special case; overflow gives infinity -/
def pack (F : Fmt) (neg : Bool) (q : Nat) (e : Int) : Nat :=
  let mag := (e - F.emin).toNat * 2 ^ F.mbits + q
  if F.emax * 2 ^ F.mbits ≤ mag then infBits F neg else sgn F neg + mag

/-- drop the low `k ≥ 1` bits of `m (+ ε)`, rounding to nearest, ties to even (`ε ∈ (0,1)` iff `sticky`) -/
def roundShift (m k : Nat) (sticky : Bool) : Nat :=
  let q := m >>> k
  let r := m % 2 ^ k
  let half := 2 ^ (k - 1)
  let up : Bool := decide (half < r) || (r == half && (sticky || q % 2 == 1))
  if up then q + 1 else q

/-- round `(-1)^neg * (m + ε) * 2^e` to nearest, ties to even (`ε ∈ (0,1)` iff `sticky`; callers that set `sticky`
    supply at least `prec + 2` bits in `m`) -/
def roundPack (F : Fmt) (neg : Bool) (m : Nat) (e : Int) (sticky : Bool := false) : Nat :=
  if m = 0 then zeroBits F neg
  else
    let s : Int := max ((bitLen m : Int) - (F.prec : Int)) (F.emin - e)
    if s ≤ 0 then pack F neg (m <<< s.natAbs) (e + s)
    else pack F neg (roundShift m s.toNat sticky) (e + s)

/-- the finite value scaled to the common exponent `e ≤ ea` -/
def scaled (neg : Bool) (m : Nat) (ea e : Int) : Int :=
  let v : Int := ((m <<< (ea - e).toNat : Nat) : Int)
  if neg then -v else v

def negFV : FV → FV
  | .nan => .nan
  | .inf s => .inf (!s)
  | .fin s m e => .fin (!s) m e

def addFV (F : Fmt) (a b : FV) : Nat :=
  match a, b with
  | .nan, _ => qnan F
  | _, .nan => qnan F
  | .inf s, .inf t => if s = t then infBits F s else qnan F
  | .inf s, .fin _ _ _ => infBits F s
  | .fin _ _ _, .inf t => infBits F t
  | .fin sa ma ea, .fin sb mb eb =>
    let e := min ea eb
    let z := scaled sa ma ea e + scaled sb mb eb e
    if z = 0 then zeroBits F (sa && sb) else roundPack F (decide (z < 0)) z.natAbs e

def mulFV (F : Fmt) (a b : FV) : Nat :=
  match a, b with
  | .nan, _ => qnan F
  | _, .nan => qnan F
  | .inf s, .inf t => infBits F (s != t)
  | .inf s, .fin t m _ => if m = 0 then qnan F else infBits F (s != t)
  | .fin s m _, .inf t => if m = 0 then qnan F else infBits F (s != t)
  | .fin sa ma ea, .fin sb mb eb => roundPack F (sa != sb) (ma * mb) (ea + eb)

def divFV (F : Fmt) (a b : FV) : Nat :=
  match a, b with
  | .nan, _ => qnan F
  | _, .nan => qnan F
  | .inf _, .inf _ => qnan F
  | .inf s, .fin t _ _ => infBits F (s != t)
  | .fin s _ _, .inf t => zeroBits F (s != t)
  | .fin sa ma ea, .fin sb mb eb =>
    if mb = 0 then (if ma = 0 then qnan F else infBits F (sa != sb))
    else if ma = 0 then zeroBits F (sa != sb)
    else
      let k := F.prec + 2 + bitLen mb
      let n := ma <<< k
      roundPack F (sa != sb) (n / mb) (ea - eb - (k : Int)) (n % mb != 0)

def add (F : Fmt) (x y : Nat) : Nat := addFV F (decode F x) (decode F y)
def sub (F : Fmt) (x y : Nat) : Nat := addFV F (decode F x) (negFV (decode F y))
def mul (F : Fmt) (x y : Nat) : Nat := mulFV F (decode F x) (decode F y)
def div (F : Fmt) (x y : Nat) : Nat := divFV F (decode F x) (decode F y)
/-- unary minus flips the sign bit, also of zeros, infinities and NaNs -/
def neg (F : Fmt) (x : Nat) : Nat := if signOf F x then x - F.signMask else x + F.signMask

inductive Cmp where
  | lt | eq | gt | un
deriving DecidableEq, Repr

def cmpInt (x y : Int) : Cmp := if x < y then .lt else if x = y then .eq else .gt

def cmpFV (a b : FV) : Cmp :=
  match a, b with
  | .nan, _ => .un
  | _, .nan => .un
  | .inf s, .inf t => if s = t then .eq else if s then .lt else .gt
  | .inf s, .fin _ _ _ => if s then .lt else .gt
  | .fin _ _ _, .inf t => if t then .gt else .lt
  | .fin sa ma ea, .fin sb mb eb =>
    let e := min ea eb
    cmpInt (scaled sa ma ea e) (scaled sb mb eb e)

def cmp (F : Fmt) (x y : Nat) : Cmp := cmpFV (decode F x) (decode F y)

/-- integer → float: one rounding of the exact integer -/
def ofInt (F : Fmt) (x : Int) : Nat := roundPack F (decide (x < 0)) x.natAbs 0

/-- float → integer: truncation toward zero; `none` for NaN and infinities -/
def truncFV : FV → Option Int
  | .nan => none
  | .inf _ => none
  | .fin s m e =>
    let t : Nat := if 0 ≤ e then m <<< e.toNat else m >>> (-e).toNat
    some (if s then -(t : Int) else (t : Int))

def toInt (F : Fmt) (x : Nat) : Option Int := truncFV (decode F x)

/-- does the integer fit an `n`-bit integer type read as signed / unsigned? -/
def fitsInt (signed : Bool) (n : Nat) (t : Int) : Bool :=
  if signed then decide (-(2 : Int) ^ (n - 1) ≤ t) && decide (t < (2 : Int) ^ (n - 1))
  else decide (0 ≤ t) && decide (t < (2 : Int) ^ n)

/-- conversion between formats: exact when widening, one rounding when narrowing -/
def convert (F G : Fmt) (x : Nat) : Nat :=
  match decode F x with
  | .nan => qnan G
  | .inf s => infBits G s
  | .fin s m e => roundPack G s m e

end LlgoVerif.SoftFloat
