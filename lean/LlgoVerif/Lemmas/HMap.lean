import LlgoVerif.Model.HMap
import LlgoVerif.Spec.AssocList
/-!
# Lemmas for C06: chains of cells against the association-list specification

`chainAbs` reads a list of cells as an association list (the live cells, in order).  The chain-level lemmas
say what `lookupChain`, `scanAssign`, `scanDelete`/`deleteAt` (with the emptyRest back-propagation) do to it;
`WF` is the invariant of the whole table.
-/
namespace LlgoVerif.HMap
open LlgoVerif.AssocList

variable {K V : Type}

/-! ## tophash marks -/

/-- a filled cell (`tophash >= minTopHash`) -/
def Cell.live (c : Cell K V) : Bool := decide (5 ≤ c.top.toNat)

def kv (c : Cell K V) : K × V := (c.key, c.val)

/-- the association list a list of cells stands for -/
def chainAbs (c : List (Cell K V)) : AList K V := (c.filter Cell.live).map kv

@[simp] theorem chainAbs_nil : chainAbs ([] : List (Cell K V)) = [] := rfl

theorem chainAbs_append (a b : List (Cell K V)) : chainAbs (a ++ b) = chainAbs a ++ chainAbs b := by
  simp [chainAbs]

theorem chainAbs_cons_live {x : Cell K V} {c : List (Cell K V)} (h : x.live = true) :
    chainAbs (x :: c) = (x.key, x.val) :: chainAbs c := by
  simp [chainAbs, h, kv]

theorem chainAbs_cons_dead {x : Cell K V} {c : List (Cell K V)} (h : x.live = false) :
    chainAbs (x :: c) = chainAbs c := by
  simp [chainAbs, h]

theorem chainAbs_nil_of_dead {c : List (Cell K V)} (h : ∀ x ∈ c, x.live = false) : chainAbs c = [] := by
  induction c with
  | nil => rfl
  | cons x r ih =>
    rw [chainAbs_cons_dead (h x (by simp))]
    exact ih (fun y hy => h y (by simp [hy]))

theorem mem_chainAbs {c : List (Cell K V)} {p : K × V} (h : p ∈ chainAbs c) :
    ∃ x ∈ c, x.live = true ∧ p = (x.key, x.val) := by
  simp only [chainAbs, List.mem_map, List.mem_filter] at h
  obtain ⟨x, ⟨hx, hl⟩, rfl⟩ := h
  exact ⟨x, hx, hl, rfl⟩

theorem tophash_toNat_ge (h : UInt64) : 5 ≤ (tophash h).toNat := by
  unfold tophash minTopHash
  generalize (h >>> 56).toUInt8 = t
  have h5 : (5 : UInt8).toNat = 5 := rfl
  simp only
  split
  · rename_i hlt
    rw [UInt8.lt_iff_toNat_lt] at hlt
    rw [UInt8.toNat_add]
    omega
  · rename_i hlt
    rw [UInt8.lt_iff_toNat_lt] at hlt
    omega

theorem live_of_top_eq {x : Cell K V} {h : UInt64} (e : x.top = tophash h) : x.live = true := by
  simp [Cell.live, e, tophash_toNat_ge]

theorem dead_of_emptyRest {x : Cell K V} (e : x.top = emptyRest) : x.live = false := by
  simp [Cell.live, e, emptyRest]

theorem dead_of_isEmpty {x : Cell K V} (e : isEmptyTop x.top = true) : x.live = false := by
  simp only [isEmptyTop, emptyOne, decide_eq_true_eq, UInt8.le_iff_toNat_le] at e
  simp only [Cell.live, decide_eq_false_iff_not]
  have : (1 : UInt8).toNat = 1 := rfl
  omega

/-! ## invariants of one chain -/

/-- emptyRest discipline: no filled cell behind an `emptyRest` cell -/
def RestOK : List (Cell K V) → Prop
  | [] => True
  | c :: cs => (c.top = emptyRest → ∀ x ∈ cs, x.live = false) ∧ RestOK cs

/-- filled cells with a reflexive key carry the tophash of their key -/
def TopsOK (o : Ops K) (seed : UInt32) (c : List (Cell K V)) : Prop :=
  ∀ x ∈ c, x.live = true → o.eq x.key x.key = true → x.top = tophash (o.hash seed x.key)

/-- what the runtime assumes about hasher and `==` -/
structure HashOK (o : Ops K) : Prop where
  eqok : EqOK o.eq
  hash_eq : ∀ s a b, o.eq a b = true → o.hash s a = o.hash s b

theorem TopsOK.tail {o : Ops K} {s : UInt32} {x : Cell K V} {c : List (Cell K V)} (h : TopsOK o s (x :: c)) :
    TopsOK o s c := fun y hy => h y (by simp [hy])

/-- a filled cell whose tophash differs from the one of `k` does not hold a key equal to `k` -/
theorem ne_of_top_ne {o : Ops K} (ho : HashOK o) {s : UInt32} {x : Cell K V} {k : K}
    (ht : x.live = true → o.eq x.key x.key = true → x.top = tophash (o.hash s x.key))
    (hl : x.live = true) (hne : x.top ≠ tophash (o.hash s k)) : o.eq k x.key = false := by
  cases hk : o.eq k x.key with
  | false => rfl
  | true =>
    exfalso
    apply hne
    rw [ht hl (ho.eqok.refl_right hk), ho.hash_eq s k x.key hk]

/-! ## mapaccess on a chain -/

theorem lookup_chainAbs (eq : K → K → Bool) (k : K) (c : List (Cell K V)) :
    lookup eq k (chainAbs c) = ((c.filter Cell.live).find? (fun x => eq k x.key)).map (·.val) := by
  induction c with
  | nil => rfl
  | cons x r ih =>
    cases hl : x.live with
    | false => rw [chainAbs_cons_dead hl]; simp [hl, ih]
    | true =>
      rw [chainAbs_cons_live hl]
      simp only [lookup, List.filter_cons, hl, if_true, List.find?_cons]
      cases eq k x.key <;> simp [ih]

/-- `lookupChain` finds the first filled cell whose key equals `k` -/
theorem lookupChain_eq {o : Ops K} (ho : HashOK o) {s : UInt32} {k : K} {c : List (Cell K V)}
    (hr : RestOK c) (ht : TopsOK o s c) :
    lookupChain o.eq (tophash (o.hash s k)) k c = (c.filter Cell.live).find? (fun x => o.eq k x.key) := by
  induction c with
  | nil => rfl
  | cons x r ih =>
    have ih := ih hr.2 ht.tail
    simp only [lookupChain]
    by_cases htop : x.top = tophash (o.hash s k)
    · have hl : x.live = true := live_of_top_eq htop
      simp only [htop, bne_self_eq_false, Bool.false_eq_true, if_false, List.filter_cons, hl, if_true,
        List.find?_cons]
      cases o.eq k x.key <;> simp [ih]
    · have hne : (x.top != tophash (o.hash s k)) = true := by simpa using htop
      simp only [hne, if_true]
      by_cases h0 : x.top = emptyRest
      · have hd := hr.1 h0
        have : (x :: r).filter Cell.live = [] := by
          simp only [List.filter_eq_nil_iff, List.mem_cons]
          rintro y (rfl | hy)
          · simp [dead_of_emptyRest h0]
          · simp [hd y hy]
        simp [h0, this]
      · have h0' : (x.top == emptyRest) = false := by simpa using h0
        simp only [h0', Bool.false_eq_true, if_false, ih]
        cases hl : x.live with
        | false => simp [hl]
        | true =>
          have := ne_of_top_ne ho (ht x (by simp)) hl htop
          simp [hl, this]

/-! ## mapassign on a chain -/

theorem RestOK_append_nonzero {l1 l2 : List (Cell K V)} (h1 : ∀ y ∈ l1, y.top ≠ emptyRest) :
    RestOK (l1 ++ l2) ↔ RestOK l2 := by
  induction l1 with
  | nil => simp
  | cons x r ih =>
    simp only [List.cons_append, RestOK]
    rw [ih (fun y hy => h1 y (by simp [hy]))]
    constructor
    · exact fun h => h.2
    · exact fun h => ⟨fun e => absurd e (h1 x (by simp)), h⟩

theorem top_ne_zero_of_not_empty {x : Cell K V} (h : isEmptyTop x.top = false) : x.top ≠ emptyRest := by
  intro e
  rw [e] at h
  simp [isEmptyTop, emptyRest, emptyOne] at h

/-- with a free slot already remembered, the scan never changes it -/
theorem scanAssign_some (eq : K → K → Bool) (top : UInt8) (k : K) (c : List (Cell K V)) (i0 a : Nat) :
    (∃ i, scanAssign eq top k c i0 (some a) = .found i) ∨ scanAssign eq top k c i0 (some a) = .notFound (some a) := by
  induction c generalizing i0 with
  | nil => right; rfl
  | cons x r ih =>
    simp only [scanAssign]
    split
    · simp only [Option.isNone_some, Bool.and_false, Bool.false_eq_true, if_false]
      split
      · right; rfl
      · exact ih (i0 + 1)
    · split
      · left; exact ⟨_, rfl⟩
      · exact ih (i0 + 1)

/-- `found i`: the chain splits at the first filled cell whose key equals `k` -/
theorem scanAssign_found {o : Ops K} (ho : HashOK o) {s : UInt32} {k : K} {c : List (Cell K V)} {i0 i : Nat}
    {ins : Option Nat} (hr : RestOK c) (ht : TopsOK o s c)
    (h : scanAssign o.eq (tophash (o.hash s k)) k c i0 ins = .found i) :
    ∃ l1 x l2, c = l1 ++ x :: l2 ∧ i = i0 + l1.length ∧ x.live = true ∧ o.eq k x.key = true ∧
      Absent o.eq k (chainAbs l1) := by
  induction c generalizing i0 ins with
  | nil => simp [scanAssign] at h
  | cons x r ih =>
    simp only [scanAssign] at h
    by_cases htop : x.top = tophash (o.hash s k)
    · have hl : x.live = true := live_of_top_eq htop
      simp only [htop, bne_self_eq_false, Bool.false_eq_true, if_false] at h
      cases hk : o.eq k x.key with
      | true =>
        simp only [hk, if_true] at h
        injection h with h
        exact ⟨[], x, r, rfl, by simp [h], hl, hk, by intro p hp; simp at hp⟩
      | false =>
        simp only [hk, Bool.false_eq_true, if_false] at h
        obtain ⟨l1, y, l2, rfl, hi, hyl, hyk, hab⟩ := ih hr.2 ht.tail h
        refine ⟨x :: l1, y, l2, rfl, by simp [hi]; omega, hyl, hyk, ?_⟩
        rw [chainAbs_cons_live hl]
        intro p hp
        rcases List.mem_cons.1 hp with rfl | hp
        · exact hk
        · exact hab p hp
    · have hne : (x.top != tophash (o.hash s k)) = true := by simpa using htop
      simp only [hne, if_true] at h
      split at h
      · simp at h
      · obtain ⟨l1, y, l2, rfl, hi, hyl, hyk, hab⟩ := ih hr.2 ht.tail h
        refine ⟨x :: l1, y, l2, rfl, by simp [hi]; omega, hyl, hyk, ?_⟩
        cases hl : x.live with
        | false => rw [chainAbs_cons_dead hl]; exact hab
        | true =>
          rw [chainAbs_cons_live hl]
          intro p hp
          rcases List.mem_cons.1 hp with rfl | hp
          · exact ne_of_top_ne ho (ht x (by simp)) hl htop
          · exact hab p hp

/-- `notFound`: no filled cell of the chain holds a key equal to `k` -/
theorem scanAssign_notFound_absent {o : Ops K} (ho : HashOK o) {s : UInt32} {k : K} {c : List (Cell K V)} {i0 : Nat}
    {ins r : Option Nat} (hr : RestOK c) (ht : TopsOK o s c)
    (h : scanAssign o.eq (tophash (o.hash s k)) k c i0 ins = .notFound r) : Absent o.eq k (chainAbs c) := by
  induction c generalizing i0 ins with
  | nil => intro p hp; simp at hp
  | cons x r' ih =>
    simp only [scanAssign] at h
    by_cases htop : x.top = tophash (o.hash s k)
    · have hl : x.live = true := live_of_top_eq htop
      simp only [htop, bne_self_eq_false, Bool.false_eq_true, if_false] at h
      cases hk : o.eq k x.key with
      | true => simp [hk] at h
      | false =>
        simp only [hk, Bool.false_eq_true, if_false] at h
        rw [chainAbs_cons_live hl]
        intro p hp
        rcases List.mem_cons.1 hp with rfl | hp
        · exact hk
        · exact ih hr.2 ht.tail h p hp
    · have hne : (x.top != tophash (o.hash s k)) = true := by simpa using htop
      simp only [hne, if_true] at h
      by_cases h0 : x.top = emptyRest
      · have hd := hr.1 h0
        have : chainAbs (x :: r') = [] := chainAbs_nil_of_dead (by
          intro y hy
          rcases List.mem_cons.1 hy with rfl | hy
          · exact dead_of_emptyRest h0
          · exact hd y hy)
        rw [this]; intro p hp; simp at hp
      · have h0' : (x.top == emptyRest) = false := by simpa using h0
        simp only [h0', Bool.false_eq_true, if_false] at h
        have := ih hr.2 ht.tail h
        cases hl : x.live with
        | false => rw [chainAbs_cons_dead hl]; exact this
        | true =>
          rw [chainAbs_cons_live hl]
          intro p hp
          rcases List.mem_cons.1 hp with rfl | hp
          · exact ne_of_top_ne ho (ht x (by simp)) hl htop
          · exact this p hp

theorem not_empty_of_ge5 {t : UInt8} (h : 5 ≤ t.toNat) : isEmptyTop t = false := by
  simp only [isEmptyTop, emptyOne, decide_eq_false_iff_not, UInt8.le_iff_toNat_le]
  have : (1 : UInt8).toNat = 1 := rfl
  omega

/-- what `notFound r` says about the free slot: every cell is occupied, or the chain splits at its first free cell -/
def SlotSpec (c : List (Cell K V)) (i0 : Nat) : Option Nat → Prop
  | none => ∀ x ∈ c, isEmptyTop x.top = false
  | some i => ∃ l1 x l2, c = l1 ++ x :: l2 ∧ i = i0 + l1.length ∧ isEmptyTop x.top = true ∧
      ∀ y ∈ l1, isEmptyTop y.top = false

theorem scanAssign_notFound_slot (eq : K → K → Bool) {top : UInt8} (h5 : 5 ≤ top.toNat) (k : K)
    {c : List (Cell K V)} {i0 : Nat} {r : Option Nat} (h : scanAssign eq top k c i0 none = .notFound r) :
    SlotSpec c i0 r := by
  induction c generalizing i0 with
  | nil => simp [scanAssign] at h; subst h; simp [SlotSpec]
  | cons x r' ih =>
    simp only [scanAssign] at h
    have step : ∀ (he : isEmptyTop x.top = false)
        (h : scanAssign eq top k r' (i0 + 1) none = .notFound r), SlotSpec (x :: r') i0 r := by
      intro he h
      have := ih h
      cases r with
      | none =>
        intro y hy
        rcases List.mem_cons.1 hy with rfl | hy
        · exact he
        · exact this y hy
      | some i =>
        obtain ⟨l1, y, l2, rfl, hi, hy, hall⟩ := this
        refine ⟨x :: l1, y, l2, rfl, by simp [hi]; omega, hy, ?_⟩
        intro z hz
        rcases List.mem_cons.1 hz with rfl | hz
        · exact he
        · exact hall z hz
    split at h
    · -- tophash differs
      cases he : isEmptyTop x.top with
      | true =>
        simp only [he, Option.isNone_none, Bool.and_self, if_true] at h
        have hr : r = some i0 := by
          split at h
          · injection h with h; exact h.symm
          · rcases scanAssign_some eq top k r' (i0 + 1) i0 with ⟨i, hi⟩ | hn
            · rw [hi] at h; cases h
            · rw [hn] at h; injection h with h; exact h.symm
        subst hr
        exact ⟨[], x, r', rfl, by simp, he, by simp⟩
      | false =>
        simp only [he, Bool.false_and, Bool.false_eq_true, if_false] at h
        have h0 : (x.top == emptyRest) = false := by simpa using top_ne_zero_of_not_empty he
        simp only [h0, Bool.false_eq_true, if_false] at h
        exact step he h
    · -- tophash equal
      rename_i htop
      have htop' : x.top = top := by simpa using htop
      have he : isEmptyTop x.top = false := by rw [htop']; exact not_empty_of_ge5 h5
      split at h
      · cases h
      · exact step he h

/-! ## mapdelete on a chain -/

theorem scanDelete_some {o : Ops K} (ho : HashOK o) {s : UInt32} {k : K} {c : List (Cell K V)} {i0 i : Nat}
    (hr : RestOK c) (ht : TopsOK o s c)
    (h : scanDelete o.eq (tophash (o.hash s k)) k c i0 = some i) :
    ∃ l1 x l2, c = l1 ++ x :: l2 ∧ i = i0 + l1.length ∧ x.live = true ∧ o.eq k x.key = true ∧
      Absent o.eq k (chainAbs l1) := by
  induction c generalizing i0 with
  | nil => simp [scanDelete] at h
  | cons x r ih =>
    simp only [scanDelete] at h
    by_cases htop : x.top = tophash (o.hash s k)
    · have hl : x.live = true := live_of_top_eq htop
      simp only [htop, bne_self_eq_false, Bool.false_eq_true, if_false] at h
      cases hk : o.eq k x.key with
      | true =>
        simp only [hk, if_true] at h
        injection h with h
        exact ⟨[], x, r, rfl, by simp [h], hl, hk, by intro p hp; simp at hp⟩
      | false =>
        simp only [hk, Bool.false_eq_true, if_false] at h
        obtain ⟨l1, y, l2, rfl, hi, hyl, hyk, hab⟩ := ih hr.2 ht.tail h
        refine ⟨x :: l1, y, l2, rfl, by simp [hi]; omega, hyl, hyk, ?_⟩
        rw [chainAbs_cons_live hl]
        intro p hp
        rcases List.mem_cons.1 hp with rfl | hp
        · exact hk
        · exact hab p hp
    · have hne : (x.top != tophash (o.hash s k)) = true := by simpa using htop
      simp only [hne, if_true] at h
      split at h
      · simp at h
      · obtain ⟨l1, y, l2, rfl, hi, hyl, hyk, hab⟩ := ih hr.2 ht.tail h
        refine ⟨x :: l1, y, l2, rfl, by simp [hi]; omega, hyl, hyk, ?_⟩
        cases hl : x.live with
        | false => rw [chainAbs_cons_dead hl]; exact hab
        | true =>
          rw [chainAbs_cons_live hl]
          intro p hp
          rcases List.mem_cons.1 hp with rfl | hp
          · exact ne_of_top_ne ho (ht x (by simp)) hl htop
          · exact hab p hp

theorem scanDelete_none {o : Ops K} (ho : HashOK o) {s : UInt32} {k : K} {c : List (Cell K V)} {i0 : Nat}
    (hr : RestOK c) (ht : TopsOK o s c)
    (h : scanDelete o.eq (tophash (o.hash s k)) k c i0 = none) : Absent o.eq k (chainAbs c) := by
  induction c generalizing i0 with
  | nil => intro p hp; simp at hp
  | cons x r' ih =>
    simp only [scanDelete] at h
    by_cases htop : x.top = tophash (o.hash s k)
    · have hl : x.live = true := live_of_top_eq htop
      simp only [htop, bne_self_eq_false, Bool.false_eq_true, if_false] at h
      cases hk : o.eq k x.key with
      | true => simp [hk] at h
      | false =>
        simp only [hk, Bool.false_eq_true, if_false] at h
        rw [chainAbs_cons_live hl]
        intro p hp
        rcases List.mem_cons.1 hp with rfl | hp
        · exact hk
        · exact ih hr.2 ht.tail h p hp
    · have hne : (x.top != tophash (o.hash s k)) = true := by simpa using htop
      simp only [hne, if_true] at h
      by_cases h0 : x.top = emptyRest
      · have hd := hr.1 h0
        have : chainAbs (x :: r') = [] := chainAbs_nil_of_dead (by
          intro y hy
          rcases List.mem_cons.1 hy with rfl | hy
          · exact dead_of_emptyRest h0
          · exact hd y hy)
        rw [this]; intro p hp; simp at hp
      · have h0' : (x.top == emptyRest) = false := by simpa using h0
        simp only [h0', Bool.false_eq_true, if_false] at h
        have := ih hr.2 ht.tail h
        cases hl : x.live with
        | false => rw [chainAbs_cons_dead hl]; exact this
        | true =>
          rw [chainAbs_cons_live hl]
          intro p hp
          rcases List.mem_cons.1 hp with rfl | hp
          · exact ne_of_top_ne ho (ht x (by simp)) hl htop
          · exact this p hp

/-- index form of the emptyRest discipline -/
theorem restOK_iff (c : List (Cell K V)) :
    RestOK c ↔ ∀ (i j : Nat) (x y : Cell K V), i < j → c[i]? = some x → c[j]? = some y → x.top = emptyRest → y.live = false := by
  induction c with
  | nil => simp [RestOK]
  | cons a r ih =>
    simp only [RestOK, ih]
    constructor
    · rintro ⟨h1, h2⟩ i j x y hij hx hy h0
      cases j with
      | zero => omega
      | succ j =>
        cases i with
        | zero =>
          simp at hx hy
          subst hx
          exact h1 h0 y (List.mem_of_getElem? hy)
        | succ i =>
          simp at hx hy
          exact h2 i j x y (by omega) hx hy h0
    · intro h
      constructor
      · intro h0 y hy
        obtain ⟨j, hj⟩ := List.getElem?_of_mem hy
        exact h 0 (j + 1) a y (by omega) (by simp) (by simpa using hj) h0
      · intro i j x y hij hx hy h0
        exact h (i + 1) (j + 1) x y (by omega) (by simpa using hx) (by simpa using hy) h0

theorem getElem?_setTop (c : List (Cell K V)) (i j : Nat) (t : UInt8) :
    (setTop c i t)[j]? = if i = j then (c[j]?).map (fun x => { x with top := t }) else c[j]? := by
  unfold setTop
  rw [List.getElem?_modify]
  split
  · simp
  · cases c[j]? <;> simp

theorem dead_of_lt5 {x : Cell K V} {t : UInt8} (ht : t.toNat < 5) : ({ x with top := t } : Cell K V).live = false := by
  simp [Cell.live]; omega

/-- overwriting a tophash by an "empty" mark keeps the discipline, provided `emptyRest` is only written where
    nothing filled follows -/
theorem restOK_setTop {c : List (Cell K V)} {i : Nat} {t : UInt8} (hr : RestOK c) (ht : t.toNat < 5)
    (h0 : t = emptyRest → ∀ j y, i < j → c[j]? = some y → y.live = false) : RestOK (setTop c i t) := by
  rw [restOK_iff] at hr ⊢
  intro a b x y hab hx hy hx0
  rw [getElem?_setTop] at hx hy
  by_cases hb : i = b
  · subst hb
    simp only [if_true] at hy
    cases hcb : c[i]? with
    | none => simp [hcb] at hy
    | some z => simp [hcb] at hy; subst hy; exact dead_of_lt5 ht
  · simp only [hb, if_false] at hy
    by_cases ha : i = a
    · subst ha
      simp only [if_true] at hx
      cases hca : c[i]? with
      | none => simp [hca] at hx
      | some z =>
        simp [hca] at hx
        subst hx
        exact h0 hx0 b y hab hy
    · simp only [ha, if_false] at hx
      exact hr a b x y hab hx hy hx0

theorem chainAbs_setTop {c : List (Cell K V)} {i : Nat} {t : UInt8} (ht : t.toNat < 5)
    (hd : ∀ x, c[i]? = some x → x.live = false) : chainAbs (setTop c i t) = chainAbs c := by
  induction c generalizing i with
  | nil => simp [setTop]
  | cons a r ih =>
    cases i with
    | zero =>
      have : setTop (a :: r) 0 t = { a with top := t } :: r := by simp [setTop]
      rw [this, chainAbs_cons_dead (dead_of_lt5 ht), chainAbs_cons_dead (hd a (by simp))]
    | succ i =>
      have : setTop (a :: r) (i + 1) t = a :: setTop r i t := by simp [setTop]
      rw [this]
      have ih := ih (i := i) (fun x hx => hd x (by simpa using hx))
      cases hl : a.live with
      | false => rw [chainAbs_cons_dead hl, chainAbs_cons_dead hl, ih]
      | true => rw [chainAbs_cons_live hl, chainAbs_cons_live hl, ih]

theorem mem_setTop_live {c : List (Cell K V)} {i : Nat} {t : UInt8} (ht : t.toNat < 5) {y : Cell K V}
    (hy : y ∈ setTop c i t) (hl : y.live = true) : y ∈ c := by
  obtain ⟨j, hj⟩ := List.getElem?_of_mem hy
  rw [getElem?_setTop] at hj
  split at hj
  · cases hc : c[j]? with
    | none => simp [hc] at hj
    | some z =>
      simp [hc] at hj
      subst hj
      rw [dead_of_lt5 ht] at hl
      cases hl
  · exact List.mem_of_getElem? hj

theorem setTop_split (l1 : List (Cell K V)) (x : Cell K V) (l2 : List (Cell K V)) (t : UInt8) :
    setTop (l1 ++ x :: l2) l1.length t = l1 ++ { x with top := t } :: l2 := by
  induction l1 with
  | nil => simp [setTop]
  | cons a r ih =>
    have : setTop (a :: r ++ x :: l2) (a :: r).length t = a :: setTop (r ++ x :: l2) r.length t := by
      simp [setTop]
    rw [this, ih]; rfl

/-- no evacuation marks in a chain of the current table -/
def NoMarks (c : List (Cell K V)) : Prop := ∀ x ∈ c, x.top.toNat ≤ 1 ∨ 5 ≤ x.top.toNat

theorem noMarks_setTop {c : List (Cell K V)} {i : Nat} {t : UInt8} (hn : NoMarks c) (ht : t.toNat ≤ 1) :
    NoMarks (setTop c i t) := by
  intro y hy
  obtain ⟨j, hj⟩ := List.getElem?_of_mem hy
  rw [getElem?_setTop] at hj
  split at hj
  · cases hc : c[j]? with
    | none => simp [hc] at hj
    | some z => simp [hc] at hj; subst hj; left; exact ht
  · exact hn y (List.mem_of_getElem? hj)

/-- the emptyRest back-propagation loop, started at a cell from which on nothing is filled -/
theorem backProp_spec {c : List (Cell K V)} {j : Nat} (hr : RestOK c)
    (hd : ∀ n y, j ≤ n → c[n]? = some y → y.live = false) :
    RestOK (backProp c j) ∧ chainAbs (backProp c j) = chainAbs c ∧
      (∀ y ∈ backProp c j, y.live = true → y ∈ c) ∧ (NoMarks c → NoMarks (backProp c j)) := by
  have h0 : (emptyRest : UInt8).toNat = 0 := rfl
  induction j generalizing c with
  | zero =>
    simp only [backProp]
    refine ⟨restOK_setTop hr (by omega) (fun _ n y hn hy => hd n y (by omega) hy),
      chainAbs_setTop (by omega) (fun x hx => hd 0 x (by omega) hx),
      fun y hy hl => mem_setTop_live (by omega) hy hl, fun hn => noMarks_setTop hn (by omega)⟩
  | succ j ih =>
    simp only [backProp]
    have r1 : RestOK (setTop c (j + 1) emptyRest) :=
      restOK_setTop hr (by omega) (fun _ n y hn hy => hd n y (by omega) hy)
    have a1 : chainAbs (setTop c (j + 1) emptyRest) = chainAbs c :=
      chainAbs_setTop (by omega) (fun x hx => hd (j + 1) x (by omega) hx)
    have m1 : ∀ y ∈ setTop c (j + 1) emptyRest, y.live = true → y ∈ c :=
      fun y hy hl => mem_setTop_live (by omega) hy hl
    have n1 : NoMarks c → NoMarks (setTop c (j + 1) emptyRest) := fun hn => noMarks_setTop hn (by omega)
    split
    · exact ⟨r1, a1, m1, n1⟩
    · rename_i hne
      have h1 : topAt (setTop c (j + 1) emptyRest) j = some emptyOne := by simpa using hne
      have hd' : ∀ n y, j ≤ n → (setTop c (j + 1) emptyRest)[n]? = some y → y.live = false := by
        intro n y hn hy
        by_cases hnj : n = j
        · subst hnj
          simp only [topAt, hy, Option.map_some, Option.some.injEq] at h1
          simp [Cell.live, h1, emptyOne]
        · rw [getElem?_setTop] at hy
          split at hy
          · cases hc : c[n]? with
            | none => simp [hc] at hy
            | some z => simp [hc] at hy; subst hy; exact dead_of_lt5 (by omega)
          · exact hd n y (by omega) hy
      obtain ⟨r2, a2, m2, n2⟩ := ih r1 hd'
      exact ⟨r2, a2.trans a1, fun y hy hl => m1 y (m2 y hy hl) hl, fun hn => n2 (n1 hn)⟩

/-- deleting the cell at which the chain splits: it disappears from the association list, every invariant stays -/
theorem deleteAt_spec {l1 l2 : List (Cell K V)} {x : Cell K V} (hr : RestOK (l1 ++ x :: l2)) :
    RestOK (deleteAt (l1 ++ x :: l2) l1.length) ∧
    chainAbs (deleteAt (l1 ++ x :: l2) l1.length) = chainAbs l1 ++ chainAbs l2 ∧
    (∀ y ∈ deleteAt (l1 ++ x :: l2) l1.length, y.live = true → y ∈ l1 ++ x :: l2) ∧
    (NoMarks (l1 ++ x :: l2) → NoMarks (deleteAt (l1 ++ x :: l2) l1.length)) := by
  have h1 : (emptyOne : UInt8).toNat = 1 := rfl
  have h0 : (emptyRest : UInt8).toNat = 0 := rfl
  have e1 : setTop (l1 ++ x :: l2) l1.length emptyOne = l1 ++ { x with top := emptyOne } :: l2 := setTop_split ..
  have r1 : RestOK (setTop (l1 ++ x :: l2) l1.length emptyOne) :=
    restOK_setTop hr (by omega) (fun e => by simp [emptyOne, emptyRest] at e)
  have a1 : chainAbs (setTop (l1 ++ x :: l2) l1.length emptyOne) = chainAbs l1 ++ chainAbs l2 := by
    rw [e1, chainAbs_append, chainAbs_cons_dead (dead_of_lt5 (by omega))]
  have m1 : ∀ y ∈ setTop (l1 ++ x :: l2) l1.length emptyOne, y.live = true → y ∈ l1 ++ x :: l2 :=
    fun y hy hl => mem_setTop_live (by omega) hy hl
  have n1 : NoMarks (l1 ++ x :: l2) → NoMarks (setTop (l1 ++ x :: l2) l1.length emptyOne) :=
    fun hn => noMarks_setTop hn (by omega)
  -- the case in which the loop runs
  have key : (∀ n y, l1.length ≤ n → (setTop (l1 ++ x :: l2) l1.length emptyOne)[n]? = some y → y.live = false) →
      RestOK (backProp (setTop (l1 ++ x :: l2) l1.length emptyOne) l1.length) ∧
      chainAbs (backProp (setTop (l1 ++ x :: l2) l1.length emptyOne) l1.length) = chainAbs l1 ++ chainAbs l2 ∧
      (∀ y ∈ backProp (setTop (l1 ++ x :: l2) l1.length emptyOne) l1.length, y.live = true → y ∈ l1 ++ x :: l2) ∧
      (NoMarks (l1 ++ x :: l2) → NoMarks (backProp (setTop (l1 ++ x :: l2) l1.length emptyOne) l1.length)) := by
    intro hd
    obtain ⟨r2, a2, m2, n2⟩ := backProp_spec r1 hd
    exact ⟨r2, a2.trans a1, fun y hy hl => m1 y (m2 y hy hl) hl, fun hn => n2 (n1 hn)⟩
  cases l2 with
  | nil =>
    have ht : topAt (setTop (l1 ++ [x]) l1.length emptyOne) (l1.length + 1) = none := by
      rw [e1]; simp [topAt]
    have hdel : deleteAt (l1 ++ [x]) l1.length = backProp (setTop (l1 ++ [x]) l1.length emptyOne) l1.length := by
      simp only [deleteAt, ht]
    rw [hdel]
    apply key
    intro n y hn hy
    rw [e1] at hy
    by_cases hnl : n = l1.length
    · subst hnl; simp at hy; subst hy; exact dead_of_lt5 (by omega)
    · have : (l1 ++ [{ x with top := emptyOne }]).length ≤ n := by simp; omega
      rw [List.getElem?_eq_none this] at hy; cases hy
  | cons z l2' =>
    have ht : topAt (setTop (l1 ++ x :: z :: l2') l1.length emptyOne) (l1.length + 1) = some z.top := by
      rw [e1]
      simp only [topAt]
      rw [List.getElem?_append_right (by omega)]
      simp
    by_cases hz : z.top = emptyRest
    · have hdel : deleteAt (l1 ++ x :: z :: l2') l1.length =
          backProp (setTop (l1 ++ x :: z :: l2') l1.length emptyOne) l1.length := by
        simp only [deleteAt, ht, hz]; simp
      rw [hdel]
      apply key
      intro n y hn hy
      rw [e1] at hy
      by_cases hnl : n = l1.length
      · subst hnl; simp at hy; subst hy; exact dead_of_lt5 (by omega)
      · -- behind the deleted cell: `z` is emptyRest, so nothing filled follows (discipline of the original chain)
        have hr' := (restOK_iff _).1 hr
        rw [List.getElem?_append_right (by omega)] at hy
        have hn2 : n - l1.length = (n - l1.length - 1) + 1 := by omega
        rw [hn2] at hy
        simp only [List.getElem?_cons_succ] at hy
        by_cases hfirst : n - l1.length - 1 = 0
        · rw [hfirst] at hy; simp at hy; subst hy; exact dead_of_emptyRest hz
        · refine hr' (l1.length + 1) n z y (by omega) ?_ ?_ hz
          · rw [List.getElem?_append_right (by omega)]; simp
          · rw [List.getElem?_append_right (by omega), hn2]; simpa using hy
    · have hdel : deleteAt (l1 ++ x :: z :: l2') l1.length = setTop (l1 ++ x :: z :: l2') l1.length emptyOne := by
        simp only [deleteAt, ht]; simp [hz]
      rw [hdel]
      exact ⟨r1, a1, m1, n1⟩

end LlgoVerif.HMap
