"""Shared machinery for the /verif checks.

Every check is `./check <Cxx> --tier quick|thorough`; it
  1. rebuilds what it needs from /repo's *current working tree* (Go harness, llgo, IR, extracted facts),
  2. builds the Lean modules of the property (`lake build`) and audits the axioms of its theorems,
  3. runs real code and Lean model on the same generated inputs and diffs them (correspondence),
  4. judges the real code's outputs against the specification,
  5. writes evidence/<Cxx>.json and prints VIOLATION / KNOWN-FINDING lines.
"""
import atexit
import hashlib
import json
import os
import random
import re
import shutil
import subprocess
import sys
import time

VERIF = os.path.dirname(os.path.dirname(os.path.abspath(__file__)))
REPO = os.environ.get("VERIF_REPO", "/repo")
LEAN = os.path.join(VERIF, "lean")
SCRATCH_ROOT = os.environ.get("VERIF_SCRATCH", "/var/tmp")
GO124 = "/root/go/pkg/mod/golang.org/toolchain@v0.0.1-go1.24.0.linux-amd64"
ALLOWED_AXIOMS = {"propext", "Classical.choice", "Quot.sound"}
FORBIDDEN = re.compile(r"\b(sorry|admit|native_decide|bv_decide|implemented_by|unsafe)\b|^axiom\s|maxHeartbeats\s+0")


def go_env(extra=None):
    e = dict(os.environ)
    e.update({"GOFLAGS": "-mod=mod", "GOPROXY": "off", "GOSUMDB": "off", "GOTOOLCHAIN": "local",
              "GONOSUMDB": "*", "GONOSUMCHECK": "1", "GOWORK": "off"})
    # /repo's go.mod asks for go 1.24; the toolchain is in the module cache (the baseline uses it through
    # GOTOOLCHAIN=auto).  Put it first on PATH so that no toolchain switch (and no checksum lookup) is needed.
    if os.path.isdir(GO124):
        e["PATH"] = os.path.join(GO124, "bin") + os.pathsep + e.get("PATH", "")
        e["GOROOT"] = GO124
    if extra:
        e.update(extra)
    return e


class Ctx:
    """One check run."""

    def __init__(self, prop, tier, seed):
        self.prop = prop
        self.tier = tier
        self.seed = seed
        self.t0 = time.time()
        self.rng = random.Random((seed * 1000003) ^ int(hashlib.sha256(prop.encode()).hexdigest()[:8], 16))
        self.scratch = os.path.join(SCRATCH_ROOT, "verif-%s-%d" % (prop, os.getpid()))
        shutil.rmtree(self.scratch, ignore_errors=True)
        os.makedirs(self.scratch)
        atexit.register(lambda: shutil.rmtree(self.scratch, ignore_errors=True))
        self.violations = []      # (what, replay_path, no_input)
        self.reported_keys = set()
        self.known_hits = []      # entries of KNOWN_FINDINGS that were reproduced
        self.coverage = {"samples": [], "trusted_base": []}
        self.assumptions = []
        self.obligations = 0
        self.discharged = 0
        self.broken = []          # names of theorems / correspondences that no longer check
        self.known = load_known(prop)
        self.log_lines = []

    def log(self, *a):
        msg = " ".join(str(x) for x in a)
        self.log_lines.append(msg)
        print("[%s %6.1fs] %s" % (self.prop, time.time() - self.t0, msg), flush=True)

    # ---------------------------------------------------------------- findings
    def match_known(self, key):
        """key: stable identifier of a failing input / call site. Returns entry or None."""
        for k in self.known:
            if k.get("status", "known") != "known":
                continue           # `fixed` entries suppress nothing
            if k["key"] == key:
                return k
        return None

    def report(self, key, what, replay_obj):
        """A concrete failing input was found on the real code. Known finding or violation."""
        k = self.match_known(key)
        if k is not None:
            if k not in self.known_hits:
                self.known_hits.append(k)
                print("KNOWN-FINDING: property=%s %s" % (self.prop, k["what"]), flush=True)
            return False
        if key in self.reported_keys:
            return True
        self.reported_keys.add(key)
        path = self.write_replay(key, what, replay_obj)
        self.violations.append((what, path, False))
        print("VIOLATION property=%s replay=%s" % (self.prop, path), flush=True)
        return True

    def report_broken(self, name, detail):
        """A proof obligation or a correspondence broke and no failing input was found."""
        path = self.write_replay("broken-" + re.sub(r"[^A-Za-z0-9_.-]", "_", name)[:80],
                                 "no longer checks: " + name, {"broken": name, "detail": detail})
        self.violations.append((name, path, True))
        print("VIOLATION property=%s replay=%s no-failing-input-found" % (self.prop, path), flush=True)

    def write_replay(self, key, what, obj):
        d = os.path.join(VERIF, "replay", self.prop)
        os.makedirs(d, exist_ok=True)
        name = re.sub(r"[^A-Za-z0-9_.-]", "_", key)[:100] + ".json"
        path = os.path.join(d, name)
        with open(path, "w") as f:
            json.dump({"property": self.prop, "key": key, "what": what, "seed": self.seed,
                       "tier": self.tier, "replay": obj}, f, indent=1, default=str)
        return path

    # ---------------------------------------------------------------- evidence
    def finish(self, level="proof", extra_cov=None):
        cov = self.coverage
        cov["obligations"] = self.obligations
        cov["discharged"] = self.discharged
        cov.setdefault("checker_cmd", "cd /verif/lean && lake build && lake env lean <axiom audit of Props module>")
        if extra_cov:
            cov.update(extra_cov)
        cov["known_findings_reproduced"] = [k["key"] for k in self.known_hits]
        cov["broken"] = self.broken
        if not cov["samples"]:
            cov["samples"] = ["(no sample recorded)"]
        ev = {"property_id": self.prop, "tier": self.tier, "seed": self.seed, "level": level,
              "coverage": cov, "assumptions": self.assumptions,
              "wall_s": round(time.time() - self.t0, 2), "violations": len(self.violations)}
        # evidence is about /repo itself; a run pointed at a scratch worktree (seeded-change trials) must not overwrite it
        evdir = os.path.join(VERIF, "evidence" if os.path.realpath(REPO) == "/repo" else "evidence-scratch")
        ev["repo"] = REPO
        os.makedirs(evdir, exist_ok=True)
        with open(os.path.join(evdir, self.prop + ".json"), "w") as f:
            json.dump(ev, f, indent=1, default=str)
        # stale known findings are reported informationally (they suppress nothing)
        for k in self.known:
            if k.get("status", "known") == "known" and k not in self.known_hits and k.get("tiers", ["quick", "thorough"]).count(self.tier):
                self.log("note: known finding not reproduced in this run:", k["key"])
        self.log("done: obligations %d/%d, violations %d, known findings %d" %
                 (self.discharged, self.obligations, len(self.violations), len(self.known_hits)))
        return 1 if self.violations else 0


def load_known(prop):
    path = os.path.join(VERIF, "KNOWN_FINDINGS.jsonl")
    out = []
    if os.path.exists(path):
        for line in open(path):
            line = line.strip()
            if not line or line.startswith("#"):
                continue
            k = json.loads(line)
            if k["property"] == prop:
                out.append(k)
    return out


# -------------------------------------------------------------------- running things
def run(cmd, cwd=None, env=None, input=None, timeout=None, check=False, text=True):
    p = subprocess.run(cmd, cwd=cwd, env=env, input=input, capture_output=True, text=text, timeout=timeout)
    if check and p.returncode != 0:
        raise RuntimeError("command failed (%d): %s\n%s\n%s" % (p.returncode, cmd, p.stdout[-4000:] if text else "", p.stderr[-4000:] if text else ""))
    return p


_lake_lock = None


def lake(args, timeout=3600):
    """Serialised lake invocation (lake has no build lock of its own)."""
    import fcntl
    lockf = open(os.path.join(LEAN, ".lake-verif.lock"), "w")
    fcntl.flock(lockf, fcntl.LOCK_EX)
    try:
        return run(["lake"] + args, cwd=LEAN, timeout=timeout)
    finally:
        fcntl.flock(lockf, fcntl.LOCK_UN)
        lockf.close()


THEOREM_RE = re.compile(r"^\s*(?:@\[[^\]]*\]\s*)?(?:private\s+|protected\s+)?theorem\s+([A-Za-z_][A-Za-z0-9_.'!?]*)", re.M)
NAMESPACE_RE = re.compile(r"^namespace\s+(\S+)", re.M)


def theorems_in(relpath):
    """[(fully qualified name, line)] of theorems in a Lean file (single top-level namespace convention)."""
    src = open(os.path.join(LEAN, relpath)).read()
    # strip block comments
    stripped = re.sub(r"/-.*?-/", lambda m: "\n" * m.group(0).count("\n"), src, flags=re.S)
    ns = NAMESPACE_RE.search(stripped)
    prefix = ns.group(1) + "." if ns else ""
    out = []
    for m in THEOREM_RE.finditer(stripped):
        line = stripped.count("\n", 0, m.start()) + 1
        out.append((prefix + m.group(1), line))
    return out


def forbidden_tokens(relpaths):
    hits = []
    for rp in relpaths:
        src = open(os.path.join(LEAN, rp)).read()
        stripped = re.sub(r"/-.*?-/", lambda m: "\n" * m.group(0).count("\n"), src, flags=re.S)
        for i, line in enumerate(stripped.split("\n"), 1):
            code = line.split("--")[0]
            if FORBIDDEN.search(code):
                hits.append("%s:%d: %s" % (rp, i, line.strip()))
    return hits


def lean_check(ctx, modules, props_files, extra_files=(), leanchecker=False):
    """Build `modules`, audit the theorems of `props_files`.

    Obligations = theorems in props_files (+ generated proof files given in props_files).
    Returns dict theorem -> 'ok' | reason.
    """
    status = {}
    thms = []
    for pf in props_files:
        for name, line in theorems_in(pf):
            thms.append((pf, name, line))
    ctx.obligations += len(thms)
    bad = forbidden_tokens(list(props_files) + list(extra_files))
    if bad:
        for b in bad:
            ctx.log("forbidden token:", b)
    p = lake(["build"] + modules)
    out = p.stdout + p.stderr
    errs = []   # (file, line)
    for m in re.finditer(r"error: (\S+?\.lean):(\d+):(\d+): (.*)", out):
        errs.append((m.group(1), int(m.group(2)), m.group(4)))
    failed_files = set(e[0] for e in errs)
    build_ok = p.returncode == 0
    if not build_ok and not errs:
        ctx.log("lake build failed without located errors:\n" + out[-3000:])
    # map errors to theorems: an error at line L belongs to the last theorem starting at or before L
    by_file = {}
    for pf, name, line in thms:
        by_file.setdefault(pf, []).append((line, name))
    for pf, lst in by_file.items():
        lst.sort()
        pf_errs = [e for e in errs if e[0].endswith(pf)]
        for (line, name) in lst:
            status[name] = "ok"
        for e in pf_errs:
            owner = None
            for (line, name) in lst:
                if line <= e[1]:
                    owner = name
            if owner:
                status[owner] = "error: " + e[2][:200]
            else:
                for (_, name) in lst:
                    status[name] = "error before first theorem: " + e[2][:200]
    if not build_ok:
        # errors in imported (non-Props) modules break every theorem that depends on them: be conservative
        nonprops = [e for e in errs if not any(e[0].endswith(pf) for pf in props_files)]
        if nonprops or not errs:
            for k in status:
                if status[k] == "ok":
                    status[k] = "dependency failed to build: " + (nonprops[0][0] + ":" + str(nonprops[0][1]) if nonprops else "unknown")
    # axiom audit on the theorems that compiled
    ok_names = [n for n, s in status.items() if s == "ok"]
    if ok_names and build_ok:
        audit = os.path.join(ctx.scratch, "Audit.lean")
        imports = sorted(set("import " + pf[:-5].replace("/", ".") for pf in props_files))
        with open(audit, "w") as f:
            f.write("\n".join(imports) + "\n")
            for n in ok_names:
                f.write("#print axioms %s\n" % n)
        import fcntl
        pa = run(["lake", "env", "lean", audit], cwd=LEAN)
        text = pa.stdout + pa.stderr
        # parse "'name' depends on axioms: [a, b]" / "'name' does not depend on any axioms"
        for m in re.finditer(r"'([^']+)' depends on axioms: \[([^\]]*)\]", text, flags=re.S):
            axs = set(a.strip() for a in m.group(2).replace("\n", " ").split(","))
            extra = axs - ALLOWED_AXIOMS
            if extra:
                status[m.group(1)] = "uses axioms " + ",".join(sorted(extra))
        seen = set(re.findall(r"'([^']+)' (?:depends on axioms|does not depend on any axioms)", text))
        for n in ok_names:
            if n not in seen:
                status[n] = "axiom audit produced no answer (%s)" % text.strip()[:200]
        ctx.coverage["axioms_allowed"] = sorted(ALLOWED_AXIOMS)
    if bad:
        for k in status:
            status[k] = "forbidden token in sources: " + bad[0]
    n_ok = sum(1 for s in status.values() if s == "ok")
    ctx.discharged += n_ok
    for n, s in status.items():
        if s != "ok":
            ctx.broken.append("theorem " + n + ": " + s)
    ctx.coverage.setdefault("theorems", [])
    ctx.coverage["theorems"] += sorted(status.keys())
    if leanchecker and build_ok:
        for pf in props_files:
            mod = pf[:-5].replace("/", ".")
            pc = run(["lake", "env", "leanchecker", mod], cwd=LEAN, timeout=3600)
            ctx.coverage.setdefault("leanchecker", {})[mod] = "ok" if pc.returncode == 0 else (pc.stdout + pc.stderr)[-500:]
            if pc.returncode != 0:
                ctx.broken.append("leanchecker rejected " + mod)
    ctx.coverage["trusted_base"] += [
        "Lean 4.33.0 kernel + elaborator; axioms allowed: propext, Classical.choice, Quot.sound (audited by #print axioms on every theorem of the Props module each run)",
    ]
    return status


def build_driver(ctx, exe):
    p = lake(["build", exe])
    if p.returncode != 0:
        raise RuntimeError("lake build %s failed:\n%s" % (exe, (p.stdout + p.stderr)[-3000:]))
    return os.path.join(LEAN, ".lake", "build", "bin", exe)


def run_lines(cmd, lines, cwd=None, env=None, timeout=3600):
    """Feed lines to a line-protocol process; return its output lines (crash -> partial output + marker)."""
    data = "\n".join(lines) + "\n"
    p = subprocess.run(cmd, cwd=cwd, env=env, input=data, capture_output=True, text=True, timeout=timeout)
    out = p.stdout.split("\n")
    if out and out[-1] == "":
        out.pop()
    return out, p.returncode, p.stderr


def build_go_harness(ctx, name, overlay=None, tags="verif", pkg=".", out="harness.bin", test=False, extra_env=None):
    """Copy /verif/harness/<name> into the scratch dir and build it against /repo's working tree."""
    src = os.path.join(VERIF, "harness", name)
    dst = os.path.join(ctx.scratch, "h-" + name)
    shutil.copytree(src, dst)
    for sums in ("go.sum",):
        if os.path.exists(os.path.join(REPO, sums)):
            shutil.copy(os.path.join(REPO, sums), os.path.join(dst, sums))
    # go.mod.in -> go.mod with the repo path substituted
    gm = os.path.join(dst, "go.mod.in")
    if os.path.exists(gm):
        s = open(gm).read().replace("@REPO@", REPO)
        open(os.path.join(dst, "go.mod"), "w").write(s)
    cmd = ["go", "build", "-tags", tags, "-o", os.path.join(dst, out)]
    if overlay:
        ov = {"Replace": {}}
        for target, srcfile in overlay.items():
            ov["Replace"][os.path.join(REPO, target)] = os.path.join(dst, srcfile)
        ovp = os.path.join(dst, "overlay.json")
        json.dump(ov, open(ovp, "w"))
        cmd += ["-overlay", ovp]
    cmd.append(pkg)
    p = run(cmd, cwd=dst, env=go_env(extra_env))
    if p.returncode != 0:
        raise HarnessBuildError("go build of harness %s failed:\n%s" % (name, (p.stdout + p.stderr)[-4000:]))
    return os.path.join(dst, out)


class HarnessBuildError(Exception):
    pass


def hexs(b):
    if isinstance(b, str):
        b = b.encode("utf-8", "surrogateescape")
    return b.hex() if b else "-"


def unhexs(h):
    return b"" if h == "-" else bytes.fromhex(h)


def main_wrapper(prop, fn):
    """Standard CLI: ./check Cxx --tier quick|thorough"""
    import argparse
    ap = argparse.ArgumentParser()
    ap.add_argument("--tier", default=os.environ.get("VERIF_TIER", "quick"))
    ap.add_argument("--replay", default=None)
    a = ap.parse_args(sys.argv[2:])
    seed = int(os.environ.get("VERIF_SEED", "1") or "1")
    ctx = Ctx(prop, a.tier, seed)
    try:
        rc = fn(ctx, a)
    except HarnessBuildError as e:
        ctx.log(str(e))
        ctx.broken.append("harness build: the code no longer offers the interface the correspondence uses")
        ctx.report_broken("correspondence harness build", str(e)[-2000:])
        rc = ctx.finish()
    sys.exit(rc)
