import LlgoVerif.Lemmas.Path
import LlgoVerif.Model.Extract
/-! Helper lemmas for C20: the file-system operations change nothing outside the destination (frame lemmas). -/
namespace LlgoVerif.Extract
open LlgoVerif.Path

/-- `q` lies strictly below `d` -/
def Under (d q : Key) : Prop := d <+: q ∧ q ≠ d

/-- the destination and all its ancestors exist as directories -/
def DestReady (fs : FS) (d : Key) : Prop := ∀ pre, pre <+: d → pre ≠ [] → lookup fs pre = some .dir

/-- nothing outside (strictly below) `d` differs between `fs` and `fs'` -/
def Frame (d : Key) (fs fs' : FS) : Prop := ∀ q, ¬ Under d q → lookup fs' q = lookup fs q

theorem Frame.refl (d : Key) (fs : FS) : Frame d fs fs := fun _ _ => rfl

theorem Frame.trans {d : Key} {a b c : FS} (h1 : Frame d a b) (h2 : Frame d b c) : Frame d a c :=
  fun q hq => (h2 q hq).trans (h1 q hq)

theorem DestReady.of_frame {d : Key} {fs fs' : FS} (h : DestReady fs d) (hf : Frame d fs fs') : DestReady fs' d := by
  intro pre hp hne
  rw [hf pre]
  · exact h pre hp hne
  · intro ⟨h1, h2⟩
    exact h2 (hp.eq_of_length (Nat.le_antisymm hp.length_le h1.length_le))

theorem lookup_cons (k : Key) (n : Node) (fs : FS) (q : Key) :
    lookup ((k, n) :: fs) q = if q = k then some n else lookup fs q := rfl

/-- `MkdirAll` only adds directories at missing prefixes of its argument -/
theorem mkdirFrom_changes (cs : List Comp) : ∀ (fs : FS) (pre : Key) (fs' : FS), mkdirFrom fs pre cs = .ok fs' →
    ∀ q, lookup fs' q = lookup fs q ∨
      (lookup fs q = none ∧ lookup fs' q = some .dir ∧ ∃ r, r ≠ [] ∧ r <+: cs ∧ q = pre ++ r) := by
  induction cs with
  | nil =>
    intro fs pre fs' h q
    simp [mkdirFrom] at h
    cases h; exact Or.inl rfl
  | cons c rest ih =>
    intro fs pre fs' h q
    unfold mkdirFrom at h
    split at h
    · rcases ih _ _ _ h q with h1 | ⟨h1, h2, r, hr, hr2, hq⟩
      · exact Or.inl h1
      · exact Or.inr ⟨h1, h2, c :: r, by simp, by simpa using hr2, by simp [hq]⟩
    · cases h
    · rename_i hnone
      rcases ih _ _ _ h q with h1 | ⟨h1, h2, r, hr, hr2, hq⟩
      · by_cases hqk : q = pre ++ [c]
        · subst hqk
          refine Or.inr ⟨hnone, ?_, [c], by simp, by simp, rfl⟩
          rw [h1, lookup_cons]; simp
        · left; rw [h1, lookup_cons]; simp [hqk]
      · rw [lookup_cons] at h1
        split at h1
        · cases h1
        · exact Or.inr ⟨h1, h2, c :: r, by simp, by simpa using hr2, by simp [hq]⟩

theorem mkdirAll_frame (d k : Key) (fs fs' : FS) (hr : DestReady fs d) (hk : k <+: d ∨ d <+: k)
    (h : mkdirAll fs k = .ok fs') : Frame d fs fs' := by
  intro q hq
  rcases mkdirFrom_changes k fs [] fs' h q with h1 | ⟨h1, _, r, hr1, hr2, hq2⟩
  · exact h1
  · exfalso
    simp at hq2; subst hq2
    have hqd : q <+: d := by
      rcases hk with hk | hk
      · exact hr2.trans hk
      · rcases List.prefix_or_prefix_of_prefix hr2 hk with h | h
        · exact h
        · by_cases e : q = d
          · rw [e]; exact List.prefix_refl d
          · exact absurd ⟨h, e⟩ hq
    rw [hr q hqd hr1] at h1
    cases h1

theorem openWrite_changes (tr : Bool) (fs fs' : FS) (k : Key) (data : Bytes)
    (h : openWrite tr fs k data = .ok fs') : ∀ q, q ≠ k → lookup fs' q = lookup fs q := by
  intro q hq
  unfold openWrite at h
  split at h
  · cases h
  · split at h
    · split at h <;> cases h
    · split at h
      · cases h
      · cases h; rw [lookup_cons]; simp [hq]
      · cases h; rw [lookup_cons]; simp [hq]

theorem openWrite_dir_err (tr : Bool) (fs : FS) (k : Key) (data : Bytes) (h : isDir fs k = true) :
    ∃ e, openWrite tr fs k data = .error e := by
  unfold openWrite
  split
  · exact ⟨_, rfl⟩
  · rename_i hk
    split
    · split <;> exact ⟨_, rfl⟩
    · simp [isDir, hk] at h
      simp [h]

theorem openWrite_frame (d k : Key) (tr : Bool) (fs fs' : FS) (data : Bytes) (hr : DestReady fs d)
    (hk : d <+: k) (h : openWrite tr fs k data = .ok fs') : Frame d fs fs' := by
  intro q hq
  apply openWrite_changes tr fs fs' k data h
  intro e; subst e
  apply hq
  refine ⟨hk, ?_⟩
  intro e; subst e
  have : isDir fs q = true := by
    by_cases hq0 : q = []
    · simp [isDir, hq0]
    · simp [isDir, hr q (List.prefix_refl q) hq0]
  obtain ⟨e, he⟩ := openWrite_dir_err tr fs q data this
  rw [he] at h; cases h


theorem comps_dirOf (ts : List Comp) (h : ∀ c ∈ ts, Normal c) :
    comps (dirOf ('/' :: joinSlash ts)) = ts.dropLast := by
  by_cases hne : ts = []
  · subst hne; decide
  · rw [dirOf_rooted ts h hne, comps_rooted_join]
    intro c hc
    exact h c (List.dropLast_subset ts hc)

/-- what the guard gives about the target and about its parent directory -/
theorem target_facts (d0 name : Str) (acc : Bool)
    (h : guardOK acc ('/' :: d0) (join ('/' :: d0) name) = true) :
    comps (clean ('/' :: d0)) <+: comps (join ('/' :: d0) name) ∧
    (comps (dirOf (join ('/' :: d0) name)) <+: comps (clean ('/' :: d0)) ∨
     comps (clean ('/' :: d0)) <+: comps (dirOf (join ('/' :: d0) name))) := by
  have hcd : comps (dirOf (join ('/' :: d0) name)) = (comps (join ('/' :: d0) name)).dropLast := by
    rw [join_abs, comps_dirOf _ (cleanComps_rooted_normal _), comps_rooted_join _ (cleanComps_rooted_normal _)]
  rcases guard_comps d0 name acc h with ⟨_, heq⟩ | ⟨rest, h1, h2, _⟩
  · rw [hcd, heq]
    exact ⟨List.prefix_refl _, Or.inl (List.dropLast_prefix _)⟩
  · rw [hcd, h1]
    refine ⟨List.prefix_append _ _, Or.inr ?_⟩
    rw [List.dropLast_append_of_ne_nil h2]
    exact List.prefix_append _ _

theorem tarStep_frame (cfg : Cfg) (d0 : Str) (fs fs' : FS) (e : Entry)
    (hr : DestReady fs (comps (clean ('/' :: d0)))) (h : tarStep cfg ('/' :: d0) fs e = .ok fs') :
    Frame (comps (clean ('/' :: d0))) fs fs' := by
  unfold tarStep at h
  simp only at h
  split at h
  · cases h
  · rename_i hg
    simp at hg
    obtain ⟨ht, hd⟩ := target_facts d0 e.name cfg.tarAcceptRoot hg
    split at h
    · exact mkdirAll_frame _ _ _ _ hr (Or.inr ht) h
    · split at h
      · cases h
      · rename_i fs1 hm
        have f1 := mkdirAll_frame _ _ _ _ hr hd hm
        exact f1.trans (openWrite_frame _ _ _ _ _ _ (hr.of_frame f1) ht h)
    · cases h; exact Frame.refl _ _

theorem zipStep_frame (cfg : Cfg) (hguard : cfg.zipGuard = true) (d0 : Str) (fs fs' : FS) (e : Entry)
    (hr : DestReady fs (comps (clean ('/' :: d0)))) (h : zipStep cfg ('/' :: d0) fs e = .ok fs') :
    Frame (comps (clean ('/' :: d0))) fs fs' := by
  unfold zipStep at h
  simp only [hguard, Bool.true_and] at h
  split at h
  · cases h
  · rename_i hg
    simp at hg
    obtain ⟨ht, hd⟩ := target_facts d0 e.name cfg.zipAcceptRoot hg
    split at h
    · exact mkdirAll_frame _ _ _ _ hr (Or.inr ht) h
    · split at h
      · cases h
      · rename_i fs1 hm
        have f1 : Frame (comps (clean ('/' :: d0))) fs fs1 := by
          split at hm
          · exact mkdirAll_frame _ _ _ _ hr hd hm
          · cases hm; exact Frame.refl _ _
        exact f1.trans (openWrite_frame _ _ _ _ _ _ (hr.of_frame f1) ht h)

/-- the loop: whatever prefix of the archive was processed (complete run or abort), the frame holds -/
theorem runSteps_frame (d : Key) (stp : FS → Entry → Except Err FS)
    (hstep : ∀ fs fs' e, DestReady fs d → stp fs e = .ok fs' → Frame d fs fs') :
    ∀ (ar : List Entry) (fs : FS), DestReady fs d → Frame d fs (runSteps stp fs ar).1 := by
  intro ar
  induction ar with
  | nil => intro fs _; exact Frame.refl _ _
  | cons e es ih =>
    intro fs hr
    unfold runSteps
    split
    · rename_i fs' hs
      have f1 := hstep fs fs' e hr hs
      exact f1.trans (ih fs' (hr.of_frame f1))
    · exact Frame.refl _ _


/-- unguarded `extractZip` step whose entry name happens to pass the (root-accepting) guard -/
theorem zipStep_frame_of_guard (cfg : Cfg) (d0 : Str) (fs fs' : FS) (e : Entry)
    (hg : guardOK true ('/' :: d0) (join ('/' :: d0) e.name) = true)
    (hr : DestReady fs (comps (clean ('/' :: d0)))) (h : zipStep cfg ('/' :: d0) fs e = .ok fs') :
    Frame (comps (clean ('/' :: d0))) fs fs' := by
  obtain ⟨ht, hd⟩ := target_facts d0 e.name true hg
  unfold zipStep at h
  simp only at h
  split at h
  · cases h
  · split at h
    · exact mkdirAll_frame _ _ _ _ hr (Or.inr ht) h
    · split at h
      · cases h
      · rename_i fs1 hm
        have f1 : Frame (comps (clean ('/' :: d0))) fs fs1 := by
          split at hm
          · exact mkdirAll_frame _ _ _ _ hr hd hm
          · cases hm; exact Frame.refl _ _
        exact f1.trans (openWrite_frame _ _ _ _ _ _ (hr.of_frame f1) ht h)

/-- `runSteps` with a per-entry hypothesis -/
theorem runSteps_frame_mem (d : Key) (stp : FS → Entry → Except Err FS) :
    ∀ (ar : List Entry), (∀ e ∈ ar, ∀ fs fs', DestReady fs d → stp fs e = .ok fs' → Frame d fs fs') →
    ∀ (fs : FS), DestReady fs d → Frame d fs (runSteps stp fs ar).1 := by
  intro ar
  induction ar with
  | nil => intro _ fs _; exact Frame.refl _ _
  | cons e es ih =>
    intro hstep fs hr
    unfold runSteps
    split
    · rename_i fs' hs
      have f1 := hstep e (by simp) fs fs' hr hs
      exact f1.trans (ih (fun e' he' => hstep e' (by simp [he'])) fs' (hr.of_frame f1))
    · exact Frame.refl _ _

/-- the non-empty prefixes of a key -/
def prefixesOf : Key → List Key
  | [] => []
  | c :: cs => [c] :: (prefixesOf cs).map (c :: ·)

theorem mem_prefixesOf : ∀ (d pre : Key), pre <+: d → pre ≠ [] → pre ∈ prefixesOf d := by
  intro d
  induction d with
  | nil => intro pre hp hne; exact absurd (List.prefix_nil.1 hp) hne
  | cons c cs ih =>
    intro pre hp hne
    cases pre with
    | nil => exact absurd rfl hne
    | cons x xs =>
      rw [List.cons_prefix_cons] at hp
      obtain ⟨rfl, hxs⟩ := hp
      by_cases hx : xs = []
      · subst hx; simp [prefixesOf]
      · simp only [prefixesOf, List.mem_cons, List.mem_map]
        exact Or.inr ⟨xs, ih xs hxs hx, rfl⟩

/-- decidable form of `DestReady` -/
def destReadyB (fs : FS) (d : Key) : Bool :=
  (prefixesOf d).all fun pre => lookup fs pre == some .dir

theorem destReady_of_B (fs : FS) (d : Key) (h : destReadyB fs d = true) : DestReady fs d := by
  intro pre hp hne
  unfold destReadyB at h
  rw [List.all_eq_true] at h
  simpa using h pre (mem_prefixesOf d pre hp hne)

end LlgoVerif.Extract


