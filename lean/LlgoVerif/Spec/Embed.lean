import LlgoVerif.Model.Embed
/-!
Specification for C16: which files `//go:embed` patterns select, the way cmd/go decides it
(`cmd/go/internal/load/pkg.go`, `resolveEmbed`), stated as relations over the file tree — no loops,
no maps, no pattern ids.

A pattern is `all:`? + glob.  The glob is matched element by element (`path.Match` per element, links
followed on the way, not for the last element).  Every element of a matched path must be acceptable
(`CleanTrail`): not a module root, not a name that cannot be in a module, and — for the directories on the way —
a real directory.  A matched regular file is embedded; a matched directory stands for the regular
files below it, leaving out entries whose name is bad or starts with `.`/`_` (unless `all:`), and
directories that are module roots; anything else that is matched (link, fifo, …) is an error, a
directory that yields nothing is an error, a pattern that matches nothing is an error.

The only things shared with the model are the tree type, `path.Match` (`matchOK`, `globSyntaxOK`),
`isBadName` and UTF-8 validity: leaf predicates of cmd/go's rule whose transcriptions are compared
with the Go functions on every run.
-/
namespace LlgoVerif.Embed.Spec
open LlgoVerif.Embed

/-- a *trail*: the elements of a path below the package directory, each with what `Lstat` finds there -/
abbrev Trail := List (Str × Node)

/-- `Reach n t`: starting in directory `n` the trail `t` exists; a symbolic link on the way is looked
    through (`n.dirEnts` follows links), the node recorded for each element is the link itself. -/
inductive Reach : Node → Trail → Prop
  | nil (n : Node) : Reach n []
  | cons {n : Node} {es : Ents} {nm : Str} {ch : Node} {rest : Trail} :
      n.dirEnts = some es → (nm, ch) ∈ es.toList → Reach ch rest → Reach n ((nm, ch) :: rest)

/-- the elements of a slash-separated pattern -/
def comps (glob : Str) : List Str := splitOn 47 glob

/-- the names of the trail match the pattern elements one by one (`path.Match` per element) -/
inductive AllMatch : List Str → Trail → Prop
  | nil : AllMatch [] []
  | cons {c : Str} {e : Str × Node} {cs : List Str} {t : Trail} :
      matchOK c e.1 = true → AllMatch cs t → AllMatch (c :: cs) (e :: t)

/-- the trail is a match of the glob: it exists and its names match the elements one by one -/
def Matches (root : Node) (glob : Str) (t : Trail) : Prop :=
  Reach root t ∧ AllMatch (comps glob) t

/-- `validEmbedPattern` + the syntax check: not `.`, valid UTF-8, no empty / `.` / `..` element
    (so: relative, no trailing slash), well-formed as a `path.Match` pattern -/
def ValidPat (glob : Str) : Prop :=
  glob ≠ sDot ∧ validUtf8 glob = true ∧ (∀ c ∈ comps glob, c ≠ [] ∧ c ≠ sDot ∧ c ≠ sDotDot) ∧
  globSyntaxOK glob = true

/-- cmd/go's test of every element of a matched path (`for dir := file; …; dir = filepath.Dir(dir)`) -/
def CleanTrail (t : Trail) : Prop :=
  ∀ pre e post, t = pre ++ e :: post →
    e.2.hasGoMod = false ∧ isBadName e.1 = false ∧ (post ≠ [] → e.2.isDir = true)

def Hidden (nm : Str) : Prop := nm.head? = some 46 ∨ nm.head? = some 95

/-- an entry met while walking a matched directory is taken into account -/
def Visible (all : Bool) (nm : Str) : Prop := isBadName nm = false ∧ (all = true ∨ ¬ Hidden nm)

/-- `Under all es p d`: below a directory with entries `es` the regular file `p` (relative path)
    with contents `d` is embeddable -/
inductive Under (all : Bool) : Ents → List Str → Str → Prop
  | file {es : Ents} {nm d : Str} :
      (nm, Node.file d) ∈ es.toList → Visible all nm → Under all es [nm] d
  | dir {es es' : Ents} {nm : Str} {p : List Str} {d : Str} :
      (nm, Node.dir es') ∈ es.toList → Visible all nm → entsHaveGoMod es' = false →
      Under all es' p d → Under all es (nm :: p) d

/-- the matched trail `t` delivers the file with path `f` and contents `d` -/
def Delivers (all : Bool) (t : Trail) (f : List Str) (d : Str) : Prop :=
  ∃ e, t.getLast? = some e ∧
    ((e.2 = Node.file d ∧ f = t.map (·.1)) ∨
     (∃ es p, e.2 = Node.dir es ∧ entsHaveGoMod es = false ∧ Under all es p d ∧ f = t.map (·.1) ++ p))

/-- cmd/go accepts the pattern -/
def PatternOK (root : Node) (pat : Str) : Prop :=
  ValidPat (splitAll pat).2 ∧
  (∃ t, Matches root (splitAll pat).2 t) ∧
  ∀ t, Matches root (splitAll pat).2 t → CleanTrail t ∧ ∃ f d, Delivers (splitAll pat).1 t f d

/-- cmd/go accepts the pattern list -/
def Accepted (root : Node) (pats : List Str) : Prop := ∀ p ∈ pats, PatternOK root p

/-- file `name` with contents `d` is embedded by the pattern list -/
def embeddedData (root : Node) (pats : List Str) (name d : Str) : Prop :=
  ∃ p ∈ pats, ∃ t f, Matches root (splitAll p).2 t ∧ Delivers (splitAll p).1 t f d ∧ name = joinSlash f

/-- file `name` is embedded by the pattern list -/
def embedded (root : Node) (pats : List Str) (name : Str) : Prop := ∃ d, embeddedData root pats name d

/-! ### a decidable class of trees: no symbolic link that leads to a directory -/

mutual
  def _root_.LlgoVerif.Embed.Node.noDirLinks : Node → Bool
    | .file _ => true
    | .dir es => es.noDirLinks
    | .link t => t.dirEnts.isNone
    | .dangling => true
    | .irregular => true
  def _root_.LlgoVerif.Embed.Ents.noDirLinks : Ents → Bool
    | .nil => true
    | .cons _ n rest => n.noDirLinks && rest.noDirLinks
end

/-! ### writing arguments on a `//go:embed` line -/

/-- escape `"` and `\` -/
def escD : Str → Str
  | [] => []
  | c :: cs => if c = 34 || c = 92 then 92 :: c :: escD cs else c :: escD cs

/-- one argument as it is written: double-quoted (any bytes), back-quoted, or bare -/
inductive QArg where
  | dq (a : Str)
  | bq (a : Str)
  | plain (a : Str)

/-- the text written on the line -/
def QArg.render : QArg → Str
  | .dq a => 34 :: (escD a ++ [34])
  | .bq a => 96 :: (a ++ [96])
  | .plain a => a

/-- the pattern meant -/
def QArg.value : QArg → Str
  | .dq a => a
  | .bq a => a
  | .plain a => a

/-- what can be written in the respective form: a raw string cannot contain a back quote;
    a bare argument is non-empty, has no blank and does not start with a quote character -/
def QArg.ok : QArg → Bool
  | .dq _ => true
  | .bq a => !a.contains 96
  | .plain a => !a.isEmpty && !a.any isBlank && a.head? != some 34 && a.head? != some 96

/-- additionally needed for `strconv.Unquote` to give the value back (as far as it is modelled:
    ASCII without newline; no carriage return in a raw string; a bare argument not in single quotes) -/
def QArg.uqOk : QArg → Bool
  | .dq a => a.all fun b => b < 0x80 && b != 10
  | .bq a => !a.contains 13
  | .plain a => a.head? != some 39

/-- arguments separated by one space -/
def joinSp : List Str → Str
  | [] => []
  | [a] => a
  | a :: b :: rest => a ++ 32 :: joinSp (b :: rest)

/-! ### what `embed.FS` needs of its file table (`embed/embed.go`: "sorted by (dir, elem)") -/

/-- the elements of a clean relative name (`a/b/c`): non-empty, not `.`/`..`, no slash inside -/
def CleanElems (cs : List Str) : Prop := cs ≠ [] ∧ ∀ c ∈ cs, c ≠ [] ∧ c ≠ sDot ∧ c ≠ sDotDot ∧ 47 ∉ c

end LlgoVerif.Embed.Spec
