// Package bitcast: stand-in for clite/bitcast.
package bitcast

import "math"

func ToFloat64(v int64) float64 { return math.Float64frombits(uint64(v)) }
func ToFloat32(v int32) float32 { return math.Float32frombits(uint32(v)) }
func FromFloat64(v float64) int64 { return int64(math.Float64bits(v)) }
func FromFloat32(v float32) int32 { return int32(math.Float32bits(v)) }
