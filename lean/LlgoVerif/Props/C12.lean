import LlgoVerif.Lemmas.Init
import LlgoVerif.Spec.InitShape
/-!
# C12 — packages initialise once, dependencies first, variables in dependency order

Property theorems only. Model: `LlgoVerif/Model/Init.lean` (guarded recursive `init`, chained patched
packages, entry function); lemmas: `LlgoVerif/Lemmas/Init.lean`; IR shape: `LlgoVerif/Spec/InitShape.lean`.

All theorems are for EVERY program `P` (any number of packages, any import lists, any mix of ordinary /
chained / skip-init patched packages) whose numbering is topological (`Topo`: the import graph is
acyclic — the Go tool chain rejects import cycles), for EVERY sequence `calls` of top-level initialiser
calls (the entry function makes `[runtime?, std runtime?, main]`; a C host in c-archive / c-shared mode
may call any exported `<pkg>_init` any number of times in any order) and every sufficient `fuel`.
-/
namespace LlgoVerif.Init

/-- events after the top-level initialiser calls `calls`, from program start -/
def hostTrace (P : Prog) (fuel : Nat) (calls : List Nat) : List Ev := (callInits P fuel calls {}).trace

/-- `p` is one of the called packages or a transitive import of one -/
def Reachable (P : Prog) (calls : List Nat) (p : Nat) : Prop := ∃ c ∈ calls, Reach P c p

theorem host_spec (P : Prog) (hT : Topo P) (fuel : Nat) (calls : List Nat) (hc : ∀ c ∈ calls, c < fuel) :
    Inv P (callInits P fuel calls {}) ∧
    Ext P (Reachable P calls) {} (callInits P fuel calls {}) ∧
    ∀ p, Reachable P calls p → Fin (callInits P fuel calls {}) p := by
  obtain ⟨i, e, f, _⟩ := callInits_spec P hT fuel calls hc {} (Inv.init P) (by simp [Quiet])
  exact ⟨i, e, fun p ⟨c, hcm, hr⟩ => fin_reach i hr (f c hcm)⟩

/-- **Exactly once.** Every package reachable from the called initialisers runs its body exactly once —
    however many importers it has and however often (and in whatever order) initialisers are called. -/
theorem init_once (P : Prog) (hT : Topo P) (fuel : Nat) (calls : List Nat) (hc : ∀ c ∈ calls, c < fuel)
    (p : Nat) (hr : Reachable P calls p) :
    (hostTrace P fuel calls).count (.body p false) = 1 := by
  obtain ⟨i, _, f⟩ := host_spec P hT fuel calls hc
  have h1 := i.once p false
  have h2 : 1 ≤ (hostTrace P fuel calls).count (.body p false) := List.one_le_count_iff.2 (f p hr)
  unfold hostTrace at *; omega

/-- **Dependencies first.** The body of every (transitive) import `q` of a reachable package `p` runs
    before the body of `p`. -/
theorem deps_first (P : Prog) (hT : Topo P) (fuel : Nat) (calls : List Nat) (hc : ∀ c ∈ calls, c < fuel)
    (p q : Nat) (hr : Reachable P calls p) (hq : Reach P p q) (hne : q ≠ p) :
    Bef (.body q false) (.body p false) (hostTrace P fuel calls) := by
  obtain ⟨i, _, f⟩ := host_spec P hT fuel calls hc
  exact reach_bef i hq (f p hr) hne

/-- **Nothing else runs.** A package that no called initialiser reaches never runs (either half). -/
theorem unreachable_never (P : Prog) (hT : Topo P) (fuel : Nat) (calls : List Nat) (hc : ∀ c ∈ calls, c < fuel)
    (p : Nat) (o : Bool) (hr : ¬ Reachable P calls p) :
    (hostTrace P fuel calls).count (.body p o) = 0 := by
  obtain ⟨_, e, _⟩ := host_spec P hT fuel calls hc
  apply List.count_eq_zero_of_not_mem
  intro hm
  rcases e.new_body hm with h | ⟨h, _⟩
  · simp at h
  · exact hr h

/-- **Patched packages.** For a reachable patched package whose original `init` is kept (`chained`):
    the original half runs exactly once, after the bodies of the ORIGINAL's imports and before the
    replacement half (which runs once by `init_once`, after the replacement's imports by `deps_first`).
    With `pkgFNoOldInit` (or for an ordinary package) the original half never runs. -/
theorem patched_chain (P : Prog) (hT : Topo P) (fuel : Nat) (calls : List Nat) (hc : ∀ c ∈ calls, c < fuel)
    (p : Nat) (hr : Reachable P calls p) :
    (∀ oi, (P p).kind = .chained oi →
      (hostTrace P fuel calls).count (.body p true) = 1 ∧
      Bef (.body p true) (.body p false) (hostTrace P fuel calls) ∧
      ∀ q ∈ oi, Bef (.body q false) (.body p true) (hostTrace P fuel calls)) ∧
    ((∀ oi, (P p).kind ≠ .chained oi) → (hostTrace P fuel calls).count (.body p true) = 0) := by
  obtain ⟨i, _, f⟩ := host_spec P hT fuel calls hc
  constructor
  · intro oi hk
    have hch := i.chain p oi hk (f p hr)
    refine ⟨?_, hch, i.depsO p oi hk hch.mem⟩
    have h1 := i.once p true
    have h2 : 1 ≤ (hostTrace P fuel calls).count (.body p true) := List.one_le_count_iff.2 hch.mem
    unfold hostTrace at *; omega
  · intro hk
    apply List.count_eq_zero_of_not_mem
    intro hm
    obtain ⟨oi, h⟩ := i.origOnly p hm
    exact hk oi h

/-- **The bodies are preserved.** Expanding every body event into the action list go/ssa computed for
    it (variables in dependency order, then `init#k` in file/declaration order), the actions of an
    ordinary reachable package occur in the observable trace exactly once, contiguously and in that
    order: `pre ++ acts p ++ post` with no event of `p` in `pre` or `post`. -/
theorem body_preserved (P : Prog) (hT : Topo P) (fuel : Nat) (calls : List Nat) (hc : ∀ c ∈ calls, c < fuel)
    (p : Nat) (hr : Reachable P calls p) {α : Type} (acts : Nat → Bool → List α) (other : Ev → List α) :
    ∃ l₁ l₂, hostTrace P fuel calls = l₁ ++ .body p false :: l₂ ∧
      Ev.body p false ∉ l₁ ∧ Ev.body p false ∉ l₂ ∧
      expand acts other (hostTrace P fuel calls) = expand acts other l₁ ++ acts p false ++ expand acts other l₂ := by
  obtain ⟨i, _, f⟩ := host_spec P hT fuel calls hc
  obtain ⟨l₁, l₂, hsplit⟩ := List.append_of_mem (f p hr)
  have hcount := i.once p false
  have happ : ∀ a b : List Ev, expand acts other (a ++ b) = expand acts other a ++ expand acts other b := by
    intro a b
    induction a with
    | nil => rfl
    | cons e t ih => cases e <;> simp [expand, ih]
  unfold hostTrace
  refine ⟨l₁, l₂, hsplit, ?_, ?_, ?_⟩
  · intro hm
    have : 1 ≤ l₁.count (.body p false) := List.one_le_count_iff.2 hm
    rw [hsplit] at hcount
    simp at hcount; omega
  · intro hm
    have : 1 ≤ l₂.count (.body p false) := List.one_le_count_iff.2 hm
    rw [hsplit] at hcount
    simp at hcount; omega
  · rw [hsplit, happ]; simp [expand]

/-- **A second round of calls changes nothing** (a C host calling the exported initialisers twice). -/
theorem init_idempotent (P : Prog) (hT : Topo P) (fuel : Nat) (calls : List Nat) (hc : ∀ c ∈ calls, c < fuel) :
    callInits P fuel (calls ++ calls) {} = callInits P fuel calls {} := by
  obtain ⟨i, _, f⟩ := host_spec P hT fuel calls hc
  have hsplit : callInits P fuel (calls ++ calls) {} = callInits P fuel calls (callInits P fuel calls {}) := by
    simp [callInits, initImports, List.foldl_append]
  rw [hsplit]
  generalize callInits P fuel calls {} = s at i f
  have : ∀ (l : List Nat), (∀ c ∈ l, c ∈ calls) → callInits P fuel l s = s := by
    intro l
    induction l with
    | nil => intro _; rfl
    | cons c cs ih =>
      intro hl
      have hcm := hl c (by simp)
      have hg : c ∈ s.guard := i.sub c false (f c ⟨c, hcm, .refl c⟩)
      have hstep : initPkg P fuel c s = s := by
        cases fuel with
        | zero => exact absurd (hc c hcm) (by omega)
        | succ n => simp [initPkg, initStep, hg]
      simp only [callInits, initImports, List.foldl_cons, hstep]
      exact ih (fun d hd => hl d (by simp [hd]))
  exact this calls (fun _ h => h)

/-- **Termination / fuel.** Any fuel above the package number gives the same result. -/
theorem fuel_irrelevant (P : Prog) (hT : Topo P) (f1 f2 p : Nat) (s : St) (h1 : p < f1) (h2 : p < f2) :
    initPkg P f1 p s = initPkg P f2 p s :=
  fuel_irrelevant_aux P hT f1 f2 p s h1 h2

/-- **Entry order.** In an executable, `main.main` is the last event and runs once; before it every
    package reachable from the entry's initialiser calls (llgo's runtime, the std runtime when linked,
    `main`) has run its body exactly once, imports first, and nothing unreachable has run. -/
theorem entry_order (P : Prog) (hT : Topo P) (fuel : Nat) (e : Entry) (hc : ∀ c ∈ e.calls, c < fuel) :
    ∃ pre, (runEntry P fuel e).trace = pre ++ [.mainMain] ∧ Ev.mainMain ∉ pre ∧
      (∀ p, Reachable P e.calls p → pre.count (.body p false) = 1) ∧
      (∀ p o, ¬ Reachable P e.calls p → Ev.body p o ∉ pre) ∧
      (∀ p q, Reachable P e.calls p → Reach P p q → q ≠ p → Bef (.body q false) (.body p false) pre) := by
  obtain ⟨s, hs, t⟩ := runEntry_top P hT fuel e hc
  have hfin : ∀ p, Reachable P e.calls p → Fin s p := fun p ⟨c, hcm, hr⟩ => fin_reach t.inv hr (t.fin c hcm)
  refine ⟨s.trace, by rw [hs]; rfl, t.noMain, ?_, ?_, ?_⟩
  · intro p hr
    have h1 := t.inv.once p false
    have h2 : 1 ≤ s.trace.count (.body p false) := List.one_le_count_iff.2 (hfin p hr)
    omega
  · intro p o hr hm
    exact hr (t.reach p o hm)
  · intro p q hr hq hne
    exact reach_bef t.inv hq (hfin p hr) hne

/-! ### tie A: a well-shaped emitted initialiser executes as the model says -/

theorem okCalls_sound (call : Nat → St → St) (hp : St → St) (p : Nat) (o : Bool) :
    ∀ (l : List Nat) (r : List Tok) (s : St), okCalls l r = true →
      execBody call hp p o r s = some ((initImports call l s).emit (.body p o)) := by
  intro l
  induction l with
  | nil =>
    intro r s h
    simp only [okCalls] at h
    cases r with
    | nil => simp [execTail] at h
    | cons t r' =>
      cases t <;> simp_all [execTail, execBody, initImports]
  | cons q qs ih =>
    intro r s h
    cases r with
    | nil => simp [okCalls] at h
    | cons t r' =>
      cases t <;> simp [okCalls] at h
      obtain ⟨hq, h⟩ := h
      subst hq
      simp only [execBody]
      rw [ih r' (call q s) h]
      rfl

/-- the entry block and the guard store of a function that passes `okShape` -/
theorem okShape_toks (f : InitFact) (hok : okShape f = true) :
    ∃ r, f.toks = .loadGuard :: .brGuard (if f.hasPatchFn then .body else .ret) (if f.hasPatchFn then .ret else .body)
                    :: .storeGuard :: r ∧
      (if f.chained && !f.hasPatchFn then
        match r with
        | .callHasPatch :: r' => okCalls f.imports r'
        | _ => false
      else okCalls f.imports r) = true := by
  unfold okShape at hok
  rw [Bool.and_eq_true] at hok
  obtain ⟨_, hok⟩ := hok
  split at hok
  · rename_i t e r htoks
    rw [Bool.and_eq_true] at hok
    obtain ⟨hte, hok⟩ := hok
    refine ⟨r, ?_, hok⟩
    rw [htoks]
    cases hp : f.hasPatchFn <;> simp [hp] at hte ⊢ <;> exact hte
  · exact absurd hok (by simp)

/-- **Shape soundness, `init`.** An emitted `init` that passes `okShape` behaves exactly like the model's
    `initStep` for a package with those imports (`hp` = what its `init$hasPatch` does). -/
theorem shape_sound (f : InitFact) (hf : f.hasPatchFn = false) (hok : okShape f = true)
    (call : Nat → St → St) (oi : List Nat) (s : St) :
    execInit call (initHasPatch call oi f.id) f.id false f.toks s =
      some (initStep call { imports := f.imports, kind := if f.chained then .chained oi else .normal } f.id s) := by
  obtain ⟨r, htoks, hr⟩ := okShape_toks f hok
  rw [htoks, hf]
  rw [hf] at hr
  unfold execInit initStep
  by_cases hg : f.id ∈ s.guard
  · simp [hg]
  · cases hch : f.chained with
    | true =>
      rw [hch] at hr
      simp only [Bool.not_false, Bool.and_self, if_true] at hr
      split at hr
      · rename_i r'
        simp only [hg, if_false, Bool.false_eq_true, execBody]
        rw [okCalls_sound call _ f.id false f.imports r' _ hr]
        simp
      · exact absurd hr (by simp)
    | false =>
      rw [hch] at hr
      simp only [Bool.false_and, Bool.false_eq_true, if_false] at hr
      simp only [hg, if_false, Bool.false_eq_true, execBody]
      rw [okCalls_sound call _ f.id false f.imports r _ hr]

/-- **Shape soundness, `init$hasPatch`.** The renamed original initialiser behaves like the model's
    `initHasPatch`: its body runs iff the guard is already set. -/
theorem shape_sound_hasPatch (f : InitFact) (hf : f.hasPatchFn = true) (hok : okShape f = true)
    (call : Nat → St → St) (hp : St → St) (s : St) :
    execInit call hp f.id true f.toks s = some (initHasPatch call f.imports f.id s) := by
  obtain ⟨r, htoks, hr⟩ := okShape_toks f hok
  rw [htoks, hf]
  rw [hf] at hr
  simp only [Bool.not_true, Bool.and_false, Bool.false_eq_true, if_false] at hr
  unfold execInit initHasPatch
  by_cases hg : f.id ∈ s.guard
  · simp only [hg, if_true, execBody]
    rw [okCalls_sound call hp f.id true f.imports r _ hr]
  · simp [hg]

/-! ### non-vacuity: a concrete diamond, with a chained patched package and an unreachable one

    0 = tracer (leaf) · 1 = a patched std package (original imports [0], replacement imports []) ·
    2 = `a` imports [0, 1] · 3 = `b` imports [1, 0] · 4 = main imports [3, 2, 0] · 5 = unreachable,
    imports [0] · 6 = patched with `skip init` (noOld), imported by nobody -/

def diamond : Prog := ofList [
  { imports := [] },
  { imports := [], kind := .chained [0] },
  { imports := [0, 1] },
  { imports := [1, 0] },
  { imports := [3, 2, 0] },
  { imports := [0] },
  { imports := [], kind := .noOld [0] }]

theorem diamond_topo : Topo diamond := by
  intro p q h
  unfold diamond ofList Prog.deps Prog.origImports at h
  match p with
  | 0 | 1 | 2 | 3 | 4 | 5 | 6 => simp at h <;> omega
  | n+7 => simp at h

example : hostTrace diamond 7 [4] =
    [.body 0 false, .body 1 true, .body 1 false, .body 3 false, .body 2 false, .body 4 false] := by decide

/-- a C host calling `b_init`, `main_init`, `main_init`, `a_init`: same bodies, still once each -/
example : hostTrace diamond 7 [3, 4, 4, 2] =
    [.body 0 false, .body 1 true, .body 1 false, .body 3 false, .body 2 false, .body 4 false] := by decide

example : Reachable diamond [4] 0 :=
  ⟨4, by simp, .step (q := 0) (by decide) (.refl 0)⟩

example : (hostTrace diamond 7 [4]).count (.body 0 false) = 1 :=
  init_once diamond diamond_topo 7 [4] (by decide) 0 ⟨4, by simp, .step (q := 0) (by decide) (.refl 0)⟩

example : Bef (.body 0 false) (.body 4 false) (hostTrace diamond 7 [4]) :=
  deps_first diamond diamond_topo 7 [4] (by decide) 4 0 ⟨4, by simp, .refl 4⟩
    (.step (q := 0) (by decide) (.refl 0)) (by decide)

example : ¬ Reachable diamond [4] 5 := by
  rintro ⟨c, hc, hr⟩
  simp at hc; subst hc
  have := Reach.le diamond_topo hr
  omega

example : (diamond 1).kind = .chained [0] := rfl

example : (runEntry diamond 7 { main := 4, rt := some 0, abiInit := true }).trace =
    [.body 0 false, .abiTypes, .body 1 true, .body 1 false, .body 3 false, .body 2 false, .body 4 false,
     .mainMain] := by decide

/-- `patched_chain` on the diamond: package 1 is chained, reachable from main -/
example : (hostTrace diamond 7 [4]).count (.body 1 true) = 1 ∧
    Bef (.body 1 true) (.body 1 false) (hostTrace diamond 7 [4]) :=
  let h := (patched_chain diamond diamond_topo 7 [4] (by decide) 1
    ⟨4, by simp, .step (q := 3) (by decide) (.step (q := 1) (by decide) (.refl 1))⟩).1 [0] rfl
  ⟨h.1, h.2.1⟩

/-- `entry_order`'s hypothesis on a concrete entry (runtime = 0, main = 4) -/
example : ∀ c ∈ ({ main := 4, rt := some 0, abiInit := true } : Entry).calls, c < 7 := by decide

/-- `init_idempotent` on the diamond: the host calls `b`, `main` — and again -/
example : callInits diamond 7 ([3, 4] ++ [3, 4]) {} = callInits diamond 7 [3, 4] {} :=
  init_idempotent diamond diamond_topo 7 [3, 4] (by decide)

/-- `unreachable_never`: package 5 is in the program but nobody imports it -/
example : (hostTrace diamond 7 [4]).count (.body 5 false) = 0 :=
  unreachable_never diamond diamond_topo 7 [4] (by decide) 5 false (by
    rintro ⟨c, hc, hr⟩
    simp at hc; subst hc
    have := Reach.le diamond_topo hr
    omega)

example : initPkg diamond 5 4 {} = initPkg diamond 9 4 {} :=
  fuel_irrelevant diamond diamond_topo 5 9 4 {} (by decide) (by decide)

/-- an emitted `init` of the shape llgo produces today, and one with the guard store moved after the
    import calls (rejected) -/
example : okShape { id := 2, toks := [.loadGuard, .brGuard .ret .body, .storeGuard, .callInit 0, .callInit 1, .act, .act, .brRet],
                    imports := [0, 1], goList := [0, 1] } = true := by decide
example : okShape { id := 2, toks := [.loadGuard, .brGuard .ret .body, .callInit 0, .callInit 1, .storeGuard, .act, .act, .brRet],
                    imports := [0, 1], goList := [0, 1] } = false := by decide
example : okShape { id := 1, hasPatchFn := true, chained := true,
                    toks := [.loadGuard, .brGuard .body .ret, .storeGuard, .callInit 0, .brRet],
                    imports := [0], goList := [0] } = true := by decide

end LlgoVerif.Init
